#!/bin/bash
# Re-runs every stored seeded change (seeded/<id>/patch.diff) against the current quick check of its
# property on a scratch worktree: each must be reported (exit 1).  Writes seeded/results.tsv.
cd /verif
OUT=seeded/results.tsv
: > "$OUT.tmp"
for d in seeded/C*/; do
  dir=$(basename "$d"); id=${dir%%-*}
  # a change seeded for one property may be a defect of the kind another property's check owns
  # (a concurrency defect in a hash command is C05's, a cluster-mode reply mix-up is C07's)
  [ -f "$d/check_with" ] && id=$(cat "$d/check_with")
  res=$(tools/seedcheck.sh "$id" "$d/patch.diff" "${1:-quick}" 2>&1 | grep '^SEED:' | tail -1)
  echo -e "$dir\t${1:-quick}\t$res" >> "$OUT.tmp"
done
mv "$OUT.tmp" "$OUT"
