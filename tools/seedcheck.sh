#!/bin/bash
# tools/seedcheck.sh <property id> <patch file> [tier]
# Applies a seeded change to a scratch worktree of /repo, confirms it compiles and that the pinned
# RedisGO tests still pass, runs the property's check against it, and removes the worktree.
set -u
ID="$1"; PATCH="$(readlink -f "$2")"; TIER="${3:-quick}"
export GOFLAGS=-mod=mod GOPROXY=off GOSUMDB=off GOTOOLCHAIN=local
WT="/var/tmp/vseed-$ID-$$"
git -C /repo worktree add --detach "$WT" HEAD >/dev/null 2>&1 || { echo "worktree failed"; exit 2; }
cleanup() { git -C /repo worktree remove --force "$WT" >/dev/null 2>&1; rm -rf "/verif/.build/alt-$(echo -n "$WT" | md5sum | cut -c1-8)"; }
trap cleanup EXIT
if ! git -C "$WT" apply "$PATCH"; then echo "SEED: patch does not apply"; exit 2; fi
( cd "$WT" && go build ./... ) || { echo "SEED: does not compile"; exit 2; }
( cd "$WT" && go test -vet=off -count=1 ./memdb/ ./server/ ./util/ ./raftexample/ >/tmp/seedtest.$$ 2>&1 && go test -vet=off -count=1 -run 'TestParseBulkHeader|TestParseMultiLine|TestParseSingleLine|TestReadLine' ./resp/ >>/tmp/seedtest.$$ 2>&1 ) || { echo "SEED: pinned RedisGO tests fail:"; tail -20 /tmp/seedtest.$$; rm -f /tmp/seedtest.$$; exit 3; }
rm -f /tmp/seedtest.$$
# etcd packages touched by the patch
for d in $(grep '^+++ b/etcd/' "$PATCH" | sed 's#^+++ b/##' | xargs -n1 dirname 2>/dev/null | sort -u); do
  mod=$(echo "$d" | cut -d/ -f1-2); [ -f "$WT/$mod/go.mod" ] || mod=$(echo "$d" | cut -d/ -f1-3)
  rel=${d#$mod/}; [ "$rel" = "$d" ] && rel=.
  ( cd "$WT/$mod" && go test -vet=off -count=1 "./$rel/" >/tmp/seedtest.$$ 2>&1 ) || { echo "SEED: etcd tests of $d fail:"; tail -20 /tmp/seedtest.$$; rm -f /tmp/seedtest.$$; exit 3; }
done
rm -f /tmp/seedtest.$$
echo "SEED: compiles, pinned tests pass; running check $ID ($TIER)"
cd /verif
# evidence/replays of the real tree must not be overwritten by a seeded run
SCR="/verif/.build/seedroot-$$"; mkdir -p "$SCR"; cp known_findings.json "$SCR/"
START=$(date +%s)
VERIF_REPO="$WT" VERIF_EVROOT="$SCR" ./vf check "$ID" --tier "$TIER" > "$SCR/out.txt" 2>&1
RC=$?
END=$(date +%s)
echo "SEED: check exit=$RC in $((END-START))s; $(grep -c '^VIOLATION' "$SCR/out.txt") VIOLATION lines"
grep -A1 '^VIOLATION' "$SCR/out.txt" | grep -v '^VIOLATION\|^--' | head -4 | cut -c1-400
rm -rf "$SCR"
exit $RC
