#!/bin/bash
# tools/fix.sh "<fix: message>"  — vet the working-tree change of /repo, run RedisGO's own package tests, commit.
set -e
export GOFLAGS=-mod=mod GOPROXY=off GOSUMDB=off GOTOOLCHAIN=local
cd /repo
test -z "$(gofmt -l memdb server resp util raftexample config logger main.go)" || { echo "gofmt"; gofmt -l memdb server resp util; exit 1; }
go build ./... 
go test -vet=off -count=1 ./memdb/ ./server/ ./util/ ./raftexample/ > /tmp/fixtest.log 2>&1 || { cat /tmp/fixtest.log | tail -30; echo "TESTS FAIL"; exit 1; }
go test -vet=off -count=1 -run 'TestParseBulkHeader|TestParseMultiLine|TestParseSingleLine|TestReadLine' ./resp/ > /tmp/fixtest.log 2>&1 || { cat /tmp/fixtest.log | tail -30; echo "TESTS FAIL"; exit 1; }
echo tests-ok
git add -A
git commit -qm "$1"
git log --oneline | head -1
