#!/usr/bin/env python3
"""Summarise unknown violation signatures of an evidence file: tools/sigs.py C09 [kind/cmd filter]"""
import json, sys, collections
e = json.load(open(f"/verif/evidence/{sys.argv[1]}.json"))
flt = sys.argv[2] if len(sys.argv) > 2 else ""
g = collections.OrderedDict()
for u in e["coverage"].get("unknown_violations") or []:
    kind, cmd, shape, fn = u["signature"].split("|")
    if flt and flt not in u["signature"]:
        continue
    g.setdefault((cmd, kind, fn), []).append((shape, u["detail"]))
for (cmd, kind, fn), l in sorted(g.items()):
    print(f"## {cmd} / {kind} {fn}  ({len(l)} shapes)")
    for shape, d in l[:int(sys.argv[3]) if len(sys.argv) > 3 else 2]:
        print(f"   [{shape}] {d[:260]}")
