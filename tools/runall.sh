#!/bin/bash
# tools/runall.sh [tier] [ids...] - runs the registered checks one after the other on /repo and prints
# exit code, wall time, VIOLATION and KNOWN-FINDING counts (used to refresh the committed evidence).
cd "$(dirname "$0")/.."
tier="${1:-quick}"; shift
ids="$@"
[ -z "$ids" ] && ids=$(python3 -c "import json;print(' '.join(c['property_id'] for c in json.load(open('MANIFEST.json'))['checks']))")
mkdir -p .build/runall
for c in $ids; do
  s=$(date +%s)
  ./vf check $c --tier $tier > .build/runall/$c-$tier.txt 2>&1
  rc=$?
  echo "$c tier=$tier rc=$rc secs=$(( $(date +%s)-s )) viol=$(grep -c '^VIOLATION' .build/runall/$c-$tier.txt) known=$(grep -c '^KNOWN-FINDING' .build/runall/$c-$tier.txt)"
done
