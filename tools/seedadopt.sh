#!/bin/bash
# tools/seedadopt.sh <id> [demo-dir]  — confirm a seeded change delivered in /tmp/seed-out/<id> and file it under seeded/<id>/
#  1. the demonstration fails WITH the change and passes WITHOUT it (scratch worktree)
#  2. the change compiles and the pinned tests pass (seedcheck)
#  3. the property's check is run against it (quick, then thorough if quick misses)
set -u
# env: SEED_SRC (default /tmp/seed-out) = directory the sub-agents wrote to; SEED_SUFFIX (e.g. -r2) = suffix of the seeded/<id><suffix> directory
ID="$1"; SRC="${SEED_SRC:-/tmp/seed-out}/$ID"; DEMODIR="${2:-}"; DEST="$ID${SEED_SUFFIX:-}"
export GOFLAGS=-mod=mod GOPROXY=off GOSUMDB=off GOTOOLCHAIN=local
[ -f "$SRC/patch.diff" ] || { echo "no patch"; exit 2; }
WT="/var/tmp/vdemo-$ID-$$"
git -C /repo worktree add --detach "$WT" HEAD >/dev/null 2>&1
trap 'git -C /repo worktree remove --force "$WT" >/dev/null 2>&1' EXIT
DEMOS=$(ls "$SRC"/*_test.go 2>/dev/null)
demo_result="no *_test.go demonstration (see meta.json)"
if [ -n "$DEMOS" ]; then
  f=$(echo "$DEMOS" | head -1)
  pkg=$(grep -m1 '^package ' "$f" | awk '{print $2}' | sed 's/_test$//')
  if [ -z "$DEMODIR" ]; then
    case "$pkg" in memdb|server|resp|util|raftexample) DEMODIR="$pkg" ;; raft) DEMODIR="etcd/raft" ;; wal) DEMODIR="etcd/server/storage/wal" ;; snap) DEMODIR="etcd/server/etcdserver/api/snap" ;; main) DEMODIR="" ;; esac
  fi
  if [ -n "$DEMODIR" ]; then
    cp $DEMOS "$WT/$DEMODIR/"
    names=$(grep -h '^func Test' $DEMOS | sed 's/func \(Test[A-Za-z0-9_]*\).*/\1/' | paste -sd'|')
    ( cd "$WT/$DEMODIR" && timeout 900 go test -vet=off -count=1 -run "^($names)\$" . > /tmp/demo-without.$$ 2>&1 ); rc_without=$?
    git -C "$WT" apply "$SRC/patch.diff" || { echo "patch does not apply"; exit 2; }
    ( cd "$WT/$DEMODIR" && timeout 900 go test -vet=off -count=1 -run "^($names)\$" . > /tmp/demo-with.$$ 2>&1 ); rc_with=$?
    demo_result="demo ($names in $DEMODIR): without change exit=$rc_without, with change exit=$rc_with"
    rm -f /tmp/demo-with.$$ /tmp/demo-without.$$
  fi
fi
echo "DEMO: $demo_result"
cd /verif
CK="${SEED_CHECK:-$ID}"   # SEED_CHECK: the check that owns this kind of defect when it is not the property's own
q=$(tools/seedcheck.sh "$CK" "$SRC/patch.diff" quick 2>&1 | grep '^SEED: check\|^SEED: pinned\|^SEED: does\|^  \[' | head -3)
echo "$q"
caught="quick"
if ! echo "$q" | grep -q 'exit=1' && [ -n "${SEED_QUICK_ONLY:-}" ]; then
  caught="MISSED(quick)"
elif ! echo "$q" | grep -q 'exit=1'; then
  t=$(tools/seedcheck.sh "$CK" "$SRC/patch.diff" thorough 2>&1 | grep '^SEED: check\|^SEED: pinned\|^SEED: does\|^  \[' | head -3)
  echo "$t"
  if echo "$t" | grep -q 'exit=1'; then caught="thorough"; else caught="MISSED"; fi
  q="$q | thorough: $t"
fi
mkdir -p "seeded/$DEST"
[ "$CK" != "$ID" ] && echo "$CK" > "seeded/$DEST/check_with"
cp "$SRC/patch.diff" "seeded/$DEST/"; cp "$SRC"/*_test.go "$SRC"/*.go "seeded/$DEST/" 2>/dev/null
python3 - "$ID" "$demo_result" "$caught" "$q" "$SRC" "$DEST" <<'PY'
import json,sys
id,demo,caught,q,src,dest=sys.argv[1:7]
try: m=json.load(open(f"{src}/meta.json"))
except Exception as e: m={"property":id,"summary":"(meta.json missing or invalid)"}
m["confirmed_by_us"]={"demonstration":demo,"check_result":caught,"check_output":q[:1500],"how":"tools/seedadopt.sh: demo run in a scratch worktree with and without the patch; tools/seedcheck.sh: go build, pinned RedisGO tests, then ./vf check against the patched worktree (VERIF_REPO)"}
json.dump(m,open(f"/verif/seeded/{dest}/meta.json","w"),indent=1)
PY
echo "ADOPTED $DEST: $caught"
