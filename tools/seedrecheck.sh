#!/bin/bash
# tools/seedrecheck.sh - re-runs, against the current quick checks, every stored seeded change that was NOT
# caught by the quick tier when it was adopted (seeded/status.tsv); writes seeded/recheck.tsv.
cd /verif
OUT=seeded/recheck.tsv
: > "$OUT.tmp"
tail -n +2 seeded/status.tsv | while IFS=$'\t' read -r dir st rest; do
  case "$st" in quick*) continue ;; esac
  d="seeded/$dir"; id=${dir%%-*}
  [ -f "$d/check_with" ] && id=$(cat "$d/check_with")
  res=$(tools/seedcheck.sh "$id" "$d/patch.diff" quick 2>&1 | grep '^SEED:' | tail -1)
  echo -e "$dir\t$id\tquick\t$res" >> "$OUT.tmp"
done
mv "$OUT.tmp" "$OUT"
