#!/bin/bash
# Reverts every fix: commit on a scratch worktree (one at a time) and runs the owning property's
# quick check against it: the check must report a VIOLATION (exit 1).  Results: seeded/reverts.tsv
cd /verif
OUT=seeded/reverts.tsv
: > "$OUT.tmp"
python3 - <<'PY' > /tmp/revert-list.txt
import json
for f in json.load(open('/verif/known_findings.json'))['findings']:
    if f['status']=='fixed':
        print(f['property'], f['commit'])
PY
while read prop commit; do
  git -C /repo diff "$commit" "$commit~1" > "/tmp/revert-$commit.patch"
  res=$(tools/seedcheck.sh "$prop" "/tmp/revert-$commit.patch" quick 2>&1 | grep '^SEED:' | tail -1)
  echo -e "$prop\t$commit\t$res\t$(git -C /repo log -1 --format=%s $commit | cut -c1-90)" >> "$OUT.tmp"
  rm -f "/tmp/revert-$commit.patch"
done < /tmp/revert-list.txt
mv "$OUT.tmp" "$OUT"
