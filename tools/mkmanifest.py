#!/usr/bin/env python3
"""Generates /verif/MANIFEST.json from the table below (single source of truth)."""
import json, os, sys
ROOT = os.path.dirname(os.path.dirname(os.path.abspath(__file__)))

# id: (claimed, engine, category, technique, text, note, design_ref)
SEQ_NOTE = "Reference model (verif/model) follows the Redis command reference (rules in DESIGN.md Appendix B); argument values outside the alphabet and its numeric-extremes passes, and programs deeper than the completed depth (+1 reading command), are not covered; the state key includes a structural fingerprint of every value object; Go map iteration order is normalised in the oracle."
def seq(text, ref):
    return (True, "seqmc", "model_checking",
        "explicit-state BFS over command programs on the real executors, compared step-by-step with a reference model",
        text, SEQ_NOTE, ref)
P = {
 "C01": seq("Every program up to the completed depth over a collision-forcing alphabet of string/key commands (all SET option combinations, index extremes, binary values, mixed-case keys), from the empty keyspace and from one seeded key of every type, is executed on the real executors; every reply, the full keyspace dump, structural invariants and an observer sweep (EXISTS/TYPE/TTL/GET/KEYS) are compared with the reference model in every reachable state.", "DESIGN.md §3 C01"),
 "C06": seq("Every program up to the completed depth over deadline-attaching / keeping / replacing / removing commands and explicit clock events (0.5 s, 1 s) on every value type, under a virtual clock, in two scheduling variants (timer goroutines run when due / withheld so only lazy expiry acts); after the last level every reading and writing probe command is applied to a replayed copy of each state. Oracle: model with exact millisecond deadlines and a one-second ambiguity window. Second stage (interleaving explorer): 22 commands pairwise on a key whose deadline has passed while its reaper timer - a third thread - has not run yet, every schedule with <= 2/3 preemptions, linearizability + final state. Numeric extremes (far-future, overflowing, foreign spellings) in every integer argument.", "DESIGN.md §3 C06, §12.5"),
 "C09": seq("Every program up to the completed depth over the list commands (elements {a,b}, indexes/counts -3..3 and beyond, all LPOS option combinations, LMOVE incl. src=dst, blocking pops driven by the virtual clock) from empty, seeded lists and wrong-typed keys; replies, LRANGE/LLEN/EXISTS/TYPE observers and the list-link invariant (forward walk = backward walk = Len) are checked in every state. Second stage (interleaving explorer, 'each element goes to exactly one popper'): every pair of 21 list commands on one key from three seed states and BLPOP against 11 partners, every schedule with <= 2/3 preemptions, plus the free-running -race pass.", "DESIGN.md §3 C09, §12.5"),
 "C10": seq("Every program up to the completed depth over the hash commands (fields {f,g,''}, values incl. empty, numeric extremes and CRLF) from empty, seeded hashes and wrong-typed keys, compared with a map model in every state.", "DESIGN.md §3 C10"),
 "C11": seq("Every program up to the completed depth over the set commands (members {a,b,''}, colliding and non-colliding keys, every combination of existing/missing/wrong-typed operands) compared with a map-of-sets model; results of random commands are adopted after checking they were admissible.", "DESIGN.md §3 C11"),
 "C12": seq("Every program up to the completed depth over ZADD (every option combination in both letter cases), ZREM, ZRANK, ZRANGE (index windows, REV, WITHSCORES) with tied, negative, fractional and infinite scores, from empty and seeded trees up to height 3; the AVL checker (BST order, stored heights, balance, len, dict<->Names) runs in every reachable state.", "DESIGN.md §3 C12"),
 "C02": (True, "respmc", "exploration",
   "exhaustive enumeration of read-chunk partitions of encoded command streams and of short malformed byte strings, against the real parser and connection handler",
   "Every argument vector over an alphabet of CR, LF, NUL, 0xFF and RESP metacharacters (incl. a 5000-byte argument and pipelines) is encoded and fed to resp.ParseStream under every partition into read chunks (all 2^(L-1) for L<=16, else <=2/3 cut points, single bytes, zero-length reads); every byte string up to length 4/5 over {*,$,+,-,:,0,1,2,a,CR,LF} plus targeted malformed families (incl. every proper prefix of four command streams = a client disconnecting at every byte, each followed by a fresh-stream probe) is fed alone and around valid commands, at parser level and through Manager.Handle with a second connection probing liveness.",
   "In-memory connections deliver exactly the scripted chunks; TCP behaviour of the built binary, longer inputs and bytes outside the alphabets are not covered.", "DESIGN.md §3 C02"),
 "C03": (True, "seqmc", "exploration",
   "exhaustive single-command sweep from payload-rich pre-states plus exhaustive short pipelines through the connection handler, replies re-decoded by an independent strict RESP decoder and compared with a reference model",
   "Every registered command x every argument vector (<= 3/4 arguments) over keys and payloads containing CR LF, from pre-states of every value type whose members, fields, values and key names contain CR LF, empty strings and RESP look-alikes: the raw reply must decode strictly to exactly one value the model accepts (payload bit-exact, nil results flagged). Every pipeline of <= 3/4 commands over a 20-command alphabet through Manager.Handle as one chunk and every two-chunk split: reply count, order and content. Reply-buffer aliasing probe (replies decoded only after later replies were built). Subscriber scripts: subscribe, push, +0/300/2000 ms, each command, second push, +0/300 ms, PING - one reply each (the in-memory connection honours write deadlines).",
   "Reference model for reply content; commands outside the model (SUBSCRIBE/PUBLISH/RCONF/MEMBER) are only checked for well-formedness; Pub/Sub pushes are C19's business.", "DESIGN.md §3 C03"),
 "C04": (True, "seqmc", "exploration",
   "bounded-exhaustive sweep of (command, argument vector, pre-state) triples on the real executors under a controlled scheduler that detects panics, blocked threads and leaked locks",
   "Every registered command (+ SELECT, an unknown name, the empty command) x every argument count 0..3 over a 21-value adversarial alphabet (thorough: up to 6 with the full alphabet in the last two positions) x pre-state {missing, one key of each type, expired key}: no panic in any goroutine, the call returns (blocking pops within their virtual-time timeout), no lock stays held, probe commands on the same / a stripe-colliding / another key complete, and the worker process survives (memory-capped, hang watchdog). Deep pre-states: the 650 states reached by every program of <= 2 commands over a 25-command builder alphabet (deadlines attached / moved / removed, renames, containers filled / moved / emptied) x every command x <= 1 (2) arguments.",
   "Parser-level inputs are C02's; values outside the alphabet and longer argument vectors are not covered; virtual clock replaces real time.", "DESIGN.md §3 C04"),
 "C17": (True, "globmc", "model_checking",
   "exhaustive enumeration of (pattern, subject) pairs up to a length bound against an independent reference matcher, directly and through KEYS",
   "Every pattern up to length 4/6 over {a,b,*,?,[,],^,-,\\} against every subject up to length 3/4 over {a,b,c,-,],^} through util.PattenMatch, and every pattern up to length 3/5 through the KEYS command on a keyspace holding all subjects of length <= 2 plus an expired key; compared with a reference matcher of the documented grammar; panics and non-termination reported.",
   "Corners the grammar leaves open (empty class, dangling '-', reversed range, '^' not first, escaped range endpoint) are computed but excluded from the verdict; longer patterns/subjects and other bytes are not covered.", "DESIGN.md §3 C17"),
 "C20": (True, "dbmc", "model_checking",
   "explicit-state search over all merges of per-connection command sequences issued through the real connection handler, compared with a per-connection model",
   "For database counts {1,2,3,16}: every merge of 2-3 connections' programs (<= 2-3 commands each) over SELECT with 18 argument forms (valid, boundary, negative, empty, non-numeric, non-canonical, overflowing, base-prefixed, digit separators), reconnects and data commands, through Manager.Handle on in-memory connections; every reply is compared with a model holding one keyspace per database and one selected index per connection, and every database dump with its model keyspace.",
   "Commands are issued one at a time (interleaving = merge of sequences); simultaneous execution is covered by C05's race pass.", "DESIGN.md §3 C20"),
 "C05": (True, "concmc", "exploration",
   "stateless preemption-bounded DFS over thread interleavings of the real executors under a cooperative scheduler (scheduling point before every lock, rwlock announce, select, invocation, response), brute-force linearizability oracle; separate free-running -race pass",
   "For ~26 hand-written scenarios of 2-4 client threads x 1-2 commands on keys forced to collide on a lock stripe / map shard, and for ~1 900 generated ones - every unordered pair of the per-type single-key alphabets (22 string, 21 list, 16 hash, 12 set, 11 sorted-set, 7 stream commands) on one key from each seed state, BLPOP against 11 list mutators, 22 commands pairwise on an expired-but-unreaped key with the reaper timer as third thread - every schedule with <= 2 (thorough 3) preemptions is executed on the real memdb executors; each complete history must be linearizable against the reference keyspace with a linearization ending in the dumped keyspace; invariants, deadlock, panic checked; the same thread bodies run free under -race (replies serialised as the connection handler does) for unsynchronised accesses.",
   "Interleavings inside regions without synchronisation operations are not explored (race pass is dynamic, not exhaustive); scenarios, not arbitrary client counts.", "DESIGN.md §3 C05"),
 "C13": (True, "concmc", "exploration",
   "exhaustive lock-order audit of every command x key-order class under lock tracing, plus preemption-bounded DFS over interleavings of multi-key command pairs with linearizability / conservation / deadlock oracles",
   "(a) every registered command x every argument vector (<= 4 arguments) over {k0,k1 (same stripe),k2,k3,...} x pre-state is run alone with lock tracing: stripe acquisition order inversion, re-acquisition, stripe-after-shard, self-deadlock and leaked locks are violations; (b) ~19 hand-written scenarios plus 668 (thorough: more seeds) generated ones - every unordered pair over per-type alphabets of multi-key commands (MSET/RENAME/LMOVE/SMOVE/*STORE/multi-key DEL, EXISTS, MGET) and single-key partners on the key triple (same stripe / other shard) -, every schedule with <= 2 (3) preemptions: scheduler-detected deadlock, linearizability over the joint keys for the atomic commands, conservation of elements, invariants; free-running -race pass.",
   "Same limits as C05; blocking-pop scenarios are schedule-capped (reported in the evidence).", "DESIGN.md §3 C13"),
 "C16": (True, "walmc", "fault_enumeration",
   "exhaustive enumeration of crash points x unsynced-sector subsets x single-byte corruptions of short WAL/snapshot histories executed on the real files through the real wal/snap code",
   "Every history up to the length bound over 15 operation shapes (plus long histories crossing two segment cuts) runs through the real wal.Create/Save/SaveSnapshot/ReleaseLockTo/cut and Snapshotter.SaveSnap on a scratch directory; at every durability callback and API return the per-file durable base is mixed sector-wise (every subset of the 512-byte sectors written since the last completed sync, file-size variants) and every image is recovered with Open+ReadAll / OpenForRead / Verify / ValidSnapshotEntries (+Repair): recovered records must be a byte-identical prefix at least as long as the acknowledged ones; every written byte is flipped with several masks and must yield an error or an unmodified prefix; damaged newest snapshot must fall back. Second generation: after the real recovery of a crash image, further histories of Saves (incl. a segment cut) are appended, then a clean reopen must return recovered state + everything appended, and the crash images of the second generation must satisfy the prefix oracle; records of 5 and 9 KiB; interval families of lost sectors (a prefix lost, the suffix kept).",
   "Fault model is the property's (sector-atomic, zero-filled preallocation, no reordering across files); one known open finding (record type byte not covered by the CRC).", "DESIGN.md §3 C16"),
 "C19": (True, "concmc", "exploration",
   "preemption-bounded DFS over interleavings of subscribe / publish / disconnect threads on the real Pub/Sub code with a linearizability oracle over (delivered sets, PUBLISH counts); separate -race pass",
   "9 scenarios (two subscribers, two channels, two publishers, connection failing, context cancelled while another subscriber registers, payloads with CR LF / empty) are explored for every schedule with <= 2 (3) preemptions; from the bytes each recording connection received, the oracle requires exactly-once intact delivery, per-publisher order, and an order of subscribe / asynchronous unsubscribe / publish operations consistent with real time that explains every delivery set and PUBLISH reply; deadlock, panic and subscriber bookkeeping at quiescence checked.",
   "In-memory connections; the shape of the SUBSCRIBE acknowledgement is C03's business.", "DESIGN.md §3 C19"),
 "C07": (True, "clustermc", "exploration",
   "iterative deviation bounding over the default schedule of an in-process 3-node cluster assembled from the real components (HandleCluster, proposal encoding, RawNode configured from startRaft's literal, the extracted Ready body on a real WAL, the real apply loop), linearizability and replica-agreement oracles; separate -race pass with concurrent clients on one node",
   "For 5 workloads (2-3 clients on leader and followers, 1-2 commands each, incl. arguments with spaces and empty strings) and every merge order of the client programs, the default schedule and every placement of <= 1 (thorough 2) deviations - drop or out-of-order delivery of a pooled Raft message, campaign on a non-leader, crash of a node with restart at the next quiescence, submitting the next command before quiescence - at every decision point are executed, plus five scripted fault families enumerated over their parameter boxes (leader isolated with an unreplicated tail / follower lag, heal, restarts; rconf delete of every node through every node; rconf add of a fourth node started with --join; malformed rconf); the client history must be linearizable (unacknowledged commands at most once), replicas with equal applied index identical, the most advanced replica the end state of a linearization, no node goroutine may panic; durability invariants: after every Ready that changes term / vote / log, and whenever an accepting MsgAppResp or granted MsgVoteResp is handed to the transport, a shadow restart from a copy of the node's files must recover what the node is about to promise. The same node code runs free under -race with three concurrent clients.",
   "rafthttp transport, the raft.Node channel wrapper, OS processes and TCP are replaced by the simulator; membership changes only through the scripted families (one change per run, stub transport peers); message duplication is C15's; claimed for the composed in-process system.", "DESIGN.md §3 C07"),
 "C08": (True, "clustermc", "fault_enumeration",
   "exhaustive enumeration of crash opportunities (event boundaries and fsync callbacks inside the real Ready handling) x node subsets x restart orders of a write history on the in-process cluster with lowered snapshot thresholds",
   "A history of acknowledged writes (strings, counter, list, set, hash, delete) runs on 1- and 3-node in-process clusters with (snapshot threshold, catch-up) in {(inf,inf),(2,1),(3,2),(3,3)}; at every event boundary of the default schedule and every fsync/fdatasync callback inside wal.Save / SaveSnap / saveSnap, every non-empty node subset is killed and restarted from its directories in every order; after stabilisation every key is read on every node and must reflect the acknowledged prefix; panics while taking / saving / loading snapshots are violations. Partition + restart families (leader isolated with 1..k unreplicated entries while a new leader acknowledges 1..k writes; follower lag) and the durability invariants of C07 (shadow restart after every Ready and at send time).",
   "Crash = process crash (written data survives; sector loss is C16); two open findings: snapshotting panics on list values, and no state is ever restored from a snapshot.", "DESIGN.md §3 C08"),
 "C14": (True, "clustermc", "model_checking",
   "differential enumeration: the same command bytes through a standalone connection handler and through the complete cluster execution path with consensus short-circuited, replies and full keyspace dumps compared",
   "For ~50 command templates covering every value type x every argument position x 10 hostile byte strings (spaces, empty, CR LF, non-UTF-8, quotes, backslash, upper case, multi-byte), other letter cases of the command name, the empty command, and every writer x reader pair with hostile arguments (also committed as ONE batch of two entries from two connections), hostile command-name elements, from a populated keyspace: HandleCluster -> proposal -> JSON entry -> publishEntries -> apply loop must give the same reply and the same keyspace as Manager.Handle.",
   "Consensus is short-circuited (one or two entries per publishEntries call); Raft carries Entry.Data opaquely (C15/C16).", "DESIGN.md §3 C14"),
 "C15": (True, "raftmc", "model_checking",
   "explicit-state search whose transition function is the real raft.RawNode: all interleavings in a small box, deviation-bounded deep search in larger boxes, invariants checked in every state",
   "3 (5) real RawNodes with MemoryStorage under deliver / drop / duplicate / reorder / tick / propose / campaign / crash / restart / compact (snapshot with payload) / delay and duplicate-and-delay of a pooled message / partition / membership-change events: Box A enumerates every interleaving up to depth 10/12 under tiny budgets, Box B explores deep runs with <= 1/2 deviations from FIFO delivery; ElectionSafety, LogMatching, StateMachineSafety, LeaderCompleteness, commit/applied ordering, persisted term/vote/commit monotonicity, commit / applied / snapshot monotonicity, no committed entry removed, no obsolete snapshot installed, and library panics are checked on every transition; 1 in 64 states is re-executed without memoisation.",
   "Budgets (terms, proposals, crashes) bound the boxes; member histories are memoised per worker (guarded by straight-line re-validation); see DESIGN §3 C15 deviations.", "DESIGN.md §3 C15"),
 "C18": seq("Every program up to the completed depth over XADD (explicit, partial and auto ids; NOMKSTREAM; MAXLEN/MINID with = and ~) and XRANGE (every bound shape) plus millisecond clock events, compared with an ordered-slice model; id order and id<->entry bijection are checked in every state.", "DESIGN.md §3 C18"),
}
NOT_YET = "check not built yet (work in progress in this session; see DESIGN.md for the planned engine)"

def main():
    checks, na = [], []
    ids = [json.loads(l)["id"] for l in open(os.path.join(ROOT, "properties.jsonl"))]
    for pid in ids:
        if pid in P and P[pid][0]:
            _, eng, cat, tech, text, note, ref = P[pid]
            checks.append({
                "property_id": pid,
                "quick_cmd": f"./vf check {pid} --tier quick",
                "thorough_cmd": f"./vf check {pid} --tier thorough",
                "evidence_file": f"/verif/evidence/{pid}.json",
                "replay_cmd_template": "./vf replay {path}",
                "engine": eng,
                "level_claimed": {"category": cat, "text": text, "design_ref": ref},
                "level_note": note,
                "technique": tech,
            })
        else:
            na.append({"property_id": pid, "reason": NOT_YET})
    m = {
        "version": 1,
        "setup_cmd": "./vf setup",
        "hooks": {
            "guard": "verif",
            "enable": "go build -tags verif -overlay <generated by verif/instr from the current /repo tree>; no hook source is committed to /repo, instrumentation (sync/time/go/select shims, exported dump/invariant files, fsync callback, raft Ready extraction) is injected through the build overlay",
            "baseline_off_cmd": "for m in . etcd etcd/api etcd/client/pkg etcd/client/v2 etcd/client/v3 etcd/pkg etcd/raft etcd/server; do (cd /repo/$m && GOFLAGS=-mod=mod go test -json -vet=off -count=1 -timeout 25m ./...); done",
            "source_commits": [],
            "add_only": True,
        },
        "engines": [],
        "checks": checks,
        "notes": "All checks are bounded-exhaustive enumerations (model checking family). See DESIGN.md.",
        "not_applicable": na,
    }
    json.dump(m, open(os.path.join(ROOT, "MANIFEST.json"), "w"), indent=1)
    print(f"MANIFEST.json: {len(checks)} checks, {len(na)} not claimed")

main()
