package h

import (
	"fmt"
	"sort"
	"strings"

	"github.com/innovationb1ue/RedisGO/memdb"
	"verif/model"
)

// CanonOf converts an implementation dump into the model's canonical form.
func CanonOf(d *memdb.VerifDumpT) []model.CanonKey {
	var out []model.CanonKey
	for _, k := range d.Keys {
		c := model.CanonKey{Key: k.Key, Type: k.Type}
		if k.HasTTL {
			c.TTL = k.TTL * 1000
			if c.TTL == 0 {
				c.TTL = 1
			}
		}
		var b strings.Builder
		switch k.Type {
		case "string":
			fmt.Fprintf(&b, "%q", k.Str)
		case "list":
			for _, x := range k.List {
				fmt.Fprintf(&b, "%q,", x)
			}
		case "hash":
			for _, fv := range k.Hash {
				fmt.Fprintf(&b, "%q=%q;", fv[0], []byte(fv[1]))
			}
		case "set":
			for _, m := range k.Set {
				fmt.Fprintf(&b, "%q;", m)
			}
		case "zset":
			z := append([]memdb.VerifZ{}, k.ZSet...)
			sort.SliceStable(z, func(i, j int) bool {
				if z[i].Score != z[j].Score {
					return z[i].Score < z[j].Score
				}
				return z[i].Member < z[j].Member
			})
			for _, x := range z {
				fmt.Fprintf(&b, "%q=%s;", x.Member, model.FmtScore(x.Score))
			}
		case "stream":
			for _, e := range k.Stream {
				fmt.Fprintf(&b, "%s:%q;", e.ID, e.Fields)
			}
		}
		c.Body = b.String()
		out = append(out, c)
	}
	sort.Slice(out, func(i, j int) bool { return out[i].Key < out[j].Key })
	return out
}
