// Package h holds what every engine needs to bring RedisGO up the way main() does and to
// drive it under the verifrt runtime.
package h

import (
	"context"
	"fmt"
	"io"
	"log"
	"net"
	"os"
	"path/filepath"
	"sync"

	"github.com/innovationb1ue/RedisGO/config"
	"github.com/innovationb1ue/RedisGO/logger"
	"github.com/innovationb1ue/RedisGO/memdb"
	"github.com/innovationb1ue/RedisGO/resp"
	"github.com/innovationb1ue/RedisGO/server"
	"github.com/innovationb1ue/RedisGO/util"
	rt "github.com/innovationb1ue/RedisGO/verifrt"
)

var bootOnce sync.Once

// Cfg is the configuration the harness runs RedisGO with.
var Cfg *config.Config

// Boot performs what main.init/main do: command registration, config.Configures, logger.
func Boot(shardNum, databases int) {
	bootOnce.Do(func() {
		memdb.RegisterKeyCommands()
		memdb.RegisterStringCommands()
		memdb.RegisterListCommands()
		memdb.RegisterSetCommands()
		memdb.RegisterHashCommands()
		memdb.RegisterPubSubCommands()
		memdb.RegisterSortedSetCommands()
		memdb.RegisterStreamCommands()
		memdb.RegisterRaftCommand()
		log.SetOutput(io.Discard)
		dir := filepath.Join(os.TempDir(), fmt.Sprintf("verif-log-%d", os.Getpid()))
		if sh := os.Getenv("VERIF_SCRATCH"); sh != "" {
			dir = filepath.Join(sh, fmt.Sprintf("log-%d", os.Getpid()))
		}
		os.MkdirAll(dir, 0o755)
		Cfg = &config.Config{Host: "127.0.0.1", Port: 6380, LogDir: dir, LogLevel: "panic",
			ShardNum: shardNum, ChanBufferSize: 10, Databases: databases, Others: map[string]any{}}
		config.Configures = Cfg
		if err := logger.SetUp(Cfg); err != nil {
			panic(err)
		}
		logger.Disable()
		os.RemoveAll(dir)
	})
	Cfg.ShardNum = shardNum
	Cfg.Databases = databases
}

func NewManager() *server.Manager { return server.NewManager(Cfg) }

// KeySet is a key alphabet with a known collision structure (ShardNum shards, 2*ShardNum stripes).
type KeySet struct {
	K0, K1 string // same stripe (hence same shard)
	K2     string // different shard (hence different stripe)
	K3     string // same shard as K0, different stripe
}

// Keys computes a collision-forcing alphabet from util.HashKey.
func Keys(shardNum int) KeySet {
	stripe := func(k string) int { return util.HashKey(k) % (2 * shardNum) }
	shard := func(k string) int { return util.HashKey(k) % shardNum }
	var cands []string
	for c := 'a'; c <= 'z'; c++ {
		cands = append(cands, "k"+string(c))
	}
	for c := 'a'; c <= 'z'; c++ {
		for d := '0'; d <= '9'; d++ {
			cands = append(cands, "k"+string(c)+string(d))
		}
	}
	ks := KeySet{K0: cands[0]}
	for _, c := range cands[1:] {
		switch {
		case ks.K1 == "" && stripe(c) == stripe(ks.K0):
			ks.K1 = c
		case ks.K2 == "" && shard(c) != shard(ks.K0):
			ks.K2 = c
		case ks.K3 == "" && shard(c) == shard(ks.K0) && stripe(c) != stripe(ks.K0):
			ks.K3 = c
		}
	}
	if ks.K1 == "" || ks.K2 == "" || ks.K3 == "" {
		panic("h.Keys: could not build a colliding key alphabet")
	}
	return ks
}

// Exec runs one command through Manager.ExecCommand and returns the reply bytes
// (nil result => nil slice, which server.Handle turns into "-unknown error").
func Exec(ctx context.Context, m *server.Manager, conn net.Conn, args ...[]byte) []byte {
	r := m.ExecCommand(ctx, args, conn)
	return ReplyBytes(r)
}

func ReplyBytes(r resp.RedisData) []byte {
	if r == nil {
		return nil
	}
	// typed nil pointers inside the interface
	defer func() { recover() }()
	return r.ToBytes()
}

// B converts strings to a command vector.
func B(args ...string) [][]byte {
	out := make([][]byte, len(args))
	for i, a := range args {
		out[i] = []byte(a)
	}
	return out
}

// RunResult is what one controlled execution of a thread body produced.
type RunResult struct {
	Panic    *rt.PanicRec
	Deadlock bool // the thread did not finish and nothing is enabled
	Blocked  []string
}

// RunThread runs fn as a client thread of w to completion under the default policy
// (client first, then background threads until quiescence when bg is true).
func RunThread(w *rt.World, name string, bg bool, fn func()) RunResult {
	t := w.Spawn(name, fn)
	w.Chooser = func(w *rt.World, cur *rt.Thread, en []*rt.Thread) *rt.Thread {
		for _, e := range en {
			if e == t {
				return e
			}
		}
		if !t.Done {
			// client blocked: let others run (they may release what it waits for)
			for _, e := range en {
				if e == cur {
					return e
				}
			}
			return en[0]
		}
		if !bg {
			return nil
		}
		for _, e := range en {
			if e == cur {
				return e
			}
		}
		return en[0]
	}
	w.Run()
	var res RunResult
	res.Panic = t.Panic
	if !t.Done {
		res.Deadlock = true
		for _, b := range w.Blocked() {
			res.Blocked = append(res.Blocked, fmt.Sprintf("%s:%s", b.Name, b.Op.Kind))
		}
	}
	return res
}
