package h

import (
	"errors"
	"io"
	"net"
	"os"
	"sync"
	"time"

	rt "github.com/innovationb1ue/RedisGO/verifrt"

	"verif/model"
)

// Conn is an in-memory net.Conn: the harness feeds the bytes the server will read and collects
// what the server writes.
type Conn struct {
	mu      sync.Mutex
	cond    *sync.Cond
	in      []byte // bytes the server has not read yet
	chunks  [][]byte
	out     []byte    // bytes written by the server
	closed  bool      // server side closed
	eof     bool      // harness closed its writing side
	failW   bool      // writes fail (peer gone)
	wdl     time.Time // write deadline set by the server (zero: none)
	stalled bool      // the peer has stopped reading: only room more bytes fit
	room    int
	Name    string
	Writes  int
	ReadLog []int // sizes of the reads the server performed
}

func NewConn(name string) *Conn {
	c := &Conn{Name: name}
	c.cond = sync.NewCond(&c.mu)
	return c
}

type addr string

func (a addr) Network() string { return "mem" }
func (a addr) String() string  { return string(a) }

func (c *Conn) LocalAddr() net.Addr               { return addr("server") }
func (c *Conn) RemoteAddr() net.Addr              { return addr(c.Name) }
func (c *Conn) SetDeadline(t time.Time) error     { return c.SetWriteDeadline(t) }
func (c *Conn) SetReadDeadline(t time.Time) error { return nil }

// SetWriteDeadline is honoured the way a net.Conn honours it: once the deadline has passed every
// Write fails until a new deadline is set.  The deadline is compared with the clock it was most
// probably computed from: the virtual clock of the instrumented packages (memdb, resp, util) or
// the real one (server) - whichever is nearer to it.
func (c *Conn) SetWriteDeadline(t time.Time) error {
	c.mu.Lock()
	c.wdl = t
	c.mu.Unlock()
	return nil
}

func (c *Conn) writeExpired() bool {
	if c.wdl.IsZero() {
		return false
	}
	realNow := time.Now()
	now := realNow
	if w := rt.CurWorld(); w != nil {
		v := w.TimeNow()
		dv, dr := c.wdl.Sub(v), c.wdl.Sub(realNow)
		if dv < 0 {
			dv = -dv
		}
		if dr < 0 {
			dr = -dr
		}
		if dv < dr {
			now = v
		}
	}
	return !now.Before(c.wdl)
}

// Read (server side) returns the next scripted chunk if chunks were given, else whatever is buffered.
func (c *Conn) Read(p []byte) (int, error) {
	// under the controlled scheduler waiting for input is blocking on the scheduler, not on the
	// condition variable: enabled when there is something to return
	if rt.CurMode == rt.Controlled {
		if w := rt.W; w != nil && w.Cur != nil && !w.Dead() {
			w.Point(rt.Op{Kind: rt.OpIO, Obj: c, Enabled: func() bool {
				c.mu.Lock()
				defer c.mu.Unlock()
				return len(c.in) > 0 || len(c.chunks) > 0 || c.eof || c.closed
			}})
		}
	}
	c.mu.Lock()
	defer c.mu.Unlock()
	for len(c.in) == 0 && len(c.chunks) == 0 && !c.eof && !c.closed {
		c.cond.Wait()
	}
	if c.closed {
		return 0, io.ErrClosedPipe
	}
	if len(c.in) == 0 && len(c.chunks) > 0 {
		c.in = c.chunks[0]
		c.chunks = c.chunks[1:]
		if len(c.in) == 0 {
			c.ReadLog = append(c.ReadLog, 0)
			return 0, nil
		}
	}
	if len(c.in) == 0 {
		return 0, io.EOF
	}
	n := copy(p, c.in)
	c.in = c.in[n:]
	c.ReadLog = append(c.ReadLog, n)
	return n, nil
}

func (c *Conn) Write(p []byte) (int, error) {
	// a write to the network is a visible action: under the controlled scheduler it is a scheduling
	// point, so that two goroutines writing to one connection (a publisher pushing a message, the
	// connection's own handler writing a reply, a publisher of another channel) interleave write by
	// write - a frame sent with two Write calls can be split by another writer.
	// A write to a peer that has stopped reading (Stall) blocks like a write to a full socket: it is
	// enabled again when the peer resumes, when the connection is closed, or - if the writer set a
	// write deadline - at once, as the write whose deadline passes while the peer is still stalled.
	blockedNow := func() bool {
		return c.stalled && c.room < len(p) && c.wdl.IsZero() && !c.closed && !c.failW
	}
	if rt.CurMode == rt.Controlled {
		if w := rt.W; w != nil && w.Cur != nil && !w.Dead() {
			w.Point(rt.Op{Kind: rt.OpYield, Obj: c, Enabled: func() bool {
				c.mu.Lock()
				defer c.mu.Unlock()
				return !blockedNow()
			}})
		}
	}
	c.mu.Lock()
	defer c.mu.Unlock()
	for blockedNow() {
		c.cond.Wait()
	}
	if c.closed || c.failW {
		return 0, errors.New("write on closed connection")
	}
	if c.writeExpired() {
		return 0, os.ErrDeadlineExceeded
	}
	if c.stalled && c.room < len(p) {
		// deadline set, peer stalled for longer than it: the part that fitted is on the wire
		n := c.room
		c.out = append(c.out, p[:n]...)
		c.room = 0
		c.Writes++
		c.cond.Broadcast()
		return n, os.ErrDeadlineExceeded
	}
	if c.stalled {
		c.room -= len(p)
	}
	c.out = append(c.out, p...)
	c.Writes++
	c.cond.Broadcast()
	return len(p), nil
}

func (c *Conn) Close() error {
	c.mu.Lock()
	c.closed = true
	c.cond.Broadcast()
	c.mu.Unlock()
	return nil
}

// Send (harness side) makes b available to the server as one read chunk.
func (c *Conn) Send(b []byte) {
	c.mu.Lock()
	c.chunks = append(c.chunks, append([]byte{}, b...))
	c.cond.Broadcast()
	c.mu.Unlock()
}

// SendChunks scripts the exact sequence of read results.
func (c *Conn) SendChunks(chunks [][]byte) {
	c.mu.Lock()
	for _, b := range chunks {
		c.chunks = append(c.chunks, append([]byte{}, b...))
	}
	c.cond.Broadcast()
	c.mu.Unlock()
}

// EOF (harness side) signals that the client closed its writing side.
func (c *Conn) EOF() {
	c.mu.Lock()
	c.eof = true
	c.cond.Broadcast()
	c.mu.Unlock()
}

// Stall (harness side): the peer stops reading; room more bytes still fit into the buffers on the
// way.  Resume: it reads again.
func (c *Conn) Stall(room int) {
	c.mu.Lock()
	c.stalled, c.room = true, room
	c.mu.Unlock()
}

func (c *Conn) Resume() {
	c.mu.Lock()
	c.stalled = false
	c.cond.Broadcast()
	c.mu.Unlock()
}

// FailWrites makes every later server write fail (the peer went away).
func (c *Conn) FailWrites() {
	c.mu.Lock()
	c.failW = true
	c.mu.Unlock()
}

func (c *Conn) Closed() bool { c.mu.Lock(); defer c.mu.Unlock(); return c.closed }

// Output returns a copy of everything the server wrote so far.
func (c *Conn) Output() []byte { c.mu.Lock(); defer c.mu.Unlock(); return append([]byte{}, c.out...) }

// Patience is the floor of every wall-clock wait of the harness.  "Did not answer" is the only
// verdict that depends on real time, and it is only sound if the bound is far above anything a busy
// machine can do to a microsecond operation: callers' shorter timeouts are raised to it.  Engines cap
// the number of timeouts they pursue (each costs Patience) and report the cut.
var Patience = 45 * time.Second

func patient(d time.Duration) time.Duration {
	if d < Patience {
		return Patience
	}
	return d
}

// TakeReply waits until the server has written at least one complete RESP value (or the
// connection is closed, or the timeout passes) and removes it from the output buffer.
func (c *Conn) TakeReply(timeout time.Duration) (raw []byte, v model.Val, status string) {
	timeout = patient(timeout)
	deadline := time.Now().Add(timeout)
	timer := time.AfterFunc(timeout, func() { c.mu.Lock(); c.cond.Broadcast(); c.mu.Unlock() })
	defer timer.Stop()
	c.mu.Lock()
	defer c.mu.Unlock()
	for {
		if len(c.out) > 0 {
			val, n, err := model.Decode(c.out)
			if err == nil {
				raw = append([]byte{}, c.out[:n]...)
				c.out = c.out[n:]
				return raw, val, "ok"
			}
			if !isIncomplete(err) {
				raw = append([]byte{}, c.out...)
				c.out = nil
				return raw, model.Val{}, "malformed: " + err.Error()
			}
		}
		if c.closed {
			return nil, model.Val{}, "closed"
		}
		if time.Now().After(deadline) {
			return nil, model.Val{}, "timeout"
		}
		c.cond.Wait()
	}
}

// ReplyReady: the server has written at least one complete RESP value, or something that can
// never become one, or has closed the connection (non-blocking; for harness threads that wait on
// the controlled scheduler).
func (c *Conn) ReplyReady() bool {
	c.mu.Lock()
	defer c.mu.Unlock()
	if c.closed {
		return true
	}
	if len(c.out) == 0 {
		return false
	}
	_, _, err := model.Decode(c.out)
	return err == nil || !isIncomplete(err)
}

// TryTakeReply is TakeReply without waiting (call when ReplyReady).
func (c *Conn) TryTakeReply() (raw []byte, v model.Val, status string) {
	c.mu.Lock()
	defer c.mu.Unlock()
	if len(c.out) > 0 {
		val, n, err := model.Decode(c.out)
		if err == nil {
			raw = append([]byte{}, c.out[:n]...)
			c.out = c.out[n:]
			return raw, val, "ok"
		}
		if !isIncomplete(err) {
			raw = append([]byte{}, c.out...)
			c.out = nil
			return raw, model.Val{}, "malformed: " + err.Error()
		}
	}
	if c.closed {
		return nil, model.Val{}, "closed"
	}
	return nil, model.Val{}, "none"
}

func isIncomplete(err error) bool {
	s := err.Error()
	for _, frag := range []string{"unterminated line", "truncated", "empty", "array element"} {
		if len(s) >= len(frag) && contains(s, frag) {
			// an array element error is "incomplete" only if its cause is
			if frag == "array element" {
				return contains(s, "unterminated line") || contains(s, "truncated") || contains(s, "empty")
			}
			return true
		}
	}
	return false
}

func contains(s, sub string) bool {
	for i := 0; i+len(sub) <= len(s); i++ {
		if s[i:i+len(sub)] == sub {
			return true
		}
	}
	return false
}

// WaitClosed waits until the server closed the connection.
func (c *Conn) WaitClosed(timeout time.Duration) bool {
	timeout = patient(timeout)
	deadline := time.Now().Add(timeout)
	timer := time.AfterFunc(timeout, func() { c.mu.Lock(); c.cond.Broadcast(); c.mu.Unlock() })
	defer timer.Stop()
	c.mu.Lock()
	defer c.mu.Unlock()
	for !c.closed {
		if time.Now().After(deadline) {
			return false
		}
		c.cond.Wait()
	}
	return true
}
