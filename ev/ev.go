// Package ev writes evidence files, matches violations against known_findings.json and
// prints the VIOLATION / KNOWN-FINDING lines of the check interface.
package ev

import (
	"crypto/sha1"
	"encoding/hex"
	"encoding/json"
	"fmt"
	"os"
	"os/exec"
	"path/filepath"
	"regexp"
	"sort"
	"strconv"
	"strings"
	"time"
)

// Root is /verif (overridable for runs from a snapshot).
func Root() string {
	if r := os.Getenv("VERIF_EVROOT"); r != "" {
		return r
	}
	if r := os.Getenv("VERIF_ROOT"); r != "" {
		return r
	}
	return "/verif"
}

type Violation struct {
	Property string      `json:"property"`
	Engine   string      `json:"engine"`
	Kind     string      `json:"kind"`
	Cmd      string      `json:"cmd"`
	Shape    string      `json:"shape"`
	Func     string      `json:"func,omitempty"`
	Detail   string      `json:"detail"`
	Replay   interface{} `json:"replay"`
}

func (v *Violation) Signature() string {
	return v.Kind + "|" + v.Cmd + "|" + v.Shape + "|" + v.Func
}

type Finding struct {
	Status   string `json:"status"` // open | fixed
	Property string `json:"property"`
	ID       string `json:"id"`
	Kind     string `json:"kind,omitempty"`  // regexp (anchored)
	Cmd      string `json:"cmd,omitempty"`   // regexp (anchored)
	Shape    string `json:"shape,omitempty"` // regexp (anchored)
	Func     string `json:"func,omitempty"`  // regexp (anchored)
	What     string `json:"what"`
	Commit   string `json:"commit,omitempty"`
}

type findingsFile struct {
	Findings []Finding `json:"findings"`
}

func LoadFindings() []Finding {
	b, err := os.ReadFile(filepath.Join(Root(), "known_findings.json"))
	if err != nil {
		return nil
	}
	var f findingsFile
	if err := json.Unmarshal(b, &f); err != nil {
		fmt.Fprintf(os.Stderr, "known_findings.json: %v\n", err)
		os.Exit(2)
	}
	return f.Findings
}

func full(re, s string) bool {
	if re == "" {
		return true
	}
	r, err := regexp.Compile("^(?:" + re + ")$")
	if err != nil {
		fmt.Fprintf(os.Stderr, "known_findings.json: bad regexp %q: %v\n", re, err)
		os.Exit(2)
	}
	return r.MatchString(s)
}

func (f *Finding) Matches(v *Violation) bool {
	return f.Status == "open" && f.Property == v.Property &&
		full(f.Kind, v.Kind) && full(f.Cmd, v.Cmd) && full(f.Shape, v.Shape) && full(f.Func, v.Func)
}

// Evidence mirrors EVIDENCE.schema.json.
type Evidence struct {
	PropertyID  string                 `json:"property_id"`
	Tier        string                 `json:"tier"`
	Seed        int64                  `json:"seed"`
	Level       string                 `json:"level"`
	Coverage    map[string]interface{} `json:"coverage"`
	Assumptions []string               `json:"assumptions,omitempty"`
	WallS       float64                `json:"wall_s"`
	Violations  int                    `json:"violations"`
}

// Report collects the violations of one check run.
type Report struct {
	Property string
	Tier     string
	Level    string
	Start    time.Time
	viol     map[string][]*Violation // by signature
	order    []string
}

func NewReport(property, level string) *Report {
	tier := os.Getenv("VERIF_TIER")
	if tier != "thorough" {
		tier = "quick"
	}
	return &Report{Property: property, Tier: tier, Level: level, Start: time.Now(), viol: map[string][]*Violation{}}
}

func Seed() int64 {
	n, _ := strconv.ParseInt(os.Getenv("VERIF_SEED"), 10, 64)
	return n
}

func (r *Report) Add(v *Violation) {
	v.Property = r.Property
	s := v.Signature()
	if _, ok := r.viol[s]; !ok {
		r.order = append(r.order, s)
	}
	if len(r.viol[s]) < 3 {
		r.viol[s] = append(r.viol[s], v)
	} else {
		r.viol[s] = append(r.viol[s][:3], r.viol[s][3:]...)
	}
}

func (r *Report) Count() int { return len(r.order) }

// Export writes the violations and the coverage map of a sub-check to path (used when one check is
// composed of two engines: the second engine runs as a subprocess and the first one merges).
func (r *Report) Export(path string, cov map[string]interface{}) error {
	var vs []*Violation
	for _, s := range r.order {
		vs = append(vs, r.viol[s][0])
	}
	b, _ := json.Marshal(map[string]interface{}{"violations": vs, "coverage": cov})
	return os.WriteFile(path, b, 0o644)
}

// Import merges an exported sub-report and returns its coverage map.
func (r *Report) Import(path string) (map[string]interface{}, error) {
	b, err := os.ReadFile(path)
	if err != nil {
		return nil, err
	}
	var x struct {
		Violations []*Violation           `json:"violations"`
		Coverage   map[string]interface{} `json:"coverage"`
	}
	if err := json.Unmarshal(b, &x); err != nil {
		return nil, err
	}
	for _, v := range x.Violations {
		r.Add(v)
	}
	return x.Coverage, nil
}

// ConcStage runs the concurrent stage of a composed check: the interleaving explorer (engines/concmc,
// binary in VERIF_CONC_BIN) for property prop as a subprocess; its violations are merged into r and a
// summary of its coverage is returned.  ran == false: no binary configured.  err != nil: the stage could
// not run (the check has no verdict).
func (r *Report) ConcStage(prop string) (summary map[string]interface{}, ran bool, err error) {
	bin := os.Getenv("VERIF_CONC_BIN")
	if bin == "" {
		return nil, false, nil
	}
	dir := os.Getenv("VERIF_SCRATCH")
	if dir == "" {
		dir = os.TempDir()
	}
	tmp := filepath.Join(dir, fmt.Sprintf("verif-sub-%d.json", os.Getpid()))
	cmd := exec.Command(bin, prop)
	cmd.Env = append(os.Environ(), "VERIF_SUBREPORT="+tmp)
	cmd.Stderr = os.Stderr
	if e := cmd.Run(); e != nil {
		return nil, true, fmt.Errorf("the concurrent stage of %s failed to run: %v", prop, e)
	}
	sub, e := r.Import(tmp)
	os.Remove(tmp)
	if e != nil {
		return nil, true, fmt.Errorf("cannot read the concurrent stage's report: %v", e)
	}
	return map[string]interface{}{"engine": "concmc", "schedules": sub["evaluations"], "preemption_bound": sub["preemption_bound"], "generated_pairs": sub["generated_pairs"],
		"per_scenario": sub["per_scenario"], "race_pass_runs": sub["race_pass_runs"], "race_reports": sub["race_reports"], "exhaustive": sub["exhaustive"]}, true, nil
}

// Finish writes the evidence file, prints the interface lines and returns the exit code.
func (r *Report) Finish(cov map[string]interface{}, assumptions []string) int {
	findings := LoadFindings()
	sort.Strings(r.order)
	matched := map[string][]string{} // finding id -> signatures
	var unknown []string
	for _, s := range r.order {
		v := r.viol[s][0]
		hit := false
		for i := range findings {
			if findings[i].Matches(v) {
				id := findings[i].ID
				matched[id] = append(matched[id], s)
				hit = true
				break
			}
		}
		if !hit {
			unknown = append(unknown, s)
		}
	}
	var ids []string
	for id := range matched {
		ids = append(ids, id)
	}
	sort.Strings(ids)
	var knownList []map[string]interface{}
	for _, id := range ids {
		for i := range findings {
			if findings[i].ID == id && findings[i].Property == r.Property {
				fmt.Printf("KNOWN-FINDING: property=%s %s: %s\n", r.Property, id, findings[i].What)
				knownList = append(knownList, map[string]interface{}{"id": id, "signatures": len(matched[id])})
				break
			}
		}
	}
	os.MkdirAll(filepath.Join(Root(), "replays"), 0o755)
	var unkList []map[string]interface{}
	for _, s := range unknown {
		v := r.viol[s][0]
		h := sha1.Sum([]byte(s))
		path := filepath.Join(Root(), "replays", fmt.Sprintf("%s-%s.json", r.Property, hex.EncodeToString(h[:6])))
		b, _ := json.MarshalIndent(v, "", " ")
		os.WriteFile(path, b, 0o644)
		fmt.Printf("VIOLATION property=%s replay=%s\n", r.Property, path)
		fmt.Fprintf(os.Stderr, "  [%s] %s\n", s, oneLine(v.Detail))
		unkList = append(unkList, map[string]interface{}{"signature": s, "detail": oneLine(v.Detail), "replay": path})
	}
	cov["known_findings_matched"] = knownList
	cov["unknown_violations"] = unkList
	e := Evidence{PropertyID: r.Property, Tier: r.Tier, Seed: Seed(), Level: r.Level, Coverage: cov,
		Assumptions: assumptions, WallS: time.Since(r.Start).Seconds(), Violations: len(unknown)}
	b, _ := json.MarshalIndent(e, "", " ")
	os.MkdirAll(filepath.Join(Root(), "evidence"), 0o755)
	if err := os.WriteFile(filepath.Join(Root(), "evidence", r.Property+".json"), b, 0o644); err != nil {
		fmt.Fprintln(os.Stderr, err)
		return 2
	}
	if len(unknown) > 0 {
		return 1
	}
	return 0
}

func oneLine(s string) string {
	s = strings.ReplaceAll(s, "\n", " ")
	if len(s) > 300 {
		s = s[:300] + "…"
	}
	return s
}
