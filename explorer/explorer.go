// Package explorer is E2: a stateless, preemption-bounded depth-first search over the thread
// interleavings of a small concurrent harness running on the real code under the cooperative
// runtime (verifrt, Controlled mode).
//
// A schedule is the sequence of choices made at the scheduling points of one execution; choice 0
// is "keep running the current thread if it is still enabled, else the lowest thread id".  A
// choice != 0 while the running thread is still enabled is a preemption.  Executions always run
// to completion.  Bounds 0,1,2,... are completed in order by the caller.
package explorer

import (
	"fmt"
	"sort"

	rt "github.com/innovationb1ue/RedisGO/verifrt"
)

// Instance is one fresh copy of the harness.
type Instance struct {
	World   *rt.World
	Threads []func() // client thread bodies (thread i gets id i)
	Names   []string
	// Close is called after the execution (the world is killed by the explorer).
	Close func()
}

type point struct {
	n              int  // number of enabled threads
	runningEnabled bool // the running thread was among them
	choice         int
}

// Outcome describes how one execution ended.
type Outcome struct {
	Diverged  bool
	Choices   []int
	Deadlock  bool
	Blocked   []string
	Horizon   bool
	Panics    []*rt.PanicRec
	Steps     int64
	Preempted int
}

type Stats struct {
	Diverged      int // replays that did not fit their prefix (TolerateDivergence)
	Schedules     int
	Preemptive    int // schedules with at least one preemption
	MaxPoints     int
	BoundComplete int
	Truncated     bool // the schedule cap was hit
}

type Explorer struct {
	Bound        int
	MaxSchedules int
	// AutoAdvance lets virtual time jump to the next timer when nothing is enabled.
	AutoAdvance bool
	HorizonNs   int64 // virtual-time horizon for AutoAdvance
	// Deviations: every departure from the default choice costs one unit of Bound, also at points
	// where the running thread is blocked (iterative deviation bounding instead of preemption
	// bounding: for long executions with many blocking points - connection handlers, parser
	// goroutines, channel rendezvous - the free choices at blocking points alone are exponentially
	// many).  The default choice is: keep running; when blocked, the lowest thread id.
	Deviations bool
	// Shard / Of split the search between processes: the schedules below the k-th first-level
	// alternative belong to shard k mod Of; the default schedule itself to shard 0.  Of = 0: no split.
	Shard, Of int
	// Reverse: the default choice when the running thread is blocked is the HIGHEST thread id instead
	// of the lowest (a second default schedule: the deviation ball around it is another region)
	Reverse bool
	// TolerateDivergence: a replay whose prefix no longer fits (a choice index beyond the enabled
	// threads) is not a hard error but ends that branch; it is counted.  For scenarios that contain a
	// source of nondeterminism no seam owns (PUBLISH walks its subscribers in Go's map iteration order):
	// every execution that is run is still a real execution and is judged, only the systematic
	// enumeration below the diverging prefix is lost (and reported).
	TolerateDivergence bool
}

// Run executes one schedule: prefix is replayed (a choice out of range is a hard error), then
// choice 0 is taken at every later point.
func (e *Explorer) Run(mk func() *Instance, prefix []int) (*Instance, *Outcome, []point) {
	in := mk()
	w := in.World
	var pts []point
	var replayErr string
	ths := make([]*rt.Thread, len(in.Threads))
	for i, f := range in.Threads {
		name := fmt.Sprintf("t%d", i)
		if i < len(in.Names) {
			name = in.Names[i]
		}
		ths[i] = w.Spawn(name, f)
	}
	w.MaxSteps = 200000
	w.Chooser = func(w *rt.World, cur *rt.Thread, en []*rt.Thread) *rt.Thread {
		// canonical order: running thread first (if enabled), then ascending ids
		sort.Slice(en, func(i, j int) bool {
			if e.Reverse {
				return en[i].ID > en[j].ID
			}
			return en[i].ID < en[j].ID
		})
		order := make([]*rt.Thread, 0, len(en))
		runEn := false
		for _, t := range en {
			if t == cur {
				runEn = true
				order = append(order, t)
			}
		}
		for _, t := range en {
			if t != cur {
				order = append(order, t)
			}
		}
		c := 0
		if i := len(pts); i < len(prefix) {
			c = prefix[i]
			if c >= len(order) {
				replayErr = fmt.Sprintf("replay diverged at point %d: choice %d of %d", i, c, len(order))
				c = 0
			}
		}
		pts = append(pts, point{n: len(order), runningEnabled: runEn, choice: c})
		return order[c]
	}
	out := &Outcome{}
	start := w.Now
	for {
		w.Run()
		live := w.Live()
		clientsLive := false
		for _, t := range ths {
			if !t.Done {
				clientsLive = true
			}
		}
		if len(live) == 0 || (!clientsLive && len(w.EnabledThreads()) == 0) {
			break
		}
		if w.Horizon {
			out.Horizon = true
			break
		}
		if len(w.EnabledThreads()) > 0 {
			continue
		}
		nt := w.NextTimer()
		if e.AutoAdvance && nt >= 0 && nt-start <= e.HorizonNs {
			w.Advance(nt - w.Now)
			continue
		}
		if clientsLive {
			out.Deadlock = true
			for _, b := range w.Blocked() {
				out.Blocked = append(out.Blocked, fmt.Sprintf("%s@%s", b.Name, b.Op.Kind))
			}
		}
		break
	}
	if replayErr != "" {
		if !e.TolerateDivergence {
			panic("explorer: " + replayErr)
		}
		out.Diverged = true
	}
	out.Panics = w.Panics
	out.Steps = w.Steps
	for _, p := range pts {
		out.Choices = append(out.Choices, p.choice)
		if p.choice != 0 && p.runningEnabled {
			out.Preempted++
		}
	}
	return in, out, pts
}

// Explore enumerates every schedule with at most Bound preemptions, calling visit for each.
// visit returns false to stop the search.
func (e *Explorer) Explore(mk func() *Instance, visit func(in *Instance, out *Outcome) bool) Stats {
	var st Stats
	stop := false
	firstLevel := 0
	var rec func(prefix []int)
	rec = func(prefix []int) {
		if stop {
			return
		}
		if e.MaxSchedules > 0 && st.Schedules >= e.MaxSchedules {
			st.Truncated = true
			return
		}
		in, out, pts := e.Run(mk, prefix)
		mine := e.Of <= 1 || len(prefix) > 0 || e.Shard == 0
		if !mine {
			// another shard judges the default schedule; it is only run here to learn its points
			in.World.Kill()
			if in.Close != nil {
				in.Close()
			}
		} else {
			st.Schedules++
			if out.Preempted > 0 {
				st.Preemptive++
			}
			if len(pts) > st.MaxPoints {
				st.MaxPoints = len(pts)
			}
			cont := visit(in, out)
			in.World.Kill()
			if in.Close != nil {
				in.Close()
			}
			if !cont {
				stop = true
				return
			}
			if out.Diverged {
				st.Diverged++
				return // the points of this run do not belong to the prefix: no children
			}
		}
		cost := 0
		for i := 0; i < len(pts); i++ {
			if i >= len(prefix) {
				for alt := 1; alt < pts[i].n; alt++ {
					c := cost
					if pts[i].runningEnabled || e.Deviations {
						c++
					}
					if c > e.Bound {
						continue
					}
					if e.Of > 1 && len(prefix) == 0 {
						k := firstLevel
						firstLevel++
						if k%e.Of != e.Shard {
							continue
						}
					}
					np := make([]int, i+1)
					for j := 0; j < i; j++ {
						np[j] = pts[j].choice
					}
					np[i] = alt
					rec(np)
					if stop {
						return
					}
				}
			}
			if pts[i].choice != 0 && (pts[i].runningEnabled || e.Deviations) {
				cost++
			}
		}
	}
	rec(nil)
	if !st.Truncated && !stop {
		st.BoundComplete = e.Bound
	} else {
		st.BoundComplete = -1
	}
	return st
}
