// Package pool runs enumeration tasks in worker subprocesses of the same binary so that a
// runtime fatal error, an allocation bomb or a non-terminating loop in the code under
// exploration is attributed to the task that caused it instead of taking the checker down.
package pool

import (
	"bytes"
	"encoding/binary"
	"fmt"
	"io"
	"os"
	"os/exec"
	"runtime/debug"
	"strings"
	"sync"
	"syscall"
	"time"
)

// Handler runs one task inside a worker. progress() resets the hang watchdog.
type Handler func(task []byte, progress func()) []byte

// Note (worker side) resets the hang watchdog and records payload; the last payload noted
// before a crash is reported in Crash.Last (e.g. the index of the input in flight).
func Note(payload []byte) {
	if noteFn != nil {
		noteFn(payload)
	}
}

var noteFn func([]byte)

var handlers = map[string]Handler{}

func Register(name string, h Handler) { handlers[name] = h }

const envWorker = "VERIF_WORKER"

// WorkerMain must be called first thing in main(): in a worker process it serves tasks and
// never returns.
func WorkerMain() {
	name := os.Getenv(envWorker)
	if name == "" {
		return
	}
	h, ok := handlers[name]
	if !ok {
		fmt.Fprintf(os.Stderr, "pool: unknown handler %q\n", name)
		os.Exit(3)
	}
	if mb := os.Getenv("VERIF_WORKER_MEM_MB"); mb != "" {
		var n uint64
		fmt.Sscan(mb, &n)
		if n > 0 {
			lim := syscall.Rlimit{Cur: n << 20, Max: n << 20}
			syscall.Setrlimit(syscall.RLIMIT_AS, &lim)
			debug.SetMemoryLimit(int64(n<<20) / 2)
		}
	}
	in := os.NewFile(3, "tasks")
	out := os.NewFile(4, "results")
	var wmu sync.Mutex
	send := func(kind byte, b []byte) {
		wmu.Lock()
		defer wmu.Unlock()
		hdr := make([]byte, 5)
		hdr[0] = kind
		binary.LittleEndian.PutUint32(hdr[1:], uint32(len(b)))
		out.Write(hdr)
		out.Write(b)
	}
	for {
		var l uint32
		if err := binary.Read(in, binary.LittleEndian, &l); err != nil {
			os.Exit(0)
		}
		task := make([]byte, l)
		if _, err := io.ReadFull(in, task); err != nil {
			os.Exit(0)
		}
		noteFn = func(b []byte) { send('P', b) }
		res := h(task, func() { send('P', nil) })
		send('R', res)
	}
}

type Crash struct {
	Kind   string // died | hang
	Detail string // tail of the worker's stderr
	Last   []byte // payload of the last progress frame of the task
}

type Pool struct {
	Handler string
	N       int
	Timeout time.Duration // max silence (no progress / result frame) before a worker is declared hung
	MemMB   int           // RLIMIT_AS of a worker (0 = unlimited)
	Env     []string
	// MaxTasks recycles a worker process after that many tasks (0 = never); for harnesses whose
	// code under test leaks goroutines by design (handlers blocked on a dead peer).
	MaxTasks int
	// Skip, when set, is asked before a task is handed to a worker; a skipped task is dropped without
	// a callback (the caller counts them and reports the cut).  Used to stop a family of tasks after
	// it has produced its counterexamples (every further task would wait for the hang bound again).
	Skip func(task []byte) bool
}

type tailBuf struct {
	mu   sync.Mutex
	b    []byte
	head []byte // the first "fatal error:" / "panic:" report (the goroutine dump after it can be huge)
}

func (t *tailBuf) Write(p []byte) (int, error) {
	t.mu.Lock()
	defer t.mu.Unlock()
	if t.head == nil {
		for _, mark := range []string{"fatal error:", "panic:"} {
			if i := bytes.Index(p, []byte(mark)); i >= 0 {
				t.head = append([]byte{}, p[i:]...)
				break
			}
		}
	} else if len(t.head) < 6000 {
		t.head = append(t.head, p...)
	}
	t.b = append(t.b, p...)
	if len(t.b) > 1<<16 {
		t.b = t.b[len(t.b)-(1<<15):]
	}
	return len(p), nil
}
func (t *tailBuf) String() string {
	t.mu.Lock()
	defer t.mu.Unlock()
	if t.head != nil {
		h := t.head
		if len(h) > 6000 {
			h = h[:6000]
		}
		return string(h)
	}
	return string(t.b)
}

type worker struct {
	cmd  *exec.Cmd
	in   *os.File // parent writes tasks
	out  *os.File // parent reads results
	tail *tailBuf
}

func (p *Pool) start() (*worker, error) {
	tr, tw, err := os.Pipe()
	if err != nil {
		return nil, err
	}
	rr, rw, err := os.Pipe()
	if err != nil {
		return nil, err
	}
	cmd := exec.Command(os.Args[0], os.Args[1:]...)
	cmd.Env = append(os.Environ(), envWorker+"="+p.Handler, fmt.Sprintf("VERIF_WORKER_MEM_MB=%d", p.MemMB), "GOMAXPROCS=1")
	cmd.Env = append(cmd.Env, p.Env...)
	cmd.ExtraFiles = []*os.File{tr, rw}
	tb := &tailBuf{}
	cmd.Stdout = tb
	cmd.Stderr = tb
	if err := cmd.Start(); err != nil {
		return nil, err
	}
	tr.Close()
	rw.Close()
	return &worker{cmd: cmd, in: tw, out: rr, tail: tb}, nil
}

func (w *worker) kill() {
	w.cmd.Process.Kill()
	w.in.Close()
	w.out.Close()
	w.cmd.Wait()
}

// run sends one task and waits for its result.
func (w *worker) run(task []byte, timeout time.Duration) ([]byte, *Crash) {
	var last []byte
	hdr := make([]byte, 4)
	binary.LittleEndian.PutUint32(hdr, uint32(len(task)))
	if _, err := w.in.Write(append(hdr, task...)); err != nil {
		return nil, &Crash{Kind: "died", Detail: "write: " + err.Error() + "\n" + w.tail.String()}
	}
	for {
		w.out.SetReadDeadline(time.Now().Add(timeout))
		h := make([]byte, 5)
		if _, err := io.ReadFull(w.out, h); err != nil {
			if os.IsTimeout(err) {
				return nil, &Crash{Kind: "hang", Detail: fmt.Sprintf("no progress for %v", timeout), Last: last}
			}
			// give the process a moment to flush its stderr
			done := make(chan struct{})
			go func() { w.cmd.Wait(); close(done) }()
			select {
			case <-done:
			case <-time.After(2 * time.Second):
			}
			return nil, &Crash{Kind: "died", Detail: tailOf(w.tail.String()), Last: last}
		}
		l := binary.LittleEndian.Uint32(h[1:])
		body := make([]byte, l)
		w.out.SetReadDeadline(time.Now().Add(timeout))
		if _, err := io.ReadFull(w.out, body); err != nil {
			return nil, &Crash{Kind: "died", Detail: tailOf(w.tail.String()), Last: last}
		}
		if h[0] == 'R' {
			return body, nil
		}
		if len(body) > 0 {
			last = body
		}
	}
}

func tailOf(s string) string {
	// keep the fatal error line and the first goroutine
	if i := strings.Index(s, "fatal error:"); i >= 0 {
		s = s[i:]
	} else if i := strings.Index(s, "panic:"); i >= 0 {
		s = s[i:]
	}
	if len(s) > 4000 {
		s = s[:4000]
	}
	return s
}

// Map runs every task; onResult is called (serialised) for each and may return follow-up tasks.
func (p *Pool) Map(tasks [][]byte, onResult func(task []byte, out []byte, crash *Crash) [][]byte) {
	p.MapD(tasks, func(out []byte) interface{} { return out }, func(task []byte, res interface{}, crash *Crash) [][]byte {
		var out []byte
		if res != nil {
			out = res.([]byte)
		}
		return onResult(task, out, crash)
	})
}

// MapD is Map with a decode step that runs concurrently (outside the serialised callback).
func (p *Pool) MapD(tasks [][]byte, decode func(out []byte) interface{}, onResult func(task []byte, res interface{}, crash *Crash) [][]byte) {
	if p.N <= 0 {
		p.N = 1
	}
	if p.Timeout == 0 {
		p.Timeout = 30 * time.Second
	}
	var mu sync.Mutex
	cond := sync.NewCond(&mu)
	queue := append([][]byte{}, tasks...)
	inflight := 0
	var cbmu sync.Mutex
	var wg sync.WaitGroup
	for i := 0; i < p.N; i++ {
		wg.Add(1)
		go func() {
			defer wg.Done()
			var w *worker
			served := 0
			defer func() {
				if w != nil {
					w.kill()
				}
			}()
			for {
				mu.Lock()
				for len(queue) == 0 && inflight > 0 {
					cond.Wait()
				}
				if len(queue) == 0 {
					mu.Unlock()
					cond.Broadcast()
					return
				}
				t := queue[0]
				queue = queue[1:]
				if p.Skip != nil && p.Skip(t) {
					mu.Unlock()
					continue
				}
				inflight++
				mu.Unlock()

				if w == nil {
					var err error
					w, err = p.start()
					if err != nil {
						panic(err)
					}
				}
				out, crash := w.run(t, p.Timeout)
				served++
				if crash != nil || (p.MaxTasks > 0 && served >= p.MaxTasks) {
					w.kill()
					w = nil
					served = 0
				}
				var dec interface{}
				if crash == nil {
					dec = decode(out)
				}
				cbmu.Lock()
				more := onResult(t, dec, crash)
				cbmu.Unlock()
				mu.Lock()
				queue = append(queue, more...)
				inflight--
				mu.Unlock()
				cond.Broadcast()
			}
		}()
	}
	wg.Wait()
}

// IsOOM classifies a crash detail.
func IsOOM(c *Crash) bool {
	return c != nil && (bytes.Contains([]byte(c.Detail), []byte("out of memory")) || strings.Contains(c.Detail, "cannot allocate memory"))
}
