package model

import (
	"fmt"
	"math"
	"sort"
)

func (s *KS) setOf(k string) (*Entry, bool) {
	e := s.M[k]
	if e == nil {
		return nil, true
	}
	return e, e.T == "set"
}

func setMembers(e *Entry) []string {
	var m []string
	if e != nil {
		for k := range e.Set {
			m = append(m, k)
		}
	}
	sort.Strings(m)
	return m
}

func asByteMap(e *Entry) map[string][]byte {
	m := map[string][]byte{}
	if e != nil {
		for k := range e.Set {
			m[k] = nil
		}
	}
	return m
}

func init() {
	reg("sadd", func(s *KS, a [][]byte) []Outcome {
		if len(a) < 3 {
			return errOut(s)
		}
		n := begin(s)
		k := string(a[1])
		e, ok := n.setOf(k)
		if !ok {
			return wrongType(n)
		}
		if e == nil {
			e = &Entry{T: "set", Set: map[string]struct{}{}}
			n.M[k] = e
		}
		c := int64(0)
		for _, m := range a[2:] {
			if _, ex := e.Set[string(m)]; !ex {
				e.Set[string(m)] = struct{}{}
				c++
			}
		}
		return one(MInt(c), n)
	})

	reg("srem", func(s *KS, a [][]byte) []Outcome {
		if len(a) < 3 {
			return errOut(s)
		}
		n := begin(s)
		k := string(a[1])
		e, ok := n.setOf(k)
		if !ok {
			return wrongType(n)
		}
		if e == nil {
			return one(MInt(0), n)
		}
		c := int64(0)
		for _, m := range a[2:] {
			if _, ex := e.Set[string(m)]; ex {
				delete(e.Set, string(m))
				c++
			}
		}
		if len(e.Set) == 0 {
			delete(n.M, k)
		}
		return one(MInt(c), n)
	})

	reg("sismember", func(s *KS, a [][]byte) []Outcome {
		if len(a) != 3 {
			return errOut(s)
		}
		n := begin(s)
		e, ok := n.setOf(string(a[1]))
		if !ok {
			return wrongType(n)
		}
		if e != nil {
			if _, ex := e.Set[string(a[2])]; ex {
				return one(MInt(1), n)
			}
		}
		return one(MInt(0), n)
	})

	reg("scard", func(s *KS, a [][]byte) []Outcome {
		if len(a) != 2 {
			return errOut(s)
		}
		n := begin(s)
		e, ok := n.setOf(string(a[1]))
		if !ok {
			return wrongType(n)
		}
		if e == nil {
			return one(MInt(0), n)
		}
		return one(MInt(int64(len(e.Set))), n)
	})

	reg("smembers", func(s *KS, a [][]byte) []Outcome {
		if len(a) != 2 {
			return errOut(s)
		}
		n := begin(s)
		e, ok := n.setOf(string(a[1]))
		if !ok {
			return wrongType(n)
		}
		return one(MStrSet(setMembers(e)), n)
	})

	reg("smove", func(s *KS, a [][]byte) []Outcome {
		if len(a) != 4 {
			return errOut(s)
		}
		n := begin(s)
		src, dst, m := string(a[1]), string(a[2]), string(a[3])
		se, ok := n.setOf(src)
		de, okd := n.setOf(dst)
		if !ok {
			return wrongType(n)
		}
		if se == nil {
			// the reference answers 0 for a missing source before looking at the destination type
			if !okd {
				return []Outcome{{Reply: MInt(0), Next: n}, {Reply: MWrongType(), Next: n}}
			}
			return one(MInt(0), n)
		}
		if !okd {
			return wrongType(n)
		}
		if _, ex := se.Set[m]; !ex {
			return one(MInt(0), n)
		}
		if src == dst {
			return one(MInt(1), n)
		}
		delete(se.Set, m)
		if len(se.Set) == 0 {
			delete(n.M, src)
		}
		if de == nil {
			de = &Entry{T: "set", Set: map[string]struct{}{}}
			n.M[dst] = de
		}
		de.Set[m] = struct{}{}
		return one(MInt(1), n)
	})

	reg("spop", func(s *KS, a [][]byte) []Outcome {
		if len(a) < 2 || len(a) > 3 {
			return errOut(s)
		}
		n := begin(s)
		k := string(a[1])
		e, ok := n.setOf(k)
		cnt := int64(-1)
		if len(a) == 3 {
			c, okc := parseInt(a[2])
			if !okc || c < 0 {
				return errOut(n)
			}
			cnt = c
		}
		if !ok {
			return wrongType(n)
		}
		if e == nil {
			if cnt < 0 {
				return one(MNil(), n)
			}
			return one(MAny(MEmptyArr(), MNilAny()), n)
		}
		if cnt == 0 {
			return one(MEmptyArr(), n)
		}
		size := int64(len(e.Set))
		desc := fmt.Sprintf("%d distinct current member(s) of %q", cnt, setMembers(e))
		return []Outcome{{Reply: Matcher{Desc: desc}, Resolve: func(v Val) (*KS, string) {
			bad := "expected " + desc + ", got " + v.String()
			var popped []string
			if cnt < 0 {
				if !v.IsStr() {
					return nil, bad
				}
				popped = []string{string(v.S)}
			} else {
				if v.K != Array {
					return nil, bad
				}
				want := cnt
				if want > size {
					want = size
				}
				if int64(len(v.Arr)) != want {
					return nil, bad
				}
				for _, x := range v.Arr {
					if !x.IsStr() {
						return nil, bad
					}
					popped = append(popped, string(x.S))
				}
			}
			nn := n.Clone()
			ne := nn.M[k]
			for _, p := range popped {
				if _, ex := ne.Set[p]; !ex {
					return nil, bad + " (not a current member, or returned twice)"
				}
				delete(ne.Set, p)
			}
			if len(ne.Set) == 0 {
				delete(nn.M, k)
			}
			return nn, ""
		}}}
	})

	reg("srandmember", func(s *KS, a [][]byte) []Outcome {
		if len(a) < 2 || len(a) > 3 {
			return errOut(s)
		}
		n := begin(s)
		e, ok := n.setOf(string(a[1]))
		var count int64
		if len(a) == 3 {
			c, okc := parseInt(a[2])
			if !okc || c < -(1<<40) {
				return errOut(n)
			}
			count = c
		}
		if count > math.MaxInt64/2 {
			// the reference rejects counts beyond LONG_MAX/2 ("value is out of range"); answering
			// like any count larger than the container is equally fine: both accepted
			alt := s.Apply([][]byte{a[0], a[1], []byte("4611686018427387903")})
			return append(alt, Outcome{Reply: MErr(), Next: begin(s)})
		}
		if !ok {
			return wrongType(n)
		}
		members := asByteMap(e)
		if len(a) == 2 {
			if e == nil {
				return one(MNil(), n)
			}
			return one(Matcher{Desc: "one current member", F: func(v Val) string {
				if v.IsStr() {
					if _, ex := members[string(v.S)]; ex {
						return ""
					}
				}
				return "expected one current member, got " + v.String()
			}}, n)
		}
		return one(mRandom(members, count, false), n)
	})

	algebra := func(name string, store bool, isInter bool, op func(sets []map[string]struct{}) map[string]struct{}) {
		reg(name, func(s *KS, a [][]byte) []Outcome {
			first := 1
			if store {
				first = 2
			}
			if len(a) < first+1 {
				return errOut(s)
			}
			n := begin(s)
			var sets []map[string]struct{}
			sawMissing, firstMissing := false, false
			isDiff := name == "sdiff" || name == "sdiffstore"
			for _, kb := range a[first:] {
				e, ok := n.setOf(string(kb))
				if !ok {
					if (isInter && sawMissing) || (isDiff && firstMissing) {
						// older servers answer the empty intersection as soon as an operand is missing
						alt := begin(s)
						r := MEmptyArr()
						if store {
							delete(alt.M, string(a[1]))
							r = MInt(0)
						}
						return []Outcome{{Reply: MWrongType(), Next: n}, {Reply: r, Next: alt}}
					}
					return wrongType(n)
				}
				if e == nil {
					if len(sets) == 0 {
						firstMissing = true
					}
					sawMissing = true
					sets = append(sets, map[string]struct{}{})
				} else {
					sets = append(sets, e.Set)
				}
			}
			res := op(sets)
			if !store {
				var ms []string
				for m := range res {
					ms = append(ms, m)
				}
				return one(MStrSet(ms), n)
			}
			d := string(a[1])
			var alts []Outcome
			if de := n.M[d]; de != nil && de.T != "set" {
				// the reference overwrites a destination of any type; the general WRONGTYPE rule is accepted too
				alts = []Outcome{{Reply: MWrongType(), Next: begin(s)}}
			}
			if len(res) == 0 {
				delete(n.M, d)
				return append(one(MInt(0), n), alts...)
			}
			ne := &Entry{T: "set", Set: map[string]struct{}{}}
			for m := range res {
				ne.Set[m] = struct{}{}
			}
			n.M[d] = ne
			return append(one(MInt(int64(len(res))), n), alts...)
		})
	}
	union := func(sets []map[string]struct{}) map[string]struct{} {
		r := map[string]struct{}{}
		for _, s := range sets {
			for m := range s {
				r[m] = struct{}{}
			}
		}
		return r
	}
	inter := func(sets []map[string]struct{}) map[string]struct{} {
		r := map[string]struct{}{}
		for m := range sets[0] {
			in := true
			for _, s := range sets[1:] {
				if _, ok := s[m]; !ok {
					in = false
					break
				}
			}
			if in {
				r[m] = struct{}{}
			}
		}
		return r
	}
	diff := func(sets []map[string]struct{}) map[string]struct{} {
		r := map[string]struct{}{}
		for m := range sets[0] {
			in := false
			for _, s := range sets[1:] {
				if _, ok := s[m]; ok {
					in = true
					break
				}
			}
			if !in {
				r[m] = struct{}{}
			}
		}
		return r
	}
	algebra("sunion", false, false, union)
	algebra("sinter", false, true, inter)
	algebra("sdiff", false, false, diff)
	algebra("sunionstore", true, false, union)
	algebra("sinterstore", true, true, inter)
	algebra("sdiffstore", true, false, diff)
}
