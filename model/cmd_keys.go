package model

import "math"

func typeName(e *Entry) string {
	if e == nil {
		return "none"
	}
	return e.T
}

func init() {
	reg("del", func(s *KS, a [][]byte) []Outcome {
		if len(a) < 2 {
			return errOut(s)
		}
		n := begin(s)
		c := int64(0)
		for _, k := range a[1:] {
			if n.M[string(k)] != nil {
				delete(n.M, string(k))
				c++
			}
		}
		return one(MInt(c), n)
	})

	reg("exists", func(s *KS, a [][]byte) []Outcome {
		if len(a) < 2 {
			return errOut(s)
		}
		n := begin(s)
		c := int64(0)
		for _, k := range a[1:] {
			if n.M[string(k)] != nil {
				c++
			}
		}
		return one(MInt(c), n)
	})

	reg("type", func(s *KS, a [][]byte) []Outcome {
		if len(a) != 2 {
			return errOut(s)
		}
		n := begin(s)
		return one(MStr([]byte(typeName(n.M[string(a[1])]))), n)
	})

	reg("rename", func(s *KS, a [][]byte) []Outcome {
		if len(a) != 3 {
			return errOut(s)
		}
		n := begin(s)
		src, dst := string(a[1]), string(a[2])
		e := n.M[src]
		if e == nil {
			return errOut(n)
		}
		if src == dst {
			return one(MOK(), n)
		}
		delete(n.M, src)
		n.M[dst] = e
		return one(MOK(), n)
	})

	reg("keys", func(s *KS, a [][]byte) []Outcome {
		if len(a) != 2 {
			return errOut(s)
		}
		n := begin(s)
		g := CompileGlob(string(a[1]))
		var ks []string
		for k := range n.M {
			if g.Match(k) {
				ks = append(ks, k)
			}
		}
		return one(MStrSet(ks), n)
	})

	reg("ttl", func(s *KS, a [][]byte) []Outcome {
		if len(a) != 2 {
			return errOut(s)
		}
		n := begin(s)
		e := n.M[string(a[1])]
		if e == nil {
			return one(MInt(-2), n)
		}
		if e.Exp == 0 {
			return one(MInt(-1), n)
		}
		rem := e.Exp - n.NowMs
		hi := (rem + 999) / 1000
		lo := hi - 1
		if lo < 0 {
			lo = 0
		}
		if n.Lax {
			// one-second granularity: a deadline may have been rounded down by up to a second
			lo--
			if lo < 0 {
				lo = 0
			}
			if hi < 1 {
				hi = 1
			}
		}
		return one(MIntRange(lo, hi), n)
	})

	reg("persist", func(s *KS, a [][]byte) []Outcome {
		if len(a) != 2 {
			return errOut(s)
		}
		n := begin(s)
		e := n.M[string(a[1])]
		if e == nil || e.Exp == 0 {
			return one(MInt(0), n)
		}
		e.Exp = 0
		return one(MInt(1), n)
	})

	reg("expire", func(s *KS, a [][]byte) []Outcome {
		if len(a) < 3 || len(a) > 4 {
			return errOut(s)
		}
		n := begin(s)
		sec, ok := parseInt(a[2])
		if !ok {
			return errOut(n)
		}
		opt := ""
		if len(a) == 4 {
			opt = lower(a[3])
			switch opt {
			case "nx", "xx", "gt", "lt":
			default:
				return errOut(n)
			}
		}
		if sec > (math.MaxInt64-n.NowMs)/1000 {
			return errOut(n) // the deadline is not representable: "invalid expire time"
		}
		if sec < -(1<<62)/1000 {
			// the reference rejects it (overflow of the millisecond value); treating it as a deadline
			// in the past (the key is deleted, reply 1 / 0 by option) is equally consistent with the
			// property: both accepted
			alt := begin(s)
			var outs []Outcome
			outs = append(outs, Outcome{Reply: MErr(), Next: begin(s)})
			k := string(a[1])
			e := alt.M[k]
			if e == nil {
				return append(outs, Outcome{Reply: MInt(0), Next: alt})
			}
			switch opt {
			case "nx":
				if e.Exp != 0 {
					return append(outs, Outcome{Reply: MInt(0), Next: alt})
				}
			case "xx", "gt":
				if e.Exp == 0 {
					return append(outs, Outcome{Reply: MInt(0), Next: alt})
				}
				if opt == "gt" {
					return append(outs, Outcome{Reply: MInt(0), Next: alt})
				}
			}
			delete(alt.M, k)
			return append(outs, Outcome{Reply: MInt(1), Next: alt})
		}
		k := string(a[1])
		e := n.M[k]
		if e == nil {
			return one(MInt(0), n)
		}
		deadline := n.NowMs + sec*1000
		switch opt {
		case "nx":
			if e.Exp != 0 {
				return one(MInt(0), n)
			}
		case "xx":
			if e.Exp == 0 {
				return one(MInt(0), n)
			}
		case "gt":
			if e.Exp == 0 || deadline <= e.Exp {
				if n.Lax && e.Exp != 0 && e.Exp-deadline < 1000 {
					break // deadlines closer than the clock granularity compare either way
				}
				return one(MInt(0), n)
			}
		case "lt":
			if e.Exp != 0 && deadline >= e.Exp {
				if n.Lax && deadline-e.Exp < 1000 {
					break
				}
				return one(MInt(0), n)
			}
		}
		var alts []Outcome
		if n.Lax && (opt == "gt" || opt == "lt") && e.Exp != 0 && deadline-e.Exp < 1000 && e.Exp-deadline < 1000 {
			alts = []Outcome{{Reply: MInt(0), Next: begin(s)}}
		}
		if deadline <= n.NowMs {
			delete(n.M, k)
			return append(one(MInt(1), n), alts...)
		}
		e.Exp = deadline
		return append(one(MInt(1), n), alts...)
	})
}
