package model

import (
	"math"
	"strconv"
	"strings"
)

func (s *KS) streamOf(k string) (*Entry, bool) {
	e := s.M[k]
	if e == nil {
		return nil, true
	}
	return e, e.T == "stream"
}

func parseU64(s string) (uint64, bool) {
	if s == "" {
		return 0, false
	}
	v, err := strconv.ParseUint(s, 10, 64)
	return v, err == nil
}

// parseSID parses "ms-seq" or "ms".  missing reports that the sequence part was absent.
func parseSID(b []byte) (id SID, missingSeq bool, ok bool) {
	s := string(b)
	parts := strings.SplitN(s, "-", 2)
	ms, ok1 := parseU64(parts[0])
	if !ok1 {
		return SID{}, false, false
	}
	if len(parts) == 1 {
		return SID{Ms: ms}, true, true
	}
	seq, ok2 := parseU64(parts[1])
	if !ok2 {
		return SID{}, false, false
	}
	return SID{Ms: ms, Seq: seq}, false, true
}

func mEntries(es []SEntry) Matcher {
	ms := make([]Matcher, len(es))
	for i, e := range es {
		fs := make([][]byte, len(e.Fields))
		for j, f := range e.Fields {
			fs[j] = []byte(f)
		}
		ms[i] = MArr(MStr([]byte(e.ID.String())), MStrs(fs))
	}
	return MArr(ms...)
}

func init() {
	reg("xadd", func(s *KS, a [][]byte) []Outcome {
		if len(a) < 5 {
			return errOut(s)
		}
		n := begin(s)
		i := 2
		nomk := false
		trim := "" // maxlen | minid
		approx := false
		var maxlen int64
		var minid SID
		for i < len(a) {
			o := lower(a[i])
			if o == "nomkstream" {
				nomk = true
				i++
				continue
			}
			if o == "maxlen" || o == "minid" {
				if trim != "" {
					return errOut(n)
				}
				trim = o
				i++
				if i < len(a) && (string(a[i]) == "=" || string(a[i]) == "~") {
					approx = string(a[i]) == "~"
					i++
				}
				if i >= len(a) {
					return errOut(n)
				}
				if trim == "maxlen" {
					v, ok := parseInt(a[i])
					if !ok || v < 0 {
						return errOut(n)
					}
					maxlen = v
				} else {
					id, _, ok := parseSID(a[i])
					if !ok {
						return errOut(n)
					}
					minid = id
				}
				i++
				if i < len(a) && lower(a[i]) == "limit" {
					if !approx || i+1 >= len(a) {
						return errOut(n)
					}
					if _, ok := parseInt(a[i+1]); !ok {
						return errOut(n)
					}
					i += 2
				}
				continue
			}
			break
		}
		if i >= len(a) {
			return errOut(n)
		}
		idArg := string(a[i])
		i++
		fields := a[i:]
		if len(fields) == 0 || len(fields)%2 != 0 {
			return errOut(n)
		}
		k := string(a[1])
		e, ok := n.streamOf(k)
		// id syntax
		var id SID
		auto, autoSeq := false, false
		if idArg == "*" {
			auto = true
		} else if strings.HasSuffix(idArg, "-*") {
			ms, okm := parseU64(strings.TrimSuffix(idArg, "-*"))
			if !okm {
				return errOut(n)
			}
			id.Ms = ms
			autoSeq = true
		} else {
			pid, _, okp := parseSID([]byte(idArg))
			if !okp {
				return errOut(n)
			}
			id = pid
		}
		if !ok {
			return wrongType(n)
		}
		if e == nil && nomk {
			return one(MNilAny(), n)
		}
		var last SID
		if e != nil {
			last = e.Last
		}
		switch {
		case auto:
			now := uint64(n.NowMs)
			if now > last.Ms {
				id = SID{Ms: now}
			} else if last.Seq == math.MaxUint64 {
				if last.Ms == math.MaxUint64 {
					return errOut(n)
				}
				id = SID{Ms: last.Ms + 1}
			} else {
				id = SID{Ms: last.Ms, Seq: last.Seq + 1}
			}
		case autoSeq:
			if id.Ms < last.Ms {
				return errOut(n)
			}
			if id.Ms == last.Ms {
				if e == nil && id.Ms == 0 {
					id.Seq = 1
				} else if e == nil {
					id.Seq = 0
				} else {
					if last.Seq == math.MaxUint64 {
						return errOut(n)
					}
					id.Seq = last.Seq + 1
				}
			}
		}
		if (id == SID{}) || !last.Less(id) {
			return errOut(n)
		}
		if e == nil {
			e = &Entry{T: "stream"}
			n.M[k] = e
		}
		fs := make([]string, len(fields))
		for j, f := range fields {
			fs[j] = string(f)
		}
		e.Stream = append(e.Stream, SEntry{ID: id, Fields: fs})
		e.Last = id
		reply := MStr([]byte(id.String()))
		if trim == "" {
			return one(reply, n)
		}
		// exact trim length
		keepFrom := 0
		if trim == "maxlen" {
			if int64(len(e.Stream)) > maxlen {
				keepFrom = len(e.Stream) - int(maxlen)
			}
		} else {
			for keepFrom < len(e.Stream) && e.Stream[keepFrom].ID.Less(minid) {
				keepFrom++
			}
		}
		var outs []Outcome
		lo := keepFrom
		if approx {
			lo = 0 // "~" may trim less than the exact bound, never more
		}
		for cut := keepFrom; cut >= lo; cut-- {
			nn := n.Clone()
			ne := nn.M[k]
			ne.Stream = append([]SEntry{}, ne.Stream[cut:]...)
			outs = append(outs, Outcome{Reply: reply, Next: nn})
		}
		return outs
	})

	reg("xrange", func(s *KS, a [][]byte) []Outcome {
		count := int64(-1)
		if len(a) != 4 {
			if len(a) != 6 || lower(a[4]) != "count" {
				return errOut(s)
			}
			c, okc := parseInt(a[5])
			if !okc {
				return errOut(s)
			}
			if c < 0 {
				c = 0 // the reference clamps a negative COUNT to 0: nothing is returned
			}
			count = c
		}
		n := begin(s)
		e, ok := n.streamOf(string(a[1]))
		bound := func(b []byte, isStart bool) (SID, bool, bool) { // id, exclusive, ok
			t := string(b)
			excl := false
			if strings.HasPrefix(t, "(") {
				excl = true
				t = t[1:]
			}
			if t == "-" {
				return SID{}, excl, !excl
			}
			if t == "+" {
				return SID{Ms: math.MaxUint64, Seq: math.MaxUint64}, excl, !excl
			}
			id, missing, okp := parseSID([]byte(t))
			if !okp {
				return SID{}, false, false
			}
			if missing && !isStart {
				id.Seq = math.MaxUint64
			}
			return id, excl, true
		}
		st, sx, ok1 := bound(a[2], true)
		en, ex, ok2 := bound(a[3], false)
		if !ok {
			if !ok1 || !ok2 {
				return one(MErr(), n)
			}
			return wrongType(n)
		}
		if !ok1 || !ok2 {
			return errOut(n)
		}
		if sx {
			if st.Ms == math.MaxUint64 && st.Seq == math.MaxUint64 {
				return errOut(n)
			}
			if st.Seq == math.MaxUint64 {
				st = SID{Ms: st.Ms + 1}
			} else {
				st.Seq++
			}
		}
		if ex {
			if (en == SID{}) {
				return errOut(n)
			}
			if en.Seq == 0 {
				en = SID{Ms: en.Ms - 1, Seq: math.MaxUint64}
			} else {
				en.Seq--
			}
		}
		var res []SEntry
		if e != nil {
			for _, x := range e.Stream {
				if !x.ID.Less(st) && !en.Less(x.ID) {
					res = append(res, x)
				}
			}
		}
		if count >= 0 && int64(len(res)) > count {
			res = res[:count]
		}
		return one(mEntries(res), n)
	})
}
