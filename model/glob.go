package model

// Reference glob matcher for KEYS (C17).  Grammar, exactly as the property states it:
//
//	?      one byte
//	*      any run of bytes (including none)
//	[...]  a byte set with x-y ranges and a leading ^ for negation
//	\c     the byte c literally (also inside a class)
//	other  itself
//
// A pattern is *broken* when a '[' is not terminated or a '\' is the last byte; a broken
// pattern matches nothing.  Corners the statement leaves open are reported through Corner
// and excluded from verdicts.

type globTok struct {
	kind byte // 'l' literal, '?', '*', '['
	c    byte
	neg  bool
	set  [256]bool
}

type Glob struct {
	toks   []globTok
	Broken bool
	Corner bool // pattern uses a construct the grammar does not pin down
	Steps  int  // work counter of the last Match
}

func CompileGlob(p string) *Glob {
	g := &Glob{}
	i := 0
	for i < len(p) {
		switch p[i] {
		case '?':
			g.toks = append(g.toks, globTok{kind: '?'})
			i++
		case '*':
			g.toks = append(g.toks, globTok{kind: '*'})
			i++
		case '\\':
			if i+1 >= len(p) {
				g.Broken = true
				return g
			}
			g.toks = append(g.toks, globTok{kind: 'l', c: p[i+1]})
			i += 2
		case '[':
			t := globTok{kind: '['}
			i++
			if i < len(p) && p[i] == '^' {
				t.neg = true
				i++
			}
			closed := false
			members := 0
			first := true
			for i < len(p) {
				c := p[i]
				if c == ']' {
					closed = true
					i++
					break
				}
				if c == '\\' {
					if i+1 >= len(p) {
						g.Broken = true
						return g
					}
					// escaped member; an escaped byte as a range endpoint is a corner
					if i+2 < len(p) && p[i+2] == '-' && i+3 < len(p) && p[i+3] != ']' {
						g.Corner = true
					}
					t.set[p[i+1]] = true
					members++
					i += 2
					first = false
					continue
				}
				if c == '^' && !first {
					g.Corner = true
				}
				if c == '-' {
					// a '-' that is not between two members: first or last in the class
					g.Corner = true
					t.set['-'] = true
					members++
					i++
					first = false
					continue
				}
				if i+2 < len(p) && p[i+1] == '-' && p[i+2] != ']' {
					lo, hi := c, p[i+2]
					if hi == '\\' {
						g.Corner = true
						if i+3 >= len(p) {
							g.Broken = true
							return g
						}
						hi = p[i+3]
						i++
					}
					if lo > hi {
						g.Corner = true
						lo, hi = hi, lo
					}
					for x := int(lo); x <= int(hi); x++ {
						t.set[x] = true
					}
					members++
					i += 3
					first = false
					continue
				}
				t.set[c] = true
				members++
				i++
				first = false
			}
			if !closed {
				g.Broken = true
				return g
			}
			if members == 0 {
				g.Corner = true
			}
			g.toks = append(g.toks, t)
		default:
			g.toks = append(g.toks, globTok{kind: 'l', c: p[i]})
			i++
		}
	}
	return g
}

func (g *Glob) Match(s string) bool {
	g.Steps = 0
	if g.Broken {
		return false
	}
	return g.match(0, s, 0)
}

func (g *Glob) match(ti int, s string, si int) bool {
	g.Steps++
	for ti < len(g.toks) {
		t := &g.toks[ti]
		switch t.kind {
		case '*':
			for k := si; k <= len(s); k++ {
				if g.match(ti+1, s, k) {
					return true
				}
			}
			return false
		case '?':
			if si >= len(s) {
				return false
			}
		case 'l':
			if si >= len(s) || s[si] != t.c {
				return false
			}
		case '[':
			if si >= len(s) {
				return false
			}
			if t.set[s[si]] == t.neg {
				return false
			}
		}
		ti++
		si++
		g.Steps++
	}
	return si == len(s)
}

// GlobMatch is the convenience form.
func GlobMatch(p, s string) bool { return CompileGlob(p).Match(s) }
