package model

import (
	"bytes"
)

func (s *KS) listOf(k string) (*Entry, bool) {
	e := s.M[k]
	if e == nil {
		return nil, true
	}
	return e, e.T == "list"
}

// normRange converts Redis start/stop indexes into a half-open [lo,hi) window.
func normRange(start, stop, l int64) (int64, int64) {
	if start < 0 {
		start += l
	}
	if stop < 0 {
		stop += l
	}
	if start < 0 {
		start = 0
	}
	if stop >= l {
		stop = l - 1
	}
	if start > stop || start >= l {
		return 0, 0
	}
	return start, stop + 1
}

func copyB(b []byte) []byte { return append([]byte{}, b...) }

func init() {
	push := func(name string, left, onlyIfExists bool) {
		reg(name, func(s *KS, a [][]byte) []Outcome {
			if len(a) < 3 {
				return errOut(s)
			}
			n := begin(s)
			k := string(a[1])
			e, ok := n.listOf(k)
			if !ok {
				return wrongType(n)
			}
			if e == nil {
				if onlyIfExists {
					return one(MInt(0), n)
				}
				e = &Entry{T: "list"}
				n.M[k] = e
			}
			for _, v := range a[2:] {
				if left {
					e.List = append([][]byte{copyB(v)}, e.List...)
				} else {
					e.List = append(e.List, copyB(v))
				}
			}
			return one(MInt(int64(len(e.List))), n)
		})
	}
	push("lpush", true, false)
	push("rpush", false, false)
	push("lpushx", true, true)
	push("rpushx", false, true)

	pop := func(name string, left bool) {
		reg(name, func(s *KS, a [][]byte) []Outcome {
			if len(a) < 2 || len(a) > 3 {
				return errOut(s)
			}
			n := begin(s)
			k := string(a[1])
			e, ok := n.listOf(k)
			cnt := int64(-1)
			if len(a) == 3 {
				c, okc := parseInt(a[2])
				if !okc || c < 0 {
					return errOut(n)
				}
				cnt = c
			}
			if !ok {
				return wrongType(n)
			}
			if e == nil {
				return one(MNilAny(), n)
			}
			take := func() []byte {
				var v []byte
				if left {
					v = e.List[0]
					e.List = e.List[1:]
				} else {
					v = e.List[len(e.List)-1]
					e.List = e.List[:len(e.List)-1]
				}
				return v
			}
			if cnt < 0 {
				v := take()
				if len(e.List) == 0 {
					delete(n.M, k)
				}
				return one(MStr(v), n)
			}
			if cnt == 0 {
				return one(MAny(MEmptyArr(), MNilAny()), n)
			}
			var items [][]byte
			for i := int64(0); i < cnt && len(e.List) > 0; i++ {
				items = append(items, take())
			}
			if len(e.List) == 0 {
				delete(n.M, k)
			}
			return one(MStrs(items), n)
		})
	}
	pop("lpop", true)
	pop("rpop", false)

	reg("llen", func(s *KS, a [][]byte) []Outcome {
		if len(a) != 2 {
			return errOut(s)
		}
		n := begin(s)
		e, ok := n.listOf(string(a[1]))
		if !ok {
			return wrongType(n)
		}
		if e == nil {
			return one(MInt(0), n)
		}
		return one(MInt(int64(len(e.List))), n)
	})

	reg("lindex", func(s *KS, a [][]byte) []Outcome {
		if len(a) != 3 {
			return errOut(s)
		}
		n := begin(s)
		e, ok := n.listOf(string(a[1]))
		i, oki := parseInt(a[2])
		if !ok {
			if !oki {
				return one(MErr(), n)
			}
			return wrongType(n)
		}
		if !oki {
			return errOut(n)
		}
		if e == nil {
			return one(MNil(), n)
		}
		l := int64(len(e.List))
		if i < 0 {
			i += l
		}
		if i < 0 || i >= l {
			return one(MNil(), n)
		}
		return one(MStr(e.List[i]), n)
	})

	reg("lrange", func(s *KS, a [][]byte) []Outcome {
		if len(a) != 4 {
			return errOut(s)
		}
		n := begin(s)
		e, ok := n.listOf(string(a[1]))
		st, ok1 := parseInt(a[2])
		en, ok2 := parseInt(a[3])
		if !ok {
			if !ok1 || !ok2 {
				return one(MErr(), n)
			}
			return wrongType(n)
		}
		if !ok1 || !ok2 {
			return errOut(n)
		}
		if e == nil {
			return one(MEmptyArr(), n)
		}
		lo, hi := normRange(st, en, int64(len(e.List)))
		return one(MStrs(e.List[lo:hi]), n)
	})

	reg("lset", func(s *KS, a [][]byte) []Outcome {
		if len(a) != 4 {
			return errOut(s)
		}
		n := begin(s)
		e, ok := n.listOf(string(a[1]))
		i, oki := parseInt(a[2])
		if !ok {
			if !oki {
				return one(MErr(), n)
			}
			return wrongType(n)
		}
		if !oki || e == nil {
			return errOut(n)
		}
		l := int64(len(e.List))
		if i < 0 {
			i += l
		}
		if i < 0 || i >= l {
			return errOut(n)
		}
		e.List[i] = copyB(a[3])
		return one(MOK(), n)
	})

	reg("ltrim", func(s *KS, a [][]byte) []Outcome {
		if len(a) != 4 {
			return errOut(s)
		}
		n := begin(s)
		k := string(a[1])
		e, ok := n.listOf(k)
		st, ok1 := parseInt(a[2])
		en, ok2 := parseInt(a[3])
		if !ok {
			if !ok1 || !ok2 {
				return one(MErr(), n)
			}
			return wrongType(n)
		}
		if !ok1 || !ok2 {
			return errOut(n)
		}
		if e == nil {
			return one(MOK(), n)
		}
		lo, hi := normRange(st, en, int64(len(e.List)))
		e.List = append([][]byte{}, e.List[lo:hi]...)
		if len(e.List) == 0 {
			delete(n.M, k)
		}
		return one(MOK(), n)
	})

	reg("lrem", func(s *KS, a [][]byte) []Outcome {
		if len(a) != 4 {
			return errOut(s)
		}
		n := begin(s)
		k := string(a[1])
		e, ok := n.listOf(k)
		c, okc := parseInt(a[2])
		if !ok {
			if !okc {
				return one(MErr(), n)
			}
			return wrongType(n)
		}
		if !okc {
			return errOut(n)
		}
		if e == nil {
			return one(MInt(0), n)
		}
		removed := int64(0)
		var out [][]byte
		if c >= 0 {
			for _, v := range e.List {
				if bytes.Equal(v, a[3]) && (c == 0 || removed < c) {
					removed++
					continue
				}
				out = append(out, v)
			}
		} else {
			for i := len(e.List) - 1; i >= 0; i-- {
				v := e.List[i]
				if bytes.Equal(v, a[3]) && removed < -c {
					removed++
					continue
				}
				out = append([][]byte{v}, out...)
			}
		}
		e.List = out
		if len(e.List) == 0 {
			delete(n.M, k)
		}
		return one(MInt(removed), n)
	})

	reg("lpos", func(s *KS, a [][]byte) []Outcome {
		if len(a) < 3 {
			return errOut(s)
		}
		n := begin(s)
		e, ok := n.listOf(string(a[1]))
		rank, count, maxlen := int64(1), int64(-1), int64(0)
		if (len(a)-3)%2 != 0 {
			return errOut(n)
		}
		for i := 3; i < len(a); i += 2 {
			v, okv := parseInt(a[i+1])
			if !okv {
				return errOut(n)
			}
			switch lower(a[i]) {
			case "rank":
				if v == 0 {
					return errOut(n)
				}
				rank = v
			case "count":
				if v < 0 {
					return errOut(n)
				}
				count = v
			case "maxlen":
				if v < 0 {
					return errOut(n)
				}
				maxlen = v
			default:
				return errOut(n)
			}
		}
		if !ok {
			return wrongType(n)
		}
		var list [][]byte
		if e != nil {
			list = e.List
		}
		var matches []int64
		l := len(list)
		skip := rank
		if skip < 0 {
			skip = -skip
		}
		skip--
		scanned := int64(0)
		want := count
		if count < 0 {
			want = 1
		}
		for j := 0; j < l; j++ {
			idx := j
			if rank < 0 {
				idx = l - 1 - j
			}
			if maxlen > 0 && scanned >= maxlen {
				break
			}
			scanned++
			if bytes.Equal(list[idx], a[2]) {
				if skip > 0 {
					skip--
					continue
				}
				matches = append(matches, int64(idx))
				if want > 0 && int64(len(matches)) >= want {
					break
				}
			}
		}
		if count < 0 {
			if len(matches) == 0 {
				return one(MNil(), n)
			}
			return one(MInt(matches[0]), n)
		}
		ms := make([]Matcher, len(matches))
		for i, m := range matches {
			ms[i] = MInt(m)
		}
		return one(MArr(ms...), n)
	})

	reg("lmove", func(s *KS, a [][]byte) []Outcome {
		if len(a) != 5 {
			return errOut(s)
		}
		n := begin(s)
		src, dst := string(a[1]), string(a[2])
		from, to := lower(a[3]), lower(a[4])
		if (from != "left" && from != "right") || (to != "left" && to != "right") {
			return errOut(n)
		}
		se, ok := n.listOf(src)
		if !ok {
			return wrongType(n)
		}
		de, okd := n.listOf(dst)
		if se == nil {
			// Redis checks the source first; a wrong-typed destination with a missing source is nil
			if !okd {
				return []Outcome{{Reply: MNil(), Next: n}, {Reply: MWrongType(), Next: n}}
			}
			return one(MNil(), n)
		}
		if !okd {
			return wrongType(n)
		}
		var v []byte
		if from == "left" {
			v = se.List[0]
			se.List = se.List[1:]
		} else {
			v = se.List[len(se.List)-1]
			se.List = se.List[:len(se.List)-1]
		}
		if src == dst {
			de = se
		}
		if de == nil {
			de = &Entry{T: "list"}
			n.M[dst] = de
		}
		if to == "left" {
			de.List = append([][]byte{copyB(v)}, de.List...)
		} else {
			de.List = append(de.List, copyB(v))
		}
		if len(se.List) == 0 && src != dst {
			delete(n.M, src)
		}
		return one(MStr(v), n)
	})

	bpop := func(name string, left bool) {
		reg(name, func(s *KS, a [][]byte) []Outcome {
			if len(a) < 3 {
				return errOut(s)
			}
			n := begin(s)
			to, okf := parseFloat(a[len(a)-1])
			if !okf || to < 0 {
				return errOut(n)
			}
			for _, kb := range a[1 : len(a)-1] {
				k := string(kb)
				e, ok := n.listOf(k)
				if !ok {
					return wrongType(n)
				}
				if e == nil {
					continue
				}
				var v []byte
				if left {
					v = e.List[0]
					e.List = e.List[1:]
				} else {
					v = e.List[len(e.List)-1]
					e.List = e.List[:len(e.List)-1]
				}
				if len(e.List) == 0 {
					delete(n.M, k)
				}
				return one(MArr(MStr(kb), MStr(v)), n)
			}
			// nothing available: the sequential model sees the reply that arrives at the timeout
			return one(MNilAny(), n)
		})
	}
	bpop("blpop", true)
	bpop("brpop", false)
}
