package model

import (
	"math"
	"strconv"
)

// begin clones the state and drops expired keys; every command works on the clone.
func begin(s *KS) *KS {
	n := s.Clone()
	n.Sweep()
	return n
}

func (s *KS) setStr(k string, v []byte, keepTTL bool) {
	old := s.M[k]
	e := &Entry{T: "string", Str: append([]byte{}, v...)}
	if keepTTL && old != nil {
		e.Exp = old.Exp
	}
	s.M[k] = e
}

const maxStr = 512 * 1024 * 1024

func init() {
	reg("ping", func(s *KS, a [][]byte) []Outcome {
		switch len(a) {
		case 1:
			return one(MStr([]byte("PONG")), s)
		case 2:
			return one(MStr(a[1]), s)
		}
		return errOut(s)
	})

	reg("get", func(s *KS, a [][]byte) []Outcome {
		if len(a) != 2 {
			return errOut(s)
		}
		n := begin(s)
		e := n.M[string(a[1])]
		if e == nil {
			return one(MNil(), n)
		}
		if e.T != "string" {
			return wrongType(n)
		}
		return one(MStr(e.Str), n)
	})

	reg("set", cmdSet)

	reg("setnx", func(s *KS, a [][]byte) []Outcome {
		if len(a) != 3 {
			return errOut(s)
		}
		n := begin(s)
		if n.M[string(a[1])] != nil {
			return one(MInt(0), n)
		}
		n.setStr(string(a[1]), a[2], false)
		return one(MInt(1), n)
	})

	reg("setex", func(s *KS, a [][]byte) []Outcome {
		if len(a) != 4 {
			return errOut(s)
		}
		sec, ok := parseInt(a[2])
		if !ok || sec <= 0 || sec > math.MaxInt64/1000-s.NowMs/1000 {
			return errOut(s)
		}
		n := begin(s)
		k := string(a[1])
		outs := []Outcome{}
		if old := n.M[k]; old != nil && old.T != "string" {
			// the reference overwrites; the property's general sentence says WRONGTYPE: both accepted
			outs = append(outs, Outcome{Reply: MWrongType(), Next: begin(s)})
		}
		n.setStr(k, a[3], false)
		n.M[k].Exp = n.NowMs + sec*1000
		return append([]Outcome{{Reply: MOK(), Next: n}}, outs...)
	})

	reg("mset", func(s *KS, a [][]byte) []Outcome {
		if len(a) < 3 || len(a)%2 != 1 {
			return errOut(s)
		}
		n := begin(s)
		outs := []Outcome{}
		for i := 1; i < len(a); i += 2 {
			if old := n.M[string(a[i])]; old != nil && old.T != "string" {
				outs = []Outcome{{Reply: MWrongType(), Next: begin(s)}}
			}
		}
		for i := 1; i < len(a); i += 2 {
			n.setStr(string(a[i]), a[i+1], false)
		}
		return append([]Outcome{{Reply: MOK(), Next: n}}, outs...)
	})

	reg("mget", func(s *KS, a [][]byte) []Outcome {
		if len(a) < 2 {
			return errOut(s)
		}
		n := begin(s)
		ms := []Matcher{}
		for _, k := range a[1:] {
			e := n.M[string(k)]
			if e == nil || e.T != "string" {
				ms = append(ms, MNil())
			} else {
				ms = append(ms, MStr(e.Str))
			}
		}
		return one(MArr(ms...), n)
	})

	reg("append", func(s *KS, a [][]byte) []Outcome {
		if len(a) != 3 {
			return errOut(s)
		}
		n := begin(s)
		k := string(a[1])
		e := n.M[k]
		if e == nil {
			n.setStr(k, a[2], false)
			return one(MInt(int64(len(a[2]))), n)
		}
		if e.T != "string" {
			return wrongType(n)
		}
		e.Str = append(e.Str, a[2]...)
		return one(MInt(int64(len(e.Str))), n)
	})

	reg("strlen", func(s *KS, a [][]byte) []Outcome {
		if len(a) != 2 {
			return errOut(s)
		}
		n := begin(s)
		e := n.M[string(a[1])]
		if e == nil {
			return one(MInt(0), n)
		}
		if e.T != "string" {
			return wrongType(n)
		}
		return one(MInt(int64(len(e.Str))), n)
	})

	reg("getrange", func(s *KS, a [][]byte) []Outcome {
		if len(a) != 4 {
			return errOut(s)
		}
		n := begin(s)
		st, ok1 := parseInt(a[2])
		en, ok2 := parseInt(a[3])
		e := n.M[string(a[1])]
		if e != nil && e.T != "string" {
			// type check and argument check may come in either order
			if !ok1 || !ok2 {
				return one(MErr(), n)
			}
			return wrongType(n)
		}
		if !ok1 || !ok2 {
			return errOut(n)
		}
		var str []byte
		if e != nil {
			str = e.Str
		}
		l := int64(len(str))
		if st < 0 && en < 0 && st > en {
			return one(MStr(nil), n)
		}
		if st < 0 {
			st += l
		}
		if en < 0 {
			en += l
		}
		if st < 0 {
			st = 0
		}
		if en < 0 {
			en = 0
		}
		if en >= l {
			en = l - 1
		}
		if l == 0 || st > en {
			return one(MStr(nil), n)
		}
		return one(MStr(str[st:en+1]), n)
	})

	reg("setrange", func(s *KS, a [][]byte) []Outcome {
		if len(a) != 4 {
			return errOut(s)
		}
		n := begin(s)
		off, ok := parseInt(a[2])
		k := string(a[1])
		e := n.M[k]
		if !ok || off < 0 {
			return errOut(n)
		}
		if e != nil && e.T != "string" {
			return wrongType(n)
		}
		v := a[3]
		if e == nil {
			if len(v) == 0 {
				return one(MInt(0), n)
			}
			if off > maxStr-int64(len(v)) {
				return errOut(n)
			}
			buf := make([]byte, off+int64(len(v)))
			copy(buf[off:], v)
			n.setStr(k, buf, false)
			return one(MInt(int64(len(buf))), n)
		}
		if len(v) == 0 {
			return one(MInt(int64(len(e.Str))), n)
		}
		if off > maxStr-int64(len(v)) {
			return errOut(n)
		}
		need := off + int64(len(v))
		buf := e.Str
		if int64(len(buf)) < need {
			nb := make([]byte, need)
			copy(nb, buf)
			buf = nb
		}
		copy(buf[off:], v)
		e.Str = buf
		return one(MInt(int64(len(buf))), n)
	})

	incr := func(name string, sign int64, hasArg bool) {
		reg(name, func(s *KS, a [][]byte) []Outcome {
			want := 2
			if hasArg {
				want = 3
			}
			if len(a) != want {
				return errOut(s)
			}
			n := begin(s)
			delta := int64(1)
			if hasArg {
				d, ok := parseInt(a[2])
				if !ok {
					return errOut(n)
				}
				delta = d
			}
			k := string(a[1])
			e := n.M[k]
			if sign < 0 && delta == math.MinInt64 {
				return errOut(n) // rejected before the key is looked at
			}
			if e != nil && e.T != "string" {
				return wrongType(n)
			}
			if sign < 0 {
				delta = -delta
			}
			cur := int64(0)
			if e != nil {
				c, ok := parseInt(e.Str)
				if !ok {
					return errOut(n)
				}
				if !canonicalInt(e.Str) {
					// "+1", "01": accepted either way
					alt := begin(s)
					if (delta > 0 && c > math.MaxInt64-delta) || (delta < 0 && c < math.MinInt64-delta) {
						return errOut(n)
					}
					e.Str = []byte(fmtInt(c + delta))
					return []Outcome{{Reply: MInt(c + delta), Next: n}, {Reply: MErr(), Next: alt}}
				}
				cur = c
			}
			if (delta > 0 && cur > math.MaxInt64-delta) || (delta < 0 && cur < math.MinInt64-delta) {
				return errOut(n)
			}
			r := cur + delta
			if e == nil {
				n.setStr(k, []byte(fmtInt(r)), false)
			} else {
				e.Str = []byte(fmtInt(r))
			}
			return one(MInt(r), n)
		})
	}
	incr("incr", 1, false)
	incr("decr", -1, false)
	incr("incrby", 1, true)
	incr("decrby", -1, true)

	reg("incrbyfloat", func(s *KS, a [][]byte) []Outcome {
		if len(a) != 3 {
			return errOut(s)
		}
		n := begin(s)
		k := string(a[1])
		e := n.M[k]
		inc, ok := parseFloat(a[2])
		if e != nil && e.T != "string" {
			if !ok || math.IsInf(inc, 0) {
				// argument check and type check may come in either order
				return one(MErr(), n)
			}
			return wrongType(n)
		}
		if !ok {
			return errOut(n)
		}
		cur := 0.0
		if e != nil {
			c, ok := parseFloat(e.Str)
			if !ok {
				return errOut(n)
			}
			cur = c
		}
		r := cur + inc
		if math.IsNaN(r) || math.IsInf(r, 0) {
			return errOut(n)
		}
		if e == nil {
			n.setStr(k, fmtFloat(r), false)
		} else {
			e.Str = fmtFloat(r)
		}
		return one(MFloat(r), n)
	})
}

func fmtInt(i int64) string {
	return strconv.FormatInt(i, 10)
}

func cmdSet(s *KS, a [][]byte) []Outcome {
	if len(a) < 3 {
		return errOut(s)
	}
	n := begin(s)
	var nx, xx, get, keepttl bool
	expKinds := 0
	var deadline int64
	for i := 3; i < len(a); i++ {
		switch lower(a[i]) {
		case "nx":
			nx = true
		case "xx":
			xx = true
		case "get":
			get = true
		case "keepttl":
			keepttl = true
			expKinds++
		case "ex", "px", "exat", "pxat":
			expKinds++
			if i+1 >= len(a) {
				return errOut(n)
			}
			v, ok := parseInt(a[i+1])
			if !ok || v <= 0 {
				return errOut(n)
			}
			switch lower(a[i]) {
			case "ex":
				if v > (math.MaxInt64-n.NowMs)/1000 {
					return errOut(n)
				}
				deadline = n.NowMs + v*1000
			case "px":
				if v > math.MaxInt64-n.NowMs {
					return errOut(n)
				}
				deadline = n.NowMs + v
			case "exat":
				if v > math.MaxInt64/1000 {
					return errOut(n)
				}
				deadline = v * 1000
			case "pxat":
				deadline = v
			}
			i++
		default:
			return errOut(n)
		}
	}
	if nx && xx || expKinds > 1 {
		return errOut(n)
	}
	k := string(a[1])
	old := n.M[k]
	if get && old != nil && old.T != "string" {
		return wrongType(n)
	}
	var getReply Matcher
	if get {
		if old == nil {
			getReply = MNil()
		} else {
			getReply = MStr(old.Str)
		}
	}
	var alts []Outcome
	if nx && get {
		// an error before Redis 7.0
		alts = append(alts, Outcome{Reply: MErr(), Next: begin(s)})
	}
	if old != nil && old.T != "string" {
		// the reference overwrites / answers nil; the property's general sentence says WRONGTYPE: both accepted
		alts = append(alts, Outcome{Reply: MWrongType(), Next: begin(s)})
	}
	if (nx && old != nil) || (xx && old == nil) {
		r := MNil()
		if get {
			r = getReply
		}
		return append([]Outcome{{Reply: r, Next: n}}, alts...)
	}
	n.setStr(k, a[2], keepttl)
	if deadline != 0 {
		n.M[k].Exp = deadline
		if deadline <= n.NowMs {
			delete(n.M, k)
		}
	}
	r := MOK()
	if get {
		r = getReply
	}
	return append([]Outcome{{Reply: r, Next: n}}, alts...)
}
