package model

import (
	"bytes"
	"fmt"
	"math"
	"sort"
	"strconv"
	"strings"
)

// ---------------------------------------------------------------- state

type SID struct{ Ms, Seq uint64 }

func (a SID) Less(b SID) bool { return a.Ms < b.Ms || (a.Ms == b.Ms && a.Seq < b.Seq) }
func (a SID) String() string  { return fmt.Sprintf("%d-%d", a.Ms, a.Seq) }

type SEntry struct {
	ID     SID
	Fields []string
}

type Entry struct {
	T      string // string list hash set zset stream
	Str    []byte
	List   [][]byte
	Hash   map[string][]byte
	Set    map[string]struct{}
	ZSet   map[string]float64
	Stream []SEntry
	Last   SID   // last generated stream id
	Exp    int64 // absolute deadline in virtual ms since the epoch; 0 = none
}

// KS is the reference keyspace of one database.
type KS struct {
	M     map[string]*Entry
	NowMs int64 // virtual wall clock, ms since the Unix epoch
	// Lax selects the tolerant expiry rule of C06 (1-second window); unused when time never moves.
	Lax bool
}

func NewKS(nowMs int64) *KS { return &KS{M: map[string]*Entry{}, NowMs: nowMs} }

func (e *Entry) clone() *Entry {
	c := &Entry{T: e.T, Exp: e.Exp, Last: e.Last}
	switch e.T {
	case "string":
		c.Str = append([]byte{}, e.Str...)
	case "list":
		c.List = make([][]byte, len(e.List))
		for i, x := range e.List {
			c.List[i] = append([]byte{}, x...)
		}
	case "hash":
		c.Hash = make(map[string][]byte, len(e.Hash))
		for k, v := range e.Hash {
			c.Hash[k] = append([]byte{}, v...)
		}
	case "set":
		c.Set = make(map[string]struct{}, len(e.Set))
		for k := range e.Set {
			c.Set[k] = struct{}{}
		}
	case "zset":
		c.ZSet = make(map[string]float64, len(e.ZSet))
		for k, v := range e.ZSet {
			c.ZSet[k] = v
		}
	case "stream":
		c.Stream = make([]SEntry, len(e.Stream))
		for i, s := range e.Stream {
			c.Stream[i] = SEntry{ID: s.ID, Fields: append([]string{}, s.Fields...)}
		}
	}
	return c
}

func (s *KS) Clone() *KS {
	c := &KS{M: make(map[string]*Entry, len(s.M)), NowMs: s.NowMs, Lax: s.Lax}
	for k, e := range s.M {
		c.M[k] = e.clone()
	}
	return c
}

// expired reports whether the key's deadline has passed.  Strict rule: now >= deadline.
// Lax rule (C06, one-second clock granularity): only from deadline + 1 s on is a key
// *definitely* gone; inside (deadline - 1 s, deadline + 1 s) it is ambiguous (see Ambiguous).
func (s *KS) expired(e *Entry) bool {
	if e.Exp == 0 {
		return false
	}
	if s.Lax {
		return s.NowMs >= e.Exp+1000
	}
	return s.NowMs >= e.Exp
}

// Ambiguous lists the keys whose deadline lies within one second of now (lax rule only).
func (s *KS) Ambiguous() []string {
	var out []string
	if !s.Lax {
		return nil
	}
	for k, e := range s.M {
		if e.Exp != 0 && s.NowMs > e.Exp-1000 && s.NowMs < e.Exp+1000 {
			out = append(out, k)
		}
	}
	sort.Strings(out)
	return out
}

// ApplyLax returns the outcomes of args under every resolution of the ambiguous keys
// (each either still visible or already gone).
func (s *KS) ApplyLax(args [][]byte) []Outcome {
	amb := s.Ambiguous()
	if len(amb) == 0 {
		return s.Apply(args)
	}
	var outs []Outcome
	for mask := 0; mask < 1<<uint(len(amb)); mask++ {
		v := s.Clone()
		for i, k := range amb {
			if mask>>uint(i)&1 == 1 {
				delete(v.M, k)
			}
		}
		outs = append(outs, v.Apply(args)...)
	}
	return outs
}

// DiffCanonLax compares canonical forms under the lax expiry rule: a key present on one side
// only is acceptable when, on that side, its deadline is within one second of now or has
// passed (its physical presence is then not observable as such); keys present on both sides
// must agree exactly (deadlines to the tolerance).
func DiffCanonLax(model, impl []CanonKey, nowMs, ttlTolMs int64) string {
	mi := map[string]CanonKey{}
	for _, k := range model {
		mi[k.Key] = k
	}
	ii := map[string]CanonKey{}
	for _, k := range impl {
		ii[k.Key] = k
	}
	soft := func(k CanonKey) bool { return k.TTL != 0 && nowMs > k.TTL-1000 }
	var m2, i2 []CanonKey
	for _, k := range model {
		if _, ok := ii[k.Key]; !ok && soft(k) {
			continue
		}
		m2 = append(m2, k)
	}
	for _, k := range impl {
		if _, ok := mi[k.Key]; !ok && soft(k) {
			continue
		}
		i2 = append(i2, k)
	}
	return DiffCanon(m2, i2, ttlTolMs)
}

// get returns the live entry or nil, lazily dropping an expired one.
func (s *KS) get(k string) *Entry {
	e := s.M[k]
	if e == nil {
		return nil
	}
	if s.expired(e) {
		delete(s.M, k)
		return nil
	}
	return e
}

// Sweep removes every expired key (used before canonicalisation).
func (s *KS) Sweep() {
	for k, e := range s.M {
		if s.expired(e) {
			delete(s.M, k)
		}
	}
}

// ---------------------------------------------------------------- canonical form

// CanonKey is the canonical, comparable content of one key, produced both from the model
// and from the implementation dump.
type CanonKey struct {
	Key  string
	Type string
	Body string // type-specific canonical text
	TTL  int64  // absolute deadline in ms, 0 = none
}

func zsetBody(z map[string]float64) string {
	type zm struct {
		m string
		s float64
	}
	var l []zm
	for m, sc := range z {
		l = append(l, zm{m, sc})
	}
	sort.Slice(l, func(i, j int) bool {
		if l[i].s != l[j].s {
			return l[i].s < l[j].s
		}
		return l[i].m < l[j].m
	})
	var b strings.Builder
	for _, x := range l {
		fmt.Fprintf(&b, "%q=%s;", x.m, FmtScore(x.s))
	}
	return b.String()
}

func FmtScore(f float64) string { return strconv.FormatFloat(f, 'g', -1, 64) }

func (e *Entry) Body() string {
	var b strings.Builder
	switch e.T {
	case "string":
		fmt.Fprintf(&b, "%q", e.Str)
	case "list":
		for _, x := range e.List {
			fmt.Fprintf(&b, "%q,", x)
		}
	case "hash":
		ks := make([]string, 0, len(e.Hash))
		for k := range e.Hash {
			ks = append(ks, k)
		}
		sort.Strings(ks)
		for _, k := range ks {
			fmt.Fprintf(&b, "%q=%q;", k, e.Hash[k])
		}
	case "set":
		ks := make([]string, 0, len(e.Set))
		for k := range e.Set {
			ks = append(ks, k)
		}
		sort.Strings(ks)
		for _, k := range ks {
			fmt.Fprintf(&b, "%q;", k)
		}
	case "zset":
		return zsetBody(e.ZSet)
	case "stream":
		for _, s := range e.Stream {
			fmt.Fprintf(&b, "%s:%q;", s.ID, s.Fields)
		}
	}
	return b.String()
}

func (s *KS) Canon() []CanonKey {
	var out []CanonKey
	for k, e := range s.M {
		if s.expired(e) {
			continue
		}
		out = append(out, CanonKey{Key: k, Type: e.T, Body: e.Body(), TTL: e.Exp})
	}
	sort.Slice(out, func(i, j int) bool { return out[i].Key < out[j].Key })
	return out
}

func CanonString(c []CanonKey) string {
	var b strings.Builder
	for _, k := range c {
		fmt.Fprintf(&b, "%q %s %s", k.Key, k.Type, k.Body)
		if k.TTL != 0 {
			fmt.Fprintf(&b, " ttl=%d", k.TTL)
		}
		b.WriteString("\n")
	}
	return b.String()
}

// DiffCanon compares model and implementation canonical forms. TTL deadlines are equal when
// they differ by less than ttlTolMs (the clock's one-second granularity).
func DiffCanon(model, impl []CanonKey, ttlTolMs int64) string {
	mi := map[string]CanonKey{}
	for _, k := range model {
		mi[k.Key] = k
	}
	ii := map[string]CanonKey{}
	for _, k := range impl {
		ii[k.Key] = k
	}
	var diffs []string
	for _, k := range model {
		x, ok := ii[k.Key]
		if !ok {
			diffs = append(diffs, fmt.Sprintf("key %q: model has %s %s, implementation has no such key", k.Key, k.Type, k.Body))
			continue
		}
		if x.Type != k.Type || x.Body != k.Body {
			diffs = append(diffs, fmt.Sprintf("key %q: model %s %s, implementation %s %s", k.Key, k.Type, k.Body, x.Type, x.Body))
			continue
		}
		if (x.TTL == 0) != (k.TTL == 0) {
			diffs = append(diffs, fmt.Sprintf("key %q: model ttl=%d, implementation ttl=%d", k.Key, k.TTL, x.TTL))
		} else if d := x.TTL - k.TTL; d >= ttlTolMs || d <= -ttlTolMs {
			diffs = append(diffs, fmt.Sprintf("key %q: model deadline=%d, implementation deadline=%d", k.Key, k.TTL, x.TTL))
		}
	}
	for _, k := range impl {
		if _, ok := mi[k.Key]; !ok {
			diffs = append(diffs, fmt.Sprintf("key %q: implementation has %s %s, model has no such key", k.Key, k.Type, k.Body))
		}
	}
	return strings.Join(diffs, "; ")
}

// ---------------------------------------------------------------- reply matchers

// Matcher returns "" when the reply is acceptable, else a description of the mismatch.
type Matcher struct {
	Desc string
	F    func(v Val) string
}

func mk(desc string, ok func(v Val) bool) Matcher {
	return Matcher{Desc: desc, F: func(v Val) string {
		if ok(v) {
			return ""
		}
		return "expected " + desc + ", got " + v.String()
	}}
}

func MInt(n int64) Matcher {
	return mk(fmt.Sprintf(":%d", n), func(v Val) bool { return v.K == Int && v.I == n })
}
func MIntRange(lo, hi int64) Matcher {
	return mk(fmt.Sprintf("integer in [%d,%d]", lo, hi), func(v Val) bool { return v.K == Int && v.I >= lo && v.I <= hi })
}
func MNil() Matcher { return mk("nil", func(v Val) bool { return v.K == Nil }) }

// MNilAny: null bulk or null array.
func MNilAny() Matcher {
	return mk("nil", func(v Val) bool { return v.K == Nil || v.K == NilArray })
}

// MStr: a string value (simple or bulk framing are the same *value*; framing is C03's business).
func MStr(b []byte) Matcher {
	return mk(fmt.Sprintf("string %q", b), func(v Val) bool { return v.IsStr() && bytes.Equal(v.S, b) })
}
func MOK() Matcher { return MStr([]byte("OK")) }
func MErr() Matcher {
	return mk("an error reply", func(v Val) bool { return v.K == Error })
}
func MWrongType() Matcher {
	return mk("WRONGTYPE error", func(v Val) bool { return v.K == Error && bytes.HasPrefix(v.S, []byte("WRONGTYPE")) })
}
func MFloat(f float64) Matcher {
	return mk(fmt.Sprintf("string with numeric value %v", f), func(v Val) bool {
		if !v.IsStr() {
			return false
		}
		g, err := strconv.ParseFloat(string(v.S), 64)
		return err == nil && g == f
	})
}
func MArr(ms ...Matcher) Matcher {
	ds := make([]string, len(ms))
	for i, m := range ms {
		ds[i] = m.Desc
	}
	desc := "[" + strings.Join(ds, " ") + "]"
	return Matcher{Desc: desc, F: func(v Val) string {
		if v.K != Array || len(v.Arr) != len(ms) {
			return "expected " + desc + ", got " + v.String()
		}
		for i, m := range ms {
			if w := m.F(v.Arr[i]); w != "" {
				return fmt.Sprintf("element %d: %s (whole reply %s)", i, w, v.String())
			}
		}
		return ""
	}}
}
func MEmptyArr() Matcher { return MArr() }

// MStrs: ordered array of strings.
func MStrs(items [][]byte) Matcher {
	ms := make([]Matcher, len(items))
	for i, it := range items {
		ms[i] = MStr(it)
	}
	return MArr(ms...)
}

// MStrSet: array of strings compared as a multiset.
func MStrSet(items []string) Matcher {
	want := append([]string{}, items...)
	sort.Strings(want)
	desc := fmt.Sprintf("array (any order) of %q", want)
	return Matcher{Desc: desc, F: func(v Val) string {
		if v.K != Array {
			return "expected " + desc + ", got " + v.String()
		}
		var got []string
		for _, e := range v.Arr {
			if !e.IsStr() {
				return "expected " + desc + ", got " + v.String()
			}
			got = append(got, string(e.S))
		}
		sort.Strings(got)
		if len(got) != len(want) {
			return "expected " + desc + ", got " + v.String()
		}
		for i := range got {
			if got[i] != want[i] {
				return "expected " + desc + ", got " + v.String()
			}
		}
		return ""
	}}
}

func MAny(ms ...Matcher) Matcher {
	ds := make([]string, len(ms))
	for i, m := range ms {
		ds[i] = m.Desc
	}
	desc := strings.Join(ds, " | ")
	return Matcher{Desc: desc, F: func(v Val) string {
		for _, m := range ms {
			if m.F(v) == "" {
				return ""
			}
		}
		return "expected " + desc + ", got " + v.String()
	}}
}

// ---------------------------------------------------------------- outcomes

// Outcome is one admissible behaviour of a command: the reply matcher and the state that
// results.  Resolve, when set, computes the next state from the actual reply (commands whose
// result is "any current member").
type Outcome struct {
	Reply   Matcher
	Next    *KS
	Resolve func(v Val) (*KS, string)
}

// Check returns the next state if the reply is acceptable for this outcome.
func (o Outcome) Check(v Val) (*KS, string) {
	if o.Resolve != nil {
		return o.Resolve(v)
	}
	if w := o.Reply.F(v); w != "" {
		return nil, w
	}
	return o.Next, ""
}

func one(m Matcher, next *KS) []Outcome { return []Outcome{{Reply: m, Next: next}} }

// errOut: an error reply, state unchanged.
func errOut(s *KS) []Outcome { return one(MErr(), s) }

func wrongType(s *KS) []Outcome { return one(MWrongType(), s) }

// ---------------------------------------------------------------- helpers

func parseInt(b []byte) (int64, bool) {
	// Redis string2ll: canonical decimal, optional leading '-', no spaces, no '+', no leading zeros.
	s := string(b)
	if s == "" {
		return 0, false
	}
	i, err := strconv.ParseInt(s, 10, 64)
	if err != nil {
		return 0, false
	}
	return i, true
}

// strictInt reports whether s is in the canonical form Redis requires; non-canonical but
// Go-parsable forms ("+1", "01", "-0") are "corner" inputs accepted either way.
func canonicalInt(b []byte) bool {
	i, ok := parseInt(b)
	return ok && strconv.FormatInt(i, 10) == string(b)
}

func parseFloat(b []byte) (float64, bool) {
	s := string(b)
	if s == "" || strings.TrimSpace(s) != s {
		return 0, false
	}
	f, err := strconv.ParseFloat(s, 64)
	if err != nil {
		// Redis accepts inf/-inf/+inf/infinity; ParseFloat does too. Out of range → error.
		return 0, false
	}
	if math.IsNaN(f) {
		return 0, false
	}
	return f, true
}

func fmtFloat(f float64) []byte { return []byte(strconv.FormatFloat(f, 'f', -1, 64)) }

func lower(b []byte) string { return strings.ToLower(string(b)) }

// Apply computes the admissible outcomes of one command on state s (s is never mutated).
func (s *KS) Apply(args [][]byte) []Outcome {
	if len(args) == 0 {
		return errOut(s)
	}
	name := lower(args[0])
	f, ok := cmdTable[name]
	if !ok {
		return errOut(s)
	}
	return f(s, args)
}

type cmdFn func(s *KS, a [][]byte) []Outcome

var cmdTable = map[string]cmdFn{}

// Known reports whether the model implements the command.
func Known(name string) bool { _, ok := cmdTable[strings.ToLower(name)]; return ok }

func reg(name string, f cmdFn) { cmdTable[name] = f }
