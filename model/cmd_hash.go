package model

import (
	"bytes"
	"fmt"
	"math"
	"sort"
)

func (s *KS) hashOf(k string) (*Entry, bool) {
	e := s.M[k]
	if e == nil {
		return nil, true
	}
	return e, e.T == "hash"
}

// mPairsSet: flat array [f1 v1 f2 v2 ...] in any field order with the pairing kept.
func mPairsSet(h map[string][]byte) Matcher {
	fs := make([]string, 0, len(h))
	for f := range h {
		fs = append(fs, f)
	}
	sort.Strings(fs)
	desc := "flat field/value array (any order) of {"
	for _, f := range fs {
		desc += fmt.Sprintf("%q:%q ", f, h[f])
	}
	desc += "}"
	return Matcher{Desc: desc, F: func(v Val) string {
		bad := "expected " + desc + ", got " + v.String()
		if v.K != Array || len(v.Arr) != 2*len(h) {
			return bad
		}
		seen := map[string]bool{}
		for i := 0; i < len(v.Arr); i += 2 {
			f, val := v.Arr[i], v.Arr[i+1]
			if !f.IsStr() || !val.IsStr() {
				return bad
			}
			want, ok := h[string(f.S)]
			if !ok || seen[string(f.S)] || !bytes.Equal(want, val.S) {
				return bad
			}
			seen[string(f.S)] = true
		}
		return ""
	}}
}

// mRandom: count semantics shared by HRANDFIELD / SRANDMEMBER.
//
//	count > 0: min(count,len) distinct existing members;  count < 0: exactly |count| existing members.
func mRandom(members map[string][]byte, count int64, withValues bool) Matcher {
	n := int64(len(members))
	desc := fmt.Sprintf("random selection count=%d withvalues=%v from %d members", count, withValues, n)
	return Matcher{Desc: desc, F: func(v Val) string {
		bad := "expected " + desc + ", got " + v.String()
		if v.K != Array {
			return bad
		}
		step := 1
		if withValues {
			step = 2
		}
		if len(v.Arr)%step != 0 {
			return bad
		}
		got := int64(len(v.Arr) / step)
		want := count
		if count > 0 && count > n {
			want = n
		}
		if count < 0 {
			want = -count
			if n == 0 {
				want = 0
			}
		}
		if got != want {
			return bad
		}
		seen := map[string]bool{}
		for i := 0; i < len(v.Arr); i += step {
			f := v.Arr[i]
			if !f.IsStr() {
				return bad
			}
			val, ok := members[string(f.S)]
			if !ok {
				return bad + " (returned a non-member)"
			}
			if count > 0 && seen[string(f.S)] {
				return bad + " (duplicate with positive count)"
			}
			seen[string(f.S)] = true
			if withValues {
				if !v.Arr[i+1].IsStr() || !bytes.Equal(v.Arr[i+1].S, val) {
					return bad + " (value does not belong to field)"
				}
			}
		}
		return ""
	}}
}

func init() {
	reg("hset", func(s *KS, a [][]byte) []Outcome {
		if len(a) < 4 || len(a)%2 != 0 {
			return errOut(s)
		}
		n := begin(s)
		k := string(a[1])
		e, ok := n.hashOf(k)
		if !ok {
			return wrongType(n)
		}
		if e == nil {
			e = &Entry{T: "hash", Hash: map[string][]byte{}}
			n.M[k] = e
		}
		added := int64(0)
		for i := 2; i < len(a); i += 2 {
			if _, ex := e.Hash[string(a[i])]; !ex {
				added++
			}
			e.Hash[string(a[i])] = copyB(a[i+1])
		}
		return one(MInt(added), n)
	})

	reg("hsetnx", func(s *KS, a [][]byte) []Outcome {
		if len(a) != 4 {
			return errOut(s)
		}
		n := begin(s)
		k := string(a[1])
		e, ok := n.hashOf(k)
		if !ok {
			return wrongType(n)
		}
		if e != nil {
			if _, ex := e.Hash[string(a[2])]; ex {
				return one(MInt(0), n)
			}
		}
		if e == nil {
			e = &Entry{T: "hash", Hash: map[string][]byte{}}
			n.M[k] = e
		}
		e.Hash[string(a[2])] = copyB(a[3])
		return one(MInt(1), n)
	})

	reg("hget", func(s *KS, a [][]byte) []Outcome {
		if len(a) != 3 {
			return errOut(s)
		}
		n := begin(s)
		e, ok := n.hashOf(string(a[1]))
		if !ok {
			return wrongType(n)
		}
		if e == nil {
			return one(MNil(), n)
		}
		v, ex := e.Hash[string(a[2])]
		if !ex {
			return one(MNil(), n)
		}
		return one(MStr(v), n)
	})

	reg("hmget", func(s *KS, a [][]byte) []Outcome {
		if len(a) < 3 {
			return errOut(s)
		}
		n := begin(s)
		e, ok := n.hashOf(string(a[1]))
		if !ok {
			return wrongType(n)
		}
		ms := []Matcher{}
		for _, f := range a[2:] {
			if e == nil {
				ms = append(ms, MNil())
				continue
			}
			if v, ex := e.Hash[string(f)]; ex {
				ms = append(ms, MStr(v))
			} else {
				ms = append(ms, MNil())
			}
		}
		return one(MArr(ms...), n)
	})

	reg("hgetall", func(s *KS, a [][]byte) []Outcome {
		if len(a) != 2 {
			return errOut(s)
		}
		n := begin(s)
		e, ok := n.hashOf(string(a[1]))
		if !ok {
			return wrongType(n)
		}
		if e == nil {
			return one(MEmptyArr(), n)
		}
		return one(mPairsSet(e.Hash), n)
	})

	reg("hkeys", func(s *KS, a [][]byte) []Outcome {
		if len(a) != 2 {
			return errOut(s)
		}
		n := begin(s)
		e, ok := n.hashOf(string(a[1]))
		if !ok {
			return wrongType(n)
		}
		var fs []string
		if e != nil {
			for f := range e.Hash {
				fs = append(fs, f)
			}
		}
		return one(MStrSet(fs), n)
	})

	reg("hvals", func(s *KS, a [][]byte) []Outcome {
		if len(a) != 2 {
			return errOut(s)
		}
		n := begin(s)
		e, ok := n.hashOf(string(a[1]))
		if !ok {
			return wrongType(n)
		}
		var vs []string
		if e != nil {
			for _, v := range e.Hash {
				vs = append(vs, string(v))
			}
		}
		return one(MStrSet(vs), n)
	})

	reg("hlen", func(s *KS, a [][]byte) []Outcome {
		if len(a) != 2 {
			return errOut(s)
		}
		n := begin(s)
		e, ok := n.hashOf(string(a[1]))
		if !ok {
			return wrongType(n)
		}
		if e == nil {
			return one(MInt(0), n)
		}
		return one(MInt(int64(len(e.Hash))), n)
	})

	reg("hexists", func(s *KS, a [][]byte) []Outcome {
		if len(a) != 3 {
			return errOut(s)
		}
		n := begin(s)
		e, ok := n.hashOf(string(a[1]))
		if !ok {
			return wrongType(n)
		}
		if e != nil {
			if _, ex := e.Hash[string(a[2])]; ex {
				return one(MInt(1), n)
			}
		}
		return one(MInt(0), n)
	})

	reg("hstrlen", func(s *KS, a [][]byte) []Outcome {
		if len(a) != 3 {
			return errOut(s)
		}
		n := begin(s)
		e, ok := n.hashOf(string(a[1]))
		if !ok {
			return wrongType(n)
		}
		if e != nil {
			return one(MInt(int64(len(e.Hash[string(a[2])]))), n)
		}
		return one(MInt(0), n)
	})

	reg("hdel", func(s *KS, a [][]byte) []Outcome {
		if len(a) < 3 {
			return errOut(s)
		}
		n := begin(s)
		k := string(a[1])
		e, ok := n.hashOf(k)
		if !ok {
			return wrongType(n)
		}
		if e == nil {
			return one(MInt(0), n)
		}
		c := int64(0)
		for _, f := range a[2:] {
			if _, ex := e.Hash[string(f)]; ex {
				delete(e.Hash, string(f))
				c++
			}
		}
		if len(e.Hash) == 0 {
			delete(n.M, k)
		}
		return one(MInt(c), n)
	})

	reg("hincrby", func(s *KS, a [][]byte) []Outcome {
		if len(a) != 4 {
			return errOut(s)
		}
		n := begin(s)
		k := string(a[1])
		e, ok := n.hashOf(k)
		inc, oki := parseInt(a[3])
		if !ok {
			if !oki {
				return one(MErr(), n)
			}
			return wrongType(n)
		}
		if !oki {
			return errOut(n)
		}
		cur := int64(0)
		if e != nil {
			if v, ex := e.Hash[string(a[2])]; ex {
				c, okc := parseInt(v)
				if !okc {
					return errOut(n)
				}
				cur = c
			}
		}
		if (inc > 0 && cur > math.MaxInt64-inc) || (inc < 0 && cur < math.MinInt64-inc) {
			return errOut(n)
		}
		if e == nil {
			e = &Entry{T: "hash", Hash: map[string][]byte{}}
			n.M[k] = e
		}
		e.Hash[string(a[2])] = []byte(fmtInt(cur + inc))
		return one(MInt(cur+inc), n)
	})

	reg("hincrbyfloat", func(s *KS, a [][]byte) []Outcome {
		if len(a) != 4 {
			return errOut(s)
		}
		n := begin(s)
		k := string(a[1])
		e, ok := n.hashOf(k)
		inc, oki := parseFloat(a[3])
		if !ok {
			if !oki {
				return one(MErr(), n)
			}
			return wrongType(n)
		}
		if !oki || math.IsInf(inc, 0) {
			// Redis rejects nan; an infinite increment always yields a non-finite result
			return errOut(n)
		}
		cur := 0.0
		if e != nil {
			if v, ex := e.Hash[string(a[2])]; ex {
				c, okc := parseFloat(v)
				if !okc {
					return errOut(n)
				}
				cur = c
			}
		}
		r := cur + inc
		if math.IsNaN(r) || math.IsInf(r, 0) {
			return errOut(n)
		}
		if e == nil {
			e = &Entry{T: "hash", Hash: map[string][]byte{}}
			n.M[k] = e
		}
		e.Hash[string(a[2])] = fmtFloat(r)
		return one(MFloat(r), n)
	})

	reg("hrandfield", func(s *KS, a [][]byte) []Outcome {
		if len(a) < 2 || len(a) > 4 {
			return errOut(s)
		}
		n := begin(s)
		e, ok := n.hashOf(string(a[1]))
		var count int64
		withValues := false
		if len(a) >= 3 {
			c, okc := parseInt(a[2])
			if !okc {
				return errOut(n)
			}
			count = c
			if len(a) == 4 {
				if lower(a[3]) != "withvalues" {
					return errOut(n)
				}
				withValues = true
			}
			if count < -(1 << 40) {
				return errOut(n) // "value is out of range"
			}
		}
		if count > math.MaxInt64/2 {
			// the reference rejects counts beyond LONG_MAX/2 ("value is out of range"); answering
			// like any count larger than the container is equally fine: both accepted
			alt := s.Apply(append(append([][]byte{}, a[:2]...), append([][]byte{[]byte("4611686018427387903")}, a[3:]...)...))
			return append(alt, Outcome{Reply: MErr(), Next: begin(s)})
		}
		if !ok {
			return wrongType(n)
		}
		members := map[string][]byte{}
		if e != nil {
			members = e.Hash
		}
		if len(a) == 2 {
			if e == nil {
				return one(MNil(), n)
			}
			return one(Matcher{Desc: "one existing field", F: func(v Val) string {
				if v.IsStr() {
					if _, ex := members[string(v.S)]; ex {
						return ""
					}
				}
				return "expected one existing field, got " + v.String()
			}}, n)
		}
		return one(mRandom(members, count, withValues), n)
	})
}
