package model

import (
	"fmt"
	"math"
	"sort"
)

func (s *KS) zsetOf(k string) (*Entry, bool) {
	e := s.M[k]
	if e == nil {
		return nil, true
	}
	return e, e.T == "zset"
}

type zmem struct {
	m string
	s float64
}

func zOrdered(e *Entry) []zmem {
	var l []zmem
	if e != nil {
		for m, sc := range e.ZSet {
			l = append(l, zmem{m, sc})
		}
	}
	sort.Slice(l, func(i, j int) bool {
		if l[i].s != l[j].s {
			return l[i].s < l[j].s
		}
		return l[i].m < l[j].m
	})
	return l
}

func parseScore(b []byte) (float64, bool) {
	f, ok := parseFloat(b)
	if !ok || math.IsNaN(f) {
		return 0, false
	}
	return f, true
}

func init() {
	reg("zadd", func(s *KS, a [][]byte) []Outcome {
		if len(a) < 4 {
			return errOut(s)
		}
		n := begin(s)
		var nx, xx, gt, lt, ch, incr bool
		i := 2
	opts:
		for ; i < len(a); i++ {
			switch lower(a[i]) {
			case "nx":
				nx = true
			case "xx":
				xx = true
			case "gt":
				gt = true
			case "lt":
				lt = true
			case "ch":
				ch = true
			case "incr":
				incr = true
			default:
				break opts
			}
		}
		rest := a[i:]
		if len(rest) == 0 || len(rest)%2 != 0 {
			return errOut(n)
		}
		if (nx && xx) || (gt && lt) || (nx && (gt || lt)) {
			return errOut(n)
		}
		if incr && len(rest) != 2 {
			return errOut(n)
		}
		scores := make([]float64, len(rest)/2)
		for j := 0; j < len(rest); j += 2 {
			sc, ok := parseScore(rest[j])
			if !ok {
				return errOut(n)
			}
			scores[j/2] = sc
		}
		k := string(a[1])
		e, ok := n.zsetOf(k)
		if !ok {
			return wrongType(n)
		}
		created := false
		if e == nil {
			e = &Entry{T: "zset", ZSet: map[string]float64{}}
			created = true
		}
		added, updated := int64(0), int64(0)
		var incrReply Matcher
		incrReply = MNil()
		for j := 0; j < len(rest); j += 2 {
			m := string(rest[j+1])
			sc := scores[j/2]
			old, ex := e.ZSet[m]
			if ex {
				if nx {
					continue
				}
				if incr {
					sc = old + sc
					if math.IsNaN(sc) {
						return errOut(begin(s))
					}
				}
				if (gt && !(sc > old)) || (lt && !(sc < old)) {
					continue
				}
				if sc != old {
					updated++
				}
				e.ZSet[m] = sc
				if incr {
					incrReply = MFloat(sc)
				}
			} else {
				if xx {
					continue
				}
				e.ZSet[m] = sc
				added++
				if incr {
					incrReply = MFloat(sc)
				}
			}
		}
		if created && len(e.ZSet) > 0 {
			n.M[k] = e
		}
		if incr {
			return one(incrReply, n)
		}
		if ch {
			return one(MInt(added+updated), n)
		}
		return one(MInt(added), n)
	})

	reg("zrem", func(s *KS, a [][]byte) []Outcome {
		if len(a) < 3 {
			return errOut(s)
		}
		n := begin(s)
		k := string(a[1])
		e, ok := n.zsetOf(k)
		if !ok {
			return wrongType(n)
		}
		if e == nil {
			return one(MInt(0), n)
		}
		c := int64(0)
		for _, m := range a[2:] {
			if _, ex := e.ZSet[string(m)]; ex {
				delete(e.ZSet, string(m))
				c++
			}
		}
		if len(e.ZSet) == 0 {
			delete(n.M, k)
		}
		return one(MInt(c), n)
	})

	reg("zrank", func(s *KS, a [][]byte) []Outcome {
		if len(a) != 3 {
			return errOut(s)
		}
		n := begin(s)
		e, ok := n.zsetOf(string(a[1]))
		if !ok {
			return wrongType(n)
		}
		for i, x := range zOrdered(e) {
			if x.m == string(a[2]) {
				return one(MInt(int64(i)), n)
			}
		}
		return one(MNil(), n)
	})

	reg("zrange", func(s *KS, a [][]byte) []Outcome {
		if len(a) < 4 {
			return errOut(s)
		}
		n := begin(s)
		e, ok := n.zsetOf(string(a[1]))
		st, ok1 := parseInt(a[2])
		en, ok2 := parseInt(a[3])
		rev, withScores := false, false
		for _, o := range a[4:] {
			switch lower(o) {
			case "rev":
				rev = true
			case "withscores":
				withScores = true
			default:
				// BYSCORE / BYLEX / LIMIT are outside C12's statement
				return one(Matcher{Desc: "(option outside the modelled subset)", F: func(Val) string { return "" }}, n)
			}
		}
		if !ok {
			if !ok1 || !ok2 {
				return one(MErr(), n)
			}
			return wrongType(n)
		}
		if !ok1 || !ok2 {
			return errOut(n)
		}
		l := zOrdered(e)
		if rev {
			for i, j := 0, len(l)-1; i < j; i, j = i+1, j-1 {
				l[i], l[j] = l[j], l[i]
			}
		}
		lo, hi := normRange(st, en, int64(len(l)))
		var ms []Matcher
		for _, x := range l[lo:hi] {
			ms = append(ms, MStr([]byte(x.m)))
			if withScores {
				ms = append(ms, MFloat(x.s))
			}
		}
		m := MArr(ms...)
		m.Desc = fmt.Sprintf("members in rank range: %s", m.Desc)
		return one(m, n)
	})
}
