// Package model holds the reference models: an independent RESP codec, the Redis keyspace
// semantics, the glob matcher.  It shares no code with RedisGO.
package model

import (
	"bytes"
	"fmt"
	"strconv"
)

type Kind int

const (
	Simple Kind = iota
	Error
	Int
	Bulk
	Nil // null bulk
	Array
	NilArray // null array
	None     // executor returned a nil result (client would get "-unknown error")
)

// Val is a decoded RESP value.
type Val struct {
	K   Kind
	S   []byte
	I   int64
	Arr []Val
}

func (v Val) String() string {
	switch v.K {
	case Simple:
		return "+" + strconv.Quote(string(v.S))
	case Error:
		return "-" + strconv.Quote(string(v.S))
	case Int:
		return ":" + strconv.FormatInt(v.I, 10)
	case Bulk:
		return "$" + strconv.Quote(string(v.S))
	case Nil:
		return "nil"
	case NilArray:
		return "nil-array"
	case None:
		return "<no-result>"
	case Array:
		var b bytes.Buffer
		b.WriteString("[")
		for i, e := range v.Arr {
			if i > 0 {
				b.WriteString(" ")
			}
			b.WriteString(e.String())
		}
		b.WriteString("]")
		return b.String()
	}
	return "?"
}

// IsStr: simple or bulk string.
func (v Val) IsStr() bool { return v.K == Simple || v.K == Bulk }

// Decode reads exactly one RESP value from b and returns it with the number of bytes consumed.
// It is strict: lengths must be canonical decimal, lines end in CRLF, simple strings / errors /
// integers contain no CR or LF.
func Decode(b []byte) (Val, int, error) {
	if len(b) == 0 {
		return Val{}, 0, fmt.Errorf("empty")
	}
	line := func(from int) ([]byte, int, error) {
		for i := from; i+1 < len(b); i++ {
			if b[i] == '\r' {
				if b[i+1] == '\n' {
					return b[from:i], i + 2, nil
				}
				return nil, 0, fmt.Errorf("bare CR inside line at %d", i)
			}
			if b[i] == '\n' {
				return nil, 0, fmt.Errorf("bare LF inside line at %d", i)
			}
		}
		return nil, 0, fmt.Errorf("unterminated line")
	}
	switch b[0] {
	case '+', '-':
		l, n, err := line(1)
		if err != nil {
			return Val{}, 0, err
		}
		k := Simple
		if b[0] == '-' {
			k = Error
		}
		return Val{K: k, S: append([]byte{}, l...)}, n, nil
	case ':':
		l, n, err := line(1)
		if err != nil {
			return Val{}, 0, err
		}
		i, err := strconv.ParseInt(string(l), 10, 64)
		if err != nil {
			return Val{}, 0, fmt.Errorf("bad integer %q", l)
		}
		return Val{K: Int, I: i}, n, nil
	case '$':
		l, n, err := line(1)
		if err != nil {
			return Val{}, 0, err
		}
		if string(l) == "-1" {
			return Val{K: Nil}, n, nil
		}
		ln, err := strconv.ParseUint(string(l), 10, 31)
		if err != nil || strconv.FormatUint(ln, 10) != string(l) {
			return Val{}, 0, fmt.Errorf("bad bulk length %q", l)
		}
		if n+int(ln)+2 > len(b) {
			return Val{}, 0, fmt.Errorf("bulk truncated: need %d bytes", int(ln)+2)
		}
		if b[n+int(ln)] != '\r' || b[n+int(ln)+1] != '\n' {
			return Val{}, 0, fmt.Errorf("bulk not terminated by CRLF")
		}
		return Val{K: Bulk, S: append([]byte{}, b[n:n+int(ln)]...)}, n + int(ln) + 2, nil
	case '*':
		l, n, err := line(1)
		if err != nil {
			return Val{}, 0, err
		}
		if string(l) == "-1" {
			return Val{K: NilArray}, n, nil
		}
		cnt, err := strconv.ParseUint(string(l), 10, 31)
		if err != nil || strconv.FormatUint(cnt, 10) != string(l) {
			return Val{}, 0, fmt.Errorf("bad array length %q", l)
		}
		v := Val{K: Array, Arr: []Val{}}
		for i := 0; i < int(cnt); i++ {
			e, m, err := Decode(b[n:])
			if err != nil {
				return Val{}, 0, fmt.Errorf("array element %d: %v", i, err)
			}
			v.Arr = append(v.Arr, e)
			n += m
		}
		return v, n, nil
	}
	return Val{}, 0, fmt.Errorf("unknown type byte %q", b[0])
}

// DecodeOne decodes b as exactly one value with no trailing bytes.
func DecodeOne(b []byte) (Val, error) {
	if b == nil {
		return Val{K: None}, nil
	}
	v, n, err := Decode(b)
	if err != nil {
		return Val{}, err
	}
	if n != len(b) {
		return v, fmt.Errorf("%d trailing bytes after a complete value", len(b)-n)
	}
	return v, nil
}

// DecodeAll decodes a stream of complete values.
func DecodeAll(b []byte) ([]Val, error) {
	var out []Val
	for len(b) > 0 {
		v, n, err := Decode(b)
		if err != nil {
			return out, err
		}
		out = append(out, v)
		b = b[n:]
	}
	return out, nil
}

// EncodeCommand encodes an argument vector as an array of bulk strings.
func EncodeCommand(args [][]byte) []byte {
	var b bytes.Buffer
	fmt.Fprintf(&b, "*%d\r\n", len(args))
	for _, a := range args {
		fmt.Fprintf(&b, "$%d\r\n", len(a))
		b.Write(a)
		b.WriteString("\r\n")
	}
	return b.Bytes()
}
