// Package lin is a brute-force linearizability checker for the tiny histories of the
// interleaving harnesses (<= ~8 operations): it searches for a total order that respects
// real time, in which every reply is admitted by the sequential model, and (optionally) whose
// final model state satisfies a predicate (e.g. equals the implementation's dump at quiescence).
package lin

import "fmt"

type Op struct {
	Thread  int
	Call    int64 // scheduler step at invocation
	Ret     int64 // scheduler step at response
	Pending bool  // never returned (blocked at the end of the execution)
	In      interface{}
	Out     interface{}
	// After: 1 + index of an operation that must be linearized before this one (0 = none).  For
	// commands pipelined on one connection: they take effect in the order they were written, but
	// command i+1 may take effect before the client has seen the reply to command i.
	After int
}

type Model struct {
	Init func() interface{}
	// Step returns every admissible next state for applying in with observed out (nil/empty = rejected).
	Step func(state interface{}, in, out interface{}) []interface{}
	Key  func(state interface{}) string
}

// Check returns whether a linearization exists and, if so, one witness order (indexes into ops).
func Check(ops []Op, m Model, final func(state interface{}) bool) (bool, []int) {
	n := len(ops)
	if n > 20 {
		panic("lin: history too long for brute force")
	}
	memo := map[string]bool{}
	var order []int
	var rec func(done uint32, st interface{}) bool
	rec = func(done uint32, st interface{}) bool {
		// all completed ops linearized?
		allDone := true
		for i := 0; i < n; i++ {
			if done>>uint(i)&1 == 0 && !ops[i].Pending {
				allDone = false
				break
			}
		}
		if allDone && (final == nil || final(st)) {
			return true
		}
		k := fmt.Sprintf("%d|%s", done, m.Key(st))
		if memo[k] {
			return false
		}
		memo[k] = true
		for i := 0; i < n; i++ {
			if done>>uint(i)&1 == 1 {
				continue
			}
			// real-time order: every op that returned before ops[i] was called must be done
			ok := true
			for j := 0; j < n; j++ {
				if j != i && done>>uint(j)&1 == 0 && !ops[j].Pending && ops[j].Ret < ops[i].Call {
					ok = false
					break
				}
			}
			if ops[i].After > 0 && done>>uint(ops[i].After-1)&1 == 0 {
				ok = false
			}
			if !ok {
				continue
			}
			if ops[i].Pending {
				// a pending op may take effect with any reply: the model decides through out == nil
				for _, ns := range m.Step(st, ops[i].In, nil) {
					order = append(order, i)
					if rec(done|1<<uint(i), ns) {
						return true
					}
					order = order[:len(order)-1]
				}
				continue
			}
			for _, ns := range m.Step(st, ops[i].In, ops[i].Out) {
				order = append(order, i)
				if rec(done|1<<uint(i), ns) {
					return true
				}
				order = order[:len(order)-1]
			}
		}
		return false
	}
	ok := rec(0, m.Init())
	if !ok {
		return false, nil
	}
	return true, append([]int{}, order...)
}
