//go:build verif

package memdb

import (
	"fmt"
	"hash/fnv"
	"reflect"
	"sort"
	"strconv"
	"strings"
	"unsafe"

	"github.com/innovationb1ue/RedisGO/verifrt/vsync"
)

// This file is added to package memdb by the verification overlay only.  It reads
// private state without taking locks (the harness calls it at quiescence) and never
// mutates anything.

type VerifZ struct {
	Member string
	Score  float64
}

type VerifStreamEntry struct {
	ID     string
	Fields []string
}

type VerifKey struct {
	Key    string
	Type   string // string list hash set zset stream unknown
	Str    []byte
	List   [][]byte
	Hash   [][2]string // sorted by field
	Set    []string    // sorted
	ZSet   []VerifZ    // tree order; members of one node sorted
	Stream []VerifStreamEntry
	HasTTL bool
	TTL    int64 // absolute unix seconds
	// Hidden is implementation state that the logical content does not determine (AVL tree shape,
	// the last id a stream remembers after trimming): it is part of the search's state key so that
	// logically equal states with different internals are not merged, never of the comparison
	// with the model.
	Hidden string
}

type VerifDumpT struct {
	Keys       []VerifKey
	Count      int64 // ConcurrentMap.count of the key table
	TTLCount   int64
	TTLOrphans []string // ttl entries without a key
	Invariants []string // structural invariant violations ("kind: detail")
}

const verifWalkLimit = 1 << 20

// VerifDump returns the canonical content of the database plus structural invariants.
func (m *MemDb) VerifDump() *VerifDumpT {
	if m == nil {
		// a database that has not been created yet (an implementation may create numbered databases
		// lazily) holds nothing
		return &VerifDumpT{}
	}
	d := &VerifDumpT{Count: m.db.count, TTLCount: m.ttlKeys.count}
	type kv struct {
		k string
		v any
	}
	var all []kv
	for si, sh := range m.db.table {
		for k, v := range sh.item {
			all = append(all, kv{k, v})
			if m.db.getKeyPos(k) != si {
				d.Invariants = append(d.Invariants, fmt.Sprintf("shard-placement: key %q in wrong shard", k))
			}
		}
	}
	sort.Slice(all, func(i, j int) bool { return all[i].k < all[j].k })
	ttl := map[string]int64{}
	nTTL := 0
	for si, sh := range m.ttlKeys.table {
		for k, v := range sh.item {
			nTTL++
			if m.ttlKeys.getKeyPos(k) != si {
				d.Invariants = append(d.Invariants, fmt.Sprintf("shard-placement: ttl key %q in wrong shard", k))
			}
			if ti, ok := v.(*TTLInfo); ok {
				ttl[k] = ti.value
			} else {
				d.Invariants = append(d.Invariants, fmt.Sprintf("ttl-type: ttl entry of %q is %T", k, v))
			}
		}
	}
	if int64(len(all)) != m.db.count {
		d.Invariants = append(d.Invariants, fmt.Sprintf("key-count: counter=%d keys=%d", m.db.count, len(all)))
	}
	if int64(nTTL) != m.ttlKeys.count {
		d.Invariants = append(d.Invariants, fmt.Sprintf("ttl-count: counter=%d entries=%d", m.ttlKeys.count, nTTL))
	}
	// no two keys may share one mutable value object (or one underlying table): a later write to
	// one key would silently change the other
	owner := map[uintptr]string{}
	share := func(ptr uintptr, key string) {
		if ptr == 0 {
			return
		}
		if o, ok := owner[ptr]; ok && o != key {
			d.Invariants = append(d.Invariants, fmt.Sprintf("aliased-value: keys %q and %q share one value object", o, key))
			return
		}
		owner[ptr] = key
	}
	for _, e := range all {
		switch v := e.v.(type) {
		case *List:
			share(reflect.ValueOf(v).Pointer(), e.k)
		case *Hash:
			share(reflect.ValueOf(v).Pointer(), e.k)
			share(reflect.ValueOf(v.table).Pointer(), e.k)
		case *Set:
			share(reflect.ValueOf(v).Pointer(), e.k)
			share(reflect.ValueOf(v.table).Pointer(), e.k)
		case *SortedSet[*SortedSetNode]:
			share(reflect.ValueOf(v).Pointer(), e.k)
			if v.Btree != nil {
				share(reflect.ValueOf(v.Btree).Pointer(), e.k)
			}
		case *Stream:
			share(reflect.ValueOf(v).Pointer(), e.k)
		}
	}
	// string values that share backing memory (one array reachable through two keys): not a defect in
	// itself - immutable shared values are fine - but hidden state: a write in place through one key
	// shows through the other.  It goes into Hidden, so that the explicit-state search keeps "a and b
	// share memory" apart from the otherwise equal state in which they do not.
	type span struct {
		key    string
		lo, hi uintptr
	}
	var spans []span
	for _, e := range all {
		if b, ok := e.v.([]byte); ok && cap(b) > 0 {
			lo := reflect.ValueOf(b[:cap(b)]).Pointer()
			spans = append(spans, span{e.k, lo, lo + uintptr(cap(b))})
		}
	}
	sharesWith := map[string][]string{}
	for i := range spans {
		for j := range spans {
			if i != j && spans[i].lo < spans[j].hi && spans[j].lo < spans[i].hi {
				sharesWith[spans[i].key] = append(sharesWith[spans[i].key], spans[j].key)
			}
		}
	}
	present := map[string]bool{}
	for _, e := range all {
		present[e.k] = true
		vk := VerifKey{Key: e.k}
		if t, ok := ttl[e.k]; ok {
			vk.HasTTL, vk.TTL = true, t
		}
		switch v := e.v.(type) {
		case []byte:
			vk.Type = "string"
			vk.Str = append([]byte{}, v...)
		case *List:
			vk.Type = "list"
			vk.List, d.Invariants = verifList(e.k, v, d.Invariants)
		case *Hash:
			vk.Type = "hash"
			for f, val := range v.table {
				vk.Hash = append(vk.Hash, [2]string{f, string(val)})
			}
			sort.Slice(vk.Hash, func(i, j int) bool { return vk.Hash[i][0] < vk.Hash[j][0] })
			if len(v.table) == 0 {
				d.Invariants = append(d.Invariants, fmt.Sprintf("empty-container: hash %q is empty but exists", e.k))
			}
		case *Set:
			vk.Type = "set"
			for mem := range v.table {
				vk.Set = append(vk.Set, mem)
			}
			sort.Strings(vk.Set)
			if len(v.table) == 0 {
				d.Invariants = append(d.Invariants, fmt.Sprintf("empty-container: set %q is empty but exists", e.k))
			}
		case *SortedSet[*SortedSetNode]:
			vk.Type = "zset"
			vk.ZSet, d.Invariants = verifZSet(e.k, v, d.Invariants)
			if v.Btree != nil {
				var shape func(n *Node[*SortedSetNode], depth int) string
				shape = func(n *Node[*SortedSetNode], depth int) string {
					if n == nil || depth > 64 {
						return "."
					}
					return "(" + shape(n.left, depth+1) + fmt.Sprint(len(n.Value.Names)) + shape(n.right, depth+1) + ")"
				}
				vk.Hidden = shape(v.Btree.root, 0)
			}
		case *Stream:
			vk.Type = "stream"
			vk.Stream, d.Invariants = verifStream(e.k, v, d.Invariants)
			if v.hasLast {
				vk.Hidden = "last=" + v.last.Format()
			}
		default:
			vk.Type = fmt.Sprintf("unknown(%T)", e.v)
		}
		// whatever else the value object carries (a cache, a cursor, spare capacity): a structural
		// fingerprint of the whole object graph, so that a read-only command that changes hidden
		// state leads to a new state of the search instead of being merged away
		vk.Hidden += "|" + verifDeep(e.v)
		if sw := sharesWith[e.k]; len(sw) > 0 {
			sort.Strings(sw)
			vk.Hidden += "|shares-memory-with:" + fmt.Sprint(sw)
		}
		d.Keys = append(d.Keys, vk)
	}
	for k := range ttl {
		if !present[k] {
			d.TTLOrphans = append(d.TTLOrphans, k)
		}
	}
	sort.Strings(d.TTLOrphans)
	return d
}

func verifList(key string, l *List, inv []string) ([][]byte, []string) {
	var fwd [][]byte
	bad := func(f string, a ...any) { inv = append(inv, "list-links: "+key+": "+fmt.Sprintf(f, a...)) }
	if l.Head == nil || l.Tail == nil {
		bad("nil sentinel")
		return nil, inv
	}
	n := l.Head.Next
	prev := l.Head
	steps := 0
	okFwd := true
	for n != l.Tail {
		if n == nil {
			bad("forward walk hits nil after %d nodes (Len=%d)", steps, l.Len)
			okFwd = false
			break
		}
		if n.Prev != prev {
			bad("node %d: Prev does not point to predecessor", steps)
		}
		fwd = append(fwd, append([]byte{}, n.Val...))
		prev = n
		n = n.Next
		steps++
		if steps > verifWalkLimit {
			bad("forward walk does not terminate")
			okFwd = false
			break
		}
	}
	if okFwd && l.Tail.Prev != prev {
		bad("Tail.Prev is not the last node")
	}
	if okFwd && steps != l.Len {
		inv = append(inv, fmt.Sprintf("list-len: %s: Len=%d nodes=%d", key, l.Len, steps))
	}
	// backward walk
	bsteps := 0
	n = l.Tail.Prev
	for n != l.Head {
		if n == nil {
			bad("backward walk hits nil after %d nodes", bsteps)
			break
		}
		n = n.Prev
		bsteps++
		if bsteps > verifWalkLimit {
			bad("backward walk does not terminate")
			break
		}
	}
	if okFwd && n == l.Head && bsteps != steps {
		bad("forward=%d backward=%d", steps, bsteps)
	}
	if okFwd && steps == 0 {
		inv = append(inv, fmt.Sprintf("empty-container: list %q is empty but exists", key))
	}
	return fwd, inv
}

func verifZSet(key string, z *SortedSet[*SortedSetNode], inv []string) ([]VerifZ, []string) {
	var out []VerifZ
	bad := func(kind, f string, a ...any) { inv = append(inv, kind+": "+key+": "+fmt.Sprintf(f, a...)) }
	if z.Btree == nil {
		bad("avl", "nil tree")
		return nil, inv
	}
	t := z.Btree
	nodes := 0
	seen := map[string]*Node[*SortedSetNode]{}
	var walk func(n *Node[*SortedSetNode], depth int) int64
	var last *float64
	walk = func(n *Node[*SortedSetNode], depth int) int64 {
		if n == nil {
			return 0
		}
		if depth > 64 {
			bad("avl", "depth > 64 (cycle?)")
			return 0
		}
		lh := walk(n.left, depth+1)
		nodes++
		sc := n.Value.Score
		if last != nil && !(*last < sc) {
			bad("avl-order", "in-order scores not strictly increasing: %v then %v", *last, sc)
		}
		s2 := sc
		last = &s2
		names := make([]string, 0, len(n.Value.Names))
		for nm := range n.Value.Names {
			names = append(names, nm)
		}
		sort.Strings(names)
		if len(names) == 0 {
			bad("avl-empty-node", "node with score %v has no member", sc)
		}
		for _, nm := range names {
			if o, dup := seen[nm]; dup && o != n {
				bad("zset-dup-member", "member %q held by two nodes", nm)
			}
			seen[nm] = n
			out = append(out, VerifZ{nm, sc})
		}
		rh := walk(n.right, depth+1)
		h := lh
		if rh > h {
			h = rh
		}
		h++
		if n.height != h {
			bad("avl-height", "node %v: stored height %d, actual %d", sc, n.height, h)
		}
		if lh-rh > 1 || rh-lh > 1 {
			bad("avl-balance", "node %v: balance %d", sc, lh-rh)
		}
		return h
	}
	walk(t.root, 0)
	if nodes != t.len {
		bad("avl-len", "len=%d nodes=%d", t.len, nodes)
	}
	for nm, n := range t.dict {
		if seen[nm] != n {
			if seen[nm] == nil {
				bad("zset-dict", "dict has member %q that no tree node holds", nm)
			} else {
				bad("zset-dict", "dict[%q] points to a different node than the one holding it", nm)
			}
		}
	}
	for nm := range seen {
		if _, ok := t.dict[nm]; !ok {
			bad("zset-dict", "member %q in tree but not in dict", nm)
		}
	}
	if nodes == 0 {
		inv = append(inv, fmt.Sprintf("empty-container: zset %q is empty but exists", key))
	}
	return out, inv
}

func verifStream(key string, s *Stream, inv []string) ([]VerifStreamEntry, []string) {
	var out []VerifStreamEntry
	var prev *StreamID
	for _, id := range s.timeStamps {
		if id == nil {
			inv = append(inv, "stream-ids: "+key+": nil id")
			continue
		}
		if prev != nil && !(id.time > prev.time || (id.time == prev.time && id.seqNum > prev.seqNum)) {
			inv = append(inv, fmt.Sprintf("stream-ids: %s: %s not greater than %s", key, id.Format(), prev.Format()))
		}
		prev = id
		f, ok := s.entry[id.Format()]
		if !ok {
			inv = append(inv, fmt.Sprintf("stream-entry: %s: id %s has no entry", key, id.Format()))
		}
		out = append(out, VerifStreamEntry{ID: id.Format(), Fields: append([]string{}, f...)})
	}
	if len(s.entry) != len(s.timeStamps) {
		inv = append(inv, fmt.Sprintf("stream-entry: %s: %d ids, %d entries", key, len(s.timeStamps), len(s.entry)))
	}
	return out, inv
}

// VerifStripe / VerifShard expose the collision structure of a key.
func (m *MemDb) VerifStripe(key string) int { return m.locks.GetKeyPos(key) }
func (m *MemDb) VerifShard(key string) int  { return m.db.getKeyPos(key) }
func (m *MemDb) VerifNumStripes() int       { return len(m.verifStripes()) }

// verifStripes lists the key-lock stripes through reflection, so that a change of their
// representation (a slice of pointers, a slice of atomic pointers filled on first use, ...) does not
// stop the harness from building; a stripe that does not exist yet is nil.
func (m *MemDb) verifStripes() []*vsync.RWMutex {
	v := reflect.ValueOf(m).Elem().FieldByName("locks")
	for v.IsValid() && (v.Kind() == reflect.Ptr || v.Kind() == reflect.Interface) && !v.IsNil() {
		v = v.Elem()
	}
	if !v.IsValid() || v.Kind() != reflect.Struct {
		return nil
	}
	v = v.FieldByName("locks")
	if !v.IsValid() || (v.Kind() != reflect.Slice && v.Kind() != reflect.Array) {
		return nil
	}
	want := reflect.TypeOf((*vsync.RWMutex)(nil))
	out := make([]*vsync.RWMutex, v.Len())
	for i := range out {
		e := v.Index(i)
		switch {
		case e.Type() == want:
			out[i] = (*vsync.RWMutex)(e.UnsafePointer())
		case e.Kind() == reflect.Struct && strings.HasSuffix(e.Type().PkgPath(), "verifrt/vatomic") && strings.HasPrefix(e.Type().Name(), "Pointer[") &&
			e.NumField() == 1 && e.Field(0).Kind() == reflect.Struct && e.Field(0).FieldByName("v").IsValid() &&
			e.Field(0).Type().Field(0).Type.Kind() == reflect.Array && e.Field(0).Type().Field(0).Type.Elem() == want:
			out[i] = (*vsync.RWMutex)(e.Field(0).FieldByName("v").UnsafePointer())
		case e.Kind() == reflect.Struct && e.Type().PkgPath() == "sync/atomic" && strings.HasPrefix(e.Type().Name(), "Pointer[") &&
			e.NumField() > 0 && e.Type().Field(0).Type.Kind() == reflect.Array && e.Type().Field(0).Type.Elem() == want:
			out[i] = (*vsync.RWMutex)(e.FieldByName("v").UnsafePointer())
		case e.Type() == want.Elem() && e.CanAddr():
			out[i] = (*vsync.RWMutex)(e.Addr().UnsafePointer())
		}
	}
	return out
}

// VerifStripeOf maps a lock object back to its stripe index (-1: not a stripe lock).
func (m *MemDb) VerifStripeOf(obj any) int {
	rw, ok := obj.(*vsync.RWMutex)
	if !ok {
		return -1
	}
	for i, l := range m.verifStripes() {
		if l == rw {
			return i
		}
	}
	return -1
}

// VerifShardOf maps a lock object back to "db:<i>" / "ttl:<i>" / "sub:<i>" shard, or "".
func (m *MemDb) VerifShardOf(obj any) string {
	rw, ok := obj.(*vsync.RWMutex)
	if !ok {
		return ""
	}
	for i, sh := range m.db.table {
		if sh.rwMu == rw {
			return fmt.Sprintf("db:%d", i)
		}
	}
	for i, sh := range m.ttlKeys.table {
		if sh.rwMu == rw {
			return fmt.Sprintf("ttl:%d", i)
		}
	}
	for i, sh := range m.SubChans.item.table {
		if sh.rwMu == rw {
			return fmt.Sprintf("sub:%d", i)
		}
	}
	return ""
}

// VerifLocksHeld lists locks that are held right now (controlled mode), e.g. "stripe:3(w)".
func (m *MemDb) VerifLocksHeld() []string {
	var out []string
	chk := func(name string, rw *vsync.RWMutex) {
		w, r, _ := rw.State()
		if w {
			out = append(out, name+"(w)")
		}
		if r > 0 {
			out = append(out, fmt.Sprintf("%s(r%d)", name, r))
		}
	}
	for i, l := range m.verifStripes() {
		if l != nil {
			chk(fmt.Sprintf("stripe:%d", i), l)
		}
	}
	for i, sh := range m.db.table {
		chk(fmt.Sprintf("db:%d", i), sh.rwMu)
	}
	for i, sh := range m.ttlKeys.table {
		chk(fmt.Sprintf("ttl:%d", i), sh.rwMu)
	}
	return out
}

// VerifSubscribers returns channel -> number of registered connections / numSubs.
func (m *MemDb) VerifSubscribers() map[string][2]int {
	out := map[string][2]int{}
	for _, sh := range m.SubChans.item.table {
		for k, v := range sh.item {
			if c, ok := v.(*Chan); ok && c != nil {
				out[k] = [2]int{len(c.conns), c.numSubs}
			}
		}
	}
	return out
}

// VerifTreeRun drives the AVL tree directly: inserts one member per score (member i is named
// "m<i>"), then deletes the members listed in del (indexes into scores), checking the structural
// invariants after every single operation.  Returns the first violations found (nil = none).
func VerifTreeRun(scores []float64, del []int) []string {
	z := NewSortedSet()
	var inv []string
	for i, sc := range scores {
		z.Insert(&SortedSetNode{Names: map[string]struct{}{fmt.Sprintf("m%d", i): {}}, Score: sc})
		if _, inv = verifZSet("t", z, inv); len(inv) > 0 {
			return append(inv, fmt.Sprintf("after inserting #%d (score %v)", i, sc))
		}
	}
	for _, d := range del {
		z.Delete(fmt.Sprintf("m%d", d))
		_, inv = verifZSet("t", z, inv)
		// an emptied tree is fine here (the executor removes the key)
		var real []string
		for _, s := range inv {
			if len(s) < 15 || s[:15] != "empty-container" {
				real = append(real, s)
			}
		}
		inv = real
		if len(inv) > 0 {
			return append(inv, fmt.Sprintf("after deleting m%d", d))
		}
		if z.GetByName(fmt.Sprintf("m%d", d)) != nil {
			return []string{fmt.Sprintf("zset-dict: deleted member m%d still indexed", d)}
		}
	}
	return nil
}

// VerifTreeOp is one step of the shape search: insert a new member whose score falls at rank Rank
// among the current members (0 = below all), or delete the member of rank Rank.
type VerifTreeOp struct {
	Del  bool
	Rank int
}

// VerifTreeShape replays ops on a fresh AVL tree (one member per node), checking the structural
// invariants after every operation, and returns the resulting shape (pre-order, "(" left right ")",
// "." for nil - scores abstracted to their rank, so two trees are the same state exactly when they
// are the same shape), the node count, and the violations of the LAST operation (nil = none).
func VerifTreeShape(ops []VerifTreeOp) (shape string, n int, inv []string) {
	z := NewSortedSet()
	type mem struct {
		name  string
		score float64
	}
	var ms []mem
	next := 0
	for i, op := range ops {
		if op.Del {
			if op.Rank < 0 || op.Rank >= len(ms) {
				return "", 0, []string{"harness: bad delete rank"}
			}
			nm := ms[op.Rank].name
			z.Delete(nm)
			ms = append(ms[:op.Rank:op.Rank], ms[op.Rank+1:]...)
			if z.GetByName(nm) != nil {
				inv = append(inv, fmt.Sprintf("zset-dict: deleted member %s still indexed", nm))
			}
		} else {
			if op.Rank < 0 || op.Rank > len(ms) {
				return "", 0, []string{"harness: bad insert rank"}
			}
			var sc float64
			switch {
			case len(ms) == 0:
				sc = 0
			case op.Rank == 0:
				sc = ms[0].score - 1
			case op.Rank == len(ms):
				sc = ms[len(ms)-1].score + 1
			default:
				sc = (ms[op.Rank-1].score + ms[op.Rank].score) / 2
			}
			nm := fmt.Sprintf("m%d", next)
			next++
			z.Insert(&SortedSetNode{Names: map[string]struct{}{nm: {}}, Score: sc})
			ms = append(ms, mem{})
			copy(ms[op.Rank+1:], ms[op.Rank:])
			ms[op.Rank] = mem{nm, sc}
		}
		if i < len(ops)-1 && len(inv) == 0 {
			continue // the prefix was checked when the state it leads to was first reached
		}
		var got []VerifZ
		got, inv = verifZSet("t", z, inv)
		var real []string
		for _, s := range inv {
			if len(s) < 15 || s[:15] != "empty-container" {
				real = append(real, s)
			}
		}
		inv = real
		if len(inv) == 0 {
			if len(got) != len(ms) {
				inv = append(inv, fmt.Sprintf("avl-content: tree holds %d members, %d expected", len(got), len(ms)))
			} else {
				for j := range got {
					if got[j].Member != ms[j].name || got[j].Score != ms[j].score {
						inv = append(inv, fmt.Sprintf("avl-content: rank %d holds %s/%v, expected %s/%v", j, got[j].Member, got[j].Score, ms[j].name, ms[j].score))
						break
					}
				}
			}
		}
		if len(inv) > 0 {
			return "", len(ms), append(inv, fmt.Sprintf("after op #%d (del=%v rank=%d)", i, op.Del, op.Rank))
		}
	}
	var b []byte
	var walk func(nd *Node[*SortedSetNode], depth int)
	walk = func(nd *Node[*SortedSetNode], depth int) {
		if nd == nil || depth > 64 {
			b = append(b, '.')
			return
		}
		b = append(b, '(')
		walk(nd.left, depth+1)
		walk(nd.right, depth+1)
		b = append(b, ')')
	}
	if z.Btree != nil {
		walk(z.Btree.root, 0)
	}
	return string(b), len(ms), nil
}

// verifDeep fingerprints the object graph reachable from v by reflection: every field (exported
// or not) of every struct, maps in sorted key order, slices with their length (byte slices also
// with their capacity), pointers followed with back-references for cycles.  Synchronisation
// objects, channels, functions and timers are opaque.
func verifDeep(root any) string {
	h := fnv.New64a()
	w := func(s string) { h.Write([]byte(s)); h.Write([]byte{0}) }
	seen := map[unsafe.Pointer]int{}
	nodes := 0
	var walk func(v reflect.Value)
	walk = func(v reflect.Value) {
		nodes++
		if nodes > verifWalkLimit {
			return
		}
		switch v.Kind() {
		case reflect.Invalid:
			w("invalid")
		case reflect.Ptr:
			if v.IsNil() {
				w("nil")
				return
			}
			p := v.UnsafePointer()
			if id, ok := seen[p]; ok {
				w("@" + strconv.Itoa(id))
				return
			}
			seen[p] = len(seen)
			w("&")
			walk(v.Elem())
		case reflect.Interface:
			if v.IsNil() {
				w("nil")
				return
			}
			w(v.Elem().Type().String())
			walk(v.Elem())
		case reflect.Struct:
			t := v.Type()
			pp := t.PkgPath()
			if pp == "sync/atomic" && strings.HasPrefix(t.Name(), "Pointer[") && t.NumField() > 0 && t.Field(0).Type.Kind() == reflect.Array {
				// atomic.Pointer[T]{_ [0]*T; _ noCopy; v unsafe.Pointer}: follow v as a *T
				pt := t.Field(0).Type.Elem()
				if p := v.FieldByName("v").UnsafePointer(); p == nil {
					w("nil")
				} else {
					walk(reflect.NewAt(pt.Elem(), p))
				}
				return
			}
			if strings.HasSuffix(pp, "verifrt/vatomic") && t.NumField() == 1 {
				// the shim's atomics wrap the real ones: walk into the wrapped value
				walk(v.Field(0))
				return
			}
			if strings.HasSuffix(pp, "sync") || strings.Contains(pp, "verifrt") || pp == "time" || pp == "context" {
				w("<" + t.String() + ">")
				return
			}
			w("{" + t.String())
			for i := 0; i < v.NumField(); i++ {
				w(t.Field(i).Name)
				walk(v.Field(i))
			}
			w("}")
		case reflect.Map:
			if v.IsNil() {
				w("nilmap")
				return
			}
			type ent struct {
				k string
				v reflect.Value
			}
			var es []ent
			it := v.MapRange()
			for it.Next() {
				es = append(es, ent{fmt.Sprintf("%v", verifScalar(it.Key())), it.Value()})
			}
			sort.Slice(es, func(i, j int) bool { return es[i].k < es[j].k })
			w("map" + strconv.Itoa(len(es)))
			for _, e := range es {
				w(e.k)
				walk(e.v)
			}
		case reflect.Slice:
			if v.IsNil() {
				w("nilslice")
				return
			}
			if v.Type().Elem().Kind() == reflect.Uint8 {
				w("bytes" + strconv.Itoa(v.Len()) + "/" + strconv.Itoa(v.Cap()))
				h.Write(v.Bytes())
				return
			}
			w("slice" + strconv.Itoa(v.Len()))
			for i := 0; i < v.Len(); i++ {
				walk(v.Index(i))
			}
		case reflect.Array:
			for i := 0; i < v.Len(); i++ {
				walk(v.Index(i))
			}
		case reflect.Chan, reflect.Func, reflect.UnsafePointer:
			w(v.Kind().String())
		default:
			w(fmt.Sprintf("%v", verifScalar(v)))
		}
	}
	walk(reflect.ValueOf(root))
	return strconv.FormatUint(h.Sum64(), 36)
}

// verifScalar reads a basic value even from an unexported field.
func verifScalar(v reflect.Value) any {
	switch v.Kind() {
	case reflect.String:
		return v.String()
	case reflect.Bool:
		return v.Bool()
	case reflect.Int, reflect.Int8, reflect.Int16, reflect.Int32, reflect.Int64:
		return v.Int()
	case reflect.Uint, reflect.Uint8, reflect.Uint16, reflect.Uint32, reflect.Uint64, reflect.Uintptr:
		return v.Uint()
	case reflect.Float32, reflect.Float64:
		return v.Float()
	case reflect.Complex64, reflect.Complex128:
		return v.Complex()
	}
	return v.Kind().String()
}
