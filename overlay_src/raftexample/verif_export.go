//go:build verif

package raftexample

import (
	"context"
	"os"

	"go.etcd.io/etcd/client/pkg/v3/fileutil"
	"go.etcd.io/etcd/client/pkg/v3/types"
	"go.etcd.io/etcd/raft/v3"
	"go.etcd.io/etcd/raft/v3/raftpb"
	"go.etcd.io/etcd/server/v3/etcdserver/api/rafthttp"
	"go.etcd.io/etcd/server/v3/etcdserver/api/snap"
	stats "go.etcd.io/etcd/server/v3/etcdserver/api/v2stats"
	"go.etcd.io/etcd/server/v3/storage/wal"
	"go.uber.org/zap"
)

// This file is added to package raftexample by the verification overlay only.  It assembles a
// RaftNode the way NewRaftNode/startRaft do, minus the two parts the simulator replaces: the
// raft.Node goroutine wrapper (a RawNode adapter is plugged into rc.Node) and the network
// (the rafthttp transport gets do-nothing stub peers - see rafthttp/verif_hook.go - so Send is
// a no-op and the simulator routes rd.Messages itself).

// VerifNode adapts a raft.RawNode to the raft.Node interface used by RaftNode.
type VerifNode struct {
	RN      *raft.RawNode
	lastRd  raft.Ready
	Stopped bool
}

func (n *VerifNode) Tick()                                          { n.RN.Tick() }
func (n *VerifNode) Campaign(ctx context.Context) error             { return n.RN.Campaign() }
func (n *VerifNode) Propose(ctx context.Context, data []byte) error { return n.RN.Propose(data) }
func (n *VerifNode) ProposeConfChange(ctx context.Context, cc raftpb.ConfChangeI) error {
	return n.RN.ProposeConfChange(cc)
}
func (n *VerifNode) Step(ctx context.Context, msg raftpb.Message) error { return n.RN.Step(msg) }
func (n *VerifNode) Ready() <-chan raft.Ready                           { return nil }
func (n *VerifNode) Advance()                                           { n.RN.Advance(n.lastRd) }
func (n *VerifNode) ApplyConfChange(cc raftpb.ConfChangeI) *raftpb.ConfState {
	return n.RN.ApplyConfChange(cc)
}
func (n *VerifNode) TransferLeadership(ctx context.Context, lead, transferee uint64) {
	n.RN.TransferLeader(transferee)
}
func (n *VerifNode) ReadIndex(ctx context.Context, rctx []byte) error {
	n.RN.ReadIndex(rctx)
	return nil
}
func (n *VerifNode) Status() raft.Status         { return n.RN.Status() }
func (n *VerifNode) ReportUnreachable(id uint64) { n.RN.ReportUnreachable(id) }
func (n *VerifNode) ReportSnapshot(id uint64, status raft.SnapshotStatus) {
	n.RN.ReportSnapshot(id, status)
}
func (n *VerifNode) Stop() { n.Stopped = true }

// VerifThresholds lowers (or restores) the snapshot threshold and the catch-up distance.
func VerifThresholds(snapCount, catchUp uint64) (oldCount, oldCatchUp uint64) {
	oldCount, oldCatchUp = defaultSnapshotCount, snapshotCatchUpEntriesN
	defaultSnapshotCount, snapshotCatchUpEntriesN = snapCount, catchUp
	return
}

// VerifJoin: the next VerifNewRaftNode builds a node started with --join (startRaft: RestartNode
// without bootstrap peers even though there is no WAL yet).
var VerifJoin bool

// VerifNewRaftNode builds a node whose directories live under dir.  It performs the part of
// startRaft up to the creation of the raft state machine (snapshotter, WAL replay, raft.Config
// from the extracted literal, RawNode instead of raft.StartNode/RestartNode) and the prologue of
// serveChannels (confState / snapshotIndex / appliedIndex from the storage snapshot).
func VerifNewRaftNode(id int, peers []string, dir string, getSnapshot func() ([]byte, error)) (*RaftNode, chan *RaftCommit, *VerifNode, error) {
	commitC := make(chan *RaftCommit)
	rc := &RaftNode{
		commitC:     commitC,
		errorC:      make(chan error, 1),
		id:          id,
		Peers:       append([]string{}, peers...),
		waldir:      dir + "/wal",
		snapdir:     dir + "/snap",
		getSnapshot: getSnapshot,
		snapCount:   defaultSnapshotCount,
		stopc:       make(chan struct{}),
		httpstopc:   make(chan struct{}),
		httpdonec:   make(chan struct{}),
		logger:      zap.NewNop(),
	}
	close(rc.httpdonec) // there is no HTTP server to wait for in stopHTTP
	if !fileutil.Exist(rc.snapdir) {
		if err := os.MkdirAll(rc.snapdir, 0750); err != nil {
			return nil, nil, nil, err
		}
	}
	rc.snapshotter = snap.New(zap.NewNop(), rc.snapdir)
	oldwal := wal.Exist(rc.waldir)
	if !oldwal {
		os.MkdirAll(dir, 0750)
	}
	rc.wal = rc.replayWAL()
	c := rc.verifRaftConfig()
	c.Logger = verifQuiet{}
	var rn *raft.RawNode
	var err error
	if !oldwal && !VerifJoin {
		rpeers := make([]raft.Peer, len(rc.Peers))
		for i := range rpeers {
			rpeers[i] = raft.Peer{ID: uint64(i + 1)}
		}
		rn, err = raft.NewRawNode(c)
		if err == nil && len(rpeers) > 0 {
			err = rn.Bootstrap(rpeers)
		}
	} else {
		rn, err = raft.NewRawNode(c)
	}
	if err != nil {
		return nil, nil, nil, err
	}
	vn := &VerifNode{RN: rn}
	rc.Node = vn
	rc.transport = &rafthttp.Transport{
		Logger:      zap.NewNop(),
		ID:          types.ID(rc.id),
		ClusterID:   0x1000,
		Raft:        rc,
		ServerStats: stats.NewServerStats("", ""),
		LeaderStats: stats.NewLeaderStats(zap.NewNop(), "1"),
		ErrorC:      make(chan error),
	}
	// startRaft: rc.transport.Start() and AddPeer for every configured peer but this node.  The
	// peers are do-nothing stubs (the simulator carries the messages), so that applying a
	// membership change can call the real AddPeer / RemovePeer.
	var pids []types.ID
	for i := 0; i < len(rc.Peers)+2; i++ { // two spare ids for nodes added later
		if i+1 != rc.id {
			pids = append(pids, types.ID(i+1))
		}
	}
	if err := rc.transport.VerifStubPeers(pids...); err != nil {
		return nil, nil, nil, err
	}
	// prologue of serveChannels
	sn, err := rc.raftStorage.Snapshot()
	if err != nil {
		return nil, nil, nil, err
	}
	rc.confState = sn.Metadata.ConfState
	rc.snapshotIndex = sn.Metadata.Index
	rc.appliedIndex = sn.Metadata.Index
	return rc, commitC, vn, nil
}

// VerifHandleReady runs the extracted body of `case rd := <-rc.Node.Ready():`.
func (rc *RaftNode) VerifHandleReady(vn *VerifNode, rd raft.Ready) bool {
	vn.lastRd = rd
	return rc.verifHandleReady(rd)
}

func (rc *RaftNode) VerifAppliedIndex() uint64         { return rc.appliedIndex }
func (rc *RaftNode) VerifSnapshotIndex() uint64        { return rc.snapshotIndex }
func (rc *RaftNode) VerifStorage() *raft.MemoryStorage { return rc.raftStorage }
func (rc *RaftNode) VerifCloseWAL() {
	if rc.wal != nil {
		rc.wal.Close()
	}
}

// VerifPublish pushes entries through the real publishEntries (JSON decode -> commitC).
func (rc *RaftNode) VerifPublish(ents []raftpb.Entry) (<-chan struct{}, bool) {
	return rc.publishEntries(ents)
}

// VerifLoopbackNode is the minimal node for the single-node loopback of C14: only what
// publishEntries needs.
func VerifLoopbackNode() (*RaftNode, chan *RaftCommit) {
	commitC := make(chan *RaftCommit)
	return &RaftNode{commitC: commitC, stopc: make(chan struct{}), logger: zap.NewNop()}, commitC
}

type verifQuiet struct{}

func (verifQuiet) Debug(v ...interface{})                   {}
func (verifQuiet) Debugf(format string, v ...interface{})   {}
func (verifQuiet) Error(v ...interface{})                   {}
func (verifQuiet) Errorf(format string, v ...interface{})   {}
func (verifQuiet) Info(v ...interface{})                    {}
func (verifQuiet) Infof(format string, v ...interface{})    {}
func (verifQuiet) Warning(v ...interface{})                 {}
func (verifQuiet) Warningf(format string, v ...interface{}) {}
func (verifQuiet) Fatal(v ...interface{})                   { panic(v) }
func (verifQuiet) Fatalf(format string, v ...interface{})   { panic(format) }
func (verifQuiet) Panic(v ...interface{})                   { panic(v) }
func (verifQuiet) Panicf(format string, v ...interface{})   { panic(format) }
