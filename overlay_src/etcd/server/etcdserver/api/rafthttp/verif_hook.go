//go:build verif

package rafthttp

import (
	"time"

	"go.etcd.io/etcd/client/pkg/v3/types"
	"go.etcd.io/etcd/raft/v3/raftpb"
	"go.etcd.io/etcd/server/v3/etcdserver/api/snap"
)

// This file is added to package rafthttp by the verification overlay only.  The cluster simulator
// routes raft messages itself; the transport only has to survive the AddPeer / RemovePeer calls
// that applying a membership change makes.  VerifStubPeers starts the transport (maps, probers and
// round trippers; no listener, no goroutine) and registers a do-nothing peer for every given id, so
// that Send is a no-op, AddPeer of a registered id returns early and RemovePeer runs its real code.
type verifPeer struct{ t *Transport }

// VerifSendHook, when set, sees every message at the moment the Ready handler hands it to the
// transport (i.e. the moment it may leave the node), with the sending node's id.
var VerifSendHook func(from types.ID, m raftpb.Message)

func (p verifPeer) send(m raftpb.Message) {
	if VerifSendHook != nil && p.t != nil {
		VerifSendHook(p.t.ID, m)
	}
}
func (verifPeer) sendSnap(m snap.Message)               { m.CloseWithError(errMemberNotFound) }
func (verifPeer) update(urls types.URLs)                {}
func (verifPeer) attachOutgoingConn(conn *outgoingConn) {}
func (verifPeer) activeSince() time.Time                { return time.Time{} }
func (verifPeer) stop()                                 {}

func (t *Transport) VerifStubPeers(ids ...types.ID) error {
	if err := t.Start(); err != nil {
		return err
	}
	t.mu.Lock()
	defer t.mu.Unlock()
	for _, id := range ids {
		t.peers[id] = verifPeer{t: t}
	}
	return nil
}

// VerifPeerIDs lists the peers the transport currently knows.
func (t *Transport) VerifPeerIDs() []types.ID {
	t.mu.RLock()
	defer t.mu.RUnlock()
	var out []types.ID
	for id := range t.peers {
		out = append(out, id)
	}
	return out
}
