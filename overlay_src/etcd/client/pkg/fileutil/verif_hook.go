//go:build verif

package fileutil

import "os"

// VerifSyncHook, when set, is called at the top of Fsync / Fdatasync with the name of the
// function and the file about to be synced (durability points for the crash enumerators).
var VerifSyncHook func(op string, f *os.File)

func verifSyncHook(op string, f *os.File) {
	if VerifSyncHook != nil {
		VerifSyncHook(op, f)
	}
}
