//go:build verif

package server

import (
	"context"

	"github.com/innovationb1ue/RedisGO/raftexample"
	"github.com/innovationb1ue/RedisGO/resp"
	"go.etcd.io/etcd/raft/v3/raftpb"
)

// Added by the verification overlay only: exports of the unexported cluster glue.

// VerifHandleClusterCommits runs the real apply loop.
func VerifHandleClusterCommits(ctx context.Context, commitC <-chan *raftexample.RaftCommit, confChangeC chan<- raftpb.ConfChangeI, dbMgr *Manager, resultCallback map[string]chan resp.RedisData, errorC <-chan error) {
	handleClusterCommits(ctx, commitC, confChangeC, dbMgr, resultCallback, errorC)
}

// VerifClusterFilter builds the command filter exactly as Start does.
func VerifClusterFilter() *middleware {
	f := newMiddleware()
	f.Add(ClusterCmdFilter)
	return f
}
