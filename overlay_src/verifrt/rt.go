//go:build verif

// Package verifrt is the runtime the verification overlay injects into RedisGO
// (virtual package github.com/innovationb1ue/RedisGO/verifrt, present only under
// `-tags verif -overlay ...`).  It owns the three nondeterminism sources of the
// memdb / resp / util packages: goroutine scheduling (vsync), the clock (vtime) and
// goroutine creation (vsync.Go).
//
// Two modes:
//
//   - Free: shims delegate to the real sync primitives and real goroutines (used by the
//     -race pass and by harnesses that drive server.Handle over in-memory connections);
//     only the clock is virtual.
//   - Controlled: every registered thread is a real goroutine but exactly one holds the
//     baton.  Each shim operation first calls point(), which lets the world's Chooser pick
//     the next thread among the *enabled* ones.  Nothing runs concurrently, so scheduler
//     state needs no locking.
package verifrt

import (
	"fmt"
	"runtime"
	"runtime/debug"
	"sort"
	"strings"
	"sync"
	"sync/atomic"
	"time"
)

type Mode int

const (
	Free Mode = iota
	Controlled
)

// CurMode is set once per process before any World is created.
var CurMode Mode = Free

// WriterPreference models Go's RWMutex writer preference (a writer that has called Lock
// blocks later readers) as a separate "announce" step.
var WriterPreference = true

// Epoch is the virtual wall-clock origin (seconds since the Unix epoch).
const Epoch int64 = 1700000000

type OpKind int

const (
	OpStart OpKind = iota
	OpLock
	OpRLock
	OpWAnnounce
	OpWLock
	OpSelect
	OpSleep
	OpYield
	OpWait
	OpOnce
	OpSend
	OpRecv
	OpIO
)

var opNames = []string{"start", "lock", "rlock", "wannounce", "wlock", "select", "sleep", "yield", "wait", "once", "send", "recv", "io"}

func (k OpKind) String() string { return opNames[k] }

// Op is the operation a parked thread is about to perform.
type Op struct {
	Kind    OpKind
	Obj     interface{}
	Enabled func() bool // nil = always enabled
}

type Thread struct {
	ID         int
	Name       string
	Background bool // spawned by implementation code through vsync.Go
	Points     int  // number of scheduling points passed
	Done       bool
	Panic      *PanicRec
	Op         Op
	Tag        interface{} // harness use

	w    *World
	wake chan struct{}
	fn   func()
}

type PanicRec struct {
	Thread string
	Value  string
	Stack  string
	// Func is the innermost RedisGO function on the panicking stack.
	Func string
}

type vtimer struct {
	deadline int64
	period   int64
	ch       chan time.Time
	stopped  bool
	seq      int
}

// World is one explored instance: threads, virtual clock, timers.
type World struct {
	Threads []*Thread
	Cur     *Thread // baton holder; nil = the driver goroutine
	Now     int64   // virtual nanoseconds since Epoch
	Steps   int64
	// MaxSteps is the horizon: when reached the baton returns to the driver with Horizon set.
	MaxSteps int64
	Horizon  bool
	// Chooser picks the next thread among enabled (sorted by ID; cur, if enabled, is included).
	// Returning nil hands the baton back to the driver.
	Chooser func(w *World, cur *Thread, enabled []*Thread) *Thread
	// Granted, if set, is called right after a thread has been chosen to perform op.
	Granted func(t *Thread, op Op)
	// OnLock is called on every granted / released lock operation (lock tracing for C13).
	OnLock func(t *Thread, kind string, obj interface{})

	Panics []*PanicRec

	// ChanState: the emulated channels of this world (vsync.Send / Recv / SelectB / Close), keyed
	// by the channel's address.
	ChanState map[uintptr]interface{}

	nextID   int
	timers   []*vtimer
	timerSeq int
	driver   chan struct{}
	dead     bool
	wg       sync.WaitGroup
	mu       sync.Mutex // Free mode only: protects clock/timers/panics
	deadCh   chan struct{}
}

// FreeLockHook, when set, is called in Free mode before a vsync.Mutex is locked (by the goroutine
// that is about to lock it).  The cluster simulator uses it to hold a connection handler at a lock
// for a while: the one place where a free-running goroutine of the server can be delayed between two
// of its steps.
var freeLockHook atomic.Value // of lockHook

type lockHook struct{ f func(obj interface{}) }

// SetFreeLockHook installs (or, with nil, removes) the hook.
func SetFreeLockHook(f func(obj interface{})) { freeLockHook.Store(lockHook{f}) }

// FreeLockHook returns the installed hook or nil.
func FreeLockHook() func(obj interface{}) {
	if h, ok := freeLockHook.Load().(lockHook); ok {
		return h.f
	}
	return nil
}

// W is the current world.  One world is live at a time per process.
var W *World

func NewWorld() *World {
	w := &World{driver: make(chan struct{}, 1), MaxSteps: 1 << 40, deadCh: make(chan struct{})}
	// goroutines left over from the previous world (expiry timers) may still look the world up
	freeMu.Lock()
	W = w
	freeMu.Unlock()
	return w
}

// ---------------------------------------------------------------- threads

// Spawn registers a new thread.  It does not run until the scheduler picks it.
func (w *World) Spawn(name string, fn func()) *Thread {
	t := &Thread{ID: w.nextID, Name: name, w: w, wake: make(chan struct{}, 1), fn: fn}
	w.nextID++
	t.Op = Op{Kind: OpStart}
	w.Threads = append(w.Threads, t)
	w.wg.Add(1)
	go t.main()
	return t
}

func (t *Thread) main() {
	w := t.w
	defer w.wg.Done()
	<-t.wake
	if w.dead {
		return
	}
	defer func() {
		if w.dead {
			// Goexit or late panic in a dropped world: swallow.
			recover()
			return
		}
		if r := recover(); r != nil {
			st := string(debug.Stack())
			p := &PanicRec{Thread: t.Name, Value: fmt.Sprint(r), Stack: st, Func: InnermostRepoFunc(st)}
			t.Panic = p
			w.Panics = append(w.Panics, p)
		}
		t.Done = true
		// finished threads leave the table (ids stay unique through nextID)
		for i, x := range w.Threads {
			if x == t {
				w.Threads = append(w.Threads[:i], w.Threads[i+1:]...)
				break
			}
		}
		w.handoff(t)
	}()
	t.fn()
}

// InnermostRepoFunc extracts the innermost RedisGO function from a stack trace text.
func InnermostRepoFunc(stack string) string {
	lines := strings.Split(stack, "\n")
	seenPanic := false
	for _, ln := range lines {
		if strings.HasPrefix(ln, "panic(") {
			seenPanic = true
			continue
		}
		if !seenPanic {
			continue
		}
		if strings.HasPrefix(ln, "github.com/innovationb1ue/RedisGO/") && !strings.Contains(ln, "/verifrt") {
			f := strings.TrimPrefix(ln, "github.com/innovationb1ue/RedisGO/")
			if i := strings.LastIndex(f, "("); i > 0 {
				f = f[:i]
			}
			return f
		}
		if strings.HasPrefix(ln, "go.etcd.io/etcd/") {
			f := ln
			if i := strings.LastIndex(f, "("); i > 0 {
				f = f[:i]
			}
			return f
		}
	}
	return "?"
}

func (w *World) enabledThreads() []*Thread {
	var en []*Thread
	for _, t := range w.Threads {
		if t.Done {
			continue
		}
		if t.Op.Enabled == nil || t.Op.Enabled() {
			en = append(en, t)
		}
	}
	return en
}

// EnabledThreads is the driver-side view (only valid while the driver holds the baton).
func (w *World) EnabledThreads() []*Thread { return w.enabledThreads() }

// Live returns the threads that have not finished.
func (w *World) Live() []*Thread {
	var l []*Thread
	for _, t := range w.Threads {
		if !t.Done {
			l = append(l, t)
		}
	}
	return l
}

// pick asks the chooser.  Called by the baton holder only.
func (w *World) pick(cur *Thread) *Thread {
	if w.Steps >= w.MaxSteps {
		w.Horizon = true
		return nil
	}
	en := w.enabledThreads()
	if len(en) == 0 {
		return nil
	}
	if w.Chooser == nil {
		// default: keep running cur if enabled, else lowest id
		for _, t := range en {
			if t == cur {
				return t
			}
		}
		return en[0]
	}
	return w.Chooser(w, cur, en)
}

// handoff passes the baton away from t (t is done or parked).
func (w *World) handoff(t *Thread) {
	next := w.pick(t)
	if next == t && t.Done {
		panic("verifrt: chooser picked a finished thread")
	}
	w.grant(next)
}

func (w *World) grant(next *Thread) {
	w.Cur = next
	if next == nil {
		w.driver <- struct{}{}
		return
	}
	if w.Granted != nil {
		w.Granted(next, next.Op)
	}
	next.wake <- struct{}{}
}

// point is a scheduling point of thread t about to perform op.
func (w *World) point(t *Thread, op Op) {
	t.Op = op
	t.Points++
	w.Steps++
	next := w.pick(t)
	if next == t {
		if w.Granted != nil {
			w.Granted(t, op)
		}
		return
	}
	w.grant(next)
	<-t.wake
	if w.dead {
		runtime.Goexit()
	}
}

// Run hands the baton to the scheduler and returns when it comes back to the driver
// (quiescence, deadlock, chooser returned nil, or horizon).
func (w *World) Run() {
	if w.Cur != nil {
		panic("verifrt: Run called while a thread holds the baton")
	}
	next := w.pick(nil)
	if next == nil {
		return
	}
	w.grant(next)
	<-w.driver
}

// Blocked lists live threads that are not enabled.
func (w *World) Blocked() []*Thread {
	var b []*Thread
	for _, t := range w.Threads {
		if t.Done {
			continue
		}
		if t.Op.Enabled != nil && !t.Op.Enabled() {
			b = append(b, t)
		}
	}
	return b
}

// Kill drops the world: every parked thread ends via Goexit at its wake-up.
func (w *World) Kill() {
	if CurMode == Free {
		w.mu.Lock()
		if !w.dead {
			w.dead = true
			close(w.deadCh)
		}
		w.mu.Unlock()
		freeMu.Lock()
		if W == w {
			W = nil
		}
		freeMu.Unlock()
		return
	}
	w.dead = true
	for _, t := range w.Threads {
		if !t.Done {
			select {
			case t.wake <- struct{}{}:
			default:
			}
		}
	}
	w.wg.Wait()
	if W == w {
		W = nil
	}
}

func (w *World) Dead() bool { return w.dead }

// ---------------------------------------------------------------- clock

func (w *World) addTimer(d int64, period int64) *vtimer {
	if CurMode == Free {
		w.mu.Lock()
		defer w.mu.Unlock()
	}
	w.timerSeq++
	tm := &vtimer{deadline: w.Now + d, period: period, ch: make(chan time.Time, 1), seq: w.timerSeq}
	if d <= 0 && period == 0 {
		tm.ch <- w.timeAt(w.Now)
		tm.stopped = true
		return tm
	}
	w.timers = append(w.timers, tm)
	return tm
}

func (w *World) timeAt(ns int64) time.Time { return time.Unix(Epoch, 0).Add(time.Duration(ns)) }

// TimeNow is the virtual wall clock.
func (w *World) TimeNow() time.Time {
	if CurMode == Free {
		w.mu.Lock()
		defer w.mu.Unlock()
	}
	return w.timeAt(w.Now)
}

// NextTimer returns the earliest pending timer deadline (virtual ns), or -1.
func (w *World) NextTimer() int64 {
	best := int64(-1)
	for _, tm := range w.timers {
		if tm.stopped {
			continue
		}
		if best < 0 || tm.deadline < best {
			best = tm.deadline
		}
	}
	return best
}

// Advance moves the virtual clock forward by d nanoseconds and fires due timers
// (deadline order, then creation order).
func (w *World) Advance(d int64) {
	if CurMode == Free {
		w.mu.Lock()
		defer w.mu.Unlock()
	}
	target := w.Now + d
	for {
		var due *vtimer
		for _, tm := range w.timers {
			if tm.stopped || tm.deadline > target {
				continue
			}
			if due == nil || tm.deadline < due.deadline || (tm.deadline == due.deadline && tm.seq < due.seq) {
				due = tm
			}
		}
		if due == nil {
			break
		}
		if due.deadline > w.Now {
			w.Now = due.deadline
		}
		select {
		case due.ch <- w.timeAt(w.Now):
		default:
		}
		if due.period > 0 {
			due.deadline += due.period
		} else {
			due.stopped = true
		}
	}
	w.Now = target
	// compact
	k := 0
	for _, tm := range w.timers {
		if !tm.stopped {
			w.timers[k] = tm
			k++
		}
	}
	w.timers = w.timers[:k]
}

// PendingTimers returns the sorted relative deadlines of pending timers (state key use).
func (w *World) PendingTimers() []int64 {
	var ds []int64
	for _, tm := range w.timers {
		if !tm.stopped {
			ds = append(ds, tm.deadline-w.Now)
		}
	}
	sort.Slice(ds, func(i, j int) bool { return ds[i] < ds[j] })
	return ds
}

// ---------------------------------------------------------------- free-mode panic capture

var freeMu sync.Mutex
var FreePanics []*PanicRec

func RecordFreePanic(name string, r interface{}) {
	st := string(debug.Stack())
	p := &PanicRec{Thread: name, Value: fmt.Sprint(r), Stack: st, Func: InnermostRepoFunc(st)}
	freeMu.Lock()
	FreePanics = append(FreePanics, p)
	freeMu.Unlock()
}

func HasFreePanics() bool {
	freeMu.Lock()
	defer freeMu.Unlock()
	return len(FreePanics) > 0
}

func TakeFreePanics() []*PanicRec {
	freeMu.Lock()
	defer freeMu.Unlock()
	p := FreePanics
	FreePanics = nil
	return p
}

// freeWorld returns the world for Free mode (created lazily so plain library use works).
func freeWorld() *World {
	freeMu.Lock()
	defer freeMu.Unlock()
	if W == nil {
		w := &World{driver: make(chan struct{}, 1), MaxSteps: 1 << 40, deadCh: make(chan struct{})}
		W = w
	}
	return W
}

// Hooks used by the vsync / vtime sub-packages ------------------------------------------

func CurWorld() *World {
	if CurMode == Free {
		return freeWorld()
	}
	return W
}

func (w *World) Point(op Op)                      { w.point(w.Cur, op) }
func (w *World) AddTimer(d, period int64) *VTimer { return &VTimer{t: w.addTimer(d, period), w: w} }
func (w *World) DeadCh() <-chan struct{}          { return w.deadCh }
func (w *World) FreeGoStart()                     {}
func (w *World) LockEvent(kind string, obj interface{}) {
	if w.OnLock != nil {
		w.OnLock(w.Cur, kind, obj)
	}
}

type VTimer struct {
	t *vtimer
	w *World
}

func (v *VTimer) C() chan time.Time { return v.t.ch }
func (v *VTimer) Stop() bool {
	if CurMode == Free {
		v.w.mu.Lock()
		defer v.w.mu.Unlock()
	}
	was := !v.t.stopped
	v.t.stopped = true
	return was
}
func (v *VTimer) Reset(d int64) bool {
	if CurMode == Free {
		v.w.mu.Lock()
		defer v.w.mu.Unlock()
	}
	was := !v.t.stopped
	v.t.deadline = v.w.Now + d
	if v.t.stopped {
		v.t.stopped = false
		v.w.timers = append(v.w.timers, v.t)
	}
	return was
}
