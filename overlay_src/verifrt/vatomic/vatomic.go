//go:build verif

// Package vatomic stands in for sync/atomic in the instrumented packages: every operation is a
// scheduling point of the controlled scheduler (an atomic never blocks, but what it reads depends on
// when it runs - two atomics that are meant to be read as a unit can be torn by another thread),
// then the real operation.  In free-running mode it is sync/atomic.
//
// Only the typed atomics (atomic.Pointer[T], Bool, Int64, Value, ...) are scheduling points.  The
// function-style API (atomic.AddInt64(&x, 1), ...) passes through: the unchanged tree uses it for one
// statistics counter that is bumped inside every map insert and delete, and a scheduling point there
// multiplies the schedules of every scenario (90 generated pairs hit their schedule cap in the quick
// tier when it was tried) without adding an observable behaviour - the counter is read by nothing but
// the harness.  New code that publishes state through atomics uses the typed API.
package vatomic

import (
	"sync/atomic"
	"unsafe"

	rt "github.com/innovationb1ue/RedisGO/verifrt"
)

func point(obj any) {
	if rt.CurMode != rt.Controlled {
		return
	}
	if w := rt.W; w != nil && w.Cur != nil && !w.Dead() {
		w.Point(rt.Op{Kind: rt.OpYield, Obj: obj})
	}
}

func AddInt32(a *int32, d int32) int32                 { return atomic.AddInt32(a, d) }
func AddInt64(a *int64, d int64) int64                 { return atomic.AddInt64(a, d) }
func AddUint32(a *uint32, d uint32) uint32             { return atomic.AddUint32(a, d) }
func AddUint64(a *uint64, d uint64) uint64             { return atomic.AddUint64(a, d) }
func AddUintptr(a *uintptr, d uintptr) uintptr         { return atomic.AddUintptr(a, d) }
func LoadInt32(a *int32) int32                         { return atomic.LoadInt32(a) }
func LoadInt64(a *int64) int64                         { return atomic.LoadInt64(a) }
func LoadUint32(a *uint32) uint32                      { return atomic.LoadUint32(a) }
func LoadUint64(a *uint64) uint64                      { return atomic.LoadUint64(a) }
func LoadUintptr(a *uintptr) uintptr                   { return atomic.LoadUintptr(a) }
func LoadPointer(a *unsafe.Pointer) unsafe.Pointer     { return atomic.LoadPointer(a) }
func StoreInt32(a *int32, v int32)                     { atomic.StoreInt32(a, v) }
func StoreInt64(a *int64, v int64)                     { atomic.StoreInt64(a, v) }
func StoreUint32(a *uint32, v uint32)                  { atomic.StoreUint32(a, v) }
func StoreUint64(a *uint64, v uint64)                  { atomic.StoreUint64(a, v) }
func StoreUintptr(a *uintptr, v uintptr)               { atomic.StoreUintptr(a, v) }
func StorePointer(a *unsafe.Pointer, v unsafe.Pointer) { atomic.StorePointer(a, v) }
func SwapInt32(a *int32, v int32) int32                { return atomic.SwapInt32(a, v) }
func SwapInt64(a *int64, v int64) int64                { return atomic.SwapInt64(a, v) }
func SwapUint32(a *uint32, v uint32) uint32            { return atomic.SwapUint32(a, v) }
func SwapUint64(a *uint64, v uint64) uint64            { return atomic.SwapUint64(a, v) }
func SwapUintptr(a *uintptr, v uintptr) uintptr        { return atomic.SwapUintptr(a, v) }
func SwapPointer(a *unsafe.Pointer, v unsafe.Pointer) unsafe.Pointer {
	point(a)
	return atomic.SwapPointer(a, v)
}
func CompareAndSwapInt32(a *int32, o, n int32) bool {
	point(a)
	return atomic.CompareAndSwapInt32(a, o, n)
}
func CompareAndSwapInt64(a *int64, o, n int64) bool {
	point(a)
	return atomic.CompareAndSwapInt64(a, o, n)
}
func CompareAndSwapUint32(a *uint32, o, n uint32) bool {
	point(a)
	return atomic.CompareAndSwapUint32(a, o, n)
}
func CompareAndSwapUint64(a *uint64, o, n uint64) bool {
	point(a)
	return atomic.CompareAndSwapUint64(a, o, n)
}
func CompareAndSwapUintptr(a *uintptr, o, n uintptr) bool {
	point(a)
	return atomic.CompareAndSwapUintptr(a, o, n)
}
func CompareAndSwapPointer(a *unsafe.Pointer, o, n unsafe.Pointer) bool {
	point(a)
	return atomic.CompareAndSwapPointer(a, o, n)
}

type Int32 struct{ v atomic.Int32 }

func (x *Int32) Load() int32                    { point(x); return x.v.Load() }
func (x *Int32) Store(v int32)                  { point(x); x.v.Store(v) }
func (x *Int32) Swap(v int32) int32             { point(x); return x.v.Swap(v) }
func (x *Int32) Add(d int32) int32              { point(x); return x.v.Add(d) }
func (x *Int32) CompareAndSwap(o, n int32) bool { point(x); return x.v.CompareAndSwap(o, n) }

type Int64 struct{ v atomic.Int64 }

func (x *Int64) Load() int64                    { point(x); return x.v.Load() }
func (x *Int64) Store(v int64)                  { point(x); x.v.Store(v) }
func (x *Int64) Swap(v int64) int64             { point(x); return x.v.Swap(v) }
func (x *Int64) Add(d int64) int64              { point(x); return x.v.Add(d) }
func (x *Int64) CompareAndSwap(o, n int64) bool { point(x); return x.v.CompareAndSwap(o, n) }

type Uint32 struct{ v atomic.Uint32 }

func (x *Uint32) Load() uint32                    { point(x); return x.v.Load() }
func (x *Uint32) Store(v uint32)                  { point(x); x.v.Store(v) }
func (x *Uint32) Swap(v uint32) uint32            { point(x); return x.v.Swap(v) }
func (x *Uint32) Add(d uint32) uint32             { point(x); return x.v.Add(d) }
func (x *Uint32) CompareAndSwap(o, n uint32) bool { point(x); return x.v.CompareAndSwap(o, n) }

type Uint64 struct{ v atomic.Uint64 }

func (x *Uint64) Load() uint64                    { point(x); return x.v.Load() }
func (x *Uint64) Store(v uint64)                  { point(x); x.v.Store(v) }
func (x *Uint64) Swap(v uint64) uint64            { point(x); return x.v.Swap(v) }
func (x *Uint64) Add(d uint64) uint64             { point(x); return x.v.Add(d) }
func (x *Uint64) CompareAndSwap(o, n uint64) bool { point(x); return x.v.CompareAndSwap(o, n) }

type Uintptr struct{ v atomic.Uintptr }

func (x *Uintptr) Load() uintptr                    { point(x); return x.v.Load() }
func (x *Uintptr) Store(v uintptr)                  { point(x); x.v.Store(v) }
func (x *Uintptr) Swap(v uintptr) uintptr           { point(x); return x.v.Swap(v) }
func (x *Uintptr) Add(d uintptr) uintptr            { point(x); return x.v.Add(d) }
func (x *Uintptr) CompareAndSwap(o, n uintptr) bool { point(x); return x.v.CompareAndSwap(o, n) }

type Bool struct{ v atomic.Bool }

func (x *Bool) Load() bool                    { point(x); return x.v.Load() }
func (x *Bool) Store(v bool)                  { point(x); x.v.Store(v) }
func (x *Bool) Swap(v bool) bool              { point(x); return x.v.Swap(v) }
func (x *Bool) CompareAndSwap(o, n bool) bool { point(x); return x.v.CompareAndSwap(o, n) }

type Value struct{ v atomic.Value }

func (x *Value) Load() any                    { point(x); return x.v.Load() }
func (x *Value) Store(v any)                  { point(x); x.v.Store(v) }
func (x *Value) Swap(v any) any               { point(x); return x.v.Swap(v) }
func (x *Value) CompareAndSwap(o, n any) bool { point(x); return x.v.CompareAndSwap(o, n) }

type Pointer[T any] struct{ v atomic.Pointer[T] }

func (x *Pointer[T]) Load() *T                    { point(x); return x.v.Load() }
func (x *Pointer[T]) Store(v *T)                  { point(x); x.v.Store(v) }
func (x *Pointer[T]) Swap(v *T) *T                { point(x); return x.v.Swap(v) }
func (x *Pointer[T]) CompareAndSwap(o, n *T) bool { point(x); return x.v.CompareAndSwap(o, n) }
