//go:build verif

// Package vtime replaces "time" in the instrumented RedisGO packages: the clock only
// moves when the harness advances it, and timers fire as scheduler-visible events.
package vtime

import (
	"time"

	rt "github.com/innovationb1ue/RedisGO/verifrt"
)

type Duration = time.Duration
type Time = time.Time
type Month = time.Month
type Weekday = time.Weekday
type Location = time.Location

const (
	Nanosecond  = time.Nanosecond
	Microsecond = time.Microsecond
	Millisecond = time.Millisecond
	Second      = time.Second
	Minute      = time.Minute
	Hour        = time.Hour
)

const (
	RFC3339     = time.RFC3339
	RFC3339Nano = time.RFC3339Nano
)

var UTC = time.UTC

func Unix(sec, nsec int64) Time                { return time.Unix(sec, nsec) }
func UnixMilli(ms int64) Time                  { return time.UnixMilli(ms) }
func ParseDuration(s string) (Duration, error) { return time.ParseDuration(s) }

func Now() Time {
	w := rt.CurWorld()
	if w == nil {
		return time.Unix(rt.Epoch, 0)
	}
	return w.TimeNow()
}

func Since(t Time) Duration { return Now().Sub(t) }
func Until(t Time) Duration { return t.Sub(Now()) }

type Timer struct {
	C <-chan Time
	v *rt.VTimer
}

func NewTimer(d Duration) *Timer {
	w := rt.CurWorld()
	v := w.AddTimer(int64(d), 0)
	return &Timer{C: v.C(), v: v}
}

func (t *Timer) Stop() bool            { return t.v.Stop() }
func (t *Timer) Reset(d Duration) bool { return t.v.Reset(int64(d)) }

func After(d Duration) <-chan Time { return NewTimer(d).C }

type Ticker struct {
	C <-chan Time
	v *rt.VTimer
}

func NewTicker(d Duration) *Ticker {
	if d <= 0 {
		panic("non-positive interval for NewTicker")
	}
	w := rt.CurWorld()
	v := w.AddTimer(int64(d), int64(d))
	return &Ticker{C: v.C(), v: v}
}

func (t *Ticker) Stop() { t.v.Stop() }

// Sleep blocks the calling thread until the virtual clock has advanced by d.
func Sleep(d Duration) {
	ch := After(d)
	if rt.CurMode == rt.Free {
		select {
		case <-ch:
		case <-rt.CurWorld().DeadCh():
		}
		return
	}
	w := rt.W
	if w == nil || w.Dead() || w.Cur == nil {
		return
	}
	w.Point(rt.Op{Kind: rt.OpSleep, Obj: ch, Enabled: func() bool { return len(ch) > 0 }})
	<-ch
}
