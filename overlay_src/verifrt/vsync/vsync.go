//go:build verif

// Package vsync replaces "sync" in the instrumented RedisGO packages.
package vsync

import (
	"reflect"
	"runtime"
	"sync"

	rt "github.com/innovationb1ue/RedisGO/verifrt"
)

type Locker = sync.Locker

// ------------------------------------------------------------------ Mutex

type Mutex struct {
	real  sync.Mutex
	held  bool
	Owner *rt.Thread
}

func (m *Mutex) Lock() {
	if rt.CurMode == rt.Free {
		if h := rt.FreeLockHook(); h != nil {
			h(m)
		}
		m.real.Lock()
		return
	}
	w := rt.W
	if w == nil || w.Dead() {
		return
	}
	if w.Cur == nil {
		if m.held {
			panic("verifrt: driver would block on a held Mutex")
		}
		m.held = true
		return
	}
	w.Point(rt.Op{Kind: rt.OpLock, Obj: m, Enabled: func() bool { return !m.held }})
	m.held = true
	m.Owner = w.Cur
	w.LockEvent("lock", m)
}

func (m *Mutex) TryLock() bool {
	if rt.CurMode == rt.Free {
		return m.real.TryLock()
	}
	w := rt.W
	if w != nil && !w.Dead() && w.Cur != nil {
		// never blocks, but what it answers depends on when it runs: a scheduling point
		w.Point(rt.Op{Kind: rt.OpYield, Obj: m})
	}
	if m.held {
		return false
	}
	m.held = true
	if w != nil && !w.Dead() && w.Cur != nil {
		m.Owner = w.Cur
		w.LockEvent("lock", m)
	}
	return true
}

func (m *Mutex) Unlock() {
	if rt.CurMode == rt.Free {
		m.real.Unlock()
		return
	}
	w := rt.W
	if w == nil || w.Dead() {
		return
	}
	if !m.held {
		panic("sync: unlock of unlocked mutex")
	}
	m.held = false
	m.Owner = nil
	w.LockEvent("unlock", m)
}

// ------------------------------------------------------------------ RWMutex

type RWMutex struct {
	real     sync.RWMutex
	writer   bool
	readers  int
	waitingW int
	WOwner   *rt.Thread
	ROwners  []*rt.Thread
}

func (rw *RWMutex) Lock() {
	if rt.CurMode == rt.Free {
		rw.real.Lock()
		return
	}
	w := rt.W
	if w == nil || w.Dead() {
		return
	}
	if w.Cur == nil {
		if rw.writer || rw.readers > 0 {
			panic("verifrt: driver would block on a held RWMutex")
		}
		rw.writer = true
		return
	}
	if rt.WriterPreference {
		w.Point(rt.Op{Kind: rt.OpWAnnounce, Obj: rw})
		rw.waitingW++
		w.Point(rt.Op{Kind: rt.OpWLock, Obj: rw, Enabled: func() bool { return !rw.writer && rw.readers == 0 }})
		rw.waitingW--
	} else {
		w.Point(rt.Op{Kind: rt.OpWLock, Obj: rw, Enabled: func() bool { return !rw.writer && rw.readers == 0 }})
	}
	rw.writer = true
	rw.WOwner = w.Cur
	w.LockEvent("lock", rw)
}

// TryLock / TryRLock never block, but what they answer depends on when they run: scheduling points.
func (rw *RWMutex) TryLock() bool {
	if rt.CurMode == rt.Free {
		return rw.real.TryLock()
	}
	w := rt.W
	if w == nil || w.Dead() {
		return true
	}
	if w.Cur != nil {
		w.Point(rt.Op{Kind: rt.OpYield, Obj: rw})
	}
	if rw.writer || rw.readers > 0 {
		return false
	}
	rw.writer = true
	if w.Cur != nil {
		rw.WOwner = w.Cur
		w.LockEvent("lock", rw)
	}
	return true
}

func (rw *RWMutex) TryRLock() bool {
	if rt.CurMode == rt.Free {
		return rw.real.TryRLock()
	}
	w := rt.W
	if w == nil || w.Dead() {
		return true
	}
	if w.Cur != nil {
		w.Point(rt.Op{Kind: rt.OpYield, Obj: rw})
	}
	if rw.writer || rw.waitingW > 0 {
		return false
	}
	rw.readers++
	if w.Cur != nil {
		rw.ROwners = append(rw.ROwners, w.Cur)
		w.LockEvent("rlock", rw)
	}
	return true
}

func (rw *RWMutex) Unlock() {
	if rt.CurMode == rt.Free {
		rw.real.Unlock()
		return
	}
	w := rt.W
	if w == nil || w.Dead() {
		return
	}
	if !rw.writer {
		panic("sync: Unlock of unlocked RWMutex")
	}
	rw.writer = false
	rw.WOwner = nil
	w.LockEvent("unlock", rw)
}

func (rw *RWMutex) RLock() {
	if rt.CurMode == rt.Free {
		rw.real.RLock()
		return
	}
	w := rt.W
	if w == nil || w.Dead() {
		return
	}
	if w.Cur == nil {
		if rw.writer {
			panic("verifrt: driver would block on a held RWMutex")
		}
		rw.readers++
		return
	}
	w.Point(rt.Op{Kind: rt.OpRLock, Obj: rw, Enabled: func() bool { return !rw.writer && rw.waitingW == 0 }})
	rw.readers++
	rw.ROwners = append(rw.ROwners, w.Cur)
	w.LockEvent("rlock", rw)
}

func (rw *RWMutex) RUnlock() {
	if rt.CurMode == rt.Free {
		rw.real.RUnlock()
		return
	}
	w := rt.W
	if w == nil || w.Dead() {
		return
	}
	if rw.readers <= 0 {
		panic("sync: RUnlock of unlocked RWMutex")
	}
	rw.readers--
	if w.Cur != nil {
		for i := len(rw.ROwners) - 1; i >= 0; i-- {
			if rw.ROwners[i] == w.Cur {
				rw.ROwners = append(rw.ROwners[:i], rw.ROwners[i+1:]...)
				break
			}
		}
	}
	w.LockEvent("runlock", rw)
}

func (rw *RWMutex) RLocker() Locker { return (*rlocker)(rw) }

type rlocker RWMutex

func (r *rlocker) Lock()   { (*RWMutex)(r).RLock() }
func (r *rlocker) Unlock() { (*RWMutex)(r).RUnlock() }

// State reports the shim's view (controlled mode) for state keys and wedge checks.
func (rw *RWMutex) State() (writer bool, readers int, waitingW int) {
	return rw.writer, rw.readers, rw.waitingW
}
func (m *Mutex) Held() bool { return m.held }

// ------------------------------------------------------------------ WaitGroup / Once

type WaitGroup struct {
	real sync.WaitGroup
	n    int
}

func (g *WaitGroup) Add(d int) {
	if rt.CurMode == rt.Free {
		g.real.Add(d)
		return
	}
	g.n += d
	if g.n < 0 {
		panic("sync: negative WaitGroup counter")
	}
}
func (g *WaitGroup) Done() { g.Add(-1) }
func (g *WaitGroup) Wait() {
	if rt.CurMode == rt.Free {
		g.real.Wait()
		return
	}
	w := rt.W
	if w == nil || w.Dead() || w.Cur == nil {
		return
	}
	w.Point(rt.Op{Kind: rt.OpWait, Obj: g, Enabled: func() bool { return g.n == 0 }})
}

type Once struct {
	real sync.Once
	done bool
	m    Mutex
}

func (o *Once) Do(f func()) {
	if rt.CurMode == rt.Free {
		o.real.Do(f)
		return
	}
	o.m.Lock()
	defer o.m.Unlock()
	if !o.done {
		defer func() { o.done = true }()
		f()
	}
}

// ------------------------------------------------------------------ Pool / Map / Cond

// Pool replaces sync.Pool by a deterministic LIFO free list.  sync.Pool may hand back any object
// put earlier or a fresh one (per-P caches, GC); the free list always hands back the most recently
// put object, which is one of the behaviours sync.Pool allows and the one that exposes state left
// in a recycled object.  No scheduling point: Get and Put never block.
type Pool struct {
	New   func() any
	mu    sync.Mutex
	items []any
}

func (p *Pool) Get() any {
	p.mu.Lock()
	if n := len(p.items); n > 0 {
		x := p.items[n-1]
		p.items = p.items[:n-1]
		p.mu.Unlock()
		return x
	}
	p.mu.Unlock()
	if p.New != nil {
		return p.New()
	}
	return nil
}

func (p *Pool) Put(x any) {
	if x == nil {
		return
	}
	p.mu.Lock()
	p.items = append(p.items, x)
	p.mu.Unlock()
}

// Map is sync.Map itself: its operations are atomic and never block.
type Map = sync.Map

// Cond: waiting is a scheduling point whose enabledness is "signalled since the wait began".
type Cond struct {
	L     Locker
	real  *sync.Cond
	epoch int
}

func NewCond(l Locker) *Cond { return &Cond{L: l, real: sync.NewCond(l)} }

func (c *Cond) Wait() {
	if rt.CurMode == rt.Free {
		c.real.Wait()
		return
	}
	w := rt.W
	e := c.epoch
	c.L.Unlock()
	if w != nil && !w.Dead() && w.Cur != nil {
		w.Point(rt.Op{Kind: rt.OpWait, Obj: c, Enabled: func() bool { return c.epoch != e }})
	}
	c.L.Lock()
}

func (c *Cond) Signal() {
	if rt.CurMode == rt.Free {
		c.real.Signal()
		return
	}
	c.epoch++
}

func (c *Cond) Broadcast() {
	if rt.CurMode == rt.Free {
		c.real.Broadcast()
		return
	}
	c.epoch++
}

func OnceFunc(f func()) func() { return sync.OnceFunc(f) }

// ------------------------------------------------------------------ Go

// Go replaces the `go` statement.
func Go(f func()) {
	if rt.CurMode == rt.Free {
		go func() {
			defer func() {
				if r := recover(); r != nil {
					rt.RecordFreePanic("go", r)
				}
			}()
			f()
		}()
		return
	}
	w := rt.W
	if w == nil || w.Dead() {
		return
	}
	t := w.Spawn("bg", f)
	t.Background = true
}

// ------------------------------------------------------------------ Select

// chanReady reports whether a receive on ch would not block, without consuming a value
// from a buffered channel.  Unbuffered channels are only "ready" when closed.
func chanReady(v reflect.Value) bool {
	if !v.IsValid() || v.IsNil() {
		return false
	}
	if v.Len() > 0 {
		return true
	}
	_, closed := tryClosed(v)
	return closed
}

// tryClosed does a non-blocking receive; returns (received, closed).
func tryClosed(v reflect.Value) (bool, bool) {
	x, ok := v.TryRecv()
	if !x.IsValid() && !ok {
		// would block
		return false, false
	}
	if ok {
		// a value was actually received from an unbuffered channel with a native sender:
		// not supported under the cooperative scheduler.
		panic("verifrt: Select received from a channel with a native blocked sender")
	}
	return false, true
}

// Select replaces a select statement whose cases are all non-binding receives.
// It returns the index of the chosen case, or -1 for default.
func Select(hasDefault bool, chans ...interface{}) int {
	vals := make([]reflect.Value, len(chans))
	for i, c := range chans {
		vals[i] = reflect.ValueOf(c)
	}
	if rt.CurMode == rt.Free {
		w := rt.CurWorld()
		cases := make([]reflect.SelectCase, 0, len(chans)+2)
		for _, v := range vals {
			cases = append(cases, reflect.SelectCase{Dir: reflect.SelectRecv, Chan: v})
		}
		cases = append(cases, reflect.SelectCase{Dir: reflect.SelectRecv, Chan: reflect.ValueOf(w.DeadCh())})
		if hasDefault {
			cases = append(cases, reflect.SelectCase{Dir: reflect.SelectDefault})
		}
		i, _, _ := reflect.Select(cases)
		if i == len(chans) {
			// world dropped: park forever is a leak; exit the goroutine instead
			exitGoroutine()
		}
		if i > len(chans) {
			return -1
		}
		return i
	}
	w := rt.W
	if w == nil || w.Dead() {
		exitGoroutine()
	}
	ready := func() int {
		for i, v := range vals {
			if chanReady(v) {
				return i
			}
		}
		return -1
	}
	if w.Cur != nil {
		w.Point(rt.Op{Kind: rt.OpSelect, Obj: chans, Enabled: func() bool { return hasDefault || ready() >= 0 }})
	}
	i := ready()
	if i < 0 {
		if hasDefault {
			return -1
		}
		panic("verifrt: Select scheduled with no ready case")
	}
	if vals[i].Len() > 0 {
		vals[i].TryRecv() // consume the buffered item
	}
	return i
}

func exitGoroutine() { runtime.Goexit() }

// ------------------------------------------------------------------ channels
//
// Channel operations of the packages rewritten with the channel option (resp, server).  In Free
// mode they are the native operations.  Under the controlled scheduler a channel is emulated: the
// values travel through a queue owned by the world (the native channel object only serves as the
// identity, and is closed natively too when Close is called, so that un-instrumented observers see
// it), every operation is a scheduling point, and blocking is enabledness:
//
//	send on an unbuffered channel: the value is offered, the sender then waits until it was taken
//	send on a buffered channel:    enabled while the queue is shorter than the capacity
//	receive:                       enabled when a value is queued, the channel is closed, or - for a
//	                               channel nobody sends to through the shim (ctx.Done(), a timer) -
//	                               when the native channel is closed or holds a buffered item

type vchan struct {
	ref    interface{} // keeps the channel alive, so that its address is not reused
	q      []interface{}
	sent   int
	taken  int
	closed bool
	cap    int
}

func chanOf(w *rt.World, ch interface{}) (*vchan, reflect.Value) {
	rv := reflect.ValueOf(ch)
	if !rv.IsValid() || rv.IsNil() {
		return nil, rv
	}
	if w.ChanState == nil {
		w.ChanState = map[uintptr]interface{}{}
	}
	p := rv.Pointer()
	if vc, ok := w.ChanState[p]; ok {
		return vc.(*vchan), rv
	}
	vc := &vchan{ref: ch, cap: rv.Cap()}
	w.ChanState[p] = vc
	return vc, rv
}

func (vc *vchan) ready(rv reflect.Value) bool {
	if vc == nil {
		return false // nil channel: blocks for ever
	}
	return len(vc.q) > 0 || vc.closed || chanReady(rv)
}

// take removes the next value (call only when ready).
func (vc *vchan) take(rv reflect.Value) (interface{}, bool) {
	if len(vc.q) > 0 {
		v := vc.q[0]
		vc.q = vc.q[1:]
		vc.taken++
		return v, true
	}
	if vc.closed {
		return nil, false
	}
	x, ok := rv.TryRecv()
	if !ok || !x.IsValid() {
		return nil, false
	}
	return x.Interface(), true
}

func controlled() *rt.World {
	if rt.CurMode == rt.Free {
		return nil
	}
	w := rt.W
	if w == nil || w.Dead() {
		exitGoroutine()
	}
	return w
}

// Send replaces `ch <- v`.
func Send[T any](ch chan<- T, v T) {
	w := controlled()
	if w == nil {
		ch <- v
		return
	}
	vc, _ := chanOf(w, ch)
	if vc == nil {
		if w.Cur != nil {
			w.Point(rt.Op{Kind: rt.OpSend, Obj: ch, Enabled: func() bool { return false }})
		}
		return
	}
	if vc.closed {
		panic("send on closed channel")
	}
	if vc.cap > 0 {
		if w.Cur != nil {
			w.Point(rt.Op{Kind: rt.OpSend, Obj: ch, Enabled: func() bool { return len(vc.q) < vc.cap || vc.closed }})
		}
		if vc.closed {
			panic("send on closed channel")
		}
		vc.q = append(vc.q, v)
		vc.sent++
		return
	}
	// arriving at the send is a scheduling point of its own (others may run before the offer is made)
	if w.Cur != nil {
		w.Point(rt.Op{Kind: rt.OpYield, Obj: ch})
	}
	vc.q = append(vc.q, v)
	vc.sent++
	my := vc.sent
	if w.Cur != nil {
		w.Point(rt.Op{Kind: rt.OpSend, Obj: ch, Enabled: func() bool { return vc.taken >= my }})
	}
}

// Sender is the form the rewriter emits: Sender(ch)(v) == Send(ch, v), with the element type taken
// from the channel alone.
func Sender[T any](ch chan<- T) func(T) {
	return func(v T) { Send(ch, v) }
}

// Recv2 replaces `v, ok := <-ch`.
func Recv2[T any](ch <-chan T) (T, bool) {
	w := controlled()
	if w == nil {
		v, ok := <-ch
		return v, ok
	}
	vc, rv := chanOf(w, ch)
	if w.Cur != nil {
		w.Point(rt.Op{Kind: rt.OpRecv, Obj: ch, Enabled: func() bool { return vc.ready(rv) }})
	}
	var zero T
	if vc == nil || !vc.ready(rv) {
		panic("verifrt: receive scheduled on a channel that is not ready")
	}
	x, ok := vc.take(rv)
	if !ok {
		return zero, false
	}
	v, _ := x.(T)
	return v, true
}

// Recv replaces `<-ch` used as an expression or statement.
func Recv[T any](ch <-chan T) T {
	v, _ := Recv2(ch)
	return v
}

// Close replaces close(ch).
func Close[T any](ch chan<- T) {
	w := controlled()
	if w != nil {
		if vc, _ := chanOf(w, ch); vc != nil {
			vc.closed = true
		}
	}
	close(ch)
}

// Cast gives the value SelectB received the static type of the channel's elements.
func Cast[T any](ch <-chan T, v interface{}) T {
	x, _ := v.(T)
	return x
}

// SelectB replaces a select statement whose cases are receives (binding or not).  It returns the
// index of the chosen case (-1: default), the value received and the "ok" of the receive.
func SelectB(hasDefault bool, chans ...interface{}) (int, interface{}, bool) {
	if rt.CurMode == rt.Free {
		w := rt.CurWorld()
		cases := make([]reflect.SelectCase, 0, len(chans)+2)
		for _, c := range chans {
			cases = append(cases, reflect.SelectCase{Dir: reflect.SelectRecv, Chan: reflect.ValueOf(c)})
		}
		cases = append(cases, reflect.SelectCase{Dir: reflect.SelectRecv, Chan: reflect.ValueOf(w.DeadCh())})
		if hasDefault {
			cases = append(cases, reflect.SelectCase{Dir: reflect.SelectDefault})
		}
		i, recv, ok := reflect.Select(cases)
		if i == len(chans) {
			exitGoroutine()
		}
		if i > len(chans) {
			return -1, nil, false
		}
		if !ok || !recv.IsValid() || !recv.CanInterface() {
			return i, nil, ok
		}
		return i, recv.Interface(), ok
	}
	w := controlled()
	vcs := make([]*vchan, len(chans))
	rvs := make([]reflect.Value, len(chans))
	for i, c := range chans {
		vcs[i], rvs[i] = chanOf(w, c)
	}
	ready := func() int {
		for i := range chans {
			if vcs[i].ready(rvs[i]) {
				return i
			}
		}
		return -1
	}
	if w.Cur != nil {
		w.Point(rt.Op{Kind: rt.OpSelect, Obj: chans, Enabled: func() bool { return hasDefault || ready() >= 0 }})
	}
	i := ready()
	if i < 0 {
		if hasDefault {
			return -1, nil, false
		}
		panic("verifrt: SelectB scheduled with no ready case")
	}
	x, ok := vcs[i].take(rvs[i])
	return i, x, ok
}
