//go:build verif

// Package vsync replaces "sync" in the instrumented RedisGO packages.
package vsync

import (
	"reflect"
	"runtime"
	"sync"

	rt "github.com/innovationb1ue/RedisGO/verifrt"
)

type Locker = sync.Locker

// ------------------------------------------------------------------ Mutex

type Mutex struct {
	real  sync.Mutex
	held  bool
	Owner *rt.Thread
}

func (m *Mutex) Lock() {
	if rt.CurMode == rt.Free {
		m.real.Lock()
		return
	}
	w := rt.W
	if w == nil || w.Dead() {
		return
	}
	if w.Cur == nil {
		if m.held {
			panic("verifrt: driver would block on a held Mutex")
		}
		m.held = true
		return
	}
	w.Point(rt.Op{Kind: rt.OpLock, Obj: m, Enabled: func() bool { return !m.held }})
	m.held = true
	m.Owner = w.Cur
	w.LockEvent("lock", m)
}

func (m *Mutex) TryLock() bool {
	if rt.CurMode == rt.Free {
		return m.real.TryLock()
	}
	if m.held {
		return false
	}
	m.held = true
	return true
}

func (m *Mutex) Unlock() {
	if rt.CurMode == rt.Free {
		m.real.Unlock()
		return
	}
	w := rt.W
	if w == nil || w.Dead() {
		return
	}
	if !m.held {
		panic("sync: unlock of unlocked mutex")
	}
	m.held = false
	m.Owner = nil
	w.LockEvent("unlock", m)
}

// ------------------------------------------------------------------ RWMutex

type RWMutex struct {
	real     sync.RWMutex
	writer   bool
	readers  int
	waitingW int
	WOwner   *rt.Thread
	ROwners  []*rt.Thread
}

func (rw *RWMutex) Lock() {
	if rt.CurMode == rt.Free {
		rw.real.Lock()
		return
	}
	w := rt.W
	if w == nil || w.Dead() {
		return
	}
	if w.Cur == nil {
		if rw.writer || rw.readers > 0 {
			panic("verifrt: driver would block on a held RWMutex")
		}
		rw.writer = true
		return
	}
	if rt.WriterPreference {
		w.Point(rt.Op{Kind: rt.OpWAnnounce, Obj: rw})
		rw.waitingW++
		w.Point(rt.Op{Kind: rt.OpWLock, Obj: rw, Enabled: func() bool { return !rw.writer && rw.readers == 0 }})
		rw.waitingW--
	} else {
		w.Point(rt.Op{Kind: rt.OpWLock, Obj: rw, Enabled: func() bool { return !rw.writer && rw.readers == 0 }})
	}
	rw.writer = true
	rw.WOwner = w.Cur
	w.LockEvent("lock", rw)
}

func (rw *RWMutex) Unlock() {
	if rt.CurMode == rt.Free {
		rw.real.Unlock()
		return
	}
	w := rt.W
	if w == nil || w.Dead() {
		return
	}
	if !rw.writer {
		panic("sync: Unlock of unlocked RWMutex")
	}
	rw.writer = false
	rw.WOwner = nil
	w.LockEvent("unlock", rw)
}

func (rw *RWMutex) RLock() {
	if rt.CurMode == rt.Free {
		rw.real.RLock()
		return
	}
	w := rt.W
	if w == nil || w.Dead() {
		return
	}
	if w.Cur == nil {
		if rw.writer {
			panic("verifrt: driver would block on a held RWMutex")
		}
		rw.readers++
		return
	}
	w.Point(rt.Op{Kind: rt.OpRLock, Obj: rw, Enabled: func() bool { return !rw.writer && rw.waitingW == 0 }})
	rw.readers++
	rw.ROwners = append(rw.ROwners, w.Cur)
	w.LockEvent("rlock", rw)
}

func (rw *RWMutex) RUnlock() {
	if rt.CurMode == rt.Free {
		rw.real.RUnlock()
		return
	}
	w := rt.W
	if w == nil || w.Dead() {
		return
	}
	if rw.readers <= 0 {
		panic("sync: RUnlock of unlocked RWMutex")
	}
	rw.readers--
	if w.Cur != nil {
		for i := len(rw.ROwners) - 1; i >= 0; i-- {
			if rw.ROwners[i] == w.Cur {
				rw.ROwners = append(rw.ROwners[:i], rw.ROwners[i+1:]...)
				break
			}
		}
	}
	w.LockEvent("runlock", rw)
}

func (rw *RWMutex) RLocker() Locker { return (*rlocker)(rw) }

type rlocker RWMutex

func (r *rlocker) Lock()   { (*RWMutex)(r).RLock() }
func (r *rlocker) Unlock() { (*RWMutex)(r).RUnlock() }

// State reports the shim's view (controlled mode) for state keys and wedge checks.
func (rw *RWMutex) State() (writer bool, readers int, waitingW int) {
	return rw.writer, rw.readers, rw.waitingW
}
func (m *Mutex) Held() bool { return m.held }

// ------------------------------------------------------------------ WaitGroup / Once

type WaitGroup struct {
	real sync.WaitGroup
	n    int
}

func (g *WaitGroup) Add(d int) {
	if rt.CurMode == rt.Free {
		g.real.Add(d)
		return
	}
	g.n += d
	if g.n < 0 {
		panic("sync: negative WaitGroup counter")
	}
}
func (g *WaitGroup) Done() { g.Add(-1) }
func (g *WaitGroup) Wait() {
	if rt.CurMode == rt.Free {
		g.real.Wait()
		return
	}
	w := rt.W
	if w == nil || w.Dead() || w.Cur == nil {
		return
	}
	w.Point(rt.Op{Kind: rt.OpWait, Obj: g, Enabled: func() bool { return g.n == 0 }})
}

type Once struct {
	real sync.Once
	done bool
	m    Mutex
}

func (o *Once) Do(f func()) {
	if rt.CurMode == rt.Free {
		o.real.Do(f)
		return
	}
	o.m.Lock()
	defer o.m.Unlock()
	if !o.done {
		defer func() { o.done = true }()
		f()
	}
}

// ------------------------------------------------------------------ Pool / Map / Cond

// Pool replaces sync.Pool by a deterministic LIFO free list.  sync.Pool may hand back any object
// put earlier or a fresh one (per-P caches, GC); the free list always hands back the most recently
// put object, which is one of the behaviours sync.Pool allows and the one that exposes state left
// in a recycled object.  No scheduling point: Get and Put never block.
type Pool struct {
	New   func() any
	mu    sync.Mutex
	items []any
}

func (p *Pool) Get() any {
	p.mu.Lock()
	if n := len(p.items); n > 0 {
		x := p.items[n-1]
		p.items = p.items[:n-1]
		p.mu.Unlock()
		return x
	}
	p.mu.Unlock()
	if p.New != nil {
		return p.New()
	}
	return nil
}

func (p *Pool) Put(x any) {
	if x == nil {
		return
	}
	p.mu.Lock()
	p.items = append(p.items, x)
	p.mu.Unlock()
}

// Map is sync.Map itself: its operations are atomic and never block.
type Map = sync.Map

// Cond: waiting is a scheduling point whose enabledness is "signalled since the wait began".
type Cond struct {
	L     Locker
	real  *sync.Cond
	epoch int
}

func NewCond(l Locker) *Cond { return &Cond{L: l, real: sync.NewCond(l)} }

func (c *Cond) Wait() {
	if rt.CurMode == rt.Free {
		c.real.Wait()
		return
	}
	w := rt.W
	e := c.epoch
	c.L.Unlock()
	if w != nil && !w.Dead() && w.Cur != nil {
		w.Point(rt.Op{Kind: rt.OpWait, Obj: c, Enabled: func() bool { return c.epoch != e }})
	}
	c.L.Lock()
}

func (c *Cond) Signal() {
	if rt.CurMode == rt.Free {
		c.real.Signal()
		return
	}
	c.epoch++
}

func (c *Cond) Broadcast() {
	if rt.CurMode == rt.Free {
		c.real.Broadcast()
		return
	}
	c.epoch++
}

func OnceFunc(f func()) func() { return sync.OnceFunc(f) }

// ------------------------------------------------------------------ Go

// Go replaces the `go` statement.
func Go(f func()) {
	if rt.CurMode == rt.Free {
		go func() {
			defer func() {
				if r := recover(); r != nil {
					rt.RecordFreePanic("go", r)
				}
			}()
			f()
		}()
		return
	}
	w := rt.W
	if w == nil || w.Dead() {
		return
	}
	t := w.Spawn("bg", f)
	t.Background = true
}

// ------------------------------------------------------------------ Select

// chanReady reports whether a receive on ch would not block, without consuming a value
// from a buffered channel.  Unbuffered channels are only "ready" when closed.
func chanReady(v reflect.Value) bool {
	if !v.IsValid() || v.IsNil() {
		return false
	}
	if v.Len() > 0 {
		return true
	}
	_, closed := tryClosed(v)
	return closed
}

// tryClosed does a non-blocking receive; returns (received, closed).
func tryClosed(v reflect.Value) (bool, bool) {
	x, ok := v.TryRecv()
	if !x.IsValid() && !ok {
		// would block
		return false, false
	}
	if ok {
		// a value was actually received from an unbuffered channel with a native sender:
		// not supported under the cooperative scheduler.
		panic("verifrt: Select received from a channel with a native blocked sender")
	}
	return false, true
}

// Select replaces a select statement whose cases are all non-binding receives.
// It returns the index of the chosen case, or -1 for default.
func Select(hasDefault bool, chans ...interface{}) int {
	vals := make([]reflect.Value, len(chans))
	for i, c := range chans {
		vals[i] = reflect.ValueOf(c)
	}
	if rt.CurMode == rt.Free {
		w := rt.CurWorld()
		cases := make([]reflect.SelectCase, 0, len(chans)+2)
		for _, v := range vals {
			cases = append(cases, reflect.SelectCase{Dir: reflect.SelectRecv, Chan: v})
		}
		cases = append(cases, reflect.SelectCase{Dir: reflect.SelectRecv, Chan: reflect.ValueOf(w.DeadCh())})
		if hasDefault {
			cases = append(cases, reflect.SelectCase{Dir: reflect.SelectDefault})
		}
		i, _, _ := reflect.Select(cases)
		if i == len(chans) {
			// world dropped: park forever is a leak; exit the goroutine instead
			exitGoroutine()
		}
		if i > len(chans) {
			return -1
		}
		return i
	}
	w := rt.W
	if w == nil || w.Dead() {
		exitGoroutine()
	}
	ready := func() int {
		for i, v := range vals {
			if chanReady(v) {
				return i
			}
		}
		return -1
	}
	if w.Cur != nil {
		w.Point(rt.Op{Kind: rt.OpSelect, Obj: chans, Enabled: func() bool { return hasDefault || ready() >= 0 }})
	}
	i := ready()
	if i < 0 {
		if hasDefault {
			return -1
		}
		panic("verifrt: Select scheduled with no ready case")
	}
	if vals[i].Len() > 0 {
		vals[i].TryRecv() // consume the buffered item
	}
	return i
}

func exitGoroutine() { runtime.Goexit() }
