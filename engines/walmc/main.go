//go:build verif

// walmc - E8: decides C16 by exhaustive fault enumeration on the real WAL / snapshot files:
// every crash point x every subset of unsynced 512-byte sectors x every single-byte
// corruption of short histories, recovered through the real readers.
package main

import (
	"crypto/sha1"
	"encoding/json"
	"fmt"
	"os"
	"os/signal"
	"path/filepath"
	"sort"
	"strconv"
	"strings"
	"syscall"
	"time"

	"verif/ev"
	"verif/pool"
)

func shortHash(b []byte) []byte {
	h := sha1.Sum(b)
	return h[:8]
}

func main() {
	pool.Register("walmc", worker)
	pool.WorkerMain()
	if len(os.Args) < 2 {
		fmt.Fprintln(os.Stderr, "usage: walmc C16 | walmc replay <file> | walmc dump <seg> <op>...")
		os.Exit(2)
	}
	switch os.Args[1] {
	case "replay":
		os.Exit(replayFile(os.Args[2]))
	case "dump":
		os.Exit(dump(os.Args[2:]))
	}
	os.Exit(run(os.Args[1]))
}

func nWorkers() int {
	if n, err := strconv.Atoi(os.Getenv("VERIF_WORKERS")); err == nil && n > 0 {
		return n
	}
	return 16
}

func cleanupShm() {
	m, _ := filepath.Glob(fmt.Sprintf("/dev/shm/walmc-%d-*", os.Getpid()))
	for _, p := range m {
		os.RemoveAll(p)
	}
}

type tierCfg struct {
	Depth     int
	CoreDepth int // histories up to this length over the core alphabet only (0: none)
	Core      map[string]bool
	MaxBits   int
	Masks     []int
	HdrMasks  []int
	Budget    time.Duration
	G2        *g2task    // second generation (gen2.go)
	G2Bases   [][]string // big-record base histories whose images get a second generation
	G2Long    bool       // second generation from the images of the long histories too
}

func allMasks() []int {
	var m []int
	for i := 1; i < 256; i++ {
		m = append(m, i)
	}
	return m
}

func cfgFor(tier string) tierCfg {
	if tier == "thorough" {
		return tierCfg{Depth: 4, CoreDepth: 5, Core: coreThorough, MaxBits: 12,
			Masks:    []int{0x01, 0x02, 0x04, 0x08, 0x10, 0x20, 0x40, 0x80, 0xFF, 0x55, 0x03},
			HdrMasks: allMasks(), Budget: 17 * time.Minute,
			G2: g2For(tier), G2Bases: g2Bases(tier), G2Long: true}
	}
	return tierCfg{Depth: 3, CoreDepth: 4, Core: coreShapes, MaxBits: 10, Masks: []int{0x01, 0x80, 0xFF}, HdrMasks: []int{0x01, 0x80, 0xFF, 0}, Budget: 95 * time.Second,
		G2: g2For(tier), G2Bases: g2Bases(tier)}
}

// core alphabet: one representative per kind of operation (quick tier, one level deeper)
var coreShapes = map[string]bool{"a1": true, "a789": true, "a513": true, "a1100z": true, "hsC": true, "ow": true, "snap": true, "reopen": true}

// thorough tier, depth 5: 12 of the 15 shapes (a0, a511 and the non-zero a1100 are left to depth <= 4)
var coreThorough = map[string]bool{"a1": true, "a789": true, "a100ns": true, "a480": true, "a512": true, "a513": true, "a1100z": true,
	"hsC": true, "hsT": true, "ow": true, "snap": true, "reopen": true}

// enumerate all applicable histories of exactly length d (the model decides applicability).
func enumHistories(d int) [][]int { return enumHistoriesOver(d, nil) }

func enumHistoriesOver(d int, only map[string]bool) [][]int {
	var out [][]int
	var rec func(m *hmodel, prefix []int)
	rec = func(m *hmodel, prefix []int) {
		if len(prefix) == d {
			out = append(out, append([]int{}, prefix...))
			return
		}
		for si := range shapes {
			if shapes[si].LongOnly || !m.applicable(&shapes[si]) || (only != nil && !only[shapes[si].Name]) {
				continue
			}
			c := m.clone()
			c.plan(si)
			rec(c, append(prefix, si))
		}
	}
	rec(newModel(), nil)
	return out
}

func (m *hmodel) clone() *hmodel {
	c := *m
	c.terms = append([]uint64{}, m.terms...)
	c.recs = nil
	c.snaps = map[uint64][]byte{}
	return &c
}

type agg struct {
	res        result
	histories  int
	inapplic   int
	skipped    int
	errs       []string
	died       int
	byDepth    map[int]int
	doneDepth  map[int]int
	viols      map[string]vio
	violCount  map[string]int
	samples    []string
	corrFiles  int
	maxSectors int
	g2         g2stats
	g2Tasks    int
	g2Skipped  int
}

func run(prop string) int {
	if prop != "C16" {
		fmt.Fprintf(os.Stderr, "walmc decides C16 only (got %s)\n", prop)
		return 2
	}
	tier := os.Getenv("VERIF_TIER")
	if tier != "thorough" {
		tier = "quick"
	}
	cfg := cfgFor(tier)
	if d, err := strconv.Atoi(os.Getenv("WALMC_DEPTH")); err == nil && d >= 0 {
		cfg.Depth = d
	}
	if d, err := strconv.Atoi(os.Getenv("WALMC_COREDEPTH")); err == nil && d >= 0 {
		cfg.CoreDepth = d
	}
	rep := ev.NewReport(prop, "fault_enumeration")
	start := time.Now()
	deadline := start.Add(cfg.Budget)
	sig := make(chan os.Signal, 1)
	signal.Notify(sig, syscall.SIGINT, syscall.SIGTERM, syscall.SIGHUP, syscall.SIGPIPE)
	go func() {
		<-sig
		cleanupShm()
		os.Exit(2)
	}()
	defer cleanupShm()
	os.MkdirAll(fmt.Sprintf("/dev/shm/walmc-%d-cur", os.Getpid()), 0o755)

	p := &pool.Pool{Handler: "walmc", N: nWorkers(), Timeout: 60 * time.Second, MemMB: 4096,
		Env: []string{fmt.Sprintf("WALMC_PARENT=%d", os.Getpid())}}

	a := &agg{res: result{Classes: map[string]int{}}, byDepth: map[int]int{}, doneDepth: map[int]int{}, viols: map[string]vio{}, violCount: map[string]int{}}
	taskDepth := map[string]int{}
	mk := func(t task) []byte {
		t.Deadline = deadline.UnixMilli()
		b := mustJSON(t)
		return b
	}

	// ---- phase 0: extents of the long histories (for the corruption tasks)
	var tasks [][]byte
	for _, lh := range longHists {
		tasks = append(tasks, mk(task{Kind: "corrupt", Seg: lh.Seg, Ops: lh.Ops, Long: lh.Name}))
	}
	// the shortest histories too, so that corruption counterexamples are minimal
	for d := 0; d <= 1; d++ {
		for _, h := range enumHistories(d) {
			tasks = append(tasks, mk(task{Kind: "corrupt", Seg: 2048, Ops: opNames(h)}))
		}
	}
	var phase1 [][]byte
	longCuts := map[string]int{}
	corruptBytes, corruptHists := 0, 0
	handle := func(tb []byte, out []byte, crash *pool.Crash) [][]byte {
		var t task
		json.Unmarshal(tb, &t)
		if crash != nil {
			a.died++
			var doc replayDoc
			cur, _ := os.ReadFile(fmt.Sprintf("/dev/shm/walmc-%d-cur/%x", os.Getpid(), shortHash(tb)))
			if json.Unmarshal([]byte(strings.TrimSpace(string(cur))), &doc) != nil {
				doc = replayDoc{Mode: t.Kind, Seg: t.Seg, Ops: t.Ops, Long: t.Long, Point: -2}
			}
			kind := "worker-" + crash.Kind
			if pool.IsOOM(crash) {
				kind = "oom"
			}
			v := vio{F: finding{Kind: kind, Cmd: doc.Mode, Shape: doc.PointAt + doc.File, Detail: crash.Detail}, Replay: doc}
			a.addViol(v)
			return nil
		}
		var r result
		if err := json.Unmarshal(out, &r); err != nil {
			a.errs = append(a.errs, "bad result: "+err.Error())
			return nil
		}
		if r.Ms > 3000 && os.Getenv("WALMC_TRACE") != "" {
			fmt.Fprintf(os.Stderr, "trace: %d ms at +%.1fs: %s %s op %d file %s [%d,%d) images %d\n", r.Ms, time.Since(start).Seconds(), t.Kind, histLabel(&t), t.FromOp, t.File, t.From, t.To, r.Images)
		}
		if t.Kind == "corrupt" && t.File == "" && r.Err == "" && !r.Skipped {
			// extent probe -> corruption tasks in chunks
			if t.Long != "" {
				longCuts[t.Long] = r.Cuts
			}
			corruptHists++
			for _, s := range r.Samples {
				var file string
				var n int
				fmt.Sscanf(s, "%s %d", &file, &n)
				corruptBytes += n
				a.corrFiles++
				chunk := 48
				if len(cfg.HdrMasks) > 100 {
					chunk = 8
				}
				for from := 0; from < n; from += chunk {
					to := from + chunk
					if to > n {
						to = n
					}
					phase1 = append(phase1, mk(task{Kind: "corrupt", Seg: t.Seg, Ops: t.Ops, Long: t.Long, File: file, From: from, To: to, Masks: cfg.Masks, HdrMasks: cfg.HdrMasks}))
				}
			}
			return nil
		}
		a.merge(&t, &r, taskDepth[string(tb)])
		return nil
	}
	p.Map(tasks, handle)

	// ---- phase 1: long histories (crash points of every op) + corruption + enumerated histories
	tasks = nil
	if os.Getenv("WALMC_NOG2") != "" {
		// cost comparison: the check without the second generation
		cfg.G2Bases, cfg.G2Long = nil, false
	}
	for _, lh := range longHists {
		for op := -1; op <= len(lh.Ops); op++ {
			lt := task{Kind: "crash", Seg: lh.Seg, Ops: lh.Ops, Long: lh.Name, All: true, FromOp: op, ToOp: op + 1, MaxBits: cfg.MaxBits}
			if cfg.G2Long {
				lt.G2 = g2ForLong(tier)
			}
			tb := mk(lt)
			taskDepth[string(tb)] = -1
			tasks = append(tasks, tb)
		}
	}
	nLongTasks := len(tasks)
	// second-generation base histories: records larger than a page, every crash point of every
	// operation, generation 2 from every distinct recovered state (gen2.go)
	for _, b := range cfg.G2Bases {
		// one task per operation in flight, like the long histories
		for op := -1; op <= len(b); op++ {
			tb := mk(task{Kind: "crash", Seg: g2BaseSeg, Ops: b, All: true, FromOp: op, ToOp: op + 1, MaxBits: g2BaseMaxBits(tier), G2: cfg.G2})
			taskDepth[string(tb)] = -2
			tasks = append(tasks, tb)
		}
	}
	tasks = append(tasks, phase1...)
	for d := 0; d <= cfg.Depth; d++ {
		hs := enumHistories(d)
		a.byDepth[d] = len(hs)
		for _, h := range hs {
			tb := mk(task{Kind: "crash", Seg: 2048, Ops: opNames(h), MaxBits: cfg.MaxBits})
			taskDepth[string(tb)] = d
			tasks = append(tasks, tb)
		}
	}
	coreN := 0
	if cfg.CoreDepth > cfg.Depth {
		for d := cfg.Depth + 1; d <= cfg.CoreDepth; d++ {
			hs := enumHistoriesOver(d, cfg.Core)
			coreN += len(hs)
			a.byDepth[100+d] = len(hs)
			for _, h := range hs {
				tb := mk(task{Kind: "crash", Seg: 2048, Ops: opNames(h), MaxBits: cfg.MaxBits})
				taskDepth[string(tb)] = 100 + d
				tasks = append(tasks, tb)
			}
		}
	}
	fmt.Fprintf(os.Stderr, "walmc: tier %s: %d long-history crash tasks, %d second-generation base histories, %d corruption tasks (%d bytes x masks), histories by depth %v\n",
		tier, nLongTasks, len(cfg.G2Bases), len(phase1), corruptBytes, a.byDepth)
	p.Map(tasks, handle)

	// ---- confirm violations: 5 straight-line re-executions each, in isolated workers
	flaky := 0
	var sigs []string
	for s := range a.viols {
		sigs = append(sigs, s)
	}
	sort.Strings(sigs)
	for _, s := range sigs {
		v := a.viols[s]
		if v.Replay.Point == -2 {
			// a worker died outside any announced case: cannot be replayed straight-line
			rep.Add(toEv(v, a.violCount[s]))
			continue
		}
		var ct [][]byte
		for i := 0; i < 5; i++ {
			d := v.Replay
			ct = append(ct, mustJSON(task{Kind: "single", Single: &d, Seg: int64(i)}))
		}
		ok := 0
		p.Map(ct, func(tb, out []byte, crash *pool.Crash) [][]byte {
			if crash != nil {
				if strings.HasPrefix(v.F.Kind, "worker-") || v.F.Kind == "oom" {
					ok++
				}
				return nil
			}
			var r result
			json.Unmarshal(out, &r)
			for _, f := range r.Findings {
				if f.F.Kind == v.F.Kind && f.F.Cmd == v.F.Cmd {
					ok++
					break
				}
			}
			return nil
		})
		if ok == 5 {
			rep.Add(toEv(v, a.violCount[s]))
		} else {
			flaky++
			fmt.Fprintf(os.Stderr, "FLAKY: %s reproduced %d/5: %s\n", s, ok, v.F.Detail)
		}
	}

	// ---- evidence
	exhaustive := a.skipped == 0 && len(a.errs) == 0
	depthDone := -1
	for d := 0; d <= cfg.Depth; d++ {
		if a.doneDepth[d] == a.byDepth[d] {
			depthDone = d
		} else {
			break
		}
	}
	var caps []string
	if a.res.Capped > 0 {
		caps = append(caps, fmt.Sprintf("%d crash points had more than %d undetermined sectors (%d for the second-generation base histories; max %d): all subsets of the last %d (%d) x {all,none} of the earlier ones + the interval families (one contiguous run of lost sectors / one contiguous run of persisted sectors, every position and length)", a.res.Capped, cfg.MaxBits, g2BaseMaxBits(tier), a.maxSectors, cfg.MaxBits, g2BaseMaxBits(tier)))
	}
	if a.skipped > 0 {
		caps = append(caps, fmt.Sprintf("internal deadline %v: %d tasks not run", cfg.Budget, a.skipped))
	}
	if a.g2.CapSkipped > 0 {
		caps = append(caps, fmt.Sprintf("second generation: %d distinct recovered states beyond the per-task bound of %d were not continued", a.g2.CapSkipped, cfg.G2.MaxStates))
	}
	if a.g2.Capped > 0 {
		caps = append(caps, fmt.Sprintf("second generation: %d crash points had more than %d undetermined sectors (max %d): all subsets of the last %d x {all,none} of the earlier ones + interval families", a.g2.Capped, cfg.G2.Bits, a.g2.MaxSectors, cfg.G2.Bits))
	}
	var g2bases []interface{}
	for _, b := range cfg.G2Bases {
		g2bases = append(g2bases, strings.Join(b, " "))
	}
	var g2hists []interface{}
	for _, h := range cfg.G2.Hists {
		g2hists = append(g2hists, strings.Join(h, " "))
	}
	bigUsed := map[string]int{}
	for n, sz := range bigShapes() {
		used := false
		for _, b := range cfg.G2Bases {
			for _, o := range b {
				used = used || o == n
			}
		}
		for _, h := range cfg.G2.Hists {
			for _, o := range h {
				used = used || o == n
			}
		}
		if used {
			bigUsed[n] = sz
		}
	}
	a.samples = spread(a.samples)
	samples := make([]interface{}, 0, len(a.samples))
	for _, s := range a.samples {
		samples = append(samples, s)
	}
	cov := map[string]interface{}{
		"evaluations":         a.res.Evals,
		"distinct_nontrivial": a.res.Mixed + a.res.HitWritten,
		"rule": "histories = every applicable sequence of length <= depth over the 15 operation shapes (seg 2 KiB; up to core_alphabet_depth over the core alphabet, keys 100+d in histories_by_depth) + hand-shaped long histories (2 and 8 KiB segments), run on the real wal/snap code; " +
			"crash images = at every Fsync/Fdatasync callback and API return, every per-sector choice between the content durable at the last completed sync of the file and the contents observed since (x namespace before/after, x size-follows-data / zero-filled; with more than sector_subset_bits undetermined sectors: all subsets of the last sector_subset_bits x {all,none} of the earlier ones + the interval families over all undetermined sectors in file order - sectors [i,j) lost and the rest persisted, or [i,j) persisted and the rest lost, every 0 <= i < j <= n, so every 'leading sectors of the write lost, later ones persisted' image is included - listed in caps_hit), de-duplicated by content hash per history; the oracle demands replay(first p records) for some p between the records acknowledged by completed calls and the records written so far; " +
			"corruption = every byte offset of every segment (written area + 64) and snapshot file of the long histories' final image x masks; one evaluation = one run of a real reader (OpenForRead, Verify, ValidSnapshotEntries, Open+ReadAll[+Repair], Load, LoadNewestAvailable, reopen after append). " +
			"non-trivial = distinct crash images that differ from both the all-old and the all-new neighbour image (torn images) + corruption cases whose flipped byte lies in the written area; " +
			g2Describe(cfg.G2),
		"samples":                                samples,
		"exhaustive":                             exhaustive,
		"histories":                              a.histories,
		"histories_by_depth":                     intMap(a.byDepth),
		"histories_done_by_depth":                intMap(a.doneDepth),
		"history_depth_completed":                depthDone,
		"core_alphabet_histories":                coreN,
		"core_alphabet_depth":                    cfg.CoreDepth,
		"core_alphabet":                          coreNames(cfg.Core),
		"alphabet":                               alphabetNames(),
		"inapplicable_histories":                 a.inapplic,
		"long_histories":                         len(longHists),
		"long_history_segment_cuts":              longCuts,
		"crash_points":                           a.res.Points,
		"crash_points_without_torn":              a.res.TrivialPts,
		"crash_images_distinct":                  a.res.Images,
		"crash_images_torn":                      a.res.Mixed,
		"crash_images_short_file":                a.res.Short,
		"crash_points_capped":                    a.res.Capped,
		"max_undetermined_sectors":               a.maxSectors,
		"sector_subset_bits":                     cfg.MaxBits,
		"corruption_cases":                       a.res.Cases,
		"corruption_cases_in_written_area":       a.res.HitWritten,
		"corruption_files":                       a.corrFiles,
		"corruption_histories":                   corruptHists,
		"corruption_bytes":                       corruptBytes,
		"corruption_masks":                       len(cfg.Masks),
		"corruption_masks_structural_bytes":      len(cfg.HdrMasks),
		"corruption_mask_note":                   "structural bytes = frame length, record type/crc/data-length fields and their tags, padding, first 12 bytes of a .snap file; mask 0 in the structural list means 'zero the byte'",
		"gen2_base_histories":                    g2bases,
		"gen2_base_segment_size":                 g2BaseSeg,
		"gen2_from_long_histories":               cfg.G2Long,
		"gen2_second_histories":                  g2hists,
		"gen2_tasks":                             a.g2Tasks,
		"gen2_tasks_skipped":                     a.g2Skipped,
		"gen2_images_recovering_to_a_seen_state": a.g2.Dedup,
		"gen2_recovered_states":                  a.g2.States,
		"gen2_recovered_states_bound":            cfg.G2.MaxStates,
		"gen2_recovered_states_not_run":          a.g2.CapSkipped,
		"gen2_runs":                              a.g2.Runs,
		"gen2_runs_with_segment_cut":             a.g2.Cuts,
		"gen2_clean_reopens":                     a.g2.Clean,
		"gen2_crash_points":                      a.g2.Points,
		"gen2_crash_points_capped":               a.g2.Capped,
		"gen2_crash_images_distinct":             a.g2.Images,
		"gen2_crash_images_torn":                 a.g2.Torn,
		"gen2_crash_images_fully_synced":         a.g2.Strict,
		"gen2_sector_subset_bits":                cfg.G2.Bits,
		"gen2_base_sector_subset_bits":           g2BaseMaxBits(tier),
		"gen2_max_undetermined_sectors":          a.g2.MaxSectors,
		"gen2_records_over_4096B_written":        a.g2.BigRecs,
		"gen2_ops_skipped_inapplicable":          a.g2.SkippedOps,
		"records_over_4096B_shapes":              bigUsed,
		"result_classes":                         a.res.Classes,
		"caps_hit":                               caps,
		"workers_died":                           a.died,
		"harness_errors":                         a.errs,
		"flaky":                                  flaky,
	}
	assumptions := []string{
		"sector-atomic storage: a 512-byte sector holds either its content at the last completed fsync/fdatasync of the file or a content written since; unwritten sectors of preallocated space read as zeros",
		"a directory entry (create / rename) is durable once a later observation point has been reached (directory fsync semantics are outside the property's fault model); *.tmp pipeline files are ignored",
		"a HardState record that only advances Commit need not be durable when Save returns (raft.MustSync contract); everything else written by a returned Save / SaveSnapshot / Close must be",
		"files are written only through the observed calls; observation at every Fsync/Fdatasync callback and API return (writes reach the file only at flush, immediately before the callback)",
		"second generation: the directory as the real recovery left it is the durable base (the truncate + fallocate with which ReadAll zeroes a torn tail is ordered before later data writes into the re-allocated range, as on a journalling file system); recovery not durable at all = the generation-1 image itself",
	}
	code := rep.Finish(cov, assumptions)
	if len(a.errs) > 0 {
		for i, e := range a.errs {
			if i < 10 {
				fmt.Fprintln(os.Stderr, "harness error:", e)
			}
		}
		if code == 0 {
			code = 2
		}
	}
	if flaky > 0 && code == 0 {
		code = 2
	}
	fmt.Fprintf(os.Stderr, "walmc: second generation: %d runs from %d recovered states (%d images recovered to a seen state, %d states not run), %d clean reopens, %d crash points, %d distinct images (%d torn), %d runs cut a segment\n",
		a.g2.Runs, a.g2.States, a.g2.Dedup, a.g2.CapSkipped, a.g2.Clean, a.g2.Points, a.g2.Images, a.g2.Torn, a.g2.Cuts)
	fmt.Fprintf(os.Stderr, "walmc: %d histories (depth completed %d), %d crash points, %d distinct images (%d torn), %d corruption cases, %d evaluations, %d violation signature(s), %.1fs, exhaustive=%v\n",
		a.histories, depthDone, a.res.Points, a.res.Images, a.res.Mixed, a.res.Cases, a.res.Evals, rep.Count(), time.Since(start).Seconds(), exhaustive)
	return code
}

// spread keeps a few crash samples and a few corruption samples.
func spread(all []string) []string {
	sort.Strings(all)
	var crash, corr []string
	for _, s := range all {
		if strings.Contains(s, "; flip ") {
			corr = append(corr, s)
		} else {
			crash = append(crash, s)
		}
	}
	pick := func(l []string, n int) []string {
		if len(l) <= n {
			return l
		}
		var out []string
		for i := 0; i < n; i++ {
			out = append(out, l[i*len(l)/n])
		}
		return out
	}
	return append(pick(crash, 9), pick(corr, 6)...)
}

func coreNames(m map[string]bool) []string {
	var out []string
	for k := range m {
		out = append(out, k)
	}
	sort.Strings(out)
	return out
}

func alphabetNames() []string {
	var out []string
	for _, s := range shapes {
		if !s.LongOnly {
			out = append(out, s.Name)
		}
	}
	return out
}

func intMap(m map[int]int) map[string]int {
	out := map[string]int{}
	for k, v := range m {
		out[strconv.Itoa(k)] = v
	}
	return out
}

func toEv(v vio, n int) *ev.Violation {
	return &ev.Violation{Engine: "walmc", Kind: v.F.Kind, Cmd: v.F.Cmd, Shape: v.F.Shape, Func: v.F.Func,
		Detail: fmt.Sprintf("%s (%d case(s) with this signature; smallest: history %v %s%s)", v.F.Detail, n, v.Replay.Ops, v.Replay.Image, corrDesc(v.Replay)), Replay: v.Replay}
}

func corrDesc(d replayDoc) string {
	if d.Mode != "corrupt" {
		return ""
	}
	return fmt.Sprintf("flip %s offset %d mask 0x%02x", d.File, d.Off, d.Mask)
}

func (a *agg) addViol(v vio) {
	s := v.F.Kind + "|" + v.F.Cmd + "|" + v.F.Shape + "|" + v.F.Func
	a.violCount[s]++
	old, ok := a.viols[s]
	// keep the smallest counterexample per signature
	if !ok || len(v.Replay.Ops) < len(old.Replay.Ops) {
		a.viols[s] = v
	}
}

func (a *agg) merge(t *task, r *result, depth int) {
	if r.Err != "" {
		a.errs = append(a.errs, r.Err)
		return
	}
	if r.Inapplicable {
		a.inapplic++
		return
	}
	if r.Skipped {
		a.skipped++
	} else if t.Kind == "crash" {
		if !t.All {
			a.histories++
			a.doneDepth[depth]++
		} else if t.FromOp == -1 {
			a.histories++
		}
	}
	a.res.Evals += r.Evals
	a.res.Points += r.Points
	a.res.TrivialPts += r.TrivialPts
	a.res.Images += r.Images
	a.res.Mixed += r.Mixed
	a.res.Short += r.Short
	a.res.Capped += r.Capped
	a.res.Cases += r.Cases
	a.res.HitWritten += r.HitWritten
	if r.MaxSectors > a.maxSectors {
		a.maxSectors = r.MaxSectors
	}
	if r.G2 != nil {
		a.g2.add(r.G2)
		a.g2Tasks += r.G2Tasks
	}
	if r.Skipped && t.G2 != nil {
		a.g2Skipped++
	}
	for k, v := range r.Classes {
		a.res.Classes[k] += v
	}
	for _, v := range r.Findings {
		a.addViol(v)
	}
	if len(a.samples) < 4000 {
		a.samples = append(a.samples, r.Samples...)
	}
}

// dump prints the observations of a history (debugging aid): walmc dump <seg> <op>...
func dump(args []string) int {
	seg, _ := strconv.ParseInt(args[0], 10, 64)
	os.Setenv("WALMC_PARENT", "dump")
	defer os.RemoveAll(workerScratch())
	names := args[1:]
	if len(names) == 1 {
		for _, lh := range longHists {
			if lh.Name == names[0] {
				names, seg = lh.Ops, lh.Seg
			}
		}
	}
	ops, err := parseOps(names)
	if err != nil {
		fmt.Println(err)
		return 2
	}
	r, err := runHistory(filepath.Join(workerScratch(), "h"), seg, ops)
	if err != nil {
		fmt.Println("error:", err)
		return 2
	}
	for i, o := range r.rec.obs {
		var fs []string
		for ino, f := range o.files {
			fs = append(fs, fmt.Sprintf("%s#%d(%d)", f.path, ino, len(f.data)))
		}
		sort.Strings(fs)
		imgs, capped := r.rec.crashImages(max(i, 1), 12)
		fmt.Printf("obs %2d op %2d %-36s ack=%d/%d/%d images=%d capped=%v  %v\n", i, o.op, o.label, o.ackRecs, o.ackSnap, o.walSnap, len(imgs), capped, fs)
	}
	for i, rc := range r.m.recs {
		switch rc.Kind {
		case rEntry:
			fmt.Printf("rec %2d op %2d seg %d entry %d@t%d %dB\n", i, rc.Op, rc.Seg, rc.Ent.Index, rc.Ent.Term, len(rc.Ent.Data))
		case rState:
			fmt.Printf("rec %2d op %2d seg %d state %+v hdr=%v\n", i, rc.Op, rc.Seg, rc.St, rc.Hdr)
		case rSnap:
			fmt.Printf("rec %2d op %2d seg %d snapshot %d/t%d\n", i, rc.Op, rc.Seg, rc.Snap.Index, rc.Snap.Term)
		}
	}
	fmt.Println("self-check:", r.selfErr)
	return 0
}
