//go:build verif

// Recovery oracle: runs the real readers on a materialized image and compares what they
// return with the logical record stream of the history.
package main

import (
	"bytes"
	"fmt"
	"io"
	"os"
	"path/filepath"
	"runtime/debug"
	"sort"
	"strings"

	"go.etcd.io/etcd/raft/v3/raftpb"
	"go.etcd.io/etcd/server/v3/etcdserver/api/snap"
	"go.etcd.io/etcd/server/v3/storage/wal"
	"go.etcd.io/etcd/server/v3/storage/wal/walpb"
)

// finding is a violation of one oracle clause on one case.
type finding struct {
	Kind   string `json:"kind"`
	Cmd    string `json:"cmd"`
	Shape  string `json:"shape"`
	Func   string `json:"func,omitempty"`
	Detail string `json:"detail"`
	// G2 locates a second-generation case (second history, crash point, image); not part
	// of the signature
	G2 string `json:"g2,omitempty"`
}

// evalCtx is what the oracle knows about the history at the crash point / corruption case.
type evalCtx struct {
	m        *hmodel
	lo, hi   int    // admissible numbers of leading logical records (lo = acknowledged)
	ackSnap  uint64 // newest snapshot index whose SaveSnap had returned
	walSnap  uint64 // newest snapshot index whose SaveSnap + wal.SaveSnapshot had returned
	created  bool   // Create had returned
	corrupt  bool   // corruption mode: errors are acceptable, lo = 0
	scratch  string // directory to materialize into
	disk     *diskCache
	classes  map[string]int
	evals    int
	noCont   bool
	curCase  func(reader string) // announces the reader about to run (crash attribution)
	shapeTag string
	g2       *g2state // second generation enabled for this task (gen2.go)
}

func (c *evalCtx) class(s string) { c.classes[s]++ }

func callSafe(f func()) (panicked bool, msg string, fn string) {
	defer func() {
		if r := recover(); r != nil {
			panicked = true
			msg = fmt.Sprint(r)
			fn = innermostRepoFunc(string(debug.Stack()))
		}
	}()
	f()
	return
}

// innermostRepoFunc extracts the first etcd function below the panic frames.
func innermostRepoFunc(stack string) string {
	lines := strings.Split(stack, "\n")
	seenPanic := false
	for _, l := range lines {
		if strings.HasPrefix(l, "panic(") {
			seenPanic = true
			continue
		}
		if !seenPanic || strings.HasPrefix(l, "\t") {
			continue
		}
		if strings.HasPrefix(l, "go.etcd.io/") {
			if i := strings.LastIndex(l, "("); i > 0 {
				l = l[:i]
			}
			return l[strings.LastIndex(l, "/")+1:]
		}
	}
	return ""
}

func startSegOf(names []string, idx uint64) int {
	seg := 0
	for _, n := range names {
		var s, i uint64
		if _, err := fmt.Sscanf(n, "%016x-%016x.wal", &s, &i); err == nil && i <= idx {
			seg = int(s)
		}
	}
	return seg
}

// matchPrefix finds p in [lo,hi] such that the reference reader at p equals (st, ents).
func (c *evalCtx) matchPrefix(st raftpb.HardState, ents []raftpb.Entry, startIdx uint64, startSeg int, checkState bool) int {
	for p := c.hi; p >= c.lo; p-- {
		e := c.m.at(p, startIdx, startSeg)
		if e.gap {
			continue
		}
		if sameEnts(ents, e.ents) && (!checkState || st == e.st) {
			return p
		}
	}
	return -1
}

// whyNot classifies a non-matching result for the violation kind.
func (c *evalCtx) whyNot(st raftpb.HardState, ents []raftpb.Entry, startIdx uint64, startSeg int) (kind, detail string) {
	// would it match below the acknowledged level?
	for p := c.lo - 1; p >= 0; p-- {
		e := c.m.at(p, startIdx, startSeg)
		if !e.gap && sameEnts(ents, e.ents) && st == e.st {
			accE := c.m.at(c.lo, startIdx, startSeg)
			if !sameEnts(ents, accE.ents) {
				return "lost-acked-entry", fmt.Sprintf("read back %s = first %d records only; acknowledged %d records: %s", descr(st, ents), p, c.lo, descr(accE.st, accE.ents))
			}
			return "lost-acked-state", fmt.Sprintf("read back %s = first %d records only; acknowledged %d records: %s", descr(st, ents), p, c.lo, descr(accE.st, accE.ents))
		}
	}
	// entries are a prefix but state is not from the admissible window
	for p := c.hi; p >= 0; p-- {
		e := c.m.at(p, startIdx, startSeg)
		if !e.gap && sameEnts(ents, e.ents) {
			return "altered-state", fmt.Sprintf("entries equal the first %d records but HardState %+v is not the state at any admissible prefix (expected %+v there)", p, st, e.st)
		}
	}
	full := c.m.at(c.hi, startIdx, startSeg)
	return "altered-data", fmt.Sprintf("read back %s which is not the replay of any prefix of the written records (all written: %s)", descr(st, ents), descr(full.st, full.ents))
}

type readRes struct {
	meta []byte
	st   raftpb.HardState
	ents []raftpb.Entry
	err  error
}

func errClass(err error) string {
	switch {
	case err == nil:
		return "nil"
	case err == io.ErrUnexpectedEOF:
		return "ErrUnexpectedEOF"
	case err == io.EOF:
		return "EOF"
	case err == wal.ErrCRCMismatch:
		return "wal.ErrCRCMismatch"
	case err == walpb.ErrCRCMismatch:
		return "walpb.ErrCRCMismatch"
	case err == wal.ErrSnapshotNotFound:
		return "ErrSnapshotNotFound"
	case err == wal.ErrSnapshotMismatch:
		return "ErrSnapshotMismatch"
	case err == wal.ErrSliceOutOfRange:
		return "ErrSliceOutOfRange"
	case err == wal.ErrMetadataConflict:
		return "ErrMetadataConflict"
	case err == wal.ErrFileNotFound:
		return "ErrFileNotFound"
	case err == snap.ErrNoSnapshot:
		return "snap.ErrNoSnapshot"
	case strings.Contains(err.Error(), "max entry size limit exceeded"):
		return "max-entry-size-limit"
	case strings.Contains(err.Error(), "unexpected block type"):
		return "unexpected-block-type"
	case strings.Contains(err.Error(), "proto:") || strings.Contains(err.Error(), "unexpected EOF"):
		return "proto-unmarshal"
	case strings.Contains(err.Error(), "file not found which matches"):
		return "snapshot-index-file-not-found"
	}
	return "other:" + err.Error()
}

// openWrite is the server's recovery protocol: Open + ReadAll, on ErrUnexpectedEOF Repair
// once and read again.
func (c *evalCtx) openWrite(walDir string, ws walpb.Snapshot, tag string) (w *wal.WAL, r readRes, repaired bool, f *finding) {
	cmd := "Open+ReadAll(" + tag + ")"
	for attempt := 0; attempt < 2; attempt++ {
		var ww *wal.WAL
		p, msg, fn := callSafe(func() {
			ww, r.err = wal.Open(nop, walDir, ws)
			if r.err != nil {
				return
			}
			r.meta, r.st, r.ents, r.err = ww.ReadAll()
		})
		if p {
			if ww != nil {
				callSafe(func() { ww.Close() })
			}
			c.disk.dirtyWal = true
			return nil, r, repaired, &finding{Kind: "panic", Cmd: cmd, Func: fn, Detail: "panic: " + msg}
		}
		if r.err == nil || r.err == wal.ErrSnapshotNotFound {
			c.disk.dirtyWal = true
			return ww, r, repaired, nil
		}
		if ww != nil {
			ww.Close()
		}
		if r.err != io.ErrUnexpectedEOF || attempt == 1 {
			if attempt == 1 && r.err == io.ErrUnexpectedEOF && !c.corrupt {
				return nil, r, repaired, &finding{Kind: "unrepairable-torn-tail", Cmd: cmd, Detail: "ReadAll still returns ErrUnexpectedEOF after Repair reported success"}
			}
			return nil, r, repaired, nil
		}
		ok := false
		c.disk.dirtyWal = true
		p, msg, fn = callSafe(func() { ok = wal.Repair(nop, walDir) })
		if p {
			return nil, r, repaired, &finding{Kind: "panic", Cmd: "Repair", Func: fn, Detail: "panic: " + msg}
		}
		if !ok {
			c.class("write:" + tag + ":repair-failed")
			if c.corrupt {
				return nil, r, repaired, nil
			}
			return nil, r, repaired, &finding{Kind: "unrepairable-torn-tail", Cmd: "Repair", Detail: "ReadAll returned ErrUnexpectedEOF and Repair returned false"}
		}
		repaired = true
	}
	return nil, r, repaired, nil
}

// evalImage runs every reader on the image and returns the violated clauses.
func (c *evalCtx) evalImage(files map[string][]byte) []finding {
	var out []finding
	add := func(f *finding) {
		if f != nil {
			if c.shapeTag != "" && f.Shape == "" {
				f.Shape = c.shapeTag
			}
			out = append(out, *f)
		}
	}
	dir := c.scratch
	walDir := filepath.Join(dir, "wal")
	snapDir := filepath.Join(dir, "snap")
	names := walNames(files)
	announce := func(s string) {
		if c.curCase != nil {
			c.curCase(s)
		}
	}

	if len(names) == 0 {
		// no log at all: only acceptable when nothing had been acknowledged (crash inside Create)
		c.class("no-wal")
		if !c.corrupt && c.created {
			add(&finding{Kind: "lost-acked-entry", Cmd: "Exist", Detail: "no segment file present although Create had returned"})
		}
		return out
	}
	if c.disk == nil {
		c.disk = diskCacheFor(dir)
	}
	if err := c.disk.materialize(files); err != nil {
		panic(err)
	}

	// ---- read-only readers ------------------------------------------------------------
	announce("OpenForRead")
	{
		var r readRes
		var w *wal.WAL
		p, msg, fn := callSafe(func() {
			w, r.err = wal.OpenForRead(nop, walDir, walpb.Snapshot{})
			if r.err != nil {
				return
			}
			r.meta, r.st, r.ents, r.err = w.ReadAll()
		})
		c.evals++
		if w != nil {
			callSafe(func() { w.Close() })
		}
		switch {
		case p:
			add(&finding{Kind: "panic", Cmd: "OpenForRead+ReadAll", Func: fn, Detail: "panic: " + msg})
		case r.err != nil:
			c.class("read:err:" + errClass(r.err))
			if !c.corrupt {
				add(&finding{Kind: "reader-error-on-torn-tail", Cmd: "OpenForRead+ReadAll", Detail: "error " + r.err.Error()})
			}
		default:
			add(c.checkRead("OpenForRead+ReadAll", "read", r, 0, 0))
		}
	}
	announce("Verify")
	{
		var hs *raftpb.HardState
		var err error
		p, msg, fn := callSafe(func() { hs, err = wal.Verify(nop, walDir, walpb.Snapshot{}) })
		c.evals++
		switch {
		case p:
			add(&finding{Kind: "panic", Cmd: "Verify", Func: fn, Detail: "panic: " + msg})
		case err != nil:
			c.class("verify:err:" + errClass(err))
			if !c.corrupt {
				add(&finding{Kind: "reader-error-on-torn-tail", Cmd: "Verify", Detail: "error " + err.Error()})
			}
		default:
			ok := false
			for p := c.hi; p >= c.lo; p-- {
				if e := c.m.at(p, 0, 0); e.st == *hs {
					ok = true
					break
				}
			}
			if ok {
				c.class("verify:ok")
			} else {
				kind := "altered-state"
				for p := c.lo - 1; p >= 0; p-- {
					if e := c.m.at(p, 0, 0); e.st == *hs {
						kind = "lost-acked-state"
						break
					}
				}
				if kind == "lost-acked-state" && c.corrupt {
					c.class("verify:ok")
				} else {
					add(&finding{Kind: kind, Cmd: "Verify", Detail: fmt.Sprintf("returned HardState %+v, not the state at any admissible prefix [%d,%d]", *hs, c.lo, c.hi)})
				}
			}
		}
	}
	var walSnaps []walpb.Snapshot
	announce("ValidSnapshotEntries")
	{
		var err error
		p, msg, fn := callSafe(func() { walSnaps, err = wal.ValidSnapshotEntries(nop, walDir) })
		c.evals++
		switch {
		case p:
			add(&finding{Kind: "panic", Cmd: "ValidSnapshotEntries", Func: fn, Detail: "panic: " + msg})
			walSnaps = nil
		case err != nil:
			c.class("vse:err:" + errClass(err))
			if !c.corrupt {
				add(&finding{Kind: "reader-error-on-torn-tail", Cmd: "ValidSnapshotEntries", Detail: "error " + err.Error()})
			}
			walSnaps = nil
		default:
			ok := false
			for p := c.hi; p >= c.lo; p-- {
				e := c.m.at(p, 0, 0)
				var exp []walpb.Snapshot
				for _, s := range e.snaps {
					if s.Index <= e.st.Commit {
						exp = append(exp, s)
					}
				}
				if sameSnaps(exp, walSnaps) {
					ok = true
					break
				}
			}
			if ok {
				c.class("vse:ok")
			} else {
				add(&finding{Kind: "altered-data", Cmd: "ValidSnapshotEntries", Detail: fmt.Sprintf("returned %v, not the valid snapshot list at any admissible prefix [%d,%d]", snapList(walSnaps), c.lo, c.hi)})
				walSnaps = nil
			}
		}
	}

	// ---- write mode from the beginning of the log ------------------------------------------
	announce("Open(write)")
	{
		w, r, repaired, f := c.openWrite(walDir, walpb.Snapshot{}, "zero")
		c.evals++
		add(f)
		if f == nil {
			if w == nil {
				c.class("write:zero:err:" + errClass(r.err))
				if !c.corrupt {
					kind := "reader-error-on-torn-tail"
					if repaired {
						kind = "unrepairable-torn-tail"
					}
					add(&finding{Kind: kind, Cmd: "Open+ReadAll(zero)", Detail: fmt.Sprintf("error %v (repaired=%v)", r.err, repaired)})
				}
			} else {
				tag := "write:zero"
				if repaired {
					tag = "write:zero:repaired"
				}
				if r.err == wal.ErrSnapshotNotFound {
					w.Close()
					c.class(tag + ":ErrSnapshotNotFound")
					if !c.corrupt {
						add(&finding{Kind: "altered-data", Cmd: "Open+ReadAll(zero)", Detail: "ErrSnapshotNotFound for the initial snapshot record"})
					}
				} else if f := c.checkRead("Open+ReadAll(zero)", tag, r, 0, 0); f != nil {
					w.Close()
					add(f)
				} else if c.noCont || (c.corrupt && r.meta == nil) {
					w.Close()
				} else {
					announce("continue")
					add(c.continueAfter(w, walDir, walpb.Snapshot{}, r, 0))
					if c.g2 != nil && !c.corrupt {
						announce("gen2")
						for _, f := range c.gen2(files, walpb.Snapshot{}, r, "zero") {
							f := f
							add(&f)
						}
					}
				}
			}
		}
	}

	// ---- snapshot directory + the restart sequence of raftexample -----------------------
	if err := c.disk.materialize(files); err != nil {
		panic(err)
	}
	announce("Snapshotter.Load")
	ss := snap.New(nop, snapDir)
	{
		var s *raftpb.Snapshot
		var err error
		p, msg, fn := callSafe(func() { s, err = ss.Load() })
		c.evals++
		if p {
			add(&finding{Kind: "panic", Cmd: "Snapshotter.Load", Func: fn, Detail: "panic: " + msg})
		} else {
			add(c.checkSnap("Snapshotter.Load", s, err, snapDir, files, c.ackSnap))
		}
	}
	if walSnaps != nil {
		c.disk.snapDirChanged()
		if err := c.disk.materialize(files); err != nil {
			panic(err)
		}
		announce("LoadNewestAvailable")
		var s *raftpb.Snapshot
		var err error
		p, msg, fn := callSafe(func() { s, err = ss.LoadNewestAvailable(walSnaps) })
		c.evals++
		if p {
			add(&finding{Kind: "panic", Cmd: "LoadNewestAvailable", Func: fn, Detail: "panic: " + msg})
		} else if f := c.checkSnap("LoadNewestAvailable", s, err, snapDir, nil, c.walSnapIfListed(walSnaps)); f != nil {
			add(f)
		} else if s != nil && s.Metadata.Index > 0 {
			ws := walpb.Snapshot{Index: s.Metadata.Index, Term: s.Metadata.Term}
			announce("Open(write,snap)")
			w, r, repaired, f := c.openWrite(walDir, ws, "snap")
			c.evals++
			add(f)
			if f == nil {
				if w == nil {
					c.class("write:snap:err:" + errClass(r.err))
					if !c.corrupt {
						add(&finding{Kind: "reader-error-on-torn-tail", Cmd: "Open+ReadAll(snap)", Detail: fmt.Sprintf("open at snapshot %d/%d: error %v (repaired=%v)", ws.Index, ws.Term, r.err, repaired)})
					}
				} else {
					tag := "write:snap"
					if repaired {
						tag += ":repaired"
					}
					seg := startSegOf(names, ws.Index)
					if r.err == wal.ErrSnapshotNotFound {
						w.Close()
						c.class(tag + ":ErrSnapshotNotFound")
						if !c.corrupt {
							add(&finding{Kind: "altered-data", Cmd: "Open+ReadAll(snap)", Detail: fmt.Sprintf("snapshot %d listed by ValidSnapshotEntries but ErrSnapshotNotFound on open", ws.Index)})
						}
					} else if f := c.checkRead("Open+ReadAll(snap)", tag, r, ws.Index, seg); f != nil {
						w.Close()
						add(f)
					} else if c.noCont || (c.corrupt && r.meta == nil) {
						w.Close()
					} else {
						announce("continue(snap)")
						add(c.continueAfter(w, walDir, ws, r, seg))
						if c.g2 != nil && !c.corrupt {
							announce("gen2(snap)")
							for _, f := range c.gen2(files, ws, r, fmt.Sprintf("snapshot %d/t%d", ws.Index, ws.Term)) {
								f := f
								add(&f)
							}
						}
					}
				}
			}
		}
	}
	c.disk.snapDirChanged()
	return out
}

var diskCaches = map[string]*diskCache{}

func diskCacheFor(dir string) *diskCache {
	if d, ok := diskCaches[dir]; ok {
		return d
	}
	d := &diskCache{dir: dir}
	diskCaches[dir] = d
	return d
}

func (c *evalCtx) walSnapIfListed(list []walpb.Snapshot) uint64 {
	// the newest fully acknowledged snapshot must be loadable if the log still lists it
	for _, s := range list {
		if s.Index == c.walSnap {
			return c.walSnap
		}
	}
	return 0
}

func sameSnaps(a, b []walpb.Snapshot) bool {
	if len(a) != len(b) {
		return false
	}
	for i := range a {
		if a[i].Index != b[i].Index || a[i].Term != b[i].Term {
			return false
		}
	}
	return true
}

func snapList(a []walpb.Snapshot) string {
	var s []string
	for _, x := range a {
		s = append(s, fmt.Sprintf("%d/t%d", x.Index, x.Term))
	}
	return "[" + strings.Join(s, " ") + "]"
}

// checkRead compares a successful read with the reference.
func (c *evalCtx) checkRead(cmd, tag string, r readRes, startIdx uint64, startSeg int) *finding {
	if c.corrupt && r.meta == nil && len(r.ents) == 0 && isEmptyHS(r.st) {
		// nothing at all was read (e.g. Repair truncated at the first record): the empty prefix
		c.class(tag + ":ok-empty")
		return nil
	}
	if !bytes.Equal(r.meta, metadata) {
		return &finding{Kind: "altered-data", Cmd: cmd, Detail: fmt.Sprintf("metadata read back as %q", r.meta)}
	}
	p := c.matchPrefix(r.st, r.ents, startIdx, startSeg, true)
	if p < 0 {
		kind, detail := c.whyNot(r.st, r.ents, startIdx, startSeg)
		if c.corrupt && (kind == "lost-acked-entry" || kind == "lost-acked-state") {
			// below the acknowledged level is still a prefix: acceptable under corruption
			c.class(tag + ":ok-prefix")
			return nil
		}
		return &finding{Kind: kind, Cmd: cmd, Detail: detail}
	}
	if p == c.hi {
		c.class(tag + ":ok-full")
	} else {
		c.class(tag + ":ok-prefix")
	}
	return nil
}

// continueAfter appends one more entry through the opened WAL, closes it and reads back.
func (c *evalCtx) continueAfter(w *wal.WAL, walDir string, ws walpb.Snapshot, r readRes, startSeg int) *finding {
	last := ws.Index
	term := r.st.Term
	if n := len(r.ents); n > 0 {
		last = r.ents[n-1].Index
		if r.ents[n-1].Term > term {
			term = r.ents[n-1].Term
		}
	}
	if term == 0 {
		term = 1
	}
	ne := raftpb.Entry{Term: term, Index: last + 1, Data: []byte("post-recovery-entry")}
	nst := raftpb.HardState{Term: term, Vote: r.st.Vote, Commit: r.st.Commit}
	var err error
	p, msg, fn := callSafe(func() {
		err = w.Save(nst, []raftpb.Entry{ne})
		if err == nil {
			err = w.Close()
		} else {
			w.Close()
		}
	})
	if p {
		return &finding{Kind: "panic", Cmd: "Save(after recovery)", Func: fn, Detail: "panic: " + msg}
	}
	if err != nil {
		return &finding{Kind: "append-after-recovery", Cmd: "Save(after recovery)", Detail: "error " + err.Error()}
	}
	var r2 readRes
	var w2 *wal.WAL
	p, msg, fn = callSafe(func() {
		w2, r2.err = wal.Open(nop, walDir, ws)
		if r2.err != nil {
			return
		}
		r2.meta, r2.st, r2.ents, r2.err = w2.ReadAll()
	})
	c.evals++
	if w2 != nil {
		callSafe(func() { w2.Close() })
	}
	if p {
		return &finding{Kind: "panic", Cmd: "reopen(after recovery)", Func: fn, Detail: "panic: " + msg}
	}
	if r2.err != nil {
		return &finding{Kind: "append-after-recovery", Cmd: "reopen(after recovery)", Detail: fmt.Sprintf("after recovering %s and appending entry %d, reopen fails: %v", descr(r.st, r.ents), ne.Index, r2.err)}
	}
	want := append(append([]raftpb.Entry{}, r.ents...), ne)
	if !sameEnts(r2.ents, want) || r2.st != nst || !bytes.Equal(r2.meta, metadata) {
		return &finding{Kind: "append-after-recovery", Cmd: "reopen(after recovery)", Detail: fmt.Sprintf("after recovering %s and appending entry %d, reopen reads %s", descr(r.st, r.ents), ne.Index, descr(r2.st, r2.ents))}
	}
	c.class("continue:ok")
	return nil
}

// checkSnap: what Load returned must be a written snapshot, byte-identical, at least as new
// as the newest acknowledged one; every newer .snap file must have been renamed .broken.
func (c *evalCtx) checkSnap(cmd string, s *raftpb.Snapshot, err error, snapDir string, files map[string][]byte, mustHave uint64) *finding {
	if err != nil {
		if err != snap.ErrNoSnapshot {
			c.class("snap:err:" + errClass(err))
			return &finding{Kind: "snapshot-fallback", Cmd: cmd, Detail: "unexpected error " + err.Error()}
		}
		if mustHave > 0 && !c.corrupt {
			return &finding{Kind: "lost-acked-snapshot", Cmd: cmd, Detail: fmt.Sprintf("ErrNoSnapshot although SaveSnap of index %d had returned", mustHave)}
		}
		if c.corrupt && files != nil {
			// under corruption of one file at most one snapshot may be unreadable
			if n := len(c.m.snaps); n >= 2 {
				return &finding{Kind: "snapshot-fallback", Cmd: cmd, Detail: fmt.Sprintf("ErrNoSnapshot with %d snapshot files of which at most one is damaged", n)}
			}
		}
		c.class("snap:none")
		return nil
	}
	idx := s.Metadata.Index
	want, ok := c.m.snaps[idx]
	got, _ := s.Marshal()
	if !ok || !bytes.Equal(want, got) {
		return &finding{Kind: "altered-data", Cmd: cmd, Detail: fmt.Sprintf("loaded snapshot index %d term %d (%d data bytes) is not a snapshot that was saved", idx, s.Metadata.Term, len(s.Data))}
	}
	if idx < mustHave && !c.corrupt {
		return &finding{Kind: "lost-acked-snapshot", Cmd: cmd, Detail: fmt.Sprintf("loaded snapshot %d although SaveSnap of index %d had returned", idx, mustHave)}
	}
	if files != nil {
		// Load (no filter): anything newer than the one returned must be out of the way
		ents, _ := os.ReadDir(snapDir)
		var newer []string
		for _, e := range ents {
			var t, i uint64
			if strings.HasSuffix(e.Name(), ".snap") {
				if _, err := fmt.Sscanf(e.Name(), "%016x-%016x.snap", &t, &i); err == nil && e.Name() > fmt.Sprintf("%016x-%016x.snap", s.Metadata.Term, idx) {
					newer = append(newer, e.Name())
				}
			}
		}
		if len(newer) > 0 {
			sort.Strings(newer)
			return &finding{Kind: "snapshot-fallback", Cmd: cmd, Detail: fmt.Sprintf("fell back to snapshot %d but newer file(s) %v were not renamed .broken", idx, newer)}
		}
		if c.corrupt {
			// one damaged file: the result must be the newest or the second newest
			var all []uint64
			for i := range c.m.snaps {
				all = append(all, i)
			}
			sort.Slice(all, func(a, b int) bool { return all[a] > all[b] })
			if !(idx == all[0] || (len(all) > 1 && idx == all[1])) {
				return &finding{Kind: "snapshot-fallback", Cmd: cmd, Detail: fmt.Sprintf("loaded snapshot %d, neither the newest nor the second newest of %v", idx, all)}
			}
		}
	}
	if files != nil {
		newest := ""
		for p := range files {
			if strings.HasPrefix(p, "snap/") && p > newest {
				newest = p
			}
		}
		if newest == fmt.Sprintf("snap/%016x-%016x.snap", s.Metadata.Term, idx) {
			c.class("snap:newest")
		} else {
			c.class("snap:fallback")
		}
	} else {
		c.class("snap:wal-matched")
	}
	return nil
}
