//go:build verif

// Second generation: what happens to a log that keeps being used after a crash.
//
// The first generation (worker.go / oracle.go) stops at the recovery of a crash image plus one
// small post-recovery append. A recovery that returns the right prefix can still leave the
// directory in a state that only hurts later - typically leftovers of the torn write behind
// the last valid record (a torn multi-page write may lose its LEADING sectors, frame header
// included, while later sectors persisted). So, for crash images of generation 1:
//
//  1. recover with the real restart path: Open + ReadAll, Repair once on ErrUnexpectedEOF
//     (evalCtx.openWrite). The recovered (HardState, entries) R has already been accepted by
//     the generation-1 prefix oracle.
//  2. run a short second history of real Save calls on the recovered WAL (small and multi-page
//     records, enough bytes to cross the whole torn region and, with the larger sets, a
//     segment cut), recording the directory at every Fsync/Fdatasync callback and API return
//     exactly like generation 1, then Close.
//  3. (i) clean reopen: Open + ReadAll on the directory as Close left it must succeed without
//     Repair (nothing was in flight) and return exactly R followed by every generation-2
//     record.
//     (ii) crash images of generation 2: at every observation of the second history, every
//     per-sector choice between the durable base and the contents observed since (all subsets
//     up to g2 sector_subset_bits, above that the tied + interval families of disk.go), then
//     OpenForRead + ReadAll and Open + ReadAll (+Repair) must return replay(R + first q
//     generation-2 records) for some q between the records acknowledged by completed Saves and
//     the records written; then one more Save + reopen (continueAfter). In the image in
//     which every sector holds its durable content (the state at the last completed sync:
//     the instant after a completed Save or Close, or a crash before anything of the next
//     write reached the disk) no torn write exists, so needing Repair there is a violation
//     as well.
//
// Durable base of generation 2 = the directory as recovery left it (mode "recovered"). The
// zeroing of the torn tail by ReadAll is a truncate + fallocate: metadata operations that a
// journalling file system orders before later data writes into the re-allocated range, so
// "stale sector of the torn write + sector of a generation-2 write" cannot coexist once the
// recovery is durable, and "recovery not durable at all" is the generation-1 image itself.
// WALMC_G2_BASE=image switches to the pessimistic alternative (base = the crash image, the
// zeroing may be lost sector-wise) for experiments; it is not part of the check.
//
// Bounds (all enumerations are exhaustive within them, nothing is sampled):
//   - generation 2 runs from the images of the tasks that carry a g2 configuration: the
//     big-record base histories (g2Bases) and, in the thorough tier, the long histories;
//   - per task (one base history x one operation in flight), generation 2 runs once per
//     DISTINCT recovered state (hash of the WAL directory after recovery + start snapshot):
//     generation 2 is a deterministic function of that state, so images that recover to the
//     same bytes need no second run. At most MaxStates distinct states per task, in image
//     enumeration order (cap reported in the evidence);
//   - second histories: the fixed lists of g2HistsFor, all of them for every state (long
//     histories: the first two);
//   - the base histories' own crash points: all subsets of the last g2BaseMaxBits(tier)
//     undetermined sectors x {all, none} of the earlier ones + the interval families.
package main

import (
	"crypto/sha1"
	"fmt"
	"io"
	"os"
	"path/filepath"
	"sort"
	"strings"

	"go.etcd.io/etcd/server/v3/storage/wal"
	"go.etcd.io/etcd/server/v3/storage/wal/walpb"
)

// g2task is the generation-2 configuration carried by a task (and by replay documents).
type g2task struct {
	Hists     [][]string `json:"second_histories"`
	Bits      int        `json:"sector_subset_bits"`
	MaxStates int        `json:"max_recovered_states"`
}

// g2stats are the generation-2 counters of one task.
type g2stats struct {
	Runs       int `json:"runs"`        // second histories executed
	States     int `json:"states"`      // distinct recovered states that got a generation 2
	Dedup      int `json:"dedup"`       // generation-1 images whose recovered state had been seen
	CapSkipped int `json:"cap_skipped"` // distinct recovered states beyond MaxStates (not run)
	Points     int `json:"points"`      // generation-2 crash points
	Capped     int `json:"capped"`      // ... with more than Bits undetermined sectors
	Images     int `json:"images"`      // distinct generation-2 crash images evaluated
	Torn       int `json:"torn"`        // ... that are torn
	Strict     int `json:"strict"`      // ... equal to the last synced state (Repair not allowed)
	Clean      int `json:"clean"`       // clean reopens checked
	Cuts       int `json:"cuts"`        // second histories that cut a new segment
	BigRecs    int `json:"big_recs"`    // records > 4096 bytes written by second histories
	SkippedOps int `json:"skipped_ops"` // operations of a second history not applicable in the recovered state
	MaxSectors int `json:"max_sectors"`
}

func (a *g2stats) add(b *g2stats) {
	a.Runs += b.Runs
	a.States += b.States
	a.Dedup += b.Dedup
	a.CapSkipped += b.CapSkipped
	a.Points += b.Points
	a.Capped += b.Capped
	a.Images += b.Images
	a.Torn += b.Torn
	a.Strict += b.Strict
	a.Clean += b.Clean
	a.Cuts += b.Cuts
	a.BigRecs += b.BigRecs
	a.SkippedOps += b.SkippedOps
	if b.MaxSectors > a.MaxSectors {
		a.MaxSectors = b.MaxSectors
	}
}

// g2state is the per-task generation-2 state hanging off the evaluation context.
type g2state struct {
	cfg     *g2task
	seg     int64
	seen    map[string]bool // recovered states that already got a generation 2
	stats   *g2stats
	verbose bool // replay: print the generation-2 crash points
	// progress resets the hang watchdog of the worker pool (a generation 2 takes a while)
	progress func()
}

// ---------------------------------------------------------------- configuration

// second histories. S1 moves the append frontier in steps of about 1.1 KiB, then about
// 265 bytes across the 3.5 - 6.1 KiB range, then 1.1 KiB again up to about 11 KiB, so that
// some completed Save ends inside any leftover region of a torn 5 KiB or 9 KiB record.
// S2 appends multi-page records itself and, on top of a base history, exceeds the 16 KiB
// segment (cut inside generation 2).
var (
	g2S1 = []string{"a1100", "a1100", "a1100", "a200", "a200", "a200", "a200", "a200", "a200", "a200", "a200", "a200", "a200", "a1100", "a1100", "a1100", "a1100"}
	g2S2 = []string{"a5kcn", "hsC", "a9kff", "a789", "a1100", "hsT", "a1"}
	g2S3 = []string{"hsT", "a513", "a100ns", "a512", "hsC", "a480", "a5kf1", "a1100z", "a0", "a1100", "a9kcn", "a511"}
)

func g2HistsFor(tier string) [][]string {
	if tier == "thorough" {
		return [][]string{g2S1, g2S2, g2S3}
	}
	return [][]string{g2S1, g2S2}
}

// g2BaseSeg: segment size of the base histories; a 9 KiB record plus generation 2 fits or
// crosses it depending on the second history.
const g2BaseSeg = 16384

// g2Bases lists the generation-1 base histories: a small synced prefix (so that the torn
// write does not start on a sector boundary), then one Save with a multi-page record; every
// crash point of every operation is enumerated and generation 2 runs from the images.
func g2Bases(tier string) [][]string {
	var out [][]string
	pres := []string{"a789"}
	bigs := []string{"a5kff", "a5kcn", "a9kff", "a9kcn", "a5k789"}
	for r := 0; r < 8; r++ {
		bigs = append(bigs, fmt.Sprintf("a5kf%d", r))
	}
	if tier == "thorough" {
		pres = []string{"a1", "a789", "a1100"}
		bigs = append(bigs, "a5kz", "a9kz")
		for r := 0; r < 8; r++ {
			bigs = append(bigs, fmt.Sprintf("a9kf%d", r))
		}
	}
	for _, p := range pres {
		for _, b := range bigs {
			out = append(out, []string{p, b})
		}
	}
	// a commit-only HardState (not synced) in front of the big record, a big record that is
	// synced and followed by a small torn one, and two big records in a row
	out = append(out, []string{"a513", "hsC", "a5kcn"}, []string{"a1", "a5kff", "a480"}, []string{"a480", "a5kcn", "a9kf1"})
	if tier == "thorough" {
		out = append(out, []string{"a789", "hsC", "a9kf2"}, []string{"a1", "a9kcn", "a5kf3", "a1"}, []string{"a1100", "a5k789", "a5k789"})
	}
	return out
}

func g2For(tier string) *g2task {
	if tier == "thorough" {
		return &g2task{Hists: g2HistsFor(tier), Bits: 6, MaxStates: 64}
	}
	return &g2task{Hists: g2HistsFor(tier), Bits: 6, MaxStates: 24}
}

// g2ForLong: the long histories (thorough tier) get the first two second histories; with
// their 2 and 8 KiB segments S1 alone cuts up to five segments inside generation 2.
func g2ForLong(tier string) *g2task {
	g := *g2For(tier)
	g.Hists = g.Hists[:2]
	return &g
}

// g2BaseMaxBits bounds the exhaustive sector subsets of the base histories' own (generation-1)
// crash points: a torn 9 KiB write has 19 undetermined sectors, i.e. (thorough) all subsets of
// the last 10 x {all, none} of the first 9 + the interval families; quick: the last 8.
func g2BaseMaxBits(tier string) int {
	if tier == "thorough" {
		return 10
	}
	return 8
}

// bigShapes: names and payload sizes of the shapes with a record larger than one page.
func bigShapes() map[string]int {
	out := map[string]int{}
	for _, s := range shapes {
		for _, n := range s.Sizes {
			if n > 4096 {
				out[s.Name] = n
			}
		}
	}
	return out
}

// ---------------------------------------------------------------- model of the restarted node

// modelAfterRecovery is the abstract state of a Raft node restarted from what recovery
// returned: the logical record stream starts with R (one record per recovered entry + the
// recovered HardState), all of it acknowledged.
func modelAfterRecovery(r readRes, ws walpb.Snapshot) *hmodel {
	m := &hmodel{snaps: map[uint64][]byte{}, term: r.st.Term, vote: r.st.Vote, commit: r.st.Commit,
		snapIdx: ws.Index, snapTerm: ws.Term, last: ws.Index, prevHS: r.st}
	for _, e := range r.ents {
		m.recs = append(m.recs, lrec{Kind: rEntry, Ent: e, Op: -1})
		m.last = e.Index
		if e.Term > m.term {
			m.term = e.Term
		}
	}
	if !isEmptyHS(r.st) {
		m.recs = append(m.recs, lrec{Kind: rState, St: r.st, Op: -1})
	}
	if m.term == 0 {
		m.term = 1
	}
	m.terms = make([]uint64, m.last)
	for _, e := range r.ents {
		if e.Index >= 1 && e.Index <= m.last {
			m.terms[e.Index-1] = e.Term
		}
	}
	m.ackedRecs = len(m.recs)
	return m
}

func dirStateKey(walDir string, ws walpb.Snapshot) string {
	h := sha1.New()
	for _, n := range dirWalNames(walDir) {
		b, _ := os.ReadFile(filepath.Join(walDir, n))
		fmt.Fprintf(h, "%s\x00%d\x00", n, len(b))
		h.Write(b)
	}
	return fmt.Sprintf("%x|%d/%d", h.Sum(nil), ws.Index, ws.Term)
}

func g2BaseIsImage() bool { return os.Getenv("WALMC_G2_BASE") == "image" }

// ---------------------------------------------------------------- generation 2

// gen2 runs the second histories from the generation-1 image `files`, opened at snapshot ws.
// first is what the generation-1 recovery of the same image returned (accepted by the
// prefix oracle).
func (c *evalCtx) gen2(files map[string][]byte, ws walpb.Snapshot, first readRes, start string) []finding {
	g := c.g2
	var out []finding
	walDir := filepath.Join(c.scratch, "wal")
	for hi, names := range g.cfg.Hists {
		ops, err := parseOps(names)
		if err != nil {
			return append(out, finding{Kind: "harness", Cmd: "gen2", Detail: err.Error()})
		}
		// ---- 1. restart from the image with the real recovery path
		c.disk.dirtyWal = true
		if err := c.disk.materialize(files); err != nil {
			panic(err)
		}
		rec := newRecorder(c.scratch)
		if g2BaseIsImage() {
			rec.curOp = -1
			rec.observe("g2:image", nil)
			rec.obs[0].durable = true
			rec.install()
		}
		w, r, _, f := c.openWrite(walDir, ws, "g2")
		if f != nil || w == nil || r.err != nil {
			// cannot happen: the same image recovered a moment ago
			rec.uninstall()
			if w != nil {
				w.Close()
			}
			return append(out, finding{Kind: "harness", Cmd: "gen2", Detail: fmt.Sprintf("second recovery of the same image failed: %v %v", r.err, f)})
		}
		if !sameEnts(r.ents, first.ents) || r.st != first.st {
			rec.uninstall()
			w.Close()
			return append(out, finding{Kind: "altered-data", Cmd: "gen2:Open+ReadAll(" + start + ")", G2: "second recovery of the same image",
				Detail: fmt.Sprintf("recovering the same image twice returned %s, then %s", descr(first.st, first.ents), descr(r.st, r.ents))})
		}
		if hi == 0 {
			key := dirStateKey(walDir, ws)
			if g2BaseIsImage() {
				key = fmt.Sprintf("%x|%d", (&image{files: files}).hash(), ws.Index)
			}
			if g.seen[key] {
				g.stats.Dedup++
				rec.uninstall()
				w.Close()
				return out
			}
			if len(g.seen) >= g.cfg.MaxStates {
				g.stats.CapSkipped++
				rec.uninstall()
				w.Close()
				return out
			}
			g.seen[key] = true
			g.stats.States++
		}
		out = append(out, c.gen2Run(w, rec, r, ws, start, names, ops)...)
		if len(out) > 0 {
			break
		}
	}
	return out
}

// gen2Run executes one second history on the recovered WAL w and checks (i) and (ii).
func (c *evalCtx) gen2Run(w *wal.WAL, rec *recorder, r readRes, ws walpb.Snapshot, start string, names []string, ops []int) (out []finding) {
	g := c.g2
	g.stats.Runs++
	walDir := filepath.Join(c.scratch, "wal")
	m2 := modelAfterRecovery(r, ws)
	nR := len(m2.recs)
	m2.seg = countWalFiles(walDir) - 1
	seg0 := m2.seg
	r2 := &runner{root: c.scratch, walDir: walDir, snapDir: filepath.Join(c.scratch, "snap"), w: w, m: m2, rec: rec, seg: g.seg}
	rec.curOp = -1
	rec.ack = func() (int, uint64, uint64) { return m2.ackedRecs, 0, 0 }
	r2.opDone("g2:recovered", true)
	if !g2BaseIsImage() {
		// the directory as recovery left it is the durable base of generation 2
		rec.obs[0].durable = true
		rec.install()
	}
	where := func(s string) string {
		return fmt.Sprintf("start %s, recovered %s, second history %v: %s", start, descr(r.st, r.ents), names, s)
	}
	// ---- 2. the second history
	var ran []string
	var runErr error
	p, msg, fn := callSafe(func() {
		for i, si := range ops {
			s := &shapes[si]
			if s.Kind != "append" && s.Kind != "hs-commit" && s.Kind != "hs-term" {
				runErr = fmt.Errorf("shape %s cannot be used in a second history", s.Name)
				return
			}
			if !m2.applicable(s) {
				// keep the call slots aligned with the operation indices (ctxFor)
				g.stats.SkippedOps++
				r2.retObs = append(r2.retObs, len(rec.obs)-1)
				r2.totalRec = append(r2.totalRec, len(m2.recs))
				continue
			}
			if runErr = r2.doOp(i, si); runErr != nil {
				return
			}
			ran = append(ran, s.Name)
			for _, n := range s.Sizes {
				if n > 4096 {
					g.stats.BigRecs++
				}
			}
		}
		rec.curOp = len(ops)
		if err := w.Close(); err != nil {
			runErr = &apiError{"Close", rec.curOp, err}
			return
		}
		r2.opDone("ret:Close(final)", true)
		rec.observe("end", nil)
	})
	rec.uninstall()
	c.disk.dirtyWal = true
	if p {
		callSafe(func() { w.Close() })
		return append(out, finding{Kind: "panic", Cmd: "gen2:Save", Func: fn, G2: where("op " + fmt.Sprint(rec.curOp)), Detail: "panic: " + msg})
	}
	if ae, ok := runErr.(*apiError); ok {
		callSafe(func() { w.Close() })
		return append(out, finding{Kind: "append-after-recovery", Cmd: "gen2:" + ae.call, G2: where("op " + fmt.Sprint(ae.op)), Detail: ae.Error()})
	}
	if runErr != nil {
		callSafe(func() { w.Close() })
		return append(out, finding{Kind: "harness", Cmd: "gen2", Detail: runErr.Error()})
	}
	if m2.seg > seg0 {
		g.stats.Cuts++
	}

	// ---- 3 (i). clean reopen of the directory as Close left it: no Repair, everything back
	{
		c2 := &evalCtx{m: m2, lo: len(m2.recs), hi: len(m2.recs), created: true, scratch: c.scratch, disk: c.disk, classes: c.classes}
		var rr readRes
		var w2 *wal.WAL
		p, msg, fn := callSafe(func() {
			w2, rr.err = wal.Open(nop, walDir, ws)
			if rr.err != nil {
				return
			}
			rr.meta, rr.st, rr.ents, rr.err = w2.ReadAll()
		})
		c.evals++
		g.stats.Clean++
		if w2 != nil {
			callSafe(func() { w2.Close() })
		}
		var f *finding
		switch {
		case p:
			f = &finding{Kind: "panic", Cmd: "gen2:reopen(clean)", Func: fn, Detail: "panic: " + msg}
		case rr.err != nil:
			f = &finding{Kind: "failure-without-fault", Cmd: "gen2:reopen(clean)",
				Detail: fmt.Sprintf("after recovery, %d completed Saves (%d records) and Close, Open+ReadAll fails: %v", len(ran), len(m2.recs)-nR, rr.err)}
		default:
			f = c2.checkRead("gen2:reopen(clean)", "g2:clean", rr, ws.Index, 0)
		}
		if f != nil {
			f.G2 = where("clean reopen after Close")
			f.Shape = c.shapeTag + " / g2:clean-reopen"
			return append(out, *f)
		}
	}

	// ---- 3 (ii). crash images of generation 2
	first := 1
	if g2BaseIsImage() {
		first = r2.retObs[0] + 1
	}
	seen := map[string]bool{}
	for k := first; k < len(rec.obs); k++ {
		o := rec.obs[k]
		imgs, capped := rec.crashImages(k, g.cfg.Bits)
		g.stats.Points++
		if capped {
			g.stats.Capped++
		}
		c2 := ctxFor(r2, k, c.classes, c.scratch)
		c2.disk = c.disk
		if g.progress != nil {
			g.progress()
		}
		if g.verbose {
			fmt.Printf("  g2 obs %2d op %2d %-50s imgs=%d lo=%d hi=%d\n", k, o.op, o.label, len(imgs), c2.lo, c2.hi)
		}
		for _, im := range imgs {
			if im.sectors > g.stats.MaxSectors {
				g.stats.MaxSectors = im.sectors
			}
			key := fmt.Sprintf("%x|%d|%d", im.hash(), c2.lo, c2.hi)
			if seen[key] {
				continue
			}
			seen[key] = true
			g.stats.Images++
			if im.mixed {
				g.stats.Torn++
			}
			// all-old: the image is exactly the last synced state (trivially so when no
			// sector is undetermined)
			strict := im.allOld
			if strict {
				g.stats.Strict++
			}
			if c.curCase != nil {
				c.curCase(fmt.Sprintf("gen2 %v k=%d %s", names, k, im.desc))
			}
			fs := c2.evalImage2(im.files, ws, strict)
			c.evals += c2.evals
			c2.evals = 0
			for i := range fs {
				fs[i].G2 = where(fmt.Sprintf("crash at %q (op %d), image %s, admissible prefix R + [%d,%d] of %d generation-2 records", o.label, o.op, im.desc, c2.lo-nR, c2.hi-nR, len(m2.recs)-nR))
				fs[i].Shape = c.shapeTag + " / g2:" + imageShape(o, im)
				out = append(out, fs[i])
			}
			if len(out) > 0 {
				return out
			}
		}
	}
	return out
}

// evalImage2 checks one generation-2 crash image against the model R + generation-2 records:
// the read-only reader and the write-mode restart path at the snapshot the node started from.
// strict: every sector of the image holds its durable content, so no torn write exists and
// Repair must not be needed.
func (c *evalCtx) evalImage2(files map[string][]byte, ws walpb.Snapshot, strict bool) []finding {
	var out []finding
	walDir := filepath.Join(c.scratch, "wal")
	if len(walNames(files)) == 0 {
		return append(out, finding{Kind: "lost-acked-entry", Cmd: "gen2:Exist", Detail: "no segment file present in a generation-2 image"})
	}
	c.disk.dirtyWal = true
	if err := c.disk.materialize(files); err != nil {
		panic(err)
	}
	{
		var r readRes
		var w *wal.WAL
		p, msg, fn := callSafe(func() {
			w, r.err = wal.OpenForRead(nop, walDir, ws)
			if r.err != nil {
				return
			}
			r.meta, r.st, r.ents, r.err = w.ReadAll()
		})
		c.evals++
		if w != nil {
			callSafe(func() { w.Close() })
		}
		switch {
		case p:
			out = append(out, finding{Kind: "panic", Cmd: "gen2:OpenForRead+ReadAll", Func: fn, Detail: "panic: " + msg})
		case r.err != nil:
			c.class("g2:read:err:" + errClass(r.err))
			out = append(out, finding{Kind: "reader-error-on-torn-tail", Cmd: "gen2:OpenForRead+ReadAll", Detail: "error " + r.err.Error()})
		default:
			if f := c.checkRead("gen2:OpenForRead+ReadAll", "g2:read", r, ws.Index, 0); f != nil {
				out = append(out, *f)
			}
		}
	}
	if strict {
		// nothing unsynced: the first ReadAll must succeed
		var r readRes
		var w *wal.WAL
		p, msg, fn := callSafe(func() {
			w, r.err = wal.Open(nop, walDir, ws)
			if r.err != nil {
				return
			}
			r.meta, r.st, r.ents, r.err = w.ReadAll()
		})
		c.evals++
		c.disk.dirtyWal = true
		switch {
		case p:
			if w != nil {
				callSafe(func() { w.Close() })
			}
			return append(out, finding{Kind: "panic", Cmd: "gen2:Open+ReadAll", Func: fn, Detail: "panic: " + msg})
		case r.err != nil:
			if w != nil {
				w.Close()
			}
			c.class("g2:write:strict:err:" + errClass(r.err))
			rep := ""
			if r.err == io.ErrUnexpectedEOF {
				rep = " (a torn tail is reported although every write had been synced)"
			}
			return append(out, finding{Kind: "failure-without-fault", Cmd: "gen2:Open+ReadAll", Detail: fmt.Sprintf("no unsynced sector at this point, yet Open+ReadAll fails: %v%s", r.err, rep)})
		}
		if f := c.checkRead("gen2:Open+ReadAll", "g2:write:strict", r, ws.Index, 0); f != nil {
			w.Close()
			return append(out, *f)
		}
		if f := c.continueAfter(w, walDir, ws, r, 0); f != nil {
			f.Cmd = "gen2:" + f.Cmd
			out = append(out, *f)
		}
		return out
	}
	w, r, repaired, f := c.openWrite(walDir, ws, "g2")
	c.evals++
	if f != nil {
		f.Cmd = "gen2:" + f.Cmd
		return append(out, *f)
	}
	if w == nil {
		c.class("g2:write:err:" + errClass(r.err))
		kind := "reader-error-on-torn-tail"
		if repaired {
			kind = "unrepairable-torn-tail"
		}
		return append(out, finding{Kind: kind, Cmd: "gen2:Open+ReadAll", Detail: fmt.Sprintf("error %v (repaired=%v)", r.err, repaired)})
	}
	if r.err != nil {
		w.Close()
		return append(out, finding{Kind: "altered-data", Cmd: "gen2:Open+ReadAll", Detail: "error " + r.err.Error()})
	}
	tag := "g2:write"
	if repaired {
		tag += ":repaired"
	}
	if f := c.checkRead("gen2:Open+ReadAll", tag, r, ws.Index, 0); f != nil {
		w.Close()
		return append(out, *f)
	}
	if f := c.continueAfter(w, walDir, ws, r, 0); f != nil {
		f.Cmd = "gen2:" + f.Cmd
		out = append(out, *f)
	}
	return out
}

// g2Describe renders the generation-2 bounds for the evidence rule text.
func g2Describe(cfg *g2task) string {
	var hs []string
	for _, h := range cfg.Hists {
		hs = append(hs, "["+strings.Join(h, " ")+"]")
	}
	big := bigShapes()
	var bn []string
	for n, sz := range big {
		bn = append(bn, fmt.Sprintf("%s=%dB", n, sz))
	}
	sort.Strings(bn)
	return fmt.Sprintf("second generation: from every distinct recovered state (<= %d per task) of the generation-1 images of the big-record base histories (segment %d; thorough: also the long histories), "+
		"the second histories %s run on the recovered WAL; oracle (i) clean reopen without Repair returns exactly R + all generation-2 records, (ii) every generation-2 observation x sector choices (all subsets up to %d undetermined sectors, above: tied + interval families) "+
		"must read back replay(R + q records), acknowledged <= q <= written, Repair allowed only if some sector is undetermined; payload shapes > 4096 B: %s",
		cfg.MaxStates, g2BaseSeg, strings.Join(hs, " "), cfg.Bits, strings.Join(bn, " "))
}
