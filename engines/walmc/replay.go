//go:build verif

package main

import (
	"encoding/json"
	"fmt"
	"os"
)

// replayFile re-executes the case of a violation file straight-line, twice.
func replayFile(path string) int {
	b, err := os.ReadFile(path)
	if err != nil {
		fmt.Fprintln(os.Stderr, err)
		return 2
	}
	var v struct {
		Kind   string
		Cmd    string
		Detail string
		Replay replayDoc
	}
	if err := json.Unmarshal(b, &v); err != nil {
		fmt.Fprintln(os.Stderr, err)
		return 2
	}
	os.Setenv("WALMC_PARENT", fmt.Sprintf("replay%d", os.Getpid()))
	defer os.RemoveAll(workerScratch())
	repro := 0
	for round := 0; round < 2; round++ {
		res := result{Classes: map[string]int{}}
		d := v.Replay
		fmt.Printf("round %d: mode=%s seg=%d history=%v\n", round, d.Mode, d.Seg, d.Ops)
		if d.Mode == "crash" {
			fmt.Printf("  crash point %d (%s), image %s\n", d.Point, d.PointAt, d.Image)
			if d.G2Case != "" {
				fmt.Printf("  second generation: %s\n", d.G2Case)
			}
		} else {
			fmt.Printf("  flip %s offset %d mask 0x%02x\n", d.File, d.Off, d.Mask)
		}
		doSingle(&d, &res, round == 0)
		if res.Err != "" {
			fmt.Println("  error:", res.Err)
			os.RemoveAll(workerScratch())
			return 2
		}
		fmt.Printf("  result classes: %v\n", res.Classes)
		hit := false
		for _, f := range res.Findings {
			fmt.Printf("    -> %s [%s] %s: %s\n", f.F.Kind, f.F.Cmd, f.F.Shape, f.F.Detail)
			if f.F.Kind == v.Kind && f.F.Cmd == v.Cmd {
				hit = true
			}
		}
		if hit {
			repro++
		}
	}
	fmt.Printf("reproduced %d/2\n", repro)
	os.RemoveAll(workerScratch())
	if repro == 2 {
		return 1
	}
	return 0
}
