//go:build verif

// Single-byte corruption enumeration on the final image of a history.
package main

import (
	"encoding/binary"
	"fmt"
	"path/filepath"
	"sort"
	"strings"
	"time"
)

func corruptCtx(r *runner, classes map[string]int, scratch string) *evalCtx {
	return &evalCtx{m: r.m, lo: 0, hi: len(r.m.recs), corrupt: true, created: true, scratch: scratch, classes: classes,
		ackSnap: r.m.ackedSnap, walSnap: r.m.walSnapAck}
}

var recTypeName = map[uint64]string{1: "metadata", 2: "entry", 3: "state", 4: "crc", 5: "snapshot"}

// labelWAL labels every byte of a segment file with the record type and field it belongs to.
// structural[i] is true for frame-length, record-header and padding bytes.
func labelWAL(b []byte) (labels []string, structural []bool, written int) {
	labels = make([]string, len(b))
	structural = make([]bool, len(b))
	off := 0
	uvarint := func(p int) (uint64, int) {
		v, n := binary.Uvarint(b[p:])
		if n <= 0 {
			return 0, 1
		}
		return v, n
	}
	for off+8 <= len(b) {
		l := binary.LittleEndian.Uint64(b[off:])
		if l == 0 {
			break
		}
		recBytes := int(l & ^(uint64(0xff) << 56))
		pad := 0
		if int64(l) < 0 {
			pad = int((l >> 56) & 7)
		}
		if off+8+recBytes+pad > len(b) {
			break
		}
		// find the type first
		tname := "rec"
		p := off + 8
		end := p + recBytes
		type span struct {
			lo, hi int
			f      string
			st     bool
		}
		var spans []span
		for p < end {
			tag := b[p]
			switch tag {
			case 0x08:
				v, n := uvarint(p + 1)
				if nm, ok := recTypeName[v]; ok {
					tname = nm
				}
				spans = append(spans, span{p, p + 1, "type-tag", true}, span{p + 1, p + 1 + n, "type", true})
				p += 1 + n
			case 0x10:
				_, n := uvarint(p + 1)
				spans = append(spans, span{p, p + 1, "crc-tag", true}, span{p + 1, p + 1 + n, "crc", true})
				p += 1 + n
			case 0x1a:
				v, n := uvarint(p + 1)
				spans = append(spans, span{p, p + 1, "data-tag", true}, span{p + 1, p + 1 + n, "data-len", true}, span{p + 1 + n, p + 1 + n + int(v), "data", false})
				p += 1 + n + int(v)
			default:
				spans = append(spans, span{p, end, "unknown", true})
				p = end
			}
		}
		for i := off; i < off+8; i++ {
			labels[i] = tname + ".frame-len"
			structural[i] = true
		}
		for _, s := range spans {
			for i := s.lo; i < s.hi && i < len(b); i++ {
				labels[i] = tname + "." + s.f
				structural[i] = s.st
			}
		}
		for i := end; i < end+pad; i++ {
			labels[i] = tname + ".pad"
			structural[i] = true
		}
		off = end + pad
	}
	written = off
	for i := off; i < len(b); i++ {
		labels[i] = "zero-tail"
		if i < off+8 {
			labels[i] = "zero-tail.next-frame-len"
			structural[i] = true
		}
	}
	return
}

// extents: for every relevant file of the final image, the number of leading bytes to flip
// (written area + 64 bytes of the zero tail for segments, the whole file for snapshots).
func extents(final map[string][]byte) map[string]int {
	out := map[string]int{}
	for p, b := range final {
		if strings.HasSuffix(p, ".wal") {
			_, _, w := labelWAL(b)
			n := w + 64
			if n > len(b) {
				n = len(b)
			}
			out[p] = n
		} else {
			out[p] = len(b)
		}
	}
	return out
}

func evalCorruption(c *evalCtx, final map[string][]byte, file string, off int, mask byte) ([]finding, bool) {
	orig, ok := final[file]
	if !ok || off >= len(orig) {
		return []finding{{Kind: "harness", Cmd: "corrupt", Detail: fmt.Sprintf("no byte %d in %s", off, file)}}, false
	}
	files := make(map[string][]byte, len(final))
	for p, b := range final {
		files[p] = b
	}
	mod := append([]byte{}, orig...)
	mod[off] ^= mask
	files[file] = mod
	shape := "corrupt:snap"
	hit := true
	if strings.HasSuffix(file, ".wal") {
		labels, _, w := labelWAL(orig)
		hit = off < w
		shape = "corrupt:" + labels[off]
		if strings.HasSuffix(labels[off], ".type") {
			to, ok := recTypeName[uint64(mod[off])]
			if !ok {
				to = "invalid"
			}
			shape += "->" + to
		}
	}
	c.shapeTag = shape
	return c.evalImage(files), hit
}

// cache of the last long history executed by this worker
var cacheKey string
var cacheRun *runner

func runCached(root string, seg int64, opsN []string) (*runner, error) {
	key := fmt.Sprintf("%d|%s", seg, strings.Join(opsN, ","))
	if key == cacheKey && cacheRun != nil {
		return cacheRun, nil
	}
	ops, err := parseOps(opsN)
	if err != nil {
		return nil, err
	}
	r, err := runHistory(filepath.Join(root, "h"), seg, ops)
	if err != nil {
		return nil, err
	}
	cacheKey, cacheRun = key, r
	return r, nil
}

func doCorrupt(t *task, res *result, progress func()) {
	root := workerScratch()
	r, err := runCached(root, t.Seg, t.Ops)
	if _, ok := err.(*apiError); ok {
		// reported by the crash task of the same history
		res.Skipped = false
		return
	}
	if err != nil {
		res.Err = "history " + histLabel(t) + ": " + err.Error()
		return
	}
	final := r.rec.finalImage()
	if t.File == "" {
		// extent probe
		ex := extents(final)
		var names []string
		for p := range ex {
			names = append(names, p)
		}
		sort.Strings(names)
		for _, p := range names {
			res.Samples = append(res.Samples, fmt.Sprintf("%s %d", p, ex[p]))
		}
		res.Cuts = r.m.seg
		return
	}
	var structural []bool
	if strings.HasSuffix(t.File, ".wal") {
		_, structural, _ = labelWAL(final[t.File])
	}
	c := corruptCtx(r, res.Classes, filepath.Join(root, "i"))
	for off := t.From; off < t.To; off++ {
		if t.Deadline > 0 && time.Now().UnixMilli() > t.Deadline {
			res.Skipped = true
			break
		}
		masks := t.Masks
		if len(t.HdrMasks) > 0 && ((structural == nil && off < 12) || (structural != nil && off < len(structural) && structural[off])) {
			masks = t.HdrMasks
		}
		for _, m := range masks {
			if m == 0 {
				// "zero the byte": the mask is the byte's own value
				if b := final[t.File]; off < len(b) {
					m = int(b[off])
				}
				if m == 0 {
					continue
				}
			}
			announce(replayDoc{Mode: "corrupt", Seg: t.Seg, Ops: t.Ops, Long: t.Long, File: t.File, Off: off, Mask: m})
			fs, hit := evalCorruption(c, final, t.File, off, byte(m))
			res.Cases++
			if hit {
				res.HitWritten++
			}
			if len(res.Samples) < 1 && hit && off == t.From {
				res.Samples = append(res.Samples, fmt.Sprintf("history %s; flip %s offset %d mask 0x%02x (%s)", histLabel(t), t.File, off, m, c.shapeTag))
			}
			for _, f := range fs {
				if len(res.Findings) < 40 {
					res.Findings = append(res.Findings, vio{F: f, Replay: replayDoc{Mode: "corrupt", Seg: t.Seg, Ops: t.Ops, Long: t.Long,
						File: t.File, Off: off, Mask: m, Expect: "an error, or an unmodified prefix of what was written", Observe: f.Detail}})
				}
			}
		}
		progress()
	}
	res.Evals = c.evals
}
