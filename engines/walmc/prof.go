//go:build verif

package main

import (
	"io"
	"runtime/pprof"
)

func pprofStart(w io.Writer) { pprof.StartCPUProfile(w) }
func pprofStop()             { pprof.StopCPUProfile() }
