//go:build verif

// Worker side: one task = one history (crash points of its last operation, or of all
// operations for the long histories), or one offset range of a corruption enumeration, or a
// single case re-executed for confirmation / replay.
package main

import (
	"encoding/json"
	"fmt"
	"os"
	"path/filepath"
	"runtime"
	"runtime/debug"
	"sort"
	"strings"
	"time"
)

type task struct {
	Kind     string   `json:"kind"` // crash | corrupt | single
	Seg      int64    `json:"seg"`
	Ops      []string `json:"ops"`
	Long     string   `json:"long,omitempty"`
	All      bool     `json:"all,omitempty"` // crash points of every operation (long histories)
	FromOp   int      `json:"from_op"`       // with All: only crash points whose in-flight op is in [FromOp,ToOp)
	ToOp     int      `json:"to_op"`
	MaxBits  int      `json:"max_bits"`
	Deadline int64    `json:"deadline_ms"`
	// corrupt
	File  string `json:"file,omitempty"`
	From  int    `json:"from,omitempty"`
	To    int    `json:"to,omitempty"`
	Masks []int  `json:"masks,omitempty"`
	// masks applied only to structural bytes (frame length, record header, padding)
	HdrMasks []int `json:"hdr_masks,omitempty"`
	// single
	Single *replayDoc `json:"single,omitempty"`
	// second generation (gen2.go): run from the images of this task
	G2 *g2task `json:"g2,omitempty"`
}

// replayDoc identifies one evaluated case completely.
type replayDoc struct {
	Mode    string   `json:"mode"` // crash | corrupt
	Seg     int64    `json:"segment_size_bytes"`
	Ops     []string `json:"history"`
	Long    string   `json:"long_history,omitempty"`
	MaxBits int      `json:"max_bits,omitempty"`
	Point   int      `json:"crash_point,omitempty"` // observation index k
	PointAt string   `json:"crash_point_label,omitempty"`
	Image   string   `json:"image,omitempty"` // deterministic description of the sector choice
	File    string   `json:"file,omitempty"`
	Off     int      `json:"offset,omitempty"`
	Mask    int      `json:"mask,omitempty"`
	Expect  string   `json:"expected,omitempty"`
	Observe string   `json:"observed,omitempty"`
	// second generation: configuration to re-run from the image, and the failing case
	G2     *g2task `json:"g2,omitempty"`
	G2Case string  `json:"g2_case,omitempty"`
}

type vio struct {
	F      finding   `json:"f"`
	Replay replayDoc `json:"replay"`
}

type result struct {
	Skipped      bool           `json:"skipped,omitempty"`
	Inapplicable bool           `json:"inapplicable,omitempty"`
	Err          string         `json:"err,omitempty"`
	Evals        int            `json:"evals"`
	Points       int            `json:"points"`
	TrivialPts   int            `json:"trivial_points"`
	Images       int            `json:"images"`
	Mixed        int            `json:"mixed"`
	Short        int            `json:"short"`
	Capped       int            `json:"capped"`
	MaxSectors   int            `json:"max_sectors"`
	Cuts         int            `json:"cuts"`
	Cases        int            `json:"cases"`       // corruption cases
	HitWritten   int            `json:"hit_written"` // corruption cases that hit a written byte
	Classes      map[string]int `json:"classes"`
	Findings     []vio          `json:"findings,omitempty"`
	Samples      []string       `json:"samples,omitempty"`
	Ms           int64          `json:"ms"`
	G2           *g2stats       `json:"g2,omitempty"`
	G2Tasks      int            `json:"g2_tasks,omitempty"`
}

var scratchRoot string
var curFile *os.File

func workerScratch() string {
	if scratchRoot == "" {
		scratchRoot = fmt.Sprintf("/dev/shm/walmc-%s-%d", os.Getenv("WALMC_PARENT"), os.Getpid())
		os.RemoveAll(scratchRoot)
		os.MkdirAll(scratchRoot, 0o755)
	}
	return scratchRoot
}

// announce records the case in flight so that the parent can attribute a dead worker.
func announce(d replayDoc) {
	if curFile == nil {
		return
	}
	s, _ := json.Marshal(d)
	n := len(s)
	if n < 1024 {
		n = 1024
	}
	b := make([]byte, n)
	copy(b, s)
	for i := len(s); i < len(b); i++ {
		b[i] = ' '
	}
	curFile.WriteAt(b, 0)
	if die := os.Getenv("WALMC_TEST_DIE"); die != "" && strings.Contains(string(s), die) {
		// self-test of the crash attribution path: behave like a runtime fatal error
		fmt.Fprintln(os.Stderr, "fatal error: WALMC_TEST_DIE")
		os.Exit(2)
	}
}

func curPath(t []byte) string {
	return fmt.Sprintf("/dev/shm/walmc-%s-cur/%x", os.Getenv("WALMC_PARENT"), shortHash(t))
}

var gcSet bool

func worker(tb []byte, progress func()) []byte {
	if !gcSet {
		debug.SetGCPercent(400)
		gcSet = true
	}
	var t task
	t0 := time.Now()
	res := result{Classes: map[string]int{}}
	if err := json.Unmarshal(tb, &t); err != nil {
		res.Err = err.Error()
		return mustJSON(res)
	}
	if t.Deadline > 0 && time.Now().UnixMilli() > t.Deadline {
		res.Skipped = true
		return mustJSON(res)
	}
	cp := curPath(tb)
	os.MkdirAll(filepath.Dir(cp), 0o755)
	curFile, _ = os.Create(cp)
	defer func() {
		if curFile != nil {
			curFile.Close()
			curFile = nil
		}
		os.Remove(cp)
	}()
	switch t.Kind {
	case "crash":
		doCrash(&t, &res, progress)
	case "corrupt":
		doCorrupt(&t, &res, progress)
	case "single":
		doSingle(t.Single, &res, false)
	default:
		res.Err = "unknown task kind " + t.Kind
	}
	fdHygiene()
	res.Ms = time.Since(t0).Milliseconds()
	return mustJSON(res)
}

func mustJSON(v interface{}) []byte {
	b, err := json.Marshal(v)
	if err != nil {
		panic(err)
	}
	return b
}

var fdCheck int

// fdHygiene: readers that return an error do not always close their files; the descriptors
// are released by finalizers, which only run after a collection.
func fdHygiene() {
	fdCheck++
	if fdCheck%64 != 0 {
		return
	}
	ents, err := os.ReadDir("/proc/self/fd")
	if err == nil && len(ents) > 300 {
		runtime.GC()
		time.Sleep(2 * time.Millisecond)
	}
}

// ---------------------------------------------------------------- crash enumeration

func ctxFor(r *runner, k int, classes map[string]int, scratch string) *evalCtx {
	o := r.rec.obs[k]
	prev := r.rec.obs[k-1]
	slot := o.op + 1
	if slot >= len(r.totalRec) {
		slot = len(r.totalRec) - 1
	}
	c := &evalCtx{m: r.m, lo: prev.ackRecs, hi: r.totalRec[slot], ackSnap: prev.ackSnap, walSnap: prev.walSnap,
		created: k-1 >= r.retObs[0], scratch: scratch, classes: classes}
	return c
}

func histLabel(t *task) string {
	if t.Long != "" {
		return t.Long
	}
	return fmt.Sprintf("seg=%d [%s]", t.Seg, strings.Join(t.Ops, " "))
}

func doCrash(t *task, res *result, progress func()) {
	ops, err := parseOps(t.Ops)
	if err != nil {
		res.Err = err.Error()
		return
	}
	root := workerScratch()
	r, err := runHistory(filepath.Join(root, "h"), t.Seg, ops)
	if err == errInapplicable {
		res.Inapplicable = true
		return
	}
	if ae, ok := err.(*apiError); ok {
		res.Findings = append(res.Findings, vio{F: finding{Kind: "failure-without-fault", Cmd: ae.call, Shape: "no-fault", Detail: ae.Error()},
			Replay: replayDoc{Mode: "crash", Seg: t.Seg, Ops: t.Ops, Long: t.Long, Point: -1}})
		return
	}
	if err != nil {
		res.Err = "history " + histLabel(t) + ": " + err.Error()
		return
	}
	if r.selfErr != "" {
		res.Findings = append(res.Findings, vio{F: finding{Kind: "altered-data", Cmd: "reopen(uncrashed)", Shape: "no-fault", Detail: r.selfErr},
			Replay: replayDoc{Mode: "crash", Seg: t.Seg, Ops: t.Ops, Long: t.Long, Point: -1}})
	}
	res.Cuts = r.m.seg
	// crash points to enumerate
	first := 1
	if !t.All && len(ops) > 0 {
		first = r.retObs[len(ops)-1] + 1 // after the return of the second-to-last call slot
	}
	seen := map[string]bool{}
	var g2 *g2state
	if t.G2 != nil {
		// one generation 2 per distinct recovered state of this task
		res.G2 = &g2stats{}
		res.G2Tasks = 1
		g2 = &g2state{cfg: t.G2, seg: t.Seg, seen: map[string]bool{}, stats: res.G2, progress: progress}
	}
	for k := first; k < len(r.rec.obs); k++ {
		o := r.rec.obs[k]
		if t.All && (o.op < t.FromOp || o.op >= t.ToOp) {
			continue
		}
		if t.Deadline > 0 && time.Now().UnixMilli() > t.Deadline {
			res.Skipped = true
			return
		}
		imgs, capped := r.rec.crashImages(k, t.MaxBits)
		res.Points++
		if capped {
			res.Capped++
		}
		c := ctxFor(r, k, res.Classes, filepath.Join(root, "i"))
		c.g2 = g2
		nontrivial := false
		for _, im := range imgs {
			if im.sectors > res.MaxSectors {
				res.MaxSectors = im.sectors
			}
			h := im.hash()
			key := fmt.Sprintf("%x|%d|%d|%d|%d|%v", h, c.lo, c.hi, c.ackSnap, c.walSnap, c.created)
			if seen[key] {
				continue
			}
			seen[key] = true
			res.Images++
			if im.mixed {
				res.Mixed++
				nontrivial = true
			}
			if im.short {
				res.Short++
			}
			announce(replayDoc{Mode: "crash", Seg: t.Seg, Ops: t.Ops, Long: t.Long, MaxBits: t.MaxBits, Point: k, PointAt: o.label, Image: im.desc, G2: t.G2})
			c.shapeTag = imageShape(o, im)
			fs := c.evalImage(im.files)
			if len(res.Samples) < 2 && im.mixed {
				res.Samples = append(res.Samples, fmt.Sprintf("history %s; crash at %q (op %d); image %s; admissible prefix [%d,%d] of %d records", histLabel(t), o.label, o.op, im.desc, c.lo, c.hi, len(r.m.recs)))
			}
			for _, f := range fs {
				if len(res.Findings) < 6 {
					d := replayDoc{Mode: "crash", Seg: t.Seg, Ops: t.Ops, Long: t.Long,
						MaxBits: t.MaxBits, Point: k, PointAt: o.label, Image: im.desc,
						Expect: fmt.Sprintf("replay of the first p records, %d <= p <= %d", c.lo, c.hi), Observe: f.Detail}
					if f.G2 != "" {
						d.G2, d.G2Case = t.G2, f.G2
						d.Expect = "generation 2: replay of the recovered state + the first q generation-2 records, acknowledged <= q <= written"
					}
					res.Findings = append(res.Findings, vio{F: f, Replay: d})
				}
			}
		}
		if !nontrivial {
			res.TrivialPts++
		}
		res.Evals += c.evals
		progress()
	}
}

// imageShape: mechanical shape of a crash case for signatures (operation in flight + kind
// of image), independent of the concrete history.
func imageShape(o *observation, im *image) string {
	lab := o.label
	if i := strings.LastIndex(lab, ":"); i > 0 && strings.HasPrefix(lab, "hook:") {
		b := lab[i+1:]
		switch {
		case strings.HasSuffix(b, ".wal"):
			b = "wal"
		case strings.HasSuffix(b, ".tmp"):
			b = "tmp"
		case strings.HasSuffix(b, ".snap"):
			b = "snap"
		}
		lab = lab[:i+1] + b
	}
	if strings.HasPrefix(lab, "ret:") {
		if si, ok := shapeByName(lab[4:]); ok {
			switch shapes[si].Kind {
			case "snap", "reopen":
			default:
				lab = "ret:Save"
			}
		}
	}
	s := "crash@" + lab
	switch {
	case im.short:
		s += " short-file"
	case im.mixed:
		s += " torn"
	default:
		s += " whole"
	}
	return s
}

// doSingle re-executes one case straight-line.
func doSingle(d *replayDoc, res *result, verbose bool) {
	root := workerScratch()
	ops, err := parseOps(d.Ops)
	if err != nil {
		res.Err = err.Error()
		return
	}
	r, err := runHistory(filepath.Join(root, "h"), d.Seg, ops)
	if ae, ok := err.(*apiError); ok {
		res.Findings = append(res.Findings, vio{F: finding{Kind: "failure-without-fault", Cmd: ae.call, Shape: "no-fault", Detail: ae.Error()}, Replay: *d})
		return
	}
	if err != nil {
		res.Err = err.Error()
		return
	}
	if verbose {
		for i, o := range r.rec.obs {
			fmt.Printf("  obs %2d op %2d %-40s acked=%d\n", i, o.op, o.label, o.ackRecs)
		}
	}
	switch d.Mode {
	case "crash":
		if d.Point < 0 {
			if r.selfErr != "" {
				res.Findings = append(res.Findings, vio{F: finding{Kind: "altered-data", Cmd: "reopen(uncrashed)", Shape: "no-fault", Detail: r.selfErr}, Replay: *d})
			}
			return
		}
		if d.Point >= len(r.rec.obs) {
			res.Err = "crash point out of range"
			return
		}
		mb := d.MaxBits
		if mb == 0 {
			mb = 12
		}
		imgs, _ := r.rec.crashImages(d.Point, mb)
		c := ctxFor(r, d.Point, res.Classes, filepath.Join(root, "i"))
		if d.G2 != nil {
			res.G2 = &g2stats{}
			c.g2 = &g2state{cfg: d.G2, seg: d.Seg, seen: map[string]bool{}, stats: res.G2, verbose: verbose}
		}
		found := false
		for _, im := range imgs {
			if im.desc != d.Image {
				continue
			}
			found = true
			c.shapeTag = imageShape(r.rec.obs[d.Point], im)
			if verbose {
				var names []string
				for n, b := range im.files {
					names = append(names, fmt.Sprintf("%s(%dB)", n, len(b)))
				}
				sort.Strings(names)
				fmt.Printf("  image %s: %v, admissible prefix [%d,%d]\n", im.desc, names, c.lo, c.hi)
			}
			for _, f := range c.evalImage(im.files) {
				res.Findings = append(res.Findings, vio{F: f, Replay: *d})
			}
			break
		}
		if !found {
			res.Err = "image description not found at that crash point: " + d.Image
		}
		res.Evals = c.evals
	case "corrupt":
		final := r.rec.finalImage()
		c := corruptCtx(r, res.Classes, filepath.Join(root, "i"))
		fs, _ := evalCorruption(c, final, d.File, d.Off, byte(d.Mask))
		for _, f := range fs {
			res.Findings = append(res.Findings, vio{F: f, Replay: *d})
		}
		res.Evals = c.evals
	}
}
