//go:build verif

// Disk model: observations of the scratch directory at every durability callback and API
// return, per-inode durable bases, and enumeration of the crash images possible at a crash
// point (every subset of the unsynced 512-byte sectors).
package main

import (
	"bytes"
	"crypto/sha1"
	"fmt"
	"os"
	"path/filepath"
	"sort"
	"strings"
	"sync"
	"syscall"

	"go.etcd.io/etcd/client/pkg/v3/fileutil"
)

const sector = 512

type fobs struct {
	path string // relative to root
	data []byte
}

type observation struct {
	label   string
	op      int    // history operation in flight (-1 Create, len(ops) final Close)
	hook    bool   // taken at the top of Fsync/Fdatasync
	syncIno uint64 // inode being synced (0: none)
	// durable: everything this observation holds is on stable storage (the first observation
	// of a second generation: the directory as the crash + recovery left it)
	durable bool
	files   map[uint64]*fobs
	// acknowledgement levels in force from this observation on
	ackRecs          int
	ackSnap, walSnap uint64
}

type recorder struct {
	mu    sync.Mutex
	root  string
	obs   []*observation
	curOp int
	ack   func() (int, uint64, uint64)
}

func newRecorder(root string) *recorder { return &recorder{root: root} }

func (r *recorder) install() {
	fileutil.VerifSyncHook = func(op string, f *os.File) { r.observe("hook:"+op, f) }
}
func (r *recorder) uninstall() { fileutil.VerifSyncHook = nil }

func inoOf(fi os.FileInfo) uint64 {
	if st, ok := fi.Sys().(*syscall.Stat_t); ok {
		return st.Ino
	}
	return 0
}

func (r *recorder) observe(label string, f *os.File) {
	r.mu.Lock()
	defer r.mu.Unlock()
	o := &observation{label: label, op: r.curOp, files: map[uint64]*fobs{}}
	if r.ack != nil {
		o.ackRecs, o.ackSnap, o.walSnap = r.ack()
	}
	if f != nil {
		o.hook = true
		if fi, err := f.Stat(); err == nil && fi.Mode().IsRegular() {
			o.syncIno = inoOf(fi)
			o.label += ":" + filepath.Base(f.Name())
		} else {
			o.label += ":dir"
		}
	}
	var prev *observation
	if len(r.obs) > 0 {
		prev = r.obs[len(r.obs)-1]
	}
	for _, sub := range []string{"wal", "wal.tmp", "snap"} {
		ents, err := os.ReadDir(filepath.Join(r.root, sub))
		if err != nil {
			continue
		}
		for _, e := range ents {
			if e.IsDir() {
				continue
			}
			p := filepath.Join(r.root, sub, e.Name())
			fi, err := os.Stat(p)
			if err != nil {
				continue
			}
			b, err := os.ReadFile(p)
			if err != nil {
				continue
			}
			ino := inoOf(fi)
			if prev != nil {
				if pf := prev.files[ino]; pf != nil && bytes.Equal(pf.data, b) {
					b = pf.data
				}
			}
			o.files[ino] = &fobs{path: sub + "/" + e.Name(), data: b}
		}
	}
	r.obs = append(r.obs, o)
}

// relevant: files that are part of the stored state the property talks about.
func relevant(path string) bool {
	return (strings.HasPrefix(path, "wal/") && strings.HasSuffix(path, ".wal")) ||
		(strings.HasPrefix(path, "snap/") && strings.HasSuffix(path, ".snap"))
}

// image is one possible content of the directory after a crash.
type image struct {
	files   map[string][]byte
	desc    string // deterministic description of the choice (replay key)
	mixed   bool   // differs from both the all-old and the all-new image
	allOld  bool   // every sector holds its durable content: nothing unsynced reached the disk
	short   bool   // a file is shorter than its newest version (size-follows-data variant)
	sectors int    // number of undetermined sectors at this crash point
}

func (im *image) hash() [20]byte {
	h := sha1.New()
	var names []string
	for n := range im.files {
		names = append(names, n)
	}
	sort.Strings(names)
	for _, n := range names {
		fmt.Fprintf(h, "%s\x00%d\x00", n, len(im.files[n]))
		h.Write(im.files[n])
	}
	var out [20]byte
	copy(out[:], h.Sum(nil))
	return out
}

// fileChoice is the enumeration state of one file at a crash point.
type fileChoice struct {
	ino     uint64
	path    string
	maxSize int
	baseSz  int
	// per sector: the distinct candidate contents (index 0 = durable base)
	opts [][][]byte
	vary []int // sector numbers with more than one candidate
}

func sectorOf(b []byte, s int) []byte {
	lo := s * sector
	if lo >= len(b) {
		return nil
	}
	hi := lo + sector
	if hi > len(b) {
		hi = len(b)
	}
	return b[lo:hi]
}

// choiceFor builds the candidates of inode ino at crash point k: base = content at the last
// completed sync of that file (hooks at observations < k), versions = every content observed
// after that sync up to and including observation k.
func (r *recorder) choiceFor(ino uint64, k int, path string) *fileChoice {
	var base []byte
	from := 0
	for j := k - 1; j >= 0; j-- {
		o := r.obs[j]
		if (o.hook && o.syncIno == ino) || o.durable {
			if f := o.files[ino]; f != nil {
				base = f.data
			}
			from = j + 1
			break
		}
	}
	var vers [][]byte
	for j := from; j <= k && j < len(r.obs); j++ {
		if f := r.obs[j].files[ino]; f != nil {
			dup := false
			for _, v := range vers {
				if bytes.Equal(v, f.data) {
					dup = true
					break
				}
			}
			if !dup && !(base != nil && bytes.Equal(base, f.data)) {
				vers = append(vers, f.data)
			}
		}
	}
	fc := &fileChoice{ino: ino, path: path, baseSz: len(base)}
	fc.maxSize = len(base)
	for _, v := range vers {
		if len(v) > fc.maxSize {
			fc.maxSize = len(v)
		}
	}
	ns := (fc.maxSize + sector - 1) / sector
	for s := 0; s < ns; s++ {
		cands := [][]byte{sectorOf(base, s)}
		for _, v := range vers {
			c := sectorOf(v, s)
			dup := false
			for _, x := range cands {
				if bytes.Equal(x, c) {
					dup = true
					break
				}
			}
			if !dup {
				cands = append(cands, c)
			}
		}
		fc.opts = append(fc.opts, cands)
		if len(cands) > 1 {
			fc.vary = append(fc.vary, s)
		}
	}
	return fc
}

// build assembles the file for a pick vector (pick[i] = candidate index of sector vary[i]).
// zfill: size = newest size with zero fill; otherwise the size follows the data present.
func (fc *fileChoice) build(pick []int, zfill bool) []byte {
	out := make([]byte, fc.maxSize)
	size := 0
	vi := 0
	for s := range fc.opts {
		c := fc.opts[s][0]
		if vi < len(fc.vary) && fc.vary[vi] == s {
			c = fc.opts[s][pick[vi]]
			vi++
		}
		copy(out[s*sector:], c)
		if len(c) > 0 && s*sector+len(c) > size {
			size = s*sector + len(c)
		}
	}
	if zfill {
		return out
	}
	if size < fc.baseSz {
		size = fc.baseSz
	}
	return out[:size]
}

// crashImages enumerates the images possible when the machine dies at crash point k: some
// instant after observation k-1 (all syncs hooked before k have completed) and not later
// than observation k (a sync hooked at k may be in progress).
// maxBits bounds the exhaustive part: with more undetermined sectors, all subsets of the
// last maxBits sectors are combined with {all, none} of the earlier ones, and the interval
// patterns over all undetermined sectors are added (see intervalPicks): in particular every
// "the first i sectors of the unsynced write are lost, the rest persisted" image, which the
// tied {all, none} prefix alone only produces for i >= (sectors - maxBits).
func (r *recorder) crashImages(k int, maxBits int) (imgs []*image, capped bool) {
	cur := r.obs[k]
	prevNS := cur
	if k > 0 {
		prevNS = r.obs[k-1]
	}
	nsList := []*observation{cur}
	if !sameNamespace(prevNS, cur) {
		nsList = []*observation{prevNS, cur}
	}
	for nsi, ns := range nsList {
		var inos []uint64
		for ino, f := range ns.files {
			if relevant(f.path) {
				inos = append(inos, ino)
			}
		}
		sort.Slice(inos, func(a, b int) bool { return ns.files[inos[a]].path < ns.files[inos[b]].path })
		var fcs []*fileChoice
		totalVary := 0
		for _, ino := range inos {
			fc := r.choiceFor(ino, k, ns.files[ino].path)
			fcs = append(fcs, fc)
			totalVary += len(fc.vary)
		}
		// flatten the varying sectors of all files into one odometer
		var slots []slot
		for fi, fc := range fcs {
			for i, s := range fc.vary {
				slots = append(slots, slot{fi, i, len(fc.opts[s])})
			}
		}
		free := slots
		var tied []slot // earlier sectors: all-base or all-newest together
		nsCapped := false
		if len(slots) > maxBits {
			capped, nsCapped = true, true
			tied = slots[:len(slots)-maxBits]
			free = slots[len(slots)-maxBits:]
		}
		tiedModes := 1
		if len(tied) > 0 {
			tiedModes = 2
		}
		picks := make([][]int, len(fcs))
		for fi, fc := range fcs {
			picks[fi] = make([]int, len(fc.vary))
		}
		emitted := map[string]bool{}
		// emit builds the image(s) of the current pick vector (once per distinct vector)
		emit := func() {
			allOld, allNew := true, true
			for _, s := range slots {
				if picks[s.f][s.i] != 0 {
					allOld = false
				}
				if picks[s.f][s.i] != s.n-1 {
					allNew = false
				}
			}
			for _, zfill := range []bool{false, true} {
				im := &image{files: map[string][]byte{}, sectors: totalVary}
				var sb strings.Builder
				fmt.Fprintf(&sb, "k=%d ns=%d/%d z=%v", k, nsi, len(nsList), zfill)
				shortAny := false
				for fi, fc := range fcs {
					if len(fc.vary) > 0 {
						fmt.Fprintf(&sb, " %s:", fc.path)
						for i, s := range fc.vary {
							fmt.Fprintf(&sb, "%d=%d,", s, picks[fi][i])
						}
					}
				}
				desc := sb.String()
				if emitted[desc] {
					continue
				}
				emitted[desc] = true
				if zfill && !anyShort(fcs, picks) {
					continue // identical to the size-follows-data variant
				}
				for fi, fc := range fcs {
					b := fc.build(picks[fi], zfill)
					if len(b) < fc.maxSize {
						shortAny = true
					}
					im.files[fc.path] = b
				}
				im.short = shortAny
				im.mixed = !allOld && !allNew
				im.allOld = allOld
				im.desc = desc
				imgs = append(imgs, im)
			}
		}
		for tm := 0; tm < tiedModes; tm++ {
			for _, t := range tied {
				if tm == 0 {
					picks[t.f][t.i] = 0
				} else {
					picks[t.f][t.i] = t.n - 1
				}
			}
			idx := make([]int, len(free))
			for {
				for j, s := range free {
					picks[s.f][s.i] = idx[j]
				}
				emit()
				// next
				j := len(idx) - 1
				for ; j >= 0; j-- {
					idx[j]++
					if idx[j] < free[j].n {
						break
					}
					idx[j] = 0
				}
				if j < 0 {
					break
				}
			}
		}
		if nsCapped {
			intervalPicks(slots, picks, emit)
		}
	}
	return imgs, capped
}

// slot is one undetermined sector of the flattened (file order, then offset order) sequence.
type slot struct{ f, i, n int }

// intervalPicks enumerates the two interval families over the undetermined sectors in file
// offset order (old = durable base, new = newest observed content):
//
//	lost run: sectors [i,j) old, all others new   (a hole; i = 0: the LEADING sectors of the
//	          unsynced write are lost while the later ones persisted; j = n: a lost suffix)
//	kept run: sectors [i,j) new, all others old   (only a middle part persisted)
//
// for every 0 <= i < j <= n: n(n+1) pick vectors instead of 2^n.
func intervalPicks(slots []slot, picks [][]int, emit func()) {
	n := len(slots)
	for fam := 0; fam < 2; fam++ {
		for i := 0; i < n; i++ {
			for j := i + 1; j <= n; j++ {
				for x, s := range slots {
					in := x >= i && x < j
					if in == (fam == 0) {
						picks[s.f][s.i] = 0
					} else {
						picks[s.f][s.i] = s.n - 1
					}
				}
				emit()
			}
		}
	}
}

func anyShort(fcs []*fileChoice, picks [][]int) bool {
	for fi, fc := range fcs {
		if len(fc.build(picks[fi], false)) < fc.maxSize {
			return true
		}
	}
	return false
}

func sameNamespace(a, b *observation) bool {
	na, nb := map[string]uint64{}, map[string]uint64{}
	for ino, f := range a.files {
		if relevant(f.path) {
			na[f.path] = ino
		}
	}
	for ino, f := range b.files {
		if relevant(f.path) {
			nb[f.path] = ino
		}
	}
	if len(na) != len(nb) {
		return false
	}
	for p, i := range na {
		if nb[p] != i {
			return false
		}
	}
	return true
}

// diskCache remembers what the scratch directory holds so that unchanged files are not
// rewritten between evaluations (the readers under test always see exactly the image).
type diskCache struct {
	dir               string
	have              map[string][]byte
	dirtyWal, dirtySn bool
	init              bool
}

func sameSlice(a, b []byte) bool {
	if len(a) != len(b) {
		return false
	}
	if len(a) == 0 {
		return true
	}
	return &a[0] == &b[0]
}

// materialize makes dir hold exactly the files of the image.
func (d *diskCache) materialize(files map[string][]byte) error {
	if !d.init {
		os.RemoveAll(d.dir)
		if err := os.MkdirAll(filepath.Join(d.dir, "snap"), 0o755); err != nil {
			return err
		}
		if err := os.MkdirAll(filepath.Join(d.dir, "wal"), 0o755); err != nil {
			return err
		}
		d.have = map[string][]byte{}
		d.init = true
	}
	for _, sub := range []string{"wal", "snap"} {
		dirty := d.dirtyWal
		if sub == "snap" {
			dirty = d.dirtySn
		}
		if !dirty {
			continue
		}
		ents, _ := os.ReadDir(filepath.Join(d.dir, sub))
		for _, e := range ents {
			os.Remove(filepath.Join(d.dir, sub, e.Name()))
			delete(d.have, sub+"/"+e.Name())
		}
		for p := range d.have {
			if strings.HasPrefix(p, sub+"/") {
				delete(d.have, p)
			}
		}
	}
	d.dirtyWal, d.dirtySn = false, false
	for p := range d.have {
		if _, ok := files[p]; !ok {
			os.Remove(filepath.Join(d.dir, p))
			delete(d.have, p)
		}
	}
	for p, b := range files {
		if old, ok := d.have[p]; ok && sameSlice(old, b) {
			continue
		}
		if err := os.WriteFile(filepath.Join(d.dir, p), b, 0o600); err != nil {
			return err
		}
		d.have[p] = b
	}
	return nil
}

// snapDirChanged marks the snapshot directory dirty if a reader renamed a file.
func (d *diskCache) snapDirChanged() {
	ents, _ := os.ReadDir(filepath.Join(d.dir, "snap"))
	n := 0
	for _, e := range ents {
		if !strings.HasSuffix(e.Name(), ".snap") {
			d.dirtySn = true
			return
		}
		n++
	}
	m := 0
	for p := range d.have {
		if strings.HasPrefix(p, "snap/") {
			m++
		}
	}
	if n != m {
		d.dirtySn = true
	}
}

// finalImage is the directory content at the last observation (relevant files only).
func (r *recorder) finalImage() map[string][]byte {
	out := map[string][]byte{}
	last := r.obs[len(r.obs)-1]
	for _, f := range last.files {
		if relevant(f.path) {
			out[f.path] = f.data
		}
	}
	return out
}
