//go:build verif

// Histories: sequences of real wal / snap API calls on a scratch directory, plus the logical
// record stream they write (the reference the recovery oracle compares with).
package main

import (
	"bytes"
	"fmt"
	"os"
	"path/filepath"
	"sort"
	"strings"

	"go.etcd.io/etcd/raft/v3/raftpb"
	"go.etcd.io/etcd/server/v3/etcdserver/api/snap"
	"go.etcd.io/etcd/server/v3/storage/wal"
	"go.etcd.io/etcd/server/v3/storage/wal/walpb"
	"go.uber.org/zap"
)

var nop = zap.NewNop()

var metadata = []byte("walmc-metadata\x00\xff\x01")

// ---------------------------------------------------------------- operation shapes

// payload contents
const (
	cZero = iota
	cFF
	cCounter
	// cFrame+r (r = 0..7): the 8-byte pattern 10 00 00 00 00 00 00 00 repeated, rotated by r.
	// Read at an 8-byte aligned file offset, leftover payload of this kind looks like a frame
	// header with a small plausible length (for the rotation that matches the payload's
	// alignment in the file, which depends on varint lengths: all 8 are enumerated), the
	// worst case for stale sectors that a later append runs into.
	cFrame
)

var framePattern = [8]byte{0x10, 0, 0, 0, 0, 0, 0, 0}

func payload(n int, content int, salt byte) []byte {
	b := make([]byte, n)
	switch content {
	case cFF:
		for i := range b {
			b[i] = 0xFF
		}
	case cCounter:
		for i := range b {
			b[i] = byte(i) + salt
		}
	default:
		if content >= cFrame && content < cFrame+8 {
			for i := range b {
				b[i] = framePattern[(i+content-cFrame)%8]
			}
		}
	}
	return b
}

// shape is one letter of the history alphabet.
type shape struct {
	Name  string
	Sizes []int // payload sizes of the entries appended (nil: no entries)
	// Content < 0: rotate with the position in the history
	Content  int
	NoState  bool   // append with an empty HardState
	LongOnly bool   // used by the hand-shaped histories only (not part of the enumerated alphabet)
	Kind     string // append | hs-commit | hs-term | overwrite | snap | reopen
}

var shapes = []shape{
	{Name: "a0", Kind: "append", Sizes: []int{0}, Content: -1},
	{Name: "a1", Kind: "append", Sizes: []int{1}, Content: -1},
	{Name: "a789", Kind: "append", Sizes: []int{7, 8, 9}, Content: -1},
	{Name: "a100ns", Kind: "append", Sizes: []int{100}, Content: -1, NoState: true},
	{Name: "a480", Kind: "append", Sizes: []int{480}, Content: -1},
	{Name: "a511", Kind: "append", Sizes: []int{511}, Content: -1},
	{Name: "a512", Kind: "append", Sizes: []int{512}, Content: -1},
	{Name: "a513", Kind: "append", Sizes: []int{513}, Content: -1},
	{Name: "a1100z", Kind: "append", Sizes: []int{1100}, Content: cZero},
	{Name: "a1100", Kind: "append", Sizes: []int{1100}, Content: -1},
	{Name: "hsC", Kind: "hs-commit"},
	{Name: "hsT", Kind: "hs-term"},
	{Name: "ow", Kind: "overwrite"},
	{Name: "snap", Kind: "snap"},
	{Name: "reopen", Kind: "reopen"},
	// big batches: many unsynced sectors at one crash point (exercise the subset cap)
	{Name: "a4x1100", Kind: "append", Sizes: []int{1100, 1100, 1100, 1100}, Content: -1, LongOnly: true},
	{Name: "a6x1100", Kind: "append", Sizes: []int{1100, 1100, 1100, 1100, 1100, 1100}, Content: -1, LongOnly: true},
	// records spanning more than one 4096-byte page (second-generation base histories, gen2.go)
	{Name: "a5kz", Kind: "append", Sizes: []int{5120}, Content: cZero, LongOnly: true},
	{Name: "a5kff", Kind: "append", Sizes: []int{5120}, Content: cFF, LongOnly: true},
	{Name: "a5kcn", Kind: "append", Sizes: []int{5120}, Content: cCounter, LongOnly: true},
	{Name: "a9kz", Kind: "append", Sizes: []int{9216}, Content: cZero, LongOnly: true},
	{Name: "a9kff", Kind: "append", Sizes: []int{9216}, Content: cFF, LongOnly: true},
	{Name: "a9kcn", Kind: "append", Sizes: []int{9216}, Content: cCounter, LongOnly: true},
	// one Save = a multi-page entry followed by small ones (whole stale frames behind the gap)
	{Name: "a5k789", Kind: "append", Sizes: []int{5120, 7, 8, 9}, Content: cCounter, LongOnly: true},
	// step of about 265 bytes: moves the append frontier of a second generation finely
	{Name: "a200", Kind: "append", Sizes: []int{200}, Content: -1, LongOnly: true},
}

func init() {
	// frame-like payloads, one shape per rotation: a5kf0..a5kf7, a9kf0..a9kf7
	for r := 0; r < 8; r++ {
		shapes = append(shapes,
			shape{Name: fmt.Sprintf("a5kf%d", r), Kind: "append", Sizes: []int{5120}, Content: cFrame + r, LongOnly: true},
			shape{Name: fmt.Sprintf("a9kf%d", r), Kind: "append", Sizes: []int{9216}, Content: cFrame + r, LongOnly: true})
	}
}

func shapeByName(n string) (int, bool) {
	for i := range shapes {
		if shapes[i].Name == n {
			return i, true
		}
	}
	return -1, false
}

// ---------------------------------------------------------------- logical record stream

const (
	rEntry = iota
	rState
	rSnap
)

// lrec is one logical record of the WAL in write order.
type lrec struct {
	Kind int
	Ent  raftpb.Entry
	St   raftpb.HardState
	Snap walpb.Snapshot
	Op   int  // index of the history operation that wrote it (-1: Create)
	Seg  int  // sequence number of the segment file it was written to
	Hdr  bool // state record repeated at the head of a new segment by cut()
}

// hmodel is the abstract state of the writer: what a well-behaved Raft node would pass to
// the WAL next, and what has been written so far.
type hmodel struct {
	term, vote, commit uint64
	last               uint64
	terms              []uint64 // term of entry i+1
	snapIdx, snapTerm  uint64
	pos                int              // operations applied so far (rotates payload contents)
	prevHS             raftpb.HardState // last non-empty HardState passed to Save (raft's view)
	wstate             raftpb.HardState // mirror of WAL.state (reset by reopen)
	recs               []lrec
	seg                int
	// ack bookkeeping
	ackedRecs       int               // number of leading records that completed calls were obliged to make durable
	ackedSnap       uint64            // newest snapshot index whose SaveSnap returned
	walSnapAck      uint64            // newest snapshot index whose SaveSnap and wal.SaveSnapshot both returned
	snaps           map[uint64][]byte // index -> marshalled raftpb.Snapshot written by SaveSnap
	commitOnlyLossy int
}

func newModel() *hmodel {
	m := &hmodel{term: 1, vote: 1, snaps: map[uint64][]byte{}}
	// Create writes snapshot{0,0}
	m.recs = append(m.recs, lrec{Kind: rSnap, Op: -1})
	return m
}

// applicable tells whether shape s makes sense in the current abstract state.
func (m *hmodel) applicable(s *shape) bool {
	switch s.Kind {
	case "hs-commit":
		return m.commit < m.last
	case "overwrite":
		return m.last > m.commit && m.last > m.snapIdx
	case "snap":
		return m.commit > m.snapIdx
	}
	return true
}

// step describes the concrete call(s) of one operation.
type step struct {
	Shape  int
	St     raftpb.HardState
	Ents   []raftpb.Entry
	Snap   *raftpb.Snapshot
	Reopen bool
}

// plan computes the concrete arguments of shape si in the current state and advances the
// abstract state (the record stream is extended by apply, after the real call).
func (m *hmodel) plan(si int) step {
	s := &shapes[si]
	st := step{Shape: si}
	content := func(j int) int {
		if s.Content >= 0 {
			return s.Content
		}
		return (m.pos + si + j) % 3
	}
	switch s.Kind {
	case "append":
		before := m.last
		for j, n := range s.Sizes {
			m.last++
			m.terms = append(m.terms, m.term)
			st.Ents = append(st.Ents, raftpb.Entry{Term: m.term, Index: m.last, Data: payload(n, content(j), byte(m.last*7))})
		}
		if !s.NoState {
			if before > m.commit {
				m.commit = before
			}
			st.St = raftpb.HardState{Term: m.term, Vote: m.vote, Commit: m.commit}
		}
	case "hs-commit":
		m.commit = m.last
		st.St = raftpb.HardState{Term: m.term, Vote: m.vote, Commit: m.commit}
	case "hs-term":
		// alternately a new term (with a vote) and a vote-only change within the term
		if m.pos%2 == 0 {
			m.term++
		}
		m.vote = m.vote%3 + 1
		st.St = raftpb.HardState{Term: m.term, Vote: m.vote, Commit: m.commit}
	case "overwrite":
		m.term++
		from := m.commit + 1
		if from <= m.snapIdx {
			from = m.snapIdx + 1
		}
		// rewrite the uncommitted suffix with entries of the new term, one entry longer or
		// shorter depending on the position so that both directions are exercised
		to := m.last
		if m.pos%2 == 1 && to > from {
			to--
		}
		m.terms = m.terms[:from-1]
		for i := from; i <= to; i++ {
			m.terms = append(m.terms, m.term)
			st.Ents = append(st.Ents, raftpb.Entry{Term: m.term, Index: i, Data: payload(9+int(i%3), cFF, 0)})
		}
		m.last = to
		st.St = raftpb.HardState{Term: m.term, Vote: m.vote, Commit: m.commit}
	case "snap":
		idx := m.commit
		sn := raftpb.Snapshot{
			Data: payload(600+int(idx%5)*37, cCounter, byte(idx)),
			Metadata: raftpb.SnapshotMetadata{
				Index:     idx,
				Term:      m.terms[idx-1],
				ConfState: raftpb.ConfState{Voters: []uint64{1, 2, 3}},
			},
		}
		st.Snap = &sn
		m.snapIdx, m.snapTerm = idx, sn.Metadata.Term
	case "reopen":
		st.Reopen = true
	}
	m.pos++
	return st
}

// record appends the records written by the call(s) of st to the logical stream.
func (m *hmodel) record(op int, st *step) {
	for i := range st.Ents {
		m.recs = append(m.recs, lrec{Kind: rEntry, Ent: st.Ents[i], Op: op, Seg: m.seg})
	}
	if !isEmptyHS(st.St) {
		m.recs = append(m.recs, lrec{Kind: rState, St: st.St, Op: op, Seg: m.seg})
	}
	if st.Snap != nil {
		m.recs = append(m.recs, lrec{Kind: rSnap, Op: op, Seg: m.seg,
			Snap: walpb.Snapshot{Index: st.Snap.Metadata.Index, Term: st.Snap.Metadata.Term}})
	}
}

func isEmptyHS(h raftpb.HardState) bool { return h.Term == 0 && h.Vote == 0 && h.Commit == 0 }

// mustSync is raft's contract (raft.MustSync), evaluated against the previous HardState the
// node handed to the WAL - independent of what the implementation decides to do.
func (m *hmodel) mustSync(st *step) bool {
	if len(st.Ents) > 0 {
		return true
	}
	if isEmptyHS(st.St) {
		return false
	}
	return st.St.Term != m.prevHS.Term || st.St.Vote != m.prevHS.Vote
}

// ---------------------------------------------------------------- execution on the real code

type runner struct {
	root    string
	walDir  string
	snapDir string
	w       *wal.WAL
	ss      *snap.Snapshotter
	m       *hmodel
	rec     *recorder
	seg     int64
	// per-operation bookkeeping: index of the observation taken at the return of op i
	retObs   []int
	totalRec []int // records written through call slot i (0 = Create, i+1 = op i, last = final Close)
	steps    []step
	selfErr  string // harness self-check failure on the uncrashed run (reopen read-back)
}

func countWalFiles(dir string) int {
	names, _ := os.ReadDir(dir)
	n := 0
	for _, e := range names {
		if strings.HasSuffix(e.Name(), ".wal") {
			n++
		}
	}
	return n
}

// runHistory executes Create + ops on a fresh scratch root and records every observation.
func runHistory(root string, seg int64, ops []int) (*runner, error) {
	os.RemoveAll(root)
	if err := os.MkdirAll(filepath.Join(root, "snap"), 0o755); err != nil {
		return nil, err
	}
	r := &runner{root: root, walDir: filepath.Join(root, "wal"), snapDir: filepath.Join(root, "snap"), m: newModel(), seg: seg}
	wal.SegmentSizeBytes = seg
	r.rec = newRecorder(root)
	r.rec.install()
	defer r.rec.uninstall()
	r.rec.curOp = -1
	r.rec.ack = func() (int, uint64, uint64) { return r.m.ackedRecs, r.m.ackedSnap, r.m.walSnapAck }
	r.m.ackedRecs = 0
	r.rec.observe("start", nil)
	w, err := wal.Create(nop, r.walDir, metadata)
	if err != nil {
		return nil, &apiError{"Create", r.rec.curOp, err}
	}
	r.w = w
	r.ss = snap.New(nop, r.snapDir)
	r.opDone("ret:Create", true)
	for i, si := range ops {
		if err := r.doOp(i, si); err != nil {
			return nil, err
		}
	}
	// final: Close is an operation of its own (acknowledges everything)
	r.rec.curOp = len(ops)
	if err := r.w.Close(); err != nil {
		return nil, &apiError{"Close", r.rec.curOp, err}
	}
	r.opDone("ret:Close(final)", true)
	r.rec.observe("end", nil)
	return r, nil
}

// doOp plans operation i (shape si) against the abstract state, performs the real call(s),
// extends the logical record stream and observes the return.
func (r *runner) doOp(i, si int) error {
	s := &shapes[si]
	if !r.m.applicable(s) {
		r.w.Close()
		return errInapplicable
	}
	r.rec.curOp = i
	st := r.m.plan(si)
	must := r.m.mustSync(&st)
	switch {
	case st.Reopen:
		if err := r.w.Close(); err != nil {
			return &apiError{"Close", r.rec.curOp, err}
		}
		r.m.ackedRecs = len(r.m.recs)
		r.rec.observe("ret:Close", nil)
		ws := walpb.Snapshot{Index: r.m.snapIdx, Term: r.m.snapTerm}
		if r.m.walSnapAck != r.m.snapIdx {
			ws = walpb.Snapshot{}
		}
		w, err := wal.Open(nop, r.walDir, ws)
		if err != nil {
			return &apiError{"Open", r.rec.curOp, err}
		}
		md, hs, ents, err := w.ReadAll()
		if err != nil {
			w.Close()
			return &apiError{"ReadAll", r.rec.curOp, err}
		}
		r.w = w
		// self-check of the uncrashed run
		exp := r.m.at(len(r.m.recs), ws.Index, startSegOf(dirWalNames(r.walDir), ws.Index))
		if !bytes.Equal(md, metadata) || !sameEnts(ents, exp.ents) || hs != exp.st {
			r.selfErr = fmt.Sprintf("uncrashed reopen after op %d read back %s, expected %s", i, descr(hs, ents), descr(exp.st, exp.ents))
		}
		r.m.wstate = raftpb.HardState{}
		must = true
	case st.Snap != nil:
		if err := r.ss.SaveSnap(*st.Snap); err != nil {
			return &apiError{"SaveSnap", r.rec.curOp, err}
		}
		b, _ := st.Snap.Marshal()
		r.m.snaps[st.Snap.Metadata.Index] = b
		r.m.ackedSnap = st.Snap.Metadata.Index
		r.rec.observe("ret:SaveSnap", nil)
		cs := st.Snap.Metadata.ConfState
		if err := r.w.SaveSnapshot(walpb.Snapshot{Index: st.Snap.Metadata.Index, Term: st.Snap.Metadata.Term, ConfState: &cs}); err != nil {
			return &apiError{"SaveSnapshot", r.rec.curOp, err}
		}
		r.m.record(i, &st)
		r.m.ackedRecs = len(r.m.recs)
		r.m.walSnapAck = st.Snap.Metadata.Index
		r.rec.observe("ret:SaveSnapshot", nil)
		if err := r.w.ReleaseLockTo(st.Snap.Metadata.Index); err != nil {
			return &apiError{"ReleaseLockTo", r.rec.curOp, err}
		}
		must = true
	default:
		if err := r.w.Save(st.St, st.Ents); err != nil {
			return &apiError{"Save", r.rec.curOp, err}
		}
		if !isEmptyHS(st.St) {
			r.m.prevHS = st.St
			r.m.wstate = st.St
		}
	}
	if st.Snap == nil {
		r.m.record(i, &st)
	}
	// did the call cut a new segment?
	if n := countWalFiles(r.walDir) - 1; n > r.m.seg {
		r.m.seg = n
		if !isEmptyHS(r.m.wstate) {
			r.m.recs = append(r.m.recs, lrec{Kind: rState, St: r.m.wstate, Op: i, Seg: n, Hdr: true})
		}
	}
	r.steps = append(r.steps, st)
	r.opDone("ret:"+s.Name, must)
	return nil
}

var errInapplicable = fmt.Errorf("inapplicable")

// apiError: a call of the code under test failed although no fault was injected.
type apiError struct {
	call string
	op   int
	err  error
}

func (e *apiError) Error() string {
	return fmt.Sprintf("%s (op %d) failed without any fault: %v", e.call, e.op, e.err)
}

// opDone stamps the acknowledgement levels reached by the completed call and observes.
func (r *runner) opDone(label string, must bool) {
	if must {
		r.m.ackedRecs = len(r.m.recs)
	}
	r.rec.observe(label, nil)
	r.retObs = append(r.retObs, len(r.rec.obs)-1)
	r.totalRec = append(r.totalRec, len(r.m.recs))
}

func dirWalNames(dir string) []string {
	ents, _ := os.ReadDir(dir)
	var out []string
	for _, e := range ents {
		if strings.HasSuffix(e.Name(), ".wal") {
			out = append(out, e.Name())
		}
	}
	sort.Strings(out)
	return out
}

// ---------------------------------------------------------------- reference reader

type expect struct {
	st    raftpb.HardState
	ents  []raftpb.Entry
	snaps []walpb.Snapshot // all snapshot records in the prefix
	gap   bool
}

// at replays the first p logical records the way a reader positioned at snapshot index
// startIdx, beginning with segment startSeg, must see them.
func (m *hmodel) at(p int, startIdx uint64, startSeg int) expect {
	var e expect
	for i := 0; i < p && i < len(m.recs); i++ {
		r := &m.recs[i]
		if r.Seg < startSeg {
			continue
		}
		switch r.Kind {
		case rEntry:
			if r.Ent.Index > startIdx {
				up := r.Ent.Index - startIdx - 1
				if up > uint64(len(e.ents)) {
					e.gap = true
					return e
				}
				e.ents = append(e.ents[:up:up], r.Ent)
			}
		case rState:
			e.st = r.St
		case rSnap:
			e.snaps = append(e.snaps, r.Snap)
		}
	}
	return e
}

func sameEnts(a, b []raftpb.Entry) bool {
	if len(a) != len(b) {
		return false
	}
	for i := range a {
		if a[i].Term != b[i].Term || a[i].Index != b[i].Index || a[i].Type != b[i].Type || !bytes.Equal(a[i].Data, b[i].Data) {
			return false
		}
	}
	return true
}

func descr(st raftpb.HardState, ents []raftpb.Entry) string {
	var sb strings.Builder
	fmt.Fprintf(&sb, "hs{t%d v%d c%d} ents[", st.Term, st.Vote, st.Commit)
	for i, e := range ents {
		if i > 0 {
			sb.WriteByte(' ')
		}
		if i >= 12 {
			fmt.Fprintf(&sb, "...+%d", len(ents)-i)
			break
		}
		fmt.Fprintf(&sb, "%d@t%d:%dB", e.Index, e.Term, len(e.Data))
	}
	sb.WriteByte(']')
	return sb.String()
}

func opNames(ops []int) []string {
	out := make([]string, len(ops))
	for i, o := range ops {
		out[i] = shapes[o].Name
	}
	return out
}

func parseOps(names []string) ([]int, error) {
	out := make([]int, len(names))
	for i, n := range names {
		j, ok := shapeByName(n)
		if !ok {
			return nil, fmt.Errorf("unknown op %q", n)
		}
		out[i] = j
	}
	return out, nil
}

// segment start indices, from file names
func walNames(files map[string][]byte) []string {
	var out []string
	for p := range files {
		if strings.HasPrefix(p, "wal/") && strings.HasSuffix(p, ".wal") {
			out = append(out, p[4:])
		}
	}
	sort.Strings(out)
	return out
}

// ---------------------------------------------------------------- hand-shaped long histories

type longHist struct {
	Name string
	Seg  int64
	Ops  []string
}

var longHists = []longHist{
	// two cuts with 2 KiB segments, snapshot + release between them, overwrite across a cut
	{"L1-2k-cuts-snap", 2048, []string{"a789", "a1100", "a1100z", "hsC", "snap", "a513", "a1100", "ow", "a480", "a4x1100", "hsC", "snap", "a100ns"}},
	// records ending exactly on / straddling sector boundaries, reopen between cuts
	{"L2-2k-reopen", 2048, []string{"a480", "a511", "a512", "a513", "reopen", "a1100z", "a1100", "hsT", "a789", "reopen", "a1100", "a1", "a0"}},
	// term changes, commit-only states, final record is an entry without state
	{"L3-2k-states", 2048, []string{"a1", "hsC", "hsT", "a1100", "ow", "a1100z", "hsC", "snap", "a1100", "a1100", "hsT", "ow", "a100ns"}},
	// 8 KiB segments: two cuts need ~16 KiB
	{"L4-8k-cuts", 8192, []string{"a1100", "a1100z", "a1100", "a513", "a1100", "a1100z", "a1100", "a1100", "hsC", "snap", "a1100", "a6x1100", "a512", "a1100", "a1100", "a789"}},
	{"L5-8k-reopen-ow", 8192, []string{"a1100", "a1100", "a1100z", "a1100", "a1100", "a1100", "a1100", "a1100", "reopen", "ow", "a1100", "a1100", "a1100z", "a1100", "hsC", "snap", "a1100", "a1100", "a1100", "a480", "a100ns"}},
	{"L6-2k-zero-payloads", 2048, []string{"a1100z", "a1100z", "a512", "a1100z", "hsC", "snap", "a1100z", "a1100z", "reopen", "a1100z", "a0"}},
}
