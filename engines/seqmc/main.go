package main

import (
	"fmt"
	"os"
	"strconv"
	"time"
	"verif/ev"

	"verif/pool"
)

var specs = map[string]func(tier string) *Spec{}

func main() {
	pool.Register("seqmc", worker)
	pool.Register("c04", c04Worker)
	pool.Register("c03pipe", pipeWorker)
	pool.Register("c12tree", treeWorker)
	pool.Register("c12shape", shapeWorker)
	pool.WorkerMain()
	if len(os.Args) < 2 {
		fmt.Fprintln(os.Stderr, "usage: seqmc <property> | seqmc replay <file>")
		os.Exit(2)
	}
	if os.Args[1] == "replay" {
		os.Exit(replayFile(os.Args[2]))
	}
	if os.Args[1] == "bench" {
		bench()
		return
	}
	if os.Args[1] == "shape" {
		// timing aid: seqmc shape <max nodes>
		n, _ := strconv.Atoi(os.Args[2])
		rep := ev.NewReport("C12", "model_checking")
		t0 := time.Now()
		fmt.Println(runShapeSearch(rep, n), time.Since(t0))
		return
	}
	if os.Args[1] == "C03" {
		os.Exit(runC03())
	}
	if os.Args[1] == "C04" {
		os.Exit(runC04())
	}
	os.Exit(runSpec(os.Args[1]))
}

func budget(tier string, quick, thorough time.Duration) time.Duration {
	if tier == "thorough" {
		return thorough
	}
	return quick
}
