package main

import (
	"fmt"
	"os"
	"time"

	"verif/pool"
)

var specs = map[string]func(tier string) *Spec{}

func main() {
	pool.Register("seqmc", worker)
	pool.Register("c04", c04Worker)
	pool.Register("c03pipe", pipeWorker)
	pool.Register("c12tree", treeWorker)
	pool.WorkerMain()
	if len(os.Args) < 2 {
		fmt.Fprintln(os.Stderr, "usage: seqmc <property> | seqmc replay <file>")
		os.Exit(2)
	}
	if os.Args[1] == "replay" {
		os.Exit(replayFile(os.Args[2]))
	}
	if os.Args[1] == "bench" {
		bench()
		return
	}
	if os.Args[1] == "C03" {
		os.Exit(runC03())
	}
	if os.Args[1] == "C04" {
		os.Exit(runC04())
	}
	os.Exit(runSpec(os.Args[1]))
}

func budget(tier string, quick, thorough time.Duration) time.Duration {
	if tier == "thorough" {
		return thorough
	}
	return quick
}
