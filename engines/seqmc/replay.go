package main

import (
	"encoding/json"
	"fmt"
	"os"
	"strings"

	"github.com/innovationb1ue/RedisGO/memdb"

	rt "github.com/innovationb1ue/RedisGO/verifrt"
	"verif/ev"
	"verif/h"
)

// replayFile re-executes a recorded program straight-line (no search) twice and prints what
// happens at every step.
func replayFile(path string) int {
	b, err := os.ReadFile(path)
	if err != nil {
		fmt.Fprintln(os.Stderr, err)
		return 2
	}
	var v struct {
		Kind   string
		Cmd    string
		Detail string
		Replay replayDoc
	}
	if err := json.Unmarshal(b, &v); err != nil {
		fmt.Fprintln(os.Stderr, err)
		return 2
	}
	// replay documents of the sweeps (not programs of the BFS)
	var alt struct {
		Replay struct {
			Phase    string   `json:"phase"`
			Sequence string   `json:"sequence"`
			Prop     string   `json:"prop"`
			PreState string   `json:"prestate"`
			Args     []string `json:"args"`
		}
	}
	json.Unmarshal(b, &alt)
	if alt.Replay.Phase == "shape-search" && alt.Replay.Sequence != "" {
		return replayShape(alt.Replay.Sequence)
	}
	if alt.Replay.Prop == "C04" && alt.Replay.PreState != "" {
		return replayC04(alt.Replay.PreState, alt.Replay.Args, v.Kind)
	}
	rd := v.Replay
	spec := &Spec{Prop: rd.Prop, ShardNum: rd.ShardNum, TimersOff: rd.TimersOff, TTLTolMs: 1000, NoObservers: true}
	if s, ok := specs[rd.Prop]; ok {
		full := s("quick")
		spec.Keys = full.Keys
		spec.Lax = full.Lax
	}
	h.Boot(rd.ShardNum, 1)
	rt.CurMode = rt.Controlled
	repro := 0
	for round := 0; round < 2; round++ {
		x := newInst(spec)
		var prog []Op
		hit := false
		for i := range rd.ProgB64 {
			op := Op{A: rd.ProgB64[i], AdvMs: rd.AdvMs[i]}
			prog = append(prog, op)
			so := x.step(op, prog, rd.Seed, true)
			fmt.Printf("round %d step %d: %s\n", round, i, op)
			for _, vi := range so.viol {
				fmt.Printf("    -> %s: %s\n", vi.Kind, vi.Detail)
				if vi.Kind == v.Kind {
					hit = true
				}
			}
			if so.poisoned {
				break
			}
		}
		if rd.Observer != "" && !hit {
			spec.NoObservers = false
			vs, _ := x.observe(prog, rd.Seed)
			for _, vi := range vs {
				fmt.Printf("    -> observer %s: %s\n", vi.Kind, vi.Detail)
				if vi.Kind == v.Kind && vi.Cmd == v.Cmd {
					hit = true
				}
			}
		}
		if hit {
			repro++
		}
		x.close()
	}
	fmt.Printf("reproduced %d/2\n", repro)
	_ = ev.Root
	if repro == 2 {
		return 1
	}
	return 0
}

// replayShape re-executes an operation sequence of the AVL shape search ("ins@3 del@0 ...") twice.
func replayShape(seq string) int {
	var ops []memdb.VerifTreeOp
	for _, f := range strings.Fields(seq) {
		var r int
		switch {
		case strings.HasPrefix(f, "ins@"):
			fmt.Sscan(f[4:], &r)
			ops = append(ops, memdb.VerifTreeOp{Rank: r})
		case strings.HasPrefix(f, "del@"):
			fmt.Sscan(f[4:], &r)
			ops = append(ops, memdb.VerifTreeOp{Del: true, Rank: r})
		}
	}
	n := 0
	for i := 0; i < 2; i++ {
		shape, nodes, inv := memdb.VerifTreeShape(ops)
		fmt.Printf("%s -> shape %s (%d nodes), invariants violated: %v\n", seq, shape, nodes, inv)
		if inv != nil {
			n++
		}
	}
	fmt.Printf("reproduced %d/2\n", n)
	if n == 2 {
		return 1
	}
	return 0
}

// replayC04 re-executes one input of the C04 sweep from its pre-state twice: panic, blocked call
// or leaked lock reproduce the finding.
func replayC04(pre string, args []string, kind string) int {
	h.Boot(shardNum, 2)
	rt.CurMode = rt.Controlled
	ks := h.Keys(shardNum)
	spec := &Spec{Prop: "C04", ShardNum: shardNum, Keys: []string{ks.K0, ks.K1, ks.K2}, TimersOff: true, TTLTolMs: 1000, Lax: true, NoObservers: true}
	var seed *Seed
	for _, list := range [][]Seed{c04PreStates(ks.K0), c04DeepPreStates(ks.K0, ks.K1)} {
		for i := range list {
			if list[i].Name == pre {
				seed = &list[i]
			}
		}
	}
	if seed == nil {
		fmt.Println("unknown pre-state", pre)
		return 2
	}
	n := 0
	for round := 0; round < 2; round++ {
		x := newInst(spec)
		for _, o := range seed.Prog {
			if len(o.A) == 0 {
				x.w.Advance(o.AdvMs * 1e6)
				continue
			}
			x.exec(o.A, 5000)
		}
		r := x.exec(h.B(args...), 3000)
		held := x.mgr.CurrentDB.VerifLocksHeld()
		fmt.Printf("[%s] %q -> reply %q panic=%v blocked=%v locks held=%v\n", pre, args, r.reply, r.panicRec != nil, r.blocked, held)
		if r.panicRec != nil {
			fmt.Printf("    panic %s in %s\n", r.panicRec.Value, r.panicRec.Func)
		}
		if r.panicRec != nil || r.deadlock || len(held) > 0 {
			n++
		}
		x.close()
	}
	fmt.Printf("reproduced %d/2 (%s)\n", n, kind)
	if n == 2 {
		return 1
	}
	return 0
}
