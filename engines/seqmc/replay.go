package main

import (
	"encoding/json"
	"fmt"
	"os"

	rt "github.com/innovationb1ue/RedisGO/verifrt"
	"verif/ev"
	"verif/h"
)

// replayFile re-executes a recorded program straight-line (no search) twice and prints what
// happens at every step.
func replayFile(path string) int {
	b, err := os.ReadFile(path)
	if err != nil {
		fmt.Fprintln(os.Stderr, err)
		return 2
	}
	var v struct {
		Kind   string
		Cmd    string
		Detail string
		Replay replayDoc
	}
	if err := json.Unmarshal(b, &v); err != nil {
		fmt.Fprintln(os.Stderr, err)
		return 2
	}
	rd := v.Replay
	spec := &Spec{Prop: rd.Prop, ShardNum: rd.ShardNum, TimersOff: rd.TimersOff, TTLTolMs: 1000, NoObservers: true}
	if s, ok := specs[rd.Prop]; ok {
		full := s("quick")
		spec.Keys = full.Keys
		spec.Lax = full.Lax
	}
	h.Boot(rd.ShardNum, 1)
	rt.CurMode = rt.Controlled
	repro := 0
	for round := 0; round < 2; round++ {
		x := newInst(spec)
		var prog []Op
		hit := false
		for i := range rd.ProgB64 {
			op := Op{A: rd.ProgB64[i], AdvMs: rd.AdvMs[i]}
			prog = append(prog, op)
			so := x.step(op, prog, rd.Seed, true)
			fmt.Printf("round %d step %d: %s\n", round, i, op)
			for _, vi := range so.viol {
				fmt.Printf("    -> %s: %s\n", vi.Kind, vi.Detail)
				if vi.Kind == v.Kind {
					hit = true
				}
			}
			if so.poisoned {
				break
			}
		}
		if rd.Observer != "" && !hit {
			spec.NoObservers = false
			vs, _ := x.observe(prog, rd.Seed)
			for _, vi := range vs {
				fmt.Printf("    -> observer %s: %s\n", vi.Kind, vi.Detail)
				if vi.Kind == v.Kind && vi.Cmd == v.Cmd {
					hit = true
				}
			}
		}
		if hit {
			repro++
		}
		x.close()
	}
	fmt.Printf("reproduced %d/2\n", repro)
	_ = ev.Root
	if repro == 2 {
		return 1
	}
	return 0
}
