package main

import (
	"encoding/json"
	"fmt"
	"os"
	"runtime/pprof"
	"time"
)

// bench runs one C04 task in-process under the CPU profiler: seqmc bench <cmd> <nargs> <prestate>
func bench() {
	f, _ := os.Create(os.Getenv("VERIF_SCRATCH") + "/cpu.prof")
	pprof.StartCPUProfile(f)
	var n, ps int
	fmt.Sscan(os.Args[3], &n)
	fmt.Sscan(os.Args[4], &ps)
	b, _ := json.Marshal(c04Task{Cmd: os.Args[2], NArgs: n, PreState: ps})
	t0 := time.Now()
	out := c04Worker(b, func() {})
	pprof.StopCPUProfile()
	var r c04Result
	json.Unmarshal(out, &r)
	fmt.Printf("%d inputs, %d mutating in %v (%.1f us/input)\n", r.Inputs, r.Mutating, time.Since(t0), float64(time.Since(t0).Microseconds())/float64(r.Inputs))
}
