package main

// Extra phases attached to the BFS checks:
//   C12 — structure-only sweep: every insertion order of 6 scores (incl. a tie) followed by every
//         deletion order of 3 members, driving the AVL tree directly (memdb.VerifTreeRun).
//   C09 — blocking pops on the virtual clock: prompt return once an element is available, nil at
//         exactly the timeout, each element to exactly one popper.

import (
	"context"
	"encoding/json"
	"fmt"
	"strings"
	"time"

	"github.com/innovationb1ue/RedisGO/memdb"
	rt "github.com/innovationb1ue/RedisGO/verifrt"
	"verif/ev"
	"verif/h"
	"verif/model"
	"verif/pool"
)

type treeTask struct{ First int }
type treeResult struct {
	Runs int
	Viol []string
	Seq  []string
}

func permute(a []int, f func([]int)) {
	var rec func(k int)
	rec = func(k int) {
		if k == len(a) {
			f(a)
			return
		}
		for i := k; i < len(a); i++ {
			a[k], a[i] = a[i], a[k]
			rec(k + 1)
			a[k], a[i] = a[i], a[k]
		}
	}
	rec(0)
}

func treeWorker(tb []byte, progress func()) []byte {
	var t treeTask
	json.Unmarshal(tb, &t)
	base := []float64{1, 2, 3, 4, 5, 6}
	var res treeResult
	rest := []int{}
	for i := range base {
		if i != t.First {
			rest = append(rest, i)
		}
	}
	permute(rest, func(p []int) {
		order := append([]int{t.First}, p...)
		scores := make([]float64, len(order))
		for i, o := range order {
			scores[i] = base[o]
		}
		// every ordered choice of 3 members to delete
		for a := 0; a < 6; a++ {
			for b := 0; b < 6; b++ {
				for c := 0; c < 6; c++ {
					if a == b || b == c || a == c {
						continue
					}
					res.Runs++
					if inv := memdb.VerifTreeRun(scores, []int{a, b, c}); inv != nil && len(res.Viol) < 3 {
						res.Viol = append(res.Viol, strings.Join(inv, "; "))
						res.Seq = append(res.Seq, fmt.Sprintf("insert %v delete %v", scores, []int{a, b, c}))
					}
				}
			}
		}
	})
	progress()
	b, _ := json.Marshal(res)
	return b
}

func runTreeSweep(rep *ev.Report) (int, string) {
	p := &pool.Pool{Handler: "c12tree", N: 6, Timeout: 120 * time.Second, MemMB: 2048}
	var tasks [][]byte
	for i := 0; i < 6; i++ {
		b, _ := json.Marshal(treeTask{First: i})
		tasks = append(tasks, b)
	}
	runs := 0
	sample := ""
	p.Map(tasks, func(tb, out []byte, crash *pool.Crash) [][]byte {
		if crash != nil {
			rep.Add(&ev.Violation{Engine: "seqmc/tree", Kind: "panic", Cmd: "btree", Shape: "sweep", Detail: "worker " + crash.Kind + " in the tree sweep: " + crash.Detail,
				Replay: map[string]interface{}{"engine": "seqmc", "phase": "tree-sweep"}})
			return nil
		}
		var r treeResult
		json.Unmarshal(out, &r)
		runs += r.Runs
		for i, v := range r.Viol {
			kind := v
			if j := strings.Index(v, ":"); j > 0 {
				kind = v[:j]
			}
			rep.Add(&ev.Violation{Engine: "seqmc/tree", Kind: "invariant:" + kind, Cmd: "btree", Shape: "sweep", Detail: r.Seq[i] + ": " + v,
				Replay: map[string]interface{}{"engine": "seqmc", "phase": "tree-sweep", "sequence": r.Seq[i]}})
		}
		if sample == "" {
			sample = "tree sweep: insert [1 2 3 4 5 6] in every order, then delete every ordered triple"
		}
		return nil
	})
	return runs, sample
}

// ------------------------------------------------------------------ C12 shape search
//
// Explicit-state search over AVL tree SHAPES: a state is the shape of the tree (scores abstracted to
// ranks); transitions are "insert a new score at rank r" for every r and "delete the member of rank
// r" for every r, executed on the real Btree by replaying the shortest op sequence that reaches the
// shape; breadth-first until no new shape with at most MaxNodes nodes appears (a fixpoint: every
// shape reachable within the node bound, including those only deletions produce, has had every
// insertion and every deletion applied to it).  Invariants after every operation: search-tree order,
// stored heights, balance, len, member index, in-order content.

type shapeTask struct{ MaxNodes int }
type shapeResult struct {
	States, Transitions, MaxDepth int
	PerNodes                      map[int]int
	Viol                          []string
	Seq                           []string
}

func shapeOpsString(ops []memdb.VerifTreeOp) string {
	var parts []string
	for _, o := range ops {
		if o.Del {
			parts = append(parts, fmt.Sprintf("del@%d", o.Rank))
		} else {
			parts = append(parts, fmt.Sprintf("ins@%d", o.Rank))
		}
	}
	return strings.Join(parts, " ")
}

func shapeWorker(tb []byte, progress func()) []byte {
	var t shapeTask
	json.Unmarshal(tb, &t)
	res := shapeResult{PerNodes: map[int]int{}}
	type st struct {
		ops []memdb.VerifTreeOp
		n   int
	}
	seen := map[string]bool{".": true}
	frontier := []st{{nil, 0}}
	res.States = 1
	res.PerNodes[0] = 1
	sigs := map[string]bool{}
	for depth := 0; len(frontier) > 0; depth++ {
		var next []st
		for _, s := range frontier {
			var cands []memdb.VerifTreeOp
			if s.n < t.MaxNodes {
				for r := 0; r <= s.n; r++ {
					cands = append(cands, memdb.VerifTreeOp{Rank: r})
				}
			}
			for r := 0; r < s.n; r++ {
				cands = append(cands, memdb.VerifTreeOp{Del: true, Rank: r})
			}
			for _, c := range cands {
				ops := append(append([]memdb.VerifTreeOp{}, s.ops...), c)
				pool.Note([]byte(shapeOpsString(ops)))
				res.Transitions++
				shape, n, inv := memdb.VerifTreeShape(ops)
				if inv != nil {
					kind := inv[0]
					if j := strings.Index(kind, ":"); j > 0 {
						kind = kind[:j]
					}
					if !sigs[kind] && len(res.Viol) < 6 {
						sigs[kind] = true
						res.Viol = append(res.Viol, strings.Join(inv, "; "))
						res.Seq = append(res.Seq, shapeOpsString(ops))
					}
					continue // a state behind a broken invariant is not expanded
				}
				if !seen[shape] {
					seen[shape] = true
					res.States++
					res.PerNodes[n]++
					next = append(next, st{ops, n})
					if depth+1 > res.MaxDepth {
						res.MaxDepth = depth + 1
					}
				}
			}
		}
		frontier = next
		progress()
	}
	b, _ := json.Marshal(res)
	return b
}

func runShapeSearch(rep *ev.Report, maxNodes int) map[string]interface{} {
	p := &pool.Pool{Handler: "c12shape", N: 1, Timeout: 120 * time.Second, MemMB: 4096}
	b, _ := json.Marshal(shapeTask{MaxNodes: maxNodes})
	cov := map[string]interface{}{"max_nodes": maxNodes, "exhaustive": false}
	p.Map([][]byte{b}, func(tb, out []byte, crash *pool.Crash) [][]byte {
		if crash != nil {
			rep.Add(&ev.Violation{Engine: "seqmc/tree", Kind: "panic", Cmd: "btree", Shape: "shape-search", Detail: "worker " + crash.Kind + " in the shape search at [" + string(crash.Last) + "]: " + crash.Detail,
				Replay: map[string]interface{}{"engine": "seqmc", "phase": "shape-search", "sequence": string(crash.Last)}})
			return nil
		}
		var r shapeResult
		json.Unmarshal(out, &r)
		for i, v := range r.Viol {
			kind := v
			if j := strings.Index(v, ":"); j > 0 {
				kind = v[:j]
			}
			rep.Add(&ev.Violation{Engine: "seqmc/tree", Kind: "invariant:" + kind, Cmd: "btree", Shape: "shape-search", Detail: r.Seq[i] + ": " + v,
				Replay: map[string]interface{}{"engine": "seqmc", "phase": "shape-search", "sequence": r.Seq[i]}})
		}
		cov["states"] = r.States
		cov["transitions"] = r.Transitions
		cov["max_depth"] = r.MaxDepth
		cov["shapes_per_node_count"] = r.PerNodes
		cov["exhaustive"] = true
		cov["rule"] = "BFS over AVL tree shapes on the real Btree: from every reachable shape with at most max_nodes nodes, insert at every rank and delete at every rank; fixpoint reached (no new shape); invariants after every operation"
		return nil
	})
	return cov
}

// ------------------------------------------------------------------ C09 blocking pops on the virtual clock

type timedThread struct {
	delayMs int
	cmd     []string
}

func runTimedPops(rep *ev.Report) (int, []string) {
	h.Boot(shardNum, 1)
	rt.CurMode = rt.Controlled
	k := h.Keys(shardNum).K0
	type sc struct {
		name    string
		seed    [][]string
		threads []timedThread
	}
	scs := []sc{
		{"element-already-there", [][]string{{"RPUSH", k, "a"}}, []timedThread{{0, []string{"BLPOP", k, "1"}}}},
		{"pushed-after-300ms", nil, []timedThread{{0, []string{"BLPOP", k, "1"}}, {300, []string{"RPUSH", k, "a"}}}},
		{"never-pushed", nil, []timedThread{{0, []string{"BRPOP", k, "1"}}}},
		{"two-poppers-one-push", nil, []timedThread{{0, []string{"BLPOP", k, "2"}}, {0, []string{"BRPOP", k, "2"}}, {300, []string{"RPUSH", k, "a"}}}},
		{"timeout-2s-pushed-at-1500ms", nil, []timedThread{{0, []string{"BRPOP", k, "2"}}, {1500, []string{"LPUSH", k, "a", "b"}}}},
	}
	var samples []string
	for _, s := range scs {
		w := rt.NewWorld()
		mgr := h.NewManager()
		bg := context.Background()
		for _, c := range s.seed {
			h.Exec(bg, mgr, nil, h.B(c...)...)
		}
		type res struct {
			reply  []byte
			doneAt int64
			done   bool
		}
		out := make([]*res, len(s.threads))
		for i, th := range s.threads {
			i, th := i, th
			out[i] = &res{}
			w.Spawn(fmt.Sprintf("T%d", i), func() {
				if th.delayMs > 0 {
					tm := w.AddTimer(int64(th.delayMs)*1e6, 0)
					ch := tm.C()
					w.Point(rt.Op{Kind: rt.OpSleep, Obj: ch, Enabled: func() bool { return len(ch) > 0 }})
					<-ch
				}
				out[i].reply = h.Exec(bg, mgr, nil, h.B(th.cmd...)...)
				out[i].doneAt = w.Now
				out[i].done = true
			})
		}
		w.Chooser = nil
		for guard := 0; guard < 10000; guard++ {
			w.Run()
			if len(w.Live()) == 0 {
				break
			}
			nt := w.NextTimer()
			if nt < 0 || nt > int64(10*time.Second) {
				break
			}
			w.Advance(nt - w.Now)
		}
		add := func(kind, detail string) {
			rep.Add(&ev.Violation{Engine: "seqmc/timed", Kind: kind, Cmd: strings.ToLower(s.threads[0].cmd[0]), Shape: s.name, Detail: "scenario " + s.name + ": " + detail,
				Replay: map[string]interface{}{"engine": "seqmc", "phase": "timed-pops", "scenario": s.name}})
		}
		if len(w.Panics) > 0 {
			add("panic", w.Panics[0].Value+" in "+w.Panics[0].Func)
		}
		var got []string
		var pushAt int64 = -1
		for i, th := range s.threads {
			if strings.HasSuffix(strings.ToUpper(th.cmd[0]), "PUSH") {
				pushAt = int64(th.delayMs)
			}
			_ = i
		}
		popped := 0
		for i, th := range s.threads {
			name := strings.ToUpper(th.cmd[0])
			if name != "BLPOP" && name != "BRPOP" {
				continue
			}
			if !out[i].done {
				add("hang", fmt.Sprintf("%q never returned", th.cmd))
				continue
			}
			v, err := model.DecodeOne(out[i].reply)
			at := out[i].doneAt / 1e6
			var to int64
			fmt.Sscan(th.cmd[len(th.cmd)-1], &to)
			got = append(got, fmt.Sprintf("%q -> %s at %dms", th.cmd, v, at))
			switch {
			case err != nil:
				add("malformed-reply", fmt.Sprintf("%q replied %q", th.cmd, out[i].reply))
			case v.K == model.Array && len(v.Arr) == 2:
				popped++
				avail := pushAt
				if len(s.seed) > 0 {
					avail = 0
				}
				if avail < 0 || at > avail+100 {
					add("late-pop", fmt.Sprintf("%q returned its element at %d ms although it was available at %d ms (more than one 100 ms poll tick)", th.cmd, at, avail))
				}
			case v.K == model.Nil || v.K == model.NilArray:
				if at < to*1000 || at > to*1000+100 {
					add("timeout-mismatch", fmt.Sprintf("%q returned nil at %d ms, its timeout is %d ms", th.cmd, at, to*1000))
				}
			default:
				add("reply-mismatch", fmt.Sprintf("%q replied %s", th.cmd, v))
			}
		}
		// each element to exactly one popper; nothing lost
		d := mgr.CurrentDB.VerifDump()
		left := 0
		for _, kk := range d.Keys {
			left += len(kk.List)
		}
		pushed := len(s.seed)
		for _, th := range s.threads {
			if strings.HasSuffix(strings.ToUpper(th.cmd[0]), "PUSH") {
				pushed += len(th.cmd) - 2
			}
		}
		poppers := 0
		for _, th := range s.threads {
			if strings.HasPrefix(strings.ToUpper(th.cmd[0]), "B") {
				poppers++
			}
		}
		want := pushed
		if poppers < want {
			want = poppers
		}
		if popped != want || popped+left != pushed {
			add("element-accounting", fmt.Sprintf("%d pushed, %d popped by %d poppers, %d left in the list", pushed, popped, poppers, left))
		}
		for _, iv := range d.Invariants {
			add("invariant", iv)
		}
		samples = append(samples, s.name+": "+strings.Join(got, " ; "))
		w.Kill()
	}
	return len(scs), samples
}
