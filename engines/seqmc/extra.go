package main

// Extra phases attached to the BFS checks:
//   C12 — structure-only sweep: every insertion order of 6 scores (incl. a tie) followed by every
//         deletion order of 3 members, driving the AVL tree directly (memdb.VerifTreeRun).
//   C09 — blocking pops on the virtual clock: prompt return once an element is available, nil at
//         exactly the timeout, each element to exactly one popper.

import (
	"context"
	"encoding/json"
	"fmt"
	"strings"
	"time"

	"github.com/innovationb1ue/RedisGO/memdb"
	rt "github.com/innovationb1ue/RedisGO/verifrt"
	"verif/ev"
	"verif/h"
	"verif/model"
	"verif/pool"
)

type treeTask struct{ First int }
type treeResult struct {
	Runs int
	Viol []string
	Seq  []string
}

func permute(a []int, f func([]int)) {
	var rec func(k int)
	rec = func(k int) {
		if k == len(a) {
			f(a)
			return
		}
		for i := k; i < len(a); i++ {
			a[k], a[i] = a[i], a[k]
			rec(k + 1)
			a[k], a[i] = a[i], a[k]
		}
	}
	rec(0)
}

func treeWorker(tb []byte, progress func()) []byte {
	var t treeTask
	json.Unmarshal(tb, &t)
	base := []float64{1, 2, 3, 4, 5, 6}
	var res treeResult
	rest := []int{}
	for i := range base {
		if i != t.First {
			rest = append(rest, i)
		}
	}
	permute(rest, func(p []int) {
		order := append([]int{t.First}, p...)
		scores := make([]float64, len(order))
		for i, o := range order {
			scores[i] = base[o]
		}
		// every ordered choice of 3 members to delete
		for a := 0; a < 6; a++ {
			for b := 0; b < 6; b++ {
				for c := 0; c < 6; c++ {
					if a == b || b == c || a == c {
						continue
					}
					res.Runs++
					if inv := memdb.VerifTreeRun(scores, []int{a, b, c}); inv != nil && len(res.Viol) < 3 {
						res.Viol = append(res.Viol, strings.Join(inv, "; "))
						res.Seq = append(res.Seq, fmt.Sprintf("insert %v delete %v", scores, []int{a, b, c}))
					}
				}
			}
		}
	})
	progress()
	b, _ := json.Marshal(res)
	return b
}

func runTreeSweep(rep *ev.Report) (int, string) {
	p := &pool.Pool{Handler: "c12tree", N: 6, Timeout: 120 * time.Second, MemMB: 2048}
	var tasks [][]byte
	for i := 0; i < 6; i++ {
		b, _ := json.Marshal(treeTask{First: i})
		tasks = append(tasks, b)
	}
	runs := 0
	sample := ""
	p.Map(tasks, func(tb, out []byte, crash *pool.Crash) [][]byte {
		if crash != nil {
			rep.Add(&ev.Violation{Engine: "seqmc/tree", Kind: "panic", Cmd: "btree", Shape: "sweep", Detail: "worker " + crash.Kind + " in the tree sweep: " + crash.Detail,
				Replay: map[string]interface{}{"engine": "seqmc", "phase": "tree-sweep"}})
			return nil
		}
		var r treeResult
		json.Unmarshal(out, &r)
		runs += r.Runs
		for i, v := range r.Viol {
			kind := v
			if j := strings.Index(v, ":"); j > 0 {
				kind = v[:j]
			}
			rep.Add(&ev.Violation{Engine: "seqmc/tree", Kind: "invariant:" + kind, Cmd: "btree", Shape: "sweep", Detail: r.Seq[i] + ": " + v,
				Replay: map[string]interface{}{"engine": "seqmc", "phase": "tree-sweep", "sequence": r.Seq[i]}})
		}
		if sample == "" {
			sample = "tree sweep: insert [1 2 3 4 5 6] in every order, then delete every ordered triple"
		}
		return nil
	})
	return runs, sample
}

// ------------------------------------------------------------------ C09 blocking pops on the virtual clock

type timedThread struct {
	delayMs int
	cmd     []string
}

func runTimedPops(rep *ev.Report) (int, []string) {
	h.Boot(shardNum, 1)
	rt.CurMode = rt.Controlled
	k := h.Keys(shardNum).K0
	type sc struct {
		name    string
		seed    [][]string
		threads []timedThread
	}
	scs := []sc{
		{"element-already-there", [][]string{{"RPUSH", k, "a"}}, []timedThread{{0, []string{"BLPOP", k, "1"}}}},
		{"pushed-after-300ms", nil, []timedThread{{0, []string{"BLPOP", k, "1"}}, {300, []string{"RPUSH", k, "a"}}}},
		{"never-pushed", nil, []timedThread{{0, []string{"BRPOP", k, "1"}}}},
		{"two-poppers-one-push", nil, []timedThread{{0, []string{"BLPOP", k, "2"}}, {0, []string{"BRPOP", k, "2"}}, {300, []string{"RPUSH", k, "a"}}}},
		{"timeout-2s-pushed-at-1500ms", nil, []timedThread{{0, []string{"BRPOP", k, "2"}}, {1500, []string{"LPUSH", k, "a", "b"}}}},
	}
	var samples []string
	for _, s := range scs {
		w := rt.NewWorld()
		mgr := h.NewManager()
		bg := context.Background()
		for _, c := range s.seed {
			h.Exec(bg, mgr, nil, h.B(c...)...)
		}
		type res struct {
			reply  []byte
			doneAt int64
			done   bool
		}
		out := make([]*res, len(s.threads))
		for i, th := range s.threads {
			i, th := i, th
			out[i] = &res{}
			w.Spawn(fmt.Sprintf("T%d", i), func() {
				if th.delayMs > 0 {
					tm := w.AddTimer(int64(th.delayMs)*1e6, 0)
					ch := tm.C()
					w.Point(rt.Op{Kind: rt.OpSleep, Obj: ch, Enabled: func() bool { return len(ch) > 0 }})
					<-ch
				}
				out[i].reply = h.Exec(bg, mgr, nil, h.B(th.cmd...)...)
				out[i].doneAt = w.Now
				out[i].done = true
			})
		}
		w.Chooser = nil
		for guard := 0; guard < 10000; guard++ {
			w.Run()
			if len(w.Live()) == 0 {
				break
			}
			nt := w.NextTimer()
			if nt < 0 || nt > int64(10*time.Second) {
				break
			}
			w.Advance(nt - w.Now)
		}
		add := func(kind, detail string) {
			rep.Add(&ev.Violation{Engine: "seqmc/timed", Kind: kind, Cmd: strings.ToLower(s.threads[0].cmd[0]), Shape: s.name, Detail: "scenario " + s.name + ": " + detail,
				Replay: map[string]interface{}{"engine": "seqmc", "phase": "timed-pops", "scenario": s.name}})
		}
		if len(w.Panics) > 0 {
			add("panic", w.Panics[0].Value+" in "+w.Panics[0].Func)
		}
		var got []string
		var pushAt int64 = -1
		for i, th := range s.threads {
			if strings.HasSuffix(strings.ToUpper(th.cmd[0]), "PUSH") {
				pushAt = int64(th.delayMs)
			}
			_ = i
		}
		popped := 0
		for i, th := range s.threads {
			name := strings.ToUpper(th.cmd[0])
			if name != "BLPOP" && name != "BRPOP" {
				continue
			}
			if !out[i].done {
				add("hang", fmt.Sprintf("%q never returned", th.cmd))
				continue
			}
			v, err := model.DecodeOne(out[i].reply)
			at := out[i].doneAt / 1e6
			var to int64
			fmt.Sscan(th.cmd[len(th.cmd)-1], &to)
			got = append(got, fmt.Sprintf("%q -> %s at %dms", th.cmd, v, at))
			switch {
			case err != nil:
				add("malformed-reply", fmt.Sprintf("%q replied %q", th.cmd, out[i].reply))
			case v.K == model.Array && len(v.Arr) == 2:
				popped++
				avail := pushAt
				if len(s.seed) > 0 {
					avail = 0
				}
				if avail < 0 || at > avail+100 {
					add("late-pop", fmt.Sprintf("%q returned its element at %d ms although it was available at %d ms (more than one 100 ms poll tick)", th.cmd, at, avail))
				}
			case v.K == model.Nil || v.K == model.NilArray:
				if at < to*1000 || at > to*1000+100 {
					add("timeout-mismatch", fmt.Sprintf("%q returned nil at %d ms, its timeout is %d ms", th.cmd, at, to*1000))
				}
			default:
				add("reply-mismatch", fmt.Sprintf("%q replied %s", th.cmd, v))
			}
		}
		// each element to exactly one popper; nothing lost
		d := mgr.CurrentDB.VerifDump()
		left := 0
		for _, kk := range d.Keys {
			left += len(kk.List)
		}
		pushed := len(s.seed)
		for _, th := range s.threads {
			if strings.HasSuffix(strings.ToUpper(th.cmd[0]), "PUSH") {
				pushed += len(th.cmd) - 2
			}
		}
		poppers := 0
		for _, th := range s.threads {
			if strings.HasPrefix(strings.ToUpper(th.cmd[0]), "B") {
				poppers++
			}
		}
		want := pushed
		if poppers < want {
			want = poppers
		}
		if popped != want || popped+left != pushed {
			add("element-accounting", fmt.Sprintf("%d pushed, %d popped by %d poppers, %d left in the list", pushed, popped, poppers, left))
		}
		for _, iv := range d.Invariants {
			add("invariant", iv)
		}
		samples = append(samples, s.name+": "+strings.Join(got, " ; "))
		w.Kill()
	}
	return len(scs), samples
}
