package main

// C03 — each command gets exactly one well-formed RESP reply, in request order, payload framed.
//
//  (a) controlled runtime: from payload-rich pre-states (every value type holding members /
//      fields / values / key names with CR LF, empty strings and RESP look-alikes) every
//      registered command x every argument vector up to the arity bound over a payload
//      alphabet is executed; the reply bytes must decode, with an independent strict decoder, to
//      exactly one value that the reference model accepts (payload bytes bit-exact).
//  (b) free runtime through Manager.Handle: every pipeline of <= 3 commands from a 12-command
//      alphabet covering each reply constructor, written as one chunk and as every 2-chunk
//      split; reply count = command count and the i-th reply is the model's i-th.

import (
	"context"
	"encoding/json"
	"fmt"
	"os"
	"strings"
	"time"

	rt "github.com/innovationb1ue/RedisGO/verifrt"
	"verif/ev"
	"verif/h"
	"verif/model"
	"verif/pool"
)

const crlfKey = "k\r\nx"

func c03Spec(tier string) *Spec {
	h.Boot(shardNum, 1) // the command table must be registered before it is enumerated
	ks := h.Keys(shardNum)
	k0 := ks.K0
	pay := []string{"a\r\nb", "", "\r\n", "+OK", "$3", "a"}
	seeds := []Seed{
		{Name: "empty"},
		{Name: "strings", Prog: []Op{C("SET", k0, "a\r\nb"), C("SET", crlfKey, "+OK")}},
		{Name: "empty-strings", Prog: []Op{C("SET", k0, ""), C("SET", crlfKey, "")}},
		{Name: "list", Prog: []Op{C(append([]string{"RPUSH", k0}, pay...)...), C("RPUSH", crlfKey, "$3")}},
		{Name: "hash", Prog: []Op{C("HSET", k0, "f\r\n", "a\r\nb", "", "\r\n", "+OK", "$3"), C("HSET", crlfKey, "f", "v")}},
		{Name: "set", Prog: []Op{C(append([]string{"SADD", k0}, pay...)...), C("SADD", crlfKey, "\r\n")}},
		{Name: "zset", Prog: []Op{C("ZADD", k0, "1", "a\r\nb", "1", "", "2", "\r\n", "3", "+OK"), C("ZADD", crlfKey, "1", "$3")}},
		{Name: "stream", Prog: []Op{C("XADD", k0, "5-1", "f\r\n", "a\r\nb", "", "$3"), C("XADD", crlfKey, "6-1", "+OK", "\r\n")}},
	}
	alpha := []string{k0, crlfKey, "0", "1", "-1", "a\r\nb", "l\nf"}
	maxArgs := 3
	if tier == "thorough" {
		maxArgs = 4
	}
	var ops []Op
	for _, c := range c04Commands() {
		if c == "" || c == "blpop" || c == "brpop" {
			continue
		}
		for n := 0; n <= maxArgs; n++ {
			var rec func(cur []string)
			rec = func(cur []string) {
				if len(cur) == n {
					ops = append(ops, C(append([]string{c}, cur...)...))
					return
				}
				for _, a := range alpha {
					rec(append(append([]string{}, cur...), a))
				}
			}
			rec(nil)
		}
	}
	// command names that are not plain words
	ops = append(ops, C("GET\r\n", k0), C("NOSUCH\r\nX"), C("\r\n"), C("get k", k0), C("+OK"), C("SET\xff", k0, "v"))
	// blocking pops only where they return at once or time out quickly
	ops = append(ops, C("BLPOP", k0, "1"), C("BRPOP", k0, "1"), C("BLPOP", crlfKey, k0, "1"), C("BLPOP", k0), C("BLPOP", k0, "a\r\nb"))
	return &Spec{Prop: "C03", ShardNum: shardNum, Keys: []string{k0, crlfKey}, Alphabet: ops, Seeds: seeds, Depth: 1,
		Budget: budget(tier, 200*time.Second, 25*time.Minute), TTLTolMs: 1000,
		Rule: "every registered command x every argument vector (<= arity bound) over {key, key containing CRLF, 0, 1, -1, payload with CRLF, payload with a bare LF} from pre-states of every type whose members / fields / values / key names contain CR LF, the empty string and RESP look-alikes: the reply must decode strictly to one value accepted by the reference model"}
}

func init() { specs["C03"] = c03Spec }

// ------------------------------------------------------------------ (b) pipelines through Handle

var pipeAlphabet = [][]string{
	{"PING"}, {"SET", "k", "a\r\nb"}, {"GET", "k"}, {"GET", "missing"}, {"INCR", "n"}, {"RPUSH", "l", "x", "\r\n"}, {"LRANGE", "l", "0", "-1"},
	{"SADD", "s", "m\r\n"}, {"SMEMBERS", "s"}, {"HSET", "h", "f", ""}, {"HGETALL", "h"}, {"NOSUCH"}, {"GET"}, {"TYPE", "k"}, {"DEL", "k", "l"},
	{"SET", "k", "v", "NX"}, {"ZADD", "z", "1", "a\r\nb"}, {"ZRANGE", "z", "0", "-1", "WITHSCORES"}, {"XADD", "x", "5-1", "f", "\r\n"}, {"XRANGE", "x", "-", "+"},
}

type pipeTask struct {
	First int // index of the first command; the worker enumerates the completions
	Len   int
}

type pipeViol struct {
	Kind, Cmd, Shape, Detail string
	Pipeline                 [][]string
	Split                    int
}

type pipeResult struct {
	Runs, Pipelines int
	Cut             int // pipelines not run after three timeouts in the task
	Viol            []pipeViol
	Samples         []string
}

func pipeWorker(tb []byte, progress func()) []byte {
	var t pipeTask
	json.Unmarshal(tb, &t)
	h.Boot(shardNum, 1)
	rt.CurMode = rt.Free
	var res pipeResult
	var rec func(cur []int)
	timeouts := 0 // every unanswered command costs h.Patience: the task is cut after three
	runOne := func(idxs []int) {
		if timeouts >= 3 {
			res.Cut++
			return
		}
		var cmds [][]string
		var stream []byte
		for _, i := range idxs {
			cmds = append(cmds, pipeAlphabet[i])
			stream = append(stream, model.EncodeCommand(h.B(pipeAlphabet[i]...))...)
		}
		res.Pipelines++
		// expected replies from the model
		ks := model.NewKS(rt.Epoch * 1000)
		splits := []int{0}
		for c := 1; c < len(stream); c++ {
			splits = append(splits, c)
		}
		for _, cut := range splits {
			if timeouts >= 3 {
				break
			}
			res.Runs++
			mgr := h.NewManager()
			conn := h.NewConn("p")
			ctx, cancel := context.WithCancel(context.Background())
			go mgr.Handle(ctx, conn)
			if cut == 0 {
				conn.Send(stream)
			} else {
				conn.SendChunks([][]byte{stream[:cut], stream[cut:]})
			}
			m := ks.Clone()
			bad := func(kind, cmd, detail string) {
				res.Viol = append(res.Viol, pipeViol{Kind: kind, Cmd: cmd, Shape: fmt.Sprintf("pos%d/%d", len(cmds), len(cmds)), Detail: detail, Pipeline: cmds, Split: cut})
			}
			ok := true
			for ci, c := range cmds {
				raw, v, st := conn.TakeReply(5 * time.Second)
				name := strings.ToLower(c[0])
				if st != "ok" {
					if st == "timeout" {
						timeouts++
						progress()
					}
					bad("pipeline-"+strings.SplitN(st, ":", 2)[0], name, fmt.Sprintf("pipeline %q split at %d: reply %d/%d: %s (%q)", cmds, cut, ci+1, len(cmds), st, raw))
					ok = false
					break
				}
				if !model.Known(name) {
					if v.K != model.Error {
						bad("pipeline-reply-mismatch", name, fmt.Sprintf("pipeline %q split at %d: reply %d: expected an error for an unknown command, got %s", cmds, cut, ci+1, v))
					}
					continue
				}
				outs := m.Apply(h.B(c...))
				matched := false
				why := ""
				for _, o := range outs {
					next, w := o.Check(v)
					if w == "" {
						m = next
						matched = true
						break
					}
					if why == "" {
						why = w
					}
				}
				if !matched {
					bad("pipeline-reply-mismatch", name, fmt.Sprintf("pipeline %q split at %d: reply %d/%d (to %q): %s", cmds, cut, ci+1, len(cmds), c, why))
					ok = false
					break
				}
			}
			if ok {
				// no extra bytes must follow the last reply
				conn.EOF()
				conn.WaitClosed(5 * time.Second)
				if extra := conn.Output(); len(extra) > 0 {
					bad("pipeline-extra-bytes", strings.ToLower(cmds[len(cmds)-1][0]), fmt.Sprintf("pipeline %q split at %d: %d bytes after the last reply: %q", cmds, cut, len(extra), extra))
				}
			} else {
				conn.EOF()
			}
			cancel()
			if p := rt.TakeFreePanics(); len(p) > 0 {
				bad("panic", "handle", fmt.Sprintf("pipeline %q split at %d: panic %s in %s", cmds, cut, p[0].Value, p[0].Func))
			}
		}
		if len(res.Samples) < 2 && len(idxs) == t.Len {
			res.Samples = append(res.Samples, fmt.Sprintf("pipeline %q, 1 chunk + %d two-chunk splits", cmds, len(stream)-1))
		}
	}
	rec = func(cur []int) {
		runOne(cur)
		if len(cur) >= t.Len {
			return
		}
		for i := range pipeAlphabet {
			rec(append(append([]int{}, cur...), i))
		}
		progress()
	}
	rec([]int{t.First})
	b, _ := json.Marshal(res)
	return b
}

// ------------------------------------------------------------------ (c) commands on a subscribed connection

// runSubscriberScripts: "one reply per command, Pub/Sub pushes aside".  A connection subscribes, a
// second connection publishes (the subscriber receives the push), virtual time passes (0, 300 ms,
// 2 s), the subscriber sends each command of the pipeline alphabet, a second push arrives, time
// passes again and the subscriber sends PING: every command must get exactly one well-formed reply,
// whatever the server did to the connection while delivering the pushes.
func runSubscriberScripts(rep *ev.Report) (int, string) {
	h.Boot(shardNum, 1)
	rt.CurMode = rt.Free
	n := 0
	viol := 0
	sample := ""
	for _, adv1 := range []int64{0, 300, 2000} {
		for _, adv2 := range []int64{0, 300} {
			for _, cmd := range pipeAlphabet {
				if viol >= 4 {
					return n, sample
				}
				n++
				w := rt.NewWorld()
				mgr := h.NewManager()
				ctx, cancel := context.WithCancel(context.Background())
				sub, pub := h.NewConn("sub"), h.NewConn("pub")
				go mgr.Handle(ctx, sub)
				go mgr.Handle(ctx, pub)
				script := fmt.Sprintf("SUBSCRIBE ch ; (other connection) PUBLISH ch m1 ; +%d ms ; %q ; PUBLISH ch m2 ; +%d ms ; PING", adv1, cmd, adv2)
				bad := func(kind, detail string) {
					viol++
					rep.Add(&ev.Violation{Engine: "seqmc/c03", Kind: kind, Cmd: strings.ToLower(cmd[0]), Shape: fmt.Sprintf("subscriber,+%dms,+%dms", adv1, adv2),
						Detail: "subscriber script [" + script + "]: " + detail,
						Replay: map[string]interface{}{"engine": "seqmc", "prop": "C03", "subscriber_script": script}})
				}
				step := func(c *h.Conn, args []string, what string) bool {
					c.Send(model.EncodeCommand(h.B(args...)))
					_, _, st := c.TakeReply(10 * time.Second)
					if st != "ok" {
						bad("no-reply", fmt.Sprintf("%s: %q gets no well-formed reply (%s)", what, args, st))
						return false
					}
					return true
				}
				push := func(what string) bool {
					if _, _, st := sub.TakeReply(10 * time.Second); st != "ok" {
						bad("push-lost", what+": the subscriber does not receive the published message ("+st+")")
						return false
					}
					return true
				}
				ok := step(sub, []string{"SUBSCRIBE", "ch"}, "subscribe") &&
					step(pub, []string{"PUBLISH", "ch", "m1"}, "first publish") && push("first push")
				if ok {
					w.Advance(adv1 * 1e6)
					ok = step(sub, cmd, "command on the subscribed connection after the first push")
				}
				if ok {
					ok = step(pub, []string{"PUBLISH", "ch", "m2"}, "second publish") && push("second push")
				}
				if ok {
					w.Advance(adv2 * 1e6)
					ok = step(sub, []string{"PING"}, "PING on the subscribed connection after the second push")
				}
				if ok {
					sub.EOF()
					sub.WaitClosed(5 * time.Second)
					if extra := sub.Output(); len(extra) > 0 {
						bad("extra-bytes", fmt.Sprintf("%d bytes after the last reply: %q", len(extra), extra))
					}
				}
				sub.EOF()
				pub.EOF()
				cancel()
				if p := rt.TakeFreePanics(); len(p) > 0 {
					bad("panic", fmt.Sprintf("panic %s in %s", p[0].Value, p[0].Func))
				}
				if sample == "" {
					sample = "subscriber script [" + script + "]"
				}
				w.Kill()
			}
		}
	}
	return n, sample
}

// runAliasProbe: replies are produced for one connection while other connections' handlers run
// concurrently, so the bytes of a reply must stay intact after *later* replies have been built.
// Every reply of a batch of reads (pairs of keys holding different payloads of equal length) is
// kept as the raw slice returned by ToBytes and only decoded after the whole batch has run.
func runAliasProbe(rep *ev.Report) (int, string) {
	h.Boot(shardNum, 1)
	rt.CurMode = rt.Controlled
	rt.NewWorld()
	mgr := h.NewManager()
	bg := context.Background()
	ks := model.NewKS(rt.Epoch * 1000)
	run := func(args ...string) ([]byte, []model.Outcome) {
		outs := ks.Apply(h.B(args...))
		raw := h.ReplyBytes(mgr.ExecCommand(bg, h.B(args...), nil)) // NOT copied: this is what conn.Write would get
		if v, err := model.DecodeOne(raw); err == nil {
			for _, o := range outs {
				if n, why := o.Check(v); why == "" {
					ks = n
					break
				}
			}
		}
		return raw, outs
	}
	var pay [][2]string
	for _, l := range []int{1, 2, 3, 4, 8, 31, 32, 33, 100} {
		pay = append(pay, [2]string{strings.Repeat("a", l), strings.Repeat("b", l)})
	}
	n := 0
	for _, p := range pay {
		for i, v := range []string{p[0], p[1]} {
			k := fmt.Sprintf("s%d", i)
			run("SET", k, v)
			run("DEL", "l"+k, "h"+k, "t"+k, "z"+k, "x"+k)
			run("RPUSH", "l"+k, v)
			run("HSET", "h"+k, v, v)
			run("SADD", "t"+k, v)
			run("ZADD", "z"+k, "1", v)
			run("XADD", "x"+k, "*", v, v)
		}
		type held struct {
			args []string
			raw  []byte
			outs []model.Outcome
		}
		var batch []held
		for _, rd := range [][]string{{"GET", "s%d"}, {"LRANGE", "ls%d", "0", "-1"}, {"HGETALL", "hs%d"}, {"SMEMBERS", "ts%d"}, {"ZRANGE", "zs%d", "0", "-1"}, {"XRANGE", "xs%d", "-", "+"}, {"GETRANGE", "s%d", "0", "-1"}, {"HKEYS", "hs%d"}, {"LINDEX", "ls%d", "0"}, {"TYPE", "s%d"}} {
			for i := 0; i < 2; i++ {
				args := append([]string{}, rd...)
				args[1] = fmt.Sprintf(args[1], i)
				raw, outs := run(args...)
				batch = append(batch, held{args, raw, outs})
			}
		}
		for _, b := range batch {
			n++
			v, err := model.DecodeOne(b.raw)
			ok := err == nil
			if ok {
				ok = false
				for _, o := range b.outs {
					if _, why := o.Check(v); why == "" {
						ok = true
					}
				}
			}
			if !ok {
				rep.Add(&ev.Violation{Engine: "seqmc/c03", Kind: "reply-bytes-invalidated", Cmd: strings.ToLower(b.args[0]), Shape: fmt.Sprintf("payload-len=%d", len(p[0])),
					Detail: fmt.Sprintf("reply of %q read after later replies had been built is %q: reply buffers are shared between commands, so concurrent connections can receive each other's bytes", b.args, b.raw),
					Replay: map[string]interface{}{"engine": "seqmc", "prop": "C03", "phase": "alias-probe", "args": b.args}})
			}
		}
	}
	rt.W.Kill()
	return n, "alias probe: replies of 20 reads on twin keys (payload lengths 1..100) decoded only after the whole batch was produced"
}

func runC03() int {
	tier := os.Getenv("VERIF_TIER")
	if tier != "thorough" {
		tier = "quick"
	}
	rep := ev.NewReport("C03", "exploration")
	spec := getSpec("C03", tier)
	cov := runSpecInto(rep, "C03", tier, spec)
	// (b)
	plen := 3 // (a Pub/Sub push followed by a later command on the subscriber needs three steps)
	if tier == "thorough" {
		plen = 4
	}
	p := &pool.Pool{Handler: "c03pipe", N: nWorkers(), Timeout: 4 * time.Minute, MemMB: 3072}
	var tasks [][]byte
	for i := range pipeAlphabet {
		b, _ := json.Marshal(pipeTask{First: i, Len: plen})
		tasks = append(tasks, b)
	}
	runs, pipes, pipesCut := 0, 0, 0
	var samples []string
	p.Map(tasks, func(tb, out []byte, crash *pool.Crash) [][]byte {
		if crash != nil {
			var t pipeTask
			json.Unmarshal(tb, &t)
			rep.Add(&ev.Violation{Engine: "seqmc/c03", Kind: "pipeline-" + crash.Kind, Cmd: strings.ToLower(pipeAlphabet[t.First][0]), Shape: "first",
				Detail: fmt.Sprintf("worker %s while running pipelines starting with %q: %s", crash.Kind, pipeAlphabet[t.First], firstLine(crash.Detail)),
				Replay: map[string]interface{}{"engine": "seqmc", "prop": "C03", "first": pipeAlphabet[t.First]}})
			return nil
		}
		var r pipeResult
		json.Unmarshal(out, &r)
		runs += r.Runs
		pipes += r.Pipelines
		pipesCut += r.Cut
		if len(samples) < 4 {
			samples = append(samples, r.Samples...)
		}
		for _, v := range r.Viol {
			rep.Add(&ev.Violation{Engine: "seqmc/c03", Kind: v.Kind, Cmd: v.Cmd, Shape: v.Shape, Detail: v.Detail,
				Replay: map[string]interface{}{"engine": "seqmc", "prop": "C03", "pipeline": v.Pipeline, "split": v.Split}})
		}
		return nil
	})
	// (d) connection-level scenarios under the interleaving explorer: the real connection handler and
	// parser of a subscribed connection against concurrent publishers (replies and pushes share a stream)
	concSum, concRan, concErr := rep.ConcStage("C03")
	if concErr != nil {
		fmt.Fprintln(os.Stderr, "seqmc:", concErr)
		return 2
	}
	aliasN, aliasSample := runAliasProbe(rep)
	samples = append(samples, aliasSample)
	subN, subSample := runSubscriberScripts(rep)
	samples = append(samples, subSample)
	tr, _ := cov["transitions"].(int)
	tr += aliasN
	mu, _ := cov["mutating_transitions"].(int)
	ss, _ := cov["samples"].([]string)
	out := map[string]interface{}{
		"evaluations":                        tr + runs,
		"distinct_nontrivial":                mu + pipes,
		"rule":                               fmt.Sprint(cov["rule"]) + "; plus every pipeline of <= the length bound over a 20-command alphabet through Manager.Handle, as one chunk and every two-chunk split: reply count, order and model agreement. Non-trivial = state-changing single commands + distinct pipelines",
		"samples":                            append(ss, samples...),
		"exhaustive":                         cov["exhaustive"] == true && pipesCut == 0,
		"pipelines_cut_after_three_timeouts": pipesCut,
		"single_command_cases":               tr,
		"concurrent_stage":                   map[string]interface{}{"ran": concRan, "summary": concSum},
		"alphabet_size":                      cov["alphabet_size"],
		"pipelines":                          pipes,
		"pipeline_runs":                      runs,
		"pipeline_max_len":                   plen,
		"alias_probe_replies":                aliasN,
		"subscriber_scripts":                 subN,
		"poisoned_states":                    cov["poisoned_states"],
	}
	return rep.Finish(out, seqAssumptions)
}
