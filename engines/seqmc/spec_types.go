package main

import (
	"time"

	"verif/h"
	"verif/model"
)

func depthOf(tier string, quick, thorough int) int {
	if tier == "thorough" {
		return thorough
	}
	return quick
}

func init() {
	// ------------------------------------------------------------------ C09 lists
	specs["C09"] = func(tier string) *Spec {
		ks := h.Keys(shardNum)
		k0, k1 := ks.K0, ks.K1
		var ops []Op
		add := func(o ...Op) { ops = append(ops, o...) }
		for _, k := range []string{k0, k1} {
			add(C("LLEN", k))
			for _, c := range []string{"LPUSH", "RPUSH"} {
				add(C(c, k, "a"), C(c, k, "b"), C(c, k, "a", "b"))
			}
		}
		add(C("LPUSHX", k0, "a"), C("RPUSHX", k0, "b"), C("lpushx", k1, "b"), C("RPUSHX", k1, "a", "b"))
		for _, c := range []string{"LPOP", "RPOP"} {
			add(C(c, k0), C(c, k1))
			for _, n := range []string{"0", "1", "2", "5", "-1", "x"} {
				add(C(c, k0, n))
			}
		}
		idx := []string{"-3", "-2", "-1", "0", "1", "2", "3"}
		for _, i := range idx {
			add(C("LINDEX", k0, i))
		}
		add(C("LINDEX", k0, "x"), C("LINDEX", k0))
		for _, i := range idx {
			for _, j := range idx {
				add(C("LRANGE", k0, i, j))
			}
		}
		add(C("LRANGE", k0, "0", "x"), C("LRANGE", k0, "0"), C("LRANGE", k1, "0", "-1"))
		for _, i := range []string{"-3", "-1", "0", "1", "3"} {
			add(C("LSET", k0, i, "a"), C("LSET", k0, i, "b"))
		}
		add(C("LSET", k0, "x", "a"), C("LSET", k0, "0"))
		for _, i := range idx {
			for _, j := range idx {
				add(C("LTRIM", k0, i, j))
			}
		}
		add(C("LTRIM", k0, "0", "x"), C("LTRIM", k0, "0"))
		for _, c := range []string{"-2", "-1", "0", "1", "2"} {
			add(C("LREM", k0, c, "a"), C("LREM", k0, c, "b"))
		}
		add(C("LREM", k0, "x", "a"), C("LREM", k0, "0"))
		for _, e := range []string{"a", "b"} {
			add(C("LPOS", k0, e))
			for _, r := range []string{"-2", "-1", "1", "2", "0"} {
				add(C("LPOS", k0, e, "RANK", r))
			}
			for _, c := range []string{"0", "1", "2"} {
				add(C("LPOS", k0, e, "COUNT", c), C("LPOS", k0, e, "MAXLEN", c))
			}
			for _, r := range []string{"-1", "1", "2"} {
				for _, c := range []string{"0", "2"} {
					add(C("LPOS", k0, e, "rank", r, "count", c))
				}
			}
			add(C("LPOS", k0, e, "RANK", "-1", "COUNT", "0", "MAXLEN", "2"), C("LPOS", k0, e, "COUNT", "0", "MAXLEN", "1"),
				C("LPOS", k0, e, "RANK", "2", "MAXLEN", "2"), C("LPOS", k0, e, "MAXLEN", "2", "RANK", "-2"))
		}
		add(C("LPOS", k0, "a", "RANK"), C("LPOS", k0, "a", "FOO", "1"), C("LPOS", k0, "a", "COUNT", "-1"), C("LPOS", k0))
		for _, pr := range [][2]string{{k0, k1}, {k1, k0}, {k0, k0}} {
			for _, f := range []string{"LEFT", "right"} {
				for _, t := range []string{"left", "RIGHT"} {
					add(C("LMOVE", pr[0], pr[1], f, t))
				}
			}
		}
		add(C("LMOVE", k0, k1, "UP", "LEFT"), C("LMOVE", k0, k1, "LEFT"))
		avail := func(keys ...string) func(*model.KS) bool {
			return func(s *model.KS) bool {
				for _, k := range keys {
					if e := s.M[k]; e != nil && e.T == "list" && len(e.List) > 0 {
						return true
					}
				}
				return false
			}
		}
		for _, c := range []string{"BLPOP", "BRPOP"} {
			add(Op{A: h.B(c, k0, "0"), Guard: avail(k0)}, C(c, k0, "1"), C(c, k0, k1, "1"),
				Op{A: h.B(c, k1, k0, "0"), Guard: avail(k0, k1)}, C(c, k0, "-1"), C(c, k0, "x"), C(c, k0))
		}
		seeds := []Seed{
			{Name: "empty"},
			{Name: "[a]", Prog: []Op{C("RPUSH", k0, "a")}},
			{Name: "[a,b,a]", Prog: []Op{C("RPUSH", k0, "a", "b", "a")}},
			{Name: "[a,a,a,b]", Prog: []Op{C("RPUSH", k0, "a", "a", "a", "b")}},
			{Name: "k0=string", Prog: []Op{C("SET", k0, "a")}},
			{Name: "k0=[a,b],k1=string", Prog: []Op{C("RPUSH", k0, "a", "b"), C("SET", k1, "x")}},
			{Name: "k0=set", Prog: []Op{C("SADD", k0, "a")}},
		}
		return &Spec{Prop: "C09", ShardNum: shardNum, Keys: []string{k0, k1}, Alphabet: ops, Seeds: seeds,
			Depth: depthOf(tier, 3, 6), Budget: budget(tier, 150*time.Second, 25*time.Minute), TTLTolMs: 1000,
			Rule: "BFS over programs of list commands (elements {a,b}, indexes/counts in -3..3 and beyond) from empty, seeded lists and wrong-typed keys; each transition executes the real executor and is compared with a Go-slice model (reply, LRANGE/LLEN/EXISTS/TYPE observers, list link invariants)"}
	}

	// ------------------------------------------------------------------ C10 hashes
	specs["C10"] = func(tier string) *Spec {
		ks := h.Keys(shardNum)
		k0 := ks.K0
		var ops []Op
		add := func(o ...Op) { ops = append(ops, o...) }
		fields := []string{"f", "g", ""}
		vals := []string{"", "a", "10", "9223372036854775807", "-9223372036854775808", "1.5", "x\r\n"}
		add(C("HLEN", k0), C("HGETALL", k0), C("HKEYS", k0), C("HVALS", k0))
		for _, f := range fields {
			add(C("HGET", k0, f), C("HEXISTS", k0, f), C("HSTRLEN", k0, f), C("HDEL", k0, f))
			for _, v := range vals {
				add(C("HSET", k0, f, v))
			}
			add(C("HSETNX", k0, f, "a"), C("HSETNX", k0, f, ""))
			for _, n := range []string{"1", "-1", "9223372036854775807", "-9223372036854775808", "x", "1.5"} {
				add(C("HINCRBY", k0, f, n))
			}
			for _, x := range []string{"0.5", "-1", "1e3", "nan", "inf", "x"} {
				add(C("HINCRBYFLOAT", k0, f, x))
			}
		}
		add(C("HSET", k0, "f", "a", "g", "b"), C("hset", k0, "f", "1", "f", "2"), C("HSET", k0, "f"), C("HSET", k0, "f", "a", "g"), C("HSET", k0))
		add(C("HMGET", k0, "f"), C("HMGET", k0, "f", "g", "", "zz"), C("HMGET", k0, "f", "f"), C("HMGET", k0))
		add(C("HDEL", k0, "f", "g"), C("HDEL", k0, "f", "f"), C("HDEL", k0, "f", "g", ""), C("HDEL", k0))
		add(C("HRANDFIELD", k0))
		for _, c := range []string{"-2", "-1", "0", "1", "2", "5", "x"} {
			add(C("HRANDFIELD", k0, c), C("HRANDFIELD", k0, c, "WITHVALUES"))
		}
		add(C("HRANDFIELD", k0, "1", "FOO"), C("HGET", k0), C("HSETNX", k0, "f"), C("HINCRBY", k0, "f"), C("HLEN"), C("HEXISTS", k0),
			C("HSTRLEN", k0), C("HGETALL"), C("HINCRBYFLOAT", k0, "f"))
		seeds := []Seed{
			{Name: "empty"},
			{Name: "{f:a}", Prog: []Op{C("HSET", k0, "f", "a")}},
			{Name: "{f:10,g:1.5}", Prog: []Op{C("HSET", k0, "f", "10", "g", "1.5")}},
			{Name: "{f:'',:x}", Prog: []Op{C("HSET", k0, "f", "", "", "x")}},
			{Name: "k0=string", Prog: []Op{C("SET", k0, "a")}},
			{Name: "k0=list", Prog: []Op{C("RPUSH", k0, "a")}},
		}
		return &Spec{Prop: "C10", ShardNum: shardNum, Keys: []string{k0}, Alphabet: ops, Seeds: seeds,
			Depth: depthOf(tier, 4, 6), Budget: budget(tier, 150*time.Second, 25*time.Minute), TTLTolMs: 1000,
			Rule: "BFS over programs of hash commands (fields {f,g,''}, values incl. empty, numeric extremes, CRLF) from empty, seeded hashes and wrong-typed keys; compared with a map model (reply, HGETALL/HLEN/EXISTS/TYPE observers)"}
	}

	// ------------------------------------------------------------------ C11 sets
	specs["C11"] = func(tier string) *Spec {
		ks := h.Keys(shardNum)
		k0, k1, k2 := ks.K0, ks.K1, ks.K2
		keys := []string{k0, k1, k2}
		var ops []Op
		add := func(o ...Op) { ops = append(ops, o...) }
		mem := []string{"a", "b", ""}
		for _, k := range keys {
			add(C("SCARD", k), C("SMEMBERS", k))
		}
		for _, k := range []string{k0, k1} {
			for _, m := range mem {
				add(C("SADD", k, m), C("SREM", k, m), C("SISMEMBER", k, m))
			}
			add(C("SADD", k, "a", "b"), C("SADD", k, "a", "a"), C("SREM", k, "a", "b"), C("SREM", k, "a", "a"))
			add(C("SPOP", k), C("SRANDMEMBER", k))
			for _, c := range []string{"0", "1", "2", "5", "-1"} {
				add(C("SPOP", k, c))
			}
			for _, c := range []string{"-2", "0", "1", "2", "5"} {
				add(C("SRANDMEMBER", k, c))
			}
		}
		for _, pr := range [][2]string{{k0, k1}, {k1, k0}, {k0, k0}, {k0, k2}, {k2, k0}} {
			for _, m := range mem {
				add(C("SMOVE", pr[0], pr[1], m))
			}
		}
		for _, c := range []string{"SUNION", "SINTER", "SDIFF"} {
			add(C(c, k0), C(c, k0, k1), C(c, k1, k0), C(c, k0, k0), C(c, k0, k1, k2), C(c, k2, k0), C(c, k2), C(c))
		}
		for _, c := range []string{"SUNIONSTORE", "SINTERSTORE", "SDIFFSTORE"} {
			add(C(c, k2, k0, k1), C(c, k0, k0, k1), C(c, k1, k0, k1), C(c, k2, k0), C(c, k2, k1, k0), C(c, k0, k1), C(c, k0, k2), C(c, k2, k2, k0), C(c, k2), C(c))
		}
		add(C("SADD", k0), C("SREM", k0), C("SISMEMBER", k0), C("SMOVE", k0, k1), C("SPOP", k0, "x"), C("SRANDMEMBER", k0, "x"), C("SCARD"), C("SPOP", k0, "1", "2"))
		seeds := []Seed{
			{Name: "empty"},
			{Name: "k0={a}", Prog: []Op{C("SADD", k0, "a")}},
			{Name: "k0={a,b},k1={b,''}", Prog: []Op{C("SADD", k0, "a", "b"), C("SADD", k1, "b", "")}},
			{Name: "k0={a},k2=string", Prog: []Op{C("SADD", k0, "a"), C("SET", k2, "x")}},
			{Name: "k0=string", Prog: []Op{C("SET", k0, "x")}},
			{Name: "k0={a,b},k1=list", Prog: []Op{C("SADD", k0, "a", "b"), C("RPUSH", k1, "a")}},
			{Name: "k0={a},k2={a,b}", Prog: []Op{C("SADD", k0, "a"), C("SADD", k2, "a", "b")}},
		}
		return &Spec{Prop: "C11", ShardNum: shardNum, Keys: keys, Alphabet: ops, Seeds: seeds,
			Depth: depthOf(tier, 8, 8), Budget: budget(tier, 150*time.Second, 25*time.Minute), TTLTolMs: 1000,
			Rule: "BFS over programs of set commands (members {a,b,''}; keys colliding and not; every combination of existing/missing/wrong-typed operands) compared with a map-of-sets model; SPOP's result is adopted after checking it was a current member"}
	}

	// ------------------------------------------------------------------ C12 sorted sets
	specs["C12"] = func(tier string) *Spec {
		ks := h.Keys(shardNum)
		k0 := ks.K0
		var ops []Op
		add := func(o ...Op) { ops = append(ops, o...) }
		members := []string{"a", "b", "c", "d", "e", "A"}
		scores := []string{"-1", "0", "1", "2", "1.5", "+inf", "-inf"}
		for _, m := range members {
			for _, s := range scores {
				add(C("ZADD", k0, s, m))
			}
			add(C("ZREM", k0, m), C("ZRANK", k0, m))
		}
		add(C("ZADD", k0, "nan", "a"), C("ZADD", k0, "x", "a"), C("ZADD", k0, "1", "a", "1", "b"), C("ZADD", k0, "1", "a", "2", "a"),
			C("ZADD", k0, "3", "c", "2", "b", "1", "a"), C("ZADD", k0, "1", "a", "x", "b"), C("ZADD", k0, "1"), C("ZADD", k0, "1", "a", "2"), C("ZADD", k0))
		// options, both letter cases, every legal combination + incompatible ones
		for _, cond := range [][]string{{"NX"}, {"xx"}, {"GT"}, {"lt"}, {"XX", "GT"}, {"xx", "LT"}} {
			for _, ch := range [][]string{nil, {"CH"}, {"ch"}} {
				for _, sm := range [][2]string{{"2", "a"}, {"0", "a"}, {"1", "b"}} {
					a := append([]string{"ZADD", k0}, cond...)
					a = append(a, ch...)
					a = append(a, sm[0], sm[1])
					add(C(a...))
				}
			}
		}
		add(C("ZADD", k0, "CH", "2", "a"), C("ZADD", k0, "ch", "1", "a", "5", "z"))
		for _, cond := range [][]string{nil, {"NX"}, {"XX"}, {"GT"}, {"LT"}} {
			for _, sm := range [][2]string{{"1", "a"}, {"-2", "a"}, {"+inf", "a"}, {"-inf", "a"}, {"1", "z"}} {
				a := append([]string{"ZADD", k0}, cond...)
				a = append(a, "INCR", sm[0], sm[1])
				add(C(a...))
			}
		}
		add(C("ZADD", k0, "incr", "1", "a"), C("ZADD", k0, "INCR", "1", "a", "2", "b"), C("ZADD", k0, "NX", "XX", "1", "a"),
			C("ZADD", k0, "GT", "LT", "1", "a"), C("ZADD", k0, "NX", "GT", "1", "a"), C("ZADD", k0, "nx", "lt", "1", "a"))
		add(C("ZREM", k0, "a", "b"), C("ZREM", k0, "a", "a"), C("ZREM", k0, "a", "b", "c", "d", "e", "A"), C("ZREM", k0), C("ZRANK", k0), C("ZRANK", k0, "zz"))
		idx := []string{"-3", "-2", "-1", "0", "1", "2", "3"}
		for _, i := range idx {
			for _, j := range idx {
				add(C("ZRANGE", k0, i, j))
			}
		}
		for _, ij := range [][2]string{{"0", "-1"}, {"1", "2"}, {"-2", "-1"}, {"0", "0"}, {"0", "1"}, {"2", "1"}} {
			add(C("ZRANGE", k0, ij[0], ij[1], "WITHSCORES"), C("ZRANGE", k0, ij[0], ij[1], "REV"), C("ZRANGE", k0, ij[0], ij[1], "rev", "withscores"))
		}
		add(C("ZRANGE", k0, "0", "x"), C("ZRANGE", k0, "0"), C("ZRANGE", k0, "0", "-1", "FOO"))
		seeds := []Seed{
			{Name: "empty"},
			{Name: "{a:1}", Prog: []Op{C("ZADD", k0, "1", "a")}},
			{Name: "{a:1,b:1,c:2}", Prog: []Op{C("ZADD", k0, "1", "a", "1", "b", "2", "c")}},
			{Name: "5 distinct scores", Prog: []Op{C("ZADD", k0, "1", "a"), C("ZADD", k0, "2", "b"), C("ZADD", k0, "3", "c"), C("ZADD", k0, "4", "d"), C("ZADD", k0, "5", "e")}},
			{Name: "7 nodes height 3", Prog: []Op{C("ZADD", k0, "4", "d"), C("ZADD", k0, "2", "b"), C("ZADD", k0, "6", "f"), C("ZADD", k0, "1", "a"), C("ZADD", k0, "3", "c"), C("ZADD", k0, "5", "e"), C("ZADD", k0, "7", "g")}},
			{Name: "k0=string", Prog: []Op{C("SET", k0, "x")}},
		}
		return &Spec{Prop: "C12", ShardNum: shardNum, Keys: []string{k0}, Alphabet: ops, Seeds: seeds,
			Depth: depthOf(tier, 3, 4), Budget: budget(tier, 150*time.Second, 25*time.Minute), TTLTolMs: 1000,
			Rule: "BFS over programs of ZADD(options)/ZREM/ZRANK/ZRANGE (members a-e,A; tied, negative, fractional and infinite scores) from empty and seeded trees (incl. height 3); compared with a map+sort model; the AVL checker (BST order, heights, balance, len, dict<->Names) runs in every state"}
	}

	// ------------------------------------------------------------------ C18 streams
	specs["C18"] = func(tier string) *Spec {
		ks := h.Keys(shardNum)
		k0 := ks.K0
		var ops []Op
		add := func(o ...Op) { ops = append(ops, o...) }
		ids := []string{"*", "5-1", "5-0", "5-2", "4-9", "6-*", "5-*", "5", "6", "0-0", "0-1", "18446744073709551615-0", "1700000000000-0", "1700000000001-5", "5-", "a-b", "-1-1"}
		for _, id := range ids {
			add(C("XADD", k0, id, "f", "v"))
		}
		add(C("XADD", k0, "*", "", "a b"), C("XADD", k0, "*", "f", "x\r\ny", "g", ""), C("XADD", k0, "7-7", "f", "v", "g", "w"),
			C("XADD", k0, "*", "f"), C("XADD", k0, "*"), C("XADD", k0, "*", "f", "v", "g"), C("XADD", k0), C("xadd", k0, "NOMKSTREAM", "*", "f", "v"),
			C("XADD", k0, "nomkstream", "5-5", "f", "v"))
		for _, eq := range [][]string{nil, {"="}, {"~"}} {
			for _, n := range []string{"0", "1", "2"} {
				a := append([]string{"XADD", k0, "MAXLEN"}, eq...)
				a = append(a, n, "*", "f", "v")
				add(C(a...))
			}
			for _, id := range []string{"5-1", "6", "0"} {
				a := append([]string{"XADD", k0, "minid"}, eq...)
				a = append(a, id, "*", "f", "v")
				add(C(a...))
			}
		}
		add(C("XADD", k0, "MAXLEN", "-1", "*", "f", "v"), C("XADD", k0, "MAXLEN", "x", "*", "f", "v"), C("XADD", k0, "MAXLEN"), C("XADD", k0, "MAXLEN", "1"),
			C("XADD", k0, "MAXLEN", "~"), C("XADD", k0, "MINID", "a", "*", "f", "v"), C("XADD", k0, "NOMKSTREAM", "MAXLEN", "1", "9-9", "f", "v"),
			C("XADD", k0, "MAXLEN", "~", "1", "LIMIT", "10", "*", "f", "v"))
		bounds := []string{"-", "+", "5", "5-0", "5-1", "5-2", "6", "(5-1", "4", "1700000000000", "(5"}
		for _, s := range bounds {
			for _, e := range bounds {
				add(C("XRANGE", k0, s, e))
			}
		}
		add(C("XRANGE", k0, "a", "+"), C("XRANGE", k0, "-", "b"), C("XRANGE", k0, "-"), C("XRANGE", k0), C("XRANGE", k0, "(-", "+"))
		// COUNT, and anything else after the bounds
		add(C("XRANGE", k0, "-", "+", "COUNT", "1"), C("XRANGE", k0, "-", "+", "count", "2"), C("XRANGE", k0, "5-2", "+", "COUNT", "1"), C("XRANGE", k0, "-", "+", "COUNT", "0"),
			C("XRANGE", k0, "-", "+", "COUNT", "-1"), C("XRANGE", k0, "-", "+", "COUNT", "x"), C("XRANGE", k0, "-", "+", "COUNT"), C("XRANGE", k0, "-", "+", "0"), C("XRANGE", k0, "-", "+", "LIMIT", "1"))
		add(Op{AdvMs: 1}, Op{AdvMs: 1000})
		seeds := []Seed{
			{Name: "empty"},
			{Name: "[5-1]", Prog: []Op{C("XADD", k0, "5-1", "f", "v")}},
			{Name: "[5-1,5-2,6-0]", Prog: []Op{C("XADD", k0, "5-1", "f", "v"), C("XADD", k0, "5-2", "g", "w"), C("XADD", k0, "6-0", "", "x\r\ny")}},
			{Name: "[auto,auto]", Prog: []Op{C("XADD", k0, "*", "f", "1"), C("XADD", k0, "*", "f", "2")}},
			{Name: "[future id]", Prog: []Op{C("XADD", k0, "1800000000000-3", "f", "v")}},
			{Name: "k0=string", Prog: []Op{C("SET", k0, "x")}},
		}
		return &Spec{Prop: "C18", ShardNum: shardNum, Keys: []string{k0}, Alphabet: ops, Seeds: seeds,
			Depth: depthOf(tier, 4, 6), Budget: budget(tier, 150*time.Second, 25*time.Minute), TTLTolMs: 1000,
			Rule: "BFS over programs of XADD (explicit/partial/auto ids, NOMKSTREAM, MAXLEN/MINID with = and ~) and XRANGE (all bound shapes) plus 1 ms / 1 s clock events; compared with an ordered-slice model; id order and id<->entry bijection checked in every state"}
	}
}

func init() {
	// ------------------------------------------------------------------ C06 expiry
	specs["C06"] = func(tier string) *Spec {
		ks := h.Keys(shardNum)
		k0, k1 := ks.K0, ks.K1
		var ops []Op
		add := func(o ...Op) { ops = append(ops, o...) }
		// clock events
		add(Op{AdvMs: 500}, Op{AdvMs: 1000})
		// ways of attaching a deadline
		for _, t := range []string{"1", "2", "0", "-1"} {
			add(C("EXPIRE", k0, t))
			for _, o := range []string{"NX", "xx", "GT", "lt"} {
				add(C("EXPIRE", k0, t, o))
			}
		}
		add(C("EXPIRE", k0, "3", "GT"), C("EXPIRE", k0, "3", "LT"), C("EXPIRE", k0, "x"), C("EXPIRE", k0, "1", "FOO"), C("EXPIRE", k1, "1"))
		for _, t := range []string{"1", "2"} {
			add(C("SETEX", k0, t, "v"), C("SET", k0, "v", "EX", t), C("SET", k0, "v", "PX", t+"000"), C("SET", k0, "v", "EXAT", "@now+"+t))
		}
		add(C("SET", k0, "v", "PX", "1500"), C("SET", k0, "10", "EX", "1"))
		// deadlines centuries away (a remaining time above 2^63 ns overflows a time.Duration): valid
		// input, the key must simply stay
		add(C("EXPIRE", k0, "10000000000"), C("SET", k0, "v", "EX", "10000000000"), C("SETEX", k0, "10000000000", "v"), C("SET", k0, "v", "PX", "10000000000000"))
		// ways of keeping / replacing / removing it
		add(C("SET", k0, "w"), C("SET", k0, "w", "KEEPTTL"), C("SET", k0, "w", "XX", "KEEPTTL"), C("PERSIST", k0), C("DEL", k0), C("RENAME", k0, k1), C("RENAME", k1, k0),
			C("APPEND", k0, "x"), C("INCR", k0), C("MSET", k0, "m"), C("SETNX", k0, "n"),
			C("LPUSH", k0, "a"), C("RPOP", k0), C("SADD", k0, "a"), C("SREM", k0, "a"), C("HSET", k0, "f", "v"), C("HDEL", k0, "f"),
			C("ZADD", k0, "1", "a"), C("ZREM", k0, "a"), C("XADD", k0, "*", "f", "v"),
			C("GET", k0), C("TTL", k0), C("EXISTS", k0), C("GETRANGE", k0, "0", "-1"), C("TYPE", k0), C("KEYS", "*"))
		probes := []Op{
			C("GET", k0), C("MGET", k0, k1), C("STRLEN", k0), C("EXISTS", k0), C("TYPE", k0), C("TTL", k0), C("KEYS", "*"), C("GETRANGE", k0, "0", "-1"),
			C("LLEN", k0), C("LRANGE", k0, "0", "-1"), C("LINDEX", k0, "0"), C("LPOS", k0, "a"), C("SCARD", k0), C("SMEMBERS", k0), C("SISMEMBER", k0, "a"), C("SRANDMEMBER", k0),
			C("HLEN", k0), C("HGET", k0, "f"), C("HGETALL", k0), C("HEXISTS", k0, "f"), C("HKEYS", k0), C("HVALS", k0), C("HSTRLEN", k0, "f"), C("HMGET", k0, "f"), C("HRANDFIELD", k0),
			C("ZRANGE", k0, "0", "-1"), C("ZRANK", k0, "a"), C("XRANGE", k0, "-", "+"),
			C("SETNX", k0, "n"), C("SET", k0, "n", "NX"), C("SET", k0, "n", "XX"), C("SET", k0, "n", "GET"), C("APPEND", k0, "x"), C("INCR", k0), C("DECR", k0), C("INCRBY", k0, "5"), C("INCRBYFLOAT", k0, "0.5"), C("SETRANGE", k0, "1", "z"),
			C("LPUSHX", k0, "a"), C("RPUSHX", k0, "a"), C("RPUSH", k0, "a"), C("LPUSH", k0, "a"), C("LPOP", k0), C("RPOP", k0), C("LSET", k0, "0", "z"), C("LREM", k0, "0", "a"), C("LTRIM", k0, "0", "-1"),
			C("LMOVE", k0, k1, "LEFT", "LEFT"), C("LMOVE", k1, k0, "LEFT", "LEFT"), C("BLPOP", k0, "1"),
			C("SADD", k0, "b"), C("SREM", k0, "a"), C("SPOP", k0), C("SMOVE", k0, k1, "a"), C("SMOVE", k1, k0, "a"), C("SUNION", k0, k1), C("SINTER", k0), C("SDIFF", k0, k1),
			C("SUNIONSTORE", k1, k0), C("SINTERSTORE", k1, k0), C("SDIFFSTORE", k1, k0), C("SUNIONSTORE", k0, k1),
			C("HSET", k0, "g", "w"), C("HSETNX", k0, "f", "w"), C("HDEL", k0, "f"), C("HINCRBY", k0, "n", "1"), C("HINCRBYFLOAT", k0, "n", "0.5"),
			C("ZADD", k0, "2", "b"), C("ZADD", k0, "XX", "2", "a"), C("ZREM", k0, "a"), C("XADD", k0, "*", "g", "w"), C("XADD", k0, "NOMKSTREAM", "*", "g", "w"),
			C("DEL", k0), C("EXPIRE", k0, "10"), C("EXPIRE", k0, "10", "XX"), C("PERSIST", k0), C("RENAME", k0, k1), C("SET", k0, "w", "KEEPTTL"),
		}
		seeds := []Seed{
			{Name: "empty"},
			{Name: "string", Prog: []Op{C("SET", k0, "10")}},
			{Name: "string+ttl1", Prog: []Op{C("SET", k0, "10", "EX", "1")}},
			{Name: "string+ttl2,k1", Prog: []Op{C("SET", k0, "10", "EX", "2"), C("SET", k1, "x")}},
			{Name: "list+ttl1", Prog: []Op{C("RPUSH", k0, "a", "b"), C("EXPIRE", k0, "1")}},
			{Name: "hash+ttl1", Prog: []Op{C("HSET", k0, "f", "v"), C("EXPIRE", k0, "1")}},
			{Name: "set+ttl1", Prog: []Op{C("SADD", k0, "a"), C("EXPIRE", k0, "1")}},
			{Name: "zset+ttl1", Prog: []Op{C("ZADD", k0, "1", "a"), C("EXPIRE", k0, "1")}},
			{Name: "stream+ttl1", Prog: []Op{C("XADD", k0, "5-1", "f", "v"), C("EXPIRE", k0, "1")}},
			{Name: "list", Prog: []Op{C("RPUSH", k0, "a")}},
		}
		return &Spec{Prop: "C06", ShardNum: shardNum, Keys: []string{k0, k1}, Alphabet: ops, Seeds: seeds, ProbeOps: probes,
			Lax: true, Variants: []string{"timers run when due", "timer goroutines withheld (lazy expiry only)"},
			Depth: depthOf(tier, 3, 5), Budget: budget(tier, 150*time.Second, 25*time.Minute), TTLTolMs: 1000,
			Rule: "BFS over programs of deadline-attaching / keeping / replacing / removing commands and clock events (0.5 s, 1 s) on every value type, in two scheduling variants; after the last level every reading and writing probe command is applied on a replayed copy; oracle = model with exact ms deadlines and a one-second ambiguity window around each deadline"}
	}
}
