// seqmc — E3: explicit-state breadth-first search over command programs, executed on the
// real executors (server.Manager.ExecCommand) under the controlled runtime, compared step by
// step with the reference model.
package main

import (
	"context"
	"encoding/json"
	"fmt"
	"hash/fnv"
	"os"
	"sort"
	"strconv"
	"strings"
	"time"

	"github.com/innovationb1ue/RedisGO/memdb"
	"github.com/innovationb1ue/RedisGO/server"
	rt "github.com/innovationb1ue/RedisGO/verifrt"
	"verif/ev"
	"verif/h"
	"verif/model"
	"verif/pool"
)

// Op is one letter of the alphabet: a command, or a clock event (AdvMs > 0, no args).
type Op struct {
	A     [][]byte
	AdvMs int64
	// Guard, if set, must hold in the model state for the op to be tried (e.g. a blocking pop
	// with timeout 0 only when an element is available).
	Guard func(ks *model.KS) bool `json:"-"`
}

func (o Op) String() string {
	if len(o.A) == 0 {
		return fmt.Sprintf("advance(%dms)", o.AdvMs)
	}
	parts := make([]string, len(o.A))
	for i, a := range o.A {
		parts[i] = strconv.Quote(string(a))
	}
	return strings.Join(parts, " ")
}

func C(args ...string) Op { return Op{A: h.B(args...)} }

type Seed struct {
	Name string
	Prog []Op
}

type Spec struct {
	Prop      string
	ShardNum  int
	Keys      []string // key alphabet (for observers and shapes)
	Alphabet  []Op
	Seeds     []Seed
	Depth     int
	Budget    time.Duration // internal deadline
	TimersOff bool          // C06 mode (ii): background timer goroutines are withheld
	TTLTolMs  int64
	Rule      string
	// ExtraObservers are issued after the generic per-key sweep.
	ExtraObservers func(ks *model.KS) []Op
	NoObservers    bool
	// Lax selects the one-second-granularity expiry oracle of C06.
	Lax bool
	// Variants: names of scheduling variants; variant 1 withholds background timer goroutines.
	Variants []string
	// ProbeOps are applied (each on a fresh replay, no successors) to the states of the last level.
	ProbeOps []Op
}

// ------------------------------------------------------------------ instance

type inst struct {
	w    *rt.World
	mgr  *server.Manager
	ks   *model.KS
	ctx  context.Context
	spec *Spec
}

func newInst(spec *Spec) *inst {
	w := rt.NewWorld()
	x := &inst{w: w, mgr: h.NewManager(), spec: spec, ctx: context.Background()}
	x.ks = model.NewKS(rt.Epoch * 1000)
	x.ks.Lax = spec.Lax
	return x
}

func (x *inst) close() { x.w.Kill() }

func (x *inst) db() *memdb.MemDb { return x.mgr.CurrentDB }

type execRes struct {
	reply    []byte
	panicRec *rt.PanicRec
	deadlock bool
	blocked  []string
	elapsed  int64 // virtual ms that passed while the command was blocked
}

// exec runs one command as a client thread; blocking commands are driven by advancing the
// virtual clock to the next timer until the thread finishes or the horizon is reached.
func (x *inst) exec(args [][]byte, horizonMs int64) execRes {
	var res execRes
	var reply []byte
	t := x.w.Spawn("client", func() {
		reply = h.Exec(x.ctx, x.mgr, nil, args...)
	})
	bg := !x.spec.TimersOff
	x.w.Chooser = func(w *rt.World, cur *rt.Thread, en []*rt.Thread) *rt.Thread {
		for _, e := range en {
			if e == t {
				return e
			}
		}
		if !bg {
			// only threads spawned by this very command may run (none are withheld timers)
			return nil
		}
		for _, e := range en {
			if e == cur {
				return e
			}
		}
		return en[0]
	}
	start := x.w.Now
	for {
		x.w.Run()
		if t.Done {
			break
		}
		// blocked: is it waiting for virtual time?
		nt := x.w.NextTimer()
		if nt < 0 || (nt-start)/1e6 > horizonMs {
			res.deadlock = true
			for _, b := range x.w.Blocked() {
				res.blocked = append(res.blocked, fmt.Sprintf("%s:%s", b.Name, b.Op.Kind))
			}
			break
		}
		x.w.Advance(nt - x.w.Now)
	}
	res.elapsed = (x.w.Now - start) / 1e6
	res.reply = reply
	res.panicRec = t.Panic
	if res.panicRec == nil && len(x.w.Panics) > 0 {
		res.panicRec = x.w.Panics[len(x.w.Panics)-1]
	}
	x.w.Panics = nil
	return res
}

// implCanon dumps the implementation state.
func (x *inst) implCanon() ([]model.CanonKey, *memdb.VerifDumpT) {
	d := x.db().VerifDump()
	return h.CanonOf(d), d
}

func (x *inst) stateHash(c []model.CanonKey) uint64 {
	hs := fnv.New64a()
	now := x.ks.NowMs
	for _, k := range x.db().VerifDump().Keys {
		if k.Hidden != "" {
			fmt.Fprintf(hs, "H%q=%s|", k.Key, k.Hidden)
		}
	}
	for _, k := range c {
		fmt.Fprintf(hs, "%q|%s|%s|", k.Key, k.Type, k.Body)
		if k.TTL != 0 {
			fmt.Fprintf(hs, "t%d", k.TTL-now)
		}
		hs.Write([]byte{'\n'})
	}
	hs.Write([]byte("M\n"))
	for _, k := range x.ks.Canon() {
		fmt.Fprintf(hs, "%q|%s|%s|", k.Key, k.Type, k.Body)
		if k.TTL != 0 {
			fmt.Fprintf(hs, "t%d", k.TTL-now)
		}
		hs.Write([]byte{'\n'})
	}
	fmt.Fprintf(hs, "phase%d|", now%1000)
	for _, d := range x.w.PendingTimers() {
		fmt.Fprintf(hs, "T%d,", d)
	}
	return hs.Sum64()
}

// ------------------------------------------------------------------ stepping

type stepOut struct {
	viol     []*ev.Violation
	poisoned bool
	hash     uint64
	changed  bool
}

var keywords = map[string]bool{}

func init() {
	for _, k := range strings.Fields("nx xx get ex px exat pxat keepttl gt lt ch incr left right rank count maxlen withscores withvalues rev limit nomkstream minid = ~ * - + add delete update list") {
		keywords[k] = true
	}
}

// shapeOf abstracts an argument vector into the signature shape.
func shapeOf(args [][]byte, pre *model.KS, keys []string) string {
	var parts []string
	isKey := map[string]bool{}
	for _, k := range keys {
		isKey[k] = true
	}
	for _, a := range args[1:] {
		s := string(a)
		switch {
		case isKey[s]:
			t := "none"
			if pre != nil {
				p := pre.Clone()
				p.Sweep()
				if e := p.M[s]; e != nil {
					t = e.T
					if e.Exp != 0 {
						t += "+ttl"
					}
				}
			}
			up := ""
			if strings.ToLower(s) != s {
				up = ",upper"
			}
			parts = append(parts, "K("+t+up+")")
		case keywords[strings.ToLower(s)]:
			parts = append(parts, strings.ToLower(s))
		case s == "":
			parts = append(parts, "empty")
		case isStreamID(s) != "":
			parts = append(parts, isStreamID(s))
		default:
			if i, err := strconv.ParseInt(s, 10, 64); err == nil {
				switch {
				case i == 0:
					parts = append(parts, "0")
				case i < -(1<<31) || i > 1<<31:
					if i < 0 {
						parts = append(parts, "-big")
					} else {
						parts = append(parts, "big")
					}
				case i < 0:
					parts = append(parts, "neg")
				default:
					parts = append(parts, "pos")
				}
			} else if _, err := strconv.ParseUint(s, 10, 64); err == nil {
				parts = append(parts, "u64>i64") // fits an unsigned but not a signed 64-bit integer
			} else if _, err := strconv.ParseFloat(s, 64); err == nil {
				parts = append(parts, "float")
			} else if strings.ContainsAny(s, "\r\n\x00\xff") {
				parts = append(parts, "bin")
			} else {
				parts = append(parts, "s")
			}
		}
	}
	return strings.Join(parts, ",")
}

// isStreamID classifies ms-seq shaped arguments: "id", "id>i64" (a part exceeds int64), "id-*".
func isStreamID(s string) string {
	i := strings.IndexByte(s, '-')
	if i <= 0 || i == len(s)-1 {
		return ""
	}
	ms, seq := s[:i], s[i+1:]
	if _, err := strconv.ParseUint(ms, 10, 64); err != nil {
		return ""
	}
	if seq == "*" {
		return "id-*"
	}
	if _, err := strconv.ParseUint(seq, 10, 64); err != nil {
		return ""
	}
	_, e1 := strconv.ParseInt(ms, 10, 64)
	_, e2 := strconv.ParseInt(seq, 10, 64)
	if e1 != nil || e2 != nil {
		return "id>i64"
	}
	return "id"
}

type replayDoc struct {
	Engine    string     `json:"engine"`
	Prop      string     `json:"prop"`
	ShardNum  int        `json:"shard_num"`
	Seed      string     `json:"seed"`
	Program   []string   `json:"program"` // human readable
	ProgB64   [][][]byte `json:"program_bytes"`
	AdvMs     []int64    `json:"advance_ms"`
	TimersOff bool       `json:"timers_off"`
	Observer  string     `json:"observer,omitempty"`
	Expected  string     `json:"expected"`
	Observed  string     `json:"observed"`
}

func (x *inst) mkReplay(prog []Op, seed string, expected, observed, observer string) replayDoc {
	r := replayDoc{Engine: "seqmc", Prop: x.spec.Prop, ShardNum: x.spec.ShardNum, Seed: seed, TimersOff: x.spec.TimersOff,
		Expected: expected, Observed: observed, Observer: observer}
	for _, o := range prog {
		r.Program = append(r.Program, o.String())
		r.ProgB64 = append(r.ProgB64, o.A)
		r.AdvMs = append(r.AdvMs, o.AdvMs)
	}
	return r
}

// applyModel picks the model outcome consistent with the observed reply and dump.
// Returns (next state, reply mismatch text, state mismatch text).
func applyModel(ks *model.KS, args [][]byte, v model.Val, implC []model.CanonKey, tol int64) (*model.KS, string, string) {
	outs := ks.ApplyLax(args)
	diff := func(next *model.KS) string {
		if ks.Lax {
			return model.DiffCanonLax(next.Canon(), implC, ks.NowMs, tol)
		}
		return model.DiffCanon(next.Canon(), implC, tol)
	}
	var firstReplyWhy string
	var replyOK []*model.KS
	for _, o := range outs {
		next, why := o.Check(v)
		if why != "" {
			if firstReplyWhy == "" {
				firstReplyWhy = why
			}
			continue
		}
		replyOK = append(replyOK, next)
		if diff(next) == "" {
			return next, "", ""
		}
	}
	// no outcome matches both. Does some outcome's state match (reply wrong only)?
	for _, o := range outs {
		if o.Resolve != nil || o.Next == nil {
			continue
		}
		if diff(o.Next) == "" {
			return o.Next, firstReplyWhy, ""
		}
	}
	if len(replyOK) > 0 {
		return nil, "", diff(replyOK[0])
	}
	st := ""
	if outs[0].Next != nil {
		st = diff(outs[0].Next)
	}
	if st == "" {
		st = "(no admissible outcome matches the resulting state)"
	}
	return nil, firstReplyWhy, st
}

// step executes one op on the live instance and checks it.  prog is the program *including* op.
func (x *inst) step(op Op, prog []Op, seedName string, record bool) stepOut {
	var out stepOut
	pre := x.ks
	mkV := func(kind, cmd, shape, fn, detail string, rd replayDoc) *ev.Violation {
		return &ev.Violation{Engine: "seqmc", Kind: kind, Cmd: cmd, Shape: shape, Func: fn, Detail: detail, Replay: rd}
	}
	if len(op.A) == 0 {
		// clock event
		x.w.Advance(op.AdvMs * 1e6)
		x.ks = x.ks.Clone()
		x.ks.NowMs += op.AdvMs
		if !x.spec.TimersOff {
			x.w.Chooser = nil
			x.w.Run()
		}
		if len(x.w.Panics) > 0 {
			p := x.w.Panics[0]
			x.w.Panics = nil
			out.viol = append(out.viol, mkV("panic", "advance", "", p.Func, "panic in background thread after clock advance: "+p.Value,
				x.mkReplay(prog, seedName, "no panic", p.Value+"\n"+p.Stack, "")))
			out.poisoned = true
			return out
		}
		c, d := x.implCanon()
		out.hash = x.stateHash(c)
		out.changed = true
		_ = d
		return out
	}
	op = x.subst(op)
	cmd := strings.ToLower(string(op.A[0]))
	shape := shapeOf(op.A, pre, x.spec.Keys)
	r := x.exec(op.A, 5000)
	if r.panicRec != nil {
		out.viol = append(out.viol, mkV("panic", cmd, shape, r.panicRec.Func,
			fmt.Sprintf("%s panics: %s", op, r.panicRec.Value),
			x.mkReplay(prog, seedName, "a reply", "panic: "+r.panicRec.Value+"\n"+r.panicRec.Stack, "")))
		out.poisoned = true
		return out
	}
	if r.deadlock {
		out.viol = append(out.viol, mkV("deadlock", cmd, shape, "",
			fmt.Sprintf("%s never returns (blocked: %v, locks held: %v)", op, r.blocked, x.db().VerifLocksHeld()),
			x.mkReplay(prog, seedName, "a reply", fmt.Sprintf("blocked threads %v", r.blocked), "")))
		out.poisoned = true
		return out
	}
	if r.elapsed > 0 {
		x.ks = x.ks.Clone()
		x.ks.NowMs += r.elapsed
	}
	if held := x.db().VerifLocksHeld(); len(held) > 0 {
		out.viol = append(out.viol, mkV("lock-leak", cmd, shape, "",
			fmt.Sprintf("%s returned with locks still held: %v", op, held),
			x.mkReplay(prog, seedName, "no lock held after the reply", fmt.Sprint(held), "")))
		out.poisoned = true
		return out
	}
	v, derr := model.DecodeOne(r.reply)
	implC, dump := x.implCanon()
	if derr != nil {
		out.viol = append(out.viol, mkV("malformed-reply", cmd, shape, "",
			fmt.Sprintf("%s: reply %q is not one well-formed RESP value: %v", op, r.reply, derr),
			x.mkReplay(prog, seedName, "one well-formed RESP value", fmt.Sprintf("%q", r.reply), "")))
		// continue with state-only matching
		v = model.Val{K: model.None}
	}
	if !model.Known(cmd) {
		// outside the reference model (SUBSCRIBE, PUBLISH, RCONF, MEMBER, unknown names): only the
		// reply's well-formedness is checked; the state is whatever the implementation made of it
		if v.K == model.None && derr == nil {
			out.viol = append(out.viol, mkV("nil-reply", cmd, shape, "", fmt.Sprintf("%s: executor returned no result (the client gets -unknown error)", op),
				x.mkReplay(prog, seedName, "a reply", "<no-result>", "")))
		}
		out.hash = x.stateHash(implC)
		out.changed = true
		if len(x.w.Live()) > 0 && cmd == "subscribe" {
			out.poisoned = true // leaves watcher goroutines behind: do not build on this instance
		}
		return out
	}
	next, replyWhy, stateWhy := applyModel(x.ks, op.A, v, implC, x.spec.TTLTolMs)
	if replyWhy != "" && derr == nil {
		kind := "reply-mismatch"
		if v.K == model.None {
			kind = "nil-reply"
		}
		out.viol = append(out.viol, mkV(kind, cmd, shape, "",
			fmt.Sprintf("%s: %s", op, replyWhy),
			x.mkReplay(prog, seedName, replyWhy, v.String(), "")))
	}
	if stateWhy != "" || next == nil {
		out.viol = append(out.viol, mkV("state-mismatch", cmd, shape, "",
			fmt.Sprintf("%s: resulting keyspace differs: %s", op, stateWhy),
			x.mkReplay(prog, seedName, "model keyspace: "+stateWhy, model.CanonString(implC), "")))
		out.poisoned = true
		return out
	}
	if replyWhy != "" && derr == nil {
		// the dumps agree but the model took a transition the implementation refused (or the other
		// way round): state the dump does not show (a stream's last id) may differ from here on, so
		// nothing further is built on this instance
		out.poisoned = true
		out.hash = x.stateHash(implC)
		return out
	}
	x.ks = next
	// structural invariants
	invs := append([]string{}, dump.Invariants...)
	for _, o := range dump.TTLOrphans {
		invs = append(invs, fmt.Sprintf("ttl-orphan: deadline recorded for %q which does not exist", o))
	}
	if len(invs) > 0 {
		kinds := map[string]bool{}
		for _, iv := range invs {
			k := iv
			if i := strings.Index(iv, ":"); i > 0 {
				k = iv[:i]
			}
			if kinds[k] {
				continue
			}
			kinds[k] = true
			out.viol = append(out.viol, mkV("invariant:"+k, cmd, shape, "",
				fmt.Sprintf("%s: structural invariant broken: %s", op, iv),
				x.mkReplay(prog, seedName, "invariant holds", strings.Join(invs, "; "), "")))
		}
		out.poisoned = true
		return out
	}
	out.hash = x.stateHash(implC)
	out.changed = true // caller compares with the parent hash
	return out
}

// subst replaces "@now+N" arguments by the absolute unix time (seconds) N seconds from now.
func (x *inst) subst(op Op) Op {
	var out [][]byte
	for i, a := range op.A {
		if strings.HasPrefix(string(a), "@now+") {
			if out == nil {
				out = append([][]byte{}, op.A...)
			}
			n, _ := strconv.ParseInt(string(a[5:]), 10, 64)
			out[i] = []byte(strconv.FormatInt(x.ks.NowMs/1000+n, 10))
		}
	}
	if out == nil {
		return op
	}
	return Op{A: out, AdvMs: op.AdvMs, Guard: op.Guard}
}

// observe runs the observer sweep on the live instance (reads through the public interface).
func (x *inst) observe(prog []Op, seedName string) (viol []*ev.Violation, mutated bool) {
	before, _ := x.implCanon()
	var obs []Op
	ks := x.ks.Clone()
	ks.Sweep()
	for _, k := range x.spec.Keys {
		obs = append(obs, C("EXISTS", k), C("TYPE", k), C("TTL", k))
		t := "none"
		if e := ks.M[k]; e != nil {
			t = e.T
		}
		switch t {
		case "none", "string":
			obs = append(obs, C("GET", k), C("STRLEN", k))
		case "list":
			obs = append(obs, C("LRANGE", k, "0", "-1"), C("LLEN", k))
		case "hash":
			obs = append(obs, C("HGETALL", k), C("HLEN", k))
		case "set":
			obs = append(obs, C("SMEMBERS", k), C("SCARD", k))
		case "zset":
			obs = append(obs, C("ZRANGE", k, "0", "-1", "WITHSCORES"))
		case "stream":
			obs = append(obs, C("XRANGE", k, "-", "+"))
		}
	}
	obs = append(obs, C("KEYS", "*"))
	if x.spec.ExtraObservers != nil {
		obs = append(obs, x.spec.ExtraObservers(ks)...)
	}
	for _, o := range obs {
		if !model.Known(string(o.A[0])) {
			continue
		}
		r := x.exec(o.A, 5000)
		cmd := "obs:" + strings.ToLower(string(o.A[0]))
		shape := shapeOf(o.A, x.ks, x.spec.Keys)
		mk := func(kind, fn, detail, exp, obsd string) *ev.Violation {
			return &ev.Violation{Engine: "seqmc", Kind: kind, Cmd: cmd, Shape: shape, Func: fn, Detail: detail,
				Replay: x.mkReplay(prog, seedName, exp, obsd, o.String())}
		}
		if r.panicRec != nil {
			viol = append(viol, mk("panic", r.panicRec.Func, fmt.Sprintf("after %s: observer %s panics: %s", progString(prog), o, r.panicRec.Value), "a reply", r.panicRec.Value+"\n"+r.panicRec.Stack))
			return viol, true
		}
		if r.deadlock {
			viol = append(viol, mk("deadlock", "", fmt.Sprintf("after %s: observer %s never returns", progString(prog), o), "a reply", fmt.Sprint(r.blocked)))
			return viol, true
		}
		v, derr := model.DecodeOne(r.reply)
		if derr != nil {
			viol = append(viol, mk("malformed-reply", "", fmt.Sprintf("after %s: observer %s: reply %q malformed: %v", progString(prog), o, r.reply, derr), "well-formed reply", fmt.Sprintf("%q", r.reply)))
			continue
		}
		outs := x.ks.ApplyLax(o.A)
		why := ""
		ok := false
		for _, oc := range outs {
			_, w := oc.Check(v)
			if w == "" {
				ok = true
				break
			}
			if why == "" {
				why = w
			}
		}
		if !ok {
			kind := "reply-mismatch"
			if v.K == model.None {
				kind = "nil-reply"
			}
			viol = append(viol, mk(kind, "", fmt.Sprintf("after %s: observer %s: %s", progString(prog), o, why), why, v.String()))
		}
	}
	after, _ := x.implCanon()
	if model.CanonString(before) != model.CanonString(after) {
		mutated = true
		// a read that changes the logical keyspace: compare against the model (which reads do not change)
		d := model.DiffCanon(x.ks.Canon(), after, x.spec.TTLTolMs)
		if x.spec.Lax {
			d = model.DiffCanonLax(x.ks.Canon(), after, x.ks.NowMs, x.spec.TTLTolMs)
		}
		if d != "" {
			viol = append(viol, &ev.Violation{Engine: "seqmc", Kind: "state-mismatch", Cmd: "obs:sweep", Shape: "", Detail: fmt.Sprintf("after %s: read-only observer sweep changed the keyspace: %s", progString(prog), d),
				Replay: x.mkReplay(prog, seedName, "reads do not change the keyspace", model.CanonString(after), "sweep")})
		}
	}
	return viol, mutated
}

func progString(p []Op) string {
	s := make([]string, len(p))
	for i, o := range p {
		s[i] = o.String()
	}
	return "[" + strings.Join(s, " ; ") + "]"
}

// ------------------------------------------------------------------ worker

type task struct {
	Prop    string
	Tier    string
	Seed    int
	Progs   [][]int // states to expand (op index paths)
	OnlyOp  int     // -1: all ops
	Root    bool    // compute only the root hash/observation of each prog (no expansion)
	Variant int     // scheduling variant (1 = background timers withheld)
}

type succ struct {
	Parent int
	Op     int
	Hash   uint64
}

type result struct {
	RootHash    []uint64
	Succ        []succ
	Transitions int
	Mutating    int
	Viol        []*ev.Violation
	Poisoned    int
	Replies     map[string]int
	Observed    int
}

var specCache = map[string]*Spec{}

func getSpec(prop, tier string) *Spec {
	k := prop + "/" + tier
	if s, ok := specCache[k]; ok {
		return s
	}
	if strings.HasSuffix(prop, "/ext") {
		s := extremesSpec(getSpec(strings.TrimSuffix(prop, "/ext"), tier))
		specCache[k] = s
		return s
	}
	mk, ok := specs[prop]
	if !ok {
		fmt.Fprintf(os.Stderr, "seqmc: no spec for %s\n", prop)
		os.Exit(2)
	}
	s := mk(tier)
	if len(s.ProbeOps) == 0 && s.Depth > 1 {
		// the states of the last level are not expanded; every reading command of the alphabet is
		// still applied to them, so that a sequence "mutate ... mutate, read" of depth+1 commands is
		// judged too (a read served from state that an earlier read left behind, say)
		for _, op := range s.Alphabet {
			if len(op.A) > 0 && readOnlyCmd[strings.ToLower(string(op.A[0]))] {
				s.ProbeOps = append(s.ProbeOps, op)
			}
		}
	}
	specCache[k] = s
	return s
}

var workerSeen = map[uint64]bool{}

func worker(tb []byte, progress func()) []byte {
	var t task
	if err := json.Unmarshal(tb, &t); err != nil {
		panic(err)
	}
	base := getSpec(t.Prop, t.Tier)
	sc := *base
	sc.TimersOff = t.Variant == 1
	spec := &sc
	h.Boot(spec.ShardNum, 1)
	rt.CurMode = rt.Controlled
	res := result{Replies: map[string]int{}}
	seed := spec.Seeds[t.Seed]
	for pi, path := range t.Progs {
		progress()
		prog := append([]Op{}, seed.Prog...)
		for _, oi := range path {
			prog = append(prog, spec.Alphabet[oi])
		}
		var x *inst
		var baseHash uint64
		rebuild := func() bool {
			if x != nil {
				x.close()
			}
			x = newInst(spec)
			for i, o := range prog {
				so := x.step(o, prog[:i+1], seed.Name, false)
				if so.poisoned {
					// only possible for seeds / roots: report
					res.Viol = append(res.Viol, so.viol...)
					return false
				}
				if len(path) == 0 {
					res.Viol = append(res.Viol, so.viol...)
				}
				baseHash = so.hash
			}
			if len(prog) == 0 {
				c, _ := x.implCanon()
				baseHash = x.stateHash(c)
			}
			return true
		}
		if !rebuild() {
			res.RootHash = append(res.RootHash, 0)
			res.Poisoned++
			if x != nil {
				x.close()
			}
			continue
		}
		res.RootHash = append(res.RootHash, baseHash)
		seenKey := baseHash*31 + uint64(t.Variant)
		if !workerSeen[seenKey] && !spec.NoObservers {
			workerSeen[seenKey] = true
			vs, mut := x.observe(prog, seed.Name)
			res.Viol = append(res.Viol, vs...)
			res.Observed++
			if mut && !rebuild() {
				x.close()
				continue
			}
		}
		alphabet := spec.Alphabet
		if t.Root {
			if len(spec.ProbeOps) == 0 {
				x.close()
				continue
			}
			alphabet = spec.ProbeOps
		}
		baseKS := x.ks
		for oi, op := range alphabet {
			if t.OnlyOp >= 0 && oi != t.OnlyOp {
				continue
			}
			if op.Guard != nil && !op.Guard(baseKS) {
				continue
			}
			full := append(append([]Op{}, prog...), op)
			so := x.step(op, full, seed.Name, true)
			res.Transitions++
			res.Viol = append(res.Viol, so.viol...)
			if so.poisoned {
				res.Poisoned++
				if !rebuild() {
					break
				}
				continue
			}
			if so.hash != baseHash {
				res.Mutating++
				if !t.Root {
					res.Succ = append(res.Succ, succ{Parent: pi, Op: oi, Hash: so.hash})
				}
				if !rebuild() {
					break
				}
			} else if len(op.A) == 0 {
				if !rebuild() {
					break
				}
			}
		}
		if x != nil {
			x.close()
		}
	}
	b, _ := json.Marshal(res)
	return b
}

// ------------------------------------------------------------------ coordinator

var seqAssumptions = []string{
	"reference model (verif/model) encodes the Redis command reference; rules in DESIGN.md Appendix B",
	"instrumentation is generated from the current /repo tree by verif/instr (sync/time/go/select shims)",
	"Go map iteration order and uuid are normalised in the oracle, not enumerated",
}

func runSpec(prop string) int {
	tier := os.Getenv("VERIF_TIER")
	if tier != "thorough" {
		tier = "quick"
	}
	spec := getSpec(prop, tier)
	if d, err := strconv.Atoi(os.Getenv("VERIF_DEPTH")); err == nil && d > 0 {
		spec.Depth = d
	}
	rep := ev.NewReport(prop, "model_checking")
	cov := runSpecInto(rep, prop, tier, spec)
	if extremesFor[prop] {
		// numeric extremes and foreign integer spellings in every numeric argument position of the
		// alphabet, from the seed states (pass 1) and from every state one command away (pass 2)
		ext := getSpec(prop+"/ext", tier)
		tr, mu := 0, 0
		for _, d := range []int{0, 1} {
			e := *ext
			e.Depth = d
			specCache[prop+"/ext/"+tier] = &e
			c := runSpecInto(rep, prop+"/ext", tier, &e)
			tr += c["transitions"].(int)
			mu += c["mutating_transitions"].(int)
			if !c["exhaustive"].(bool) {
				cov["exhaustive"] = false
			}
		}
		specCache[prop+"/ext/"+tier] = ext
		cov["extremes_probe_ops"] = len(ext.ProbeOps)
		cov["extremes_transitions"] = tr
		cov["transitions"] = cov["transitions"].(int) + tr
		cov["traces_validated_against_impl"] = cov["transitions"]
		cov["mutating_transitions"] = cov["mutating_transitions"].(int) + mu
	}
	if prop == "C12" {
		n, sample := runTreeSweep(rep)
		cov["tree_sweep_sequences"] = n
		cov["transitions"] = cov["transitions"].(int) + n
		cov["traces_validated_against_impl"] = cov["transitions"]
		if sample != "" {
			cov["samples"] = append(cov["samples"].([]string), sample)
		}
		mn := 16
		if tier == "thorough" {
			mn = 20
		}
		if v, err := strconv.Atoi(os.Getenv("C12_SHAPE_NODES")); err == nil && v > 0 {
			mn = v
		}
		sc := runShapeSearch(rep, mn)
		cov["tree_shape_search"] = sc
		if tr, ok := sc["transitions"].(int); ok {
			cov["transitions"] = cov["transitions"].(int) + tr
			cov["traces_validated_against_impl"] = cov["transitions"]
		}
		if ex, _ := sc["exhaustive"].(bool); !ex {
			cov["exhaustive"] = false
		}
	}
	if prop == "C09" {
		n, samples := runTimedPops(rep)
		cov["timed_blocking_pop_scenarios"] = n
		cov["samples"] = append(cov["samples"].([]string), samples...)
	}
	if concStage[prop] {
		// C01 C10 C11 C12 C18: the generated pairs of the property's value type (two clients, one command
		// each, every schedule within the preemption bound; oracle: one of the two sequential orders);
		// C09, "each element goes to exactly one popper": the list and blocking-pop pairs; C06, "all
		// instants at which a command probes the key relative to the deadline": the expired-key pairs
		// (reaper timer as a third thread) - both from the interleaving explorer (engines/concmc,
		// pairs.go), run as a second stage of this check
		sum, ran, err := rep.ConcStage(prop)
		if err != nil {
			fmt.Fprintln(os.Stderr, "seqmc:", err)
			return 2
		}
		if ran {
			cov["concurrent_stage"] = sum
		}
	}
	rc := rep.Finish(cov, seqAssumptions)
	if harnessErrors > 0 && rc == 0 {
		return 2
	}
	return rc
}

// properties whose check has a second, concurrent stage (engines/concmc run as a subprocess)
var concStage = map[string]bool{"C01": true, "C06": true, "C09": true, "C10": true, "C11": true, "C12": true, "C18": true}

var harnessErrors int

// harnessPanic: the innermost non-runtime frame of the panicking goroutine belongs to the
// verification code (verif/...), not to RedisGO.
func harnessPanic(detail string) bool {
	i := strings.Index(detail, "goroutine ")
	if i < 0 || !strings.Contains(detail, "panic:") {
		return false
	}
	for _, ln := range strings.Split(detail[i:], "\n")[1:] {
		ln = strings.TrimSpace(ln)
		if ln == "" || strings.HasPrefix(ln, "/") || strings.HasPrefix(ln, "runtime.") || strings.HasPrefix(ln, "panic(") || strings.HasPrefix(ln, "created by") {
			continue
		}
		return strings.HasPrefix(ln, "verif/") || strings.HasPrefix(ln, "main.")
	}
	return false
}

// runSpecInto explores spec, adds violations to rep and returns the coverage map.
func runSpecInto(rep *ev.Report, prop, tier string, spec *Spec) map[string]interface{} {
	p := &pool.Pool{Handler: "seqmc", N: nWorkers(), Timeout: 25 * time.Second, MemMB: 6144}
	deadline := time.Now().Add(spec.Budget)

	type st struct {
		seed int
		path []int
	}
	states, transitions, mutating, poisoned, observed := 0, 0, 0, 0, 0
	crashes := 0
	fixpoints := 0
	exhaustive := true
	depthDone := -1
	var samples []string
	levelStates := []int{}
	variants := spec.Variants
	if len(variants) == 0 {
		variants = []string{"default"}
	}
	for variant := range variants {
		seen := map[uint64]bool{}
		var frontier []st
		for si := range spec.Seeds {
			frontier = append(frontier, st{seed: si})
		}

		addCrash := func(t task, c *pool.Crash) {
			// a single (state, op) that killed or hung its worker
			seed := spec.Seeds[t.Seed]
			prog := append([]Op{}, seed.Prog...)
			for _, oi := range t.Progs[0] {
				prog = append(prog, spec.Alphabet[oi])
			}
			opName, shape := "rebuild", ""
			if t.OnlyOp >= 0 {
				alpha := spec.Alphabet
				if t.Root {
					alpha = spec.ProbeOps
				}
				op := alpha[t.OnlyOp]
				prog = append(prog, op)
				if len(op.A) > 0 {
					opName = strings.ToLower(string(op.A[0]))
					shape = shapeOf(op.A, nil, spec.Keys)
				}
			}
			kind := "crash"
			if c.Kind == "hang" {
				kind = "hang"
			} else if pool.IsOOM(c) {
				kind = "oom"
			}
			if harnessPanic(c.Detail) {
				// the panic is in the reference model / harness, not in RedisGO: a defect of the
				// machinery.  Never a violation; the run is marked broken (exit 2).
				fmt.Fprintf(os.Stderr, "HARNESS-ERROR: %s: %s\n", progString(prog), c.Detail)
				harnessErrors++
				crashes++
				return
			}
			x := &inst{spec: spec}
			rep.Add(&ev.Violation{Engine: "seqmc", Kind: kind, Cmd: opName, Shape: shape,
				Detail: fmt.Sprintf("%s: worker %s: %s", progString(prog), c.Kind, firstLine(c.Detail)),
				Replay: x.mkReplay(prog, seed.Name, "a reply", c.Kind+": "+c.Detail, "")})
			crashes++
		}

		for depth := 0; depth <= spec.Depth; depth++ {
			if len(frontier) == 0 {
				// no unexplored state is left: every state reachable with this alphabet has been
				// expanded, whatever the program length
				depthDone = depth
				fixpoints++
				break
			}
			expand := depth < spec.Depth
			// group by seed, batch
			var tasks [][]byte
			bySeed := map[int][][]int{}
			for _, s := range frontier {
				bySeed[s.seed] = append(bySeed[s.seed], s.path)
			}
			seeds := make([]int, 0, len(bySeed))
			for s := range bySeed {
				seeds = append(seeds, s)
			}
			sort.Ints(seeds)
			batch := 8
			if depth == 0 {
				batch = 1
			}
			for _, s := range seeds {
				ps := bySeed[s]
				for i := 0; i < len(ps); i += batch {
					j := i + batch
					if j > len(ps) {
						j = len(ps)
					}
					tb, _ := json.Marshal(task{Prop: prop, Tier: tier, Variant: variant, Seed: s, Progs: ps[i:j], OnlyOp: -1, Root: !expand})
					tasks = append(tasks, tb)
				}
			}
			var next []st
			timedOut := false
			p.MapD(tasks, func(out []byte) interface{} {
				r := &result{}
				if err := json.Unmarshal(out, r); err != nil {
					panic(err)
				}
				return r
			}, func(tb []byte, dec interface{}, crash *pool.Crash) [][]byte {
				var t task
				json.Unmarshal(tb, &t)
				if time.Now().After(deadline) {
					timedOut = true
					return nil
				}
				if crash != nil {
					// split: batch -> single states -> single ops
					var more [][]byte
					if len(t.Progs) > 1 {
						for _, pr := range t.Progs {
							b, _ := json.Marshal(task{Prop: prop, Tier: tier, Variant: variant, Seed: t.Seed, Progs: [][]int{pr}, OnlyOp: -1, Root: t.Root})
							more = append(more, b)
						}
						return more
					}
					if t.OnlyOp < 0 && (!t.Root || len(spec.ProbeOps) > 0) {
						alpha := spec.Alphabet
						if t.Root {
							alpha = spec.ProbeOps
						}
						for oi := range alpha {
							b, _ := json.Marshal(task{Prop: prop, Tier: tier, Variant: variant, Seed: t.Seed, Progs: t.Progs, OnlyOp: oi, Root: t.Root})
							more = append(more, b)
						}
						return more
					}
					addCrash(t, crash)
					return nil
				}
				r := dec.(*result)
				transitions += r.Transitions
				mutating += r.Mutating
				poisoned += r.Poisoned
				observed += r.Observed
				for _, v := range r.Viol {
					rep.Add(v)
				}
				if t.OnlyOp < 0 {
					for i, hsh := range r.RootHash {
						if hsh != 0 && depth == 0 {
							if !seen[hsh] {
								seen[hsh] = true
								states++
							}
						}
						_ = i
					}
				}
				for _, s := range r.Succ {
					if !seen[s.Hash] {
						seen[s.Hash] = true
						states++
						path := append(append([]int{}, t.Progs[s.Parent]...), s.Op)
						next = append(next, st{seed: t.Seed, path: path})
						if len(samples) < 5 && len(path) >= 2 {
							sd := spec.Seeds[t.Seed]
							prog := append([]Op{}, sd.Prog...)
							for _, oi := range path {
								prog = append(prog, spec.Alphabet[oi])
							}
							samples = append(samples, progString(prog))
						}
					}
				}
				return nil
			})
			levelStates = append(levelStates, len(frontier))
			if timedOut {
				exhaustive = false
				fmt.Fprintf(os.Stderr, "seqmc: internal deadline reached at depth %d\n", depth)
				break
			}
			depthDone = depth
			fmt.Fprintf(os.Stderr, "seqmc %s: depth %d: frontier %d -> %d new states, %d transitions so far, %d signatures\n", prop, depth, len(frontier), len(next), transitions, rep.Count())
			frontier = next
		}
	} // variants
	if len(samples) == 0 {
		samples = append(samples, "(no program of length >= 2 reached a new state)")
	}
	cov := map[string]interface{}{
		"states":                        states,
		"transitions":                   transitions,
		"traces_validated_against_impl": transitions,
		"samples":                       samples,
		"exhaustive":                    exhaustive,
		"depth_completed":               depthDone,
		"depth_target":                  spec.Depth,
		"fixpoint_reached":              fixpoints == len(variants),
		"alphabet_size":                 len(spec.Alphabet),
		"seeds":                         len(spec.Seeds),
		"mutating_transitions":          mutating,
		"poisoned_states":               poisoned,
		"observer_sweeps":               observed,
		"worker_crashes":                crashes,
		"frontier_per_depth":            levelStates,
		"violation_signatures":          rep.Count(),
		"rule":                          spec.Rule,
		"variants":                      variants,
	}
	return cov
}

func firstLine(s string) string {
	if i := strings.Index(s, "\n"); i > 0 {
		return s[:i]
	}
	return s
}

func nWorkers() int {
	if n, err := strconv.Atoi(os.Getenv("VERIF_WORKERS")); err == nil && n > 0 {
		return n
	}
	return 16
}

// ------------------------------------------------------------------ numeric extremes

// extremesFor: the specs that get the extremes passes.
var extremesFor = map[string]bool{"C01": true, "C09": true, "C10": true, "C11": true, "C12": true, "C18": true, "C06": true}

// Values both Redis and Go's base-10 parser treat alike: in-range extremes, out-of-range values and
// spellings only another parser (base prefixes, digit separators, floats, padding) would accept.
var extremeInts = []string{"0", "-1", "1", "2147483647", "2147483648", "-2147483649", "4294967296", "9223372036854775807", "-9223372036854775808",
	"9223372036854775808", "-9223372036854775809", "18446744073709551615", "0x1", "0b1", "0o1", "1_0", " 1", "1 ", "1.0", "1e1", ""}

func isPlainInt(s string) bool {
	if s == "" {
		return false
	}
	i, err := strconv.ParseInt(s, 10, 64)
	return err == nil && strconv.FormatInt(i, 10) == s
}

// extremesSpec derives from base a spec whose ProbeOps are the base alphabet with every
// plain-integer argument replaced, one position at a time, by every extreme.
func extremesSpec(base *Spec) *Spec {
	e := *base
	e.Variants = nil
	if len(base.Variants) > 0 {
		e.Variants = base.Variants[:1]
	}
	seen := map[string]bool{}
	for _, op := range base.Alphabet {
		seen[opKey(op)] = true
	}
	var probes []Op
	for _, op := range base.Alphabet {
		if len(op.A) < 2 {
			continue
		}
		name := strings.ToLower(string(op.A[0]))
		if name == "blpop" || name == "brpop" {
			continue // a huge timeout is a huge (virtual) wait, not an input corner
		}
		for i := 1; i < len(op.A); i++ {
			if !isPlainInt(string(op.A[i])) {
				continue
			}
			for _, x := range extremeInts {
				if x == string(op.A[i]) {
					continue
				}
				if (name == "srandmember" || name == "hrandfield") && strings.HasPrefix(x, "-") && len(x) > 6 {
					// a negative count asks for exactly that many elements: a reply of 2^31 elements is
					// resource use proportional to the request, not an input corner
					continue
				}
				n := Op{Guard: op.Guard}
				for j, a := range op.A {
					if j == i {
						n.A = append(n.A, []byte(x))
					} else {
						n.A = append(n.A, a)
					}
				}
				if k := opKey(n); !seen[k] {
					seen[k] = true
					probes = append(probes, n)
				}
			}
		}
	}
	e.ProbeOps = probes
	// deadlines one millisecond or one second away: the implementation keeps whole seconds, so the
	// one-second ambiguity window of C06 applies to every spec here
	e.Lax = true
	e.Rule = base.Rule + " [extremes passes]"
	return &e
}

func opKey(o Op) string {
	var b strings.Builder
	for _, a := range o.A {
		fmt.Fprintf(&b, "%d:%s|", len(a), a)
	}
	fmt.Fprintf(&b, "adv%d", o.AdvMs)
	return b.String()
}

var readOnlyCmd = map[string]bool{"get": true, "strlen": true, "getrange": true, "mget": true, "exists": true, "type": true, "ttl": true, "keys": true,
	"llen": true, "lindex": true, "lrange": true, "lpos": true, "hget": true, "hlen": true, "hgetall": true, "hexists": true, "hkeys": true, "hvals": true,
	"hstrlen": true, "hmget": true, "hrandfield": true, "scard": true, "sismember": true, "smembers": true, "srandmember": true, "sunion": true, "sinter": true,
	"sdiff": true, "zrank": true, "zrange": true, "xrange": true}
