package main

import (
	"fmt"
	"time"

	rt "github.com/innovationb1ue/RedisGO/verifrt"
	"verif/h"
)

const shardNum = 2

// typeSeeds: one seeded pre-state per value type under key k.
func typeSeeds(k string) []Seed {
	return []Seed{
		{Name: "empty"},
		{Name: "string", Prog: []Op{C("SET", k, "a")}},
		{Name: "list", Prog: []Op{C("RPUSH", k, "a")}},
		{Name: "hash", Prog: []Op{C("HSET", k, "f", "a")}},
		{Name: "set", Prog: []Op{C("SADD", k, "a")}},
		{Name: "zset", Prog: []Op{C("ZADD", k, "1", "a")}},
		{Name: "stream", Prog: []Op{C("XADD", k, "5-1", "f", "v")}},
	}
}

func init() {
	specs["C01"] = func(tier string) *Spec {
		ks := h.Keys(shardNum)
		k0, k1, kx := ks.K0, ks.K1, "Kx"
		bin := "ab\r\n\x00\xff"
		exat := fmt.Sprint(rt.Epoch + 100)
		var ops []Op
		add := func(o ...Op) { ops = append(ops, o...) }
		// simplest first
		add(C("PING"), C("ping", "x"), C("PING", "x", "y"))
		for _, k := range []string{k0, k1, kx} {
			add(C("GET", k), C("EXISTS", k), C("TYPE", k), C("STRLEN", k), C("TTL", k), C("DEL", k))
		}
		for _, k := range []string{k0, k1, kx} {
			for _, v := range []string{"", "a", "10", bin} {
				add(C("SET", k, v))
			}
		}
		// every legal option combination
		for _, k := range []string{k0, kx} {
			for _, v := range []string{"a", "10"} {
				for _, cond := range []string{"", "NX", "xx"} {
					for _, get := range []string{"", "GET"} {
						for _, exp := range [][]string{nil, {"EX", "100"}, {"px", "100000"}, {"EXAT", exat}, {"KEEPTTL"}} {
							if cond == "" && get == "" && exp == nil {
								continue
							}
							a := []string{"SeT", k, v}
							if cond != "" {
								a = append(a, cond)
							}
							if get != "" {
								a = append(a, get)
							}
							a = append(a, exp...)
							add(C(a...))
						}
					}
				}
			}
		}
		// illegal combinations / starved operands
		add(C("SET", k0, "a", "NX", "XX"), C("SET", k0, "a", "EX", "100", "KEEPTTL"), C("SET", k0, "a", "EX"),
			C("SET", k0, "a", "PX"), C("SET", k0, "a", "EX", "0"), C("SET", k0, "a", "EX", "-1"), C("SET", k0, "a", "EX", "abc"),
			C("SET", k0, "a", "FOO"), C("SET", k0), C("SET"), C("SET", k0, "a", "EX", "100", "PX", "100000"))
		add(C("GET"), C("GET", k0, k1))
		add(C("MSET", k0, "a"), C("MSET", k0, "a", k1, "10"), C("MSET", k0, "a", k0, "10"), C("mset", kx, "a", k1, bin),
			C("MSET", k0), C("MSET", k0, "a", k1))
		add(C("MGET", k0), C("MGET", k0, k1), C("MGET", k0, kx, k0), C("MGET"))
		for _, k := range []string{k0, k1, kx} {
			add(C("SETNX", k, "a"), C("SETNX", k, "10"))
		}
		// relative expiries far beyond 2^63 nanoseconds (317 years): valid, the key stays
		add(C("SET", k0, "a", "EX", "10000000000"), C("SETEX", k0, "10000000000", "a"), C("SET", k0, "a", "PX", "10000000000000000"))
		add(C("SETNX", k0), C("SETEX", k0, "100", "a"), C("SETEX", kx, "100", "10"), C("SETEX", k0, "0", "a"),
			C("SETEX", k0, "-1", "a"), C("SETEX", k0, "abc", "a"), C("SETEX", k0, "100"))
		for _, k := range []string{k0, k1, kx} {
			for _, v := range []string{"", "a", bin} {
				add(C("APPEND", k, v))
			}
		}
		add(C("APPEND", k0), C("STRLEN"), C("STRLEN", k0, k1))
		idx := []string{"-100", "-2", "-1", "0", "1", "2", "100"}
		for _, s := range idx {
			for _, e := range idx {
				add(C("GETRANGE", k0, s, e))
			}
		}
		add(C("GETRANGE", kx, "0", "-1"), C("GETRANGE", k0, "a", "1"), C("GETRANGE", k0, "0"), C("GETRANGE", k0, "0", "b"))
		for _, o := range []string{"0", "1", "2", "100"} {
			for _, v := range []string{"", "a", "xyz"} {
				add(C("SETRANGE", k0, o, v))
			}
		}
		add(C("SETRANGE", kx, "1", "a"), C("SETRANGE", k0, "-1", "a"), C("SETRANGE", k0, "abc", "a"), C("SETRANGE", k0, "1"))
		for _, k := range []string{k0, k1, kx} {
			add(C("INCR", k), C("DECR", k))
		}
		for _, n := range []string{"1", "-1", "9223372036854775807", "-9223372036854775808", "abc", ""} {
			add(C("INCRBY", k0, n), C("DECRBY", k0, n))
		}
		add(C("INCRBY", kx, "5"), C("INCR"), C("INCRBY", k0))
		for _, f := range []string{"0.5", "-1", "1e3", "abc", "inf", "nan"} {
			add(C("INCRBYFLOAT", k0, f))
		}
		add(C("INCRBYFLOAT", kx, "0.5"), C("INCRBYFLOAT", k0))
		add(C("DEL", k0, k1), C("DEL", k0, k0), C("DEL", k1, kx, k0), C("DEL"))
		add(C("EXISTS", k0, k1), C("EXISTS", k0, k0), C("EXISTS", kx, k0), C("EXISTS"))
		add(C("RENAME", k0, k1), C("RENAME", k1, k0), C("RENAME", k0, k0), C("RENAME", k0, kx), C("RENAME", kx, k0), C("RENAME", k0), C("RENAME", k1, kx))
		add(C("KEYS", "*"), C("KEYS", k0), C("KEYS", "K*"), C("KEYS"), C("KEYS", "*", "*"))
		add(C("TYPE"), C("TTL"), C("TYPE", k0, k1))
		depth := 3
		if tier == "thorough" {
			depth = 5
		}
		// two keys holding equal values that were produced in different ways (an implementation may hand
		// out shared or cached value objects: every way of producing a value x every way of changing it)
		seeds := append(typeSeeds(k0),
			Seed{Name: "two counters", Prog: []Op{C("INCR", k0), C("INCR", k1)}},
			Seed{Name: "SET 5 / INCRBY 5", Prog: []Op{C("SET", k0, "5"), C("INCRBY", k1, "5")}},
			Seed{Name: "MSET equal values", Prog: []Op{C("MSET", k0, "ab", k1, "ab")}},
			Seed{Name: "SET a / APPEND a", Prog: []Op{C("SET", k0, "a"), C("APPEND", k1, "a")}},
			Seed{Name: "DECR / DECRBY", Prog: []Op{C("DECR", k0), C("DECRBY", k1, "1")}})
		return &Spec{Prop: "C01", ShardNum: shardNum, Keys: []string{k0, k1, kx}, Alphabet: ops, Seeds: seeds,
			Depth: depth, Budget: budget(tier, 150*time.Second, 25*time.Minute), TTLTolMs: 1000,
			Rule: "BFS over programs of string/key commands from the empty keyspace and one seeded key of every type; state = canonical dump of implementation + model; a transition is one ExecCommand on the real executors compared with the reference model (reply, dump, invariants, observer sweep)"}
	}
}
