package main

// C04 — no client input can crash, wedge or hang the server.
//
// Sweep (exploration level): every registered command (plus two unregistered names and the empty
// command) x every arity 0..3 over the full adversarial alphabet (thorough: arities 4..6 with the
// full alphabet in the last two positions and a reduced alphabet elsewhere) x pre-state in
// {missing, one key of each type, expired key}.  Each input runs on the real executors under the
// controlled runtime; the oracle is: no panic in any goroutine, the call returns (blocking pops:
// within their timeout of virtual time), no lock is left held, and probe commands on the same
// key / a stripe-colliding key / another key still complete.

import (
	"encoding/binary"
	"encoding/json"
	"fmt"
	"os"
	"sort"
	"strconv"
	"strings"
	"time"

	"github.com/innovationb1ue/RedisGO/memdb"
	rt "github.com/innovationb1ue/RedisGO/verifrt"
	"verif/ev"
	"verif/h"
	"verif/model"
	"verif/pool"
)

var c04Alphabet = []string{"", "@k0", "0", "-1", "1", "9223372036854775807", "-9223372036854775808",
	"4611686018427387904", "-4611686018427387903", "abc", "*", "[", "nx", "ex", "px", "limit", "withscores", "count", "(1", "1-1", "-", "+", "~"}

var c04Reduced = []string{"@k0", "0", "-1"}

type c04Task struct {
	Cmd      string
	NArgs    int
	PreState int
	Tier     string
	From     int  // first vector index (resume after a crash)
	Careful  bool // note every input (after a crash) instead of every 256th
	Until    int  // careful mode: stop before this index (0 = end)
	Deep     bool // pre-state index refers to c04DeepPreStates; vectors from c04DeepVectors
}

type c04Viol struct {
	Kind, Cmd, Shape, Func, Detail string
	Args                           []string
	PreState                       string
}

type c04Result struct {
	Inputs   int
	Mutating int
	Probes   int
	Viol     []c04Viol
	Replies  map[string]int
	Samples  []string
}

func c04PreStates(k0 string) []Seed {
	s := typeSeeds(k0)
	s = append(s, Seed{Name: "expired", Prog: []Op{C("SET", k0, "v", "EX", "1"), {AdvMs: 3000}}})
	// populated containers whose indexes, scores, ids and members line up with the numeric values of
	// the alphabet (0, 1, -1, "1-1", "(1"): windows that are empty, reversed, or end inside the data
	s = append(s,
		Seed{Name: "list of 3", Prog: []Op{C("RPUSH", k0, "a", "b", "c")}},
		Seed{Name: "hash of 3", Prog: []Op{C("HSET", k0, "f", "v", "0", "1", "", "x")}},
		Seed{Name: "set of 3", Prog: []Op{C("SADD", k0, "a", "0", "1")}},
		Seed{Name: "zset of 5", Prog: []Op{C("ZADD", k0, "-1", "a", "0", "b", "1", "c", "1", "d", "2", "e")}},
		Seed{Name: "stream of 5", Prog: []Op{C("XADD", k0, "0-1", "f", "v"), C("XADD", k0, "1-0", "f", "v"), C("XADD", k0, "1-1", "f", "v"), C("XADD", k0, "1-2", "f", "v"), C("XADD", k0, "2-0", "f", "v")}},
		Seed{Name: "number", Prog: []Op{C("SET", k0, "10")}})
	return s
}

// c04DeepPreStates: the states reached by every program of one or two commands over a builder
// alphabet (deadlines attached / moved / removed, keys renamed onto each other, containers filled,
// moved between and emptied) - the "pre-existing keyspace" dimension of the property beyond one
// key of each type.  Swept with every command x <= 1 argument (thorough: <= 2) over the adversarial
// alphabet extended by the second key.
func c04DeepPreStates(k0, k1 string) []Seed {
	b := []Op{C("SET", k0, "v", "EX", "100"), C("SET", k0, "5"), C("SETEX", k1, "100", "w"), C("EXPIRE", k0, "100"), C("PERSIST", k0), C("RENAME", k0, k1), C("RENAME", k1, k0),
		C("RPUSH", k0, "a"), C("RPUSH", k1, "b"), C("SADD", k0, "a"), C("HSET", k0, "f", "v"), C("ZADD", k0, "1", "a"), C("XADD", k0, "5-1", "f", "v"),
		C("LMOVE", k0, k1, "LEFT", "RIGHT"), C("SMOVE", k0, k1, "a"), C("LPOP", k0), C("SREM", k0, "a"), C("HDEL", k0, "f"), C("ZREM", k0, "a"), C("DEL", k0),
		C("SUNIONSTORE", k1, k0), C("APPEND", k0, "x"), C("INCR", k0), C("SET", k0, "w", "KEEPTTL"), C("EXPIRE", k1, "100")}
	var out []Seed
	for _, x := range b {
		out = append(out, Seed{Name: "after " + x.String(), Prog: []Op{x}})
	}
	for _, x := range b {
		for _, y := range b {
			out = append(out, Seed{Name: "after " + x.String() + " ; " + y.String(), Prog: []Op{x, y}})
		}
	}
	return out
}

func c04DeepVectors(n int, k0, k1 string) [][]string {
	al := append(append([]string{}, c04Alphabet...), "@k1")
	sub := func(s string) string {
		switch s {
		case "@k0":
			return k0
		case "@k1":
			return k1
		}
		return s
	}
	out := [][]string{}
	switch n {
	case 0:
		out = append(out, []string{})
	case 1:
		for _, a := range al {
			out = append(out, []string{sub(a)})
		}
	case 2:
		for _, a := range al {
			for _, b := range al {
				out = append(out, []string{sub(a), sub(b)})
			}
		}
	}
	return out
}

func c04SeedsOf(t c04Task) []Seed {
	ks := h.Keys(shardNum)
	if t.Deep {
		return c04DeepPreStates(ks.K0, ks.K1)
	}
	return c04PreStates(ks.K0)
}

func c04VecsOf(t c04Task) [][]string {
	ks := h.Keys(shardNum)
	if t.Deep {
		return c04DeepVectors(t.NArgs, ks.K0, ks.K1)
	}
	return c04Vectors(t.Cmd, t.NArgs, ks.K0)
}

// c04Vectors enumerates the argument vectors of a given length for a command.
func c04Vectors(cmd string, n int, k0 string) [][]string {
	sub := func(s string) string {
		if s == "@k0" {
			return k0
		}
		return s
	}
	if n == 0 {
		return [][]string{{}}
	}
	pos := make([][]string, n)
	for i := 0; i < n; i++ {
		if n <= 3 || i >= n-2 {
			pos[i] = c04Alphabet
		} else {
			pos[i] = append(append([]string{}, c04Reduced...), c04Keyword(cmd))
		}
	}
	var out [][]string
	var rec func(i int, cur []string)
	rec = func(i int, cur []string) {
		if i == n {
			v := make([]string, n)
			for j, x := range cur {
				v[j] = sub(x)
			}
			out = append(out, v)
			return
		}
		for _, x := range pos[i] {
			rec(i+1, append(cur, x))
		}
	}
	rec(0, nil)
	if cmd == "keys" && n == 1 {
		// the one command whose argument is a small language of its own: every glob pattern of up to
		// three symbols over the metacharacters, against the keys of the pre-state (a pattern that the
		// syntax check lets through and the matcher cannot handle crashes the connection goroutine)
		const al = "a*?[]^-\\"
		var gen func(p string)
		gen = func(p string) {
			if len(p) > 0 {
				out = append(out, []string{p})
			}
			if len(p) >= 3 {
				return
			}
			for i := 0; i < len(al); i++ {
				gen(p + string(al[i]))
			}
		}
		gen("")
		for _, p := range []string{"*[^]a", "a[^]", "[^]*", "*[a-", "*\\", "[]]", "[^]]", "k[^]"} {
			out = append(out, []string{p})
		}
	}
	return out
}

func c04Keyword(cmd string) string {
	switch cmd {
	case "set":
		return "ex"
	case "zadd":
		return "nx"
	case "zrange":
		return "withscores"
	case "lpos":
		return "count"
	case "xadd":
		return "~"
	case "lmove":
		return "left"
	case "expire":
		return "nx"
	case "hrandfield":
		return "withvalues"
	}
	return "count"
}

func c04Commands() []string {
	var names []string
	for n := range memdb.CmdTable {
		names = append(names, n)
	}
	names = append(names, "select", "nosuchcommand", "")
	sort.Strings(names)
	return names
}

func c04Worker(tb []byte, progress func()) []byte {
	var t c04Task
	json.Unmarshal(tb, &t)
	h.Boot(shardNum, 2)
	rt.CurMode = rt.Controlled
	ks := h.Keys(shardNum)
	k0, k1, k2 := ks.K0, ks.K1, ks.K2
	spec := &Spec{Prop: "C04", ShardNum: shardNum, Keys: []string{k0, k1, k2}, TimersOff: true, TTLTolMs: 1000, Lax: true, NoObservers: true}
	seeds := c04SeedsOf(t)
	seed := seeds[t.PreState]
	res := c04Result{Replies: map[string]int{}}
	vecs := c04VecsOf(t)
	var x *inst
	var baseHash uint64
	var baseLive int
	rebuild := func() {
		if x != nil {
			x.close()
		}
		x = newInst(spec)
		for _, o := range seed.Prog {
			if len(o.A) == 0 {
				x.w.Advance(o.AdvMs * 1e6)
				x.ks = x.ks.Clone()
				x.ks.NowMs += o.AdvMs
				continue
			}
			x.exec(o.A, 5000)
		}
		c, _ := x.implCanon()
		baseHash = x.stateHash(c)
		baseLive = len(x.w.Live())
	}
	rebuild()
	idx := make([]byte, 4)
	for vi := t.From; vi < len(vecs); vi++ {
		if t.Careful && t.Until > 0 && vi >= t.Until {
			break
		}
		if t.Careful || (vi-t.From)%256 == 0 {
			binary.LittleEndian.PutUint32(idx, uint32(vi))
			pool.Note(idx)
		}
		v := vecs[vi]
		args := h.B(append([]string{t.Cmd}, v...)...)
		if t.Cmd == "" && len(v) == 0 {
			args = [][]byte{}
		}
		res.Inputs++
		add := func(kind, fn, detail string) {
			res.Viol = append(res.Viol, c04Viol{Kind: kind, Cmd: t.Cmd, Shape: c04Shape(v, k0, seed.Name), Func: fn, Detail: detail, Args: v, PreState: seed.Name})
		}
		// blocking pops: horizon = their timeout (virtual), capped
		horizon := int64(3000)
		expectBlock := false
		if (t.Cmd == "blpop" || t.Cmd == "brpop") && len(v) >= 2 {
			if to, err := strconv.Atoi(v[len(v)-1]); err == nil {
				if to == 0 || to > 2 {
					expectBlock = true // infinite / long timeout: allowed to stay blocked
				}
			}
		}
		if t.Cmd == "subscribe" {
			// SUBSCRIBE needs a connection to register
			x.ctx = x.ctx
		}
		r := x.exec(args, horizon)
		dirty := false
		switch {
		case r.panicRec != nil:
			add("panic", r.panicRec.Func, fmt.Sprintf("[%s] %q panics: %s", seed.Name, append([]string{t.Cmd}, v...), r.panicRec.Value))
			dirty = true
		case r.deadlock && expectBlock:
			dirty = true
		case r.deadlock:
			add("deadlock", "", fmt.Sprintf("[%s] %q never returns (blocked %v, locks held %v)", seed.Name, append([]string{t.Cmd}, v...), r.blocked, x.db().VerifLocksHeld()))
			dirty = true
		default:
			if held := x.db().VerifLocksHeld(); len(held) > 0 {
				add("lock-leak", "", fmt.Sprintf("[%s] %q returned with locks held: %v", seed.Name, append([]string{t.Cmd}, v...), held))
				dirty = true
			}
			val, derr := model.DecodeOne(r.reply)
			switch {
			case derr != nil:
				res.Replies["malformed"]++
			case val.K == model.Error:
				res.Replies["error"]++
			case val.K == model.None:
				res.Replies["nil-result"]++
			default:
				res.Replies["value"]++
			}
		}
		if !dirty && len(x.w.Live()) > baseLive {
			// the command left goroutines behind (SUBSCRIBE's unsubscribe watchers): start afresh
			dirty = true
		}
		if !dirty {
			c, d := x.implCanon()
			hs := x.stateHash(c)
			if hs != baseHash {
				dirty = true
				res.Mutating++
				// wedge probes after a state-changing input: same key, stripe-colliding key, other key
				for _, pr := range [][]string{{"EXISTS", k0}, {"SET", k1, "p"}, {"SET", k2, "p"}, {"DEL", k0}} {
					res.Probes++
					pr2 := x.exec(h.B(pr...), 3000)
					if pr2.panicRec != nil {
						add("probe-panic", pr2.panicRec.Func, fmt.Sprintf("[%s] after %q: probe %q panics: %s", seed.Name, append([]string{t.Cmd}, v...), pr, pr2.panicRec.Value))
						break
					}
					if pr2.deadlock {
						add("wedge", "", fmt.Sprintf("[%s] after %q: probe %q never returns", seed.Name, append([]string{t.Cmd}, v...), pr))
						break
					}
				}
				for _, iv := range d.Invariants {
					k := iv
					if i := strings.Index(iv, ":"); i > 0 {
						k = iv[:i]
					}
					add("invariant:"+k, "", fmt.Sprintf("[%s] after %q: %s", seed.Name, append([]string{t.Cmd}, v...), iv))
					break
				}
				if len(res.Samples) < 2 {
					res.Samples = append(res.Samples, fmt.Sprintf("[%s] %q (state-changing)", seed.Name, append([]string{t.Cmd}, v...)))
				}
			}
		}
		if dirty {
			rebuild()
		}
	}
	if x != nil {
		x.close()
	}
	progress()
	b, _ := json.Marshal(res)
	return b
}

func c04Shape(v []string, k0, pre string) string {
	parts := []string{"pre=" + pre}
	for _, a := range v {
		switch {
		case a == k0:
			parts = append(parts, "K")
		case a == "":
			parts = append(parts, "empty")
		case keywords[strings.ToLower(a)]:
			parts = append(parts, strings.ToLower(a))
		default:
			if i, err := strconv.ParseInt(a, 10, 64); err == nil {
				switch {
				case i == 0:
					parts = append(parts, "0")
				case i > 1<<31:
					parts = append(parts, "big")
				case i < -(1 << 31):
					parts = append(parts, "-big")
				case i < 0:
					parts = append(parts, "neg")
				default:
					parts = append(parts, "pos")
				}
			} else {
				parts = append(parts, "s:"+a)
			}
		}
	}
	return strings.Join(parts, ",")
}

func runC04() int {
	tier := os.Getenv("VERIF_TIER")
	if tier != "thorough" {
		tier = "quick"
	}
	h.Boot(shardNum, 2)
	maxArgs := 3
	if tier == "thorough" {
		maxArgs = 6
	}
	rep := ev.NewReport("C04", "exploration")
	p := &pool.Pool{Handler: "c04", N: nWorkers(), Timeout: 10 * time.Second, MemMB: 3072}
	deadline := time.Now().Add(budget(tier, 240*time.Second, 30*time.Minute))
	ks := h.Keys(shardNum)
	cmds := c04Commands()
	if only := os.Getenv("C04_ONLY"); only != "" {
		cmds = strings.Split(only, ",")
	}
	nPre := len(c04PreStates(ks.K0))
	var tasks [][]byte
	for n := 0; n <= maxArgs; n++ {
		for _, c := range cmds {
			for ps := 0; ps < nPre; ps++ {
				b, _ := json.Marshal(c04Task{Cmd: c, NArgs: n, PreState: ps, Tier: tier})
				tasks = append(tasks, b)
			}
		}
	}
	deepArgs := 1
	if tier == "thorough" {
		deepArgs = 2
	}
	nDeep := len(c04DeepPreStates(ks.K0, ks.K1))
	if os.Getenv("C04_ONLY") == "" || os.Getenv("C04_DEEP") != "" {
		for n := 0; n <= deepArgs; n++ {
			for _, c := range cmds {
				if c == "blpop" || c == "brpop" || c == "subscribe" {
					continue // covered from the base pre-states; here they would only add waiting
				}
				for ps := 0; ps < nDeep; ps++ {
					b, _ := json.Marshal(c04Task{Cmd: c, NArgs: n, PreState: ps, Tier: tier, Deep: true})
					tasks = append(tasks, b)
				}
			}
		}
	}
	inputs, mutating, probes, crashes := 0, 0, 0, 0
	deepInputs := 0
	replies := map[string]int{}
	var samples []string
	exhaustive := true
	completedArgs := map[int]bool{}
	pending := map[int]int{}
	for n := 0; n <= maxArgs; n++ {
		pending[n] = len(cmds) * nPre
	}
	distinct := map[string]bool{}
	p.Map(tasks, func(tb, out []byte, crash *pool.Crash) [][]byte {
		var t c04Task
		json.Unmarshal(tb, &t)
		if time.Now().After(deadline) {
			exhaustive = false
			return nil
		}
		if crash != nil {
			vi := t.From
			if len(crash.Last) == 4 {
				vi = int(binary.LittleEndian.Uint32(crash.Last))
			}
			vecs := c04VecsOf(t)
			if !t.Careful {
				// the culprit is somewhere in [vi, vi+256): redo that window noting every input,
				// and the rest of the task normally
				var more [][]byte
				t1 := t
				t1.From, t1.Careful, t1.Until = vi, true, vi+256
				b1, _ := json.Marshal(t1)
				more = append(more, b1)
				if vi+256 < len(vecs) {
					t2 := t
					t2.From = vi + 256
					b2, _ := json.Marshal(t2)
					more = append(more, b2)
					if !t.Deep {
						pending[t.NArgs]++
					}
				}
				return more
			}
			crashes++
			pre := c04SeedsOf(t)[t.PreState].Name
			var v []string
			if vi < len(vecs) {
				v = vecs[vi]
			}
			kind := "crash"
			if crash.Kind == "hang" {
				kind = "hang"
			} else if pool.IsOOM(crash) {
				kind = "oom"
			}
			rep.Add(&ev.Violation{Engine: "seqmc/c04", Kind: kind, Cmd: t.Cmd, Shape: c04Shape(v, ks.K0, pre),
				Detail: fmt.Sprintf("[%s] %q: worker %s: %s", pre, append([]string{t.Cmd}, v...), crash.Kind, firstLine(crash.Detail)),
				Replay: map[string]interface{}{"engine": "seqmc", "prop": "C04", "prestate": pre, "args": append([]string{t.Cmd}, v...)}})
			// resume after the culprit
			t.From = vi + 1
			end := len(vecs)
			if t.Until > 0 && t.Until < end {
				end = t.Until
			}
			if t.From < end {
				b, _ := json.Marshal(t)
				return [][]byte{b}
			}
			if !t.Deep {
				pending[t.NArgs]--
			}
			return nil
		}
		var r c04Result
		json.Unmarshal(out, &r)
		inputs += r.Inputs
		mutating += r.Mutating
		probes += r.Probes
		for k, n := range r.Replies {
			replies[k] += n
		}
		if len(samples) < 8 {
			samples = append(samples, r.Samples...)
		}
		for _, v := range r.Viol {
			rep.Add(&ev.Violation{Engine: "seqmc/c04", Kind: v.Kind, Cmd: v.Cmd, Shape: v.Shape, Func: v.Func, Detail: v.Detail,
				Replay: map[string]interface{}{"engine": "seqmc", "prop": "C04", "prestate": v.PreState, "args": append([]string{v.Cmd}, v.Args...)}})
		}
		if t.Deep {
			deepInputs += r.Inputs
			return nil
		}
		distinct[t.Cmd+"/"+strconv.Itoa(t.NArgs)+"/"+strconv.Itoa(t.PreState)] = true
		pending[t.NArgs]--
		return nil
	})
	doneArgs := -1
	for n := 0; n <= maxArgs; n++ {
		if pending[n] == 0 {
			completedArgs[n] = true
			if doneArgs == n-1 {
				doneArgs = n
			}
		}
	}
	if len(samples) == 0 {
		samples = []string{"(no state-changing input)"}
	}
	cov := map[string]interface{}{
		"deep_prestates":               nDeep,
		"deep_prestate_inputs":         deepInputs,
		"deep_prestate_max_args":       deepArgs,
		"evaluations":                  inputs,
		"distinct_nontrivial":          mutating,
		"rule":                         "every registered command (+ SELECT, an unknown name, the empty command) x every argument count 0..3 over the 21-value adversarial alphabet (thorough: 4..6 with the full alphabet in the last two positions) x pre-state {missing, string, list, hash, set, zset, stream, expired, and populated containers: list of 3, hash of 3, set of 3, zset of 5 with a tie, stream of 5, a number}; non-trivial = the input changed the keyspace (then followed by wedge probes). Oracle: no panic, the call returns, no lock left held, probes complete, worker survives",
		"samples":                      samples,
		"exhaustive":                   exhaustive,
		"commands":                     len(cmds),
		"prestates":                    nPre,
		"max_args_completed":           doneArgs,
		"max_args_target":              maxArgs,
		"reply_classes":                replies,
		"wedge_probes":                 probes,
		"worker_crashes_or_hangs":      crashes,
		"command_arity_prestate_cells": len(distinct),
	}
	return rep.Finish(cov, []string{
		"an input that kills or hangs the worker is attributed through the progress note written before each input",
		"BLPOP/BRPOP with timeout 0 or > 2 s are allowed to remain blocked (documented blocking commands)",
	})
}
