// peek.go: read-only access to the pieces of RawNode state that influence transitions
// but are not exposed by Status(): the vote tally of a candidate, electionElapsed (lease /
// CheckQuorum bookkeeping, pass 2 only), a leader's pendingConfIndex (its bookkeeping of the
// one conf change that may be unapplied in its log) and — the only write — pinning the randomised
// election timeout so that ticks never start an election on their own (elections are the
// explicit campaign event). While a node holds a Ready (apply lag / persist lag, see evLag and
// evPLag in cluster.go) two
// more things live inside the library only: the unstable part of the log (entries and snapshot
// not yet handed out for persisting) and the messages not yet handed out for sending; both are
// read here for the state key (after a complete Ready cycle both are empty). Field layout is
// resolved by name through reflection at start-up; a missing or retyped field aborts the check
// with exit 2 (no verdict).
package main

import (
	"fmt"
	"os"
	"reflect"
	"sort"
	"unsafe"

	"go.etcd.io/etcd/raft/v3"
	pb "go.etcd.io/etcd/raft/v3/raftpb"
)

var (
	offRaft, offElapsed, offRandTimeout, offVotes uintptr
	offMsgs, offRaftLog                           uintptr
	offUnstSnap, offUnstEnts, offUnstOffset       uintptr // relative to *raftLog
	offPendingConf                                uintptr
	peekReady                                     bool
)

func initPeek() {
	fail := func(what string) {
		fmt.Fprintf(os.Stderr, "raftmc: cannot locate %s in raft.RawNode (library layout changed); no verdict\n", what)
		os.Exit(2)
	}
	rt := reflect.TypeOf(raft.RawNode{})
	f, ok := rt.FieldByName("raft")
	if !ok || f.Type.Kind() != reflect.Ptr || f.Type.Elem().Kind() != reflect.Struct {
		fail("field raft")
	}
	offRaft = f.Offset
	st := f.Type.Elem()
	fe, ok := st.FieldByName("electionElapsed")
	if !ok || fe.Type.Kind() != reflect.Int {
		fail("raft.electionElapsed")
	}
	offElapsed = fe.Offset
	fr, ok := st.FieldByName("randomizedElectionTimeout")
	if !ok || fr.Type.Kind() != reflect.Int {
		fail("raft.randomizedElectionTimeout")
	}
	offRandTimeout = fr.Offset
	fp, ok := st.FieldByName("prs")
	if !ok || fp.Type.Kind() != reflect.Struct {
		fail("raft.prs")
	}
	fv, ok := fp.Type.FieldByName("Votes")
	if !ok || fv.Type != reflect.TypeOf(map[uint64]bool{}) {
		fail("raft.prs.Votes")
	}
	offVotes = fp.Offset + fv.Offset
	fc, ok := st.FieldByName("pendingConfIndex")
	if !ok || fc.Type.Kind() != reflect.Uint64 {
		fail("raft.pendingConfIndex")
	}
	offPendingConf = fc.Offset
	fm, ok := st.FieldByName("msgs")
	if !ok || fm.Type != reflect.TypeOf([]pb.Message{}) {
		fail("raft.msgs")
	}
	offMsgs = fm.Offset
	fl, ok := st.FieldByName("raftLog")
	if !ok || fl.Type.Kind() != reflect.Ptr || fl.Type.Elem().Kind() != reflect.Struct {
		fail("raft.raftLog")
	}
	offRaftLog = fl.Offset
	fu, ok := fl.Type.Elem().FieldByName("unstable")
	if !ok || fu.Type.Kind() != reflect.Struct {
		fail("raftLog.unstable")
	}
	us, ok := fu.Type.FieldByName("snapshot")
	if !ok || us.Type != reflect.TypeOf(&pb.Snapshot{}) {
		fail("raftLog.unstable.snapshot")
	}
	ue, ok := fu.Type.FieldByName("entries")
	if !ok || ue.Type != reflect.TypeOf([]pb.Entry{}) {
		fail("raftLog.unstable.entries")
	}
	uo, ok := fu.Type.FieldByName("offset")
	if !ok || uo.Type.Kind() != reflect.Uint64 {
		fail("raftLog.unstable.offset")
	}
	offUnstSnap, offUnstEnts, offUnstOffset = fu.Offset+us.Offset, fu.Offset+ue.Offset, fu.Offset+uo.Offset
	peekReady = true
}

type peeked struct {
	votes           []voteRec
	electionElapsed int
	pendingConf     uint64 // raft.pendingConfIndex (meaningful on a leader)
}

// inside is what a RawNode has not handed out yet: copies of the unstable entries, the
// unstable snapshot's boundary and the queued messages (marshalled).
type inside struct {
	ents    []pb.Entry
	offset  uint64
	snapIdx uint64
	snapTrm uint64
	msgs    [][]byte
}

func peekInside(rn *raft.RawNode) inside {
	if !peekReady {
		initPeek()
	}
	r := raftOf(rn)
	var in inside
	for _, m := range *(*[]pb.Message)(unsafe.Add(r, offMsgs)) {
		enc, err := m.Marshal()
		if err != nil {
			panic(err)
		}
		in.msgs = append(in.msgs, enc)
	}
	l := *(*unsafe.Pointer)(unsafe.Add(r, offRaftLog))
	in.ents = append([]pb.Entry(nil), *(*[]pb.Entry)(unsafe.Add(l, offUnstEnts))...)
	in.offset = *(*uint64)(unsafe.Add(l, offUnstOffset))
	if sn := *(**pb.Snapshot)(unsafe.Add(l, offUnstSnap)); sn != nil {
		in.snapIdx, in.snapTrm = sn.Metadata.Index, sn.Metadata.Term
	}
	return in
}

func raftOf(rn *raft.RawNode) unsafe.Pointer {
	return *(*unsafe.Pointer)(unsafe.Add(unsafe.Pointer(rn), offRaft))
}

func peek(rn *raft.RawNode) peeked {
	if !peekReady {
		initPeek()
	}
	r := raftOf(rn)
	var p peeked
	p.electionElapsed = *(*int)(unsafe.Add(r, offElapsed))
	p.pendingConf = *(*uint64)(unsafe.Add(r, offPendingConf))
	votes := *(*map[uint64]bool)(unsafe.Add(r, offVotes))
	for id, v := range votes {
		p.votes = append(p.votes, voteRec{id, v})
	}
	sort.Slice(p.votes, func(i, j int) bool { return p.votes[i].id < p.votes[j].id })
	return p
}

// pinElectionTimeout makes tick-driven elections impossible (the campaign event is the only
// way to start one), which removes the library's single source of randomness.
func pinElectionTimeout(rn *raft.RawNode) {
	if !peekReady {
		initPeek()
	}
	*(*int)(unsafe.Add(raftOf(rn), offRandTimeout)) = 1 << 40
}

// quietLogger discards everything but keeps the panic semantics of Panic/Fatal.
type quietLogger struct{}

var quiet raft.Logger = quietLogger{}

func (quietLogger) Debug(v ...interface{})                   {}
func (quietLogger) Debugf(format string, v ...interface{})   {}
func (quietLogger) Error(v ...interface{})                   {}
func (quietLogger) Errorf(format string, v ...interface{})   {}
func (quietLogger) Info(v ...interface{})                    {}
func (quietLogger) Infof(format string, v ...interface{})    {}
func (quietLogger) Warning(v ...interface{})                 {}
func (quietLogger) Warningf(format string, v ...interface{}) {}
func (quietLogger) Fatal(v ...interface{})                   { panic("raft fatal: " + fmt.Sprint(v...)) }
func (quietLogger) Fatalf(format string, v ...interface{}) {
	panic("raft fatal: " + fmt.Sprintf(format, v...))
}
func (quietLogger) Panic(v ...interface{})                 { panic(fmt.Sprint(v...)) }
func (quietLogger) Panicf(format string, v ...interface{}) { panic(fmt.Sprintf(format, v...)) }
