// peek.go: read-only access to the three pieces of RawNode state that influence transitions
// but are not exposed by Status(): the vote tally of a candidate, electionElapsed (lease /
// CheckQuorum bookkeeping, pass 2 only) and — the only write — pinning the randomised
// election timeout so that ticks never start an election on their own (elections are the
// explicit campaign event). Field layout is resolved by name through reflection at start-up;
// a missing or retyped field aborts the check with exit 2 (no verdict).
package main

import (
	"fmt"
	"os"
	"reflect"
	"sort"
	"unsafe"

	"go.etcd.io/etcd/raft/v3"
)

var (
	offRaft, offElapsed, offRandTimeout, offVotes uintptr
	peekReady                                     bool
)

func initPeek() {
	fail := func(what string) {
		fmt.Fprintf(os.Stderr, "raftmc: cannot locate %s in raft.RawNode (library layout changed); no verdict\n", what)
		os.Exit(2)
	}
	rt := reflect.TypeOf(raft.RawNode{})
	f, ok := rt.FieldByName("raft")
	if !ok || f.Type.Kind() != reflect.Ptr || f.Type.Elem().Kind() != reflect.Struct {
		fail("field raft")
	}
	offRaft = f.Offset
	st := f.Type.Elem()
	fe, ok := st.FieldByName("electionElapsed")
	if !ok || fe.Type.Kind() != reflect.Int {
		fail("raft.electionElapsed")
	}
	offElapsed = fe.Offset
	fr, ok := st.FieldByName("randomizedElectionTimeout")
	if !ok || fr.Type.Kind() != reflect.Int {
		fail("raft.randomizedElectionTimeout")
	}
	offRandTimeout = fr.Offset
	fp, ok := st.FieldByName("prs")
	if !ok || fp.Type.Kind() != reflect.Struct {
		fail("raft.prs")
	}
	fv, ok := fp.Type.FieldByName("Votes")
	if !ok || fv.Type != reflect.TypeOf(map[uint64]bool{}) {
		fail("raft.prs.Votes")
	}
	offVotes = fp.Offset + fv.Offset
	peekReady = true
}

type peeked struct {
	votes           []voteRec
	electionElapsed int
}

func raftOf(rn *raft.RawNode) unsafe.Pointer {
	return *(*unsafe.Pointer)(unsafe.Add(unsafe.Pointer(rn), offRaft))
}

func peek(rn *raft.RawNode) peeked {
	if !peekReady {
		initPeek()
	}
	r := raftOf(rn)
	var p peeked
	p.electionElapsed = *(*int)(unsafe.Add(r, offElapsed))
	votes := *(*map[uint64]bool)(unsafe.Add(r, offVotes))
	for id, v := range votes {
		p.votes = append(p.votes, voteRec{id, v})
	}
	sort.Slice(p.votes, func(i, j int) bool { return p.votes[i].id < p.votes[j].id })
	return p
}

// pinElectionTimeout makes tick-driven elections impossible (the campaign event is the only
// way to start one), which removes the library's single source of randomness.
func pinElectionTimeout(rn *raft.RawNode) {
	if !peekReady {
		initPeek()
	}
	*(*int)(unsafe.Add(raftOf(rn), offRandTimeout)) = 1 << 40
}

// quietLogger discards everything but keeps the panic semantics of Panic/Fatal.
type quietLogger struct{}

var quiet raft.Logger = quietLogger{}

func (quietLogger) Debug(v ...interface{})                   {}
func (quietLogger) Debugf(format string, v ...interface{})   {}
func (quietLogger) Error(v ...interface{})                   {}
func (quietLogger) Errorf(format string, v ...interface{})   {}
func (quietLogger) Info(v ...interface{})                    {}
func (quietLogger) Infof(format string, v ...interface{})    {}
func (quietLogger) Warning(v ...interface{})                 {}
func (quietLogger) Warningf(format string, v ...interface{}) {}
func (quietLogger) Fatal(v ...interface{})                   { panic("raft fatal: " + fmt.Sprint(v...)) }
func (quietLogger) Fatalf(format string, v ...interface{}) {
	panic("raft fatal: " + fmt.Sprintf(format, v...))
}
func (quietLogger) Panic(v ...interface{})                 { panic(fmt.Sprint(v...)) }
func (quietLogger) Panicf(format string, v ...interface{}) { panic(fmt.Sprintf(format, v...)) }
