package main

import (
	"fmt"
	"os"
	"runtime/pprof"

	"go.etcd.io/etcd/raft/v3"
	"verif/pool"
)

func main() {
	raft.SetLogger(quiet)
	initPeek()
	pool.Register("raftmc", worker)
	pool.WorkerMain()
	if len(os.Args) < 2 {
		fmt.Fprintln(os.Stderr, "usage: raftmc C15 | raftmc replay <file>")
		os.Exit(2)
	}
	if os.Args[1] == "scenario" {
		scenario(os.Args[2], os.Args[3:])
		return
	}
	if os.Args[1] == "selfbench" {
		d := 7
		fmt.Sscan(os.Args[3], &d)
		prof := ""
		if len(os.Args) > 4 {
			prof = os.Args[4]
		}
		selfBench(os.Args[2], d, prof)
		return
	}
	if os.Args[1] == "replay" {
		if len(os.Args) < 3 {
			fmt.Fprintln(os.Stderr, "usage: raftmc replay <file>")
			os.Exit(2)
		}
		os.Exit(replayFile(os.Args[2]))
	}
	if p := os.Getenv("RAFTMC_CPUPROF"); p != "" {
		f, _ := os.Create(p)
		pprof.StartCPUProfile(f)
		code := run(os.Args[1])
		pprof.StopCPUProfile()
		os.Exit(code)
	}
	os.Exit(run(os.Args[1]))
}
