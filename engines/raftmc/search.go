// search.go: the two searches (Box A: breadth-first over every interleaving; Box B: iterative
// deviation bounding) and the worker that expands states.
//
// A state is identified by its event path. The coordinator caches nothing but paths (as a
// parent-pointer tree) and 64-bit state hashes. A worker reconstructs a state by running its
// path from the initial state and produces each successor by one more cluster.step. Steps are
// functional: a cluster value is immutable and a node-level transition (input history, input)
// is executed by a real RawNode exactly once per worker process and memoised (see sim in
// cluster.go); a RawNode in the right history state is obtained by re-running that history on
// fresh objects, never by copying one. One expanded state in 64 is additionally re-executed
// straight-line, without memo, on fresh RawNodes and must reproduce the same state hash.
package main

import (
	"bytes"
	"encoding/binary"
	"encoding/json"
	"fmt"
	"os"
	"path/filepath"
	"runtime/debug"
	"sync"
	"time"
)

// Box is one bounded space.
type Box struct {
	ID     string `json:"id"`
	Mode   string `json:"mode"` // "A" all interleavings (BFS) | "B" deviation bounded
	What   string `json:"what"`
	Cfg    Cfg    `json:"config"`
	Bud    Budget `json:"budgets"`
	Depth  int    `json:"max_depth"`      // A: depth bound. B: safety cap on path length
	MaxDev int    `json:"max_deviations"` // B only
	Kinds  uint32 `json:"-"`              // enabled driver event kinds (bit per ev*)
	Devs   uint32 `json:"-"`              // B: event kinds that may be used as deviations (0 = all)
	Share  int    `json:"time_share"`

	LeaderPropose bool     `json:"propose_at_leader_only,omitempty"`
	CampaignAt    uint8    `json:"campaign_only_at_node,omitempty"` // 0: every node may campaign
	KindNames     []string `json:"driver_events"`
	DevNames      []string `json:"deviation_events,omitempty"`

	// Stated restrictions of the apply-lag boxes (all part of the box definition).
	LagAt uint8 `json:"lag_only_at_node,omitempty"` // 0: every node may enter lag mode (lag and plag alike)
	// CampaignBy[t] lists the nodes that may campaign while their own term is t (i.e. for
	// term t+1); a term without an entry is unrestricted.
	CampaignBy map[uint64][]int `json:"campaign_only_by_nodes_at_term,omitempty"`
	CrashAt    []int            `json:"crash_only_at_nodes,omitempty"` // nil: every node may crash
	// PlagEmpty: plag(n) only while n's persisted log is empty (a joiner whose application is
	// slow from the moment it joins)
	PlagEmpty    bool     `json:"plag_only_while_the_log_of_the_node_is_empty,omitempty"`
	ConfVariants []uint16 `json:"-"` // nil: every conf-change variant below ccDefaultVariants
	ConfNames    []string `json:"conf_change_variants,omitempty"`
	// proposeBatch: the shapes of multi-entry proposals (nil: every shape) and the conf-change
	// variants used inside them (nil: ConfVariants)
	BatchShapes  []uint16 `json:"-"`
	BatchConf    []uint16 `json:"-"`
	BatchNames   []string `json:"batch_shapes,omitempty"`
	BatchCNames  []string `json:"batch_conf_change_variants,omitempty"`
	Restrictions []string `json:"stated_restrictions,omitempty"`
	// CollectAll (Box B): a violation does not abandon the box at once; the current deviation
	// layer is finished first (violating transitions are never expanded), so that every
	// invariant that is violated inside the layer is reported with its shortest run
	CollectAll bool `json:"finish_the_layer_after_a_violation,omitempty"`
}

func (b *Box) finish() *Box {
	if b.Mode == "B" && b.Devs == 0 {
		b.Devs = kinds(evDeliver, evDrop, evDup, evCampaign, evPropose, evCrash, evRestart, evIsolate, evDelay, evDupDelay)
	}
	for k := uint8(0); k < evKinds; k++ {
		if b.has(k) {
			b.KindNames = append(b.KindNames, evNames[k])
		}
		if b.Mode == "B" && b.Devs&(1<<k) != 0 && (k <= evDup || k == evDelay || k == evDupDelay || b.has(k)) {
			if (k == evDup && b.Bud.Dups == 0) || (k == evDrop && b.Bud.Drops == 0) || (k == evDelay && b.Bud.Delays == 0) ||
				(k == evDupDelay && (b.Bud.Delays == 0 || b.Bud.Dups == 0)) || k == evRelease {
				continue
			}
			n := evNames[k]
			if k == evDeliver {
				n = "deliver a message other than the oldest"
			}
			b.DevNames = append(b.DevNames, n)
		}
	}
	for _, v := range b.ConfVariants {
		b.ConfNames = append(b.ConfNames, ccNames[v])
	}
	if b.has(evBatch) {
		for _, sh := range b.batchShapes() {
			b.BatchNames = append(b.BatchNames, bsNames[sh])
		}
		for _, v := range b.batchConf() {
			b.BatchCNames = append(b.BatchCNames, ccNames[v])
		}
	}
	if b.Mode == "B" && b.Bud.Delays > 0 {
		b.KindNames = append(b.KindNames, "release (of a delayed message, at quiescence)")
		if b.Devs&(1<<evRelease) != 0 {
			b.DevNames = append(b.DevNames, "release while messages are in flight")
		}
	}
	return b
}

func kinds(ks ...uint8) uint32 {
	var m uint32
	for _, k := range ks {
		m |= 1 << k
	}
	return m
}

func (b *Box) has(k uint8) bool { return b.Kinds&(1<<k) != 0 }

func (b *Box) batchShapes() []uint16 {
	if b.BatchShapes != nil {
		return b.BatchShapes
	}
	all := make([]uint16, bsShapes)
	for i := range all {
		all[i] = uint16(i)
	}
	return all
}

func (b *Box) batchConf() []uint16 {
	if b.BatchConf != nil {
		return b.BatchConf
	}
	if b.ConfVariants != nil {
		return b.ConfVariants
	}
	all := make([]uint16, ccDefaultVariants)
	for i := range all {
		all[i] = uint16(i)
	}
	return all
}

type cand struct {
	ev   Event
	cost uint8
}

// candidates enumerates the events to try in a state. Enabledness proper is decided by
// cluster.step; this only shapes the alphabet of the box.
func (b *Box) candidates(c *cluster, dev int) []cand {
	var out []cand
	drivers := func(cost uint8, only uint32) {
		for i := range c.nodes {
			n := uint8(i + 1)
			if b.has(evBatch) && only&(1<<evBatch) != 0 && !(b.LeaderPropose && !c.nodes[i].isLeader()) {
				for _, sh := range b.batchShapes() {
					if !bsHasConf(sh) {
						out = append(out, cand{Event{K: evBatch, N: n, A: sh << 8}, cost})
						continue
					}
					for _, v := range b.batchConf() {
						out = append(out, cand{Event{K: evBatch, N: n, A: sh<<8 | v}, cost})
					}
				}
			}
			for _, k := range []uint8{evCampaign, evPropose, evHeartbeat, evCrash, evRestart, evCompact, evExpire, evLag, evApply, evUnlag, evPLag, evPersist, evUnplag} {
				if k == evPropose && b.LeaderPropose && !c.nodes[i].isLeader() {
					continue
				}
				if k == evCampaign && b.CampaignAt != 0 && n != b.CampaignAt {
					continue
				}
				if k == evCampaign && b.CampaignBy != nil {
					if who, ok := b.CampaignBy[c.nodes[i].status.Term]; ok && !hasNode(who, n) {
						continue
					}
				}
				if k == evPLag && b.PlagEmpty && c.nodes[i].lastIndex() != 0 {
					continue
				}
				if k == evCrash && b.CrashAt != nil && !hasNode(b.CrashAt, n) {
					continue
				}
				if (k == evLag || k == evPLag) && b.LagAt != 0 && n != b.LagAt {
					continue
				}
				if b.has(k) && only&(1<<k) != 0 {
					out = append(out, cand{Event{K: k, N: n}, cost})
				}
			}
			if b.has(evConf) && only&(1<<evConf) != 0 {
				if b.ConfVariants != nil {
					for _, v := range b.ConfVariants {
						out = append(out, cand{Event{K: evConf, N: n, A: v}, cost})
					}
				} else {
					for v := uint16(0); v < ccDefaultVariants; v++ {
						out = append(out, cand{Event{K: evConf, N: n, A: v}, cost})
					}
				}
			}
			if b.has(evIsolate) && only&(1<<evIsolate) != 0 {
				out = append(out, cand{Event{K: evIsolate, N: n}, cost})
				if i == 0 {
					out = append(out, cand{Event{K: evIsolate, N: 0}, cost})
				}
			}
			if b.has(evTransfer) && only&(1<<evTransfer) != 0 {
				for j := range c.nodes {
					if j != i {
						out = append(out, cand{Event{K: evTransfer, N: n, A: uint16(j + 1)}, cost})
					}
				}
			}
		}
	}
	if b.Mode == "A" {
		// one representative per distinct message content
		for i := range c.pool {
			dupOf := false
			for j := 0; j < i; j++ {
				if bytes.Equal(c.pool[j].enc, c.pool[i].enc) {
					dupOf = true
					break
				}
			}
			if dupOf {
				continue
			}
			s := c.pool[i].seq
			out = append(out, cand{Event{K: evDeliver, A: s}, 0})
			if b.Bud.Drops > 0 {
				out = append(out, cand{Event{K: evDrop, A: s}, 0})
			}
			if b.Bud.Dups > 0 {
				out = append(out, cand{Event{K: evDup, A: s}, 0})
			}
		}
		drivers(0, ^uint32(0))
		return out
	}
	// Box B
	// release of a delayed message: one candidate per distinct content
	release := func(cost uint8) {
		for i := range c.held {
			dupOf := false
			for j := 0; j < i; j++ {
				if bytes.Equal(c.held[j].enc, c.held[i].enc) {
					dupOf = true
					break
				}
			}
			if !dupOf {
				out = append(out, cand{Event{K: evRelease, A: c.held[i].seq}, cost})
			}
		}
	}
	if len(c.pool) == 0 {
		drivers(0, ^uint32(0))
		release(0)
		return out
	}
	out = append(out, cand{Event{K: evDeliver, A: c.pool[0].seq}, 0})
	if dev >= b.MaxDev {
		return out
	}
	if b.Devs&(1<<evRelease) != 0 {
		release(1)
	}
	for i := range c.pool {
		s := c.pool[i].seq
		if b.Bud.Delays > 0 && b.Devs&(1<<evDelay) != 0 {
			out = append(out, cand{Event{K: evDelay, A: s}, 1})
		}
		if b.Bud.Delays > 0 && b.Bud.Dups > 0 && b.Devs&(1<<evDupDelay) != 0 {
			out = append(out, cand{Event{K: evDupDelay, A: s}, 1})
		}
		if i > 0 && !bytes.Equal(c.pool[i].enc, c.pool[0].enc) && b.Devs&(1<<evDeliver) != 0 {
			out = append(out, cand{Event{K: evDeliver, A: s}, 1})
		}
		if b.Devs&(1<<evDrop) != 0 && b.Bud.Drops > 0 {
			out = append(out, cand{Event{K: evDrop, A: s}, 1})
		}
		if b.Bud.Dups > 0 && b.Devs&(1<<evDup) != 0 {
			out = append(out, cand{Event{K: evDup, A: s}, 1})
		}
	}
	drivers(1, b.Devs&kinds(evCampaign, evPropose, evCrash, evRestart, evIsolate, evLag, evApply, evPLag, evPersist, evConf, evBatch))
	return out
}

func hasNode(l []int, n uint8) bool {
	for _, x := range l {
		if x == int(n) {
			return true
		}
	}
	return false
}

// ---------------------------------------------------------------------------- wire format

type wr struct{ b []byte }

func (w *wr) u8(v uint8)   { w.b = append(w.b, v) }
func (w *wr) u16(v uint16) { w.b = binary.LittleEndian.AppendUint16(w.b, v) }
func (w *wr) u32(v uint32) { w.b = binary.LittleEndian.AppendUint32(w.b, v) }
func (w *wr) u64(v uint64) { w.b = binary.LittleEndian.AppendUint64(w.b, v) }
func (w *wr) ev(e Event)   { w.u8(e.K); w.u8(e.N); w.u16(e.A) }

type rd struct {
	b []byte
	p int
}

func (r *rd) u8() uint8   { v := r.b[r.p]; r.p++; return v }
func (r *rd) u16() uint16 { v := binary.LittleEndian.Uint16(r.b[r.p:]); r.p += 2; return v }
func (r *rd) u32() uint32 { v := binary.LittleEndian.Uint32(r.b[r.p:]); r.p += 4; return v }
func (r *rd) u64() uint64 { v := binary.LittleEndian.Uint64(r.b[r.p:]); r.p += 8; return v }
func (r *rd) ev() Event   { return Event{K: r.u8(), N: r.u8(), A: r.u16()} }

type taskState struct {
	id   uint32
	dev  uint8
	hash uint64
	path []Event
}

func encodeTask(box int, tier string, deadline time.Time, sts []taskState) []byte {
	w := &wr{}
	w.u8(uint8(box))
	if tier == "thorough" {
		w.u8(1)
	} else {
		w.u8(0)
	}
	w.u64(uint64(deadline.UnixNano()))
	w.u32(uint32(len(sts)))
	for _, s := range sts {
		w.u32(s.id)
		w.u8(s.dev)
		w.u64(s.hash)
		w.u16(uint16(len(s.path)))
		for _, e := range s.path {
			w.ev(e)
		}
	}
	return w.b
}

// rec is one executed transition reported by a worker. parent >= 0 refers to an earlier
// record of the same result (a state the worker walked through in place), parent < 0 to the
// task state number -(parent+1).
type rec struct {
	parent   int32
	ev       Event
	hash     uint64
	cost     uint8
	flags    uint64
	backlog  uint8 // largest apply backlog (committed - applied) of a node in the target state
	expanded bool  // the worker already produced this state's successors (chain state)
}

type workerViol struct {
	Path   []Event
	Kind   string
	Detail string
	Func   string
	Bud    *Budget // set when the path ends with a completion suffix run under relaxed budgets
	Note   string
}

type stateRes struct {
	id     uint32
	status uint8 // 0 expanded, 1 skipped (deadline / abort), 2 replay mismatch
	trans  uint32
}

const (
	stOK uint8 = iota
	stSkipped
	stMismatch
)

func abortFile() string {
	dir := os.Getenv("VERIF_SCRATCH")
	if dir == "" {
		dir = os.TempDir()
	}
	return filepath.Join(dir, "raftmc-abort-"+os.Getenv("RAFTMC_COORD"))
}

// ---------------------------------------------------------------------------- worker

var boxCache = map[string][]*Box{}

func boxesFor(tier string) []*Box {
	if b, ok := boxCache[tier]; ok {
		return b
	}
	b := makeBoxes(tier)
	boxCache[tier] = b
	return b
}

var gcOnce sync.Once

// chainSeen: hashes of the states this worker process has already walked through in place
// (an optimisation only — the coordinator's visited set is authoritative).
var chainSeen = map[uint64]struct{}{}

type expander struct {
	box           *Box
	sim           *sim
	deadline      time.Time
	abort         string
	recs          []rec
	viols         []workerViol
	validateEvery int
	expanded      int
	validated     int
	lookahead     int // states in which electableWithoutCommitted held
	completions   int // completion suffixes tried
	// campaign(n) executed on a node whose apply backlog held committed conf changes / of
	// those, refused by the library. A refused campaign changes nothing, so it never becomes
	// a recorded transition (the successor is dominated by its parent); counted here instead.
	campBacklog int
	campRefused int
}

// one memo per worker process and box
var (
	workerSim    *sim
	workerSimBox = -1
	workerCount  int
)

func (x *expander) stop() bool {
	if time.Now().After(x.deadline) {
		return true
	}
	_, err := os.Stat(x.abort)
	return err == nil
}

func worker(tb []byte, progress func()) []byte {
	// a worker allocates GBs of short-lived objects next to a memo of a few hundred MB:
	// collect rarely
	gcOnce.Do(func() {
		debug.SetGCPercent(400)
		debug.SetMemoryLimit(3 << 30)
	})
	r := &rd{b: tb}
	boxIdx := int(r.u8())
	tier := "quick"
	if r.u8() == 1 {
		tier = "thorough"
	}
	if workerSimBox != boxIdx {
		workerSim, workerSimBox = newSim(true), boxIdx
		chainSeen = map[uint64]struct{}{}
	}
	x := &expander{box: boxesFor(tier)[boxIdx], sim: workerSim, abort: abortFile(), validateEvery: 64, expanded: workerCount}
	x.deadline = time.Unix(0, int64(r.u64()))
	before := *workerSim
	n := int(r.u32())
	w := &wr{}
	w.u32(uint32(n))
	lastProg := time.Now()
	throttled := func() {
		if time.Since(lastProg) > 2*time.Second {
			lastProg = time.Now()
			progress()
		}
	}
	for i := 0; i < n; i++ {
		throttled()
		var s taskState
		s.id = r.u32()
		s.dev = r.u8()
		s.hash = r.u64()
		pl := int(r.u16())
		s.path = make([]Event, pl)
		for j := range s.path {
			s.path[j] = r.ev()
		}
		res := stateRes{id: s.id, status: stSkipped}
		if !x.stop() {
			res = x.expand(&s, int32(-(i + 1)), throttled)
		}
		w.u32(res.id)
		w.u8(res.status)
		w.u32(res.trans)
	}
	w.u32(uint32(len(x.recs)))
	for i := range x.recs {
		rc := &x.recs[i]
		w.u32(uint32(rc.parent))
		w.ev(rc.ev)
		w.u64(rc.hash)
		w.u8(rc.cost)
		w.u64(rc.flags)
		w.u8(rc.backlog)
		if rc.expanded {
			w.u8(1)
		} else {
			w.u8(0)
		}
	}
	workerCount = x.expanded
	w.u32(uint32(workerSim.Execs - before.Execs))
	w.u32(uint32(workerSim.Hits - before.Hits))
	w.u32(uint32(workerSim.Thaws - before.Thaws))
	w.u32(uint32(workerSim.ThawFeeds - before.ThawFeeds))
	w.u32(uint32(x.validated))
	w.u32(uint32(x.lookahead))
	w.u32(uint32(x.campBacklog))
	w.u32(uint32(x.campRefused))
	vb, _ := json.Marshal(x.viols)
	w.u32(uint32(len(vb)))
	w.b = append(w.b, vb...)
	return w.b
}

// expand re-executes the path of a state and produces its successors. In Box B a state with a
// single free continuation (deliver the oldest message) is followed to the next state and that
// one expanded in turn, so a FIFO run between two quiescent points is reported as one chain
// of records and costs one path replay.
func (x *expander) expand(s *taskState, ref int32, progress func()) stateRes {
	box := x.box
	res := stateRes{id: s.id}
	c := newCluster(x.sim, &box.Cfg, &box.Bud, box.Mode == "B")
	for i, e := range s.path {
		c = c.step(e)
		if c == nil || len(c.viol) > 0 {
			res.status = stMismatch
			fmt.Fprintf(os.Stderr, "raftmc: replay of a stored path diverged at step %d (%v)\n", i, e)
			return res
		}
	}
	h, body := c.key()
	if s.hash != 0 && h != s.hash {
		res.status = stMismatch
		fmt.Fprintf(os.Stderr, "raftmc: replayed state hash %x differs from the recorded %x\n", h, s.hash)
		return res
	}
	x.expanded++
	if x.validateEvery > 0 && x.expanded%x.validateEvery == 0 {
		// independent re-execution: fresh RawNodes, no memo, one event after the other
		r := runPath(&box.Cfg, &box.Bud, box.Mode == "B", s.path)
		x.validated++
		if r.err != "" || r.failAt >= 0 || r.hash != h {
			res.status = stMismatch
			fmt.Fprintf(os.Stderr, "raftmc: straight-line replay of a state disagrees with the memoised execution (%s)\n", r.err)
			return res
		}
	}
	path := append([]Event(nil), s.path...)
	dev := int(s.dev)
	for steps := 0; ; steps++ {
		if len(path) >= box.Depth {
			return res
		}
		if ref >= 0 {
			x.recs[ref].expanded = true
		}
		cands := box.candidates(c, dev)
		nfree := 0
		var free cand
		for _, cd := range cands {
			if cd.cost == 0 {
				nfree++
				free = cd
			}
		}
		inPlace := box.Mode == "B" && nfree == 1 && len(c.pool) > 0
		var next *cluster
		var nextRef int32
		for _, cd := range cands {
			d := c.step(cd.ev)
			if d == nil {
				continue
			}
			res.trans++
			if d.flags&fCampaignBacklog != 0 {
				x.campBacklog++
				if d.flags&fCampaignRefused != 0 {
					x.campRefused++
				}
			}
			if len(d.viol) > 0 {
				for _, v := range d.viol {
					x.viols = append(x.viols, workerViol{Path: append(append([]Event(nil), path...), cd.ev), Kind: v.Kind, Detail: v.Detail, Func: v.Func})
				}
				continue // poisoned: not expanded
			}
			{
				if id, idx := d.electableWithoutCommitted(); id != 0 {
					x.lookahead++
					if x.completions < 64 {
						x.completions++
						if v := x.complete(d, id, idx, append(append([]Event(nil), path...), cd.ev)); v != nil {
							x.viols = append(x.viols, *v)
							continue
						}
					}
				}
			}
			h2, body2 := d.key()
			if bytes.Equal(body, body2) {
				continue // nothing but a budget counter changed: dominated by the parent
			}
			x.recs = append(x.recs, rec{parent: ref, ev: cd.ev, hash: h2, cost: cd.cost, flags: d.flags, backlog: uint8(d.maxBacklog())})
			if inPlace && cd.cost == 0 {
				next, h, body = d, h2, body2
				nextRef = int32(len(x.recs) - 1)
			}
		}
		if !inPlace || next == nil {
			return res
		}
		// continue along the single free continuation without going back to the coordinator
		c = next
		path = append(path, free.ev)
		ref = nextRef
		if _, ok := chainSeen[h]; ok {
			return res
		}
		if len(chainSeen) < 8<<20 {
			chainSeen[h] = struct{}{}
		}
		if steps%8 == 7 {
			progress()
			if x.stop() {
				return res
			}
		}
	}
}

type simStats struct {
	Execs, Hits, Thaws, ThawFeeds, Validated, Lookahead int
	CampBacklog, CampRefused                            int `json:"-"`
}

// complete is a goal-directed suffix: node `id` lacks committed entry `idx` but no voting rule
// protects against it being elected, so try to elect it — lose everything in flight, heal the
// partition, restart whoever is down, let it campaign (a few times: it may first have to
// overtake the others' terms) with FIFO delivery. The suffix runs under relaxed term / drop
// budgets, which are recorded with the counterexample. Only a genuine invariant violation on
// the resulting concrete path is reported.
func (x *expander) complete(d *cluster, id, idx uint64, path []Event) *workerViol {
	bud := *d.bud
	bud.MaxTerm += 4
	bud.Drops += len(d.pool) + 1
	bud.Crashes += 1
	c := d.clone()
	c.bud = &bud
	var suffix []Event
	var hit *workerViol
	apply := func(e Event) bool {
		n := c.step(e)
		if n == nil {
			return false
		}
		c = n
		suffix = append(suffix, e)
		if len(c.viol) > 0 && hit == nil {
			v := c.viol[0]
			hit = &workerViol{Path: append(append([]Event(nil), path...), suffix...), Kind: v.Kind, Detail: v.Detail, Func: v.Func, Bud: &bud,
				Note: fmt.Sprintf("found by look-ahead: after %d events node %d lacked committed entry %d while being electable; the last %d events drive it to leadership under relaxed budgets (max_term %d, drops %d, crashes %d)",
					len(path), id, idx, len(suffix), bud.MaxTerm, bud.Drops, bud.Crashes)}
		}
		return true
	}
	for len(c.pool) > 0 && hit == nil {
		if !apply(Event{K: evDrop, A: c.pool[0].seq}) {
			return nil
		}
	}
	if c.iso != 0 {
		apply(Event{K: evIsolate, N: 0})
	}
	for _, n := range c.nodes {
		if !n.alive {
			apply(Event{K: evRestart, N: uint8(n.id)})
			for len(c.pool) > 0 && hit == nil {
				apply(Event{K: evDeliver, A: c.pool[0].seq})
			}
		}
	}
	if c.node(id).isLeader() {
		// a stale leader does not campaign: restart it (it keeps its persisted log)
		apply(Event{K: evCrash, N: uint8(id)})
		apply(Event{K: evRestart, N: uint8(id)})
		for len(c.pool) > 0 && hit == nil {
			apply(Event{K: evDeliver, A: c.pool[0].seq})
		}
	}
	for round := 0; round < 4 && hit == nil; round++ {
		if !apply(Event{K: evCampaign, N: uint8(id)}) {
			break
		}
		for steps := 0; len(c.pool) > 0 && hit == nil && steps < 80; steps++ {
			if !apply(Event{K: evDeliver, A: c.pool[0].seq}) {
				break
			}
		}
		if c.node(id).isLeader() {
			break
		}
	}
	return hit
}

func decodeResult(out []byte) ([]stateRes, []rec, []workerViol, simStats) {
	r := &rd{b: out}
	n := int(r.u32())
	res := make([]stateRes, n)
	for i := range res {
		res[i].id = r.u32()
		res[i].status = r.u8()
		res[i].trans = r.u32()
	}
	nr := int(r.u32())
	recs := make([]rec, nr)
	for i := range recs {
		rc := &recs[i]
		rc.parent = int32(r.u32())
		rc.ev = r.ev()
		rc.hash = r.u64()
		rc.cost = r.u8()
		rc.flags = r.u64()
		rc.backlog = r.u8()
		rc.expanded = r.u8() == 1
	}
	var ss simStats
	ss.Execs, ss.Hits, ss.Thaws, ss.ThawFeeds, ss.Validated, ss.Lookahead = int(r.u32()), int(r.u32()), int(r.u32()), int(r.u32()), int(r.u32()), int(r.u32())
	ss.CampBacklog, ss.CampRefused = int(r.u32()), int(r.u32())
	vl := int(r.u32())
	var viols []workerViol
	json.Unmarshal(r.b[r.p:r.p+vl], &viols)
	return res, recs, viols, ss
}
