// key.go: canonical state key. Deterministic, length-prefixed serialisation of exactly the
// state listed in DESIGN §C15, hashed with SHA-1 and truncated to 64 bit (hash compaction).
package main

import (
	"bytes"
	"crypto/sha1"
	"encoding/binary"
	"sort"

	"go.etcd.io/etcd/raft/v3"
	pb "go.etcd.io/etcd/raft/v3/raftpb"
	"go.etcd.io/etcd/raft/v3/tracker"
)

type kbuf struct{ b []byte }

func (k *kbuf) u(v uint64) { k.b = binary.AppendUvarint(k.b, v) }
func (k *kbuf) bs(p []byte) {
	k.u(uint64(len(p)))
	k.b = append(k.b, p...)
}
func (k *kbuf) bo(v bool) {
	if v {
		k.b = append(k.b, 1)
	} else {
		k.b = append(k.b, 0)
	}
}
func (k *kbuf) ids(m map[uint64]struct{}) {
	ids := sortedIDs(m)
	k.u(uint64(len(ids)))
	for _, id := range ids {
		k.u(id)
	}
}
func (k *kbuf) idl(l []uint64) {
	l = append([]uint64(nil), l...)
	sort.Slice(l, func(i, j int) bool { return l[i] < l[j] })
	k.u(uint64(len(l)))
	for _, id := range l {
		k.u(id)
	}
}
func (k *kbuf) conf(cs *pb.ConfState) {
	k.idl(cs.Voters)
	k.idl(cs.Learners)
	k.idl(cs.VotersOutgoing)
	k.idl(cs.LearnersNext)
	k.bo(cs.AutoLeave)
}

func (n *node) writeKey(k *kbuf, pass2 bool) {
	k.u(n.id)
	k.bo(n.alive)
	// apply lag: the mode (kept across a crash) and, below, everything about a held Ready
	k.bo(n.lag)
	k.bo(n.plag) // persist lag: the mode (kept across a crash like lag)
	// persisted: HardState, snapshot metadata, entries
	k.u(n.hs.Term)
	k.u(n.hs.Vote)
	k.u(n.hs.Commit)
	// storage compaction state: where the log starts (first index), the snapshot it starts
	// from (index, term, configuration, payload). Two nodes that hold the same entries but
	// have compacted differently answer MsgApp / MsgSnap / vote requests differently (term()
	// of a compacted index is unknown), so all of it is part of the key.
	k.u(n.firstIdx)
	k.u(n.snapIdx)
	k.u(n.snapTrm)
	if n.snapIdx > 0 {
		k.conf(&n.snapConf)
		k.bs(n.snapData)
	}
	k.u(uint64(len(n.log)))
	for i := range n.log {
		e := &n.log[i]
		k.u(e.Index)
		k.u(e.Term)
		k.u(uint64(e.Type))
		k.bs(e.Data)
	}
	if !n.alive {
		return
	}
	// volatile (after a complete Ready cycle the unstable part of the log is empty and
	// term/vote/commit equal the persisted HardState; both facts are checked as invariants)
	st := &n.status
	k.u(st.Term)
	k.u(st.Vote)
	k.u(st.Commit)
	k.u(uint64(st.RaftState))
	k.u(st.Lead)
	k.u(st.Applied)
	k.u(st.LeadTransferee)
	k.ids(st.Config.Voters[0])
	k.ids(st.Config.Voters[1])
	k.ids(st.Config.Learners)
	k.ids(st.Config.LearnersNext)
	k.bo(st.Config.AutoLeave)
	k.conf(&n.confState)
	k.u(n.appliedIdx)
	k.b = append(k.b, n.appDigest[:]...)
	if st.RaftState == raft.StateLeader {
		ids := make([]uint64, 0, len(st.Progress))
		for id := range st.Progress {
			ids = append(ids, id)
		}
		sort.Slice(ids, func(i, j int) bool { return ids[i] < ids[j] })
		k.u(uint64(len(ids)))
		for _, id := range ids {
			pr := st.Progress[id]
			k.u(id)
			k.u(pr.Match)
			k.u(pr.Next)
			k.u(uint64(pr.State))
			k.u(pr.PendingSnapshot)
			k.bo(pr.RecentActive)
			k.bo(pr.ProbeSent)
			k.bo(pr.IsLearner)
			k.bo(pr.State == tracker.StateReplicate && pr.Inflights.Full())
			k.u(uint64(pr.Inflights.Count()))
		}
		// the leader's pendingConfIndex decides whether the next conf change is accepted (and
		// whether the next Advance auto-leaves a joint configuration): every value below the
		// applied index behaves alike
		if pc := n.pendingConf; pc >= st.Applied {
			k.u(pc)
		} else {
			k.u(0)
		}
	}
	k.u(uint64(len(n.votes)))
	for _, v := range n.votes {
		k.u(v.id)
		k.bo(v.v)
	}
	// a held Ready: which committed page waits to be applied, what its Advance will mark as
	// stable / applied, and what has accumulated inside the RawNode since (the entries and
	// snapshot it has not handed out for persisting, the messages it has not handed out for
	// sending). Nothing else distinguishes two RawNodes with equal Status and equal storage.
	k.bo(n.held)
	if n.held {
		k.u(n.heldLo)
		k.u(n.heldHi)
		k.b = append(k.b, n.heldSum[:]...)
		k.u(n.heldEntIdx)
		k.u(n.heldEntTrm)
		k.u(n.heldSnapIdx)
		// persist lag: the Ready is held as a whole. What persist(n) will write and send is
		// state: the HardState, the entries (range + hash of their current content), the
		// snapshot boundary, the messages (count + hash of their current content)
		k.bo(n.heldWhole)
		if n.heldWhole {
			k.u(n.heldHS.Term)
			k.u(n.heldHS.Vote)
			k.u(n.heldHS.Commit)
			k.u(n.heldEntLo)
			k.u(uint64(n.heldEntN))
			k.b = append(k.b, n.heldEntSum[:]...)
			k.u(n.heldSnapTrm)
			k.u(uint64(n.heldMsgN))
			k.b = append(k.b, n.heldMsgSum[:]...)
		}
		k.u(n.in.offset)
		k.u(n.in.snapIdx)
		k.u(n.in.snapTrm)
		k.u(uint64(len(n.in.ents)))
		for i := range n.in.ents {
			e := &n.in.ents[i]
			k.u(e.Index)
			k.u(e.Term)
			k.u(uint64(e.Type))
			k.bs(e.Data)
		}
		k.u(uint64(len(n.in.msgs)))
		for _, m := range n.in.msgs {
			k.bs(m)
		}
	}
	if pass2 {
		el := n.elapsed
		if st.RaftState != raft.StateLeader && el > n.cfg.ElectionTick {
			el = n.cfg.ElectionTick
		}
		k.u(uint64(el))
	}
}

// key returns (hash of the full state, serialisation of the part that excludes the budget
// counters). The second value lets the search drop events that consumed budget without
// changing anything.
func (c *cluster) key() (uint64, []byte) {
	k := &kbuf{b: make([]byte, 0, 1024)}
	for _, n := range c.nodes {
		k.b = append(k.b, n.kb...)
	}
	// in-flight messages: multiset (Box A) or FIFO sequence (Box B)
	k.u(uint64(len(c.pool)))
	if c.fifo {
		for i := range c.pool {
			k.bs(c.pool[i].enc)
		}
	} else {
		encs := make([][]byte, len(c.pool))
		for i := range c.pool {
			encs[i] = c.pool[i].enc
		}
		sort.Slice(encs, func(i, j int) bool { return bytes.Compare(encs[i], encs[j]) < 0 })
		for _, e := range encs {
			k.bs(e)
		}
	}
	// delayed messages: a set (release picks any of them), canonical order = by content
	k.u(uint64(len(c.held)))
	if len(c.held) == 1 {
		k.bs(c.held[0].enc)
	} else if len(c.held) > 1 {
		encs := make([][]byte, len(c.held))
		for i := range c.held {
			encs[i] = c.held[i].enc
		}
		sort.Slice(encs, func(i, j int) bool { return bytes.Compare(encs[i], encs[j]) < 0 })
		for _, e := range encs {
			k.bs(e)
		}
	}
	// history variables
	k.u(uint64(len(c.leaderOf)))
	for _, l := range c.leaderOf {
		k.u(l)
	}
	k.u(uint64(len(c.ledger)))
	for i := range c.ledger {
		l := &c.ledger[i]
		k.bo(l.set)
		k.u(l.cterm)
		k.u(l.term)
		k.u(uint64(l.typ))
		k.bs(l.data)
	}
	u := &c.used
	k.b = append(k.b, c.iso)
	body := len(k.b)
	k.b = append(k.b, u.Proposals, u.Drops, u.Dups, u.Crashes, u.Heartbeats, u.Compacts, u.ConfChanges, u.Transfers, u.Expires, u.Delays, u.Lags, u.Applies, u.Plags, u.Persists, u.Batches)
	sum := sha1.Sum(k.b)
	return binary.LittleEndian.Uint64(sum[:8]), k.b[:body]
}
