// raftmc — E7: explicit-state search over real raft.RawNode instances.
//
// cluster.go: the simulated group. One raft.RawNode + raft.MemoryStorage per member, a pool
// of in-flight messages, the two history variables (leaderOf, commit ledger) and the event
// alphabet. Every event is one call into the real library followed by the complete handling
// of the Ready structs it produces (persist, send, apply, advance).
package main

import (
	"fmt"
	"runtime/debug"
	"sort"
	"strings"

	"go.etcd.io/etcd/raft/v3"
	pb "go.etcd.io/etcd/raft/v3/raftpb"
)

// ---------------------------------------------------------------------------- configuration

// Cfg is the raft.Config variant of a pass.
type Cfg struct {
	Name          string `json:"name"`
	PreVote       bool   `json:"pre_vote"`
	CheckQuorum   bool   `json:"check_quorum"`
	ElectionTick  int    `json:"election_tick"`
	MaxSizePerMsg uint64 `json:"max_size_per_msg"`
	Members       int    `json:"members"` // initial voters 1..Members
	Joiner        bool   `json:"joiner"`  // node Members+1 exists, empty, not a member yet
}

// Budget bounds the events of one run; it is part of the box definition.
type Budget struct {
	MaxTerm     uint64 `json:"max_term"` // campaign(n) only while n's term < MaxTerm
	Proposals   int    `json:"proposals"`
	Drops       int    `json:"drops"`
	Dups        int    `json:"dups"`
	Crashes     int    `json:"crashes"`
	Heartbeats  int    `json:"heartbeats"`
	Compacts    int    `json:"compacts"`
	ConfChanges int    `json:"conf_changes"`
	Transfers   int    `json:"transfers"`
	Expires     int    `json:"lease_expiries"` // pass 2 only
}

type used struct {
	Proposals, Drops, Dups, Crashes, Heartbeats, Compacts, ConfChanges, Transfers, Expires uint8
}

// Event kinds.
const (
	evDeliver uint8 = iota
	evDrop
	evDup
	evCampaign
	evHeartbeat
	evPropose
	evCrash
	evRestart
	evCompact
	evConf
	evTransfer
	evExpire
	evKinds
)

var evNames = [...]string{"deliver", "drop", "dup", "campaign", "heartbeat", "propose", "crash", "restart", "compact", "proposeConf", "transferLeader", "leaseExpire"}
var evShort = [...]string{"D", "X", "U", "C", "H", "P", "K", "R", "S", "F", "T", "E"}

// Conf-change variants (A field of evConf). "J" is the joiner id (Members+1), "L" the last
// initial member (Members).
const (
	ccAddV1 uint16 = iota
	ccRemoveV1
	ccAddLearner
	ccJointImplicit // {add J, remove L}, auto-leave
	ccJointExplicit // {add J, remove L}, explicit leave needed
	ccLeaveJoint    // empty ConfChangeV2
	ccVariants
)

var ccNames = [...]string{"addV1(J)", "removeV1(L)", "addLearnerV2(J)", "jointImplicit(+J,-L)", "jointExplicit(+J,-L)", "leaveJoint"}

// Event is one transition label. N is the node the event acts on (receiver for deliver),
// A is the message sequence number (deliver/drop/dup), the variant (proposeConf) or the
// transferee (transferLeader).
type Event struct {
	K uint8
	N uint8
	A uint16
}

// ---------------------------------------------------------------------------- node

type inKind uint8

const (
	inStep inKind = iota
	inCampaign
	inTick
	inPropose
	inProposeConf
	inTransfer
	inCrash
	inRestart
	inCompact
	inExpire
)

// input is one entry of a node's private input history: a node's state is a deterministic
// function of the sequence of inputs it received, which is what lets a successor be built by
// re-running only the affected node (see fork).
type input struct {
	k    inKind
	msg  pb.Message // inStep
	data []byte     // inPropose
	cc   uint16     // inProposeConf
	to   uint64     // inTransfer
}

type appliedEnt struct {
	Index, Term uint64
	Type        pb.EntryType
	Data        []byte
}

// effects is everything an input made observable outside the node.
type effects struct {
	msgs        []pb.Message
	applied     []appliedEnt
	snapApplied bool
	snapIgnored bool
	panicVal    string
	panicStack  string
	stepErr     error
}

type node struct {
	cfg   *Cfg
	id    uint64
	rn    *raft.RawNode
	st    *raft.MemoryStorage
	alive bool

	// application level (what raftexample keeps next to the node)
	confState  pb.ConfState
	appliedIdx uint64

	inputs []input
	// checkpoint taken at the last restart: storage image + position in inputs
	ckpt    *storageImage
	ckptPos int

	// cached views, refreshed after every input
	hs      pb.HardState // persisted
	log     []pb.Entry   // persisted entries (first..last)
	snapIdx uint64
	snapTrm uint64
	status  raft.Status
	votes   []voteRec
	elapsed int
}

type voteRec struct {
	id uint64
	v  bool
}

type storageImage struct {
	hs   pb.HardState
	snap pb.Snapshot
	ents []pb.Entry
}

func imageOf(st *raft.MemoryStorage) *storageImage {
	hs, _, _ := st.InitialState()
	snap, _ := st.Snapshot()
	fi, _ := st.FirstIndex()
	li, _ := st.LastIndex()
	var ents []pb.Entry
	if li >= fi {
		e, err := st.Entries(fi, li+1, ^uint64(0))
		if err != nil {
			panic(err)
		}
		ents = append(ents, e...)
	}
	return &storageImage{hs: hs, snap: snap, ents: ents}
}

func (im *storageImage) materialise() *raft.MemoryStorage {
	st := raft.NewMemoryStorage()
	if !raft.IsEmptySnap(im.snap) {
		if err := st.ApplySnapshot(im.snap); err != nil {
			panic(err)
		}
	}
	if len(im.ents) > 0 {
		if err := st.Append(append([]pb.Entry(nil), im.ents...)); err != nil {
			panic(err)
		}
	}
	st.SetHardState(im.hs)
	return st
}

func (n *node) raftConfig() *raft.Config {
	return &raft.Config{
		ID:                        n.id,
		ElectionTick:              n.cfg.ElectionTick,
		HeartbeatTick:             1,
		Storage:                   n.st,
		MaxSizePerMsg:             n.cfg.MaxSizePerMsg,
		MaxInflightMsgs:           256,
		MaxUncommittedEntriesSize: 1 << 30,
		PreVote:                   n.cfg.PreVote,
		CheckQuorum:               n.cfg.CheckQuorum,
		Logger:                    quiet,
	}
}

// bootNode creates member id of a fresh group (Bootstrap with the initial peers, like
// raft.StartNode in raftexample) or, for the joiner, an empty node (like RestartNode with
// join=true).
func bootNode(cfg *Cfg, id uint64) (*node, effects) {
	n := &node{cfg: cfg, id: id, st: raft.NewMemoryStorage(), alive: true}
	var eff effects
	func() {
		defer catch(&eff)
		rn, err := raft.NewRawNode(n.raftConfig())
		if err != nil {
			panic(err)
		}
		n.rn = rn
		if int(id) <= cfg.Members {
			peers := make([]raft.Peer, cfg.Members)
			for i := range peers {
				peers[i] = raft.Peer{ID: uint64(i + 1)}
			}
			if err := rn.Bootstrap(peers); err != nil {
				panic(err)
			}
		}
		n.pump(&eff)
	}()
	n.refresh()
	return n, eff
}

func catch(eff *effects) {
	if r := recover(); r != nil {
		eff.panicVal = fmt.Sprint(r)
		eff.panicStack = trimStack(string(debug.Stack()))
	}
}

func trimStack(s string) string {
	// keep the frames inside the raft library, drop harness frames
	lines := strings.Split(s, "\n")
	var out []string
	for i := 0; i+1 < len(lines); i++ {
		if strings.Contains(lines[i], "etcd/raft") && !strings.HasPrefix(lines[i], "\t") {
			out = append(out, strings.TrimSpace(lines[i]), strings.TrimSpace(lines[i+1]))
		}
		if len(out) >= 16 {
			break
		}
	}
	return strings.Join(out, "\n")
}

// panicFunc returns the innermost raft-library function on a trimmed stack.
func panicFunc(stack string) string {
	for _, l := range strings.Split(stack, "\n") {
		if strings.Contains(l, "etcd/raft") && !strings.HasPrefix(l, "/") {
			if strings.Contains(l, "Panicf") || strings.Contains(l, ".Panic(") {
				continue
			}
			if i := strings.LastIndex(l, "/"); i >= 0 {
				l = l[i+1:]
			}
			if i := strings.Index(l, "("); i > 0 && !strings.HasPrefix(l[i:], "(*") {
				l = l[:i]
			} else if j := strings.LastIndex(l, "("); j > 0 {
				l = l[:j]
			}
			return l
		}
	}
	return ""
}

// pump handles every pending Ready of the node: persist HardState / snapshot / entries into
// the MemoryStorage, collect outgoing messages, apply committed entries (ApplyConfChange for
// configuration entries), Advance. Same order as raftexample's serveChannels.
func (n *node) pump(eff *effects) {
	for i := 0; n.rn.HasReady(); i++ {
		if i > 64 {
			panic("raftmc: Ready loop does not terminate")
		}
		rd := n.rn.Ready()
		if !raft.IsEmptyHardState(rd.HardState) {
			n.st.SetHardState(rd.HardState)
		}
		if !raft.IsEmptySnap(rd.Snapshot) {
			if err := n.st.ApplySnapshot(rd.Snapshot); err != nil {
				eff.snapIgnored = true
			} else {
				eff.snapApplied = true
			}
			n.confState = rd.Snapshot.Metadata.ConfState
			n.appliedIdx = rd.Snapshot.Metadata.Index
		}
		if len(rd.Entries) > 0 {
			if err := n.st.Append(rd.Entries); err != nil {
				panic(err)
			}
		}
		eff.msgs = append(eff.msgs, rd.Messages...)
		for _, e := range rd.CommittedEntries {
			eff.applied = append(eff.applied, appliedEnt{e.Index, e.Term, e.Type, e.Data})
			switch e.Type {
			case pb.EntryConfChange:
				var cc pb.ConfChange
				if err := cc.Unmarshal(e.Data); err != nil {
					panic(err)
				}
				n.confState = *n.rn.ApplyConfChange(cc)
			case pb.EntryConfChangeV2:
				var cc pb.ConfChangeV2
				if err := cc.Unmarshal(e.Data); err != nil {
					panic(err)
				}
				n.confState = *n.rn.ApplyConfChange(cc)
			}
			n.appliedIdx = e.Index
		}
		n.rn.Advance(rd)
	}
}

func (n *node) confChange(v uint16) pb.ConfChangeI {
	j := uint64(n.cfg.Members + 1)
	l := uint64(n.cfg.Members)
	switch v {
	case ccAddV1:
		return pb.ConfChange{Type: pb.ConfChangeAddNode, NodeID: j}
	case ccRemoveV1:
		return pb.ConfChange{Type: pb.ConfChangeRemoveNode, NodeID: l}
	case ccAddLearner:
		return pb.ConfChangeV2{Changes: []pb.ConfChangeSingle{{Type: pb.ConfChangeAddLearnerNode, NodeID: j}}}
	case ccJointImplicit:
		return pb.ConfChangeV2{Transition: pb.ConfChangeTransitionJointImplicit, Changes: []pb.ConfChangeSingle{
			{Type: pb.ConfChangeAddNode, NodeID: j}, {Type: pb.ConfChangeRemoveNode, NodeID: l}}}
	case ccJointExplicit:
		return pb.ConfChangeV2{Transition: pb.ConfChangeTransitionJointExplicit, Changes: []pb.ConfChangeSingle{
			{Type: pb.ConfChangeAddNode, NodeID: j}, {Type: pb.ConfChangeRemoveNode, NodeID: l}}}
	case ccLeaveJoint:
		return pb.ConfChangeV2{}
	}
	panic("bad conf change variant")
}

// feed applies one input to the node (the only place the library is called after boot).
func (n *node) feed(in input) (eff effects) {
	eff = n.feedQuiet(in)
	n.refresh()
	return eff
}

// feedQuiet is feed without refreshing the cached views (used while re-running a history).
func (n *node) feedQuiet(in input) (eff effects) {
	n.inputs = append(n.inputs, in)
	func() {
		defer catch(&eff)
		switch in.k {
		case inCrash:
			n.rn = nil
			n.alive = false
			return
		case inRestart:
			// the storage image at this point fully determines the restarted node
			n.ckpt = imageOf(n.st)
			n.ckptPos = len(n.inputs) - 1
			n.restart()
		case inCompact:
			if _, err := n.st.CreateSnapshot(n.appliedIdx, &n.confState, []byte(fmt.Sprintf("snap@%d", n.appliedIdx))); err != nil {
				panic(err)
			}
			if err := n.st.Compact(n.appliedIdx); err != nil {
				panic(err)
			}
		case inStep:
			eff.stepErr = n.rn.Step(cloneMsg(in.msg))
		case inCampaign:
			eff.stepErr = n.rn.Campaign()
		case inTick:
			n.rn.Tick()
		case inPropose:
			eff.stepErr = n.rn.Propose(in.data)
		case inProposeConf:
			eff.stepErr = n.rn.ProposeConfChange(n.confChange(in.cc))
		case inTransfer:
			n.rn.TransferLeader(in.to)
		case inExpire:
			for i := 0; i < n.cfg.ElectionTick; i++ {
				pinElectionTimeout(n.rn)
				n.rn.Tick()
			}
		}
		if n.rn != nil {
			if n.cfg.CheckQuorum || n.cfg.PreVote {
				pinElectionTimeout(n.rn)
			}
			n.pump(&eff)
		}
	}()
	return eff
}

func (n *node) restart() {
	snap, _ := n.st.Snapshot()
	n.confState = snap.Metadata.ConfState
	n.appliedIdx = snap.Metadata.Index
	rn, err := raft.NewRawNode(n.raftConfig())
	if err != nil {
		panic(err)
	}
	n.rn = rn
	n.alive = true
}

// refresh re-reads the cached views from storage and RawNode.
func (n *node) refresh() {
	hs, _, _ := n.st.InitialState()
	n.hs = hs
	snap, _ := n.st.Snapshot()
	n.snapIdx, n.snapTrm = snap.Metadata.Index, snap.Metadata.Term
	fi, _ := n.st.FirstIndex()
	li, _ := n.st.LastIndex()
	n.log = nil
	if li >= fi {
		e, err := n.st.Entries(fi, li+1, ^uint64(0))
		if err == nil {
			n.log = e
		}
	}
	n.votes = n.votes[:0]
	n.elapsed = 0
	if n.rn != nil {
		func() {
			defer func() { recover() }()
			n.status = n.rn.Status()
			pk := peek(n.rn)
			n.votes = pk.votes
			n.elapsed = pk.electionElapsed
		}()
	} else {
		n.status = raft.Status{}
	}
}

func (n *node) lastIndex() uint64 {
	if len(n.log) > 0 {
		return n.log[len(n.log)-1].Index
	}
	return n.snapIdx
}

// termAt returns the term of index i if the node's persisted log (or its snapshot boundary)
// knows it.
func (n *node) termAt(i uint64) (uint64, bool) {
	if i == n.snapIdx && i != 0 {
		return n.snapTrm, true
	}
	if len(n.log) == 0 || i < n.log[0].Index || i > n.log[len(n.log)-1].Index {
		return 0, false
	}
	return n.log[i-n.log[0].Index].Term, true
}

func (n *node) entryAt(i uint64) (*pb.Entry, bool) {
	if len(n.log) == 0 || i < n.log[0].Index || i > n.log[len(n.log)-1].Index {
		return nil, false
	}
	return &n.log[i-n.log[0].Index], true
}

func (n *node) isLeader() bool { return n.alive && n.status.RaftState == raft.StateLeader }

// rebuild returns a fresh node in the same state, obtained by re-running the node's own
// input history on new objects (from boot, or from the storage image saved at its last
// restart).
func (n *node) rebuild() *node {
	var c *node
	start := 0
	if n.ckpt != nil {
		c = &node{cfg: n.cfg, id: n.id, st: n.ckpt.materialise(), alive: false}
		c.inputs = n.inputs[:n.ckptPos:n.ckptPos]
		start = n.ckptPos
	} else {
		c, _ = bootNode(n.cfg, n.id)
	}
	for _, in := range n.inputs[start:] {
		c.feedQuiet(in)
	}
	c.refresh()
	return c
}

func cloneMsg(m pb.Message) pb.Message {
	if len(m.Entries) > 0 {
		m.Entries = append([]pb.Entry(nil), m.Entries...)
	}
	return m
}

// ---------------------------------------------------------------------------- cluster

type pmsg struct {
	seq uint16
	m   pb.Message
	enc []byte
}

type ledgerEnt struct {
	set   bool
	cterm uint64 // term of the node on which the commitment was first observed
	term  uint64
	typ   pb.EntryType
	data  []byte
}

// Coverage flags of a transition.
const (
	fTwoLeaders      uint32 = 1 << iota // >= 2 live leaders (necessarily in different terms)
	fTruncation                         // a persisted entry was replaced / the log got shorter
	fCommitOlderTerm                    // commit index moved over an entry of an earlier term than the node's
	fSnapSent                           // MsgSnap emitted
	fSnapApplied                        // snapshot restored by a follower
	fConfApplied                        // configuration entry applied (beyond bootstrap)
	fJoint                              // some node is in a joint configuration
	fLeaderStepDown                     // a leader left leadership in this event
	fStaleTermMsg                       // delivered message carried a term below the receiver's
	fRestartWithLog                     // restart of a node holding entries beyond bootstrap
	fLeaderElected                      // a node became leader
	fCommitAdvanced                     // ledger grew
	fLearner                            // some node tracks a learner
	fVoteRejected                       // a vote / pre-vote rejection was emitted
	fPreVote                            // MsgPreVote emitted
	fCheckQuorumDown                    // leader stepped down on a tick (CheckQuorum)
	fTransfer                           // MsgTimeoutNow emitted
	fFlags           = iota
)

var flagNames = [...]string{"two_live_leaders_in_different_terms", "conflict_truncations", "commits_of_earlier_term_entries", "snapshots_sent", "snapshots_applied",
	"conf_changes_applied", "joint_configurations", "leader_step_downs", "stale_term_deliveries", "restarts_with_log", "leaders_elected", "commit_advances", "learner_configurations",
	"vote_rejections", "pre_votes", "check_quorum_step_downs", "timeout_now_sent"}

type violation struct {
	Kind   string
	Detail string
	Func   string
}

type cluster struct {
	cfg  *Cfg
	bud  *Budget
	fifo bool // pool order is part of the state (Box B)

	nodes   []*node
	pool    []pmsg
	nextSeq uint16
	used    used

	leaderOf []uint64    // by term; 0 = none seen
	ledger   []ledgerEnt // by index

	viol  []violation
	flags uint32
}

func newCluster(cfg *Cfg, bud *Budget, fifo bool) *cluster {
	c := &cluster{cfg: cfg, bud: bud, fifo: fifo}
	total := cfg.Members
	if cfg.Joiner {
		total++
	}
	for id := 1; id <= total; id++ {
		n, eff := bootNode(cfg, uint64(id))
		c.nodes = append(c.nodes, n)
		before := nodeView{}
		c.absorb(n, &before, &eff, Event{K: evRestart, N: uint8(id)})
	}
	c.flags = 0
	return c
}

func (c *cluster) node(id uint64) *node {
	if id == 0 || int(id) > len(c.nodes) {
		return nil
	}
	return c.nodes[id-1]
}

func (c *cluster) findMsg(seq uint16) int {
	for i := range c.pool {
		if c.pool[i].seq == seq {
			return i
		}
	}
	return -1
}

// fork returns a copy of the cluster in which node `touch` (0 = none) has been rebuilt on
// fresh objects; all other nodes are shared with the receiver and must only be read.
func (c *cluster) fork(touch uint64) *cluster {
	d := &cluster{cfg: c.cfg, bud: c.bud, fifo: c.fifo, nextSeq: c.nextSeq, used: c.used}
	d.nodes = append([]*node(nil), c.nodes...)
	if touch != 0 {
		d.nodes[touch-1] = c.nodes[touch-1].rebuild()
	}
	d.pool = append([]pmsg(nil), c.pool...)
	d.leaderOf = append([]uint64(nil), c.leaderOf...)
	d.ledger = append([]ledgerEnt(nil), c.ledger...)
	return d
}

// target returns the node an event acts on (0 for pure pool events).
func (c *cluster) target(e Event) uint64 {
	switch e.K {
	case evDrop, evDup:
		return 0
	case evDeliver:
		i := c.findMsg(e.A)
		if i < 0 {
			return 0
		}
		to := c.pool[i].m.To
		if n := c.node(to); n == nil || !n.alive {
			return 0
		}
		return to
	}
	return uint64(e.N)
}

type nodeView struct {
	hs        pb.HardState
	log       []pb.Entry
	snapIdx   uint64
	wasLeader bool
	alive     bool
	term      uint64
}

func viewOf(n *node) nodeView {
	return nodeView{hs: n.hs, log: n.log, snapIdx: n.snapIdx, wasLeader: n.isLeader(), alive: n.alive, term: n.status.Term}
}

// apply executes one event in place. It returns false if the event is not enabled.
func (c *cluster) apply(e Event) bool {
	c.viol = c.viol[:0]
	c.flags = 0
	switch e.K {
	case evDrop:
		i := c.findMsg(e.A)
		if i < 0 || int(c.used.Drops) >= c.bud.Drops {
			return false
		}
		c.pool = append(c.pool[:i:i], c.pool[i+1:]...)
		c.used.Drops++
		return true
	case evDup:
		i := c.findMsg(e.A)
		if i < 0 || int(c.used.Dups) >= c.bud.Dups {
			return false
		}
		p := c.pool[i]
		p.seq = c.nextSeq
		c.nextSeq++
		c.pool = append(c.pool[:len(c.pool):len(c.pool)], p)
		c.used.Dups++
		return true
	case evDeliver:
		i := c.findMsg(e.A)
		if i < 0 {
			return false
		}
		p := c.pool[i]
		c.pool = append(c.pool[:i:i], c.pool[i+1:]...)
		n := c.node(p.m.To)
		if n == nil || !n.alive {
			return true // addressed to a node that is down: lost
		}
		before := viewOf(n)
		if p.m.Term != 0 && p.m.Term < n.status.Term {
			c.flags |= fStaleTermMsg
		}
		eff := n.feed(input{k: inStep, msg: p.m})
		c.absorb(n, &before, &eff, e)
		return true
	}
	n := c.node(uint64(e.N))
	if n == nil {
		return false
	}
	var in input
	switch e.K {
	case evCampaign:
		if !n.alive || n.isLeader() || n.status.Term >= c.bud.MaxTerm {
			return false
		}
		in = input{k: inCampaign}
	case evHeartbeat:
		if !n.isLeader() || int(c.used.Heartbeats) >= c.bud.Heartbeats {
			return false
		}
		c.used.Heartbeats++
		in = input{k: inTick}
	case evPropose:
		if !n.alive || int(c.used.Proposals) >= c.bud.Proposals {
			return false
		}
		c.used.Proposals++
		in = input{k: inPropose, data: []byte(fmt.Sprintf("p%d", c.used.Proposals))}
	case evCrash:
		if !n.alive || int(c.used.Crashes) >= c.bud.Crashes {
			return false
		}
		c.used.Crashes++
		in = input{k: inCrash}
	case evRestart:
		if n.alive {
			return false
		}
		if len(n.log) > 0 && n.log[len(n.log)-1].Index > uint64(c.cfg.Members) {
			c.flags |= fRestartWithLog
		}
		in = input{k: inRestart}
	case evCompact:
		if !n.alive || int(c.used.Compacts) >= c.bud.Compacts || n.appliedIdx <= n.snapIdx || n.appliedIdx > n.lastIndex() {
			return false
		}
		c.used.Compacts++
		in = input{k: inCompact}
	case evConf:
		if !n.isLeader() || int(c.used.ConfChanges) >= c.bud.ConfChanges || e.A >= ccVariants || !c.cfg.Joiner {
			return false
		}
		joint := len(n.status.Config.Voters[1]) > 0
		if (e.A == ccLeaveJoint) != joint {
			return false
		}
		c.used.ConfChanges++
		in = input{k: inProposeConf, cc: e.A}
	case evTransfer:
		if !n.isLeader() || int(c.used.Transfers) >= c.bud.Transfers || uint64(e.A) == n.id || c.node(uint64(e.A)) == nil {
			return false
		}
		if _, ok := n.status.Progress[uint64(e.A)]; !ok {
			return false
		}
		c.used.Transfers++
		in = input{k: inTransfer, to: uint64(e.A)}
	case evExpire:
		if !(c.cfg.CheckQuorum) || !n.alive || n.isLeader() || int(c.used.Expires) >= c.bud.Expires || n.elapsed >= c.cfg.ElectionTick {
			return false
		}
		c.used.Expires++
		in = input{k: inExpire}
	default:
		return false
	}
	before := viewOf(n)
	eff := n.feed(in)
	c.absorb(n, &before, &eff, e)
	return true
}

// absorb moves the effects of an input into the cluster (pool, history variables) and checks
// every invariant that the event could have affected.
func (c *cluster) absorb(n *node, before *nodeView, eff *effects, e Event) {
	if eff.panicVal != "" {
		c.viol = append(c.viol, violation{Kind: "Panic", Func: panicFunc(eff.panicStack),
			Detail: fmt.Sprintf("node %d: the library panicked handling %s: %s\n%s", n.id, evNames[e.K], eff.panicVal, eff.panicStack)})
		return
	}
	for _, m := range eff.msgs {
		if m.To == n.id || m.To == 0 {
			c.viol = append(c.viol, violation{Kind: "SelfAddressedMessage", Detail: fmt.Sprintf("node %d emitted %s", n.id, descMsg(&m))})
			continue
		}
		m = cloneMsg(m)
		enc, err := m.Marshal()
		if err != nil {
			panic(err)
		}
		c.pool = append(c.pool[:len(c.pool):len(c.pool)], pmsg{seq: c.nextSeq, m: m, enc: enc})
		c.nextSeq++
		switch m.Type {
		case pb.MsgSnap:
			c.flags |= fSnapSent
		case pb.MsgPreVote:
			c.flags |= fPreVote
		case pb.MsgTimeoutNow:
			c.flags |= fTransfer
		case pb.MsgVoteResp, pb.MsgPreVoteResp:
			if m.Reject {
				c.flags |= fVoteRejected
			}
		}
	}
	if eff.snapApplied {
		c.flags |= fSnapApplied
	}
	c.check(n, before, eff, e)
}

// ---------------------------------------------------------------------------- description

func descMsg(m *pb.Message) string {
	var b strings.Builder
	fmt.Fprintf(&b, "%s %d->%d t%d", strings.TrimPrefix(m.Type.String(), "Msg"), m.From, m.To, m.Term)
	switch m.Type {
	case pb.MsgApp:
		fmt.Fprintf(&b, " prev=(%d,t%d) commit=%d ents=[", m.Index, m.LogTerm, m.Commit)
		for i, e := range m.Entries {
			if i > 0 {
				b.WriteByte(' ')
			}
			b.WriteString(descEntry(&e))
		}
		b.WriteByte(']')
	case pb.MsgAppResp:
		if m.Reject {
			fmt.Fprintf(&b, " reject idx=%d hint=(%d,t%d)", m.Index, m.RejectHint, m.LogTerm)
		} else {
			fmt.Fprintf(&b, " idx=%d", m.Index)
		}
	case pb.MsgVote, pb.MsgPreVote:
		fmt.Fprintf(&b, " last=(%d,t%d)", m.Index, m.LogTerm)
		if len(m.Context) > 0 {
			fmt.Fprintf(&b, " ctx=%s", m.Context)
		}
	case pb.MsgVoteResp, pb.MsgPreVoteResp:
		if m.Reject {
			b.WriteString(" reject")
		} else {
			b.WriteString(" grant")
		}
	case pb.MsgHeartbeat:
		fmt.Fprintf(&b, " commit=%d", m.Commit)
	case pb.MsgSnap:
		fmt.Fprintf(&b, " snap=(%d,t%d) voters=%v", m.Snapshot.Metadata.Index, m.Snapshot.Metadata.Term, m.Snapshot.Metadata.ConfState.Voters)
	case pb.MsgProp:
		b.WriteString(" ents=[")
		for i, e := range m.Entries {
			if i > 0 {
				b.WriteByte(' ')
			}
			b.WriteString(descEntry(&e))
		}
		b.WriteByte(']')
	}
	return b.String()
}

func descEntry(e *pb.Entry) string {
	switch e.Type {
	case pb.EntryNormal:
		if len(e.Data) == 0 {
			return fmt.Sprintf("%d:t%d:noop", e.Index, e.Term)
		}
		return fmt.Sprintf("%d:t%d:%s", e.Index, e.Term, e.Data)
	case pb.EntryConfChange:
		var cc pb.ConfChange
		cc.Unmarshal(e.Data)
		return fmt.Sprintf("%d:t%d:cc(%s %d)", e.Index, e.Term, strings.TrimPrefix(cc.Type.String(), "ConfChange"), cc.NodeID)
	default:
		var cc pb.ConfChangeV2
		cc.Unmarshal(e.Data)
		return fmt.Sprintf("%d:t%d:ccv2(%s)", e.Index, e.Term, pb.ConfChangesToString(cc.Changes))
	}
}

// describe renders an event against the current (pre-)state.
func (c *cluster) describe(e Event) string {
	switch e.K {
	case evDeliver, evDrop, evDup:
		i := c.findMsg(e.A)
		if i < 0 {
			return fmt.Sprintf("%s(#%d ?)", evNames[e.K], e.A)
		}
		s := fmt.Sprintf("%s(%s)", evNames[e.K], descMsg(&c.pool[i].m))
		if e.K == evDeliver {
			if n := c.node(c.pool[i].m.To); n == nil || !n.alive {
				s += " [receiver down: lost]"
			}
		}
		return s
	case evConf:
		return fmt.Sprintf("proposeConf(%d, %s)", e.N, ccNames[e.A])
	case evTransfer:
		return fmt.Sprintf("transferLeader(%d -> %d)", e.N, e.A)
	case evPropose:
		return fmt.Sprintf("propose(%d, p%d)", e.N, c.used.Proposals+1)
	}
	return fmt.Sprintf("%s(%d)", evNames[e.K], e.N)
}

func (c *cluster) summary() string {
	var b strings.Builder
	for _, n := range c.nodes {
		if !n.alive {
			fmt.Fprintf(&b, "  n%d DOWN  hs=(t%d v%d c%d) log=%s\n", n.id, n.hs.Term, n.hs.Vote, n.hs.Commit, descLog(n))
			continue
		}
		fmt.Fprintf(&b, "  n%d %-12s t%d vote=%d lead=%d commit=%d applied=%d log=%s\n", n.id, n.status.RaftState, n.status.Term, n.status.Vote, n.status.Lead,
			n.status.Commit, n.status.Applied, descLog(n))
	}
	fmt.Fprintf(&b, "  pool(%d):", len(c.pool))
	for _, p := range c.pool {
		fmt.Fprintf(&b, " {%s}", descMsg(&p.m))
	}
	return b.String()
}

func descLog(n *node) string {
	var parts []string
	if n.snapIdx > 0 {
		parts = append(parts, fmt.Sprintf("snap(%d,t%d)", n.snapIdx, n.snapTrm))
	}
	for i := range n.log {
		parts = append(parts, descEntry(&n.log[i]))
	}
	return "[" + strings.Join(parts, " ") + "]"
}

func sortedIDs(m map[uint64]struct{}) []uint64 {
	ids := make([]uint64, 0, len(m))
	for id := range m {
		ids = append(ids, id)
	}
	sort.Slice(ids, func(i, j int) bool { return ids[i] < ids[j] })
	return ids
}
