// raftmc — E7: explicit-state search over real raft.RawNode instances (property C15).
//
// cluster.go: the simulated group.
//
//	live    one raft.RawNode + raft.MemoryStorage + the application state raftexample keeps
//	        next to them; feed() is the only place the library is called: one input, then the
//	        complete handling of the Ready structs it produces (persist, send, apply, Advance) -
//	        except in the two lag modes: apply lag (a Ready is persisted and sent, its committed
//	        page and Advance are held) and persist lag (the whole Ready is held), where later
//	        inputs call the library without a Ready cycle until apply(n) / persist(n)
//	node    immutable observation of a member after an input history (what the invariants and
//	        the state key read)
//	sim     owns the live objects; memoises node-level transitions per input history and
//	        rebuilds a RawNode in a given history state by re-running that history
//	cluster one global state: nodes, pool of in-flight messages, partition, budgets used and
//	        the two history variables (leaderOf, commit ledger); step() is the transition
//	        function of the search
package main

import (
	"bytes"
	"crypto/sha1"
	"encoding/binary"
	"fmt"
	"runtime/debug"
	"sort"
	"strings"

	"go.etcd.io/etcd/raft/v3"
	pb "go.etcd.io/etcd/raft/v3/raftpb"
)

// ---------------------------------------------------------------------------- configuration

// Cfg is the raft.Config variant of a pass.
type Cfg struct {
	Name          string `json:"name"`
	PreVote       bool   `json:"pre_vote"`
	CheckQuorum   bool   `json:"check_quorum"`
	ElectionTick  int    `json:"election_tick"`
	MaxSizePerMsg uint64 `json:"max_size_per_msg"`
	Members       int    `json:"members"` // initial voters 1..Members
	Joiner        bool   `json:"joiner"`  // node Members+1 exists, empty, not a member yet
	// Joiners > 1: nodes Members+1..Members+Joiners exist, empty, not members yet (Joiner is
	// then true as well; a configuration written before this field existed reads as one joiner)
	Joiners int `json:"joiners,omitempty"`
	// Unequal: every second proposal carries a payload 64 bytes longer than the others, so that a
	// byte budget (MaxSizePerMsg) can stop in front of one entry and still have room for a later one
	Unequal bool `json:"unequal_payloads,omitempty"`
}

// joiners returns the number of empty nodes that exist next to the initial members.
func (c *Cfg) joiners() int {
	if c.Joiners > 0 {
		return c.Joiners
	}
	if c.Joiner {
		return 1
	}
	return 0
}

// Budget bounds the events of one run; it is part of the box definition.
type Budget struct {
	MaxTerm     uint64 `json:"max_term"` // campaign(n) only while n's term < MaxTerm
	Proposals   int    `json:"proposals"`
	Drops       int    `json:"drops"`
	Dups        int    `json:"dups"`
	Crashes     int    `json:"crashes"`
	Heartbeats  int    `json:"heartbeats"`
	Compacts    int    `json:"compacts"`
	ConfChanges int    `json:"conf_changes"`
	Transfers   int    `json:"transfers"`
	Expires     int    `json:"lease_expiries"`    // pass 2 only
	Delays      int    `json:"delays"`            // messages (or duplicates) parked outside the FIFO pool
	Lags        int    `json:"lags,omitempty"`    // lag(n): the application of n starts applying asynchronously
	Applies     int    `json:"applies,omitempty"` // apply(n): one held page of committed entries applied + Advance
	// persist lag (see evPLag): plag(n) = the application of n is slow in persisting: every Ready
	// is held as a whole; persist(n) = one held Ready persisted, sent, applied, advanced
	Plags    int `json:"persist_lags,omitempty"`
	Persists int `json:"persists,omitempty"`
	// proposeBatch(n, shape): one MsgProp carrying several entries stepped into n (see evBatch)
	Batches int `json:"batches,omitempty"`
}

type used struct {
	Proposals, Drops, Dups, Crashes, Heartbeats, Compacts, ConfChanges, Transfers, Expires, Delays, Lags, Applies uint8
	Plags, Persists                                                                                               uint8
	Batches                                                                                                       uint8
}

// Event kinds.
const (
	evDeliver uint8 = iota
	evDrop
	evDup
	evCampaign
	evHeartbeat
	evPropose
	evCrash
	evRestart
	evCompact
	evConf
	evTransfer
	evExpire
	evIsolate
	// Delay. Box B delivers in FIFO order, so "this message arrives much later" would cost one
	// deviation per message that overtakes it. The three events below make an arbitrarily long
	// delay one deviation: a pooled message (evDelay) or a duplicate of it (evDupDelay) is
	// parked in the cluster's `held` set, where nothing happens to it, and evRelease puts it
	// back at the tail of the pool at any later quiescent point (free) or while other messages
	// are in flight (one more deviation). A stale MsgSnap / MsgApp / vote reaching a node long
	// after that node moved on (compacted, committed further, changed term) is such a path.
	evDelay
	evDupDelay
	evRelease
	// Apply lag. Everywhere else a node's library call and the complete handling of the Ready
	// structs it produces are one transition, so applied == committed in every state. A node
	// in lag mode (evLag) applies asynchronously, like an application whose state machine is
	// slower than its raft loop: a Ready that carries CommittedEntries is persisted and its
	// messages are sent, but the committed page and the Advance are held. While a Ready is
	// held the RawNode keeps stepping messages, ticking, campaigning and accepting proposals
	// (etcd's node.run accepts recvc / tickc / propc while it waits for advancec) but hands
	// out no further Ready: whatever it wants to send or persist stays inside it. evApply
	// applies the held page, calls Advance and resumes the Ready loop up to the next Ready
	// with committed entries, which is held again. evUnlag leaves lag mode (applies what is
	// held and runs the Ready loop to completion).
	evLag
	evApply
	evUnlag
	// Persist lag, the second lag flavour. In apply lag the node persists and sends a Ready at
	// once and holds only the committed page; but an application (raftexample: rd := <-Ready();
	// wal.Save(rd.HardState, rd.Entries); transport.Send(rd.Messages); publishEntries; Advance())
	// is also slow *before* it has written anything, and the raft state machine (node.run)
	// steps incoming messages from the moment the Ready was handed out. A node in persist-lag
	// mode (evPLag) takes rd := Ready() and holds the WHOLE Ready: nothing persisted, nothing
	// sent, nothing applied. While it is held every input calls the library without a Ready
	// cycle (as in apply lag). evPersist releases it: HardState, snapshot and entries are
	// persisted from the held Ready - i.e. from whatever its slices contain at that moment - its
	// messages are handed out, its committed entries applied, Advance; the Ready loop resumes
	// and the next Ready is held again. A crash loses a held Ready entirely (storage untouched,
	// messages never sent). The raft.Ready contract says the application owns these slices until
	// Advance: at the release they are compared with a deep copy taken at the hand-out
	// (ReadyMutatedAfterHandOut). evUnplag leaves the mode (only while nothing is held, so that
	// every release is observed on its own).
	evPLag
	evPersist
	evUnplag
	// Batch proposal. propose / proposeConf enter the library through RawNode.Propose /
	// ProposeConfChange: one entry per MsgProp. The API also accepts a MsgProp that carries
	// SEVERAL entries (RawNode.Step(pb.Message{Type: MsgProp, From: id, Entries: ...}), what
	// raft.Node.Step does with a proposal an application forwards or batches itself; a follower
	// passes such a message on to the leader unchanged). evBatch steps one into node N: the A
	// field is shape<<8 | conf-change variant (see bs* / cc*). The leader walks over the entries,
	// keeps or neutralises every conf change on its own (pendingConfIndex bookkeeping) and
	// appends the whole batch at once; with one entry per MsgApp (MaxSizePerMsg = 0) the batch is
	// then replicated, committed and applied entry by entry.
	evBatch
	evKinds
)

var evNames = [...]string{"deliver", "drop", "dup", "campaign", "heartbeat", "propose", "crash", "restart", "compact", "proposeConf", "transferLeader", "leaseExpire", "isolate",
	"delay", "dupDelayed", "release", "lag", "apply", "unlag", "plag", "persist", "unplag", "proposeBatch"}
var evShort = [...]string{"D", "X", "U", "C", "H", "P", "K", "R", "S", "F", "T", "E", "I", "Y", "V", "Z", "L", "A", "N", "G", "B", "M", "O"}

// compile-time checks: one name per event kind
var _ = [1]struct{}{}[len(evNames)-int(evKinds)]
var _ = [1]struct{}{}[len(evShort)-int(evKinds)]

// Conf-change variants (A field of evConf). "J" is the joiner id (Members+1), "L" the last
// initial member (Members), "J2" the second joiner (Members+2, only with Cfg.Joiners >= 2),
// "L-1" the last but one initial member (two successive single-node removals: L-1 and L).
const (
	ccAddV1 uint16 = iota
	ccRemoveV1
	ccAddLearner
	ccJointImplicit  // {add J, remove L}, auto-leave
	ccJointExplicit  // {add J, remove L}, explicit leave needed
	ccLeaveJoint     // empty ConfChangeV2
	ccAddV1Second    // add J2
	ccRemoveV1Second // remove L-1 (only through an explicit Box.ConfVariants / Box.BatchConf list)
	ccVariants
)

// ccDefaultVariants: a box without an explicit list of variants uses the variants below this
// one (the alphabet of the boxes that were written before ccRemoveV1Second existed).
const ccDefaultVariants = ccRemoveV1Second

var ccNames = [...]string{"addV1(J)", "removeV1(L)", "addLearnerV2(J)", "jointImplicit(+J,-L)", "jointExplicit(+J,-L)", "leaveJoint", "addV1(J2)", "removeV1(L-1)"}

// compile-time check: one name per variant
var _ = [1]struct{}{}[len(ccNames)-int(ccVariants)]

// ccNeedsJoiners returns how many joiner nodes a variant refers to.
func ccNeedsJoiners(v uint16) int {
	switch v {
	case ccRemoveV1, ccRemoveV1Second, ccLeaveJoint:
		return 0
	case ccAddV1Second:
		return 2
	}
	return 1
}

// Batch shapes (A>>8 of evBatch): the entry types of one multi-entry MsgProp. "normal" entries
// carry the data "b<batch number>.<position>", every confChange of a batch is the variant in
// the low byte of A.
const (
	bsNormalConf       uint16 = iota // [normal, confChange]
	bsConfNormal                     // [confChange, normal]
	bsNormalNormal                   // [normal, normal]
	bsNormalConfNormal               // [normal, confChange, normal]
	bsConfConf                       // [confChange, confChange]: the second one must be neutralised
	bsShapes
)

var bsNames = [...]string{"[normal, confChange]", "[confChange, normal]", "[normal, normal]", "[normal, confChange, normal]", "[confChange, confChange]"}
var bsTypes = [...][]bool{{false, true}, {true, false}, {false, false}, {false, true, false}, {true, true}} // true: conf change

var _ = [1]struct{}{}[len(bsNames)-int(bsShapes)]
var _ = [1]struct{}{}[len(bsTypes)-int(bsShapes)]

func bsHasConf(shape uint16) bool {
	for _, c := range bsTypes[shape] {
		if c {
			return true
		}
	}
	return false
}

// Event is one transition label. N is the node the event acts on (receiver for deliver),
// A is the message sequence number (deliver/drop/dup), the variant (proposeConf) or the
// transferee (transferLeader).
type Event struct {
	K uint8
	N uint8
	A uint16
}

// ---------------------------------------------------------------------------- live node

type inKind uint8

const (
	inStep inKind = iota
	inCampaign
	inTick
	inPropose
	inProposeConf
	inTransfer
	inCrash
	inRestart
	inCompact
	inExpire
	inLag
	inApply
	inUnlag
	inPLag
	inPersist
	inUnplag
	inBatch
)

// input is one entry of a node's private input history. A node's state is a deterministic
// function of the sequence of inputs it received since boot.
type input struct {
	k    inKind
	msg  pb.Message // inStep
	enc  []byte     // inStep: marshalled msg
	data []byte     // inPropose
	cc   uint16     // inProposeConf, inBatch: conf-change variant
	to   uint64     // inTransfer
	// inBatch: shape of the batch and its number in the run (the data of its normal entries)
	shape uint8
	seqno uint8
}

type appliedEnt struct {
	Index, Term uint64
	Type        pb.EntryType
	Data        []byte
}

type outMsg struct {
	m   pb.Message
	enc []byte
}

// effects is everything an input made observable outside the node.
type effects struct {
	msgs        []outMsg
	applied     []appliedEnt
	snapApplied bool   // a snapshot from a Ready was installed in the storage and the application
	snapIgnored bool   // Ready carried a snapshot the storage refused (ErrSnapOutOfDate)
	snapIdx     uint64 // index of that snapshot (either case)
	snapBelow   uint64 // snapIgnored / obsolete: the applied index the snapshot did not exceed
	pages       int    // held pages of committed entries applied by this input (apply / unlag)
	heldNew     bool   // persist lag: this input ended with a fresh Ready held as a whole
	released    int    // persist lag: whole Readys released (persisted, sent, applied, advanced) by this input
	unsynced    string // a granted vote left the node while the state it promises had not been written with MustSync
	mutated     string // persist lag: first difference between the released Ready and its copy taken at the hand-out
	panicVal    string
	panicStack  string
}

// live wraps the real objects of one member: the RawNode, its MemoryStorage and the little
// state raftexample keeps next to them.
type live struct {
	cfg   *Cfg
	id    uint64
	rn    *raft.RawNode
	st    *raft.MemoryStorage
	alive bool

	confState  pb.ConfState
	appliedIdx uint64
	// appDigest stands for the application state machine: a running hash over every entry
	// applied so far (index, term, type, data). compact() stores it as the snapshot payload,
	// installing a snapshot replaces it by the payload. The StateMachineSafety invariant
	// recomputes the same hash from the commit ledger, so a snapshot that carries (or a restore
	// that produces) a state different from "the committed prefix up to its index" is caught,
	// not only a wrong (index, term) boundary.
	appDigest digest

	// apply lag (see evLag): in lag mode a Ready with committed entries is persisted and sent
	// but not applied and not advanced; it is kept here. No Ready() call is made while one is
	// held. lag survives a crash (it describes the application, not the RawNode), held does
	// not.
	lag  bool
	held *raft.Ready

	// persist lag (see evPLag): every Ready is held as a whole (heldWhole says that `held` is
	// such a Ready: nothing of it has been persisted, sent or applied); handed is the deep copy
	// taken when it was handed out. plag survives a crash like lag does.
	plag      bool
	heldWhole bool
	handed    *readyImage

	// what a power loss would leave: term / vote and last log index as of the last Ready written
	// with MustSync (or of the storage the node was started from). Not used for restarts (a crash
	// here is a process crash, the storage survives whole) - only for AcknowledgedBeforeDurable.
	durInit bool
	durTerm uint64
	durVote uint64
	durLast uint64
}

// readyImage is a deep copy of the parts of a Ready that the application owns until Advance:
// the entries to persist, the committed entries, the messages (marshalled, entries included)
// and the snapshot.
type readyImage struct {
	ents      []pb.Entry
	committed []pb.Entry
	msgs      [][]byte
	snapMeta  []byte
	snapData  []byte
}

func cloneEntries(es []pb.Entry) []pb.Entry {
	out := make([]pb.Entry, len(es))
	for i := range es {
		out[i] = es[i]
		out[i].Data = append([]byte(nil), es[i].Data...)
	}
	return out
}

func imageOfReady(rd *raft.Ready) *readyImage {
	im := &readyImage{ents: cloneEntries(rd.Entries), committed: cloneEntries(rd.CommittedEntries)}
	for i := range rd.Messages {
		enc, err := rd.Messages[i].Marshal()
		if err != nil {
			panic(err)
		}
		im.msgs = append(im.msgs, enc)
	}
	if !raft.IsEmptySnap(rd.Snapshot) {
		enc, err := rd.Snapshot.Metadata.Marshal()
		if err != nil {
			panic(err)
		}
		im.snapMeta = enc
		im.snapData = append([]byte(nil), rd.Snapshot.Data...)
	}
	return im
}

func diffEntries(what string, was, now []pb.Entry) string {
	if len(was) != len(now) {
		return fmt.Sprintf("%s: %d entries at the hand-out, %d now", what, len(was), len(now))
	}
	for i := range was {
		if !sameEntry(&was[i], &now[i]) {
			return fmt.Sprintf("%s[%d] was %s at the hand-out and is %s now", what, i, descEntry(&was[i]), descEntry(&now[i]))
		}
	}
	return ""
}

// diff compares the Ready as it is now with the copy taken when it was handed out; "" = equal.
func (im *readyImage) diff(rd *raft.Ready) string {
	if d := diffEntries("Ready.Entries", im.ents, rd.Entries); d != "" {
		return d
	}
	if d := diffEntries("Ready.CommittedEntries", im.committed, rd.CommittedEntries); d != "" {
		return d
	}
	if len(im.msgs) != len(rd.Messages) {
		return fmt.Sprintf("Ready.Messages: %d messages at the hand-out, %d now", len(im.msgs), len(rd.Messages))
	}
	for i := range rd.Messages {
		enc, err := rd.Messages[i].Marshal()
		if err != nil {
			return fmt.Sprintf("Ready.Messages[%d] cannot be marshalled any more: %v", i, err)
		}
		if !bytes.Equal(enc, im.msgs[i]) {
			var was pb.Message
			was.Unmarshal(im.msgs[i])
			return fmt.Sprintf("Ready.Messages[%d] was {%s} at the hand-out and is {%s} now", i, descMsg(&was), descMsg(&rd.Messages[i]))
		}
	}
	var meta, data []byte
	if !raft.IsEmptySnap(rd.Snapshot) {
		meta, _ = rd.Snapshot.Metadata.Marshal()
		data = rd.Snapshot.Data
	}
	if !bytes.Equal(meta, im.snapMeta) || !bytes.Equal(data, im.snapData) {
		return fmt.Sprintf("Ready.Snapshot changed after the hand-out (now index %d, term %d)", rd.Snapshot.Metadata.Index, rd.Snapshot.Metadata.Term)
	}
	return ""
}

type digest [8]byte

func (d digest) next(index, term uint64, typ pb.EntryType, data []byte) digest {
	h := sha1.New()
	h.Write(d[:])
	var b [24]byte
	binary.LittleEndian.PutUint64(b[0:], index)
	binary.LittleEndian.PutUint64(b[8:], term)
	binary.LittleEndian.PutUint64(b[16:], uint64(typ))
	h.Write(b[:])
	h.Write(data)
	var out digest
	copy(out[:], h.Sum(nil))
	return out
}

type storageImage struct {
	hs   pb.HardState
	snap pb.Snapshot
	ents []pb.Entry
}

func imageOf(st *raft.MemoryStorage) *storageImage {
	hs, _, _ := st.InitialState()
	snap, _ := st.Snapshot()
	fi, _ := st.FirstIndex()
	li, _ := st.LastIndex()
	var ents []pb.Entry
	if li >= fi {
		e, err := st.Entries(fi, li+1, ^uint64(0))
		if err != nil {
			panic(err)
		}
		ents = append(ents, e...)
	}
	return &storageImage{hs: hs, snap: snap, ents: ents}
}

func (im *storageImage) materialise() *raft.MemoryStorage {
	st := raft.NewMemoryStorage()
	if !raft.IsEmptySnap(im.snap) {
		if err := st.ApplySnapshot(im.snap); err != nil {
			panic(err)
		}
	}
	if len(im.ents) > 0 {
		if err := st.Append(append([]pb.Entry(nil), im.ents...)); err != nil {
			panic(err)
		}
	}
	st.SetHardState(im.hs)
	return st
}

func (n *live) raftConfig() *raft.Config {
	return &raft.Config{
		ID:                        n.id,
		ElectionTick:              n.cfg.ElectionTick,
		HeartbeatTick:             1,
		Storage:                   n.st,
		MaxSizePerMsg:             n.cfg.MaxSizePerMsg,
		MaxInflightMsgs:           256,
		MaxUncommittedEntriesSize: 1 << 30,
		PreVote:                   n.cfg.PreVote,
		CheckQuorum:               n.cfg.CheckQuorum,
		Logger:                    quiet,
	}
}

// bootLive creates member id of a fresh group (Bootstrap with the initial peers, like
// raft.StartNode in raftexample) or, for the joiner, an empty node (like RestartNode with
// join=true).
func bootLive(cfg *Cfg, id uint64) (*live, effects) {
	n := &live{cfg: cfg, id: id, st: raft.NewMemoryStorage(), alive: true}
	var eff effects
	func() {
		defer catch(&eff)
		rn, err := raft.NewRawNode(n.raftConfig())
		if err != nil {
			panic(err)
		}
		n.rn = rn
		if int(id) <= cfg.Members {
			peers := make([]raft.Peer, cfg.Members)
			for i := range peers {
				peers[i] = raft.Peer{ID: uint64(i + 1)}
			}
			if err := rn.Bootstrap(peers); err != nil {
				panic(err)
			}
		}
		n.pump(&eff)
	}()
	return n, eff
}

func catch(eff *effects) {
	if r := recover(); r != nil {
		eff.panicVal = fmt.Sprint(r)
		eff.panicStack = trimStack(string(debug.Stack()))
	}
}

func trimStack(s string) string {
	// keep the frames inside the raft library, drop harness frames; drop the argument lists
	// (pointer values differ from run to run, and a counterexample is only reported if five
	// re-executions produce the identical report)
	lines := strings.Split(s, "\n")
	var out []string
	for i := 0; i+1 < len(lines); i++ {
		if strings.Contains(lines[i], "etcd/raft") && !strings.HasPrefix(lines[i], "\t") {
			fn := strings.TrimSpace(lines[i])
			if j := strings.LastIndex(fn, "("); j > 0 && strings.HasSuffix(fn, ")") {
				fn = fn[:j]
			}
			out = append(out, fn, strings.TrimSpace(lines[i+1]))
		}
		if len(out) >= 16 {
			break
		}
	}
	return strings.Join(out, "\n")
}

// panicFunc returns the innermost raft-library function on a trimmed stack.
func panicFunc(stack string) string {
	for _, l := range strings.Split(stack, "\n") {
		if strings.Contains(l, "etcd/raft") && !strings.HasPrefix(l, "/") {
			if strings.Contains(l, "Panicf") || strings.HasSuffix(l, ".Panic") {
				continue
			}
			if i := strings.LastIndex(l, "/"); i >= 0 {
				l = l[i+1:]
			}
			return l
		}
	}
	return ""
}

// pump handles every pending Ready of the node: persist HardState / snapshot / entries into
// the MemoryStorage, collect outgoing messages, apply committed entries (ApplyConfChange for
// configuration entries), Advance. Same order as raftexample's serveChannels.
func (n *live) pump(eff *effects) {
	for i := 0; n.rn.HasReady(); i++ {
		if i > 64 {
			panic("raftmc: Ready loop does not terminate")
		}
		rd := n.rn.Ready()
		if n.plag {
			// slow in persisting: the whole Ready waits for persist(n); the library has been
			// told that it was handed out (Ready() = readyWithoutAccept + acceptReady, what
			// node.run does when the application takes the Ready from readyc)
			n.held, n.heldWhole, n.handed = &rd, true, imageOfReady(&rd)
			eff.heldNew = true
			return
		}
		n.persistAndSend(&rd, eff)
		if n.lag && len(rd.CommittedEntries) > 0 {
			// slow applier: everything up to here (persist, install a snapshot, send) is
			// done, the committed page and the Advance wait for apply(n) / unlag(n)
			n.held = &rd
			return
		}
		n.applyPage(&rd, eff, false)
		n.rn.Advance(rd)
	}
}

// persistAndSend is the first half of the handling of a Ready: HardState, snapshot and entries
// go to the storage, the messages are handed to the network.
func (n *live) persistAndSend(rd *raft.Ready, eff *effects) {
	if !n.durInit {
		hs, _, _ := n.st.InitialState()
		li, _ := n.st.LastIndex()
		n.durInit, n.durTerm, n.durVote, n.durLast = true, hs.Term, hs.Vote, li
	}
	if !raft.IsEmptyHardState(rd.HardState) {
		n.st.SetHardState(rd.HardState)
	}
	defer func() {
		// the application syncs a snapshot it installs (raftexample: saveSnap) and whatever comes
		// with MustSync; everything else may still sit in a write buffer when the messages leave
		if li, _ := n.st.LastIndex(); rd.MustSync {
			hs, _, _ := n.st.InitialState()
			n.durTerm, n.durVote, n.durLast = hs.Term, hs.Vote, li
		} else if !raft.IsEmptySnap(rd.Snapshot) && rd.Snapshot.Metadata.Index > n.durLast {
			n.durLast = rd.Snapshot.Metadata.Index
		}
		for _, m := range rd.Messages {
			if eff.unsynced != "" {
				break
			}
			switch {
			// (a grant for term T is covered by a durable state of term T with that vote, and by any
			// durable state of a later term: a node that comes back in term T+1 ignores term-T requests)
			case m.Type == pb.MsgVoteResp && !m.Reject && (n.durTerm < m.Term || (n.durTerm == m.Term && n.durVote != m.To)):
				eff.unsynced = fmt.Sprintf("grants its vote to %d in term %d (MsgVoteResp) while the last state written with MustSync is term %d vote %d (this Ready: MustSync=%v, HardState %+v)", m.To, m.Term, n.durTerm, n.durVote, rd.MustSync, rd.HardState)
			}
		}
	}()
	if !raft.IsEmptySnap(rd.Snapshot) {
		// Receiver side of MsgSnap: the library decided to restore, the application
		// persists the snapshot (ApplySnapshot replaces the storage's log by the
		// snapshot boundary) and loads it into its state machine; the applied index
		// follows. raftexample's publishSnapshot treats a snapshot at or below the
		// applied index as fatal, MemoryStorage refuses one at or below its own
		// snapshot: both are recorded and raised as ObsoleteSnapshotInReady, and the
		// application state is left alone (like a real application, we do not roll a
		// state machine back).
		idx := rd.Snapshot.Metadata.Index
		eff.snapIdx = idx
		err := n.st.ApplySnapshot(rd.Snapshot)
		switch {
		case err != nil || idx <= n.appliedIdx:
			eff.snapIgnored = true
			eff.snapBelow = n.appliedIdx
		default:
			eff.snapApplied = true
			n.confState = rd.Snapshot.Metadata.ConfState
			n.appliedIdx = idx
			copy(n.appDigest[:], rd.Snapshot.Data)
		}
	}
	if len(rd.Entries) > 0 {
		if err := n.st.Append(rd.Entries); err != nil {
			panic(err)
		}
	}
	for _, m := range rd.Messages {
		m = cloneMsg(m)
		enc, err := m.Marshal()
		if err != nil {
			panic(err)
		}
		eff.msgs = append(eff.msgs, outMsg{m, enc})
	}
}

// applyPage applies the committed entries of a Ready to the application state. A held page
// is applied like raftexample's entriesToApply / publishEntries do it: entries at or below the
// applied index (the application may have loaded a snapshot in the meantime) are skipped.
func (n *live) applyPage(rd *raft.Ready, eff *effects, wasHeld bool) {
	for _, e := range rd.CommittedEntries {
		if wasHeld && e.Index <= n.appliedIdx {
			continue
		}
		eff.applied = append(eff.applied, appliedEnt{e.Index, e.Term, e.Type, e.Data})
		n.appDigest = n.appDigest.next(e.Index, e.Term, e.Type, e.Data)
		switch e.Type {
		case pb.EntryConfChange:
			var cc pb.ConfChange
			if err := cc.Unmarshal(e.Data); err != nil {
				panic(err)
			}
			n.confState = *n.rn.ApplyConfChange(cc)
		case pb.EntryConfChangeV2:
			var cc pb.ConfChangeV2
			if err := cc.Unmarshal(e.Data); err != nil {
				panic(err)
			}
			n.confState = *n.rn.ApplyConfChange(cc)
		}
		n.appliedIdx = e.Index
	}
}

// releaseHeld applies the held page and advances the held Ready.
func (n *live) releaseHeld(eff *effects) {
	rd := n.held
	n.held = nil
	n.applyPage(rd, eff, true)
	eff.pages++
	n.rn.Advance(*rd)
}

// releaseWhole is persist(n): the held Ready is first compared with the copy taken at the
// hand-out (the application owns Entries, CommittedEntries, Messages and Snapshot until
// Advance), then handled exactly like pump handles a Ready - from the held value, i.e. from
// whatever its slices contain now.
func (n *live) releaseWhole(eff *effects) {
	rd, im := n.held, n.handed
	n.held, n.heldWhole, n.handed = nil, false, nil
	if eff.mutated == "" {
		eff.mutated = im.diff(rd)
	}
	n.persistAndSend(rd, eff)
	n.applyPage(rd, eff, false)
	eff.released++
	n.rn.Advance(*rd)
}

func (n *live) confChange(v uint16) pb.ConfChangeI {
	j := uint64(n.cfg.Members + 1)
	l := uint64(n.cfg.Members)
	switch v {
	case ccAddV1:
		return pb.ConfChange{Type: pb.ConfChangeAddNode, NodeID: j}
	case ccAddV1Second:
		return pb.ConfChange{Type: pb.ConfChangeAddNode, NodeID: j + 1}
	case ccRemoveV1:
		return pb.ConfChange{Type: pb.ConfChangeRemoveNode, NodeID: l}
	case ccRemoveV1Second:
		return pb.ConfChange{Type: pb.ConfChangeRemoveNode, NodeID: l - 1}
	case ccAddLearner:
		return pb.ConfChangeV2{Changes: []pb.ConfChangeSingle{{Type: pb.ConfChangeAddLearnerNode, NodeID: j}}}
	case ccJointImplicit:
		return pb.ConfChangeV2{Transition: pb.ConfChangeTransitionJointImplicit, Changes: []pb.ConfChangeSingle{
			{Type: pb.ConfChangeAddNode, NodeID: j}, {Type: pb.ConfChangeRemoveNode, NodeID: l}}}
	case ccJointExplicit:
		return pb.ConfChangeV2{Transition: pb.ConfChangeTransitionJointExplicit, Changes: []pb.ConfChangeSingle{
			{Type: pb.ConfChangeAddNode, NodeID: j}, {Type: pb.ConfChangeRemoveNode, NodeID: l}}}
	case ccLeaveJoint:
		return pb.ConfChangeV2{}
	}
	panic("bad conf change variant")
}

// batchEntries builds the entries of a multi-entry proposal: the normal entries carry
// "b<batch number>.<position>", the conf changes are marshalled exactly like ProposeConfChange
// does it (pb.MarshalConfChange).
func (n *live) batchEntries(shape uint8, cc uint16, seqno uint8) []pb.Entry {
	var ents []pb.Entry
	for pos, isConf := range bsTypes[shape] {
		if !isConf {
			ents = append(ents, pb.Entry{Type: pb.EntryNormal, Data: []byte(fmt.Sprintf("b%d.%d", seqno, pos))})
			continue
		}
		typ, data, err := pb.MarshalConfChange(n.confChange(cc))
		if err != nil {
			panic(err)
		}
		ents = append(ents, pb.Entry{Type: typ, Data: data})
	}
	return ents
}

// feed applies one input to the node: one call into the library plus the complete handling
// of the Ready structs it produces - unless the node holds a Ready (apply lag: persisted and
// sent, not applied; persist lag: nothing of it done yet): then the library is called and
// nothing else happens until apply / unlag / persist.
func (n *live) feed(in *input) (eff effects) {
	defer catch(&eff)
	switch in.k {
	case inCrash:
		// a held Ready is lost with the RawNode; what the application has applied stays
		n.rn = nil
		n.held, n.heldWhole, n.handed = nil, false, nil
		n.alive = false
		return
	case inLag:
		n.lag = true
		return
	case inPLag:
		n.plag = true
		return
	case inUnplag:
		n.plag = false
		return
	case inPersist:
		n.releaseWhole(&eff)
	case inApply:
		n.releaseHeld(&eff)
	case inUnlag:
		n.lag = false
		if n.held != nil {
			n.releaseHeld(&eff)
		}
	case inRestart:
		n.restart()
	case inCompact:
		// The application (leader or follower alike) snapshots its state machine at its
		// applied index and discards the log up to there, as raftexample's
		// maybeTriggerSnapshot does (with snapshotCatchUpEntriesN = 0: the harshest choice,
		// a follower that is one entry behind already needs a MsgSnap). The RawNode is not
		// told; it finds out through its Storage (FirstIndex / ErrCompacted).
		if _, err := n.st.CreateSnapshot(n.appliedIdx, &n.confState, append([]byte(nil), n.appDigest[:]...)); err != nil {
			panic(err)
		}
		if err := n.st.Compact(n.appliedIdx); err != nil {
			panic(err)
		}
	case inStep:
		n.rn.Step(cloneMsg(in.msg))
	case inCampaign:
		n.rn.Campaign()
	case inTick:
		n.rn.Tick()
	case inPropose:
		n.rn.Propose(in.data)
	case inProposeConf:
		n.rn.ProposeConfChange(n.confChange(in.cc))
	case inBatch:
		// what raft.Node.Step / Propose do with a proposal, but with several entries in the one
		// MsgProp; a follower forwards the message to its leader, a node without a leader drops it
		n.rn.Step(pb.Message{Type: pb.MsgProp, From: n.id, Entries: n.batchEntries(in.shape, in.cc, in.seqno)})
	case inTransfer:
		n.rn.TransferLeader(in.to)
	case inExpire:
		for i := 0; i < n.cfg.ElectionTick; i++ {
			pinElectionTimeout(n.rn)
			n.rn.Tick()
		}
	}
	if n.rn != nil {
		if n.cfg.CheckQuorum || n.cfg.PreVote {
			pinElectionTimeout(n.rn)
		}
		if n.held == nil {
			n.pump(&eff)
		}
	}
	return
}

func (n *live) restart() {
	snap, _ := n.st.Snapshot()
	n.confState = snap.Metadata.ConfState
	n.appliedIdx = snap.Metadata.Index
	// the state machine is rebuilt from the snapshot; the entries above it are re-applied
	// from the first Ready
	n.appDigest = digest{}
	copy(n.appDigest[:], snap.Data)
	rn, err := raft.NewRawNode(n.raftConfig())
	if err != nil {
		panic(err)
	}
	n.rn = rn
	n.alive = true
}

func cloneMsg(m pb.Message) pb.Message {
	if len(m.Entries) > 0 {
		m.Entries = append([]pb.Entry(nil), m.Entries...)
	}
	return m
}

// ---------------------------------------------------------------------------- frozen view

type hist [16]byte

// node is the immutable observation of a member after some input history: everything the
// invariants and the state key need, read from the RawNode and its storage right after the
// input was handled. Cluster states are made of these; the mutable objects live in sim.
type node struct {
	cfg    *Cfg
	id     uint64
	h      hist
	parent *node         // history (nil at boot and after a crash, where img takes over)
	inp    input         // the input that led from parent to this node
	img    *storageImage // set on a crashed node: the persisted state a restart starts from
	eff    *effects      // effects of `in`

	alive      bool
	confState  pb.ConfState
	appliedIdx uint64
	appDigest  digest // application state (see live.appDigest)

	hs       pb.HardState // persisted
	log      []pb.Entry   // persisted entries (first..last)
	firstIdx uint64       // first index of the storage's log (snapIdx+1 in this harness)
	snapIdx  uint64
	snapTrm  uint64
	snapConf pb.ConfState
	snapData []byte
	status   raft.Status
	votes    []voteRec
	elapsed  int
	// pendingConf is raft.pendingConfIndex, the leader's bookkeeping behind "only one conf change
	// may be pending (in the log, but not yet applied) at a time": a conf change is accepted only
	// if applied >= pendingConfIndex. In the library as it is, the value is a function of the
	// leader's log and term (max of the last index at its election and the index of the last conf
	// change it accepted or auto-proposed), so that writing it into the state key splits no
	// state; a library in which that bookkeeping is off must not have such a state merged with
	// the one a correct history leads to.
	pendingConf uint64
	kb          []byte // canonical serialisation of this node (part of the state key)

	// apply lag
	lag         bool   // the application applies asynchronously (survives a crash)
	held        bool   // a Ready is held: persisted and sent, neither applied nor advanced
	heldLo      uint64 // index range of the held page of committed entries
	heldHi      uint64
	heldSum     digest // hash over the held page (index, term, type, data of every entry)
	heldEntIdx  uint64 // last of the held Ready's Entries (what Advance will mark stable)
	heldEntTrm  uint64
	heldSnapIdx uint64 // index of the held Ready's snapshot (apply lag: already installed; persist lag: not yet), 0 if none
	in          inside // held only: what the RawNode has not handed out yet

	// persist lag: the mode (survives a crash) and, if the held Ready is held as a whole
	// (nothing persisted, sent or applied), the rest of it: HardState, entries (range and hash
	// over their CURRENT content - it is what persist(n) will write), snapshot term, messages
	plag        bool
	heldWhole   bool
	heldHS      pb.HardState
	heldEntLo   uint64 // first of the held Ready's Entries (0: none)
	heldEntN    int
	heldEntSum  digest
	heldSnapTrm uint64
	heldMsgN    int
	heldMsgSum  digest
}

type voteRec struct {
	id uint64
	v  bool
}

func freeze(n *live, parent *node, in *input, eff *effects, h hist) *node {
	f := &node{cfg: n.cfg, id: n.id, h: h, parent: parent, eff: eff, alive: n.alive, confState: n.confState, appliedIdx: n.appliedIdx, appDigest: n.appDigest, lag: n.lag, plag: n.plag}
	if in != nil {
		f.inp = *in
	}
	if rd := n.held; rd != nil && n.rn != nil {
		f.held = true
		if ce := rd.CommittedEntries; len(ce) > 0 {
			f.heldLo, f.heldHi = ce[0].Index, ce[len(ce)-1].Index
			for i := range ce {
				f.heldSum = f.heldSum.next(ce[i].Index, ce[i].Term, ce[i].Type, ce[i].Data)
			}
		}
		if k := len(rd.Entries); k > 0 {
			f.heldEntIdx, f.heldEntTrm = rd.Entries[k-1].Index, rd.Entries[k-1].Term
		}
		f.heldSnapIdx = rd.Snapshot.Metadata.Index
		if n.heldWhole {
			f.heldWhole = true
			f.heldHS = rd.HardState
			f.heldSnapTrm = rd.Snapshot.Metadata.Term
			f.heldEntN = len(rd.Entries)
			for i := range rd.Entries {
				e := &rd.Entries[i]
				if i == 0 {
					f.heldEntLo = e.Index
				}
				f.heldEntSum = f.heldEntSum.next(e.Index, e.Term, e.Type, e.Data)
			}
			f.heldMsgN = len(rd.Messages)
			for i := range rd.Messages {
				enc, err := rd.Messages[i].Marshal()
				if err != nil {
					enc = []byte(err.Error())
				}
				f.heldMsgSum = f.heldMsgSum.next(uint64(i), 0, 0, enc)
			}
		}
		if eff.panicVal == "" {
			f.in = peekInside(n.rn)
		}
	}
	hs, _, _ := n.st.InitialState()
	f.hs = hs
	snap, _ := n.st.Snapshot()
	f.snapIdx, f.snapTrm, f.snapConf, f.snapData = snap.Metadata.Index, snap.Metadata.Term, snap.Metadata.ConfState, snap.Data
	fi, _ := n.st.FirstIndex()
	f.firstIdx = fi
	li, _ := n.st.LastIndex()
	if li >= fi {
		if e, err := n.st.Entries(fi, li+1, ^uint64(0)); err == nil {
			f.log = append([]pb.Entry(nil), e...)
		}
	}
	if n.rn != nil && eff.panicVal == "" {
		func() {
			defer func() { recover() }()
			f.status = n.rn.Status()
			pk := peek(n.rn)
			f.votes = pk.votes
			f.elapsed = pk.electionElapsed
			f.pendingConf = pk.pendingConf
		}()
	}
	if in != nil && in.k == inCrash {
		f.img = imageOf(n.st)
		f.parent = nil
	}
	k := &kbuf{b: make([]byte, 0, 256)}
	f.writeKey(k, n.cfg.CheckQuorum || n.cfg.PreVote)
	f.kb = k.b
	return f
}

func (n *node) lastIndex() uint64 {
	if len(n.log) > 0 {
		return n.log[len(n.log)-1].Index
	}
	return n.snapIdx
}

// termAt returns the term of index i if the node's persisted log (or its snapshot boundary)
// knows it.
func (n *node) termAt(i uint64) (uint64, bool) {
	if i == n.snapIdx && i != 0 {
		return n.snapTrm, true
	}
	if len(n.log) == 0 || i < n.log[0].Index || i > n.log[len(n.log)-1].Index {
		return 0, false
	}
	return n.log[i-n.log[0].Index].Term, true
}

func (n *node) entryAt(i uint64) (*pb.Entry, bool) {
	if len(n.log) == 0 || i < n.log[0].Index || i > n.log[len(n.log)-1].Index {
		return nil, false
	}
	return &n.log[i-n.log[0].Index], true
}

func (n *node) isLeader() bool { return n.alive && n.status.RaftState == raft.StateLeader }

// The three functions below read the log as the RawNode sees it: the persisted entries
// overlaid by the part it has not handed out yet. They differ from lastIndex / termAt /
// entryAt only while the node holds a Ready.
func (n *node) memLastIndex() uint64 {
	if k := len(n.in.ents); k > 0 {
		return n.in.ents[k-1].Index
	}
	if n.in.snapIdx > 0 {
		return n.in.snapIdx
	}
	return n.lastIndex()
}

func (n *node) memEntryAt(i uint64) (*pb.Entry, bool) {
	if n.held && (len(n.in.ents) > 0 || n.in.snapIdx > 0) && i >= n.in.offset {
		if j := i - n.in.offset; j < uint64(len(n.in.ents)) {
			return &n.in.ents[j], true
		}
		return nil, false
	}
	if n.in.snapIdx > 0 && i <= n.in.snapIdx {
		return nil, false
	}
	return n.entryAt(i)
}

func (n *node) memTermAt(i uint64) (uint64, bool) {
	if n.in.snapIdx > 0 && i == n.in.snapIdx {
		return n.in.snapTrm, true
	}
	if e, ok := n.memEntryAt(i); ok {
		return e.Term, true
	}
	if n.in.snapIdx > 0 && i < n.in.snapIdx {
		return 0, false
	}
	return n.termAt(i)
}

// backlogConf returns the size of the apply backlog (committed - applied, as the library
// sees it) and the number of configuration changes in it.
func (n *node) backlogConf() (backlog, confs int) {
	if !n.alive || n.status.Commit <= n.status.Applied {
		return 0, 0
	}
	for i := n.status.Applied + 1; i <= n.status.Commit; i++ {
		if e, ok := n.memEntryAt(i); ok && e.Type != pb.EntryNormal {
			confs++
		}
	}
	return int(n.status.Commit - n.status.Applied), confs
}

// ---------------------------------------------------------------------------- sim

// sim owns the real objects. exec(f, in) returns the observation of node f after one more
// input. The computation is a deterministic function of (input history, input), so its
// result is memoised per history; on a miss the input is fed to a RawNode that is in exactly
// that history state: either one kept from the previous step of the same history, or a fresh
// one rebuilt by re-running the history (from boot, or from the storage image of its last
// crash). With memoisation off (straight-line replay) every input goes to the one RawNode of
// that member.
type sim struct {
	useMemo bool
	memo    map[hist]*node
	lives   map[hist]*live

	Execs     int // inputs fed to a RawNode for a new (history, input) pair
	Hits      int // transitions answered from the memo
	Thaws     int // RawNodes rebuilt from their history
	ThawFeeds int // inputs re-fed during rebuilds
}

func newSim(useMemo bool) *sim {
	return &sim{useMemo: useMemo, memo: map[hist]*node{}, lives: map[hist]*live{}}
}

const memoCap = 60000
const liveCap = 3000

func nextHist(h hist, in *input) hist {
	d := sha1.New()
	d.Write(h[:])
	d.Write([]byte{byte(in.k)})
	switch in.k {
	case inStep:
		d.Write(in.enc)
	case inPropose:
		d.Write(in.data)
	case inProposeConf:
		d.Write([]byte{byte(in.cc)})
	case inBatch:
		d.Write([]byte{in.shape, byte(in.cc), in.seqno})
	case inTransfer:
		d.Write([]byte{byte(in.to)})
	}
	var out hist
	copy(out[:], d.Sum(nil))
	return out
}

func rootHist(cfg *Cfg, id uint64) hist {
	s := sha1.Sum([]byte(fmt.Sprintf("boot|%v|%v|%d|%d|%d|%v|%d|%d", cfg.PreVote, cfg.CheckQuorum, cfg.ElectionTick, cfg.MaxSizePerMsg, cfg.Members, cfg.Joiner, cfg.joiners(), id)))
	var out hist
	copy(out[:], s[:])
	return out
}

func (s *sim) root(cfg *Cfg, id uint64) *node {
	h := rootHist(cfg, id)
	if s.useMemo {
		if f, ok := s.memo[h]; ok {
			return f
		}
	}
	n, eff := bootLive(cfg, id)
	f := freeze(n, nil, nil, &eff, h)
	s.keep(h, n, f)
	return f
}

func (s *sim) keep(h hist, n *live, f *node) {
	if len(s.lives) >= liveCap {
		s.lives = map[hist]*live{}
	}
	s.lives[h] = n
	if s.useMemo {
		if len(s.memo) >= memoCap {
			s.memo = map[hist]*node{}
		}
		s.memo[h] = f
	}
}

func (s *sim) exec(f *node, in *input) *node {
	h := nextHist(f.h, in)
	if s.useMemo {
		if g, ok := s.memo[h]; ok {
			s.Hits++
			return g
		}
	}
	n, ok := s.lives[f.h]
	if ok {
		delete(s.lives, f.h)
	} else {
		n = s.thaw(f)
	}
	s.Execs++
	eff := n.feed(in)
	g := freeze(n, f, in, &eff, h)
	s.keep(h, n, g)
	return g
}

// thaw builds fresh objects in the state described by f by re-running f's input history.
func (s *sim) thaw(f *node) *live {
	s.Thaws++
	var ins []*input
	g := f
	for g.parent != nil {
		ins = append(ins, &g.inp)
		g = g.parent
	}
	var n *live
	if g.img != nil {
		n = &live{cfg: g.cfg, id: g.id, st: g.img.materialise(), alive: false, confState: g.confState, appliedIdx: g.appliedIdx, appDigest: g.appDigest, lag: g.lag, plag: g.plag}
	} else {
		n, _ = bootLive(g.cfg, g.id)
	}
	for i := len(ins) - 1; i >= 0; i-- {
		n.feed(ins[i])
		s.ThawFeeds++
	}
	return n
}

// ---------------------------------------------------------------------------- cluster

type pmsg struct {
	seq uint16
	m   pb.Message
	enc []byte
}

type ledgerEnt struct {
	set   bool
	cterm uint64 // term of the node on which the commitment was first observed
	term  uint64
	typ   pb.EntryType
	data  []byte
}

// Coverage flags of a transition.
const (
	fTwoLeaders             uint64 = 1 << iota // >= 2 live leaders (necessarily in different terms)
	fTruncation                                // a persisted entry was replaced / the log got shorter
	fCommitOlderTerm                           // commit index moved over an entry of an earlier term than the node's
	fSnapSent                                  // MsgSnap emitted
	fSnapApplied                               // snapshot restored by a follower
	fConfApplied                               // configuration entry applied (beyond bootstrap)
	fJoint                                     // some node is in a joint configuration
	fLeaderStepDown                            // a leader left leadership in this event
	fStaleTermMsg                              // delivered message carried a term below the receiver's
	fRestartWithLog                            // restart of a node holding entries beyond bootstrap
	fLeaderElected                             // a node became leader
	fCommitAdvanced                            // ledger grew
	fLearner                                   // some node tracks a learner
	fVoteRejected                              // a vote / pre-vote rejection was emitted
	fPreVote                                   // MsgPreVote emitted
	fCheckQuorumDown                           // leader stepped down on a tick (CheckQuorum)
	fTransfer                                  // MsgTimeoutNow emitted
	fCompact                                   // compact(n) executed (snapshot taken at applied, log discarded up to it)
	fCompactFollower                           // ... on a node that is not the leader
	fCompacted                                 // state property: some node's storage starts at a snapshot (index > 0)
	fSnapDelivered                             // MsgSnap stepped by a live receiver
	fSnapStale                                 // ... whose index is at or below the receiver's commit index
	fSnapBehindCompact                         // ... and below the receiver's own snapshot index, at a term the receiver accepts
	fRestartCompacted                          // restart from a storage that starts at a snapshot
	fReleased                                  // a delayed message was released back into the pool
	fWhileHeld                                 // the event acted on a node that held a Ready (library called, no Ready cycle)
	fCampaignBacklog                           // campaign on a node whose apply backlog contains committed conf changes
	fCampaignRefused                           // ... and the library refused to start the election
	fPageApplied                               // a held page of committed entries was applied (apply / unlag)
	fCrashHeld                                 // crash of a node that held a Ready
	fSnapWhileHeld                             // MsgSnap stepped by a node that held a Ready (the held page may end up below the snapshot)
	fReadyHeldWhole                            // persist lag: a Ready was handed out and is held as a whole (nothing persisted, sent, applied)
	fWhileHeldWhole                            // persist lag: the event called the library on a node holding such a Ready
	fTruncHeldWhole                            // persist lag: a MsgApp stepped by such a node replaced or cut unstable entries (conflict with a later-term leader)
	fTruncMidHeldWhole                         // ... and the first replaced index lies strictly inside the unstable entries (truncateAndAppend's third case)
	fTruncInReady                              // ... and inside the index range of the held Ready's Entries (the slots the application is about to persist)
	fPersistRelease                            // persist lag: a held Ready was released (persist(n))
	fCrashHeldWhole                            // persist lag: crash of a node holding an unpersisted Ready (lost entirely)
	fSnapHeldWhole                             // persist lag: the Ready that is now held carries a snapshot (MsgSnap accepted, nothing installed yet)
	fBatchStepped                              // a leader stepped a MsgProp with several entries (its own or one forwarded by a follower) and appended them
	fBatchForwarded                            // a non-leader stepped a multi-entry MsgProp and forwarded it to its leader
	fBatchDropped                              // a multi-entry MsgProp was dropped (no leader known, leader not a member, transfer in progress)
	fConfAccepted                              // a leader appended a proposed conf change as a conf-change entry
	fConfDowngraded                            // a leader turned a proposed conf change into an empty normal entry (refused: one is pending / joint rules)
	fConfRefusedBatchWindow                    // ... while the pending conf change sits right behind an already applied normal entry of its own batch
	fTwoConfUnapplied                          // state property: some leader's log holds >= 2 conf changes above its applied index (all but the first inherited from earlier terms)
	fFlags                  = iota
)

var flagNames = [...]string{"two_live_leaders_in_different_terms", "conflict_truncations", "commits_of_earlier_term_entries", "snapshots_sent", "snapshots_applied",
	"conf_changes_applied", "joint_configurations", "leader_step_downs", "stale_term_deliveries", "restarts_with_log", "leaders_elected", "commit_advances", "learner_configurations",
	"vote_rejections", "pre_votes", "check_quorum_step_downs", "timeout_now_sent",
	"compactions", "compactions_on_non_leaders", "some_storage_compacted", "msgsnap_deliveries", "stale_msgsnap_deliveries_index_at_or_below_receiver_commit",
	"stale_msgsnap_handled_after_receiver_compacted_beyond_it", "restarts_from_compacted_storage", "delayed_messages_released",
	"inputs_to_a_node_holding_a_ready", "campaigns_with_committed_conf_changes_unapplied", "campaigns_refused_because_of_unapplied_conf_changes",
	"held_pages_applied", "crashes_while_a_ready_was_held", "msgsnap_stepped_by_a_node_holding_a_ready",
	"readys_held_before_persisting", "inputs_stepped_while_an_unpersisted_ready_was_held", "msgapps_that_truncated_unstable_entries_while_an_unpersisted_ready_was_held",
	"msgapps_that_truncated_in_the_middle_of_the_unstable_entries_while_an_unpersisted_ready_was_held",
	"msgapps_that_truncated_inside_the_entries_of_the_held_unpersisted_ready",
	"unpersisted_readys_released", "crashes_while_an_unpersisted_ready_was_held", "readys_with_a_snapshot_held_before_persisting",
	"batch_proposals_appended_by_a_leader", "batch_proposals_forwarded_by_a_follower", "batch_proposals_dropped",
	"proposals_in_which_the_leader_accepted_a_conf_change", "proposals_in_which_the_leader_turned_a_conf_change_into_an_empty_normal_entry",
	"conf_changes_refused_while_the_pending_one_sits_behind_an_applied_normal_entry_of_its_own_batch",
	"leader_with_two_or_more_conf_changes_above_its_applied_index"}

// compile-time check: one name per flag
var _ = [1]struct{}{}[len(flagNames)-fFlags]

type violation struct {
	Kind   string
	Detail string
	Func   string
}

// cluster is one global state. It is never modified after construction: step returns a new
// value that shares the untouched nodes.
type cluster struct {
	sim  *sim
	cfg  *Cfg
	bud  *Budget
	fifo bool // pool order is part of the state (Box B)

	nodes   []*node
	pool    []pmsg
	held    []pmsg // delayed messages: out of the pool until released (see evDelay)
	nextSeq uint16
	used    used
	iso     uint8 // node cut off from the others (0: none): its traffic is lost on delivery

	leaderOf []uint64    // by term; 0 = none seen
	ledger   []ledgerEnt // by index
	ownHist  bool        // leaderOf / ledger are private copies (copy on write)

	viol  []violation // raised by the transition that produced this state
	flags uint64

	nodesArr [6]*node
}

// maxBacklog is the largest apply backlog (committed - applied) of any live node.
func (c *cluster) maxBacklog() int {
	m := 0
	for _, n := range c.nodes {
		if n.alive && n.status.Commit > n.status.Applied {
			if b := int(n.status.Commit - n.status.Applied); b > m {
				m = b
			}
		}
	}
	return m
}

func newCluster(s *sim, cfg *Cfg, bud *Budget, fifo bool) *cluster {
	c := &cluster{sim: s, cfg: cfg, bud: bud, fifo: fifo}
	total := cfg.Members + cfg.joiners()
	for id := 1; id <= total; id++ {
		n := s.root(cfg, uint64(id))
		c.nodes = append(c.nodes, n)
		c.absorb(n, nil, Event{K: evRestart, N: uint8(id)})
	}
	c.flags = 0
	return c
}

func (c *cluster) node(id uint64) *node {
	if id == 0 || int(id) > len(c.nodes) {
		return nil
	}
	return c.nodes[id-1]
}

func (c *cluster) findMsg(seq uint16) int {
	for i := range c.pool {
		if c.pool[i].seq == seq {
			return i
		}
	}
	return -1
}

func (c *cluster) findHeld(seq uint16) int {
	for i := range c.held {
		if c.held[i].seq == seq {
			return i
		}
	}
	return -1
}

func (c *cluster) clone() *cluster {
	d := &cluster{sim: c.sim, cfg: c.cfg, bud: c.bud, fifo: c.fifo, nextSeq: c.nextSeq, used: c.used, iso: c.iso}
	if len(c.nodes) <= len(d.nodesArr) {
		d.nodes = d.nodesArr[:len(c.nodes)]
		copy(d.nodes, c.nodes)
	} else {
		d.nodes = append([]*node(nil), c.nodes...)
	}
	d.pool = append(make([]pmsg, 0, len(c.pool)+4), c.pool...)
	if len(c.held) > 0 {
		d.held = append(make([]pmsg, 0, len(c.held)+1), c.held...)
	}
	d.leaderOf, d.ledger = c.leaderOf, c.ledger // shared until written
	return d
}

// histW makes the history variables private before the first write.
func (c *cluster) histW() {
	if !c.ownHist {
		c.leaderOf = append(make([]uint64, 0, len(c.leaderOf)+1), c.leaderOf...)
		c.ledger = append(make([]ledgerEnt, 0, len(c.ledger)+2), c.ledger...)
		c.ownHist = true
	}
}

// step returns the successor of c under event e, or nil if e is not enabled in c.
func (c *cluster) step(e Event) *cluster {
	switch e.K {
	case evDrop:
		i := c.findMsg(e.A)
		if i < 0 || int(c.used.Drops) >= c.bud.Drops {
			return nil
		}
		d := c.clone()
		d.pool = append(d.pool[:i], d.pool[i+1:]...)
		d.used.Drops++
		return d
	case evDup:
		i := c.findMsg(e.A)
		if i < 0 || int(c.used.Dups) >= c.bud.Dups {
			return nil
		}
		d := c.clone()
		p := d.pool[i]
		p.seq = d.nextSeq
		d.nextSeq++
		d.pool = append(d.pool, p)
		d.used.Dups++
		return d
	case evDelay:
		i := c.findMsg(e.A)
		if i < 0 || int(c.used.Delays) >= c.bud.Delays {
			return nil
		}
		d := c.clone()
		d.held = append(d.held, d.pool[i])
		d.pool = append(d.pool[:i], d.pool[i+1:]...)
		d.used.Delays++
		return d
	case evDupDelay:
		i := c.findMsg(e.A)
		if i < 0 || int(c.used.Delays) >= c.bud.Delays || int(c.used.Dups) >= c.bud.Dups {
			return nil
		}
		d := c.clone()
		p := d.pool[i]
		p.seq = d.nextSeq
		d.nextSeq++
		d.held = append(d.held, p)
		d.used.Delays++
		d.used.Dups++
		return d
	case evRelease:
		i := c.findHeld(e.A)
		if i < 0 {
			return nil
		}
		d := c.clone()
		d.pool = append(d.pool, d.held[i])
		d.held = append(d.held[:i], d.held[i+1:]...)
		d.flags |= fReleased
		return d
	case evDeliver:
		i := c.findMsg(e.A)
		if i < 0 {
			return nil
		}
		d := c.clone()
		p := d.pool[i]
		d.pool = append(d.pool[:i], d.pool[i+1:]...)
		n := d.node(p.m.To)
		if n == nil || !n.alive {
			return d // addressed to a node that is down: lost
		}
		if c.iso != 0 && (p.m.To == uint64(c.iso) || p.m.From == uint64(c.iso)) {
			return d // crosses the partition: lost
		}
		if p.m.Term != 0 && p.m.Term < n.status.Term {
			d.flags |= fStaleTermMsg
		}
		if p.m.Type == pb.MsgSnap {
			d.flags |= fSnapDelivered
			if si := p.m.Snapshot.Metadata.Index; si <= n.status.Commit {
				d.flags |= fSnapStale
				if si < n.snapIdx && p.m.Term >= n.status.Term {
					d.flags |= fSnapBehindCompact
				}
			}
		}
		if n.held && !n.heldWhole {
			d.flags |= fWhileHeld
			if p.m.Type == pb.MsgSnap {
				d.flags |= fSnapWhileHeld
			}
		}
		if n.heldWhole {
			d.flags |= fWhileHeldWhole
		}
		g := c.sim.exec(n, &input{k: inStep, msg: p.m, enc: p.enc})
		d.nodes[n.id-1] = g
		if n.heldWhole && g.heldWhole && p.m.Type == pb.MsgApp {
			d.flags |= unstableTruncated(n, g)
		}
		if p.m.Type == pb.MsgProp {
			d.flags |= proposalOutcome(n, g, p.m.Entries)
		}
		d.absorb(g, n, e)
		return d
	}
	if e.K == evIsolate {
		if e.N == c.iso || int(e.N) > len(c.nodes) {
			return nil
		}
		d := c.clone()
		d.iso = e.N
		return d
	}
	n := c.node(uint64(e.N))
	if n == nil {
		return nil
	}
	u := c.used
	var in input
	var fl uint64
	switch e.K {
	case evCampaign:
		if !n.alive || n.isLeader() || n.status.Term >= c.bud.MaxTerm {
			return nil
		}
		if _, confs := n.backlogConf(); confs > 0 {
			fl |= fCampaignBacklog
		}
		in = input{k: inCampaign}
	case evHeartbeat:
		if !n.isLeader() || int(u.Heartbeats) >= c.bud.Heartbeats {
			return nil
		}
		u.Heartbeats++
		in = input{k: inTick}
	case evPropose:
		if !n.alive || int(u.Proposals) >= c.bud.Proposals {
			return nil
		}
		u.Proposals++
		in = input{k: inPropose, data: []byte(fmt.Sprintf("p%d", u.Proposals))}
		if c.cfg.Unequal && u.Proposals%2 == 0 {
			in.data = append(in.data, bytes.Repeat([]byte{'x'}, 64)...)
		}
	case evCrash:
		if !n.alive || int(u.Crashes) >= c.bud.Crashes {
			return nil
		}
		u.Crashes++
		if n.held && !n.heldWhole {
			fl |= fCrashHeld
		}
		if n.heldWhole {
			fl |= fCrashHeldWhole
		}
		in = input{k: inCrash}
	case evRestart:
		if n.alive {
			return nil
		}
		if len(n.log) > 0 && n.log[len(n.log)-1].Index > uint64(c.cfg.Members) {
			fl |= fRestartWithLog
		}
		if n.snapIdx > 0 {
			fl |= fRestartCompacted
		}
		in = input{k: inRestart}
	case evCompact:
		if !n.alive || int(u.Compacts) >= c.bud.Compacts || n.appliedIdx <= n.snapIdx || n.appliedIdx > n.lastIndex() {
			return nil
		}
		u.Compacts++
		fl |= fCompact
		if !n.isLeader() {
			fl |= fCompactFollower
		}
		in = input{k: inCompact}
	case evConf:
		if !n.isLeader() || int(u.ConfChanges) >= c.bud.ConfChanges || e.A >= ccVariants || c.cfg.joiners() < ccNeedsJoiners(e.A) {
			return nil
		}
		joint := len(n.status.Config.Voters[1]) > 0
		if (e.A == ccLeaveJoint) != joint {
			return nil
		}
		u.ConfChanges++
		in = input{k: inProposeConf, cc: e.A}
	case evBatch:
		shape, v := e.A>>8, e.A&0xff
		if !n.alive || int(u.Batches) >= c.bud.Batches || shape >= bsShapes || v >= ccVariants {
			return nil
		}
		if bsHasConf(shape) && c.cfg.joiners() < ccNeedsJoiners(v) {
			return nil
		}
		if !bsHasConf(shape) && v != 0 {
			return nil
		}
		u.Batches++
		in = input{k: inBatch, shape: uint8(shape), cc: v, seqno: u.Batches}
	case evTransfer:
		if !n.isLeader() || int(u.Transfers) >= c.bud.Transfers || uint64(e.A) == n.id || c.node(uint64(e.A)) == nil {
			return nil
		}
		if _, ok := n.status.Progress[uint64(e.A)]; !ok {
			return nil
		}
		u.Transfers++
		in = input{k: inTransfer, to: uint64(e.A)}
	case evExpire:
		if !c.cfg.CheckQuorum || !n.alive || n.isLeader() || int(u.Expires) >= c.bud.Expires || n.elapsed >= c.cfg.ElectionTick {
			return nil
		}
		u.Expires++
		in = input{k: inExpire}
	case evLag:
		if !n.alive || n.lag || n.plag || int(u.Lags) >= c.bud.Lags {
			return nil
		}
		u.Lags++
		in = input{k: inLag}
	case evApply:
		if !n.alive || !n.held || n.heldWhole || int(u.Applies) >= c.bud.Applies {
			return nil
		}
		u.Applies++
		in = input{k: inApply}
	case evUnlag:
		if !n.alive || !n.lag {
			return nil
		}
		in = input{k: inUnlag}
	case evPLag:
		// the two lag flavours exclude each other on a node
		if !n.alive || n.plag || n.lag || int(u.Plags) >= c.bud.Plags {
			return nil
		}
		u.Plags++
		in = input{k: inPLag}
	case evPersist:
		if !n.alive || !n.heldWhole || int(u.Persists) >= c.bud.Persists {
			return nil
		}
		u.Persists++
		in = input{k: inPersist}
	case evUnplag:
		if !n.alive || !n.plag || n.held {
			return nil
		}
		in = input{k: inUnplag}
	default:
		return nil
	}
	if n.held && !n.heldWhole && e.K != evApply && e.K != evUnlag && e.K != evCrash {
		fl |= fWhileHeld
	}
	if n.heldWhole && e.K != evPersist && e.K != evCrash {
		fl |= fWhileHeldWhole
	}
	d := c.clone()
	d.used = u
	d.flags = fl
	g := c.sim.exec(n, &in)
	d.nodes[n.id-1] = g
	if fl&fCampaignBacklog != 0 && g.alive && g.status.Term == n.status.Term && g.status.RaftState == n.status.RaftState {
		d.flags |= fCampaignRefused
	}
	switch e.K {
	case evConf:
		d.flags |= proposalOutcome(n, g, []pb.Entry{{Type: ccEntryType(in.cc)}})
	case evBatch:
		ents := make([]pb.Entry, len(bsTypes[in.shape]))
		for i, isConf := range bsTypes[in.shape] {
			if isConf {
				ents[i].Type = ccEntryType(in.cc)
			}
		}
		d.flags |= proposalOutcome(n, g, ents)
	}
	d.absorb(g, n, e)
	return d
}

// proposalOutcome classifies what a node did with a proposal (a MsgProp it stepped, local or
// delivered): coverage flags only. A leader appends the entries behind its last index, having
// turned every conf change it refuses into an empty normal entry; a follower forwards the
// message to its leader; anybody else drops it. Only the entry types of `ents` are read.
func proposalOutcome(before, after *node, ents []pb.Entry) uint64 {
	var fl uint64
	multi := len(ents) > 1
	if !after.alive || after.eff == nil || after.eff.panicVal != "" {
		return 0
	}
	if !before.isLeader() {
		if multi {
			fwd := false
			for i := range after.eff.msgs {
				if m := &after.eff.msgs[i].m; m.Type == pb.MsgProp && len(m.Entries) == len(ents) {
					fwd = true
				}
			}
			if !fwd && after.held {
				// the forwarded message waits inside the library with everything else
				fwd = len(after.in.msgs) > len(before.in.msgs)
			}
			if fwd {
				fl |= fBatchForwarded
			} else {
				fl |= fBatchDropped
			}
		}
		return fl
	}
	base := before.memLastIndex()
	if after.memLastIndex() < base+uint64(len(ents)) {
		if multi {
			fl |= fBatchDropped
		}
		return fl
	}
	if multi {
		fl |= fBatchStepped
	}
	for i := range ents {
		if ents[i].Type == pb.EntryNormal {
			continue
		}
		got, ok := after.memEntryAt(base + 1 + uint64(i))
		switch {
		case !ok:
		case got.Type == ents[i].Type:
			fl |= fConfAccepted
		case got.Type == pb.EntryNormal && len(got.Data) == 0:
			fl |= fConfDowngraded
			// the window of interest: the conf change that is still pending came in one MsgProp
			// with a normal entry in front of it, and that normal entry is applied already
			for j := before.status.Applied + 1; j <= base; j++ {
				pe, ok := before.memEntryAt(j)
				if !ok || pe.Type == pb.EntryNormal {
					continue
				}
				if prev, ok := before.memEntryAt(j - 1); ok && j-1 <= before.status.Applied && prev.Term == pe.Term && bytes.HasPrefix(prev.Data, []byte("b")) {
					fl |= fConfRefusedBatchWindow
				}
				break
			}
		}
	}
	return fl
}

// ccEntryType is the entry type a conf-change variant is proposed as.
func ccEntryType(v uint16) pb.EntryType {
	switch v {
	case ccAddLearner, ccJointImplicit, ccJointExplicit, ccLeaveJoint:
		return pb.EntryConfChangeV2
	}
	return pb.EntryConfChange
}

var zeroNode = &node{}

// unstableTruncated compares the unstable entries of a node that holds an unpersisted Ready
// before and after it stepped a MsgApp: coverage flags for a conflict truncation (an index that
// was there is gone or has another term), for one that starts strictly inside the unstable
// entries, and for one that starts inside the index range of the held Ready's Entries.
func unstableTruncated(before, after *node) uint64 {
	for i := range before.in.ents {
		be := &before.in.ents[i]
		if ae, ok := after.memEntryAt(be.Index); ok && ae.Term == be.Term {
			continue
		}
		fl := fTruncHeldWhole
		if be.Index > before.in.offset {
			fl |= fTruncMidHeldWhole
		}
		if before.heldEntN > 0 && be.Index > before.heldEntLo && be.Index < before.heldEntLo+uint64(before.heldEntN) {
			fl |= fTruncInReady
		}
		return fl
	}
	return 0
}

// absorb moves the effects of the input that produced n into the cluster (pool, history
// variables) and checks every invariant that the event could have affected.
func (c *cluster) absorb(n, before *node, e Event) {
	eff := n.eff
	if before == nil {
		before = zeroNode
	}
	if eff.panicVal != "" {
		// A panic anywhere inside Step / Ready / Advance / Campaign / ... is caught in
		// live.feed and is a violation of its own. What the node had already written to its
		// storage before panicking is still there and is checked too, so that the report
		// shows e.g. the regressed HardState next to the panic it led to.
		c.viol = append(c.viol, violation{Kind: "Panic", Func: panicFunc(eff.panicStack),
			Detail: fmt.Sprintf("node %d: the library panicked handling %s: %s\n%s", n.id, evNames[e.K], eff.panicVal, eff.panicStack)})
		c.checkPersisted(n, before, eff, e)
		return
	}
	for i := range eff.msgs {
		m := &eff.msgs[i]
		if m.m.To == n.id || m.m.To == 0 {
			c.viol = append(c.viol, violation{Kind: "SelfAddressedMessage", Detail: fmt.Sprintf("node %d emitted %s", n.id, descMsg(&m.m))})
			continue
		}
		c.pool = append(c.pool, pmsg{seq: c.nextSeq, m: m.m, enc: m.enc})
		c.nextSeq++
		switch m.m.Type {
		case pb.MsgSnap:
			c.flags |= fSnapSent
		case pb.MsgPreVote:
			c.flags |= fPreVote
		case pb.MsgTimeoutNow:
			c.flags |= fTransfer
		case pb.MsgVoteResp, pb.MsgPreVoteResp:
			if m.m.Reject {
				c.flags |= fVoteRejected
			}
		}
	}
	if eff.snapApplied {
		c.flags |= fSnapApplied
	}
	if eff.pages > 0 {
		c.flags |= fPageApplied
	}
	if eff.heldNew {
		c.flags |= fReadyHeldWhole
		if n.heldWhole && n.heldSnapIdx > 0 {
			c.flags |= fSnapHeldWhole
		}
	}
	if eff.released > 0 {
		c.flags |= fPersistRelease
	}
	c.check(n, before, eff, e)
}

// ---------------------------------------------------------------------------- description

func descMsg(m *pb.Message) string {
	var b strings.Builder
	fmt.Fprintf(&b, "%s %d->%d t%d", strings.TrimPrefix(m.Type.String(), "Msg"), m.From, m.To, m.Term)
	switch m.Type {
	case pb.MsgApp:
		fmt.Fprintf(&b, " prev=(%d,t%d) commit=%d ents=[", m.Index, m.LogTerm, m.Commit)
		for i, e := range m.Entries {
			if i > 0 {
				b.WriteByte(' ')
			}
			b.WriteString(descEntry(&e))
		}
		b.WriteByte(']')
	case pb.MsgAppResp:
		if m.Reject {
			fmt.Fprintf(&b, " reject idx=%d hint=(%d,t%d)", m.Index, m.RejectHint, m.LogTerm)
		} else {
			fmt.Fprintf(&b, " idx=%d", m.Index)
		}
	case pb.MsgVote, pb.MsgPreVote:
		fmt.Fprintf(&b, " last=(%d,t%d)", m.Index, m.LogTerm)
		if len(m.Context) > 0 {
			fmt.Fprintf(&b, " ctx=%s", m.Context)
		}
	case pb.MsgVoteResp, pb.MsgPreVoteResp:
		if m.Reject {
			b.WriteString(" reject")
		} else {
			b.WriteString(" grant")
		}
	case pb.MsgHeartbeat:
		fmt.Fprintf(&b, " commit=%d", m.Commit)
	case pb.MsgSnap:
		fmt.Fprintf(&b, " snap=(%d,t%d) voters=%v", m.Snapshot.Metadata.Index, m.Snapshot.Metadata.Term, m.Snapshot.Metadata.ConfState.Voters)
	case pb.MsgProp:
		b.WriteString(" ents=[")
		for i, e := range m.Entries {
			if i > 0 {
				b.WriteByte(' ')
			}
			b.WriteString(descEntry(&e))
		}
		b.WriteByte(']')
	}
	return b.String()
}

func descEntry(e *pb.Entry) string {
	switch e.Type {
	case pb.EntryNormal:
		if len(e.Data) == 0 {
			return fmt.Sprintf("%d:t%d:noop", e.Index, e.Term)
		}
		return fmt.Sprintf("%d:t%d:%s", e.Index, e.Term, e.Data)
	case pb.EntryConfChange:
		var cc pb.ConfChange
		cc.Unmarshal(e.Data)
		return fmt.Sprintf("%d:t%d:cc(%s %d)", e.Index, e.Term, strings.TrimPrefix(cc.Type.String(), "ConfChange"), cc.NodeID)
	default:
		var cc pb.ConfChangeV2
		cc.Unmarshal(e.Data)
		return fmt.Sprintf("%d:t%d:ccv2(%s)", e.Index, e.Term, pb.ConfChangesToString(cc.Changes))
	}
}

// describe renders an event against the current (pre-)state.
func (c *cluster) describe(e Event) string {
	switch e.K {
	case evRelease:
		i := c.findHeld(e.A)
		if i < 0 {
			return fmt.Sprintf("release(#%d ?)", e.A)
		}
		return fmt.Sprintf("release(%s) [delayed message re-enters the network]", descMsg(&c.held[i].m))
	case evDeliver, evDrop, evDup, evDelay, evDupDelay:
		i := c.findMsg(e.A)
		if i < 0 {
			return fmt.Sprintf("%s(#%d ?)", evNames[e.K], e.A)
		}
		s := fmt.Sprintf("%s(%s)", evNames[e.K], descMsg(&c.pool[i].m))
		if e.K == evDeliver {
			if n := c.node(c.pool[i].m.To); n == nil || !n.alive {
				s += " [receiver down: lost]"
			} else if c.iso != 0 && (c.pool[i].m.To == uint64(c.iso) || c.pool[i].m.From == uint64(c.iso)) {
				s += " [crosses the partition: lost]"
			} else if n.heldWhole {
				s += " [receiver holds an unpersisted Ready: stepped, nothing persisted or sent]"
			} else if n.held {
				s += " [receiver holds a Ready: stepped, nothing persisted or sent]"
			}
		}
		return s
	case evConf:
		return fmt.Sprintf("proposeConf(%d, %s)", e.N, ccNames[e.A])
	case evBatch:
		shape, v := e.A>>8, e.A&0xff
		if shape >= bsShapes || v >= ccVariants {
			return fmt.Sprintf("proposeBatch(%d, ?)", e.N)
		}
		what := bsNames[shape]
		if bsHasConf(shape) {
			what += ", confChange = " + ccNames[v]
		}
		s := fmt.Sprintf("proposeBatch(%d, b%d %s) [one MsgProp with %d entries]", e.N, c.used.Batches+1, what, len(bsTypes[shape]))
		if n := c.node(uint64(e.N)); n != nil && n.alive && !n.isLeader() {
			s += " [not the leader: forwarded to its leader, or dropped if it knows none]"
		}
		return s
	case evTransfer:
		return fmt.Sprintf("transferLeader(%d -> %d)", e.N, e.A)
	case evPropose:
		return fmt.Sprintf("propose(%d, p%d)", e.N, c.used.Proposals+1)
	case evIsolate:
		if e.N == 0 {
			return "heal()"
		}
		return fmt.Sprintf("isolate(%d)", e.N)
	case evLag:
		return fmt.Sprintf("lag(%d) [the application of node %d applies asynchronously from now on]", e.N, e.N)
	case evPLag:
		return fmt.Sprintf("plag(%d) [the application of node %d is slow in persisting from now on: every Ready is held as a whole]", e.N, e.N)
	case evUnplag:
		return fmt.Sprintf("unplag(%d) [node %d handles its Readys at once again]", e.N, e.N)
	case evPersist:
		if n := c.node(uint64(e.N)); n != nil && n.heldWhole {
			return fmt.Sprintf("persist(%d) [the held Ready is persisted (%s), its %d messages sent, its committed entries applied, Advance; Ready loop resumes, the next Ready is held]", e.N, n.descHeldEnts(), n.heldMsgN)
		}
	case evApply, evUnlag:
		if n := c.node(uint64(e.N)); n != nil && n.held {
			return fmt.Sprintf("%s(%d) [applies the held page %d..%d, Advance, Ready loop resumes]", evNames[e.K], e.N, n.heldLo, n.heldHi)
		}
	}
	if n := c.node(uint64(e.N)); n != nil && n.heldWhole {
		if e.K == evCrash {
			return fmt.Sprintf("crash(%d) [the held unpersisted Ready is lost: %s, %d messages]", e.N, n.descHeldEnts(), n.heldMsgN)
		}
		return fmt.Sprintf("%s(%d) [node holds an unpersisted Ready: library called, nothing persisted or sent]", evNames[e.K], e.N)
	}
	if n := c.node(uint64(e.N)); n != nil && n.held && e.K != evCrash {
		return fmt.Sprintf("%s(%d) [node holds a Ready: library called, nothing persisted or sent]", evNames[e.K], e.N)
	}
	return fmt.Sprintf("%s(%d)", evNames[e.K], e.N)
}

func (c *cluster) summary() string {
	var b strings.Builder
	for _, n := range c.nodes {
		if !n.alive {
			fmt.Fprintf(&b, "  n%d DOWN  hs=(t%d v%d c%d) log=%s\n", n.id, n.hs.Term, n.hs.Vote, n.hs.Commit, descLog(n))
			continue
		}
		if n.eff != nil && n.eff.panicVal != "" {
			// the RawNode is unusable after a panic: show what it left in its storage
			fmt.Fprintf(&b, "  n%d PANICKED  storage: hs=(t%d v%d c%d) applied(app)=%d log=%s\n", n.id, n.hs.Term, n.hs.Vote, n.hs.Commit, n.appliedIdx, descLog(n))
			continue
		}
		fmt.Fprintf(&b, "  n%d %-12s t%d vote=%d lead=%d commit=%d applied=%d log=%s", n.id, n.status.RaftState, n.status.Term, n.status.Vote, n.status.Lead,
			n.status.Commit, n.status.Applied, descLog(n))
		if n.heldWhole {
			fmt.Fprintf(&b, " PLAG holds an unpersisted Ready: hs=(t%d v%d c%d) %s snapshot=%d messages=%d committed page %d..%d; persisted hs=(t%d v%d c%d); unstable in the library: %d entries from index %d, %d messages queued",
				n.heldHS.Term, n.heldHS.Vote, n.heldHS.Commit, n.descHeldEnts(), n.heldSnapIdx, n.heldMsgN, n.heldLo, n.heldHi,
				n.hs.Term, n.hs.Vote, n.hs.Commit, len(n.in.ents), n.in.offset, len(n.in.msgs))
		} else if n.plag {
			b.WriteString(" PLAG")
		} else if n.held {
			fmt.Fprintf(&b, " LAG holds page %d..%d; persisted hs=(t%d v%d c%d); voters=%v; not yet handed out: %d entries, %d messages", n.heldLo, n.heldHi,
				n.hs.Term, n.hs.Vote, n.hs.Commit, sortedIDs(n.status.Config.Voters[0]), len(n.in.ents), len(n.in.msgs))
		} else if n.lag {
			b.WriteString(" LAG")
		}
		b.WriteByte('\n')
	}
	if c.iso != 0 {
		fmt.Fprintf(&b, "  node %d is partitioned from the others\n", c.iso)
	}
	fmt.Fprintf(&b, "  pool(%d):", len(c.pool))
	for _, p := range c.pool {
		fmt.Fprintf(&b, " {%s}", descMsg(&p.m))
	}
	if len(c.held) > 0 {
		fmt.Fprintf(&b, "\n  delayed(%d):", len(c.held))
		for _, p := range c.held {
			fmt.Fprintf(&b, " {%s}", descMsg(&p.m))
		}
	}
	return b.String()
}

// descHeldEnts renders the index range of the Entries of a held unpersisted Ready.
func (n *node) descHeldEnts() string {
	if n.heldEntN == 0 {
		return "no entries"
	}
	return fmt.Sprintf("entries %d..%d", n.heldEntLo, n.heldEntLo+uint64(n.heldEntN)-1)
}

func descLog(n *node) string {
	var parts []string
	if n.snapIdx > 0 {
		parts = append(parts, fmt.Sprintf("snap(%d,t%d)", n.snapIdx, n.snapTrm))
	}
	for i := range n.log {
		parts = append(parts, descEntry(&n.log[i]))
	}
	return "[" + strings.Join(parts, " ") + "]"
}

// descMemLog renders the log as the RawNode sees it (persisted entries overlaid by what it has
// not handed out yet).
func descMemLog(n *node) string {
	var parts []string
	if n.snapIdx > 0 {
		parts = append(parts, fmt.Sprintf("snap(%d,t%d)", n.snapIdx, n.snapTrm))
	}
	for i := n.snapIdx + 1; i <= n.memLastIndex(); i++ {
		if e, ok := n.memEntryAt(i); ok {
			parts = append(parts, descEntry(e))
		}
	}
	return "[" + strings.Join(parts, " ") + "]"
}

func sortedIDs(m map[uint64]struct{}) []uint64 {
	ids := make([]uint64, 0, len(m))
	for id := range m {
		ids = append(ids, id)
	}
	sort.Slice(ids, func(i, j int) bool { return ids[i] < ids[j] })
	return ids
}
