// boxes.go: the bounded spaces explored per tier. Every number here is part of the box
// definition and is copied into the evidence.
package main

import (
	"fmt"
	"os"
)

const mb = 1 << 20

// raftexample's configuration; ElectionTick is only raised so that ticks never start an
// election by themselves (elections are the explicit campaign event).
func cfgPlain(members int, joiner bool) Cfg {
	return Cfg{Name: "raftexample (no PreVote, no CheckQuorum)", ElectionTick: 1 << 30, MaxSizePerMsg: mb, Members: members, Joiner: joiner}
}

func cfgPVCQ(members int, joiner bool) Cfg {
	return Cfg{Name: "PreVote+CheckQuorum, ElectionTick 2", PreVote: true, CheckQuorum: true, ElectionTick: 2, MaxSizePerMsg: mb, Members: members, Joiner: joiner}
}

func cfgOnePerMsg(members int, joiner bool) Cfg {
	return Cfg{Name: "raftexample with MaxSizePerMsg=0 (one entry per MsgApp)", ElectionTick: 1 << 30, MaxSizePerMsg: 0, Members: members, Joiner: joiner}
}

func makeBoxes(tier string) []*Box {
	thorough := tier == "thorough"
	pick := func(q, t int) int {
		if thorough {
			return t
		}
		return q
	}
	var bs []*Box
	bs = append(bs, &Box{
		ID: "A1", Mode: "A", What: "every interleaving of one/two elections and one replication round, one message loss",
		Cfg:   cfgPlain(3, false),
		Bud:   Budget{MaxTerm: 3, Proposals: 1, Drops: 1},
		Depth: pick(9, 11), Kinds: kinds(evCampaign, evPropose), Share: 30,
	})
	bs = append(bs, &Box{
		ID: "B1", Mode: "B", What: "deep runs: elections, proposals, heartbeats, crash/restart, compaction; deviations from FIFO delivery bounded",
		Cfg:   cfgPlain(3, false),
		Bud:   Budget{MaxTerm: 5, Proposals: 3, Drops: 9, Dups: 9, Crashes: 2, Heartbeats: 2, Compacts: 1},
		Depth: 400, MaxDev: pick(1, 2),
		Kinds: kinds(evCampaign, evPropose, evHeartbeat, evCrash, evRestart, evCompact),
		Share: 40,
	})
	if os.Getenv("RAFTMC_TRIAL") != "" {
		// development aid: RAFTMC_TRIAL="T P crashes hb compacts maxdev"
		var t, p, c, h, k, d int
		fmt.Sscan(os.Getenv("RAFTMC_TRIAL"), &t, &p, &c, &h, &k, &d)
		bs = append(bs, &Box{ID: "T", Mode: "B", What: "trial", Cfg: cfgPlain(3, false),
			Bud:   Budget{MaxTerm: uint64(t), Proposals: p, Drops: 9, Dups: 9, Crashes: c, Heartbeats: h, Compacts: k},
			Depth: 400, MaxDev: d, Kinds: kinds(evCampaign, evPropose, evHeartbeat, evCrash, evRestart, evCompact), Share: 40})
	}
	return bs
}
