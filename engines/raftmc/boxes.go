// boxes.go: the bounded spaces explored per tier. Every number here is part of the box
// definition and is copied into the evidence.
package main

import (
	"encoding/json"
	"os"
)

const mb = 1 << 20

// raftexample's configuration; ElectionTick is only raised so that ticks never start an
// election by themselves (elections are the explicit campaign event).
func cfgPlain(members int, joiner bool) Cfg {
	return Cfg{Name: "raftexample (no PreVote, no CheckQuorum)", ElectionTick: 1 << 30, MaxSizePerMsg: mb, Members: members, Joiner: joiner}
}

func cfgPVCQ(members int, joiner bool) Cfg {
	return Cfg{Name: "PreVote+CheckQuorum, ElectionTick 2", PreVote: true, CheckQuorum: true, ElectionTick: 2, MaxSizePerMsg: mb, Members: members, Joiner: joiner}
}

func cfgOnePerMsg(members int, joiner bool) Cfg {
	return Cfg{Name: "raftexample with MaxSizePerMsg=0 (one entry per MsgApp)", ElectionTick: 1 << 30, MaxSizePerMsg: 0, Members: members, Joiner: joiner}
}

func makeBoxes(tier string) []*Box {
	thorough := tier == "thorough"
	pick := func(q, t int) int {
		if thorough {
			return t
		}
		return q
	}
	var bs []*Box
	// ---- Box A: every interleaving, tiny budgets
	bs = append(bs, &Box{
		ID: "A1", Mode: "A", What: "every interleaving of up to two elections and one replication round with one message loss",
		Cfg:   cfgPlain(3, false),
		Bud:   Budget{MaxTerm: 3, Proposals: 1, Drops: 1},
		Depth: pick(10, 13), Kinds: kinds(evCampaign, evPropose), Share: pick(10, 12),
	})
	bs = append(bs, &Box{
		ID: "A2", Mode: "A", What: "same with PreVote+CheckQuorum: pre-vote rounds, leases and their expiry, quorum checks on leader ticks",
		Cfg:   cfgPVCQ(3, false),
		Bud:   Budget{MaxTerm: 3, Proposals: 1, Drops: 1, Heartbeats: 2, Expires: 2},
		Depth: pick(9, 11), Kinds: kinds(evCampaign, evPropose, evHeartbeat, evExpire), Share: pick(8, 10),
	})
	// ---- Box B: deep runs, FIFO delivery by default, bounded number of deviations
	bs = append(bs, &Box{
		ID: "B2", Mode: "B", What: "elections, proposals, crash and restart from persisted state; loss, duplication, reordering, untimely campaign/propose/crash as deviations",
		Cfg:   cfgPlain(3, false),
		Bud:   Budget{MaxTerm: 4, Proposals: pick(1, 2), Drops: 9, Dups: 9, Crashes: 1, Heartbeats: pick(0, 1)},
		Depth: 400, MaxDev: pick(1, 2), Kinds: kinds(evCampaign, evPropose, evHeartbeat, evCrash, evRestart), Share: pick(14, 18),
	})
	bs = append(bs, &Box{
		ID: "B3", Mode: "B", What: "log compaction at the applied index and snapshot transfer to lagging / restarted followers",
		Cfg:   cfgPlain(3, false),
		Bud:   Budget{MaxTerm: 3, Proposals: pick(1, 2), Drops: 9, Dups: 9, Crashes: 1, Compacts: pick(1, 2)},
		Depth: 400, MaxDev: pick(1, 2), Kinds: kinds(evCampaign, evPropose, evCrash, evRestart, evCompact), Share: pick(12, 12),
	})
	bs = append(bs, &Box{
		ID: "B4", Mode: "B", What: "membership changes: add node 4 as voter or as learner then promote, remove node 3 (also while it leads), joint consensus with automatic and explicit leave",
		Cfg:   cfgPlain(3, true),
		Bud:   Budget{MaxTerm: 3, Proposals: pick(0, 1), Drops: 9, Dups: 9, ConfChanges: 2, Crashes: pick(0, 1)},
		Depth: 400, MaxDev: pick(1, 2), Kinds: kinds(evCampaign, evPropose, evConf, evCrash, evRestart), Share: pick(10, 14),
	})
	bs = append(bs, &Box{
		ID: "B5", Mode: "B", What: "PreVote+CheckQuorum deep runs: lease expiry, quorum-check step-down, crash/restart",
		Cfg:   cfgPVCQ(3, false),
		Bud:   Budget{MaxTerm: 3, Proposals: 1, Drops: 9, Dups: 9, Crashes: pick(0, 1), Heartbeats: 2, Expires: pick(1, 2)},
		Depth: 400, MaxDev: pick(1, 2), Kinds: kinds(evCampaign, evPropose, evHeartbeat, evCrash, evRestart, evExpire), Share: pick(12, 10),
	})
	bs = append(bs, &Box{
		ID: "B6", Mode: "B", What: "leadership transfer (MsgTimeoutNow, forced campaign) interleaved with elections and proposals",
		Cfg:   cfgPlain(3, false),
		Bud:   Budget{MaxTerm: 4, Proposals: 1, Drops: 9, Dups: 9, Transfers: pick(1, 2)},
		Depth: 400, MaxDev: pick(1, 2), Kinds: kinds(evCampaign, evPropose, evTransfer), Share: pick(4, 5),
	})
	// B1 runs after the cheaper boxes so that it inherits whatever time they left
	bs = append(bs, &Box{
		ID: "B1", Mode: "B", What: "network partitions with one entry per MsgApp (MaxSizePerMsg=0): leaders cut off right after election or after appending, stale leaders, entries of earlier terms acknowledged separately from the leader's own (Figure-8 family)",
		Cfg:   cfgOnePerMsg(3, false),
		Bud:   Budget{MaxTerm: 4, Proposals: 1, Drops: pick(0, 9)},
		Depth: 400, MaxDev: pick(1, 2), Kinds: kinds(evCampaign, evPropose, evIsolate), Devs: kinds(evIsolate, evDrop), LeaderPropose: true,
		Share: pick(24, 22),
	})
	if thorough {
		bs = append(bs, &Box{
			ID: "B7", Mode: "B", What: "crash-heavy runs with one entry per MsgApp: up to three crashes, restarts from persisted state",
			Cfg:   cfgOnePerMsg(3, false),
			Bud:   Budget{MaxTerm: 5, Proposals: 1, Drops: 9, Crashes: 3},
			Depth: 400, MaxDev: 1, Kinds: kinds(evCampaign, evPropose, evCrash, evRestart), Devs: kinds(evDrop, evCrash, evDeliver), Share: 10,
		})
		bs = append(bs, &Box{
			ID: "B8", Mode: "B", What: "five members",
			Cfg:   cfgPlain(5, false),
			Bud:   Budget{MaxTerm: 3, Proposals: 1, Drops: 9, Dups: 9, Crashes: 1},
			Depth: 400, MaxDev: 2, Kinds: kinds(evCampaign, evPropose, evCrash, evRestart), Share: 8,
		})
	}
	if tj := os.Getenv("RAFTMC_TRIAL"); tj != "" {
		// development aid: a box given as JSON, e.g.
		// {"mode":"B","cfg":"plain","members":3,"joiner":false,"budgets":{...},"max_deviations":1,"kinds":"CPHKRS"}
		var t struct {
			Mode    string `json:"mode"`
			Cfg     string `json:"cfg"`
			Members int    `json:"members"`
			Joiner  bool   `json:"joiner"`
			Bud     Budget `json:"budgets"`
			MaxDev  int    `json:"max_deviations"`
			Depth   int    `json:"max_depth"`
			Kinds   string `json:"kinds"`
			Devs    string `json:"devs"`
			LP      bool   `json:"leader_propose"`
		}
		if err := json.Unmarshal([]byte(tj), &t); err != nil {
			panic(err)
		}
		b := &Box{ID: "T", Mode: t.Mode, What: "trial", Bud: t.Bud, MaxDev: t.MaxDev, Depth: t.Depth, Share: 40}
		switch t.Cfg {
		case "pvcq":
			b.Cfg = cfgPVCQ(t.Members, t.Joiner)
		case "one":
			b.Cfg = cfgOnePerMsg(t.Members, t.Joiner)
		default:
			b.Cfg = cfgPlain(t.Members, t.Joiner)
		}
		if b.Depth == 0 {
			b.Depth = 400
		}
		for _, ch := range t.Kinds {
			for k := range evShort {
				if evShort[k] == string(ch) {
					b.Kinds |= 1 << uint(k)
				}
			}
		}
		for _, ch := range t.Devs {
			for k := range evShort {
				if evShort[k] == string(ch) {
					b.Devs |= 1 << uint(k)
				}
			}
		}
		b.LeaderPropose = t.LP
		bs = append(bs, b)
	}
	for _, b := range bs {
		b.finish()
	}
	return bs
}
