// boxes.go: the bounded spaces explored per tier. Every number here is part of the box
// definition and is copied into the evidence.
package main

import (
	"encoding/json"
	"os"
)

const mb = 1 << 20

// raftexample's configuration; ElectionTick is only raised so that ticks never start an
// election by themselves (elections are the explicit campaign event).
func cfgPlain(members int, joiner bool) Cfg {
	return Cfg{Name: "raftexample (no PreVote, no CheckQuorum)", ElectionTick: 1 << 30, MaxSizePerMsg: mb, Members: members, Joiner: joiner}
}

func cfgPVCQ(members int, joiner bool) Cfg {
	return Cfg{Name: "PreVote+CheckQuorum, ElectionTick 2", PreVote: true, CheckQuorum: true, ElectionTick: 2, MaxSizePerMsg: mb, Members: members, Joiner: joiner}
}

func cfgOnePerMsg(members int, joiner bool) Cfg {
	return Cfg{Name: "raftexample with MaxSizePerMsg=0 (one entry per MsgApp)", ElectionTick: 1 << 30, MaxSizePerMsg: 0, Members: members, Joiner: joiner}
}

// withJoiners returns cfg with n empty nodes (Members+1 .. Members+n) next to the members.
func withJoiners(cfg Cfg, n int) Cfg {
	cfg.Joiner = n > 0
	cfg.Joiners = 0
	if n > 1 {
		cfg.Joiners = n
	}
	return cfg
}

// Sizes below were measured on this machine (16 workers, other jobs running): quick explores
// about 3.9 M states in 40-90 s (B9, the snapshot/compaction box, is 0.32 M of them and closes
// in 4-9 s; B10 + B11, the apply-lag boxes, are 0.11 M + 0.06 M and close in 4-17 s + 2-8 s),
// thorough 36 M states in 17 min at load average 60+ without the apply-lag boxes (more when idle;
// B9, B9b, B9c are 1.24 M + 4.2 M + 1.6 M states and close in 22 + 82 + 39 s) plus 6.7 M states
// in 6.5 min at load average 100+ for B10, B10b, B10p, B11, B11b, B11c (0.11 + 4.33 + 0.55 +
// 1.04 + 0.36 + 0.34 M states; 8 + 276 + 30 + 44 + 19 + 20 s), plus 4.3 M states in 3.2 min at
// load average 75 (6 min at 115) for the persist-lag boxes B12, B12b, B12c, B12d, B12e (0.10 +
// 0.93 + 1.49 + 1.19 + 0.55 M states; 5 + 48 + 71 + 43 + 21 s); quick B12 is 0.056 M states and
// closes in 3.5-5.5 s; plus 9.6 M states in 5.3 min at load average 60 for the batch-proposal
// boxes B13, B13b, B13c, B13d (2.06 + 1.73 + 0.64 + 5.13 M states; 78 + 56 + 18 + 163 s); quick B13
// is 0.035 M states and closes in 1.5-3 s. Every box stops at its share of the internal time
// budget (130 s quick, 39 min thorough) and reports the bound it completed.
func makeBoxes(tier string) []*Box {
	thorough := tier == "thorough"
	pick := func(q, t int) int {
		if thorough {
			return t
		}
		return q
	}
	var bs []*Box
	add := func(b *Box) { bs = append(bs, b) }
	all3 := cfgPlain(3, false)

	// ---- Box A: every interleaving, tiny budgets (breadth-first, pool = multiset)
	add(&Box{ID: "A1", Mode: "A", What: "every interleaving of up to two elections and one replication round with one message loss",
		Cfg: all3, Bud: Budget{MaxTerm: 3, Proposals: 1, Drops: 1},
		Depth: pick(10, 12), Kinds: kinds(evCampaign, evPropose), Share: pick(14, 60)})
	add(&Box{ID: "A2", Mode: "A", What: "same with PreVote+CheckQuorum: pre-vote rounds, leases and their expiry, quorum checks on leader ticks",
		Cfg: cfgPVCQ(3, false), Bud: Budget{MaxTerm: 3, Proposals: 1, Drops: 1, Heartbeats: 2, Expires: 2},
		Depth: pick(9, 10), Kinds: kinds(evCampaign, evPropose, evHeartbeat, evExpire), Share: pick(10, 35)})

	// ---- Box B: deep runs, FIFO delivery by default, bounded number of deviations
	crashy := kinds(evCampaign, evPropose, evHeartbeat, evCrash, evRestart)
	add(&Box{ID: "B2", Mode: "B", What: "elections, proposals, crash and restart from persisted state; loss, duplication, reordering, untimely campaign/propose/crash/restart as deviations",
		Cfg: all3, Bud: Budget{MaxTerm: 4, Proposals: 1, Drops: 9, Dups: 9, Crashes: 1},
		Depth: 400, MaxDev: pick(1, 2), Kinds: crashy, Share: pick(14, 80)})
	if thorough {
		add(&Box{ID: "B2b", Mode: "B", What: "as B2 with two proposals and a leader heartbeat tick",
			Cfg: all3, Bud: Budget{MaxTerm: 4, Proposals: 2, Drops: 9, Dups: 9, Crashes: 1, Heartbeats: 1},
			Depth: 400, MaxDev: 1, Kinds: crashy, Share: 40})
		add(&Box{ID: "B3a", Mode: "B", What: "log compaction at the applied index and snapshot transfer, two proposals",
			Cfg: all3, Bud: Budget{MaxTerm: 3, Proposals: 2, Drops: 9, Dups: 9, Crashes: 1, Compacts: 1},
			Depth: 400, MaxDev: 1, Kinds: kinds(evCampaign, evPropose, evCrash, evRestart, evCompact), Share: 30})
	}
	add(&Box{ID: "B3", Mode: "B", What: "log compaction at the applied index and snapshot transfer to lagging / restarted followers",
		Cfg: all3, Bud: Budget{MaxTerm: 3, Proposals: 1, Drops: 9, Dups: 9, Crashes: 1, Compacts: 1},
		Depth: 400, MaxDev: pick(1, 2), Kinds: kinds(evCampaign, evPropose, evCrash, evRestart, evCompact), Share: pick(16, 100)})
	// ---- B9: snapshots and log compaction on every member, stale snapshots.
	// The alphabet: compact(n) on leaders and followers (application snapshot at the applied
	// index + Storage.Compact, twice per run, so that a follower can install a snapshot, move
	// on and compact again), crash/restart (the cheapest way to make a follower lag: free at
	// quiescence; restart from a compacted storage comes with it), a leader heartbeat tick
	// (how a leader finds out that a follower it stopped probing is behind and falls back to
	// MsgSnap), a proposal (so that the group moves past a snapshot that is still in the
	// network). Deviations: any in-flight message - MsgSnap like every other type - is
	// delayed, or duplicated with the copy delayed, for an arbitrary time (released at any
	// later quiescent point); thorough adds loss, plain duplication, reordering and untimely
	// campaign/propose/crash/restart. The smallest run in which a snapshot reaches a follower
	// that has meanwhile compacted beyond it (crash(3) campaign(1) .. compact(1) restart(3)
	// heartbeat(1) .. MsgSnap(4) duplicated+delayed .. propose .. compact(3) release ..) has
	// one deviation, one proposal, two compactions, one crash and one heartbeat: these are the
	// quick budgets. With one election per run (term <= 2) the three choices of leader give
	// the same runs up to a renaming of the members (ids only decide the order in which a node
	// emits its messages), so the quick tier lets node 1 campaign only - a stated bound, a third
	// of the states (0.32 M instead of 1.24 M), which keeps the box inside its time slice on a
	// busy machine; thorough explores all three. Coverage counters: compactions,
	// compactions_on_non_leaders, msgsnap_deliveries, stale_msgsnap_* (see flagNames).
	snapKinds := kinds(evCampaign, evPropose, evHeartbeat, evCrash, evRestart, evCompact)
	add(&Box{ID: "B9", Mode: "B", What: "snapshots and compaction on leaders and followers; MsgSnap (and every other message) delayed or duplicated-and-delayed past later proposals, compactions and restarts of the receiver",
		Cfg: all3, Bud: Budget{MaxTerm: 2, Proposals: 1, Dups: 1, Delays: 1, Crashes: 1, Heartbeats: 1, Compacts: 2},
		Depth: 400, MaxDev: 1, Kinds: snapKinds, Devs: kinds(evDelay, evDupDelay), LeaderPropose: true, CampaignAt: uint8(pick(1, 0)), Share: pick(20, 60)})
	if thorough {
		add(&Box{ID: "B9b", Mode: "B", What: "as B9 with two proposals (snapshot, progress, compaction, more progress)",
			Cfg: all3, Bud: Budget{MaxTerm: 2, Proposals: 2, Dups: 1, Delays: 1, Crashes: 1, Heartbeats: 1, Compacts: 2},
			Depth: 400, MaxDev: 1, Kinds: snapKinds, Devs: kinds(evDelay, evDupDelay), LeaderPropose: true, Share: 110})
		add(&Box{ID: "B9c", Mode: "B", What: "as B9 with the full deviation alphabet (loss, duplication, reordering, delay, untimely campaign/propose/crash/restart)",
			Cfg: all3, Bud: Budget{MaxTerm: 2, Proposals: 1, Drops: 9, Dups: 9, Delays: 1, Crashes: 1, Heartbeats: 1, Compacts: 2},
			Depth: 400, MaxDev: 1, Kinds: snapKinds, LeaderPropose: true, Share: 110})
	}
	// ---- B10 / B11: apply lag (asynchronous application of committed entries).
	// Everywhere else applied == committed in every state, because a node's library call and the
	// handling of its Ready structs are one transition. Here a node may be in lag mode (see evLag
	// in cluster.go): a Ready with committed entries is persisted and sent, its committed page and
	// its Advance are held; the RawNode goes on stepping messages, campaigning and accepting
	// proposals without handing out another Ready until apply(n) / unlag(n). That is the regime in
	// which the hup guard (no campaign while a committed conf change is unapplied), the pagination
	// of CommittedEntries (MaxCommittedSizePerReady, which defaults to MaxSizePerMsg: with
	// MaxSizePerMsg=0 every Ready carries one committed entry) and the pending-conf-change checks
	// matter.
	//
	// B10: three members and two joiners, one entry per message / per Ready. The smallest run in
	// which a slow applier campaigns on a configuration two membership changes stale is inside
	// the quick box: lag(3) campaign(1) .. [3 holds the page with the leader's no-op] ..
	// proposeConf(add 4) .. proposeConf(add 5) .. [3 has accepted both and knows they are
	// committed, silently] .. campaign(3) [must be refused] apply(3) [3's queued messages leave,
	// 3 holds the next page, still on {1,2,3}] drop(3's vote request to 1) .. campaign(4)
	// (75 events, 1 deviation). If campaign(3) is not refused, 2 elects 3 by the old majority and
	// 1 + 5 elect 4 by the new one in the same term. Budgets of that run: term <= 3, 2 conf
	// changes, 1 lag, 1 apply, 1 drop, no proposal: box B10, both tiers (0.11 M states). Thorough
	// adds B10b with two proposals (so that the held page / the backlog may also start with or
	// contain normal entries, before, between or after the conf changes - e.g. lag(3) after the
	// election, propose, 3 holds [p1], add 4, add 5, propose, campaign(3) ..) and a second apply
	// (4.3 M states), and B10p with the 1 MiB page size. Stated restrictions, all part of the box
	// definition: only node 3 lags; the first election is node 1's, the second is between nodes 3
	// and 4; proposals and conf changes at the leader; conf changes are addV1(4) and addV1(5) in
	// either order; deviations are message loss and apply(3) while messages are in flight.
	// Exhaustive within these bounds, no sampling.
	lag5 := withJoiners(cfgOnePerMsg(3, true), 2)
	lagRestr := []string{"only node 3 enters lag mode", "first election (term 2) by node 1 only, second election (term 3) by nodes 3 and 4 only",
		"proposals and conf changes at the leader only", "conf changes: addV1(4), addV1(5), in either order",
		"deviations: loss of any in-flight message, apply(3) while messages are in flight"}
	lagBy := map[uint64][]int{0: {}, 1: {1}, 2: {3, 4}}
	lagKinds5 := kinds(evCampaign, evConf, evLag, evApply, evUnlag)
	add(&Box{ID: "B10", Mode: "B", What: "apply lag with two membership changes, one committed entry per Ready: a slow applier (node 3) steps messages, campaigns and receives votes while a committed page is unapplied; campaigning with committed conf changes anywhere in the apply backlog must be refused",
		Cfg: lag5, Bud: Budget{MaxTerm: 3, Drops: 1, ConfChanges: 2, Lags: 1, Applies: 1},
		Depth: 400, MaxDev: 1, Kinds: lagKinds5, Devs: kinds(evDrop, evApply),
		LeaderPropose: true, LagAt: 3, CampaignBy: lagBy, ConfVariants: []uint16{ccAddV1, ccAddV1Second}, Restrictions: lagRestr, Share: pick(14, 25)})
	if thorough {
		add(&Box{ID: "B10b", Mode: "B", What: "as B10 with two proposals (normal entries before, between and after the conf changes: the held page and the first page of the backlog may be normal entries or conf changes) and two applies",
			Cfg: lag5, Bud: Budget{MaxTerm: 3, Proposals: 2, Drops: 1, ConfChanges: 2, Lags: 1, Applies: 2},
			Depth: 400, MaxDev: 1, Kinds: lagKinds5 | 1<<evPropose, Devs: kinds(evDrop, evApply),
			LeaderPropose: true, LagAt: 3, CampaignBy: lagBy, ConfVariants: []uint16{ccAddV1, ccAddV1Second}, Restrictions: lagRestr, Share: 320})
		add(&Box{ID: "B10p", Mode: "B", What: "as B10 with raftexample's 1 MiB page size (the whole apply backlog is one page) and one proposal",
			Cfg: withJoiners(cfgPlain(3, true), 2), Bud: Budget{MaxTerm: 3, Proposals: 1, Drops: 1, ConfChanges: 2, Lags: 1, Applies: 1},
			Depth: 400, MaxDev: 1, Kinds: lagKinds5 | 1<<evPropose, Devs: kinds(evDrop, evApply),
			LeaderPropose: true, LagAt: 3, CampaignBy: lagBy, ConfVariants: []uint16{ccAddV1, ccAddV1Second}, Restrictions: lagRestr, Share: 50})
	}
	// B11: three members and a joiner, any node may lag (a leader that is slow in applying its
	// own conf change included), one conf change (add 4 / remove 3), crash and restart (a crash
	// while a Ready is held loses it; the restarted application rebuilds its state from the
	// storage's snapshot and re-applies every committed entry above it, page by page if it is
	// still in lag mode). Deviations: loss, apply / lag / crash while messages are in flight.
	lag3 := cfgOnePerMsg(3, true)
	lagKinds := kinds(evCampaign, evPropose, evConf, evCrash, evRestart, evLag, evApply, evUnlag)
	lagDevs := kinds(evDrop, evApply, evLag, evCrash)
	cc11 := []uint16{ccAddV1, ccRemoveV1}
	if !thorough {
		add(&Box{ID: "B11", Mode: "B", What: "apply lag on any of three members (leader included) with one membership change (add 4 / remove 3) and crash / restart while a committed page is held; one election",
			Cfg: lag3, Bud: Budget{MaxTerm: 2, Drops: 1, Crashes: 1, ConfChanges: 1, Lags: 1, Applies: 2},
			Depth: 400, MaxDev: 1, Kinds: lagKinds, Devs: lagDevs, LeaderPropose: true, CampaignAt: 1, ConfVariants: cc11,
			Restrictions: []string{"one election, by node 1", "conf changes at the leader only: addV1(4) or removeV1(3)"}, Share: 6})
	} else {
		add(&Box{ID: "B11", Mode: "B", What: "apply lag on any of three members (leader included) with one membership change (add 4 / remove 3) and crash / restart while a committed page is held; second election by any node (campaigns with an apply backlog, restart followed by campaign)",
			Cfg: lag3, Bud: Budget{MaxTerm: 3, Drops: 1, Crashes: 1, ConfChanges: 1, Lags: 1, Applies: 2},
			Depth: 400, MaxDev: 1, Kinds: lagKinds, Devs: lagDevs, LeaderPropose: true, CampaignBy: map[uint64][]int{0: {}, 1: {1}}, ConfVariants: cc11,
			Restrictions: []string{"first election (term 2) by node 1 only, second election by any node", "conf changes at the leader only: addV1(4) or removeV1(3)"}, Share: 90})
		add(&Box{ID: "B11b", Mode: "B", What: "as B11 with one election and a proposal (normal entries before / after the conf change in the held page and in the backlog)",
			Cfg: lag3, Bud: Budget{MaxTerm: 2, Proposals: 1, Drops: 1, Crashes: 1, ConfChanges: 1, Lags: 1, Applies: 2},
			Depth: 400, MaxDev: 1, Kinds: lagKinds, Devs: lagDevs, LeaderPropose: true, CampaignAt: 1, ConfVariants: cc11,
			Restrictions: []string{"one election, by node 1", "proposals and conf changes at the leader only: addV1(4) or removeV1(3)"}, Share: 30})
		add(&Box{ID: "B11c", Mode: "B", What: "apply lag with log compaction and snapshot transfer: MsgSnap stepped by a node that holds a committed page (the page ends up below the snapshot), compaction at the applied index of a lagging node, restart in lag mode from a compacted storage",
			Cfg: cfgOnePerMsg(3, false), Bud: Budget{MaxTerm: 2, Proposals: 1, Drops: 1, Crashes: 1, Heartbeats: 1, Compacts: 1, Lags: 1, Applies: 2},
			Depth: 400, MaxDev: 1, Kinds: kinds(evCampaign, evPropose, evHeartbeat, evCrash, evRestart, evCompact, evLag, evApply, evUnlag), Devs: kinds(evDrop, evApply, evLag),
			LeaderPropose: true, CampaignAt: 1, Restrictions: []string{"one election, by node 1", "proposals at the leader only"}, Share: 30})
	}
	// ---- B12: persist lag (the application is slow BEFORE it has persisted a Ready).
	// In B10 / B11 a lagging node persists and sends a Ready at once and holds only the committed
	// page. Here a node in plag mode (see evPLag in cluster.go) holds the WHOLE Ready - nothing
	// persisted, nothing sent, nothing applied - while the RawNode keeps stepping whatever arrives,
	// which is what node.run does from the moment the application has taken a Ready from readyc.
	// persist(n) then writes HardState / snapshot / entries from the held value, i.e. from
	// whatever its slices contain at that moment, sends, applies, advances and holds the next
	// Ready; a crash loses a held Ready entirely. At every release the held Ready is compared with
	// a deep copy taken at the hand-out (ReadyMutatedAfterHandOut: the application owns
	// Ready.Entries / CommittedEntries / Messages / Snapshot until Advance) and the storage
	// invariants (PersistedLogTermsNonDecreasing, LogMatching, CommittedEntryRewritten, ...) see
	// the storage exactly as that release left it.
	//
	// The window that matters: the slow node F holds an unpersisted Ready whose Entries are
	// [.., i, i+1, i+2] of term t, and steps a MsgApp of a leader of term t+1 whose log ends at i
	// (prev = (i, t), one entry (i+1)@(t+1)): the library truncates in the middle of its unstable
	// entries (third case of unstable.truncateAndAppend) while the application still owns the
	// slice that covers i+1 and i+2. With three voters F cannot be a voter: the new leader would
	// need F's vote (the old leader has everything) and F's log is the longest. Five voters work
	// (10 more messages per round); the smallest configuration is voters {1,2,3} and F = node 4
	// as LEARNER: its log is empty when it is added, so the leader's probe is rejected and the
	// retry carries the whole log in ONE MsgApp (1 MiB messages). The run (hand-built with
	// `raftmc scenario plain+1 C1 Q G4 F12 Q K2 K3 P1 Q P1 Q B4 Q R2 R3 C3 Q B4`, 52 events, no
	// deviation): campaign(1) .. plag(4) proposeConf(1, addLearner 4) .. [4 holds its reject]
	// crash(2) crash(3) propose(1,p1) propose(1,p2) [6@t2 7@t2 exist on node 1 only] persist(4)
	// [reject leaves, 1 answers with entries 1..7, 4 holds the Ready with Entries 1..7]
	// restart(2) restart(3) campaign(3) [2 votes; 3 leads term 3 with a log that ends at 5, sends
	// 6@t3 with prev=(5,t2) to the learner, which steps it while holding] persist(4). Budgets of
	// that run: term <= 3, 2 proposals, 2 crashes, 1 conf change, 1 plag, 2 persists: box B12, both
	// tiers, exhaustive within these bounds and the stated restrictions, no sampling, no
	// deviation needed (every event of the run happens at a quiescent point).
	plag4 := cfgPlain(3, true)
	plagKinds := kinds(evCampaign, evPropose, evConf, evCrash, evRestart, evPLag, evPersist, evUnplag)
	plagRestr := []string{"only node 4 (the learner) enters persist-lag mode", "first election (term 2) by node 1 only, second election (term 3) by node 3 only",
		"proposals and the conf change at the leader only", "conf change: addLearnerV2(4)", "only nodes 2 and 3 crash",
		"no deviations: every message is delivered in FIFO order, driver events happen at quiescent points (messages to a node that is down are lost)"}
	plagKindsQ := plagKinds
	if !thorough {
		// quick: the learner's application is slow from the start (plag(4) only while its log is
		// empty) and stays slow (no unplag): 0.056 M instead of 0.10 M states - the box has to
		// close inside a 9 s slice at load average 90+ (measured alone: 5.5 s)
		plagKindsQ &^= 1 << evUnplag
		plagRestr = append(plagRestr, "plag(4) only while node 4's log is still empty; node 4 does not leave persist-lag mode (no unplag)")
	}
	add(&Box{ID: "B12", Mode: "B", What: "persist lag on a learner: node 4 holds whole Readys (nothing persisted, sent or applied) while it keeps stepping messages; it receives the whole log in one MsgApp and, before it has persisted it, the first MsgApp of a later-term leader whose log is shorter (truncation in the middle of the unstable entries the application is about to persist)",
		Cfg: plag4, Bud: Budget{MaxTerm: 3, Proposals: 2, Crashes: 2, ConfChanges: 1, Plags: 1, Persists: 2},
		Depth: 400, MaxDev: 0, Kinds: plagKindsQ, Devs: kinds(evDrop),
		LeaderPropose: true, LagAt: 4, CampaignBy: map[uint64][]int{0: {}, 1: {1}, 2: {3}}, CrashAt: []int{2, 3}, PlagEmpty: !thorough, ConfVariants: []uint16{ccAddLearner}, Restrictions: plagRestr, CollectAll: true, Share: pick(14, 20)})
	if thorough {
		// B12b: the restrictions on who crashes and who wins term 3 are dropped (the old leader or
		// the learner itself may crash: a crash of the learner while it holds a Ready loses the
		// Ready, a crash after the release restarts it from exactly what the release wrote), a
		// third persist. B12c: B12 plus one deviation: loss of any in-flight message, or persist(4)
		// / plag(4) / crash(2|3) while messages are in flight (the release happens before, between
		// or after the messages of the new leader). B12d: any of three voters (the leader included)
		// is the slow one; no membership change; one deviation (a leader holds Readys whose
		// Messages carry entries of its unstable log; a candidate holds its vote requests; a
		// follower holds its vote / its acknowledgements). B12e: persist lag with log compaction and
		// snapshot transfer: a node accepts a MsgSnap, holds the Ready that carries the snapshot
		// and keeps stepping messages before anything is installed.
		add(&Box{ID: "B12b", Mode: "B", What: "as B12 without the restrictions on crashes and on the second election: any node may crash (the learner while it holds an unpersisted Ready, or right after a release; the old leader), term 3 is won by node 2 or 3, three persists",
			Cfg: plag4, Bud: Budget{MaxTerm: 3, Proposals: 2, Crashes: 2, ConfChanges: 1, Plags: 1, Persists: 3},
			Depth: 400, MaxDev: 0, Kinds: plagKinds, Devs: kinds(evDrop),
			LeaderPropose: true, LagAt: 4, CampaignBy: map[uint64][]int{0: {}, 1: {1}, 2: {2, 3}}, ConfVariants: []uint16{ccAddLearner}, CollectAll: true,
			Restrictions: []string{"only node 4 (the learner) enters persist-lag mode", "first election (term 2) by node 1 only, second election (term 3) by nodes 2 and 3 only",
				"proposals and the conf change at the leader only", "conf change: addLearnerV2(4)", "no deviations (FIFO delivery, driver events at quiescent points)"}, Share: 130})
		add(&Box{ID: "B12c", Mode: "B", What: "as B12 with one deviation: loss of any in-flight message, or persist(4) / plag(4) / crash(2|3) while messages are in flight (the release before, between or after the messages of the later-term leader)",
			Cfg: plag4, Bud: Budget{MaxTerm: 3, Proposals: 2, Drops: 1, Crashes: 2, ConfChanges: 1, Plags: 1, Persists: 2},
			Depth: 400, MaxDev: 1, Kinds: plagKinds, Devs: kinds(evDrop, evPersist, evPLag, evCrash),
			LeaderPropose: true, LagAt: 4, CampaignBy: map[uint64][]int{0: {}, 1: {1}, 2: {3}}, CrashAt: []int{2, 3}, ConfVariants: []uint16{ccAddLearner}, CollectAll: true,
			Restrictions: append(append([]string(nil), plagRestr[:5]...), "deviations: loss of any in-flight message, persist(4) / plag(4) / crash(2|3) while messages are in flight"), Share: 160})
		add(&Box{ID: "B12d", Mode: "B", What: "persist lag on any of three voters, the leader included (a leader holds Readys whose Messages carry entries of its unstable log, a candidate its vote requests, a follower its vote and acknowledgements), two elections, crash and restart; one deviation",
			Cfg: all3, Bud: Budget{MaxTerm: 3, Proposals: 2, Drops: 1, Crashes: 1, Plags: 1, Persists: 3},
			Depth: 400, MaxDev: 1, Kinds: kinds(evCampaign, evPropose, evCrash, evRestart, evPLag, evPersist, evUnplag), Devs: kinds(evDrop, evPersist, evPLag),
			LeaderPropose: true, CampaignBy: map[uint64][]int{0: {}, 1: {1}}, CollectAll: true,
			Restrictions: []string{"first election (term 2) by node 1 only, second election by any node", "proposals at the leader only",
				"deviations: loss of any in-flight message, persist(n) / plag(n) while messages are in flight"}, Share: 130})
		add(&Box{ID: "B12e", Mode: "B", What: "persist lag with log compaction and snapshot transfer: a node accepts a MsgSnap and holds the Ready that carries the snapshot (nothing installed) while it keeps stepping messages; compaction on a node in persist-lag mode; crash while such a Ready is held",
			Cfg: all3, Bud: Budget{MaxTerm: 2, Proposals: 1, Drops: 1, Crashes: 1, Heartbeats: 1, Compacts: 1, Plags: 1, Persists: 3},
			Depth: 400, MaxDev: 1, Kinds: kinds(evCampaign, evPropose, evHeartbeat, evCrash, evRestart, evCompact, evPLag, evPersist, evUnplag), Devs: kinds(evDrop, evPersist, evPLag),
			LeaderPropose: true, CampaignAt: 1, CollectAll: true,
			Restrictions: []string{"one election, by node 1", "proposals at the leader only", "deviations: loss of any in-flight message, persist(n) / plag(n) while messages are in flight"}, Share: 50})
	}
	// ---- B13: proposals that carry several entries in one MsgProp (proposeBatch, see evBatch).
	// Everywhere else a proposal is RawNode.Propose / ProposeConfChange: one entry per MsgProp.
	// The API also accepts a MsgProp with several entries (RawNode.Step / Node.Step; a follower
	// forwards it unchanged), and the leader's bookkeeping of the pending conf change
	// (pendingConfIndex = index the conf change is about to get = last index + position in the
	// batch + 1) is the one place where the position of an entry inside its proposal matters. With
	// one entry per MsgApp (MaxSizePerMsg = 0) a batch [normal, confChange] is replicated,
	// committed and applied entry by entry, so there are states in which the leader has applied
	// the normal entry and the conf change right behind it is still uncommitted: in that window a
	// further conf change must be refused (stored as an empty normal entry). If it were accepted,
	// two single-step membership changes would be in flight at once, e.g. remove 2 and remove 3:
	// both commit under {1,2,3}'s quorum {1,2}, node 1 ends up alone in {1} and commits on its
	// own while {2,3}, still on {1,2,3}, elect a leader and commit something else at the same
	// index.
	//
	// The window, hand-built (`raftmc scenario one C1 Q O107 D D D F11`): campaign(1) ..
	// proposeBatch(1, [normal, removeV1(2)]) [5:b1.0 6:cc] deliver(App[5] 1->2) deliver(App[5] 1->3)
	// deliver(AppResp 5 2->1) [leader commits and applies 5; App[6] to 2 and 3 in flight]
	// proposeConf(1, removeV1(3)) -> must become 7:noop. One deviation (a conf change proposed
	// while messages are in flight); without any deviation it is reached when the ack of 6 is
	// lost (drop, one deviation, then proposeConf at the quiescent point) or when the leader
	// applies asynchronously (B13b: lag(1) .. apply(1), no deviation: commit pagination splits
	// the batch). The full story (`raftmc scenario one C1 Q K3 O107 D D D D D X0 F11 D D D X0 D P1
	// R3 C2 Q`, 2 deviations, both message losses): crash(3) proposeBatch(1,[normal, remove 2]) ..
	// drop(AppResp 6 2->1) proposeConf(1, remove 3) [7] .. deliver(AppResp 7 2->1) [commit 5 -> 7
	// under {1,2,3}; 1 applies 6 and 7: voters {1}] drop(App commit=7 1->2) propose(1,p1) [8:p1
	// committed by node 1 alone] restart(3) campaign(2) [2 and 3 still on {1,2,3}: 2 leads term 3,
	// 8:noop@t3] -> LeaderCompleteness, 3 deliveries later StateMachineSafety (two entries
	// committed at index 8). Budgets of that run: term <= 3, 1 batch, 1 conf change, 1 proposal,
	// 1 crash, 2 drops: box B13c (crash / restart keeps node 3 out of the way) and B13d (the same
	// with a network partition instead: isolate(3) .. heal()), both exhaustive for <= 2 losses.
	//
	// Invariant added with this family: AtMostOnePendingConfChange (inv.go) - the library's
	// documented rule, on the leader's log; it flags the acceptance itself, 8 events before the
	// functional damage. ElectionSafety / LeaderCompleteness / StateMachineSafety remain the
	// functional oracle (a violating transition is not expanded, so with the structural
	// invariant on, the search stops at the acceptance; RAFTMC_SKIP_INV=AtMostOnePendingConfChange
	// shows the functional violation in B13c / B13d).
	//
	// Stated restrictions: B13 - one election, by node 1; any live node may step the batch (a
	// follower forwards it), conf changes proper at the leader; every shape of batch
	// ([normal, cc], [cc, normal], [normal, normal], [normal, cc, normal], [cc, cc]) with cc one of
	// addV1(4), removeV1(3), removeV1(2), and one further conf change of the same three kinds
	// (quick: 35 k states, 1.5-3 s; with two further conf changes 141 k states, 4-7 s, which did
	// not fit its slice at load average 65); thorough: two further conf changes, a proposal, delay
	// as a deviation. Exhaustive within these bounds for <= 1 deviation, no sampling.
	batch4 := cfgOnePerMsg(3, true)
	batch3 := cfgOnePerMsg(3, false)
	ccBatch := []uint16{ccAddV1, ccRemoveV1, ccRemoveV1Second}
	ccRemove := []uint16{ccRemoveV1, ccRemoveV1Second}
	batchRestr := []string{"one election, by node 1", "proposeBatch at any live node (a follower forwards the MsgProp to the leader), proposeConf at the leader",
		"conf changes (inside and outside batches): addV1(4), removeV1(3), removeV1(2)"}
	if !thorough {
		add(&Box{ID: "B13", Mode: "B", What: "multi-entry proposals (one MsgProp with a normal entry in front of / behind a conf change, two normal entries, two conf changes) with one entry per MsgApp: the batch is replicated, committed and applied entry by entry; a further conf change proposed while the batch's conf change is still unapplied must be neutralised",
			Cfg: batch4, Bud: Budget{MaxTerm: 2, Drops: 1, ConfChanges: 1, Batches: 1},
			Depth: 400, MaxDev: 1, Kinds: kinds(evCampaign, evConf, evBatch), Devs: kinds(evDrop, evConf, evBatch),
			CampaignAt: 1, ConfVariants: ccBatch, Restrictions: append(append([]string(nil), batchRestr...), "deviations: loss of any in-flight message, proposeConf / proposeBatch while messages are in flight"), Share: 5})
	} else {
		add(&Box{ID: "B13", Mode: "B", What: "multi-entry proposals (one MsgProp with a normal entry in front of / behind a conf change, two normal entries, two conf changes) with one entry per MsgApp: the batch is replicated, committed and applied entry by entry; up to two further conf changes and a single proposal, before, inside or after the window in which the batch's conf change is unapplied; loss and arbitrary delay of any message (the acknowledgements of the batch's entries included)",
			Cfg: batch4, Bud: Budget{MaxTerm: 2, Proposals: 1, Drops: 1, Delays: 1, ConfChanges: 2, Batches: 1},
			Depth: 400, MaxDev: 1, Kinds: kinds(evCampaign, evPropose, evConf, evBatch), Devs: kinds(evDrop, evDelay, evPropose, evConf, evBatch),
			CampaignAt: 1, ConfVariants: ccBatch, Restrictions: append(append([]string(nil), batchRestr...), "deviations: loss or delay (released at any later quiescent point) of any in-flight message, propose / proposeConf / proposeBatch while messages are in flight"), Share: 110})
		add(&Box{ID: "B13b", Mode: "B", What: "multi-entry proposals with a leader that applies asynchronously (one committed entry per Ready): the leader has applied the normal entry of a batch and holds the page with the conf change behind it while further conf changes are proposed - the window without any message loss",
			Cfg: batch4, Bud: Budget{MaxTerm: 2, Drops: 1, ConfChanges: 2, Batches: 1, Lags: 1, Applies: 3},
			Depth: 400, MaxDev: 1, Kinds: kinds(evCampaign, evConf, evBatch, evLag, evApply, evUnlag), Devs: kinds(evDrop, evConf, evApply),
			CampaignAt: 1, LagAt: 1, LeaderPropose: true, ConfVariants: ccBatch, BatchShapes: []uint16{bsNormalConf, bsConfNormal, bsNormalConfNormal, bsConfConf},
			Restrictions: []string{"one election, by node 1", "only node 1 (the leader) enters lag mode", "batches and conf changes at the leader", "batch shapes with a conf change only",
				"conf changes: addV1(4), removeV1(3), removeV1(2)", "deviations: loss of any in-flight message, proposeConf / apply(1) while messages are in flight"}, Share: 85})
		add(&Box{ID: "B13c", Mode: "B", What: "the whole story of two overlapping single-node removals, with crash / restart: batch [normal, remove 2|3] at the leader while node 3 is down, a second removal proposed in the window, two message losses (an acknowledgement, the commit notification), a write on the shrunk side, restart and campaign on the old side (term 3)",
			Cfg: batch3, Bud: Budget{MaxTerm: 3, Proposals: 1, Drops: 2, Crashes: 1, ConfChanges: 1, Batches: 1},
			Depth: 400, MaxDev: 2, Kinds: kinds(evCampaign, evPropose, evConf, evBatch, evCrash, evRestart), Devs: kinds(evDrop),
			LeaderPropose: true, CampaignBy: map[uint64][]int{0: {}, 1: {1}, 2: {2, 3}}, CrashAt: []int{3}, ConfVariants: ccRemove, BatchShapes: []uint16{bsNormalConf},
			Restrictions: []string{"first election (term 2) by node 1 only, second election (term 3) by nodes 2 and 3 only", "only node 3 crashes", "proposals, the batch and the conf change at the leader",
				"batch shape [normal, confChange]; conf changes: removeV1(3), removeV1(2)", "deviations: loss of any in-flight message (<= 2)"}, Share: 30})
		add(&Box{ID: "B13d", Mode: "B", What: "the same story with a network partition instead of a crash: a member is cut off (its traffic is lost) and the partition heals or moves at any quiescent point; two message losses",
			Cfg: batch3, Bud: Budget{MaxTerm: 3, Proposals: 1, Drops: 2, ConfChanges: 1, Batches: 1},
			Depth: 400, MaxDev: 2, Kinds: kinds(evCampaign, evPropose, evConf, evBatch, evIsolate), Devs: kinds(evDrop),
			LeaderPropose: true, CampaignBy: map[uint64][]int{0: {}, 1: {1}, 2: {2, 3}}, ConfVariants: ccRemove, BatchShapes: []uint16{bsNormalConf},
			Restrictions: []string{"first election (term 2) by node 1 only, second election (term 3) by nodes 2 and 3 only", "proposals, the batch and the conf change at the leader",
				"batch shape [normal, confChange]; conf changes: removeV1(3), removeV1(2)", "isolate(n) / heal() at quiescent points only", "deviations: loss of any in-flight message (<= 2)"}, Share: 250})
	}
	add(&Box{ID: "B4", Mode: "B", What: "membership changes: add node 4 as voter or as learner then promote, remove node 3 (also while it leads), joint consensus with automatic and explicit leave; two changes per run",
		Cfg: cfgPlain(3, true), Bud: Budget{MaxTerm: 3, Drops: 9, Dups: 9, ConfChanges: 2},
		Depth: 400, MaxDev: pick(1, 2), Kinds: kinds(evCampaign, evConf), Share: pick(10, 95)})
	if thorough {
		add(&Box{ID: "B4b", Mode: "B", What: "membership changes interleaved with a proposal",
			Cfg: cfgPlain(3, true), Bud: Budget{MaxTerm: 3, Proposals: 1, Drops: 9, Dups: 9, ConfChanges: 2},
			Depth: 400, MaxDev: 1, Kinds: kinds(evCampaign, evPropose, evConf), Share: 30})
		add(&Box{ID: "B4c", Mode: "B", What: "membership changes with a crash and restart (configuration rebuilt from snapshot + log)",
			Cfg: cfgPlain(3, true), Bud: Budget{MaxTerm: 3, Drops: 9, Dups: 9, ConfChanges: 2, Crashes: 1},
			Depth: 400, MaxDev: 1, Kinds: kinds(evCampaign, evConf, evCrash, evRestart), Share: 65})
		add(&Box{ID: "B5a", Mode: "B", What: "PreVote+CheckQuorum with crash/restart",
			Cfg: cfgPVCQ(3, false), Bud: Budget{MaxTerm: 3, Proposals: 1, Drops: 9, Dups: 9, Crashes: 1, Heartbeats: 2, Expires: 1},
			Depth: 400, MaxDev: 1, Kinds: kinds(evCampaign, evPropose, evHeartbeat, evCrash, evRestart, evExpire), Share: 50})
	}
	add(&Box{ID: "B5", Mode: "B", What: "PreVote+CheckQuorum deep runs: lease expiry, quorum-check step-down on leader ticks",
		Cfg: cfgPVCQ(3, false), Bud: Budget{MaxTerm: 3, Proposals: 1, Drops: 9, Dups: 9, Heartbeats: 2, Expires: 1},
		Depth: 400, MaxDev: pick(1, 2), Kinds: kinds(evCampaign, evPropose, evHeartbeat, evExpire), Share: pick(6, 35)})
	add(&Box{ID: "B6", Mode: "B", What: "leadership transfer (MsgTimeoutNow, forced campaign) interleaved with elections and a proposal",
		Cfg: all3, Bud: Budget{MaxTerm: 4, Proposals: 1, Drops: 9, Dups: 9, Transfers: 1},
		Depth: 400, MaxDev: pick(1, 2), Kinds: kinds(evCampaign, evPropose, evTransfer), Share: pick(5, 40)})
	if thorough {
		add(&Box{ID: "B7", Mode: "B", What: "one entry per MsgApp with two crashes: restarts from persisted state while entries of several terms are in the logs",
			Cfg: cfgOnePerMsg(3, false), Bud: Budget{MaxTerm: 4, Proposals: 1, Drops: 9, Crashes: 2},
			Depth: 400, MaxDev: 1, Kinds: kinds(evCampaign, evPropose, evCrash, evRestart), Devs: kinds(evDrop, evCrash, evDeliver), Share: 30})
		add(&Box{ID: "B8", Mode: "B", What: "five members",
			Cfg: cfgPlain(5, false), Bud: Budget{MaxTerm: 3, Proposals: 1, Drops: 9, Dups: 9},
			Depth: 400, MaxDev: 2, Kinds: kinds(evCampaign, evPropose), Share: 70})
	}
	// B1 runs last so that it inherits whatever time the cheaper boxes left
	add(&Box{ID: "B1", Mode: "B", What: "network partitions with one entry per MsgApp (MaxSizePerMsg=0): leaders cut off right after election or after appending, stale leaders, entries of earlier terms acknowledged separately from the leader's own (Figure-8 family)",
		Cfg: cfgOnePerMsg(3, false), Bud: Budget{MaxTerm: 4, Proposals: 1, Drops: pick(0, 9)},
		Depth: 400, MaxDev: pick(1, 2), Kinds: kinds(evCampaign, evPropose, evIsolate), Devs: kinds(evIsolate, evDrop), LeaderPropose: true,
		Share: pick(45, 180)})
	// B14: a byte budget that bites (MaxSizePerMsg = 40: a small entry is ~10 bytes, a long one
	// ~75) with entries of unequal size, and reads of the log that straddle the persisted and
	// the not yet persisted part (persist lag on the leader or on a follower): a size-limited
	// read must return a contiguous run (LogMatching, StateMachineSafety see a hole at once)
	small := cfgPlain(3, false)
	small.Name, small.MaxSizePerMsg, small.Unequal = "raftexample with MaxSizePerMsg=40 and proposals of unequal size", 40, true
	add(&Box{ID: "B14", Mode: "B", What: "size-limited log reads across the persisted / unpersisted boundary: MaxSizePerMsg=40, every second proposal 64 bytes longer, persist lag on any node, one lost message",
		Cfg: small, Bud: Budget{MaxTerm: 2, Proposals: 4, Drops: 1, Plags: 1, Persists: 3},
		Depth: 400, MaxDev: 3, Kinds: kinds(evCampaign, evPropose, evPLag, evPersist, evUnplag), Devs: kinds(evDrop, evPersist, evPLag, evPropose),
		LeaderPropose: true, CampaignAt: 1, CollectAll: true,
		Restrictions: []string{"one election, by node 1", "proposals at the leader only", "deviations: loss of any in-flight message, persist(n) / plag(n) / propose while messages are in flight"}, Share: 60})
	if tj := os.Getenv("RAFTMC_TRIAL"); tj != "" {
		// development aid: a box given as JSON, e.g.
		// {"mode":"B","cfg":"plain","members":3,"joiner":false,"budgets":{...},"max_deviations":1,"kinds":"CPHKRS"}
		var t struct {
			Mode    string           `json:"mode"`
			Cfg     string           `json:"cfg"`
			Members int              `json:"members"`
			Joiner  bool             `json:"joiner"`
			Joiners int              `json:"joiners"`
			LagAt   uint8            `json:"lag_at"`
			CampBy  map[uint64][]int `json:"campaign_by"`
			ConfVar []uint16         `json:"conf_variants"`
			BShapes []uint16         `json:"batch_shapes"`
			BConf   []uint16         `json:"batch_conf"`
			Share   int              `json:"share"`
			CampAt  uint8            `json:"campaign_at"`
			CrashAt []int            `json:"crash_at"`
			PlagE   bool             `json:"plag_empty"`
			Bud     Budget           `json:"budgets"`
			MaxDev  int              `json:"max_deviations"`
			Depth   int              `json:"max_depth"`
			Kinds   string           `json:"kinds"`
			Devs    string           `json:"devs"`
			LP      bool             `json:"leader_propose"`
		}
		if err := json.Unmarshal([]byte(tj), &t); err != nil {
			panic(err)
		}
		b := &Box{ID: "T", Mode: t.Mode, What: "trial", Bud: t.Bud, MaxDev: t.MaxDev, Depth: t.Depth, Share: 40}
		switch t.Cfg {
		case "pvcq":
			b.Cfg = cfgPVCQ(t.Members, t.Joiner)
		case "one":
			b.Cfg = cfgOnePerMsg(t.Members, t.Joiner)
		default:
			b.Cfg = cfgPlain(t.Members, t.Joiner)
		}
		if b.Depth == 0 {
			b.Depth = 400
		}
		for _, ch := range t.Kinds {
			for k := range evShort {
				if evShort[k] == string(ch) {
					b.Kinds |= 1 << uint(k)
				}
			}
		}
		for _, ch := range t.Devs {
			for k := range evShort {
				if evShort[k] == string(ch) {
					b.Devs |= 1 << uint(k)
				}
			}
		}
		b.LeaderPropose = t.LP
		if t.Joiners > 0 {
			b.Cfg = withJoiners(b.Cfg, t.Joiners)
		}
		b.LagAt, b.CampaignBy, b.ConfVariants, b.CampaignAt, b.CrashAt = t.LagAt, t.CampBy, t.ConfVar, t.CampAt, t.CrashAt
		b.PlagEmpty = t.PlagE
		b.BatchShapes, b.BatchConf = t.BShapes, t.BConf
		if t.Share > 0 {
			b.Share = t.Share
		}
		bs = append(bs, b)
	}
	for _, b := range bs {
		b.finish()
	}
	return bs
}
