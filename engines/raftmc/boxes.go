// boxes.go: the bounded spaces explored per tier. Every number here is part of the box
// definition and is copied into the evidence.
package main

import (
	"encoding/json"
	"os"
)

const mb = 1 << 20

// raftexample's configuration; ElectionTick is only raised so that ticks never start an
// election by themselves (elections are the explicit campaign event).
func cfgPlain(members int, joiner bool) Cfg {
	return Cfg{Name: "raftexample (no PreVote, no CheckQuorum)", ElectionTick: 1 << 30, MaxSizePerMsg: mb, Members: members, Joiner: joiner}
}

func cfgPVCQ(members int, joiner bool) Cfg {
	return Cfg{Name: "PreVote+CheckQuorum, ElectionTick 2", PreVote: true, CheckQuorum: true, ElectionTick: 2, MaxSizePerMsg: mb, Members: members, Joiner: joiner}
}

func cfgOnePerMsg(members int, joiner bool) Cfg {
	return Cfg{Name: "raftexample with MaxSizePerMsg=0 (one entry per MsgApp)", ElectionTick: 1 << 30, MaxSizePerMsg: 0, Members: members, Joiner: joiner}
}

func makeBoxes(tier string) []*Box {
	thorough := tier == "thorough"
	pick := func(q, t int) int {
		if thorough {
			return t
		}
		return q
	}
	core := kinds(evCampaign, evPropose, evHeartbeat, evCrash, evRestart, evCompact)
	var bs []*Box
	bs = append(bs, &Box{
		ID: "A1", Mode: "A", What: "every interleaving of up to two elections and one replication round with one message loss",
		Cfg:   cfgPlain(3, false),
		Bud:   Budget{MaxTerm: 3, Proposals: 1, Drops: 1},
		Depth: pick(9, 11), Kinds: kinds(evCampaign, evPropose), Share: pick(12, 30),
	})
	bs = append(bs, &Box{
		ID: "A2", Mode: "A", What: "same with PreVote+CheckQuorum: pre-vote rounds, leases, quorum checks on ticks",
		Cfg:   cfgPVCQ(3, false),
		Bud:   Budget{MaxTerm: 3, Proposals: 1, Drops: 1, Heartbeats: 2, Expires: 2},
		Depth: pick(8, 10), Kinds: kinds(evCampaign, evPropose, evHeartbeat, evExpire), Share: pick(10, 20),
	})
	bs = append(bs, &Box{
		ID: "B1", Mode: "B", What: "deep runs: elections, proposals, heartbeats, crash/restart, compaction + snapshot transfer",
		Cfg:   cfgPlain(3, false),
		Bud:   Budget{MaxTerm: uint64(pick(4, 5)), Proposals: pick(2, 3), Drops: 9, Dups: 9, Crashes: pick(1, 2), Heartbeats: pick(1, 2), Compacts: 1},
		Depth: 400, MaxDev: pick(1, 2), Kinds: core, Share: pick(20, 50),
	})
	bs = append(bs, &Box{
		ID: "B2", Mode: "B", What: "membership changes: add node 4 (voter / learner then promote), remove node 3, joint consensus with implicit and explicit leave, leadership transfer",
		Cfg:   cfgPlain(3, true),
		Bud:   Budget{MaxTerm: uint64(pick(3, 4)), Proposals: 1, Drops: 9, Dups: 9, Crashes: pick(0, 1), ConfChanges: 2, Transfers: 1, Compacts: 1},
		Depth: 400, MaxDev: pick(1, 2), Kinds: kinds(evCampaign, evPropose, evCrash, evRestart, evCompact, evConf, evTransfer), Share: pick(15, 40),
	})
	bs = append(bs, &Box{
		ID: "B3", Mode: "B", What: "one entry per MsgApp (MaxSizePerMsg=0): entries of earlier terms are acknowledged separately from the leader's own (Figure-8 family), many crashes",
		Cfg:   cfgOnePerMsg(3, false),
		Bud:   Budget{MaxTerm: 5, Proposals: 1, Drops: 9, Dups: 0, Crashes: pick(3, 5)},
		Depth: 400, MaxDev: pick(1, 2), Kinds: kinds(evCampaign, evPropose, evCrash, evRestart), Share: pick(15, 50),
	})
	bs = append(bs, &Box{
		ID: "B4", Mode: "B", What: "PreVote+CheckQuorum deep runs: lease expiry, quorum-check step-down, crash/restart",
		Cfg:   cfgPVCQ(3, false),
		Bud:   Budget{MaxTerm: 4, Proposals: pick(1, 2), Drops: 9, Dups: 9, Crashes: 1, Heartbeats: pick(2, 3), Expires: pick(2, 3)},
		Depth: 400, MaxDev: pick(1, 2), Kinds: kinds(evCampaign, evPropose, evHeartbeat, evCrash, evRestart, evExpire), Share: pick(10, 30),
	})
	if thorough {
		bs = append(bs, &Box{
			ID: "B5", Mode: "B", What: "five members",
			Cfg:   cfgPlain(5, false),
			Bud:   Budget{MaxTerm: 4, Proposals: 1, Drops: 9, Dups: 9, Crashes: 2, Heartbeats: 1},
			Depth: 400, MaxDev: 2, Kinds: kinds(evCampaign, evPropose, evHeartbeat, evCrash, evRestart), Share: 40,
		})
	}
	if tj := os.Getenv("RAFTMC_TRIAL"); tj != "" {
		// development aid: a box given as JSON, e.g.
		// {"mode":"B","cfg":"plain","members":3,"joiner":false,"budgets":{...},"max_deviations":1,"kinds":"CPHKRS"}
		var t struct {
			Mode    string `json:"mode"`
			Cfg     string `json:"cfg"`
			Members int    `json:"members"`
			Joiner  bool   `json:"joiner"`
			Bud     Budget `json:"budgets"`
			MaxDev  int    `json:"max_deviations"`
			Depth   int    `json:"max_depth"`
			Kinds   string `json:"kinds"`
			Devs    string `json:"devs"`
			LP      bool   `json:"leader_propose"`
		}
		if err := json.Unmarshal([]byte(tj), &t); err != nil {
			panic(err)
		}
		b := &Box{ID: "T", Mode: t.Mode, What: "trial", Bud: t.Bud, MaxDev: t.MaxDev, Depth: t.Depth, Share: 40}
		switch t.Cfg {
		case "pvcq":
			b.Cfg = cfgPVCQ(t.Members, t.Joiner)
		case "one":
			b.Cfg = cfgOnePerMsg(t.Members, t.Joiner)
		default:
			b.Cfg = cfgPlain(t.Members, t.Joiner)
		}
		if b.Depth == 0 {
			b.Depth = 400
		}
		for _, ch := range t.Kinds {
			for k := range evShort {
				if evShort[k] == string(ch) {
					b.Kinds |= 1 << uint(k)
				}
			}
		}
		for _, ch := range t.Devs {
			for k := range evShort {
				if evShort[k] == string(ch) {
					b.Devs |= 1 << uint(k)
				}
			}
		}
		b.LeaderPropose = t.LP
		bs = append(bs, b)
	}
	for _, b := range bs {
		b.finish()
	}
	return bs
}
