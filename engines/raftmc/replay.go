// replay.go: straight-line re-execution of an event path (no search loop) — used to confirm
// a counterexample before it is reported, to render sample paths, and by `raftmc replay`.
package main

import (
	"encoding/json"
	"fmt"
	"os"
	"strings"
)

type replayDoc struct {
	Engine   string   `json:"engine"`
	Box      string   `json:"box"`
	Cfg      Cfg      `json:"config"`
	Bud      Budget   `json:"budgets"`
	Fifo     bool     `json:"fifo_pool"`
	Path     []Event  `json:"path"`
	Events   []string `json:"events"` // human readable, one line per step
	Kind     string   `json:"kind"`
	Expected string   `json:"expected"`
	Observed string   `json:"observed"`
	Final    string   `json:"final_state"`
	Note     string   `json:"note,omitempty"`
}

type pathRun struct {
	lines   []string
	kinds   []string // violation kinds raised by the last executed step
	details []string
	failAt  int // step index of the first violation, -1 if none
	final   string
	err     string
	hash    uint64
}

// runPath executes the path on fresh nodes, one event after the other.
func runPath(cfg *Cfg, bud *Budget, fifo bool, path []Event) pathRun {
	r := pathRun{failAt: -1}
	// no memo: every input goes to the one RawNode of its member, created at boot
	c := newCluster(newSim(false), cfg, bud, fifo)
	for i, e := range path {
		desc := c.describe(e)
		d := c.step(e)
		if d == nil {
			r.err = fmt.Sprintf("step %d: %s is not enabled", i, desc)
			r.lines = append(r.lines, fmt.Sprintf("%2d  %s   !! not enabled", i+1, desc))
			break
		}
		c = d
		r.lines = append(r.lines, fmt.Sprintf("%2d  %s", i+1, desc))
		if len(c.viol) > 0 {
			r.failAt = i
			for _, v := range c.viol {
				r.kinds = append(r.kinds, v.Kind)
				r.details = append(r.details, v.Detail)
			}
			break
		}
	}
	r.final = c.summary()
	r.hash, _ = c.key()
	return r
}

func renderPath(cfg *Cfg, bud *Budget, fifo bool, path []Event) ([]string, string) {
	r := runPath(cfg, bud, fifo, path)
	return r.lines, r.final
}

func hasKind(r *pathRun, kind string, at int) bool {
	if r.failAt != at {
		return false
	}
	for _, k := range r.kinds {
		if k == kind {
			return true
		}
	}
	return false
}

// confirm re-runs the counterexample n times and requires the same violation at the same
// step every time.
func confirm(f *found, n int) (bool, pathRun) {
	var first pathRun
	for i := 0; i < n; i++ {
		r := runPath(&f.box.Cfg, f.bud, f.box.Mode == "B", f.path)
		if !hasKind(&r, f.kind, len(f.path)-1) {
			return false, r
		}
		if i == 0 {
			first = r
		} else if strings.Join(r.lines, "\n") != strings.Join(first.lines, "\n") || strings.Join(r.details, "\n") != strings.Join(first.details, "\n") {
			return false, r
		}
	}
	return true, first
}

func mkReplay(f *found, r pathRun) replayDoc {
	return replayDoc{Engine: "raftmc", Box: f.box.ID, Cfg: f.box.Cfg, Bud: *f.bud, Note: f.note, Fifo: f.box.Mode == "B", Path: f.path, Events: r.lines,
		Kind: f.kind, Expected: "invariant " + f.kind + " holds after every event", Observed: strings.Join(r.details, "\n"), Final: r.final}
}

func replayFile(path string) int {
	b, err := os.ReadFile(path)
	if err != nil {
		fmt.Fprintln(os.Stderr, err)
		return 2
	}
	var v struct {
		Kind   string    `json:"kind"`
		Detail string    `json:"detail"`
		Replay replayDoc `json:"replay"`
	}
	if err := json.Unmarshal(b, &v); err != nil {
		fmt.Fprintln(os.Stderr, err)
		return 2
	}
	d := v.Replay
	if len(d.Path) == 0 {
		fmt.Fprintln(os.Stderr, "raftmc: replay file has no path")
		return 2
	}
	fmt.Printf("replaying %d events, box %s, config %+v\nexpecting violation of %s at the last step\n", len(d.Path), d.Box, d.Cfg, v.Kind)
	repro := 0
	for round := 1; round <= 2; round++ {
		r := runPath(&d.Cfg, &d.Bud, d.Fifo, d.Path)
		fmt.Printf("--- round %d\n", round)
		for _, l := range r.lines {
			fmt.Println(l)
		}
		if r.err != "" {
			fmt.Println("   replay error:", r.err)
		}
		for i := range r.kinds {
			fmt.Printf("   -> %s: %s\n", r.kinds[i], r.details[i])
		}
		fmt.Println(r.final)
		if hasKind(&r, v.Kind, len(d.Path)-1) {
			repro++
			fmt.Printf("round %d: violation reproduced\n", round)
		} else {
			fmt.Printf("round %d: violation NOT reproduced\n", round)
		}
	}
	fmt.Printf("reproduced %d/2\n", repro)
	if repro == 2 {
		return 1
	}
	return 0
}
