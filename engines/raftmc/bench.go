package main

import (
	"encoding/json"
	"fmt"
	"os"
	"runtime/pprof"
	"strings"
	"time"

	pb "go.etcd.io/etcd/raft/v3/raftpb"
)

// selfBench: single-process search of a box with a CPU profile (development aid).
// For mode A `limit` is the depth, for mode B the number of seconds.
func selfBench(boxID string, limit int, prof string) {
	var box *Box
	for _, b := range boxesFor("quick") {
		if b.ID == boxID {
			box = b
		}
	}
	if box == nil {
		fmt.Println("no such box")
		return
	}
	if prof != "" {
		f, _ := os.Create(prof)
		pprof.StartCPUProfile(f)
		defer pprof.StopCPUProfile()
	}
	type st struct {
		path []Event
		hash uint64
		dev  uint8
	}
	seen := map[uint64]uint8{}
	sm := newSim(true)
	defer func() {
		fmt.Printf("sim: execs=%d hits=%d thaws=%d thawFeeds=%d\n", sm.Execs, sm.Hits, sm.Thaws, sm.ThawFeeds)
	}()
	t0 := time.Now()
	trans := 0
	if box.Mode == "A" {
		frontier := []st{{}}
		for d := 0; d < limit; d++ {
			var next []st
			for _, s := range frontier {
				x := &expander{box: box, sim: sm, deadline: time.Now().Add(time.Hour), abort: "/nonexistent", validateEvery: 64}
				ts := taskState{path: s.path, hash: s.hash}
				r := x.expand(&ts, -1, func() {})
				trans += int(r.trans)
				for _, sc := range x.recs {
					if _, ok := seen[sc.hash]; !ok {
						seen[sc.hash] = 0
						next = append(next, st{append(append([]Event(nil), s.path...), sc.ev), sc.hash, 0})
					}
				}
			}
			frontier = next
			fmt.Printf("depth %d: %d states, %d transitions, %.1fs, %.0f trans/s\n", d+1, len(next), trans, time.Since(t0).Seconds(), float64(trans)/time.Since(t0).Seconds())
		}
		return
	}
	layer := []st{{}}
	for d := 0; d <= box.MaxDev; d++ {
		queue := layer
		var next []st
		n := 0
		for len(queue) > 0 && time.Since(t0) < time.Duration(limit)*time.Second {
			s := queue[0]
			queue = queue[1:]
			if seen[s.hash] != s.dev && len(s.path) > 0 {
				continue
			}
			n++
			x := &expander{box: box, sim: sm, deadline: time.Now().Add(time.Hour), abort: "/nonexistent", validateEvery: 64}
			ts := taskState{path: s.path, hash: s.hash, dev: s.dev}
			r := x.expand(&ts, -1, func() {})
			trans += int(r.trans)
			paths := make([][]Event, len(x.recs))
			deadr := make([]bool, len(x.recs))
			for i, rc := range x.recs {
				base := s.path
				if rc.parent >= 0 {
					if deadr[rc.parent] {
						deadr[i] = true
						continue
					}
					base = paths[rc.parent]
				}
				nd := s.dev + rc.cost
				if old, ok := seen[rc.hash]; ok && old <= nd {
					deadr[i] = true
					continue
				}
				seen[rc.hash] = nd
				paths[i] = append(append([]Event(nil), base...), rc.ev)
				if rc.expanded {
					n++
					continue
				}
				if rc.cost == 0 {
					queue = append(queue, st{paths[i], rc.hash, nd})
				} else if int(nd) <= box.MaxDev {
					next = append(next, st{paths[i], rc.hash, nd})
				}
			}
		}
		fmt.Printf("dev %d: %d states in layer, %d seen, %d transitions, %.1fs, %.0f trans/s\n", d, n, len(seen), trans, time.Since(t0).Seconds(), float64(trans)/time.Since(t0).Seconds())
		layer = next
	}
}

// scenario runs a hand-written schedule (development aid):
//
//	C<n> campaign  P<n> propose  I<n> isolate (I0 heal)  K<n> crash  R<n> restart  H<n> heartbeat
//	S<n> compact (snapshot at applied + discard the log up to it)
//	D deliver oldest   X drop oldest   Q deliver oldest until the pool is empty
//	Y delay oldest   V duplicate the oldest MsgSnap (else the oldest message), the copy is delayed
//	Z release the oldest delayed message
//	L<n> lag   A<n> apply the held page   N<n> unlag   F<n><v> proposeConf at n, variant v (index into ccNames)
//	G<n> plag (persist lag)   B<n> persist the held Ready   M<n> unplag
//	O<n><s><v> proposeBatch at n: one MsgProp with several entries, shape s (index into bsNames), conf change v
//	X<k> / D<k> with a digit: drop / deliver the k-th pooled message (0 = oldest)
//	W print the state   J print the path executed so far as JSON (for a replay file)
//
// The configuration name may carry a joiner count: "one+2" = one entry per message, 3 members
// and 2 joiners.
func scenario(cfgName string, toks []string) {
	joiners := 0
	if i := strings.IndexByte(cfgName, '+'); i >= 0 {
		fmt.Sscan(cfgName[i+1:], &joiners)
		cfgName = cfgName[:i]
	}
	cfg := cfgPlain(3, joiners > 0)
	switch cfgName {
	case "one":
		cfg = cfgOnePerMsg(3, joiners > 0)
	case "pvcq":
		cfg = cfgPVCQ(3, joiners > 0)
	}
	if joiners > 1 {
		cfg.Joiners = joiners
	}
	bud := Budget{MaxTerm: 9, Proposals: 9, Drops: 99, Dups: 9, Crashes: 9, Heartbeats: 9, Compacts: 9, Expires: 9, Delays: 9, ConfChanges: 9, Lags: 9, Applies: 99, Plags: 9, Persists: 99, Batches: 9}
	var done []Event
	c := newCluster(newSim(false), &cfg, &bud, true)
	step := func(e Event) bool {
		desc := c.describe(e)
		d := c.step(e)
		if d == nil {
			fmt.Println("   not enabled:", desc)
			return false
		}
		c = d
		done = append(done, e)
		fmt.Println("  ", desc)
		for _, v := range c.viol {
			fmt.Println("      VIOLATION", v.Kind, v.Detail)
		}
		if id, idx := c.electableWithoutCommitted(); id != 0 {
			fmt.Printf("      look-ahead: node %d electable without committed entry %d\n", id, idx)
		}
		return true
	}
	for _, t := range toks {
		var n uint8
		if len(t) > 1 {
			n = t[1] - '0'
		}
		switch t[0] {
		case 'C':
			step(Event{K: evCampaign, N: n})
		case 'P':
			step(Event{K: evPropose, N: n})
		case 'I':
			step(Event{K: evIsolate, N: n})
		case 'K':
			step(Event{K: evCrash, N: n})
		case 'R':
			step(Event{K: evRestart, N: n})
		case 'H':
			step(Event{K: evHeartbeat, N: n})
		case 'S':
			step(Event{K: evCompact, N: n})
		case 'Y':
			if len(c.pool) > 0 {
				step(Event{K: evDelay, A: c.pool[0].seq})
			}
		case 'V':
			if len(c.pool) > 0 {
				seq := c.pool[0].seq
				for _, p := range c.pool {
					if p.m.Type == pb.MsgSnap {
						seq = p.seq
						break
					}
				}
				step(Event{K: evDupDelay, A: seq})
			}
		case 'Z':
			if len(c.held) > 0 {
				step(Event{K: evRelease, A: c.held[0].seq})
			}
		case 'D':
			if len(c.pool) > int(n) {
				step(Event{K: evDeliver, A: c.pool[n].seq})
			}
		case 'X':
			if len(c.pool) > int(n) {
				step(Event{K: evDrop, A: c.pool[n].seq})
			}
		case 'L':
			step(Event{K: evLag, N: n})
		case 'A':
			step(Event{K: evApply, N: n})
		case 'N':
			step(Event{K: evUnlag, N: n})
		case 'G':
			step(Event{K: evPLag, N: n})
		case 'B':
			step(Event{K: evPersist, N: n})
		case 'M':
			step(Event{K: evUnplag, N: n})
		case 'F':
			step(Event{K: evConf, N: n, A: uint16(t[2] - '0')})
		case 'O':
			v := uint16(0)
			if len(t) > 3 {
				v = uint16(t[3] - '0')
			}
			step(Event{K: evBatch, N: n, A: uint16(t[2]-'0')<<8 | v})
		case 'W':
			fmt.Println(c.summary())
		case 'J':
			jb, _ := json.Marshal(done)
			fmt.Println(string(jb))
		case 'Q':
			for i := 0; len(c.pool) > 0 && i < 100; i++ {
				step(Event{K: evDeliver, A: c.pool[0].seq})
			}
			fmt.Println(c.summary())
		}
	}
	fmt.Println(c.summary())
}
