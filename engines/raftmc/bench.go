package main

import (
	"fmt"
	"os"
	"runtime/pprof"
	"time"
)

// selfBench: single-process search of a box with a CPU profile (development aid).
// For mode A `limit` is the depth, for mode B the number of seconds.
func selfBench(boxID string, limit int, prof string) {
	var box *Box
	for _, b := range boxesFor("quick") {
		if b.ID == boxID {
			box = b
		}
	}
	if box == nil {
		fmt.Println("no such box")
		return
	}
	if prof != "" {
		f, _ := os.Create(prof)
		pprof.StartCPUProfile(f)
		defer pprof.StopCPUProfile()
	}
	type st struct {
		path []Event
		hash uint64
		dev  uint8
	}
	seen := map[uint64]uint8{}
	sm := newSim(true)
	defer func() {
		fmt.Printf("sim: execs=%d hits=%d thaws=%d thawFeeds=%d\n", sm.Execs, sm.Hits, sm.Thaws, sm.ThawFeeds)
	}()
	t0 := time.Now()
	trans := 0
	if box.Mode == "A" {
		frontier := []st{{}}
		for d := 0; d < limit; d++ {
			var next []st
			for _, s := range frontier {
				x := &expander{box: box, sim: sm, deadline: time.Now().Add(time.Hour), abort: "/nonexistent", validateEvery: 64}
				ts := taskState{path: s.path, hash: s.hash}
				r := x.expand(&ts, -1, func() {})
				trans += int(r.trans)
				for _, sc := range x.recs {
					if _, ok := seen[sc.hash]; !ok {
						seen[sc.hash] = 0
						next = append(next, st{append(append([]Event(nil), s.path...), sc.ev), sc.hash, 0})
					}
				}
			}
			frontier = next
			fmt.Printf("depth %d: %d states, %d transitions, %.1fs, %.0f trans/s\n", d+1, len(next), trans, time.Since(t0).Seconds(), float64(trans)/time.Since(t0).Seconds())
		}
		return
	}
	layer := []st{{}}
	for d := 0; d <= box.MaxDev; d++ {
		queue := layer
		var next []st
		n := 0
		for len(queue) > 0 && time.Since(t0) < time.Duration(limit)*time.Second {
			s := queue[0]
			queue = queue[1:]
			if seen[s.hash] != s.dev && len(s.path) > 0 {
				continue
			}
			n++
			x := &expander{box: box, sim: sm, deadline: time.Now().Add(time.Hour), abort: "/nonexistent", validateEvery: 64}
			ts := taskState{path: s.path, hash: s.hash, dev: s.dev}
			r := x.expand(&ts, -1, func() {})
			trans += int(r.trans)
			paths := make([][]Event, len(x.recs))
			deadr := make([]bool, len(x.recs))
			for i, rc := range x.recs {
				base := s.path
				if rc.parent >= 0 {
					if deadr[rc.parent] {
						deadr[i] = true
						continue
					}
					base = paths[rc.parent]
				}
				nd := s.dev + rc.cost
				if old, ok := seen[rc.hash]; ok && old <= nd {
					deadr[i] = true
					continue
				}
				seen[rc.hash] = nd
				paths[i] = append(append([]Event(nil), base...), rc.ev)
				if rc.expanded {
					n++
					continue
				}
				if rc.cost == 0 {
					queue = append(queue, st{paths[i], rc.hash, nd})
				} else if int(nd) <= box.MaxDev {
					next = append(next, st{paths[i], rc.hash, nd})
				}
			}
		}
		fmt.Printf("dev %d: %d states in layer, %d seen, %d transitions, %.1fs, %.0f trans/s\n", d, n, len(seen), trans, time.Since(t0).Seconds(), float64(trans)/time.Since(t0).Seconds())
		layer = next
	}
}
