package main

import (
	"fmt"
	"os"
	"runtime/pprof"
	"time"
)

// selfBench: single-process BFS of a box to a small depth with a CPU profile (development aid).
func selfBench(boxID string, depth int, prof string) {
	var box *Box
	for _, b := range boxesFor("quick") {
		if b.ID == boxID {
			box = b
		}
	}
	if box == nil {
		fmt.Println("no such box")
		return
	}
	if prof != "" {
		f, _ := os.Create(prof)
		pprof.StartCPUProfile(f)
		defer pprof.StopCPUProfile()
	}
	type st struct {
		path []Event
		hash uint64
	}
	seen := map[uint64]bool{}
	frontier := []st{{}}
	t0 := time.Now()
	trans := 0
	for d := 0; d < depth; d++ {
		var next []st
		for _, s := range frontier {
			var viols []workerViol
			ts := taskState{path: s.path, hash: s.hash}
			r := expand(box, &ts, &viols)
			trans += int(r.trans)
			for _, sc := range r.succs {
				if !seen[sc.hash] {
					seen[sc.hash] = true
					next = append(next, st{append(append([]Event(nil), s.path...), sc.ev), sc.hash})
				}
			}
		}
		frontier = next
		fmt.Printf("depth %d: %d states, %d transitions, %.1fs, %.0f trans/s\n", d+1, len(next), trans, time.Since(t0).Seconds(), float64(trans)/time.Since(t0).Seconds())
	}
}
