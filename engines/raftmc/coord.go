// coord.go: the coordinator. Owns the visited set (64-bit state hashes), the path tree and
// the frontier; shards expansion work over worker subprocesses (verif/pool).
package main

import (
	"fmt"
	"os"
	"runtime"
	"sort"
	"strconv"
	"strings"
	"time"

	"verif/ev"
	"verif/pool"
)

type stateRec struct {
	parent uint32
	ev     Event
	hash   uint64
	depth  uint16
}

type boxStats struct {
	Box            *Box           `json:"box"`
	States         int            `json:"states"`
	Transitions    int            `json:"transitions"`
	MaxDepth       int            `json:"max_depth_reached"`
	CompletedDepth int            `json:"completed_depth"`      // A: every path of this length was executed
	CompletedDev   int            `json:"completed_deviations"` // B: closure under <= this many deviations is complete (-1: none)
	Complete       bool           `json:"complete"`
	StatesPerLevel []int          `json:"states_per_level,omitempty"`
	StatesPerDev   []int          `json:"states_per_deviation_layer,omitempty"`
	Poisoned       int            `json:"violating_transitions"`
	FlagTrans      map[string]int `json:"transitions_with"`
	FlagStates     map[string]int `json:"states_first_reached_with"`
	EventCounts    map[string]int `json:"transitions_by_event"`
	BatchShapes    map[string]int `json:"proposeBatch_transitions_by_shape,omitempty"`
	Sim            simStats       `json:"library_executions"`
	MaxBacklog     int            `json:"max_apply_backlog_committed_minus_applied"`
	CampBacklog    int            `json:"campaigns_executed_with_committed_conf_changes_unapplied"`
	CampRefused    int            `json:"campaigns_executed_and_refused_because_of_unapplied_conf_changes"`
	WallS          float64        `json:"wall_s"`
	Stopped        string         `json:"stopped,omitempty"`
}

type found struct {
	box  *Box
	bud  *Budget // budgets the path runs under (the box's, or relaxed ones for a completion suffix)
	path []Event
	kind string
	det  string
	fn   string
	note string
}

type coord struct {
	tier     string
	boxes    []*Box
	pool     *pool.Pool
	rep      *ev.Report
	stats    []*boxStats
	samples  []interface{}
	found    map[string]*found // best counterexample per box+kind
	order    []string
	internal []string // harness errors (replay mismatch, worker crash)
	nviol    int
}

func nWorkers() int {
	if s := os.Getenv("VERIF_WORKERS"); s != "" {
		if n, err := strconv.Atoi(s); err == nil && n > 0 {
			return n
		}
	}
	n := runtime.NumCPU()
	if n > 16 {
		n = 16
	}
	return n
}

func pathOf(tree []stateRec, id uint32) []Event {
	n := int(tree[id].depth)
	p := make([]Event, n)
	for i := n - 1; i >= 0; i-- {
		p[i] = tree[id].ev
		id = tree[id].parent
	}
	return p
}

func lessPath(a, b []Event) bool {
	if len(a) != len(b) {
		return len(a) < len(b)
	}
	for i := range a {
		if a[i] != b[i] {
			if a[i].K != b[i].K {
				return a[i].K < b[i].K
			}
			if a[i].N != b[i].N {
				return a[i].N < b[i].N
			}
			return a[i].A < b[i].A
		}
	}
	return false
}

func (co *coord) noteViol(box *Box, v workerViol) {
	co.nviol++
	cmd := evNames[v.Path[len(v.Path)-1].K]
	k := box.ID + "|" + v.Kind + "|" + cmd
	f, ok := co.found[k]
	bud := &box.Bud
	if v.Bud != nil {
		bud = v.Bud
	}
	if !ok {
		co.found[k] = &found{box: box, bud: bud, path: v.Path, kind: v.Kind, det: v.Detail, fn: v.Func, note: v.Note}
		co.order = append(co.order, k)
		return
	}
	if lessPath(v.Path, f.path) {
		f.path, f.det, f.fn, f.bud, f.note = v.Path, v.Detail, v.Func, bud, v.Note
	}
}

// runBox explores one box until it is complete or `deadline` passes.
func (co *coord) runBox(bi int, deadline time.Time) *boxStats {
	box := co.boxes[bi]
	st := &boxStats{Box: box, CompletedDev: -1, FlagTrans: map[string]int{}, FlagStates: map[string]int{}, EventCounts: map[string]int{}}
	start := time.Now()
	defer func() { st.WallS = time.Since(start).Seconds() }()

	root := newCluster(newSim(false), &box.Cfg, &box.Bud, box.Mode == "B")
	h0, _ := root.key()
	tree := []stateRec{{hash: h0}}
	seen := map[uint64]uint8{h0: 0}
	firstWith := map[int]uint32{} // flag bit -> first state id
	deepest := uint32(0)
	aborted := false
	violated := false
	timedOut := false

	// addState appends a tree node; the caller has already decided it is new (or cheaper).
	addState := func(parent uint32, rc *rec) uint32 {
		id := uint32(len(tree))
		d := tree[parent].depth + 1
		tree = append(tree, stateRec{parent: parent, ev: rc.ev, hash: rc.hash, depth: d})
		st.States++
		if int(d) > st.MaxDepth {
			st.MaxDepth = int(d)
			deepest = id
		}
		for b := 0; b < fFlags; b++ {
			if rc.flags&(1<<b) != 0 {
				st.FlagStates[flagNames[b]]++
				if _, ok := firstWith[b]; !ok {
					firstWith[b] = id
				}
			}
		}
		return id
	}
	mkTasks := func(ids []uint32, dev uint8, batch int) [][]byte {
		var tasks [][]byte
		for i := 0; i < len(ids); i += batch {
			j := i + batch
			if j > len(ids) {
				j = len(ids)
			}
			sts := make([]taskState, 0, j-i)
			for _, id := range ids[i:j] {
				sts = append(sts, taskState{id: id, dev: dev, hash: tree[id].hash, path: pathOf(tree, id)})
			}
			tasks = append(tasks, encodeTask(bi, co.tier, deadline, sts))
		}
		return tasks
	}
	const dead = ^uint32(0)
	// handle processes one worker result. admit decides for a transition (record) whether its
	// target is a new state; it returns the tree id or `dead`.
	handle := func(out []byte, crash *pool.Crash, dev uint8, admit func(parent uint32, rc *rec, nd uint8) uint32, leaf func(id uint32, rc *rec, nd uint8)) {
		if crash != nil {
			co.internal = append(co.internal, fmt.Sprintf("box %s: worker %s: %s", box.ID, crash.Kind, firstLine(crash.Detail)))
			aborted = true
			os.WriteFile(abortFile(), nil, 0o644)
			return
		}
		res, recs, viols, ss := decodeResult(out)
		st.Sim.Execs += ss.Execs
		st.Sim.Hits += ss.Hits
		st.Sim.Thaws += ss.Thaws
		st.Sim.ThawFeeds += ss.ThawFeeds
		st.Sim.Validated += ss.Validated
		st.Sim.Lookahead += ss.Lookahead
		st.CampBacklog += ss.CampBacklog
		st.CampRefused += ss.CampRefused
		for _, v := range viols {
			co.noteViol(box, v)
			st.Poisoned++
		}
		if len(viols) > 0 && !aborted {
			if box.Mode == "A" || box.CollectAll {
				// finish the level so that the reported counterexample is the smallest of
				// its length (deterministic across runs); the search stops after the level.
				// Box B with CollectAll: finish the deviation layer (violating transitions
				// are not expanded), so that every violated invariant is reported with its
				// shortest run, not only the one a worker happened to reach first
				violated = true
			} else {
				aborted = true
				os.WriteFile(abortFile(), nil, 0o644)
			}
		}
		for i := range res {
			switch res[i].status {
			case stSkipped:
				if !aborted {
					timedOut = true
				}
			case stMismatch:
				co.internal = append(co.internal, fmt.Sprintf("box %s: replay of state %d did not reproduce its recorded hash", box.ID, res[i].id))
				aborted = true
				os.WriteFile(abortFile(), nil, 0o644)
			}
			st.Transitions += int(res[i].trans)
		}
		ids := make([]uint32, len(recs))
		devs := make([]uint8, len(recs))
		for i := range recs {
			rc := &recs[i]
			st.EventCounts[evNames[rc.ev.K]]++
			if rc.ev.K == evBatch && rc.ev.A>>8 < bsShapes {
				if st.BatchShapes == nil {
					st.BatchShapes = map[string]int{}
				}
				st.BatchShapes[bsNames[rc.ev.A>>8]]++
			}
			if int(rc.backlog) > st.MaxBacklog {
				st.MaxBacklog = int(rc.backlog)
			}
			for b := 0; b < fFlags; b++ {
				if rc.flags&(1<<b) != 0 {
					st.FlagTrans[flagNames[b]]++
				}
			}
			var parent uint32
			pd := dev
			if rc.parent < 0 {
				parent = res[-(rc.parent + 1)].id
			} else {
				parent = ids[rc.parent]
				pd = devs[rc.parent]
			}
			if parent == dead {
				ids[i] = dead
				continue
			}
			nd := pd + rc.cost
			devs[i] = nd
			ids[i] = admit(parent, rc, nd)
			if ids[i] != dead && !rc.expanded {
				leaf(ids[i], rc, nd)
			}
		}
	}

	st.States = 1
	// One pool.Map call per box: the worker processes (and their memos) live for the whole
	// box; level / layer discipline is enforced here by counting outstanding tasks.
	pending := 0
	emit := func(ts [][]byte) [][]byte { pending += len(ts); return ts }
	if box.Mode == "A" {
		level := 0
		frontier := []uint32{0}
		var next []uint32
		st.StatesPerLevel = append(st.StatesPerLevel, 1)
		startLevel := func() [][]byte {
			batch := 32
			if len(frontier) < 32*32 {
				batch = len(frontier)/32 + 1
			}
			return emit(mkTasks(frontier, 0, batch))
		}
		// Deterministic tree: a state reached by several transitions of one level keeps the
		// smallest (rank of parent, event); ranks are assigned when the level is complete.
		// The reported counterexample therefore does not depend on worker timing.
		rank := map[uint32]uint32{0: 0}
		cur := map[uint64]uint32{}
		lessEv := func(a, b Event) bool {
			if a.K != b.K {
				return a.K < b.K
			}
			if a.N != b.N {
				return a.N < b.N
			}
			return a.A < b.A
		}
		better := func(p1 uint32, e1 Event, p2 uint32, e2 Event) bool {
			if rank[p1] != rank[p2] {
				return rank[p1] < rank[p2]
			}
			return lessEv(e1, e2)
		}
		co.pool.Map(startLevel(), func(_ []byte, out []byte, crash *pool.Crash) [][]byte {
			pending--
			handle(out, crash, 0, func(parent uint32, rc *rec, nd uint8) uint32 {
				if _, ok := seen[rc.hash]; ok {
					if id, here := cur[rc.hash]; here && better(parent, rc.ev, tree[id].parent, tree[id].ev) {
						tree[id].parent, tree[id].ev = parent, rc.ev
					}
					return dead
				}
				seen[rc.hash] = 0
				id := addState(parent, rc)
				cur[rc.hash] = id
				return id
			}, func(id uint32, rc *rec, nd uint8) { next = append(next, id) })
			if aborted || timedOut || pending > 0 {
				return nil
			}
			if violated {
				aborted = true
				return nil
			}
			level++
			st.CompletedDepth = level
			st.StatesPerLevel = append(st.StatesPerLevel, len(next))
			sort.Slice(next, func(i, j int) bool {
				a, b := next[i], next[j]
				return better(tree[a].parent, tree[a].ev, tree[b].parent, tree[b].ev)
			})
			nrank := make(map[uint32]uint32, len(next))
			for i, id := range next {
				nrank[id] = uint32(i)
			}
			rank = nrank
			cur = map[uint64]uint32{}
			frontier, next = next, nil
			if len(frontier) == 0 {
				st.Complete = true // the whole reachable space inside the budgets is closed
				return nil
			}
			if level >= box.Depth {
				return nil
			}
			return startLevel()
		})
		if st.CompletedDepth == box.Depth {
			st.Complete = true
		}
	} else {
		d := 0
		layer := []uint32{0}
		var nextLayer []uint32
		inLayer := 0
		startLayer := func() [][]byte {
			// drop seeds that a cheaper path has reached in the meantime
			live := layer[:0]
			for _, id := range layer {
				if seen[tree[id].hash] == uint8(d) {
					live = append(live, id)
				}
			}
			inLayer = len(live)
			return emit(mkTasks(live, uint8(d), 4))
		}
		co.pool.Map(startLayer(), func(_ []byte, out []byte, crash *pool.Crash) [][]byte {
			pending--
			var more []uint32
			handle(out, crash, uint8(d), func(parent uint32, rc *rec, nd uint8) uint32 {
				if old, ok := seen[rc.hash]; ok {
					if old <= nd {
						return dead
					}
					st.States-- // reached again with fewer deviations: same state, re-expanded
				}
				seen[rc.hash] = nd
				if nd == uint8(d) {
					inLayer++
				}
				return addState(parent, rc)
			}, func(id uint32, rc *rec, nd uint8) {
				if nd == uint8(d) {
					more = append(more, id)
				} else if int(nd) <= box.MaxDev {
					nextLayer = append(nextLayer, id)
				}
			})
			if aborted || timedOut {
				return nil
			}
			var tasks [][]byte
			if len(more) > 0 {
				tasks = emit(mkTasks(more, uint8(d), 4))
			}
			for pending == 0 {
				if violated {
					aborted = true
					break
				}
				// layer d is closed under free continuations
				st.CompletedDev = d
				st.StatesPerDev = append(st.StatesPerDev, inLayer)
				d++
				layer, nextLayer = nextLayer, nil
				if d > box.MaxDev {
					break
				}
				if len(layer) == 0 {
					st.Complete = true
					break
				}
				tasks = startLayer()
			}
			return tasks
		})
		if st.CompletedDev >= box.MaxDev {
			st.Complete = true
		}
	}
	os.Remove(abortFile())
	switch {
	case aborted:
		st.Stopped = "violation or harness error: box abandoned"
	case timedOut:
		st.Stopped = "internal time budget"
	}
	// samples: deepest path + first path into a few interesting regions
	if !aborted {
		addSample := func(why string, id uint32) {
			if id == 0 {
				return
			}
			lines, _ := renderPath(&box.Cfg, &box.Bud, box.Mode == "B", pathOf(tree, id))
			co.samples = append(co.samples, map[string]interface{}{"box": box.ID, "why": why, "events": lines})
		}
		addSample("deepest path", deepest)
		for _, b := range []int{bit(fCommitOlderTerm), bit(fTruncation), bit(fSnapApplied), bit(fConfApplied), bit(fTwoLeaders), bit(fSnapBehindCompact), bit(fCampaignRefused), bit(fSnapWhileHeld), bit(fTruncInReady), bit(fConfRefusedBatchWindow), bit(fBatchForwarded)} {
			if id, ok := firstWith[b]; ok && (len(co.samples) < 14 || (b == bit(fConfRefusedBatchWindow) && len(co.samples) < 18)) {
				addSample("first path with "+flagNames[b], id)
			}
		}
	}
	return st
}

func bit(f uint64) int {
	for b := 0; b < 64; b++ {
		if f == 1<<b {
			return b
		}
	}
	return -1
}

func firstLine(s string) string {
	if i := strings.IndexByte(s, '\n'); i >= 0 {
		return s[:i]
	}
	return s
}

// shapeOf compresses the event-kind sequence of a path: "C D*4 P D*2 X".
func shapeOf(path []Event) string {
	var parts []string
	for i := 0; i < len(path); {
		j := i
		for j < len(path) && path[j].K == path[i].K {
			j++
		}
		if j-i > 1 {
			parts = append(parts, fmt.Sprintf("%s*%d", evShort[path[i].K], j-i))
		} else {
			parts = append(parts, evShort[path[i].K])
		}
		i = j
	}
	return strings.Join(parts, " ")
}

func run(prop string) int {
	tier := os.Getenv("VERIF_TIER")
	if tier != "thorough" {
		tier = "quick"
	}
	os.Setenv("RAFTMC_COORD", strconv.Itoa(os.Getpid()))
	total := 130 * time.Second
	if tier == "thorough" {
		total = 39 * time.Minute // 17 min for the boxes up to round 2 + 7 min for the apply-lag boxes B10 / B11 + 7 min of slices (6 min used) for the persist-lag boxes B12* + 7 min of slices (5.3 min used at load average 60) for the batch-proposal boxes B13*
	}
	if s := os.Getenv("RAFTMC_BUDGET_S"); s != "" {
		if n, err := strconv.Atoi(s); err == nil {
			total = time.Duration(n) * time.Second
		}
	}
	startAll := time.Now()
	end := startAll.Add(total)
	co := &coord{tier: tier, boxes: boxesFor(tier), rep: ev.NewReport(prop, "model_checking"), found: map[string]*found{}}
	// Timeout: longest silence of a worker before it is declared hung - a wall-clock verdict, so far above
	// anything a busy machine does to one expansion step (60 s produced "worker hang" harness errors in
	// a thorough run that shared the cores with another check)
	co.pool = &pool.Pool{Handler: "raftmc", N: nWorkers(), Timeout: 5 * time.Minute, MemMB: 4096}
	only := os.Getenv("RAFTMC_ONLY") // debugging aid: comma separated box ids
	remaining := 0
	for _, b := range co.boxes {
		if only == "" || strings.Contains(","+only+",", ","+b.ID+",") {
			remaining += b.Share
		}
	}
	for bi, b := range co.boxes {
		if only != "" && !strings.Contains(","+only+",", ","+b.ID+",") {
			continue
		}
		left := time.Until(end)
		if left < 2*time.Second {
			co.stats = append(co.stats, &boxStats{Box: b, CompletedDev: -1, Stopped: "not started: internal time budget"})
			continue
		}
		slice := time.Duration(float64(left) * float64(b.Share) / float64(remaining))
		remaining -= b.Share
		st := co.runBox(bi, time.Now().Add(slice))
		co.stats = append(co.stats, st)
		fmt.Fprintf(os.Stderr, "raftmc: box %-4s states=%d transitions=%d depth=%d completed(depth=%d dev=%d) complete=%v %.1fs %s\n",
			b.ID, st.States, st.Transitions, st.MaxDepth, st.CompletedDepth, st.CompletedDev, st.Complete, st.WallS, st.Stopped)
		if len(co.found) > 0 || len(co.internal) > 0 {
			break
		}
	}

	// confirm and report violations
	flaky := false
	for _, k := range co.order {
		f := co.found[k]
		ok, lines := confirm(f, 5)
		if !ok {
			flaky = true
			fmt.Fprintf(os.Stderr, "FLAKY: %s in box %s did not reproduce 5/5: %s\n", f.kind, f.box.ID, f.det)
			continue
		}
		co.rep.Add(&ev.Violation{Engine: "raftmc", Kind: f.kind, Cmd: evNames[f.path[len(f.path)-1].K], Shape: shapeOf(f.path), Func: f.fn,
			Detail: strings.TrimSpace(fmt.Sprintf("box %s (%s), %d events: %s %s", f.box.ID, f.box.Cfg.Name, len(f.path), f.det, f.note)),
			Replay: mkReplay(f, lines)})
	}

	cov := map[string]interface{}{}
	states, trans, maxDepth := 0, 0, 0
	exhaustive := true
	var completed []string
	for _, st := range co.stats {
		states += st.States
		trans += st.Transitions
		if st.MaxDepth > maxDepth {
			maxDepth = st.MaxDepth
		}
		if !st.Complete {
			exhaustive = false
		}
		switch {
		case st.Box.Mode == "A":
			completed = append(completed, fmt.Sprintf("%s: all interleavings to depth %d of %d", st.Box.ID, st.CompletedDepth, st.Box.Depth))
		default:
			completed = append(completed, fmt.Sprintf("%s: deviations <= %d of %d", st.Box.ID, st.CompletedDev, st.Box.MaxDev))
		}
	}
	if states == 0 {
		states = 1
	}
	cov["states"] = states
	cov["transitions"] = trans
	cov["traces_validated_against_impl"] = trans
	cov["max_depth"] = maxDepth
	cov["exhaustive"] = exhaustive && len(co.found) == 0 && len(co.internal) == 0
	if len(skipInv) > 0 {
		var off []string
		for k := range skipInv {
			off = append(off, k)
		}
		sort.Strings(off)
		cov["invariants_switched_off_by_RAFTMC_SKIP_INV"] = off
		cov["exhaustive"] = false
	}
	cov["completed_bounds"] = completed
	cov["boxes"] = co.stats
	cov["violating_transitions"] = co.nviol
	cov["workers"] = co.pool.N
	execs, hits, refeeds, validated, look := 0, 0, 0, 0, 0
	for _, st := range co.stats {
		execs += st.Sim.Execs
		hits += st.Sim.Hits
		refeeds += st.Sim.ThawFeeds
		validated += st.Sim.Validated
		look += st.Sim.Lookahead
	}
	cov["library_calls"] = map[string]int{"node_transitions_executed_by_a_RawNode": execs, "node_transitions_answered_from_memo": hits,
		"inputs_refed_to_rebuild_a_RawNode_from_its_history": refeeds, "states_revalidated_straight_line_without_memo": validated}
	cov["lookahead_states_electable_without_committed_entry"] = look
	cov["explanation"] = "transition function = the real raft.RawNode. A transition of the group is one event applied to one member (Step/Campaign/Propose/Tick/... plus the complete handling of the Ready structs). " +
		"A member's state is a deterministic function of its own input history, so each distinct (input history, input) pair is executed by a RawNode once per worker process and its observable result (persisted log and snapshot, HardState, Status, votes, emitted messages, applied entries, application state digest) is memoised; " +
		"traces_validated_against_impl counts group transitions, library_calls says how many RawNode executions they were composed from; one expanded state in 64 is re-executed straight-line on fresh RawNodes without the memo and must give the same state hash; every counterexample is re-executed that way 5 times before it is reported."
	cov["state_hash"] = "SHA-1 of the canonical serialisation truncated to 64 bit (hash compaction)"
	if len(co.internal) > 0 {
		cov["harness_errors"] = co.internal
	}
	if len(co.samples) == 0 {
		lines, _ := renderPath(&co.boxes[0].Cfg, &co.boxes[0].Bud, false, []Event{{K: evCampaign, N: 1}})
		co.samples = append(co.samples, map[string]interface{}{"box": co.boxes[0].ID, "why": "fallback", "events": lines})
	}
	cov["samples"] = co.samples
	agg := map[string]int{}
	for _, st := range co.stats {
		for k, v := range st.FlagTrans {
			agg[k] += v
		}
	}
	cov["regions_entered_transitions"] = agg
	// snapshot / compaction events, pulled out of the region counters so that a reader sees at
	// a glance that they are exercised (transitions, summed over the boxes; per box under
	// boxes[].transitions_with and boxes[].transitions_by_event)
	snapcov := map[string]interface{}{}
	for _, b := range []int{bit(fCompact), bit(fCompactFollower), bit(fCompacted), bit(fSnapSent), bit(fSnapDelivered), bit(fSnapApplied), bit(fSnapStale), bit(fSnapBehindCompact), bit(fRestartCompacted), bit(fReleased)} {
		snapcov[flagNames[b]] = agg[flagNames[b]]
	}
	evAgg := map[string]int{}
	statesCompacted := 0
	var snapBoxes []string
	for _, st := range co.stats {
		for _, k := range []uint8{evCompact, evDelay, evDupDelay, evRelease} {
			evAgg[evNames[k]] += st.EventCounts[evNames[k]]
		}
		statesCompacted += st.FlagStates[flagNames[bit(fCompacted)]]
		if st.Box != nil && st.Box.Bud.Compacts > 0 {
			snapBoxes = append(snapBoxes, st.Box.ID)
		}
	}
	snapcov["events"] = evAgg
	snapcov["states_reached_after_at_least_one_compaction"] = statesCompacted
	snapcov["boxes_with_compaction_in_the_alphabet"] = snapBoxes
	snapcov["legend"] = "compaction = application snapshot at the applied index (Storage.CreateSnapshot) + Storage.Compact up to it, on leaders and followers; " +
		"stale_msgsnap_handled_after_receiver_compacted_beyond_it = a MsgSnap of a term the receiver accepts, delivered when the receiver's own storage already starts at a higher snapshot index " +
		"(the library has to recognise it as obsolete without being able to look up the term at that index)"
	cov["snapshot_compaction_coverage"] = snapcov
	// apply lag (boxes B10 / B11): the same for the events and regions that exist only when a
	// node applies asynchronously
	lagcov := map[string]interface{}{}
	for _, b := range []int{bit(fWhileHeld), bit(fPageApplied), bit(fCrashHeld), bit(fSnapWhileHeld)} {
		lagcov[flagNames[b]] = agg[flagNames[b]]
	}
	campBacklog, campRefused := 0, 0
	for _, st := range co.stats {
		campBacklog += st.CampBacklog
		campRefused += st.CampRefused
	}
	lagcov["campaigns_executed_with_committed_conf_changes_unapplied"] = campBacklog
	lagcov["campaigns_executed_and_refused_because_of_unapplied_conf_changes"] = campRefused
	lagcov["campaigns_started_with_committed_conf_changes_unapplied"] = agg[flagNames[bit(fCampaignBacklog)]]
	lagEv := map[string]int{}
	maxBacklog := 0
	var lagBoxes []string
	for _, st := range co.stats {
		for _, k := range []uint8{evLag, evApply, evUnlag} {
			lagEv[evNames[k]] += st.EventCounts[evNames[k]]
		}
		if st.MaxBacklog > maxBacklog {
			maxBacklog = st.MaxBacklog
		}
		if st.Box != nil && st.Box.Bud.Lags > 0 {
			lagBoxes = append(lagBoxes, st.Box.ID)
		}
	}
	lagcov["events"] = lagEv
	lagcov["max_apply_backlog_committed_minus_applied"] = maxBacklog
	lagcov["boxes_with_apply_lag_in_the_alphabet"] = lagBoxes
	lagcov["legend"] = "lag(n): the application of n applies asynchronously - a Ready with committed entries is persisted and sent, its committed page and Advance are held, and until apply(n) / unlag(n) " +
		"every input to n (Step, Campaign, Tick, Propose, ...) calls the library without a Ready cycle, as etcd's node.run does between Ready and Advance; " +
		"campaigns_executed_with_committed_conf_changes_unapplied = Campaign() executed on a node whose backlog (applied, committed] contains a configuration change, ..._refused_... = the node changed neither state nor term " +
		"(such a campaign leaves the state unchanged and is therefore not a recorded transition; both are counted where the library call is executed), campaigns_started_... = recorded transitions in which such a node did start an election (0 on a correct library); " +
		"max_apply_backlog = largest committed - applied of any node in any state (0 in every box without lag)"
	cov["apply_lag_coverage"] = lagcov
	// persist lag (boxes B12*): a node that holds whole Readys before persisting them
	plagcov := map[string]interface{}{}
	for _, b := range []int{bit(fReadyHeldWhole), bit(fWhileHeldWhole), bit(fTruncHeldWhole), bit(fTruncMidHeldWhole), bit(fTruncInReady), bit(fPersistRelease), bit(fCrashHeldWhole), bit(fSnapHeldWhole)} {
		plagcov[flagNames[b]] = agg[flagNames[b]]
	}
	plagEv := map[string]int{}
	var plagBoxes []string
	for _, st := range co.stats {
		for _, k := range []uint8{evPLag, evPersist, evUnplag} {
			plagEv[evNames[k]] += st.EventCounts[evNames[k]]
		}
		if st.Box != nil && st.Box.Bud.Plags > 0 {
			plagBoxes = append(plagBoxes, st.Box.ID)
		}
	}
	plagcov["events"] = plagEv
	plagcov["boxes_with_persist_lag_in_the_alphabet"] = plagBoxes
	plagcov["legend"] = "plag(n): the application of n is slow in persisting - rd := Ready() is taken (the library is told so) and the WHOLE Ready is held: HardState, entries and snapshot not persisted, messages not sent, committed entries not applied, no Advance; " +
		"until persist(n) every input to n (Step, Campaign, Tick, Propose, ...) calls the library without a Ready cycle, as etcd's node.run keeps serving recvc / propc / tickc after it handed a Ready to the application; " +
		"persist(n) first compares the held Ready with a deep copy taken at the hand-out (ReadyMutatedAfterHandOut), then persists HardState / snapshot / entries from the held value, sends its messages, applies its committed entries, calls Advance, resumes the Ready loop and holds the next Ready; " +
		"a crash loses a held Ready entirely (storage untouched, messages never sent). Counters are recorded transitions: readys_held = transitions that ended with a fresh Ready held; inputs_stepped = library calls on a node holding one; " +
		"msgapps_that_truncated_* = a MsgApp stepped by such a node replaced unstable entries (conflict with a leader of a later term) / starting strictly inside the unstable entries (the third case of unstable.truncateAndAppend) / starting inside the index range of the held Ready's Entries, i.e. the slots the application is about to persist"
	cov["persist_lag_coverage"] = plagcov
	// multi-entry proposals (boxes B13*)
	batchcov := map[string]interface{}{}
	for _, b := range []int{bit(fBatchStepped), bit(fBatchForwarded), bit(fBatchDropped), bit(fConfAccepted), bit(fConfDowngraded), bit(fConfRefusedBatchWindow), bit(fTwoConfUnapplied)} {
		batchcov[flagNames[b]] = agg[flagNames[b]]
	}
	byShape := map[string]int{}
	nBatch := 0
	var batchBoxes []string
	for _, st := range co.stats {
		for k, v := range st.BatchShapes {
			byShape[k] += v
		}
		nBatch += st.EventCounts[evNames[evBatch]]
		if st.Box != nil && st.Box.Bud.Batches > 0 {
			batchBoxes = append(batchBoxes, st.Box.ID)
		}
	}
	batchcov["proposeBatch_transitions"] = nBatch
	batchcov["proposeBatch_transitions_by_shape"] = byShape
	batchcov["boxes_with_batch_proposals_in_the_alphabet"] = batchBoxes
	batchcov["legend"] = "proposeBatch(n, shape): RawNode.Step(MsgProp{From: n, Entries: ...}) with several entries - normal entries b<k>.<pos> and conf changes in the order of the shape - on leader or follower (a follower forwards the message unchanged, the forwarded MsgProp is delivered, lost, delayed like any message). " +
		"Counters are recorded transitions, over all boxes (the conf-change counters include proposeConf and the boxes B4 / B10 / B11 / B12): batch_proposals_appended_by_a_leader = a leader stepped a MsgProp with >= 2 entries, its own or a forwarded one, and appended the entries; " +
		"proposals_in_which_the_leader_accepted_a_conf_change / ..._turned_a_conf_change_into_an_empty_normal_entry = what the leader stored at the position of a proposed conf change (the library neutralises a conf change it refuses - one is pending, or the joint-configuration rules - instead of dropping the proposal); " +
		"conf_changes_refused_while_the_pending_one_sits_behind_an_applied_normal_entry_of_its_own_batch = such a refusal while the leader has applied the normal entry in front of the pending conf change of the same MsgProp and not the conf change itself " +
		"(the window in which bookkeeping that points at the first entry of the batch instead of the conf change would let a second conf change in); " +
		"leader_with_two_or_more_conf_changes_above_its_applied_index = transitions into a state in which some leader's log holds >= 2 unapplied conf changes; AtMostOnePendingConfChange requires that none but the first is of the leader's own term"
	cov["batch_proposal_coverage"] = batchcov
	assumptions := []string{
		"a node's local step and the handling of the Ready structs it produces (persist, send, apply, Advance) form one atomic transition; a crash in between is represented by crash + message loss. Exceptions: boxes with plag in their alphabet (B12*, next item) and boxes with lag in their alphabet (B10, B11): a node in lag mode persists and sends a Ready with committed entries but holds its committed page and its Advance; until apply / unlag the library is called without a Ready cycle (no further Ready is taken while one is held, like etcd's node.run). The application installs a Ready's snapshot when it persists the Ready (raftexample's order), before the held page",
		"persist lag (boxes B12*): a node in plag mode holds every Ready as a whole - nothing persisted, sent or applied - until persist(n), which handles it from the held value in raftexample's order (HardState, snapshot, entries, messages, committed entries, Advance); inputs in between call the library without a Ready cycle; a crash loses the held Ready. The state key then also contains the held Ready's HardState, entry range and content hash, snapshot boundary, message count and content hash",
		"while a node holds a Ready the state key additionally contains the held page (index range, content hash), what its Advance will mark stable, and what the RawNode has not handed out: unstable entries, unstable snapshot boundary and queued messages, read through reflection offsets (raft.msgs, raftLog.unstable); the lag flag is application state and survives a crash, a held Ready does not",
		"elections are started only by the campaign event: ElectionTick is larger than any number of ticks in a run (pass 1) or the randomised election timeout is pinned (passes with PreVote/CheckQuorum)",
		"MemoryStorage stands for the persistent store; everything written to it survives a crash",
		"states are de-duplicated on a 64-bit hash of the canonical serialisation",
		"three RawNode fields not exposed by Status() are read through reflection offsets for the state key: prs.Votes, electionElapsed; randomizedElectionTimeout is written (pinned)",
		"a member's behaviour depends only on its own input history (no shared mutable state between RawNodes), which is what makes per-member memoisation sound; checked by sampled straight-line re-execution. compact(n) is an input of that history like any other, so a compacted and an uncompacted storage never share a memo entry; the state key contains the storage's first index, snapshot index/term/configuration/payload and every remaining entry",
		"the application snapshots at its applied index and compacts the log up to the same index (no catch-up entries are kept); snapshot payload = running hash of the applied entries, which stands for the state machine",
		"a delayed message (delay / dupDelayed) stays outside the network for an arbitrary time and re-enters it at a quiescent point (release); the set of delayed messages is part of the state",
		"Box B de-duplicates on (state, FIFO order of the pool) with the minimum number of deviations; Box A on (state, multiset of the pool)",
		"a leader's pendingConfIndex (read through a reflection offset) is part of the state key, canonicalised to 0 below the applied index: in the library as it is it is a function of the leader's log and term, so no state is split; proposals enter through Propose / ProposeConfChange (one entry per MsgProp) and, in the boxes B13*, through Step(MsgProp) with several entries (proposeBatch)",
	}
	code := co.rep.Finish(cov, assumptions)
	if len(co.internal) > 0 || flaky {
		for _, s := range co.internal {
			fmt.Fprintln(os.Stderr, "raftmc: harness error:", s)
		}
		if code == 0 {
			return 2
		}
	}
	return code
}
