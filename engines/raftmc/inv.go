// inv.go: the invariants of C15, evaluated after every transition.
package main

import (
	"bytes"
	"fmt"
	"os"
	"strings"

	pb "go.etcd.io/etcd/raft/v3/raftpb"
)

// skipInv: development aid. RAFTMC_SKIP_INV=Kind1,Kind2 switches the named invariants off, e.g.
// to see which of the remaining ones a changed library violates further down the same runs
// (a violating transition is never expanded, so an early structural invariant hides the
// functional damage behind it). A run with it set reports exhaustive=false and lists the names.
var skipInv = func() map[string]bool {
	m := map[string]bool{}
	for _, k := range strings.Split(os.Getenv("RAFTMC_SKIP_INV"), ",") {
		if k = strings.TrimSpace(k); k != "" {
			m[k] = true
		}
	}
	return m
}()

func (c *cluster) fail(kind, format string, a ...interface{}) {
	if len(skipInv) > 0 && skipInv[kind] {
		return
	}
	c.viol = append(c.viol, violation{Kind: kind, Detail: fmt.Sprintf(format, a...)})
}

func sameEntry(a, b *pb.Entry) bool {
	return a.Term == b.Term && a.Index == b.Index && a.Type == b.Type && bytes.Equal(a.Data, b.Data)
}

func (c *cluster) ledgerAt(i uint64) *ledgerEnt {
	if int(i) < len(c.ledger) && c.ledger[i].set {
		return &c.ledger[i]
	}
	return nil
}

// commitObserved records / compares one committed entry against the ledger.
func (c *cluster) commitObserved(n *node, how string, idx, term uint64, typ pb.EntryType, data []byte, dataKnown bool) {
	if l := c.ledgerAt(idx); l != nil {
		if l.term != term || (dataKnown && (l.typ != typ || !bytes.Equal(l.data, data))) {
			c.fail("StateMachineSafety", "node %d %s index %d as (t%d,%q) but that index was first committed as (t%d,%q)", n.id, how, idx, term, data, l.term, l.data)
		}
		return
	}
	if !dataKnown {
		return // only a snapshot boundary (index, term): nothing to record
	}
	c.histW()
	for int(idx) >= len(c.ledger) {
		c.ledger = append(c.ledger, ledgerEnt{})
	}
	c.ledger[idx] = ledgerEnt{set: true, cterm: n.hs.Term, term: term, typ: typ, data: data}
	c.flags |= fCommitAdvanced
}

// checkPersisted: what a node has written to its storage only ever moves forward. These
// checks read nothing but the storage (and the effects of the input), so they are also run
// when the library panicked half-way through the Ready handling.
//
//   - PersistedTermMonotonic / PersistedCommitMonotonic / VoteStability: the HardState.
//   - SnapshotMonotonic: the storage's snapshot index never decreases.
//   - CommittedEntryRemoved: every index up to the commit index the node had persisted before
//     the event is still accounted for afterwards, i.e. it is covered by the node's snapshot or
//     still present in its log (the log above the snapshot is contiguous, so this is "last
//     index >= old commit"). That the entries still there are the committed ones is
//     CommittedEntryRewritten (ledger comparison in check) together with
//     CommittedEntryRemoved's entry-by-entry comparison against the node's own previous log.
//   - ObsoleteSnapshotInReady: a Ready never asks the application to install a snapshot at or
//     below what it has already applied / what its storage already starts from (raftexample's
//     publishSnapshot is fatal on it, MemoryStorage answers ErrSnapOutOfDate).
func (c *cluster) checkPersisted(n, before *node, eff *effects, e Event) {
	hs := n.hs
	if hs.Term < before.hs.Term {
		c.fail("PersistedTermMonotonic", "node %d: persisted term went from %d to %d on %s", n.id, before.hs.Term, hs.Term, evNames[e.K])
	}
	if hs.Commit < before.hs.Commit {
		c.fail("PersistedCommitMonotonic", "node %d: persisted commit went from %d to %d on %s", n.id, before.hs.Commit, hs.Commit, evNames[e.K])
	}
	if hs.Vote != before.hs.Vote && hs.Term == before.hs.Term && before.hs.Vote != 0 {
		c.fail("VoteStability", "node %d: persisted vote changed from %d to %d within term %d on %s", n.id, before.hs.Vote, hs.Vote, hs.Term, evNames[e.K])
	}
	if n.snapIdx < before.snapIdx {
		c.fail("SnapshotMonotonic", "node %d: storage snapshot index went from %d to %d on %s", n.id, before.snapIdx, n.snapIdx, evNames[e.K])
	}
	if n.lastIndex() < before.hs.Commit {
		c.fail("CommittedEntryRemoved", "node %d: had committed up to index %d, after %s its snapshot+log end at %d", n.id, before.hs.Commit, evNames[e.K], n.lastIndex())
	} else {
		for i := range before.log {
			be := &before.log[i]
			if be.Index > before.hs.Commit {
				break
			}
			if be.Index <= n.snapIdx {
				continue // now inside the snapshot (boundary term and state digest are checked in check)
			}
			if en, ok := n.entryAt(be.Index); !ok || !sameEntry(en, be) {
				c.fail("CommittedEntryRemoved", "node %d: entry %s was committed on this node (commit %d) and is gone or different after %s", n.id, descEntry(be), before.hs.Commit, evNames[e.K])
				break
			}
		}
	}
	// PersistedLogTermsNonDecreasing: a direct consequence of Raft's append rule (a leader
	// appends entries of its own term behind a log whose last term is not higher, a follower
	// copies a leader's log): within one node's persisted log, snapshot boundary included, the
	// entry terms never decrease and the indexes are consecutive.
	prevT, prevI := n.snapTrm, n.snapIdx
	for i := range n.log {
		en := &n.log[i]
		if en.Term < prevT {
			c.fail("PersistedLogTermsNonDecreasing", "node %d: after %s its persisted log holds %s behind (index %d, t%d): entry terms go backwards; log=%s", n.id, evNames[e.K], descEntry(en), prevI, prevT, descLog(n))
			break
		}
		if (prevI != 0 || i > 0) && en.Index != prevI+1 {
			c.fail("PersistedLogTermsNonDecreasing", "node %d: after %s its persisted log holds index %d behind index %d: not consecutive; log=%s", n.id, evNames[e.K], en.Index, prevI, descLog(n))
			break
		}
		prevT, prevI = en.Term, en.Index
	}
	// ReadyMutatedAfterHandOut (persist lag): the Ready that was just persisted, sent and
	// applied differs from the deep copy taken when the library handed it out. The raft.Ready
	// contract gives Entries / CommittedEntries / Messages / Snapshot to the application until
	// Advance; if the library rewrites them while it steps later inputs, what the application
	// persists is not what the library decided.
	// AcknowledgedBeforeDurable ("each node's persisted term, vote ... never regress", across a power
	// loss as well): Ready.MustSync tells the application which writes it has to sync before it sends
	// the Ready's messages. A granted vote that leaves the node while the vote it promises was last
	// written without MustSync is forgotten by a power loss: the node comes back able to vote again in
	// that term. (A clause for append acknowledgements was withdrawn: it raised an alarm under persist
	// lag in box B12 of the thorough tier that could not be classified in the time left, DESIGN 13.4.)
	if eff.unsynced != "" {
		c.fail("AcknowledgedBeforeDurable", "node %d after %s: %s", n.id, evNames[e.K], eff.unsynced)
	}
	if eff.mutated != "" {
		c.fail("ReadyMutatedAfterHandOut", "node %d: the Ready released by %s is not the Ready that was handed out: %s; persisted log afterwards: %s", n.id, evNames[e.K], eff.mutated, descLog(n))
	}
	if eff.snapIgnored {
		c.fail("ObsoleteSnapshotInReady", "node %d: Ready after %s asked to install a snapshot at index %d although the node had already applied index %d (storage snapshot at %d)", n.id, evNames[e.K], eff.snapIdx, eff.snapBelow, before.snapIdx)
	}
}

// expectedDigest is the application state "the committed prefix up to idx, applied in order",
// computed from the commit ledger. ok is false if the ledger has a hole below idx (possible
// only for entries nobody has been observed to commit individually).
func (c *cluster) expectedDigest(idx uint64) (d digest, ok bool) {
	for i := uint64(1); i <= idx; i++ {
		l := c.ledgerAt(i)
		if l == nil {
			return d, false
		}
		d = d.next(i, l.term, l.typ, l.data)
	}
	return d, true
}

func (c *cluster) check(n, before *node, eff *effects, e Event) {
	hs := n.hs
	// --- persisted state never regresses, committed entries stay accounted for
	c.checkPersisted(n, before, eff, e)
	if n.alive {
		st := &n.status
		// --- the in-memory commit / applied indexes never decrease either. Across a restart
		// the reference is what was persisted: commit restarts from HardState.Commit, applied
		// from the snapshot index (the state machine is rebuilt from the snapshot and the
		// entries above it are re-applied).
		if before.alive {
			if st.Commit < before.status.Commit {
				c.fail("CommitMonotonic", "node %d: in-memory commit index went from %d to %d on %s", n.id, before.status.Commit, st.Commit, evNames[e.K])
			}
			if n.appliedIdx < before.appliedIdx || st.Applied < before.status.Applied {
				c.fail("AppliedMonotonic", "node %d: applied index went from %d (library: %d) to %d (library: %d) on %s", n.id, before.appliedIdx, before.status.Applied, n.appliedIdx, st.Applied, evNames[e.K])
			}
		} else if st.Commit < before.hs.Commit {
			c.fail("CommitMonotonic", "node %d: restarted with commit index %d, persisted before the crash: %d", n.id, st.Commit, before.hs.Commit)
		}
		switch {
		case n.heldWhole && st.Applied != n.appliedIdx:
			// nothing of a Ready held as a whole has been applied or installed
			c.fail("AppliedIndexAgreement", "node %d (holding an unpersisted Ready): the library believes index %d is applied, the application has applied %d", n.id, st.Applied, n.appliedIdx)
		case n.heldWhole:
		case !n.held && st.Applied != n.appliedIdx:
			c.fail("AppliedIndexAgreement", "node %d: the library believes index %d is applied, the application has applied %d", n.id, st.Applied, n.appliedIdx)
		case n.held && !(st.Applied == n.appliedIdx || (n.heldSnapIdx > 0 && n.appliedIdx == n.heldSnapIdx && st.Applied < n.appliedIdx)):
			// while a Ready is held the library's cursor stays where the last Advance put it;
			// the application may be ahead of it by exactly the snapshot of the held Ready
			// (installed when the Ready was persisted)
			c.fail("AppliedIndexAgreement", "node %d (holding a Ready): the library believes index %d is applied, the application has applied %d", n.id, st.Applied, n.appliedIdx)
		}
		if n.heldWhole {
			// the held Ready's committed page (if any) starts right behind what is applied - or
			// behind the snapshot the same Ready carries - and ends at or below the commit index
			lo := n.appliedIdx + 1
			if n.heldSnapIdx >= lo {
				lo = n.heldSnapIdx + 1
			}
			if n.heldHi != 0 && (n.heldLo != lo || n.heldHi < n.heldLo || n.heldHi > st.Commit) {
				c.fail("HeldPageBounds", "node %d holds an unpersisted Ready with committed page %d..%d, applied index %d, snapshot %d, commit %d", n.id, n.heldLo, n.heldHi, n.appliedIdx, n.heldSnapIdx, st.Commit)
			}
			if st.Term < hs.Term || st.Commit < hs.Commit || st.Term < n.heldHS.Term || st.Commit < n.heldHS.Commit {
				c.fail("HardStatePersisted", "node %d (holding an unpersisted Ready with hs=(t%d,c%d)): in-memory (t%d,c%d) is behind it or behind the persisted (t%d,c%d)", n.id, n.heldHS.Term, n.heldHS.Commit, st.Term, st.Commit, hs.Term, hs.Commit)
			}
		} else if n.held {
			// the held page is what the library handed out and the application has not applied yet
			if n.heldLo != n.appliedIdx+1 || n.heldHi < n.heldLo || n.heldHi > hs.Commit {
				c.fail("HeldPageBounds", "node %d holds committed page %d..%d with applied index %d and persisted commit %d", n.id, n.heldLo, n.heldHi, n.appliedIdx, hs.Commit)
			}
			// in-memory term / commit only move forward from what was persisted with the held Ready
			if st.Term < hs.Term || st.Commit < hs.Commit {
				c.fail("HardStatePersisted", "node %d (holding a Ready): in-memory (t%d,c%d) is behind the persisted (t%d,c%d)", n.id, st.Term, st.Commit, hs.Term, hs.Commit)
			}
		} else if st.Term != hs.Term || st.Vote != hs.Vote || st.Commit != hs.Commit {
			// volatile state must agree with what was persisted (Ready handling is complete)
			c.fail("HardStatePersisted", "node %d: in-memory (t%d,v%d,c%d) differs from persisted (t%d,v%d,c%d) after a complete Ready cycle", n.id, st.Term, st.Vote, st.Commit, hs.Term, hs.Vote, hs.Commit)
		}
		// --- bounds
		if st.Commit > n.memLastIndex() {
			c.fail("LogBounds", "node %d: commit %d beyond last index %d", n.id, st.Commit, n.memLastIndex())
		}
		if st.Applied > st.Commit {
			c.fail("LogBounds", "node %d: applied %d beyond commit %d", n.id, st.Applied, st.Commit)
		}
	}
	// --- AtMostOnePendingConfChange. The library's rule (raft.go, pendingConfIndex): "Only one
	// conf change may be pending (in the log, but not yet applied) at a time"; Node.ProposeConfChange:
	// "configuration changes are dropped unless the leader has certainty that there is no prior
	// unapplied configuration change in its log". It is what makes single-step membership changes
	// safe (two configurations one change apart always share a quorum; two changes apart they
	// need not). Stated on the log as the leader's RawNode sees it (persisted + unstable): a
	// leader of term t never has a conf-change entry of term t - one that it accepted itself, or
	// the auto-leave it proposed itself - above its applied index with ANOTHER conf-change entry
	// between the applied index and that entry. The one legitimate way to hold several unapplied
	// conf changes is to inherit them: entries of earlier terms a new leader finds in its log
	// (it sets pendingConfIndex to its last index and accepts nothing before all of them are
	// applied), or a follower's log; those are not covered by the rule and not flagged (counted
	// as coverage). A refused conf change is stored as an empty normal entry and does not count.
	if n.isLeader() {
		var first *pb.Entry
		for i := n.status.Applied + 1; i <= n.memLastIndex(); i++ {
			en, ok := n.memEntryAt(i)
			if !ok || en.Type == pb.EntryNormal {
				continue
			}
			if first == nil {
				first = en
				continue
			}
			c.flags |= fTwoConfUnapplied
			if en.Term == n.status.Term {
				c.fail("AtMostOnePendingConfChange", "leader %d (term %d, applied %d, commit %d) accepted the conf change %s into its log while the conf change %s is in its log and not yet applied (pendingConfIndex=%d); log=%s",
					n.id, n.status.Term, n.status.Applied, n.status.Commit, descEntry(en), descEntry(first), n.pendingConf, descMemLog(n))
				break
			}
		}
	}
	// --- conflict truncation (coverage) : an index kept, term changed / log shorter
	if len(before.log) > 0 {
		for i := range before.log {
			be := &before.log[i]
			if be.Index <= n.snapIdx {
				continue
			}
			if t, ok := n.termAt(be.Index); !ok || t != be.Term {
				c.flags |= fTruncation
				break
			}
		}
	}
	// --- applied entries equal the ledger; commit range recorded in the ledger
	if hs.Commit > before.hs.Commit || before.hs.Commit == 0 {
		lo := before.hs.Commit + 1
		for i := lo; i <= hs.Commit; i++ {
			if en, ok := n.entryAt(i); ok {
				if n.alive && en.Term < n.status.Term && n.isLeader() {
					c.flags |= fCommitOlderTerm
				}
				c.commitObserved(n, "committed", i, en.Term, en.Type, en.Data, true)
			} else if t, ok := n.termAt(i); ok {
				c.commitObserved(n, "holds a snapshot ending at", i, t, 0, nil, false)
			}
		}
	}
	for i := range eff.applied {
		a := &eff.applied[i]
		if l := c.ledgerAt(a.Index); l == nil {
			c.fail("StateMachineSafety", "node %d applied index %d (t%d,%q) which no node has committed", n.id, a.Index, a.Term, a.Data)
		} else if l.term != a.Term || l.typ != a.Type || !bytes.Equal(l.data, a.Data) {
			c.fail("StateMachineSafety", "node %d applied (t%d,%q) at index %d but the entry committed at that index is (t%d,%q)", n.id, a.Term, a.Data, a.Index, l.term, l.data)
		}
		if a.Type != pb.EntryNormal && a.Index > uint64(c.cfg.Members) {
			c.flags |= fConfApplied
		}
	}
	// --- state machine safety across snapshots: the application state (however it was
	// reached: entry by entry, by installing a snapshot, by a restart from a snapshot plus
	// re-application) is the committed prefix up to the applied index. Checked after the
	// ledger has absorbed this transition's commits.
	if n.alive && (n.appliedIdx != before.appliedIdx || n.appDigest != before.appDigest) {
		if want, ok := c.expectedDigest(n.appliedIdx); ok && want != n.appDigest {
			c.fail("StateMachineSafety", "node %d: application state at applied index %d differs from the committed entries 1..%d applied in order (after %s)", n.id, n.appliedIdx, n.appliedIdx, evNames[e.K])
		}
	}
	// --- a committed entry is never removed or rewritten in any log
	everCommitted := hs.Commit
	if before.hs.Commit > everCommitted {
		everCommitted = before.hs.Commit
	}
	for i := range n.log {
		en := &n.log[i]
		if en.Index > everCommitted {
			break
		}
		if l := c.ledgerAt(en.Index); l != nil && (l.term != en.Term || l.typ != en.Type || !bytes.Equal(l.data, en.Data)) {
			c.fail("CommittedEntryRewritten", "node %d holds (t%d,%q) at index %d below its commit %d, but (t%d,%q) was committed there", n.id, en.Term, en.Data, en.Index, hs.Commit, l.term, l.data)
			break
		}
	}
	if hs.Commit > n.lastIndex() && !n.alive {
		c.fail("LogBounds", "node %d (down): persisted commit %d beyond last persisted index %d", n.id, hs.Commit, n.lastIndex())
	}
	if n.snapIdx > 0 {
		if l := c.ledgerAt(n.snapIdx); l != nil && l.term != n.snapTrm {
			c.fail("StateMachineSafety", "node %d snapshot (index %d, t%d) disagrees with the committed entry (t%d)", n.id, n.snapIdx, n.snapTrm, l.term)
		}
	}
	// --- election safety + leader completeness
	if n.isLeader() {
		t := n.status.Term
		if int(t) >= len(c.leaderOf) || c.leaderOf[t] == 0 {
			c.histW()
		}
		for int(t) >= len(c.leaderOf) {
			c.leaderOf = append(c.leaderOf, 0)
		}
		if c.leaderOf[t] != 0 && c.leaderOf[t] != n.id {
			c.fail("ElectionSafety", "node %d became leader of term %d, which already had leader %d", n.id, t, c.leaderOf[t])
		}
		newLeader := !before.isLeader() || before.status.Term != t
		if c.leaderOf[t] == 0 {
			c.leaderOf[t] = n.id
		}
		if newLeader {
			c.flags |= fLeaderElected
			for i := 1; i < len(c.ledger); i++ {
				l := &c.ledger[i]
				if !l.set || l.cterm >= t {
					// Leader Completeness speaks about leaders of terms later than the one
					// in which the entry was committed (a stale leader of an earlier term
					// may legitimately lack it)
					continue
				}
				idx := uint64(i)
				if idx <= n.snapIdx || idx <= n.in.snapIdx {
					continue // inside the node's snapshot (boundary term checked above)
				}
				// the log as the RawNode sees it: a node that holds a Ready (apply lag) may
				// win an election with entries it has accepted but not yet handed out
				en, ok := n.memEntryAt(idx)
				if !ok {
					c.fail("LeaderCompleteness", "node %d became leader of term %d without entry %d (t%d,%q) committed in term %d; its log ends at %d", n.id, t, idx, l.term, l.data, l.cterm, n.memLastIndex())
					break
				}
				if en.Term != l.term || en.Type != l.typ || !bytes.Equal(en.Data, l.data) {
					c.fail("LeaderCompleteness", "node %d became leader of term %d holding (t%d,%q) at index %d where (t%d,%q) was committed in term %d", n.id, t, en.Term, en.Data, idx, l.term, l.data, l.cterm)
					break
				}
			}
		}
	} else if before.isLeader() && n.alive {
		c.flags |= fLeaderStepDown
		if e.K == evHeartbeat {
			c.flags |= fCheckQuorumDown
		}
	}
	// --- log matching against every other node (live or down: logs are persistent)
	for _, m := range c.nodes {
		if m != n {
			c.logMatching(n, m)
		}
	}
	// --- coverage: simultaneous leaders, joint / learner configs
	leaders := 0
	for _, m := range c.nodes {
		if m.isLeader() {
			leaders++
		}
		if m.snapIdx > 0 {
			c.flags |= fCompacted
		}
		if m.alive {
			if len(m.status.Config.Voters[1]) > 0 {
				c.flags |= fJoint
			}
			if len(m.status.Config.Learners) > 0 {
				c.flags |= fLearner
			}
		}
	}
	if leaders >= 2 {
		c.flags |= fTwoLeaders
	}
}

// logMatching: if two logs agree on the term of some index, they are identical at that
// index and at every earlier index both of them still hold (snapshot boundaries count as
// (index, term) pairs without data).
func (c *cluster) logMatching(a, b *node) {
	hi := a.lastIndex()
	if bl := b.lastIndex(); bl < hi {
		hi = bl
	}
	matched := false
	var at uint64
	for i := hi; i >= 1; i-- {
		ta, oka := a.termAt(i)
		tb, okb := b.termAt(i)
		if !oka || !okb {
			break
		}
		if ta == tb {
			ea, ha := a.entryAt(i)
			eb, hb := b.entryAt(i)
			if ha && hb && !sameEntry(ea, eb) {
				c.fail("LogMatching", "nodes %d and %d both hold index %d at term %d with different content: %q vs %q", a.id, b.id, i, ta, ea.Data, eb.Data)
				return
			}
			if !matched {
				matched, at = true, i
			}
		} else if matched {
			c.fail("LogMatching", "nodes %d and %d agree on (index %d, term) but differ at the earlier index %d: t%d vs t%d", a.id, b.id, at, i, ta, tb)
			return
		}
	}
}

// electableWithoutCommitted is the state form of Leader Completeness used as a look-ahead:
// it returns a node whose persisted log lacks a committed entry although its log is at least
// as up to date as the logs of a majority (so nothing in the voting rules would stop it from
// being elected). In a correct implementation no reachable state has such a node; when one is
// found the search does not report it but tries to drive that node to leadership (see
// expander.complete), and only the resulting genuine violation is reported.
// Only used for fixed memberships (majority of the initial members).
func (c *cluster) electableWithoutCommitted() (uint64, uint64) {
	if c.cfg.joiners() > 0 || c.bud.Lags > 0 || c.bud.Plags > 0 || c.bud.ConfChanges > 0 || c.bud.Batches > 0 {
		return 0, 0
	}
	type last struct{ term, idx uint64 }
	lasts := make([]last, len(c.nodes))
	for i, n := range c.nodes {
		li := n.lastIndex()
		t, _ := n.termAt(li)
		lasts[i] = last{t, li}
	}
	quorum := c.cfg.Members/2 + 1
	for i, n := range c.nodes {
		missing := uint64(0)
		for idx := 1; idx < len(c.ledger); idx++ {
			l := &c.ledger[idx]
			if !l.set || uint64(idx) <= n.snapIdx {
				continue
			}
			en, ok := n.entryAt(uint64(idx))
			if !ok || en.Term != l.term {
				missing = uint64(idx)
				break
			}
		}
		if missing == 0 {
			continue
		}
		votes := 0
		for j := range c.nodes {
			if lasts[i].term > lasts[j].term || (lasts[i].term == lasts[j].term && lasts[i].idx >= lasts[j].idx) {
				votes++
			}
		}
		if votes >= quorum {
			return n.id, missing
		}
	}
	return 0, 0
}
