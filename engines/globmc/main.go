// globmc — E5: exhaustive (pattern, subject) enumeration for KEYS glob matching (C17).
package main

import (
	"context"
	"encoding/json"
	"fmt"
	"os"
	"sort"
	"strconv"
	"strings"
	"sync"
	"time"

	"github.com/innovationb1ue/RedisGO/util"
	rt "github.com/innovationb1ue/RedisGO/verifrt"
	"verif/ev"
	"verif/h"
	"verif/model"
	"verif/pool"
)

const patAlpha = "ab*?[]^-\\"
const subAlpha = "abc-]^"

type task struct {
	Prefix string // pattern prefix (all completions up to MaxPat are enumerated)
	MaxPat int
	MaxSub int
	Keys   bool // second phase: through the KEYS command
	// byte-complete pass: ByteX = x+1 selects the families built from the byte x and every byte y
	// (single bytes, escapes, one-member classes, ranges [x-y] in all spellings), matched against
	// every one-byte subject; 0 = not a byte task
	ByteX int
}

type viol struct {
	Kind, Pattern, Subject, Detail, Shape string
	Expected, Got                         bool
}

type result struct {
	Pairs, Corner, Meta, Broken int
	KeysCalls                   int
	Viol                        []viol
	Samples                     []string
}

func skeleton(p string) string {
	var b strings.Builder
	for i := 0; i < len(p); i++ {
		switch p[i] {
		case 'a', 'b':
			b.WriteByte('L')
		default:
			b.WriteByte(p[i])
		}
	}
	return b.String()
}

func subjects(max int) []string {
	out := []string{""}
	prev := []string{""}
	for l := 1; l <= max; l++ {
		var cur []string
		for _, p := range prev {
			for i := 0; i < len(subAlpha); i++ {
				cur = append(cur, p+string(subAlpha[i]))
			}
		}
		out = append(out, cur...)
		prev = cur
	}
	return out
}

func safeMatch(p, s string) (res bool, panicked string) {
	defer func() {
		if r := recover(); r != nil {
			panicked = fmt.Sprint(r)
		}
	}()
	return util.PattenMatch(p, s), ""
}

func worker(tb []byte, progress func()) []byte {
	var t task
	json.Unmarshal(tb, &t)
	var res result
	subs := subjects(t.MaxSub)
	seenSig := map[string]bool{}
	addV := func(v viol) {
		sig := v.Kind + v.Shape
		if seenSig[sig] {
			return
		}
		seenSig[sig] = true
		res.Viol = append(res.Viol, v)
	}
	var mgrKeys []string
	var keysExec func(pattern string) ([]string, string)
	if t.Keys {
		h.Boot(2, 1)
		rt.CurMode = rt.Free
		mgr := h.NewManager()
		ctx := context.Background()
		keyset := subjects(2)
		if t.ByteX > 0 {
			keyset = byteSubjects()
		}
		for _, s := range keyset {
			if s == "" {
				continue
			}
			h.Exec(ctx, mgr, nil, h.B("SET", s, "v")...)
			mgrKeys = append(mgrKeys, s)
		}
		// one expired key that every pattern able to match "ab" would otherwise return
		h.Exec(ctx, mgr, nil, h.B("SET", "ab", "v", "EX", "1")...)
		rt.CurWorld().Advance(3e9)
		var live []string
		for _, k := range mgrKeys {
			if k != "ab" {
				live = append(live, k)
			}
		}
		mgrKeys = live
		keysExec = func(pattern string) (out []string, perr string) {
			defer func() {
				if r := recover(); r != nil {
					perr = fmt.Sprint(r)
				}
			}()
			b := h.Exec(ctx, mgr, nil, h.B("KEYS", pattern)...)
			v, err := model.DecodeOne(b)
			if err != nil || v.K != model.Array {
				return nil, fmt.Sprintf("bad reply %q", b)
			}
			for _, e := range v.Arr {
				out = append(out, string(e.S))
			}
			sort.Strings(out)
			return out, ""
		}
	}
	if t.ByteX > 0 {
		byteTask(&t, &res, addV, keysExec, mgrKeys)
		progress()
		b, _ := json.Marshal(res)
		return b
	}
	var rec func(p string)
	rec = func(p string) {
		if len(p) >= len(t.Prefix) {
			g := model.CompileGlob(p)
			hasMeta := strings.ContainsAny(p, "*?[]^-\\")
			if t.Keys {
				res.KeysCalls++
				got, perr := keysExec(p)
				if perr != "" {
					addV(viol{Kind: "keys-panic", Pattern: p, Detail: perr, Shape: skeleton(p)})
				} else if !g.Corner {
					var want []string
					for _, k := range mgrKeys {
						if g.Match(k) {
							want = append(want, k)
						}
					}
					sort.Strings(want)
					if strings.Join(want, "\x00") != strings.Join(got, "\x00") {
						addV(viol{Kind: "keys-mismatch", Pattern: p, Detail: fmt.Sprintf("KEYS %q: expected %q, got %q", p, want, got), Shape: skeleton(p)})
					}
				}
			} else {
				for _, s := range subs {
					res.Pairs++
					if g.Corner {
						res.Corner++
					}
					if hasMeta {
						res.Meta++
					}
					got, perr := safeMatch(p, s)
					if perr != "" {
						addV(viol{Kind: "panic", Pattern: p, Subject: s, Detail: perr, Shape: skeleton(p)})
						continue
					}
					if g.Corner {
						continue
					}
					want := g.Match(s)
					if got != want {
						addV(viol{Kind: "mismatch", Pattern: p, Subject: s, Expected: want, Got: got, Shape: skeleton(p) + "=" + strconv.FormatBool(want),
							Detail: fmt.Sprintf("PattenMatch(%q, %q) = %v, grammar says %v", p, s, got, want)})
					}
				}
				if g.Broken {
					res.Broken++
				}
				if len(res.Samples) < 2 && hasMeta && len(p) == t.MaxPat {
					res.Samples = append(res.Samples, fmt.Sprintf("pattern %q x %d subjects (e.g. %q -> %v)", p, len(subs), subs[len(subs)/2], g.Match(subs[len(subs)/2])))
				}
			}
		}
		if len(p) >= t.MaxPat {
			return
		}
		if len(p) <= len(t.Prefix)+1 {
			progress()
		}
		for i := 0; i < len(patAlpha); i++ {
			rec(p + string(patAlpha[i]))
		}
	}
	// the prefix itself and shorter patterns are covered by the task whose prefix they are;
	// the coordinator adds explicit tasks for the short ones.
	rec(t.Prefix)
	progress()
	b, _ := json.Marshal(res)
	return b
}

// byteSubjects: the empty string and every one-byte string.
func byteSubjects() []string {
	out := []string{""}
	for b := 0; b < 256; b++ {
		out = append(out, string([]byte{byte(b)}))
	}
	return out
}

// byteSkeleton abstracts the two free bytes of a byte-pass pattern away (signature of a violation).
func byteSkeleton(fam string, x, y int) string {
	cls := func(b int) string {
		switch {
		case b < 0:
			return ""
		case b == 0:
			return "00"
		case b == 0xff:
			return "ff"
		case b >= 0x80:
			return "hi"
		case strings.IndexByte("*?[]^-\\", byte(b)) >= 0:
			return "meta"
		default:
			return "lo"
		}
	}
	return "byte:" + fam + ":" + cls(x) + ":" + cls(y)
}

// byteTask: the byte-complete pass for x = t.ByteX-1.  Patterns are built from raw bytes (a byte that
// happens to be a metacharacter simply gives another pattern; the reference matcher parses whatever
// results).  Every pattern is announced before it is matched, so that a matcher that never returns is
// attributed to the exact pattern.
func byteTask(t *task, res *result, addV func(viol), keysExec func(string) ([]string, string), mgrKeys []string) {
	x := t.ByteX - 1
	X := string([]byte{byte(x)})
	subs := byteSubjects()
	run := func(fam string, y int, p string, extra ...string) {
		pool.Note([]byte(p))
		g := model.CompileGlob(p)
		shape := byteSkeleton(fam, x, y)
		if t.Keys {
			res.KeysCalls++
			got, perr := keysExec(p)
			if perr != "" {
				addV(viol{Kind: "keys-panic", Pattern: p, Detail: perr, Shape: shape})
			} else if !g.Corner {
				var want []string
				for _, k := range mgrKeys {
					if g.Match(k) {
						want = append(want, k)
					}
				}
				sort.Strings(want)
				if strings.Join(want, "\x00") != strings.Join(got, "\x00") {
					addV(viol{Kind: "keys-mismatch", Pattern: p, Detail: fmt.Sprintf("KEYS %q: expected %d keys %.60q, got %d keys %.60q", p, len(want), want, len(got), got), Shape: shape})
				}
			}
			return
		}
		ss := subs
		if len(extra) > 0 {
			ss = append(append([]string{}, subs...), extra...)
		}
		for _, s := range ss {
			res.Pairs++
			res.Meta++
			if g.Corner {
				res.Corner++
			}
			got, perr := safeMatch(p, s)
			if perr != "" {
				addV(viol{Kind: "panic", Pattern: p, Subject: s, Detail: perr, Shape: shape})
				break
			}
			if g.Corner {
				continue
			}
			want := g.Match(s)
			if got != want {
				addV(viol{Kind: "mismatch", Pattern: p, Subject: s, Expected: want, Got: got, Shape: shape + "=" + strconv.FormatBool(want),
					Detail: fmt.Sprintf("PattenMatch(%q, %q) = %v, grammar says %v", p, s, got, want)})
			}
		}
		if g.Broken {
			res.Broken++
		}
	}
	run("x", -1, X)
	run("\\x", -1, "\\"+X)
	run("[x]", -1, "["+X+"]")
	run("[^x]", -1, "[^"+X+"]")
	run("[\\x]", -1, "[\\"+X+"]")
	run("[^\\x]", -1, "[^\\"+X+"]")
	run("x*", -1, X+"*", X+X, X+"a")
	run("*x", -1, "*"+X, X+X, "a"+X)
	run("?x", -1, "?"+X, X+X, "a"+X)
	// a wildcard or a class next to an escape: the escaped byte is a literal wherever it stands
	run("*\\x", -1, "*\\"+X, "a"+X, X+X, "a"+X+"a")
	run("\\x*", -1, "\\"+X+"*", X+"a", X+X, "a"+X)
	run("*\\x*", -1, "*\\"+X+"*", "a"+X+"a", X+X+X, "aa")
	run("?\\x", -1, "?\\"+X, "a"+X, X+X)
	run("[a]\\x", -1, "[a]\\"+X, "a"+X, X+X)
	run("\\x**", -1, "\\"+X+"**", X+"a", X+"*a", X)
	run("**\\x", -1, "**\\"+X, "a"+X, "*"+X, X)
	for y := 0; y < 256; y++ {
		Y := string([]byte{byte(y)})
		run("[x-y]", y, "["+X+"-"+Y+"]")
		run("[^x-y]", y, "[^"+X+"-"+Y+"]")
		if !t.Keys {
			run("[\\x-\\y]", y, "[\\"+X+"-\\"+Y+"]")
			run("[x-\\y]", y, "["+X+"-\\"+Y+"]")
			run("[ax-y]", y, "[a"+X+"-"+Y+"]")
			run("xy", y, X+Y, X+Y, Y+X)
			run("[xy]", y, "["+X+Y+"]")
		}
	}
	if len(res.Samples) < 1 && !t.Keys {
		res.Samples = append(res.Samples, fmt.Sprintf("byte pass x=0x%02x: patterns x, \\x, [x], [^x], [x-y], [^x-y], [\\x-\\y], [ax-y], xy, [xy] for every byte y x %d one-byte subjects", x, len(subs)))
	}
}

func main() {
	pool.Register("globmc", worker)
	pool.WorkerMain()
	if len(os.Args) > 1 && os.Args[1] == "replay" {
		os.Exit(replay(os.Args[2]))
	}
	tier := os.Getenv("VERIF_TIER")
	maxPat, maxSub, keysPat := 5, 3, 4
	if tier == "thorough" {
		maxPat, maxSub, keysPat = 6, 4, 5
	}
	rep := ev.NewReport("C17", "model_checking")
	p := &pool.Pool{Handler: "globmc", N: 16, Timeout: 60 * time.Second, MemMB: 4096}
	var tasks [][]byte
	mk := func(prefix string, mp int, keys bool) {
		b, _ := json.Marshal(task{Prefix: prefix, MaxPat: mp, MaxSub: maxSub, Keys: keys})
		tasks = append(tasks, b)
	}
	// patterns of length 0 and 1 as their own (non-recursing) tasks, then one task per 2-char prefix
	mk("", 0, false)
	mk("", 0, true)
	for i := 0; i < len(patAlpha); i++ {
		mk(string(patAlpha[i]), 1, false)
		mk(string(patAlpha[i]), 1, true)
		for j := 0; j < len(patAlpha); j++ {
			pre := string(patAlpha[i]) + string(patAlpha[j])
			mk(pre, maxPat, false)
			if keysPat >= 2 {
				mk(pre, keysPat, true)
			}
		}
	}
	// byte-complete pass: one task per byte value x (direct), and per x through KEYS on a keyspace of
	// all 256 one-byte keys (thorough: every x; quick: the 24 bytes around the class boundaries)
	byteTasks := 0
	for x := 0; x < 256; x++ {
		b, _ := json.Marshal(task{ByteX: x + 1})
		tasks = append(tasks, b)
		byteTasks++
		if tier == "thorough" || x < 4 || x >= 252 || (x >= 0x7c && x < 0x84) || strings.IndexByte("*?[]^-\\a", byte(x)) >= 0 {
			b, _ := json.Marshal(task{ByteX: x + 1, Keys: true})
			tasks = append(tasks, b)
			byteTasks++
		}
	}
	var tot result
	crashes := 0
	// a matcher that never returns costs the hang bound once per task: after three such byte tasks the
	// rest of the byte pass is cut (reported, exhaustive:false) - the counterexamples are on record
	byteHangs, byteSkipped := 0, 0
	var skipMu sync.Mutex
	p.Skip = func(tb []byte) bool {
		var t task
		json.Unmarshal(tb, &t)
		skipMu.Lock()
		defer skipMu.Unlock()
		if t.ByteX > 0 && byteHangs >= 3 {
			byteSkipped++
			return true
		}
		return false
	}
	p.Map(tasks, func(tb, out []byte, crash *pool.Crash) [][]byte {
		var t task
		json.Unmarshal(tb, &t)
		if crash != nil {
			crashes++
			kind := "hang"
			if crash.Kind != "hang" {
				kind = "crash"
			}
			if t.ByteX > 0 {
				skipMu.Lock()
				byteHangs++
				skipMu.Unlock()
				pat := string(crash.Last)
				rep.Add(&ev.Violation{Engine: "globmc", Kind: kind, Cmd: "patternmatch", Shape: fmt.Sprintf("byte:x=%02x:%s", t.ByteX-1, byteClassOfPattern(pat)),
					Detail: fmt.Sprintf("worker %s while matching pattern %q (byte pass, via KEYS: %v): %s", crash.Kind, pat, t.Keys, crash.Detail),
					Replay: map[string]interface{}{"engine": "globmc", "pattern": pat, "subject": "a", "expected": model.GlobMatch(pat, "a"), "got": false, "via_keys": t.Keys, "hang": kind == "hang"}})
				return nil
			}
			rep.Add(&ev.Violation{Engine: "globmc", Kind: kind, Cmd: "patternmatch", Shape: skeleton(t.Prefix) + "...",
				Detail: fmt.Sprintf("worker %s while matching patterns with prefix %q: %s", crash.Kind, t.Prefix, crash.Detail),
				Replay: map[string]interface{}{"engine": "globmc", "prefix": t.Prefix, "max_pat": t.MaxPat, "max_sub": t.MaxSub}})
			return nil
		}
		var r result
		json.Unmarshal(out, &r)
		tot.Pairs += r.Pairs
		tot.Corner += r.Corner
		tot.Meta += r.Meta
		tot.Broken += r.Broken
		tot.KeysCalls += r.KeysCalls
		if len(tot.Samples) < 6 {
			tot.Samples = append(tot.Samples, r.Samples...)
		}
		for _, v := range r.Viol {
			cmd := "patternmatch"
			if strings.HasPrefix(v.Kind, "keys") {
				cmd = "keys"
			}
			rep.Add(&ev.Violation{Engine: "globmc", Kind: v.Kind, Cmd: cmd, Shape: v.Shape, Detail: v.Detail,
				Replay: map[string]interface{}{"engine": "globmc", "pattern": v.Pattern, "subject": v.Subject, "expected": v.Expected, "got": v.Got, "via_keys": cmd == "keys"}})
		}
		return nil
	})
	if len(tot.Samples) == 0 {
		tot.Samples = []string{"(none)"}
	}
	cov := map[string]interface{}{
		"states":                          tot.Pairs + tot.KeysCalls,
		"transitions":                     tot.Pairs + tot.KeysCalls,
		"traces_validated_against_impl":   tot.Pairs + tot.KeysCalls,
		"samples":                         tot.Samples,
		"exhaustive":                      crashes == 0 && byteSkipped == 0,
		"byte_pass_tasks_cut_after_hangs": byteSkipped,
		"pairs":                           tot.Pairs,
		"pairs_with_metacharacter":        tot.Meta,
		"pairs_in_unspecified_corners":    tot.Corner,
		"broken_patterns":                 tot.Broken,
		"keys_commands":                   tot.KeysCalls,
		"pattern_alphabet":                patAlpha,
		"subject_alphabet":                subAlpha,
		"max_pattern_len":                 maxPat,
		"max_subject_len":                 maxSub,
		"keys_max_pattern_len":            keysPat,
		"byte_pass_tasks":                 byteTasks,
		"byte_pass":                       "for every byte x and every byte y (all 65536 pairs): patterns x, \\x, [x], [^x], [\\x], x*, *x, ?x, *\\x, \\x*, *\\x*, ?\\x, [a]\\x, \\x**, **\\x, [x-y], [^x-y], [\\x-\\y], [x-\\y], [ax-y], xy, [xy] against the empty and every one-byte subject; [x-y] and [^x-y] also through KEYS on a keyspace of all 256 one-byte keys",
		"rule":                            "every pattern up to the length bound over {a,b,*,?,[,],^,-,\\} against every subject up to the length bound over {a,b,c,-,],^}: util.PattenMatch vs an independent reference matcher of the documented grammar; then every pattern through KEYS on a keyspace holding all subjects of length<=2 and one expired key. Corners the grammar leaves open (empty class, '-' first/last in a class, reversed range, '^' not first, escaped range endpoint) are computed but excluded from the verdict",
	}
	os.Exit(rep.Finish(cov, []string{"reference matcher verif/model/glob.go encodes the grammar of the property statement"}))
}

func byteClassOfPattern(p string) string {
	var b strings.Builder
	for i := 0; i < len(p); i++ {
		switch c := p[i]; {
		case strings.IndexByte("*?[]^-\\", c) >= 0:
			b.WriteByte(c)
		case c == 0xff:
			b.WriteString("<ff>")
		case c == 0:
			b.WriteString("<00>")
		case c >= 0x80:
			b.WriteString("<hi>")
		default:
			b.WriteByte('L')
		}
	}
	return b.String()
}

func replay(path string) int {
	b, err := os.ReadFile(path)
	if err != nil {
		fmt.Fprintln(os.Stderr, err)
		return 2
	}
	var v struct {
		Replay struct {
			Pattern, Subject string
			Expected         bool
		}
	}
	json.Unmarshal(b, &v)
	n := 0
	for i := 0; i < 2; i++ {
		type mr struct {
			got  bool
			perr string
		}
		ch := make(chan mr, 1)
		go func() {
			g, pe := safeMatch(v.Replay.Pattern, v.Replay.Subject)
			ch <- mr{g, pe}
		}()
		var got bool
		var perr string
		select {
		case r := <-ch:
			got, perr = r.got, r.perr
		case <-time.After(20 * time.Second):
			fmt.Printf("PattenMatch(%q,%q) did not return within 20 s (reference: %d steps)\n", v.Replay.Pattern, v.Replay.Subject, model.CompileGlob(v.Replay.Pattern).Steps)
			fmt.Println("reproduced: the matcher does not terminate")
			return 1
		}
		want := model.GlobMatch(v.Replay.Pattern, v.Replay.Subject)
		fmt.Printf("PattenMatch(%q,%q) = %v panic=%q ; reference = %v\n", v.Replay.Pattern, v.Replay.Subject, got, perr, want)
		if perr != "" || got != want {
			n++
		}
	}
	fmt.Printf("reproduced %d/2\n", n)
	if n == 2 {
		return 1
	}
	return 0
}
