// respmc — E4 (C02): RESP request decoding is exact, binary-safe and fragmentation-independent;
// malformed input never crashes the server, disturbs other connections or gets executed.
//
// Seams: resp.ParseStream(ctx, reader) with a reader that returns exactly the scripted chunks,
// and server.Manager.Handle over in-memory connections.
package main

import (
	"bytes"
	"context"
	"encoding/json"
	"fmt"
	"io"
	"math/big"
	"os"
	"runtime"
	"strings"
	"sync/atomic"
	"time"

	"github.com/innovationb1ue/RedisGO/resp"
	rt "github.com/innovationb1ue/RedisGO/verifrt"
	"verif/ev"
	"verif/h"
	"verif/model"
	"verif/pool"
)

// ------------------------------------------------------------------ scripted reader

type chunkReader struct {
	chunks [][]byte
	i      int
	reads  int
	// read deadlines, the way a net.Conn has them.  The environment answer explored with pause=true:
	// the peer is slower than any deadline the reader arms - before the first chunk, between every two
	// chunks and before the end of the stream a Read under an armed deadline fails once with a timeout.
	// A reader that never arms a deadline (the unchanged tree) cannot observe the pauses.
	pause     bool
	armed     bool
	expired   bool
	needPause bool
}

// pollingParser: some parser run armed a read deadline (then, and only then, the paused variants
// of every partition are run as well).
var pollingParser atomic.Bool

func (c *chunkReader) SetReadDeadline(t time.Time) error {
	c.armed, c.expired = !t.IsZero(), false
	if c.armed {
		pollingParser.Store(true)
	}
	return nil
}

func (c *chunkReader) Read(p []byte) (int, error) {
	c.reads++
	if c.expired {
		return 0, os.ErrDeadlineExceeded
	}
	if c.pause && c.needPause && c.armed {
		c.needPause, c.expired = false, true
		return 0, os.ErrDeadlineExceeded
	}
	for c.i < len(c.chunks) {
		ch := c.chunks[c.i]
		if len(ch) == 0 {
			c.i++
			return 0, nil // a zero-length read is legal for an io.Reader
		}
		n := copy(p, ch)
		if n < len(ch) {
			c.chunks[c.i] = ch[n:]
		} else {
			c.i++
			c.needPause = true
		}
		return n, nil
	}
	return 0, io.EOF
}

type parsed struct {
	Cmds    [][][]byte // array-of-strings values delivered
	Others  int        // non-array values delivered
	Errs    int        // protocol errors delivered
	EOF     bool
	Hang    bool
	Panic   string
	PanicFn string
}

// runParser feeds chunks to ParseStream and drains the channel.
func runParser(chunks [][]byte) parsed { return runParserP(chunks, false) }

func runParserP(chunks [][]byte, pause bool) parsed {
	var out parsed
	cp := make([][]byte, len(chunks))
	for i, c := range chunks {
		cp[i] = append([]byte{}, c...)
	}
	ctx, cancel := context.WithCancel(context.Background())
	defer cancel()
	ch := resp.ParseStream(ctx, &chunkReader{chunks: cp, pause: pause, needPause: true})
	timer := time.NewTimer(5 * time.Second)
	defer timer.Stop()
	tick := time.NewTicker(200 * time.Microsecond)
	defer tick.Stop()
	for {
		select {
		case <-tick.C:
			// a panic kills the parser goroutine without closing the channel: notice it at once
			if rt.HasFreePanics() {
				goto done
			}
		case r, ok := <-ch:
			if !ok {
				goto done
			}
			if r == nil {
				continue
			}
			if r.Err != nil {
				if r.Err == io.EOF {
					out.EOF = true
				} else {
					out.Errs++
				}
				continue
			}
			if a, ok := r.Data.(*resp.ArrayData); ok && a != nil {
				out.Cmds = append(out.Cmds, a.ToCommand())
			} else {
				out.Others++
			}
		case <-timer.C:
			// the parser goroutine may have died in a panic (captured by the runtime shim)
			out.Hang = true
			goto done
		}
	}
done:
	if p := rt.TakeFreePanics(); len(p) > 0 {
		out.Panic, out.PanicFn = p[0].Value, p[0].Func
		out.Hang = false
	}
	return out
}

// partitions enumerates every split of a stream of length L into chunks: all 2^(L-1) when
// L <= full, otherwise every partition with at most maxCuts cut points plus all-single-bytes.
func partitions(b []byte, full, maxCuts int, f func(chunks [][]byte, desc string)) int {
	L := len(b)
	n := 0
	if L <= full {
		for mask := 0; mask < 1<<uint(L-1); mask++ {
			var chunks [][]byte
			start := 0
			for i := 1; i < L; i++ {
				if mask>>(uint(i)-1)&1 == 1 {
					chunks = append(chunks, b[start:i])
					start = i
				}
			}
			chunks = append(chunks, b[start:])
			f(chunks, fmt.Sprintf("mask=%b", mask))
			n++
		}
		return n
	}
	f([][]byte{b}, "whole")
	n++
	for i := 1; i < L; i++ {
		f([][]byte{b[:i], b[i:]}, fmt.Sprintf("cut@%d", i))
		n++
		if maxCuts >= 2 {
			for j := i + 1; j < L; j++ {
				f([][]byte{b[:i], b[i:j], b[j:]}, fmt.Sprintf("cut@%d,%d", i, j))
				n++
				if maxCuts >= 3 && L <= 40 {
					for k := j + 1; k < L; k++ {
						f([][]byte{b[:i], b[i:j], b[j:k], b[k:]}, fmt.Sprintf("cut@%d,%d,%d", i, j, k))
						n++
					}
				}
			}
		}
	}
	var singles [][]byte
	for i := range b {
		singles = append(singles, b[i:i+1])
	}
	f(singles, "single-bytes")
	n++
	// zero-length reads interleaved (a deviation): before the first byte and in the middle
	f([][]byte{{}, b[:L/2], {}, b[L/2:]}, "zero-length-reads")
	n++
	return n
}

const argAlpha = "\r\n\x00\xffa$* "

func argStrings(maxLen int) []string {
	out := []string{""}
	prev := []string{""}
	for l := 1; l <= maxLen; l++ {
		var cur []string
		for _, p := range prev {
			for i := 0; i < len(argAlpha); i++ {
				cur = append(cur, p+string(argAlpha[i]))
			}
		}
		out = append(out, cur...)
		prev = cur
	}
	return out
}

type task struct {
	Kind  string // wellformed | malformed | handle
	Shard int
	Of    int
	Tier  string
}

type viol struct {
	Kind, Cmd, Shape, Func, Detail string
	Input                          []byte
	Chunks                         string
}

type result struct {
	Runs, Streams, Distinct int
	Paused                  int // partitions run a second time with read-deadline expiries (only for a parser that arms deadlines)
	Cut                     int // handle-level inputs not run after three stuck handlers in the task
	Viol                    []viol
	Samples                 []string
}

func equalCmds(a, b [][][]byte) bool {
	if len(a) != len(b) {
		return false
	}
	for i := range a {
		if len(a[i]) != len(b[i]) {
			return false
		}
		for j := range a[i] {
			if !bytes.Equal(a[i][j], b[i][j]) {
				return false
			}
		}
	}
	return true
}

func fmtCmds(c [][][]byte) string {
	var s []string
	for _, cmd := range c {
		var a []string
		for _, x := range cmd {
			if len(x) > 40 {
				a = append(a, fmt.Sprintf("<%d bytes>", len(x)))
			} else {
				a = append(a, fmt.Sprintf("%q", x))
			}
		}
		s = append(s, "["+strings.Join(a, " ")+"]")
	}
	return strings.Join(s, " ")
}

func wellformedStreams(tier string) [][][][]byte {
	// each element: a pipeline (sequence of commands) to encode
	var out [][][][]byte
	l2 := argStrings(2)
	l1 := argStrings(1)
	if tier == "thorough" {
		l2 = argStrings(3)
	}
	big := bytes.Repeat([]byte("ab\r\n"), 1250) // 5000 bytes: crosses the 4096-byte bufio buffer
	for _, a := range l2 {
		out = append(out, [][][]byte{{[]byte(a)}})
	}
	out = append(out, [][][]byte{{big}}, [][][]byte{{[]byte("SET"), []byte("k"), big}}, [][][]byte{{big}, {[]byte("PING")}})
	for _, a := range l1 {
		for _, b := range l1 {
			out = append(out, [][][]byte{{[]byte(a), []byte(b)}})
		}
	}
	for _, a := range []string{"", "\r", "\n", "$"} {
		for _, b := range []string{"", "\r\n", "*"} {
			for _, c := range []string{"", "\xff", "a"} {
				out = append(out, [][][]byte{{[]byte(a), []byte(b), []byte(c)}})
			}
		}
	}
	// pipelines
	small := [][][]byte{{[]byte("PING")}, {[]byte("GET"), []byte("\r\n")}, {[]byte("")}, {[]byte("SET"), []byte(""), []byte("$1")}, {[]byte("*1\r\n$4\r\nPING\r\n")}, {}}
	for _, a := range small {
		for _, b := range small {
			out = append(out, [][][]byte{a, b})
			if tier == "thorough" {
				for _, c := range small {
					out = append(out, [][][]byte{a, b, c})
				}
			}
		}
	}
	out = append(out, [][][]byte{{[]byte("PING")}, {[]byte("GET"), []byte("k")}, {[]byte("SET"), []byte("k"), []byte("v")}})
	return out
}

func encodeStream(cmds [][][]byte) []byte {
	var b []byte
	for _, c := range cmds {
		b = append(b, model.EncodeCommand(c)...)
	}
	return b
}

const malAlpha = "*$+-:012a\r\n"

func malformedStrings(maxLen int) [][]byte {
	var out [][]byte
	prev := [][]byte{{}}
	for l := 1; l <= maxLen; l++ {
		var cur [][]byte
		for _, p := range prev {
			for i := 0; i < len(malAlpha); i++ {
				cur = append(cur, append(append([]byte{}, p...), malAlpha[i]))
			}
		}
		out = append(out, cur...)
		prev = cur
	}
	return out
}

// truncatedStreams: every proper prefix of a few well-formed (pipelined) command streams - a client
// that disconnects at every possible byte position.
func truncatedStreams() [][]byte {
	var out [][]byte
	for _, cmds := range [][][]string{
		{{"PING"}},
		{{"SET", "k", "ab"}},
		{{"ECHO", ""}, {"PING"}},
		{{"GET", "k\r\n"}},
	} {
		var b []byte
		for _, c := range cmds {
			b = append(b, model.EncodeCommand(h.B(c...))...)
		}
		for cut := 1; cut < len(b); cut++ {
			out = append(out, append([]byte{}, b[:cut]...))
		}
	}
	return out
}

func targetedMalformed() [][]byte {
	var out [][]byte
	add := func(s string) { out = append(out, []byte(s)) }
	for _, d := range []int{-2, -1, 1, 2} {
		add(fmt.Sprintf("*1\r\n$%d\r\nPING\r\n", 4+d))
	}
	add("*2\r\n$4\r\nPING\r\n")           // array longer than supplied
	add("*0\r\n$4\r\nPING\r\n")           // array shorter than supplied
	add("*1\r\n$4\r\nPING\n")             // LF without CR
	add("*1\r\n$4\r\nPING\r")             // CR without LF
	add("\n")                             // bare LF
	add("*1\n$4\nPING\n")                 // bare LFs
	add("*-2\r\n")                        // negative array length
	add("*1\r\n$-2\r\n")                  // negative bulk length
	add("*1\r\n$9223372036854775807\r\n") // huge bulk length
	add("*1\r\n$4294967296\r\nx")         // 4 GiB bulk
	add("*9223372036854775807\r\n")       // huge array length
	add("*abc\r\n")
	add("*1\r\n$abc\r\n")
	add("*1\r\n$\r\n")
	add("*\r\n")
	add("$\r\n")
	add("*1\r\n*1\r\n$4\r\nPING\r\n") // nested array
	add("*1\r\n+PING\r\n")            // simple string inside array
	add("*1\r\n:1\r\n")
	add("*1\r\nPING\r\n")                      // untyped text where a bulk is expected
	add("*2\r\n$3\r\nGET\r\nfoo\r\n")          // ... after a proper first argument
	add("*2\r\nGET\r\n$3\r\nfoo\r\n")          // ... before a proper second argument
	add("*2\r\n$3\r\nGET\r\n\r\n")             // empty line where a bulk is expected
	add("*3\r\n$3\r\nSET\r\n$1\r\nk\r\nv\r\n") // ... as the last argument
	add("PING\r\n")                            // inline command
	add("\r\n")
	add("*1\r\n$4\r\nPI")
	// declared counts / lengths that are out of range but congruent to a small valid value modulo a
	// power of two (a hand-rolled or narrowing integer parser wraps them into range): the rest of the
	// stream is what the wrapped value would make well-formed, so a wrapping parser delivers a command
	for _, base := range []string{"4294967296", "9223372036854775808", "18446744073709551616", "36893488147419103232", "184467440737095516160", "340282366920938463463374607431768211456"} {
		b, _ := new(big.Int).SetString(base, 10)
		for _, k := range []int64{1, 2} {
			n := new(big.Int).Add(b, big.NewInt(k)).String()
			args := "$4\r\nPING\r\n"
			if k == 2 {
				args += "$1\r\nx\r\n"
			}
			add("*" + n + "\r\n" + args)                                            // array count = base + k, k arguments follow
			add("*-" + new(big.Int).Sub(b, big.NewInt(k)).String() + "\r\n" + args) // -(base - k) wraps to k
		}
		n4 := new(big.Int).Add(b, big.NewInt(4)).String()
		add("*1\r\n$" + n4 + "\r\nPING\r\n")                                           // bulk length = base + 4
		add("*1\r\n$-" + new(big.Int).Sub(b, big.NewInt(4)).String() + "\r\nPING\r\n") // -(base - 4) wraps to 4
		add("*1\r\n$" + new(big.Int).Sub(b, big.NewInt(1)).String() + "\r\n")          // base - 1 wraps to -1 (nil bulk)
	}
	return append(out, truncatedStreams()...)
}

// admissible: every array delivered from a malformed stream must be the decoding of a
// well-formed array-of-bulks (or inline element) substring of the input.
func admissible(input []byte, cmd [][]byte) bool {
	if bytes.Contains(input, model.EncodeCommand(cmd)) {
		return true
	}
	// an array of other RESP scalars (+simple, :int, -error) is well-formed RESP too: accept the
	// delivered vector when some well-formed array value inside the input decodes to it
	for i := range input {
		if input[i] != '*' {
			continue
		}
		v, _, err := model.Decode(input[i:])
		if err != nil || v.K != model.Array || len(v.Arr) != len(cmd) {
			continue
		}
		same := true
		for j, e := range v.Arr {
			var b []byte
			switch e.K {
			case model.Simple, model.Error, model.Bulk:
				b = e.S
			case model.Int:
				b = []byte(fmt.Sprint(e.I))
			case model.Nil:
				b = nil
			default:
				same = false
			}
			if !bytes.Equal(b, cmd[j]) {
				same = false
			}
		}
		if same {
			return true
		}
	}
	return false
}

func worker(tb []byte, progress func()) []byte {
	var t task
	json.Unmarshal(tb, &t)
	h.Boot(2, 1)
	rt.CurMode = rt.Free
	// one P: what a parser puts into a sync.Pool when its stream ends is what the next stream's parser
	// gets (with several Ps that depends on where the goroutines land) - resource reuse across
	// connections is part of what is explored, so it has to be deterministic
	runtime.GOMAXPROCS(1)
	var res result
	seen := map[string]bool{}
	addV := func(v viol) {
		k := v.Kind + "|" + v.Shape
		if seen[k] {
			return
		}
		seen[k] = true
		res.Viol = append(res.Viol, v)
	}
	maxCuts := 2
	if t.Tier == "thorough" {
		maxCuts = 3
	}
	switch t.Kind {
	case "wellformed":
		streams := wellformedStreams(t.Tier)
		for si, cmds := range streams {
			if si%t.Of != t.Shard {
				continue
			}
			progress()
			b := encodeStream(cmds)
			res.Streams++
			shape := streamShape(cmds)
			full := 16
			if len(b) > 2000 {
				// the 5000-byte argument: cuts around the buffer boundary and a sample of positions
				for _, cut := range []int{1, 9, 10, 4095, 4096, 4097, len(b) - 3, len(b) - 2, len(b) - 1} {
					if cut <= 0 || cut >= len(b) {
						continue
					}
					res.Runs++
					got := runParser([][]byte{b[:cut], b[cut:]})
					checkWell(&res, addV, cmds, b, got, shape, fmt.Sprintf("cut@%d", cut))
				}
				res.Runs++
				checkWell(&res, addV, cmds, b, runParser([][]byte{b}), shape, "whole")
				continue
			}
			res.Runs += partitions(b, full, maxCuts, func(chunks [][]byte, desc string) {
				got := runParser(chunks)
				checkWell(&res, addV, cmds, b, got, shape, desc)
				if pollingParser.Load() {
					res.Paused++
					checkWell(&res, addV, cmds, b, runParserP(chunks, true), shape, desc+", the reader's own read deadline expiring before every chunk")
				}
			})
			if len(res.Samples) < 2 {
				res.Samples = append(res.Samples, fmt.Sprintf("well-formed %s (%d bytes) under every partition", fmtCmds(cmds), len(b)))
			}
		}
	case "lengths":
		// every argument length around any plausible buffer size and every element count of a
		// many-argument command: decoding must not depend on where an argument ends in a buffer
		var streams [][][][]byte
		for n := 0; n <= 1100; n++ {
			if n > 600 && n < 1000 {
				continue
			}
			v := bytes.Repeat([]byte("v"), n)
			streams = append(streams, [][][]byte{{[]byte("ECHO"), v}}, [][][]byte{{[]byte("SET"), []byte("k"), v}}, [][][]byte{{v}})
		}
		for m := 1; m <= 130; m++ {
			c := [][]byte{[]byte("RPUSH"), []byte("l")}
			for i := 0; i < m; i++ {
				c = append(c, []byte("elem5"))
			}
			streams = append(streams, [][][]byte{c})
			c2 := [][]byte{[]byte("DEL")}
			for i := 0; i < m; i++ {
				c2 = append(c2, []byte(""))
			}
			streams = append(streams, [][][]byte{c2}, [][][]byte{c, {[]byte("PING")}})
		}
		for si, cmds := range streams {
			if si%t.Of != t.Shard {
				continue
			}
			if si%64 == 0 {
				progress()
			}
			b := encodeStream(cmds)
			res.Streams++
			shape := fmt.Sprintf("lengths:%d-args,last-arg-%d-bytes", len(cmds[0]), len(cmds[0][len(cmds[0])-1]))
			for _, cut := range []int{0, 1, len(b) / 2, len(b) - 1} {
				res.Runs++
				if cut <= 0 || cut >= len(b) {
					checkWell(&res, addV, cmds, b, runParser([][]byte{b}), shape, "whole")
					continue
				}
				checkWell(&res, addV, cmds, b, runParser([][]byte{b[:cut], b[cut:]}), shape, fmt.Sprintf("cut@%d", cut))
			}
		}
	case "malformed":
		maxLen := 4
		if t.Tier == "thorough" {
			maxLen = 5
		}
		all := append(targetedMalformed(), malformedStrings(maxLen)...)
		ping := model.EncodeCommand(h.B("PING"))
		for mi, m := range all {
			if mi%t.Of != t.Shard {
				continue
			}
			if mi%512 == 0 {
				progress()
			}
			pool.Note(m)
			res.Streams++
			for place, in := range [][]byte{m, append(append([]byte{}, m...), ping...), append(append([]byte{}, ping...), m...), append(append(append([]byte{}, ping...), m...), ping...)} {
				res.Runs++
				got := runParser([][]byte{in})
				shape := malShape(m)
				if got.Panic != "" {
					addV(viol{Kind: "parser-panic", Cmd: "parse", Shape: shape, Func: got.PanicFn, Detail: fmt.Sprintf("input %q: parser goroutine panics: %s", in, got.Panic), Input: in})
					continue
				}
				if got.Hang {
					addV(viol{Kind: "parser-hang", Cmd: "parse", Shape: shape, Detail: fmt.Sprintf("input %q: the parser does not terminate after EOF", in), Input: in})
					continue
				}
				// the stream that ended must not disturb another connection: a fresh stream decodes exactly
				if place == 0 {
					res.Runs++
					pr := runParser([][]byte{ping})
					if pr.Panic != "" || pr.Hang || len(pr.Cmds) != 1 || len(pr.Cmds[0]) != 1 || string(pr.Cmds[0][0]) != "PING" || pr.Errs != 0 {
						addV(viol{Kind: "other-stream-disturbed", Cmd: "parse", Shape: shape, Detail: fmt.Sprintf("after the stream %q ended, a fresh stream carrying one PING decodes as %s (errors %d, panic %q)", in, fmtCmds(pr.Cmds), pr.Errs, pr.Panic), Input: in})
					}
				}
				for _, c := range got.Cmds {
					if len(c) == 0 {
						continue // an empty array carries no command: nothing can be executed from it
					}
					if !admissible(in, c) {
						addV(viol{Kind: "executed-from-malformed", Cmd: "parse", Shape: shape, Detail: fmt.Sprintf("input %q (placement %d): delivered command %s that is not a well-formed command of the input", in, place, fmtCmds([][][]byte{c})), Input: in})
						break
					}
				}
			}
		}
		if len(res.Samples) < 2 && t.Shard == 0 {
			res.Samples = append(res.Samples, fmt.Sprintf("malformed %q alone / before / after / between PINGs", all[len(all)/2]))
		}
	case "handle":
		// connection level: malformed input on one connection, then a second connection must still be served
		all := append(targetedMalformed(), malformedStrings(3)...)
		mgr := h.NewManager()
		stuck := 0 // every handler that never finishes costs h.Patience: the task is cut after three
		for mi, m := range all {
			if mi%t.Of != t.Shard {
				continue
			}
			if stuck >= 3 {
				res.Cut++
				continue
			}
			if mi%64 == 0 {
				progress()
			}
			pool.Note(m)
			res.Streams++
			res.Runs++
			ctx, cancel := context.WithCancel(context.Background())
			bad := h.NewConn("bad")
			go mgr.Handle(ctx, bad)
			bad.Send(m)
			bad.EOF()
			closed := bad.WaitClosed(5 * time.Second)
			shape := malShape(m)
			if p := rt.TakeFreePanics(); len(p) > 0 {
				addV(viol{Kind: "server-panic", Cmd: "handle", Shape: shape, Func: p[0].Func, Detail: fmt.Sprintf("input %q on a connection: panic in a server goroutine: %s (the real server has no recover: process exit)", m, p[0].Value), Input: m})
				mgr = h.NewManager()
				cancel()
				continue
			}
			if !closed {
				stuck++
				progress()
				addV(viol{Kind: "connection-not-closed", Cmd: "handle", Shape: shape, Detail: fmt.Sprintf("input %q then EOF: the connection handler never finishes", m), Input: m})
			}
			good := h.NewConn("good")
			go mgr.Handle(ctx, good)
			good.Send(model.EncodeCommand(h.B("PING")))
			_, v, st := good.TakeReply(5 * time.Second)
			if st != "ok" || !v.IsStr() || string(v.S) != "PONG" {
				if st == "timeout" {
					stuck++
					progress()
				}
				addV(viol{Kind: "other-connection-disturbed", Cmd: "handle", Shape: shape, Detail: fmt.Sprintf("after input %q on another connection, PING on a fresh connection: %s %s", m, st, v), Input: m})
			}
			good.EOF()
			cancel()
		}
	}
	b, _ := json.Marshal(res)
	return b
}

func checkWell(res *result, addV func(viol), cmds [][][]byte, b []byte, got parsed, shape, desc string) {
	var want [][][]byte
	for _, c := range cmds {
		if len(c) == 0 {
			want = append(want, [][]byte{})
			continue
		}
		want = append(want, c)
	}
	switch {
	case got.Panic != "":
		addV(viol{Kind: "parser-panic", Cmd: "parse", Shape: shape, Func: got.PanicFn, Detail: fmt.Sprintf("well-formed %s split as %s: parser panics: %s", fmtCmds(cmds), desc, got.Panic), Input: b, Chunks: desc})
	case got.Hang:
		addV(viol{Kind: "parser-hang", Cmd: "parse", Shape: shape, Detail: fmt.Sprintf("well-formed %s split as %s: parser does not finish", fmtCmds(cmds), desc), Input: b, Chunks: desc})
	case got.Errs > 0:
		addV(viol{Kind: "wellformed-rejected", Cmd: "parse", Shape: shape, Detail: fmt.Sprintf("well-formed %s split as %s: %d protocol errors reported", fmtCmds(cmds), desc, got.Errs), Input: b, Chunks: desc})
	case !equalCmds(normEmpty(got.Cmds), normEmpty(want)):
		addV(viol{Kind: "decode-mismatch", Cmd: "parse", Shape: shape, Detail: fmt.Sprintf("well-formed %s split as %s: decoded %s", fmtCmds(cmds), desc, fmtCmds(got.Cmds)), Input: b, Chunks: desc})
	case !got.EOF:
		addV(viol{Kind: "no-eof", Cmd: "parse", Shape: shape, Detail: fmt.Sprintf("well-formed %s split as %s: end of stream not reported", fmtCmds(cmds), desc), Input: b, Chunks: desc})
	default:
		res.Distinct++
	}
}

func normEmpty(c [][][]byte) [][][]byte {
	out := make([][][]byte, len(c))
	for i, cmd := range c {
		out[i] = make([][]byte, len(cmd))
		for j, a := range cmd {
			if a == nil {
				a = []byte{}
			}
			out[i][j] = a
		}
	}
	return out
}

func streamShape(cmds [][][]byte) string {
	var parts []string
	for _, c := range cmds {
		var a []string
		for _, x := range c {
			switch {
			case len(x) == 0:
				a = append(a, "empty")
			case len(x) > 1000:
				a = append(a, "big")
			case bytes.ContainsAny(x, "\r\n"):
				a = append(a, "crlf")
			case bytes.ContainsAny(x, "\x00\xff"):
				a = append(a, "bin")
			default:
				a = append(a, "txt")
			}
		}
		parts = append(parts, fmt.Sprintf("(%s)", strings.Join(a, ",")))
	}
	return strings.Join(parts, "")
}

// malShape abstracts a malformed string: digits -> 'd', letters -> 'a', CR -> 'r', LF -> 'n'.
func malShape(m []byte) string {
	var b strings.Builder
	for i, c := range m {
		if i >= 24 {
			b.WriteString("…")
			break
		}
		switch {
		case c >= '0' && c <= '9':
			b.WriteByte('d')
		case c == '\r':
			b.WriteByte('r')
		case c == '\n':
			b.WriteByte('n')
		case c >= 'a' && c <= 'z' || c >= 'A' && c <= 'Z':
			b.WriteByte('a')
		default:
			b.WriteByte(c)
		}
	}
	return b.String()
}

func main() {
	pool.Register("respmc", worker)
	pool.WorkerMain()
	if len(os.Args) > 1 && os.Args[1] == "replay" {
		os.Exit(replay(os.Args[2]))
	}
	tier := os.Getenv("VERIF_TIER")
	if tier != "thorough" {
		tier = "quick"
	}
	rep := ev.NewReport("C02", "exploration")
	p := &pool.Pool{Handler: "respmc", N: 16, Timeout: 4 * time.Minute, MemMB: 3072}
	var tasks [][]byte
	for _, k := range []string{"wellformed", "lengths", "malformed", "handle"} {
		n := 16
		if k == "malformed" {
			n = 64
		}
		for s := 0; s < n; s++ {
			b, _ := json.Marshal(task{Kind: k, Shard: s, Of: n, Tier: tier})
			tasks = append(tasks, b)
		}
	}
	runs, streams, distinct, crashes, cutInputs, paused := 0, 0, 0, 0, 0, 0
	var samples []string
	perKind := map[string]int{}
	p.Map(tasks, func(tb, out []byte, crash *pool.Crash) [][]byte {
		var t task
		json.Unmarshal(tb, &t)
		if crash != nil {
			crashes++
			kind := "worker-" + crash.Kind
			if pool.IsOOM(crash) {
				kind = "oom"
			}
			shape := fmt.Sprintf("shard%d/%d", t.Shard, t.Of)
			if crash.Last != nil {
				shape = malShape(crash.Last)
			}
			rep.Add(&ev.Violation{Engine: "respmc", Kind: kind, Cmd: t.Kind, Shape: shape,
				Detail: fmt.Sprintf("worker %s in %s shard %d/%d while processing input %q: %s", crash.Kind, t.Kind, t.Shard, t.Of, crash.Last, firstLines(crash.Detail)),
				Replay: map[string]interface{}{"engine": "respmc", "kind": t.Kind, "shard": t.Shard, "of": t.Of, "input": crash.Last}})
			return nil
		}
		var r result
		json.Unmarshal(out, &r)
		runs += r.Runs + r.Paused
		paused += r.Paused
		streams += r.Streams
		cutInputs += r.Cut
		distinct += r.Distinct
		perKind[t.Kind] += r.Runs
		if len(samples) < 6 {
			samples = append(samples, r.Samples...)
		}
		for _, v := range r.Viol {
			rep.Add(&ev.Violation{Engine: "respmc", Kind: v.Kind, Cmd: v.Cmd, Shape: v.Shape, Func: v.Func, Detail: v.Detail,
				Replay: map[string]interface{}{"engine": "respmc", "input": v.Input, "input_quoted": fmt.Sprintf("%q", v.Input), "chunks": v.Chunks, "kind": v.Kind}})
		}
		return nil
	})
	if len(samples) == 0 {
		samples = []string{"(none)"}
	}
	cov := map[string]interface{}{
		"evaluations":         runs,
		"distinct_nontrivial": distinct + streams,
		"rule":                "well-formed: argument vectors over {CR,LF,NUL,0xFF,a,$,*,space} (all strings up to the length bound, 1-3 arguments, pipelines of 1-3 commands, one 5000-byte argument; family lengths: one argument of every length 0..600 and 1000..1100 in three command shapes, commands of 1..130 arguments, whole and under three cuts) x every partition of the encoded stream into read chunks (all 2^(L-1) when L<=16, else every partition with <= the cut bound, all-single-bytes, zero-length reads; and, for a parser that arms read deadlines on its reader, every partition again with the deadline expiring before every chunk): decoded commands must equal the encoded ones. malformed: every byte string up to the length bound over {*,$,+,-,:,0,1,2,a,CR,LF} plus targeted families, alone and before/after/between PINGs: no panic, parser terminates, nothing delivered that is not a well-formed command of the input; at Handle level the connection is closed and a second connection still gets PONG. distinct_nontrivial = (stream, partition) runs decoded correctly + distinct input streams",
		"samples":             samples,
		"exhaustive":          crashes == 0 && cutInputs == 0,
		"handle_inputs_cut_after_three_stuck_handlers": cutInputs,
		"streams": streams,
		"partitions_rerun_with_read_deadline_expiries": paused,
		"runs_per_family": perKind,
		"worker_crashes":  crashes,
	}
	// connection-level stage: pipelines through the real connection handler with the parser goroutine
	// running ahead of it, under the interleaving explorer (engines/concmc, handle.go)
	if sum, ran, err := rep.ConcStage("C02"); err != nil {
		fmt.Fprintln(os.Stderr, "respmc:", err)
		os.Exit(2)
	} else if ran {
		cov["concurrent_stage"] = sum
	}
	os.Exit(rep.Finish(cov, []string{"the in-memory connection delivers exactly the scripted chunks; TCP-level behaviour of the built binary is not exercised"}))
}

func firstLines(s string) string {
	l := strings.SplitN(s, "\n", 3)
	if len(l) > 2 {
		l = l[:2]
	}
	return strings.Join(l, " | ")
}

func replay(path string) int {
	b, err := os.ReadFile(path)
	if err != nil {
		fmt.Fprintln(os.Stderr, err)
		return 2
	}
	var v struct {
		Kind   string
		Replay struct {
			Input []byte
			Kind  string
		}
	}
	json.Unmarshal(b, &v)
	h.Boot(2, 1)
	rt.CurMode = rt.Free
	n := 0
	for i := 0; i < 2; i++ {
		got := runParser([][]byte{v.Replay.Input})
		fmt.Printf("input %q -> cmds %s others=%d errs=%d eof=%v hang=%v panic=%q\n", v.Replay.Input, fmtCmds(got.Cmds), got.Others, got.Errs, got.EOF, got.Hang, got.Panic)
		if got.Panic != "" || got.Hang {
			n++
		}
	}
	fmt.Printf("reproduced %d/2 (panic/hang kinds only; other kinds: compare the decoded commands above with the input)\n", n)
	if n == 2 {
		return 1
	}
	return 0
}
