// dbmc — C20: numbered databases are isolated and selection is per connection.
// Explicit-state search over all merges of per-connection command programs, executed through
// server.Manager.Handle on in-memory connections (one Handle goroutine per connection, as
// server.Start does), compared with a model holding one keyspace per database and one selected
// index per connection.
package main

import (
	"context"
	"encoding/json"
	"fmt"
	"hash/fnv"
	"os"
	"strconv"
	"strings"
	"time"

	"github.com/innovationb1ue/RedisGO/server"
	rt "github.com/innovationb1ue/RedisGO/verifrt"
	"verif/ev"
	"verif/h"
	"verif/model"
	"verif/pool"
)

type event struct {
	Conn int
	Cmd  int
}

var selArgs = []string{"0", "1", "2", "15", "16", "-1", "", "a", "1.5", "+1", "01", "99999999999999999999", " 1",
	// spellings another integer parser would take (base prefixes, digit separators, octal)
	"0x1", "0b1", "0o1", "1_0", "010"}

func alphabet() [][]string {
	var a [][]string
	for _, x := range selArgs {
		a = append(a, []string{"SELECT", x})
	}
	// the command name in other letter cases (the dispatcher folds names; whatever else looks at the
	// name before it must agree)
	a = append(a, []string{"select", "1"}, []string{"Select", "1"}, []string{"sElEcT", "0"})
	a = append(a, []string{"select", "1", "2"}, []string{"SELECT"},
		[]string{"@reconnect"},
		[]string{"SET", "k", "@"}, []string{"GET", "k"}, []string{"DEL", "k"}, []string{"KEYS", "*"}, []string{"EXISTS", "k"}, []string{"APPEND", "k", "x"},
		// expiry metadata is per database as well: a ttl given to k in one database is not k's ttl in another
		[]string{"EXPIRE", "k", "100"}, []string{"SETEX", "k", "100", "@"}, []string{"TTL", "k"}, []string{"PERSIST", "k"})
	return a
}

type cfg struct {
	Databases int
	Conns     int
	PerConn   int
}

type mstate struct {
	dbs []*model.KS
	sel []int
	// ghost: what the connection slots had selected when their previous client disconnected. The
	// model does not depend on it, but an implementation that recycles per-connection state does, so
	// it is part of the state key (states that differ only here must not be merged).
	ghost []string
	// impl: implementation state no reply has shown yet (which database the manager new
	// connections start from points at).  Constant on a correct tree; part of the state key so that a
	// path that disturbs it is expanded even when the model state it reaches was seen before.
	impl string
}

func newM(c cfg) *mstate {
	m := &mstate{}
	for i := 0; i < c.Databases; i++ {
		m.dbs = append(m.dbs, model.NewKS(rt.Epoch*1000))
	}
	m.sel = make([]int, c.Conns)
	return m
}

func (m *mstate) key(budget []int) uint64 {
	hs := fnv.New64a()
	for i, d := range m.dbs {
		fmt.Fprintf(hs, "db%d:%s|", i, model.CanonString(d.Canon()))
	}
	fmt.Fprintf(hs, "sel%v|b%v|g%v|i%s", m.sel, budget, m.ghost, m.impl)
	return hs.Sum64()
}

type inst struct {
	mgr    *server.Manager
	conns  []*h.Conn
	cancel context.CancelFunc
	ctx    context.Context
}

func newInst(c cfg) *inst {
	h.Boot(2, c.Databases)
	x := &inst{mgr: h.NewManager()}
	ctx, cancel := context.WithCancel(context.Background())
	x.cancel = cancel
	x.ctx = ctx
	for i := 0; i < c.Conns; i++ {
		cn := h.NewConn(fmt.Sprintf("c%d", i))
		x.conns = append(x.conns, cn)
		go x.mgr.Handle(ctx, cn)
	}
	return x
}

func (x *inst) reconnect(i int) {
	cn := h.NewConn(fmt.Sprintf("c%d'", i))
	x.conns[i] = cn
	go x.mgr.Handle(x.ctx, cn)
}

func (x *inst) close() {
	for _, c := range x.conns {
		c.EOF()
	}
	x.cancel()
}

func args(c cfg, e event, al [][]string) [][]byte {
	a := append([]string{}, al[e.Cmd]...)
	for i := range a {
		if a[i] == "@" {
			a[i] = fmt.Sprintf("v%d", e.Conn)
		}
	}
	return h.B(a...)
}

// stepModel applies the event to the model given the observed reply; returns a mismatch text.
func stepModel(c cfg, m *mstate, e event, al [][]string, v model.Val) string {
	a := args(c, e, al)
	if strings.ToLower(string(a[0])) == "select" {
		isErr := v.K == model.Error
		isOK := v.IsStr() && string(v.S) == "OK"
		if len(a) != 2 {
			if !isErr {
				return "SELECT with wrong arity: expected an error reply, got " + v.String()
			}
			return ""
		}
		s := string(a[1])
		n, err := strconv.Atoi(s)
		canonical := err == nil && strconv.Itoa(n) == s
		inRange := err == nil && n >= 0 && n < c.Databases
		switch {
		case canonical && inRange:
			if !isOK {
				return fmt.Sprintf("SELECT %s with %d databases: expected OK, got %s", s, c.Databases, v.String())
			}
			m.sel[e.Conn] = n
		case err == nil && inRange:
			// "+1", "01": accepted either way; the reply decides
			if isOK {
				m.sel[e.Conn] = n
			} else if !isErr {
				return "SELECT " + strconv.Quote(s) + ": expected OK or an error, got " + v.String()
			}
		default:
			if !isErr {
				return fmt.Sprintf("SELECT %q with %d databases: expected an error reply, got %s", s, c.Databases, v.String())
			}
		}
		return ""
	}
	db := m.dbs[m.sel[e.Conn]]
	outs := db.Apply(a)
	why := ""
	for _, o := range outs {
		next, w := o.Check(v)
		if w == "" {
			m.dbs[m.sel[e.Conn]] = next
			return ""
		}
		if why == "" {
			why = w
		}
	}
	// keep the model moving along its first outcome so that later steps are still meaningful
	if outs[0].Next != nil {
		m.dbs[m.sel[e.Conn]] = outs[0].Next
	}
	return fmt.Sprintf("connection c%d (model: db %d selected): %s", e.Conn, m.sel[e.Conn], why)
}

type task struct {
	Cfg   cfg
	Paths [][]event
}

type succ struct {
	Parent int
	Ev     event
	Hash   uint64
}

type viol struct {
	Kind, Cmd, Shape, Detail string
	Path                     []event
}

type result struct {
	Succ        []succ
	Transitions int
	Viol        []viol
	Cut         int // successors not run after three hangs in the task (each costs h.Patience)
}

func pathString(c cfg, p []event, al [][]string) string {
	var s []string
	for _, e := range p {
		s = append(s, fmt.Sprintf("c%d:%q", e.Conn, al[e.Cmd]))
	}
	return strings.Join(s, " ; ")
}

// run executes path on a fresh instance; check controls whether violations are recorded.
func run(c cfg, path []event, al [][]string, record func(v viol)) (*mstate, []int, bool) {
	x := newInst(c)
	defer x.close()
	m := newM(c)
	budget := make([]int, c.Conns)
	for i := range budget {
		budget[i] = c.PerConn
	}
	for i, e := range path {
		a := args(c, e, al)
		if string(a[0]) == "@reconnect" {
			// the client disconnects and a new client connects in its place: it starts in database 0
			old := x.conns[e.Conn]
			old.EOF()
			if !old.WaitClosed(10 * time.Second) {
				if record != nil && i == len(path)-1 {
					record(viol{Kind: "hang", Cmd: "disconnect", Shape: fmt.Sprintf("dbs=%d", c.Databases), Detail: pathString(c, path, al) + ": the handler did not finish after the client closed", Path: path})
				}
				return nil, nil, false
			}
			x.reconnect(e.Conn)
			m.ghost = append(m.ghost, fmt.Sprintf("c%d:%d", e.Conn, m.sel[e.Conn]))
			m.sel[e.Conn] = 0
			budget[e.Conn]--
			continue
		}
		x.conns[e.Conn].Send(model.EncodeCommand(a))
		_, v, st := x.conns[e.Conn].TakeReply(10 * time.Second)
		budget[e.Conn]--
		cmd := strings.ToLower(string(a[0]))
		shape := fmt.Sprintf("dbs=%d,%s", c.Databases, shapeArg(a, c))
		if st != "ok" {
			if record != nil && i == len(path)-1 {
				kind := "no-reply"
				if st == "timeout" {
					kind = "hang"
				}
				record(viol{Kind: kind, Cmd: cmd, Shape: shape, Detail: fmt.Sprintf("%s: last command got %s", pathString(c, path, al), st), Path: path})
			}
			return nil, nil, false
		}
		why := stepModel(c, m, e, al, v)
		if why != "" {
			if record != nil && i == len(path)-1 {
				record(viol{Kind: "reply-mismatch", Cmd: cmd, Shape: shape, Detail: fmt.Sprintf("%s: %s", pathString(c, path, al), why), Path: path})
			}
			if i == len(path)-1 {
				return nil, nil, false
			}
			return nil, nil, false
		}
	}
	// cross-check the implementation's databases with the model
	if record != nil {
		for i, db := range x.mgr.DBs {
			d := db.VerifDump()
			if diff := model.DiffCanon(m.dbs[i].Canon(), h.CanonOf(d), 1000); diff != "" {
				last := path[len(path)-1]
				a := args(c, last, al)
				record(viol{Kind: "state-mismatch", Cmd: strings.ToLower(strings.TrimPrefix(string(a[0]), "@")), Shape: fmt.Sprintf("dbs=%d,%s", c.Databases, shapeArg(a, c)),
					Detail: fmt.Sprintf("%s: database %d differs: %s", pathString(c, path, al), i, diff), Path: path})
				return nil, nil, false
			}
		}
	}
	m.impl = "root=?"
	for i, db := range x.mgr.DBs {
		if db == x.mgr.CurrentDB {
			m.impl = fmt.Sprintf("root=%d", i)
		}
	}
	return m, budget, true
}

func shapeArg(a [][]byte, c cfg) string {
	if strings.ToLower(string(a[0])) != "select" || len(a) != 2 {
		return fmt.Sprintf("arity%d", len(a))
	}
	s := string(a[1])
	n, err := strconv.Atoi(s)
	switch {
	case err != nil:
		return "non-integer"
	case strconv.Itoa(n) != s:
		return "non-canonical"
	case n < 0:
		return "negative"
	case n >= c.Databases:
		return "beyond"
	}
	return "valid"
}

func worker(tb []byte, progress func()) []byte {
	var t task
	json.Unmarshal(tb, &t)
	rt.CurMode = rt.Free
	al := alphabet()
	var res result
	hangs := 0
	for pi, p := range t.Paths {
		progress()
		_, budget, ok := run(t.Cfg, p, al, nil)
		if !ok && len(p) > 0 {
			continue
		}
		if len(p) == 0 {
			budget = make([]int, t.Cfg.Conns)
			for i := range budget {
				budget[i] = t.Cfg.PerConn
			}
		}
		for ci := 0; ci < t.Cfg.Conns; ci++ {
			if budget[ci] == 0 {
				continue
			}
			for cmd := range al {
				e := event{ci, cmd}
				full := append(append([]event{}, p...), e)
				if hangs >= 3 {
					res.Cut++
					continue
				}
				progress()
				m, b2, ok := run(t.Cfg, full, al, func(v viol) {
					if v.Kind == "hang" {
						hangs++
					}
					res.Viol = append(res.Viol, v)
				})
				res.Transitions++
				if ok {
					res.Succ = append(res.Succ, succ{Parent: pi, Ev: e, Hash: m.key(b2)})
				}
			}
		}
	}
	b, _ := json.Marshal(res)
	return b
}

func main() {
	pool.Register("dbmc", worker)
	pool.WorkerMain()
	if len(os.Args) > 1 && os.Args[1] == "replay" {
		os.Exit(replay(os.Args[2]))
	}
	tier := os.Getenv("VERIF_TIER")
	cfgs := []cfg{{1, 2, 2}, {2, 2, 2}, {3, 2, 2}, {16, 2, 2}}
	if tier == "thorough" {
		cfgs = []cfg{{1, 2, 3}, {2, 3, 2}, {2, 2, 3}, {3, 3, 2}, {3, 2, 3}, {16, 2, 3}, {16, 3, 2}}
	}
	rep := ev.NewReport("C20", "model_checking")
	al := alphabet()
	p := &pool.Pool{Handler: "dbmc", N: 16, Timeout: 4 * time.Minute, MemMB: 4096}
	deadline := time.Now().Add(budgetFor(tier))
	states, transitions := 0, 0
	exhaustive := true
	var samples []string
	var perCfg []map[string]interface{}
	for _, c := range cfgs {
		seen := map[uint64]bool{}
		frontier := [][]event{{}}
		cst, ctr := 1, 0
		for depth := 0; depth < c.Conns*c.PerConn && len(frontier) > 0; depth++ {
			var tasks [][]byte
			for i := 0; i < len(frontier); i += 4 {
				j := i + 4
				if j > len(frontier) {
					j = len(frontier)
				}
				b, _ := json.Marshal(task{Cfg: c, Paths: frontier[i:j]})
				tasks = append(tasks, b)
			}
			var next [][]event
			timedOut := false
			p.Map(tasks, func(tb, out []byte, crash *pool.Crash) [][]byte {
				if time.Now().After(deadline) {
					timedOut = true
					return nil
				}
				var t task
				json.Unmarshal(tb, &t)
				if crash != nil {
					if len(t.Paths) > 1 {
						var more [][]byte
						for _, pp := range t.Paths {
							b, _ := json.Marshal(task{Cfg: c, Paths: [][]event{pp}})
							more = append(more, b)
						}
						return more
					}
					kind := "crash"
					if crash.Kind == "hang" {
						kind = "hang"
					}
					rep.Add(&ev.Violation{Engine: "dbmc", Kind: kind, Cmd: "handle", Shape: fmt.Sprintf("dbs=%d", c.Databases),
						Detail: fmt.Sprintf("worker %s expanding %s: %s", crash.Kind, pathString(c, t.Paths[0], al), crash.Detail),
						Replay: map[string]interface{}{"engine": "dbmc", "cfg": c, "path": t.Paths[0]}})
					return nil
				}
				var r result
				json.Unmarshal(out, &r)
				ctr += r.Transitions
				if r.Cut > 0 {
					exhaustive = false
				}
				for _, v := range r.Viol {
					rep.Add(&ev.Violation{Engine: "dbmc", Kind: v.Kind, Cmd: v.Cmd, Shape: v.Shape, Detail: v.Detail,
						Replay: map[string]interface{}{"engine": "dbmc", "cfg": c, "path": v.Path, "readable": pathString(c, v.Path, al)}})
				}
				for _, s := range r.Succ {
					if !seen[s.Hash] {
						seen[s.Hash] = true
						cst++
						np := append(append([]event{}, t.Paths[s.Parent]...), s.Ev)
						next = append(next, np)
						if len(samples) < 6 && len(np) >= 3 {
							samples = append(samples, fmt.Sprintf("databases=%d: %s", c.Databases, pathString(c, np, al)))
						}
					}
				}
				return nil
			})
			if timedOut {
				exhaustive = false
				break
			}
			frontier = next
		}
		states += cst
		transitions += ctr
		perCfg = append(perCfg, map[string]interface{}{"databases": c.Databases, "connections": c.Conns, "commands_per_connection": c.PerConn, "states": cst, "transitions": ctr})
		fmt.Fprintf(os.Stderr, "dbmc: %+v: %d states, %d transitions, %d signatures\n", c, cst, ctr, rep.Count())
	}
	if len(samples) == 0 {
		samples = []string{"(none)"}
	}
	cov := map[string]interface{}{
		"states": states, "transitions": transitions, "traces_validated_against_impl": transitions, "samples": samples, "exhaustive": exhaustive,
		"configurations": perCfg, "alphabet_size": len(al),
		"rule": "for each (database count, connections, commands per connection): BFS over all merges of the connections' command sequences (SELECT with 18 argument forms + wrong arities, SET/GET/DEL/KEYS/EXISTS/APPEND) issued through Manager.Handle on in-memory connections; state = model databases + per-connection selection + remaining budgets; every reply compared with the per-connection model, every database dump compared with its model keyspace",
	}
	// second stage: connections that select, write and read at the same time - the real connection
	// handlers and parsers under the interleaving explorer (engines/concmc, handle.go)
	if sum, ran, err := rep.ConcStage("C20"); err != nil {
		fmt.Fprintln(os.Stderr, "dbmc:", err)
		os.Exit(2)
	} else if ran {
		cov["concurrent_stage"] = sum
	}
	os.Exit(rep.Finish(cov, []string{"commands are issued one at a time (an interleaving is a merge of the connections' sequences); true simultaneity of SELECT and data commands is covered by C05's race pass"}))
}

func budgetFor(tier string) time.Duration {
	if tier == "thorough" {
		return 20 * time.Minute
	}
	return 120 * time.Second
}

func replay(path string) int {
	b, err := os.ReadFile(path)
	if err != nil {
		fmt.Fprintln(os.Stderr, err)
		return 2
	}
	var v struct {
		Kind   string
		Replay struct {
			Cfg  cfg
			Path []event
		}
	}
	json.Unmarshal(b, &v)
	rt.CurMode = rt.Free
	al := alphabet()
	n := 0
	for i := 0; i < 2; i++ {
		hit := false
		run(v.Replay.Cfg, v.Replay.Path, al, func(x viol) { fmt.Printf("  -> %s: %s\n", x.Kind, x.Detail); hit = true })
		if hit {
			n++
		}
	}
	fmt.Printf("reproduced %d/2\n", n)
	if n == 2 {
		return 1
	}
	return 0
}
