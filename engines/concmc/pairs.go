package main

import "strings"

// Generated C05 scenarios: every unordered pair {op1, op2} (op1 == op2 included) of a per-type
// alphabet of single-key commands, one command per thread on the SAME key, from each seed state of
// that type.  Pairs of two read-only commands are skipped (nothing can collide).  The oracle is the
// general one: the two replies and the final keyspace dump must be explained by one of the two
// sequential orders.  This replaces hand-picked pairs by the whole (alphabet x alphabet x seeds)
// product, so that a command whose locking is weakened is raced against every kind of partner.
type pairFamily struct {
	name  string
	seeds map[string][][]string
	ops   [][]string
	ro    map[string]bool
}

func pairFamilies(tier string) []pairFamily {
	k, k1 := "@k0", "@k1"
	fams := []pairFamily{
		{name: "string",
			seeds: map[string][][]string{"none": nil, "num": {c("SET", k, "5")}, "str": {c("SET", k, "ab")}},
			ops: [][]string{c("SET", k, "x"), c("SET", k, "y", "NX"), c("SET", k, "z", "XX"), c("SETNX", k, "n"), c("GETSET", k, "g"), c("GET", k), c("INCR", k), c("DECRBY", k, "2"), c("INCRBYFLOAT", k, "0.5"),
				c("APPEND", k, "p"), c("SETRANGE", k, "1", "q"), c("SETRANGE", k, "0", "r"), c("STRLEN", k), c("GETRANGE", k, "0", "-1"), c("DEL", k), c("EXISTS", k), c("TYPE", k), c("RENAME", k, k1), c("EXPIRE", k, "100"), c("PERSIST", k), c("TTL", k), c("SETEX", k, "100", "e")},
			ro: map[string]bool{"GET": true, "STRLEN": true, "GETRANGE": true, "EXISTS": true, "TYPE": true, "TTL": true}},
		{name: "list",
			seeds: map[string][][]string{"none": nil, "one": {c("RPUSH", k, "a")}, "two": {c("RPUSH", k, "a", "b")}},
			ops: [][]string{c("LPUSH", k, "x"), c("RPUSH", k, "y"), c("LPUSHX", k, "x"), c("RPUSHX", k, "y"), c("LPOP", k), c("RPOP", k), c("LPOP", k, "2"), c("LLEN", k), c("LRANGE", k, "0", "-1"),
				c("LREM", k, "0", "a"), c("LTRIM", k, "1", "-1"), c("LSET", k, "0", "z"), c("LINDEX", k, "0"), c("LINDEX", k, "1"), c("LINDEX", k, "-1"), c("LINSERT", k, "BEFORE", "a", "i"), c("LPOS", k, "a"), c("LMOVE", k, k, "LEFT", "RIGHT"), c("LMOVE", k, k1, "LEFT", "RIGHT"),
				c("DEL", k), c("EXISTS", k), c("RENAME", k, k1), c("EXPIRE", k, "100")},
			ro: map[string]bool{"LLEN": true, "LRANGE": true, "LINDEX": true, "LPOS": true, "EXISTS": true}},
		{name: "hash",
			seeds: map[string][][]string{"none": nil, "one": {c("HSET", k, "f", "1")}, "two": {c("HSET", k, "f", "1", "g", "w")}},
			ops: [][]string{c("HSET", k, "f", "2"), c("HSET", k, "h", "v"), c("HSETNX", k, "f", "n"), c("HDEL", k, "f"), c("HDEL", k, "f", "g"), c("HINCRBY", k, "f", "1"), c("HINCRBYFLOAT", k, "f", "0.5"), c("HGET", k, "f"), c("HLEN", k),
				c("HGETALL", k), c("HEXISTS", k, "f"), c("HMGET", k, "f", "g"), c("HSTRLEN", k, "f"), c("DEL", k), c("EXISTS", k), c("RENAME", k, k1)},
			ro: map[string]bool{"HGET": true, "HLEN": true, "HGETALL": true, "HEXISTS": true, "HMGET": true, "HSTRLEN": true, "EXISTS": true}},
		{name: "set",
			seeds: map[string][][]string{"none": nil, "one": {c("SADD", k, "a")}, "two": {c("SADD", k, "a", "b")}},
			ops:   [][]string{c("SADD", k, "a"), c("SADD", k, "c"), c("SREM", k, "a"), c("SREM", k, "a", "b"), c("SPOP", k), c("SCARD", k), c("SISMEMBER", k, "a"), c("SMEMBERS", k), c("SMOVE", k, k1, "a"), c("DEL", k), c("EXISTS", k), c("RENAME", k, k1)},
			ro:    map[string]bool{"SCARD": true, "SISMEMBER": true, "SMEMBERS": true, "EXISTS": true}},
		{name: "zset",
			seeds: map[string][][]string{"none": nil, "one": {c("ZADD", k, "1", "a")}, "two": {c("ZADD", k, "1", "a", "1", "b")}},
			ops:   [][]string{c("ZADD", k, "2", "a"), c("ZADD", k, "1", "c"), c("ZADD", k, "NX", "3", "a"), c("ZADD", k, "INCR", "1", "a"), c("ZREM", k, "a"), c("ZREM", k, "a", "b"), c("ZRANK", k, "a"), c("ZRANGE", k, "0", "-1", "WITHSCORES"), c("DEL", k), c("EXISTS", k), c("RENAME", k, k1)},
			ro:    map[string]bool{"ZRANK": true, "ZRANGE": true, "EXISTS": true}},
		{name: "stream",
			seeds: map[string][][]string{"none": nil, "one": {c("XADD", k, "5-1", "f", "v")}, "two": {c("XADD", k, "5-1", "f", "v"), c("XADD", k, "5-2", "f", "v2")}},
			ops: [][]string{c("XADD", k, "6-1", "f", "w"), c("XADD", k, "6-*", "f", "x"), c("XADD", k, "NOMKSTREAM", "7-1", "f", "y"), c("XADD", k, "MAXLEN", "1", "8-1", "f", "z"),
				// auto ids: two concurrent appends both succeed, so both trim (the bound must hold for the pair)
				c("XADD", k, "MAXLEN", "1", "*", "f", "a"), c("XADD", k, "MAXLEN", "2", "*", "f", "b"), c("XADD", k, "MINID", "5-2", "*", "f", "m"), c("XRANGE", k, "-", "+"), c("DEL", k), c("EXISTS", k)},
			ro: map[string]bool{"XRANGE": true, "EXISTS": true}},
	}
	if tier != "thorough" {
		// quick: the seed states in which an emptied container is deleted / a missing one created
		for i := range fams {
			delete(fams[i].seeds, "two")
			delete(fams[i].seeds, "str")
		}
	}
	return fams
}

func genPairScenarios(tier string) []*Scenario {
	var out []*Scenario
	for _, f := range pairFamilies(tier) {
		var seedNames []string
		for n := range f.seeds {
			seedNames = append(seedNames, n)
		}
		sortStrings(seedNames)
		for _, sn := range seedNames {
			for i := 0; i < len(f.ops); i++ {
				for j := i; j < len(f.ops); j++ {
					a, b := f.ops[i], f.ops[j]
					// which member SPOP takes follows Go's map iteration order, which no seam owns: from a
					// seed with two members the two replays of one schedule can differ in shape (the set is
					// emptied or not) - such pairs start from the seeds where the choice is forced
					if sn == "two" && (a[0] == "SPOP" || b[0] == "SPOP" || a[0] == "SRANDMEMBER" || b[0] == "SRANDMEMBER") {
						continue
					}
					// (pairs of two reading commands are kept: a reader may maintain hidden state - a cache, a
					// cursor - under the shared lock, which the free-running -race pass sees)
					id := "pair:" + f.name + ":" + sn + ":" + strings.Join(a, " ") + " | " + strings.Join(b, " ")
					sc := &Scenario{ID: id, Prop: "C05", Seed: f.seeds[sn], Threads: [][][]string{{a}, {b}}, Atomic: true, Gen: true}
					// two reading commands: only the free-running -race pass can see what they do to each
					// other (hidden state written under the shared lock has no scheduling point in between)
					sc.RaceOnly = f.ro[a[0]] && f.ro[b[0]]
					out = append(out, sc)
				}
			}
		}
	}
	// blocking pops against every list mutator (virtual time).  BLPOP polls on a 100 ms ticker: the
	// partner sleeps 100 ms so that its command and the first poll become runnable at the same instant
	k, k1 := "@k0", "@k1"
	for _, sd := range []struct {
		n string
		s [][]string
	}{{"none", nil}, {"one", [][]string{c("RPUSH", k, "a")}}} {
		for _, m := range [][]string{c("DEL", k), c("RENAME", k, k1), c("RENAME", k1, k), c("LPOP", k), c("RPUSH", k, "y"), c("LPUSHX", k, "x"), c("LTRIM", k, "1", "-1"), c("LREM", k, "0", "a"), c("LMOVE", k, k1, "LEFT", "RIGHT"), c("SET", k, "s"), c("BRPOP", k, "1")} {
			id := "pair:blocking:" + sd.n + ":BLPOP | " + strings.Join(m, " ")
			seed := sd.s
			if m[0] == "RENAME" && m[1] == k1 {
				seed = append(append([][]string{}, seed...), c("RPUSH", k1, "r"))
			}
			out = append(out, &Scenario{ID: id, Prop: "C05", Seed: seed, Threads: [][][]string{{c("BLPOP", k, "1")}, {c("@sleep", "100"), m}}, Atomic: true, Gen: true, Timed: true})
		}
	}
	// a blocked pop against a burst of pushes: a client that has been woken must get back to its list
	// however many pushes follow before it does (one key; two keys with the burst on the second one)
	out = append(out, &Scenario{ID: "pair:blocking:none:BLPOP | RPUSH RPUSH RPUSH", Prop: "C05",
		Threads: [][][]string{{c("BLPOP", k, "1")}, {c("@sleep", "100"), c("RPUSH", k, "a"), c("RPUSH", k, "b"), c("RPUSH", k, "c")}}, Atomic: true, Gen: true, Timed: true})
	out = append(out, &Scenario{ID: "pair:blocking:none:BLPOP two keys | RPUSH RPUSH RPUSH second key", Prop: "C05",
		Threads: [][][]string{{c("BLPOP", k, "@k2", "1")}, {c("@sleep", "100"), c("RPUSH", "@k2", "a"), c("RPUSH", "@k2", "b"), c("RPUSH", "@k2", "c")}, {c("LLEN", k)}}, Atomic: true, Gen: true, Timed: true})
	// (the partner key kk lives in another shard: two keys in one shard map would make KEYS visit them
	// in Go's random map order, and with it the order of its lazy-expiry lock operations)
	kk := "@k2"
	// commands against a key whose deadline has passed while its reaper timer has not run yet: the
	// timer goroutine is a third thread, so every placement of the reaping relative to the two
	// commands is explored.  All instants are well past the deadline: the key is logically gone.
	for _, sd := range []struct {
		n string
		s [][]string
	}{
		{"string", [][]string{c("SET", k, "5", "EX", "1"), c("RPUSH", kk, "r"), c("@advance", "2500")}},
		{"list", [][]string{c("RPUSH", k, "a"), c("EXPIRE", k, "1"), c("SET", kk, "s"), c("@advance", "2500")}},
	} {
		ops := [][]string{c("GET", k), c("SET", k, "w"), c("SETNX", k, "n"), c("APPEND", k, "x"), c("INCR", k), c("EXISTS", k), c("TTL", k), c("TYPE", k), c("DEL", k), c("EXPIRE", k, "100"), c("PERSIST", k),
			c("RENAME", k, kk), c("RENAME", kk, k), c("LPUSH", k, "x"), c("LPUSHX", k, "y"), c("LLEN", k), c("LPOP", k), c("KEYS", "*"), c("SET", k, "w", "KEEPTTL"), c("SADD", k, "m"),
			c("SETEX", k, "100", "e"), c("SET", k, "f", "EX", "100"),
			// commands on another key of the same lock stripe: they hold the stripe's lock while the
			// command on the expired key goes through its lazy-expiry step
			c("GET", k1), c("SET", k1, "x")}
		for i := 0; i < len(ops); i++ {
			for j := i; j < len(ops); j++ {
				a, b := ops[i], ops[j]
				if (a[1] == k1 && b[1] == k1) || (a[0] == "KEYS" && b[1] == k1) {
					continue // (KEYS over two keys of one shard map visits them in Go's random map order)
				}
				if (a[0] == "KEYS" && b[0] == "RENAME") || (a[0] == "RENAME" && b[0] == "KEYS") {
					continue // KEYS is not claimed atomic against a command that moves a key between shards
				}
				id := "pair:expired:" + sd.n + ":" + strings.Join(a, " ") + " | " + strings.Join(b, " ")
				out = append(out, &Scenario{ID: id, Prop: "C05", Seed: sd.s, Threads: [][][]string{{a}, {b}}, Atomic: true, Gen: true, Timed: true})
			}
		}
	}
	return out
}

func sortStrings(s []string) {
	for i := 1; i < len(s); i++ {
		for j := i; j > 0 && s[j] < s[j-1]; j-- {
			s[j], s[j-1] = s[j-1], s[j]
		}
	}
}

// Generated C13 scenarios: every unordered pair of a per-type alphabet of multi-key commands and
// single-key partners over the key triple (k0, k1 = same stripe as k0, k2 = other shard), from each
// seed.  The history must be linearizable when both commands are of the classes the property calls
// atomic (single-key commands, MSET, RENAME, LMOVE, SMOVE); for the others (multi-key DEL / EXISTS,
// the set-algebra STORE forms) only deadlock, panic and the structural invariants apply.
func genMultiPairScenarios(tier string) []*Scenario {
	k0, k1, k2 := "@k0", "@k1", "@k2"
	type fam struct {
		name    string
		seeds   map[string][][]string
		ops     [][]string
		nonAtom map[string]bool
	}
	fams := []fam{
		{name: "string",
			seeds: map[string][][]string{"none": nil, "k0": {c("SET", k0, "a")}, "k0k2": {c("SET", k0, "a"), c("SET", k2, "b")}},
			ops: [][]string{c("MSET", k0, "x", k2, "y"), c("MSET", k2, "p", k0, "q"), c("MSET", k0, "m", k1, "n"), c("RENAME", k0, k2), c("RENAME", k2, k0), c("RENAME", k0, k1), c("RENAME", k1, k0),
				c("DEL", k0, k2), c("EXISTS", k0, k2), c("MGET", k0, k2), c("SET", k0, "z"), c("SET", k2, "z"), c("APPEND", k0, "s"), c("INCR", k2), c("DEL", k0), c("GET", k2), c("SETNX", k2, "n"), c("EXPIRE", k0, "0"), c("EXPIRE", k2, "0")},
			nonAtom: map[string]bool{"DEL " + k0 + " " + k2: true, "EXISTS": true, "MGET": true}},
		{name: "list",
			seeds: map[string][][]string{"none": nil, "k0": {c("RPUSH", k0, "a")}, "k0k2": {c("RPUSH", k0, "a", "b"), c("RPUSH", k2, "c")}},
			ops: [][]string{c("LMOVE", k0, k2, "LEFT", "RIGHT"), c("LMOVE", k2, k0, "LEFT", "RIGHT"), c("LMOVE", k0, k1, "RIGHT", "LEFT"), c("LMOVE", k0, k0, "LEFT", "RIGHT"), c("RENAME", k0, k2), c("RENAME", k2, k0),
				c("RPUSH", k0, "x"), c("LPOP", k0), c("LPOP", k2), c("RPOP", k0, "2"), c("DEL", k0), c("DEL", k0, k2), c("LLEN", k2), c("LPUSHX", k2, "y"), c("EXPIRE", k0, "0"), c("EXPIRE", k2, "0")},
			nonAtom: map[string]bool{"DEL " + k0 + " " + k2: true}},
		{name: "set",
			seeds: map[string][][]string{"none": nil, "k0": {c("SADD", k0, "m")}, "k0k2": {c("SADD", k0, "m", "a"), c("SADD", k2, "b")}},
			ops: [][]string{c("SMOVE", k0, k2, "m"), c("SMOVE", k2, k0, "m"), c("SMOVE", k0, k1, "m"), c("SMOVE", k0, k0, "m"), c("SUNIONSTORE", k1, k0, k2), c("SUNIONSTORE", k0, k0, k2), c("SINTERSTORE", k2, k0, k2), c("SDIFFSTORE", k0, k2, k0),
				c("SUNION", k0, k2), c("SINTER", k2, k0), c("SADD", k0, "m"), c("SREM", k0, "m"), c("SREM", k2, "m"), c("SADD", k2, "z"), c("DEL", k0), c("RENAME", k0, k2), c("SCARD", k2), c("EXPIRE", k0, "0"), c("EXPIRE", k2, "0")},
			nonAtom: map[string]bool{"SUNIONSTORE": true, "SINTERSTORE": true, "SDIFFSTORE": true, "SUNION": true, "SINTER": true}},
	}
	multi := map[string]bool{"MSET": true, "RENAME": true, "LMOVE": true, "SMOVE": true, "SUNIONSTORE": true, "SINTERSTORE": true, "SDIFFSTORE": true, "SUNION": true, "SINTER": true, "MGET": true, "EXISTS": true}
	var out []*Scenario
	for _, f := range fams {
		if tier != "thorough" {
			delete(f.seeds, "k0")
		}
		var seedNames []string
		for n := range f.seeds {
			seedNames = append(seedNames, n)
		}
		sortStrings(seedNames)
		isMulti := func(a []string) bool { return multi[a[0]] || (a[0] == "DEL" && len(a) > 2) }
		// EXPIRE k 0 puts the deadline at the current second: a command running in that same second may
		// or may not see the key (the one-second granularity of C06), so such a pair has no strict
		// sequential specification - it is explored for deadlock, panic, leaked locks and invariants
		nonAtomic := func(a []string) bool { return f.nonAtom[a[0]] || f.nonAtom[strings.Join(a, " ")] || a[0] == "EXPIRE" }
		for _, sn := range seedNames {
			for i := 0; i < len(f.ops); i++ {
				for j := i; j < len(f.ops); j++ {
					a, b := f.ops[i], f.ops[j]
					if !isMulti(a) && !isMulti(b) {
						continue // single-key x single-key is C05's
					}
					id := "mpair:" + f.name + ":" + sn + ":" + strings.Join(a, " ") + " | " + strings.Join(b, " ")
					sc := &Scenario{ID: id, Prop: "C13", Seed: f.seeds[sn], Threads: [][][]string{{a}, {b}}, Atomic: !nonAtomic(a) && !nonAtomic(b), Gen: true}
					out = append(out, sc)
				}
			}
		}
	}
	return out
}
