package main

import "os"

func c(args ...string) []string { return args }

func th(cmds ...[]string) [][]string { return cmds }

var scenarioCache []*Scenario

func allScenarios() []*Scenario {
	if scenarioCache != nil {
		return scenarioCache
	}
	var s []*Scenario
	add := func(prop, id string, atomic bool, seed [][]string, threads ...[][]string) *Scenario {
		sc := &Scenario{ID: id, Prop: prop, Seed: seed, Threads: threads, Atomic: atomic}
		s = append(s, sc)
		return sc
	}
	// ---------------------------------------------------------------- C05: single-key linearizability
	add("C05", "incr-incr-get", true, nil, th(c("INCR", "@k0"), c("GET", "@k0")), th(c("INCR", "@k0")))
	add("C05", "incr-incr-set", true, nil, th(c("INCR", "@k0"), c("GET", "@k0")), th(c("INCR", "@k0")), th(c("SET", "@k0", "10")))
	add("C05", "incrby-decr", true, th(c("SET", "@k0", "5")), th(c("INCRBY", "@k0", "3")), th(c("DECR", "@k0")), th(c("GET", "@k0")))
	add("C05", "append-append", true, nil, th(c("APPEND", "@k0", "a")), th(c("APPEND", "@k0", "b")), th(c("STRLEN", "@k0")))
	add("C05", "hincrby-hincrby", true, nil, th(c("HINCRBY", "@k0", "f", "1")), th(c("HINCRBY", "@k0", "f", "2")), th(c("HGET", "@k0", "f")))
	add("C05", "setnx-setnx", true, nil, th(c("SETNX", "@k0", "a"), c("GET", "@k0")), th(c("SETNX", "@k0", "b"), c("GET", "@k0")))
	add("C05", "setnx-setnx-del", true, nil, th(c("SETNX", "@k0", "a")), th(c("SETNX", "@k0", "b")), th(c("DEL", "@k0")))
	add("C05", "set-nx-set-nx", true, nil, th(c("SET", "@k0", "a", "NX")), th(c("SET", "@k0", "b", "NX")), th(c("GET", "@k0")))
	add("C05", "hsetnx-hsetnx", true, nil, th(c("HSETNX", "@k0", "f", "a")), th(c("HSETNX", "@k0", "f", "b")), th(c("HGET", "@k0", "f")))
	add("C05", "lpushx-del", true, th(c("RPUSH", "@k0", "a")), th(c("LPUSHX", "@k0", "b")), th(c("DEL", "@k0")), th(c("LLEN", "@k0")))
	add("C05", "rpush-lpop-lpop", true, nil, th(c("RPUSH", "@k0", "a", "b")), th(c("LPOP", "@k0")), th(c("LPOP", "@k0"))).Conserve = []string{"@k0"}
	add("C05", "sadd-spop-spop", true, nil, th(c("SADD", "@k0", "a", "b")), th(c("SPOP", "@k0")), th(c("SPOP", "@k0"))).Conserve = []string{"@k0"}
	add("C05", "rpop-lpush-emptied", true, th(c("RPUSH", "@k0", "a")), th(c("RPOP", "@k0")), th(c("LPUSH", "@k0", "b")), th(c("EXISTS", "@k0"))).Conserve = []string{"@k0"}
	add("C05", "set-set-keys", true, nil, th(c("SET", "@k0", "a")), th(c("SET", "@k1", "b")), th(c("KEYS", "*")))
	add("C05", "set-del-exists", true, nil, th(c("SET", "@k0", "a")), th(c("DEL", "@k0")), th(c("EXISTS", "@k0")))
	add("C05", "del-del-counter", true, th(c("SET", "@k0", "a"), c("SET", "@k3", "b")), th(c("DEL", "@k0")), th(c("DEL", "@k0")), th(c("KEYS", "*")))
	add("C05", "same-shard-other-stripe", true, nil, th(c("SET", "@k0", "a")), th(c("SET", "@k3", "b")), th(c("KEYS", "*"), c("EXISTS", "@k0"), c("EXISTS", "@k3")))
	add("C05", "same-stripe-other-key", true, nil, th(c("INCR", "@k0"), c("DEL", "@k0")), th(c("INCR", "@k1"), c("DEL", "@k1")), th(c("KEYS", "*")))
	// two clients ask for different patterns, one of them syntactically broken, over two keys in different
	// shards: whatever the matcher shares between calls (a compiled / checked pattern, a scratch buffer)
	// must not leak from one command into the other.  The seed's last KEYS leaves such state the same at
	// the start of every execution.
	add("C05", "keys-pattern-vs-keys-broken-pattern", true, th(c("SET", "@k0", "1"), c("SET", "@k2", "1"), c("KEYS", "warm*")), th(c("KEYS", "k?")), th(c("KEYS", "k[")))
	add("C05", "keys-class-vs-keys-star", true, th(c("SET", "@k0", "1"), c("SET", "@k2", "1"), c("KEYS", "warm*")), th(c("KEYS", "k[a-z]")), th(c("KEYS", "*")))
	add("C05", "keys-twice-vs-set", true, nil, th(c("KEYS", "*"), c("KEYS", "*")), th(c("SET", "@k0", "a")), th(c("SET", "@k2", "b")))
	add("C05", "get-set", true, th(c("SET", "@k0", "a")), th(c("GET", "@k0"), c("GET", "@k0")), th(c("SET", "@k0", "b")))
	add("C05", "lrange-rpush", true, th(c("RPUSH", "@k0", "a")), th(c("LRANGE", "@k0", "0", "-1"), c("LLEN", "@k0")), th(c("RPUSH", "@k0", "b", "c")))
	add("C05", "zrange-zadd", true, th(c("ZADD", "@k0", "1", "a")), th(c("ZRANGE", "@k0", "0", "-1"), c("ZRANK", "@k0", "b")), th(c("ZADD", "@k0", "0", "b")), th(c("ZREM", "@k0", "a")))
	add("C05", "xrange-xadd", true, th(c("XADD", "@k0", "5-1", "f", "v")), th(c("XRANGE", "@k0", "-", "+")), th(c("XADD", "@k0", "6-1", "f", "w")), th(c("XADD", "@k0", "6-1", "f", "z")))
	add("C05", "expired-get-vs-set", true, th(c("SET", "@k0", "v", "EX", "1"), c("@advance", "2500")), th(c("GET", "@k0"), c("EXISTS", "@k0")), th(c("SETNX", "@k0", "w")), th(c("APPEND", "@k0", "x")))
	add("C05", "hset-hdel-emptied", true, th(c("HSET", "@k0", "f", "v")), th(c("HDEL", "@k0", "f")), th(c("HSET", "@k0", "g", "w")), th(c("EXISTS", "@k0"), c("HLEN", "@k0")))
	add("C05", "srem-sadd-emptied", true, th(c("SADD", "@k0", "a")), th(c("SREM", "@k0", "a")), th(c("SADD", "@k0", "b")), th(c("SCARD", "@k0")))
	add("C05", "expire-persist-set", true, th(c("SET", "@k0", "v")), th(c("EXPIRE", "@k0", "100")), th(c("PERSIST", "@k0")), th(c("SET", "@k0", "w"), c("TTL", "@k0")))

	// ---------------------------------------------------------------- C13: multi-key commands
	add("C13", "mset-mset-opposite", true, nil, th(c("MSET", "@k0", "a", "@k2", "a")), th(c("MSET", "@k2", "b", "@k0", "b")), th(c("GET", "@k2"), c("GET", "@k0")))
	add("C13", "mset-mset-colliding", true, nil, th(c("MSET", "@k0", "a", "@k1", "a")), th(c("MSET", "@k1", "b", "@k0", "b")), th(c("GET", "@k1"), c("GET", "@k0")))
	add("C13", "mset-repeated-key", true, nil, th(c("MSET", "@k0", "a", "@k0", "b", "@k2", "c")), th(c("SET", "@k0", "z")), th(c("GET", "@k0")))
	add("C13", "rename-rename-opposite", true, th(c("SET", "@k0", "a"), c("SET", "@k2", "b")), th(c("RENAME", "@k0", "@k2")), th(c("RENAME", "@k2", "@k0")), th(c("EXISTS", "@k0"), c("EXISTS", "@k2")))
	add("C13", "rename-vs-set", true, th(c("SET", "@k0", "a")), th(c("RENAME", "@k0", "@k2")), th(c("SET", "@k0", "z")), th(c("GET", "@k2"), c("GET", "@k0")))
	add("C13", "rename-vs-exists", true, th(c("SET", "@k0", "a")), th(c("RENAME", "@k0", "@k1")), th(c("EXISTS", "@k1"), c("EXISTS", "@k0")))
	add("C13", "lmove-lmove-opposite", true, th(c("RPUSH", "@k0", "a"), c("RPUSH", "@k2", "b")), th(c("LMOVE", "@k0", "@k2", "LEFT", "RIGHT")), th(c("LMOVE", "@k2", "@k0", "LEFT", "RIGHT")), th(c("LLEN", "@k2"), c("LLEN", "@k0"))).Conserve = []string{"@k0", "@k2"}
	add("C13", "lmove-vs-pops", true, th(c("RPUSH", "@k0", "a", "b")), th(c("LMOVE", "@k0", "@k1", "LEFT", "RIGHT")), th(c("LPOP", "@k0")), th(c("RPOP", "@k1"))).Conserve = []string{"@k0", "@k1"}
	add("C13", "lmove-same-key", true, th(c("RPUSH", "@k0", "a", "b")), th(c("LMOVE", "@k0", "@k0", "LEFT", "RIGHT")), th(c("LMOVE", "@k0", "@k0", "RIGHT", "LEFT")), th(c("LRANGE", "@k0", "0", "-1"))).Conserve = []string{"@k0"}
	add("C13", "smove-smove-opposite", true, th(c("SADD", "@k0", "m"), c("SADD", "@k2", "n")), th(c("SMOVE", "@k0", "@k2", "m")), th(c("SMOVE", "@k2", "@k0", "m")), th(c("SISMEMBER", "@k2", "m"), c("SISMEMBER", "@k0", "m")))
	add("C13", "smove-vs-srem", true, th(c("SADD", "@k0", "m")), th(c("SMOVE", "@k0", "@k1", "m")), th(c("SREM", "@k0", "m")), th(c("SCARD", "@k1"), c("SCARD", "@k0")))
	add("C13", "sunionstore-vs-sadd", false, th(c("SADD", "@k0", "a"), c("SADD", "@k2", "b")), th(c("SUNIONSTORE", "@k1", "@k0", "@k2")), th(c("SADD", "@k0", "c")), th(c("SUNIONSTORE", "@k2", "@k1", "@k0")))
	add("C13", "sinterstore-sdiffstore-cross", false, th(c("SADD", "@k0", "a", "b"), c("SADD", "@k2", "b")), th(c("SINTERSTORE", "@k0", "@k0", "@k2")), th(c("SDIFFSTORE", "@k2", "@k2", "@k0")))
	add("C13", "del-multi-vs-mset", false, th(c("MSET", "@k0", "a", "@k2", "b")), th(c("DEL", "@k0", "@k2")), th(c("MSET", "@k2", "x", "@k0", "y")), th(c("EXISTS", "@k0", "@k2")))
	add("C13", "exists-multi-vs-rename", false, th(c("SET", "@k0", "a")), th(c("EXISTS", "@k0", "@k2")), th(c("RENAME", "@k0", "@k2")))
	add("C13", "sunion-vs-smove", false, th(c("SADD", "@k0", "a"), c("SADD", "@k2", "b")), th(c("SUNION", "@k0", "@k2"), c("SINTER", "@k2", "@k0"), c("SDIFF", "@k0", "@k2")), th(c("SMOVE", "@k0", "@k2", "a")), th(c("SMOVE", "@k2", "@k0", "b")))
	add("C13", "mget-vs-mset", false, nil, th(c("MGET", "@k0", "@k2")), th(c("MSET", "@k2", "x", "@k0", "y")), th(c("MGET", "@k2", "@k0")))
	sc := add("C13", "blpop-vs-lmove", false, th(c("RPUSH", "@k2", "a")), th(c("BLPOP", "@k0", "@k2", "1")), th(c("@sleep", "100"), c("LMOVE", "@k2", "@k0", "LEFT", "RIGHT")))
	sc.Timed = true
	sc.Conserve = []string{"@k0", "@k2"}
	sc = add("C13", "blpop-blpop-one-push", false, nil, th(c("BLPOP", "@k0", "1")), th(c("BLPOP", "@k0", "1")), th(c("@sleep", "300"), c("RPUSH", "@k0", "a")))
	sc.Timed = true
	sc.Conserve = []string{"@k0"}

	// ---------------------------------------------------------------- C19: Pub/Sub
	ps := func(id string, conns []string, threads ...[][]string) {
		s = append(s, &Scenario{ID: id, Prop: "C19", Threads: threads, PubSub: true, Conns: conns})
	}
	ps("sub-pub-pub", []string{"c1", ""}, th(c("SUBSCRIBE", "ch")), th(c("PUBLISH", "ch", "m1"), c("PUBLISH", "ch", "m2")))
	ps("sub-sub-pub", []string{"c1", "c2", ""}, th(c("SUBSCRIBE", "ch")), th(c("SUBSCRIBE", "ch")), th(c("PUBLISH", "ch", "m1")))
	ps("sub-two-channels", []string{"c1", "", ""}, th(c("SUBSCRIBE", "ch1", "ch2")), th(c("PUBLISH", "ch1", "m1")), th(c("PUBLISH", "ch2", "m2")))
	ps("sub-close-pub-pub", []string{"c1", "", ""}, th(c("SUBSCRIBE", "ch")), th(c("@close", "c1")), th(c("PUBLISH", "ch", "m1"), c("PUBLISH", "ch", "m2")))
	ps("sub-cancel-pub", []string{"c1", "", ""}, th(c("SUBSCRIBE", "ch")), th(c("@cancel", "c1")), th(c("PUBLISH", "ch", "m1"), c("PUBLISH", "ch", "m2")))
	ps("sub-cancel-sub", []string{"c1", "", "c2", ""}, th(c("SUBSCRIBE", "ch")), th(c("@cancel", "c1")), th(c("SUBSCRIBE", "ch")), th(c("PUBLISH", "ch", "m1")))
	ps("two-publishers", []string{"c1", "", ""}, th(c("SUBSCRIBE", "ch")), th(c("PUBLISH", "ch", "a1"), c("PUBLISH", "ch", "a2")), th(c("PUBLISH", "ch", "b1")))
	ps("payloads", []string{"c1", ""}, th(c("SUBSCRIBE", "ch")), th(c("PUBLISH", "ch", ""), c("PUBLISH", "ch", "a\r\nb")))
	ps("sub-sub-cancel-pub", []string{"c1", "c2", "", ""}, th(c("SUBSCRIBE", "ch")), th(c("SUBSCRIBE", "ch")), th(c("@cancel", "c2")), th(c("PUBLISH", "ch", "m1")))
	// the subscriber's own handler writes replies to the connection the publishers push to
	psr := func(id string, conns []string, threads ...[][]string) {
		s = append(s, &Scenario{ID: id, Prop: "C19", Threads: threads, PubSub: true, Conns: conns, ReplyOnConn: true})
	}
	psr("sub-ping-vs-pub", []string{"c1", ""}, th(c("SUBSCRIBE", "ch"), c("PING")), th(c("PUBLISH", "ch", "m1")))
	psr("sub-get-vs-two-pubs", []string{"c1", "", ""}, th(c("SUBSCRIBE", "ch1", "ch2"), c("GET", "@k0")), th(c("PUBLISH", "ch1", "m1")), th(c("PUBLISH", "ch2", "m2")))
	psr("sub-sub-replies-vs-pub-pub", []string{"c1", "c2", ""}, th(c("SUBSCRIBE", "ch"), c("PING", "x")), th(c("SUBSCRIBE", "ch"), c("PING", "y")), th(c("PUBLISH", "ch", "m1"), c("PUBLISH", "ch", "a\r\nb")))
	s = append(s, handleScenarios()...)
	tier := os.Getenv("VERIF_TIER")
	s = append(s, genPairScenarios(tier)...)
	s = append(s, genMultiPairScenarios(tier)...)
	scenarioCache = s
	return s
}
