package main

import (
	"context"
	"fmt"
	"sort"
	"strings"

	"github.com/innovationb1ue/RedisGO/memdb"
	rt "github.com/innovationb1ue/RedisGO/verifrt"
	"verif/h"
)

// C13 (a): lock-order audit.  Every registered command x every argument vector (<= 4
// arguments) over {k0,k1,k2,k3,"1","a","left"} x pre-state type is executed alone with lock
// tracing: acquiring a stripe that is not greater than every stripe already held (order
// inversion), re-acquiring a held stripe, acquiring a stripe while a shard lock is held, or
// returning with a lock held is a violation, because two such commands can deadlock under some
// interleaving.

func auditWorker(t *task, res *result, progress func()) {
	ks := keysOf()
	alpha := []string{ks.K0, ks.K1, ks.K2, ks.K3, "1", "a", "left"}
	var names []string
	for n := range memdb.CmdTable {
		if n == "blpop" || n == "brpop" || n == "subscribe" {
			continue
		}
		names = append(names, n)
	}
	sort.Strings(names)
	seeds := [][][]string{
		nil,
		{{"SET", ks.K0, "1"}, {"SET", ks.K2, "1"}},
		{{"RPUSH", ks.K0, "a"}, {"RPUSH", ks.K2, "a"}, {"RPUSH", ks.K1, "a"}},
		{{"SADD", ks.K0, "a"}, {"SADD", ks.K2, "a"}, {"SADD", ks.K3, "a"}},
		{{"HSET", ks.K0, "a", "1"}, {"ZADD", ks.K2, "1", "a"}},
		{{"SET", ks.K0, "1", "EX", "1"}, {"SET", ks.K2, "1", "EX", "1"}, {"@advance", "2500"}},
		// keys of different types side by side: a multi-key command meets a wrong-typed operand in its
		// second or third position (the error paths that return early from a locked region)
		{{"SADD", ks.K0, "a"}, {"SET", ks.K1, "x"}, {"SADD", ks.K2, "b"}, {"RPUSH", ks.K3, "c"}},
		{{"RPUSH", ks.K0, "a"}, {"SADD", ks.K1, "b"}, {"SET", ks.K2, "1"}, {"SADD", ks.K3, "a"}},
		{{"SET", ks.K0, "1"}, {"SADD", ks.K1, "b"}, {"RPUSH", ks.K2, "a"}, {"HSET", ks.K3, "f", "v"}},
	}
	seen := map[string]bool{}
	idx := 0
	for _, name := range names {
		for n := 0; n <= 4; n++ {
			var vecs [][]string
			var rec func(cur []string)
			rec = func(cur []string) {
				if len(cur) == n {
					vecs = append(vecs, append([]string{}, cur...))
					return
				}
				for _, a := range alpha {
					rec(append(cur, a))
				}
			}
			rec(nil)
			for _, v := range vecs {
				for si, seed := range seeds {
					idx++
					if idx%t.Of != t.Shard {
						continue
					}
					if idx%4096 == 0 {
						progress()
					}
					res.AuditRuns++
					w := rt.NewWorld()
					mgr := h.NewManager()
					bg := context.Background()
					for _, c := range seed {
						if c[0] == "@advance" {
							w.Advance(2500 * 1e6)
							continue
						}
						h.Exec(bg, mgr, nil, h.B(c...)...)
					}
					db := mgr.CurrentDB
					var heldStripes []int
					heldShard := 0
					var problems []string
					locked := false
					w.OnLock = func(th *rt.Thread, kind string, obj interface{}) {
						if th == nil || th.Name != "audit" {
							return
						}
						s := db.VerifStripeOf(obj)
						if s >= 0 {
							switch kind {
							case "lock", "rlock":
								locked = true
								for _, hs := range heldStripes {
									if hs == s {
										problems = append(problems, fmt.Sprintf("re-acquires stripe %d it already holds", s))
									} else if hs > s {
										problems = append(problems, fmt.Sprintf("acquires stripe %d while holding the higher stripe %d", s, hs))
									}
								}
								if heldShard > 0 {
									problems = append(problems, fmt.Sprintf("acquires stripe %d while holding a map-shard lock", s))
								}
								heldStripes = append(heldStripes, s)
							default:
								for i := len(heldStripes) - 1; i >= 0; i-- {
									if heldStripes[i] == s {
										heldStripes = append(heldStripes[:i], heldStripes[i+1:]...)
										break
									}
								}
							}
							return
						}
						if db.VerifShardOf(obj) != "" {
							if kind == "lock" || kind == "rlock" {
								heldShard++
							} else {
								heldShard--
							}
						}
					}
					args := append([]string{name}, v...)
					th := w.Spawn("audit", func() { h.Exec(bg, mgr, nil, h.B(args...)...) })
					w.Chooser = func(w *rt.World, cur *rt.Thread, en []*rt.Thread) *rt.Thread {
						for _, e := range en {
							if e == th {
								return e
							}
						}
						return nil
					}
					w.Run()
					shape := fmt.Sprintf("%s/%d args/seed%d", name, n, si)
					addV := func(kind, detail string) {
						k := kind + "|" + name + "|" + detail[:min(len(detail), 40)]
						if seen[k] {
							return
						}
						seen[k] = true
						res.Viol = append(res.Viol, cviol{Kind: kind, Cmd: name, Shape: shape, Detail: fmt.Sprintf("%q (pre-state %d): %s", args, si, detail)})
					}
					if th.Panic != nil {
						// crashes are C04's business; the audit only needs the lock discipline
					} else if !th.Done {
						addV("self-deadlock", fmt.Sprintf("blocks forever on its own (locks held: %v)", db.VerifLocksHeld()))
					} else if held := db.VerifLocksHeld(); len(held) > 0 {
						addV("lock-leak", fmt.Sprintf("returns with locks held: %v", held))
					}
					if len(problems) > 0 {
						addV("lock-order", strings.Join(uniqStr(problems), "; "))
					}
					if locked {
						res.AuditLocked++
					}
					w.Kill()
				}
			}
		}
	}
}

func uniqStr(s []string) []string {
	m := map[string]bool{}
	var out []string
	for _, x := range s {
		if !m[x] {
			m[x] = true
			out = append(out, x)
		}
	}
	return out
}
