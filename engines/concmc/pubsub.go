package main

import (
	"bytes"
	"fmt"
	"sort"
	"strings"

	"verif/explorer"
	"verif/h"
	"verif/lin"
	"verif/model"
)

// Pub/Sub oracle (C19).  The sequential model: per channel the set of subscribed connections;
// SUBSCRIBE adds, the asynchronous unsubscribe triggered by @cancel removes (it is a pending
// operation: it may take effect at any later point), @close marks the connection as gone (it
// can no longer receive).  PUBLISH ch m must be delivered exactly to the connections subscribed
// and not gone at its linearization point, and reply their number.

type psState struct {
	subs   map[string]map[string]bool
	closed map[string]bool
}

func (s *psState) clone() *psState {
	n := &psState{subs: map[string]map[string]bool{}, closed: map[string]bool{}}
	for ch, m := range s.subs {
		n.subs[ch] = map[string]bool{}
		for c := range m {
			n.subs[ch][c] = true
		}
	}
	for c := range s.closed {
		n.closed[c] = true
	}
	return n
}

func (s *psState) key() string {
	var parts []string
	for ch, m := range s.subs {
		var cs []string
		for c := range m {
			cs = append(cs, c)
		}
		sort.Strings(cs)
		parts = append(parts, ch+"="+strings.Join(cs, ","))
	}
	sort.Strings(parts)
	var cl []string
	for c := range s.closed {
		cl = append(cl, c)
	}
	sort.Strings(cl)
	return strings.Join(parts, ";") + "|" + strings.Join(cl, ",")
}

type psIn struct {
	Kind string // sub | pub | cancel | close
	Conn string
	Chs  []string
	Ch   string
}

type psOut struct {
	N         int64
	Receivers []string
}

// received decodes the pushes a connection got: list of (channel, payload).  replies = what the
// connection's own handler wrote to it (ReplyOnConn scenarios), in order: the stream must be an
// interleaving of exactly those replies, each intact, with whole message pushes.
func received(c *h.Conn, replies [][]byte) ([][2]string, string) {
	stream := c.Output()
	var out [][2]string
	pos := 0
	for pos < len(stream) {
		if len(replies) > 0 && len(replies[0]) > 0 && bytes.HasPrefix(stream[pos:], replies[0]) {
			pos += len(replies[0])
			replies = replies[1:]
			continue
		}
		v, n, err := model.Decode(stream[pos:])
		if err != nil {
			return nil, fmt.Sprintf("connection %s received bytes that are not well-formed RESP at offset %d: %q (%v)", c.Name, pos, stream, err)
		}
		if v.K != model.Array || len(v.Arr) != 3 || !v.Arr[0].IsStr() || string(v.Arr[0].S) != "message" {
			return nil, fmt.Sprintf("connection %s received something that is neither a message push nor the next reply of its own commands, at offset %d of %q: %s", c.Name, pos, stream, v)
		}
		out = append(out, [2]string{string(v.Arr[1].S), string(v.Arr[2].S)})
		pos += n
	}
	for _, r := range replies {
		if len(r) > 0 {
			return nil, fmt.Sprintf("connection %s never received the reply %q of one of its own commands (stream %q)", c.Name, r, stream)
		}
	}
	return out, ""
}

func checkPubSub(sc *Scenario, rs *runState, out *explorer.Outcome) []cviol {
	var vs []cviol
	add := func(kind, fn, detail string) {
		vs = append(vs, cviol{Kind: kind, Cmd: sc.ID, Shape: sc.ID, Func: fn, Detail: detail, Schedule: out.Choices})
	}
	if len(out.Panics) > 0 {
		p := out.Panics[0]
		add("panic", p.Func, fmt.Sprintf("scenario %s: panic %s in %s; history: %s", sc.ID, p.Value, p.Func, histString(rs.ops)))
		return vs
	}
	if out.Deadlock {
		add("deadlock", "", fmt.Sprintf("scenario %s: publisher or subscriber blocked forever %v; history: %s", sc.ID, out.Blocked, histString(rs.ops)))
		return vs
	}
	if out.Horizon {
		add("livelock", "", fmt.Sprintf("scenario %s: step horizon reached", sc.ID))
		return vs
	}
	// what every connection received
	got := map[string][][2]string{}
	for name, c := range rs.conns {
		r, bad := received(c, rs.written[name])
		if bad != "" {
			add("malformed-push", "", fmt.Sprintf("scenario %s: %s", sc.ID, bad))
			return vs
		}
		got[name] = r
	}
	// exactly once + per-publisher order
	pubOrder := map[string][]string{} // thread -> payload sequence per channel
	for _, o := range rs.ops {
		if strings.ToLower(o.Args[0]) == "publish" && len(o.Args) == 3 {
			pubOrder[fmt.Sprintf("%d/%s", o.Thread, o.Args[1])] = append(pubOrder[fmt.Sprintf("%d/%s", o.Thread, o.Args[1])], o.Args[2])
		}
	}
	for name, msgs := range got {
		seen := map[string]int{}
		for _, m := range msgs {
			seen[m[0]+"\x00"+m[1]]++
			if seen[m[0]+"\x00"+m[1]] > 1 {
				add("duplicate-delivery", "", fmt.Sprintf("scenario %s: connection %s received %q on %q twice; history: %s", sc.ID, name, m[1], m[0], histString(rs.ops)))
			}
		}
		for key, seq := range pubOrder {
			ch := key[strings.Index(key, "/")+1:]
			last := -1
			for _, m := range msgs {
				if m[0] != ch {
					continue
				}
				for i, p := range seq {
					if p == m[1] {
						if i < last {
							add("out-of-order", "", fmt.Sprintf("scenario %s: connection %s received %v out of publish order %v", sc.ID, name, msgs, seq))
						}
						last = i
					}
				}
			}
		}
	}
	// linearizability against the subscription model
	var ops []lin.Op
	for _, o := range rs.ops {
		name := strings.ToLower(o.Args[0])
		conn := ""
		if o.Thread < len(sc.Conns) {
			conn = sc.Conns[o.Thread]
		}
		switch name {
		case "subscribe":
			// each channel is registered on its own: one operation per channel over the same interval
			for _, ch := range o.Args[1:] {
				ops = append(ops, lin.Op{Thread: o.Thread, Call: o.Call, Ret: o.Ret, Pending: !o.Done, In: psIn{Kind: "sub", Conn: conn, Chs: []string{ch}}, Out: psOut{}})
			}
		case "publish":
			var recv []string
			for cn, msgs := range got {
				for _, m := range msgs {
					if m[0] == o.Args[1] && m[1] == o.Args[2] {
						recv = append(recv, cn)
					}
				}
			}
			sort.Strings(recv)
			v, _ := model.DecodeOne(o.Reply)
			ops = append(ops, lin.Op{Thread: o.Thread, Call: o.Call, Ret: o.Ret, Pending: !o.Done, In: psIn{Kind: "pub", Ch: o.Args[1]}, Out: psOut{N: v.I, Receivers: recv}})
			if o.Done && v.K != model.Int {
				add("reply-mismatch", "", fmt.Sprintf("scenario %s: PUBLISH replied %s", sc.ID, v))
			}
		case "@cancel":
			// the unsubscribe it triggers runs asynchronously: pending from the call on
			ops = append(ops, lin.Op{Thread: o.Thread, Call: o.Call, Ret: 1 << 60, Pending: true, In: psIn{Kind: "cancel", Conn: o.Args[1]}})
		case "@close":
			ops = append(ops, lin.Op{Thread: o.Thread, Call: o.Call, Ret: o.Ret, In: psIn{Kind: "close", Conn: o.Args[1]}, Out: psOut{}})
		}
	}
	m := psModel()
	if ok, _ := lin.Check(ops, m, nil); !ok {
		var desc []string
		for _, o := range ops {
			desc = append(desc, fmt.Sprintf("T%d[%d,%d] %+v -> %+v", o.Thread, o.Call, o.Ret, o.In, o.Out))
		}
		add("delivery-mismatch", "", fmt.Sprintf("scenario %s: no order of subscribe / unsubscribe / publish explains who received what and the PUBLISH counts: %s", sc.ID, strings.Join(desc, " ; ")))
	}
	// at quiescence a cancelled connection must no longer be registered
	subs := rs.mgr.CurrentDB.VerifSubscribers()
	for _, o := range rs.ops {
		if o.Args[0] == "@cancel" {
			for ch, n := range subs {
				_ = ch
				if n[0] != n[1] {
					add("subscriber-count", "", fmt.Sprintf("scenario %s: channel %s has %d connections but numSubs=%d at quiescence", sc.ID, ch, n[0], n[1]))
				}
			}
		}
	}
	return vs
}

// psModel: the sequential Pub/Sub model (who is subscribed, who is gone; PUBLISH reaches exactly the
// subscribed connections that are not gone and reports their number).
func psModel() lin.Model {
	return lin.Model{
		Init: func() interface{} { return &psState{subs: map[string]map[string]bool{}, closed: map[string]bool{}} },
		Key:  func(st interface{}) string { return st.(*psState).key() },
		Step: func(st interface{}, in, out interface{}) []interface{} {
			s := st.(*psState).clone()
			i := in.(psIn)
			switch i.Kind {
			case "sub":
				for _, ch := range i.Chs {
					if s.subs[ch] == nil {
						s.subs[ch] = map[string]bool{}
					}
					s.subs[ch][i.Conn] = true
				}
				return []interface{}{s}
			case "cancel":
				for _, m := range s.subs {
					delete(m, i.Conn)
				}
				return []interface{}{s}
			case "close":
				s.closed[i.Conn] = true
				return []interface{}{s}
			case "pub":
				var want []string
				for c := range s.subs[i.Ch] {
					if !s.closed[c] {
						want = append(want, c)
					}
				}
				sort.Strings(want)
				if out == nil {
					return []interface{}{s}
				}
				o := out.(psOut)
				if strings.Join(want, ",") != strings.Join(o.Receivers, ",") || o.N != int64(len(want)) {
					return nil
				}
				return []interface{}{s}
			}
			return nil
		},
	}
}
