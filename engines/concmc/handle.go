package main

// Connection-level scenarios: the real server.Manager.Handle (connection handler) and the real
// resp.ParseStream (parser goroutine) of every connection run as threads of the controlled
// scheduler - their channel rendezvous, the connection reads and writes, every lock below them are
// scheduling points - next to one client thread per connection that writes its commands to the
// in-memory connection and waits for the replies.  Used by C20 (the selected database is per
// connection state; databases are isolated), C03 (one well-formed reply per command on a connection
// that also receives pushes) and C19.
//
// Search: iterative deviation bounding (explorer.Deviations): the default schedule keeps the running
// thread and, when it blocks, takes the lowest thread id (handlers < clients < parsers); every other
// choice costs one deviation.  All schedules with at most the bound are executed.

import (
	"context"
	"fmt"
	"sort"
	"strconv"
	"strings"

	rt "github.com/innovationb1ue/RedisGO/verifrt"

	"verif/explorer"
	"verif/h"
	"verif/lin"
	"verif/model"
)

// ---------------------------------------------------------------- sequential model: databases + selection per connection

type dbState struct {
	dbs []*model.KS
	sel []int // per connection index
}

type hIn struct {
	Conn int
	Args [][]byte
}

func (s *dbState) key() string {
	var b strings.Builder
	for _, d := range s.dbs {
		b.WriteString(model.CanonString(d.Canon()))
		b.WriteString("\x01")
	}
	fmt.Fprint(&b, s.sel)
	return b.String()
}

func (s *dbState) with(db int, ks *model.KS) *dbState {
	n := &dbState{dbs: append([]*model.KS{}, s.dbs...), sel: append([]int{}, s.sel...)}
	n.dbs[db] = ks
	return n
}

func dbModel(nDBs, nConns int, db0 *model.KS) lin.Model {
	return lin.Model{
		Init: func() interface{} {
			s := &dbState{sel: make([]int, nConns)}
			for i := 0; i < nDBs; i++ {
				s.dbs = append(s.dbs, model.NewKS(rt.Epoch*1000))
			}
			if db0 != nil {
				s.dbs[0] = db0
			}
			return s
		},
		Key: func(st interface{}) string { return st.(*dbState).key() },
		Step: func(st interface{}, in, out interface{}) []interface{} {
			s := st.(*dbState)
			i := in.(hIn)
			name := strings.ToLower(string(i.Args[0]))
			if name == "select" {
				valid := false
				idx := 0
				if len(i.Args) == 2 {
					if n, err := strconv.Atoi(string(i.Args[1])); err == nil && n >= 0 && n < len(s.dbs) && strconv.Itoa(n) == string(i.Args[1]) {
						valid, idx = true, n
					}
				}
				moved := &dbState{dbs: s.dbs, sel: append([]int{}, s.sel...)}
				moved.sel[i.Conn] = idx
				if out == nil {
					if valid {
						return []interface{}{moved}
					}
					return []interface{}{s}
				}
				v := out.(model.Val)
				if valid && v.K != model.Error {
					return []interface{}{moved}
				}
				if !valid && v.K == model.Error {
					return []interface{}{s}
				}
				return nil
			}
			if !model.Known(name) {
				if out == nil || out.(model.Val).K == model.Error {
					return []interface{}{s}
				}
				return nil
			}
			db := s.sel[i.Conn]
			var res []interface{}
			for _, o := range s.dbs[db].Apply(i.Args) {
				if out == nil {
					if o.Next != nil {
						res = append(res, s.with(db, o.Next))
					}
					continue
				}
				if n, why := o.Check(out.(model.Val)); why == "" {
					res = append(res, s.with(db, n))
				}
			}
			return res
		},
	}
}

// ---------------------------------------------------------------- instance

// push received by a client while it waited for a reply
type pushRec struct {
	Conn    string
	Channel string
	Payload string
}

type handleState struct {
	pushes []pushRec
	bad    []string // malformed / unexpected things read by a client
	nConn  map[string]int
}

var curHandle *handleState

// connOf: the connection an operation went over.
func connOf(sc *Scenario, o *opRec) string {
	if o.Conn != "" {
		return o.Conn
	}
	return sc.Conns[o.Thread]
}

func isPush(v model.Val) bool {
	return v.K == model.Array && len(v.Arr) == 3 && v.Arr[0].IsStr() && string(v.Arr[0].S) == "message"
}

func mkHandleInstance(sc *Scenario) (*explorer.Instance, *runState) {
	dbs := sc.DBs
	if dbs == 0 {
		dbs = 1
	}
	h.Boot(shardNum, 1)
	h.Cfg.Databases = dbs
	w := rt.NewWorld()
	rs := &runState{mgr: h.NewManager(), conns: map[string]*h.Conn{}, written: map[string][][]byte{}, ctxs: map[string]context.CancelFunc{}, w: w, sc: sc}
	rs.seedKS = model.NewKS(rt.Epoch * 1000)
	hs := &handleState{nConn: map[string]int{}}
	curHandle = hs
	bg := context.Background()
	for _, c := range sc.Seed {
		a := subst(c)
		b := h.Exec(bg, rs.mgr, nil, h.B(a...)...)
		settle(w)
		if v, err := model.DecodeOne(b); err == nil && model.Known(a[0]) {
			for _, o := range rs.seedKS.Apply(h.B(a...)) {
				if n, why := o.Check(v); why == "" {
					rs.seedKS = n
					break
				}
			}
		}
	}
	// one handler thread per connection (background: it never ends by itself)
	var names []string
	for _, cn := range append(append([]string{}, sc.Conns...), sc.ExtraConns...) {
		if cn == "" || rs.conns[cn] != nil {
			continue
		}
		hs.nConn[cn] = len(names)
		names = append(names, cn)
		conn := h.NewConn(cn)
		rs.conns[cn] = conn
		ctx, cancel := context.WithCancel(bg)
		rs.ctxs[cn] = cancel
		t := w.Spawn("H-"+cn, func() { rs.mgr.Handle(ctx, conn) })
		t.Background = true
	}
	in := &explorer.Instance{World: w}
	for ti, prog := range sc.Threads {
		ti, prog := ti, prog
		in.Names = append(in.Names, fmt.Sprintf("C%d", ti))
		in.Threads = append(in.Threads, func() {
			cn := sc.Conns[ti]
			conn := rs.conns[cn]
			await := func(conn *h.Conn, cn string, r *opRec, a []string) bool {
				for {
					w.Point(rt.Op{Kind: rt.OpIO, Obj: conn, Enabled: conn.ReplyReady})
					raw, v, st := conn.TryTakeReply()
					if st == "ok" && isPush(v) {
						hs.pushes = append(hs.pushes, pushRec{cn, string(v.Arr[1].S), string(v.Arr[2].S)})
						continue
					}
					if st != "ok" {
						hs.bad = append(hs.bad, fmt.Sprintf("connection %s, waiting for the reply to %q: %s %q", cn, a, st, raw))
						r.Ret = w.Steps
						return false
					}
					r.Reply = raw
					break
				}
				r.Ret, r.Done = w.Steps, true
				return true
			}
			if sc.Pipeline {
				// the whole program is written at once; the replies are awaited one by one.  Every command is
				// invoked when the bytes are written; a connection's commands take effect in the order they
				// were written (lin.Op.After), not necessarily after the client has seen the previous reply
				var recs []*opRec
				var stream []byte
				for _, c := range prog {
					a := subst(c)
					recs = append(recs, &opRec{Thread: ti, Conn: cn, Args: a})
					stream = append(stream, model.EncodeCommand(h.B(a...))...)
				}
				yield()
				sent := w.Steps
				for _, r := range recs {
					r.Call = sent
					rs.ops = append(rs.ops, r)
				}
				conn.Send(stream)
				for i, r := range recs {
					if i > 0 {
						r.After = recs[i-1]
					}
					if !await(conn, cn, r, r.Args) {
						return
					}
				}
				yield()
				return
			}
			for _, c := range prog {
				a := subst(c)
				// "cN:COMMAND ..." - this step goes over connection cN (a driver thread that talks over
				// several connections in a fixed order: the steps are sequential, the handlers are not)
				cn, conn := cn, conn
				if i := strings.Index(a[0], ":"); i > 0 && rs.conns[a[0][:i]] != nil {
					cn, conn = a[0][:i], rs.conns[a[0][:i]]
					a = append([]string{a[0][i+1:]}, a[1:]...)
				}
				if a[0] == "@stall" || a[0] == "@resume" {
					// the client stops reading (a[1] more bytes still fit on the way to it) / reads again
					if a[0] == "@stall" {
						room, _ := strconv.Atoi(a[1])
						conn.Stall(room)
					} else {
						conn.Resume()
					}
					yield()
					continue
				}
				if a[0] == "@eof" {
					// the client goes away: the handler will close the connection at some later point
					rs.ops = append(rs.ops, &opRec{Thread: ti, Conn: cn, Call: w.Steps, Ret: w.Steps, Done: true, Args: a})
					conn.EOF()
					yield()
					continue
				}
				r := &opRec{Thread: ti, Conn: cn, Call: w.Steps, Args: a}
				rs.ops = append(rs.ops, r)
				yield()
				r.Call = w.Steps
				conn.Send(model.EncodeCommand(h.B(a...)))
				if !await(conn, cn, r, a) {
					return
				}
				yield()
			}
		})
	}
	return in, rs
}

// drainPushes: what is left on the connections after the run (pushes that arrived after the last reply).
func drainPushes(rs *runState, hs *handleState) {
	var names []string
	for n := range rs.conns {
		names = append(names, n)
	}
	sort.Strings(names)
	for _, n := range names {
		c := rs.conns[n]
		for c.ReplyReady() {
			raw, v, st := c.TryTakeReply()
			if st == "closed" || st == "none" {
				break
			}
			if st == "ok" && isPush(v) {
				hs.pushes = append(hs.pushes, pushRec{n, string(v.Arr[1].S), string(v.Arr[2].S)})
				continue
			}
			hs.bad = append(hs.bad, fmt.Sprintf("connection %s holds bytes that are neither a reply that was waited for nor a message push: %s %q", n, st, raw))
			break
		}
		if rest := c.Output(); len(rest) > 0 {
			hs.bad = append(hs.bad, fmt.Sprintf("connection %s holds an incomplete value at quiescence: %q", n, rest))
		}
	}
}

func checkHandle(sc *Scenario, rs *runState, out *explorer.Outcome) []cviol {
	hs := curHandle
	var vs []cviol
	add := func(kind, fn, detail string) {
		vs = append(vs, cviol{Kind: kind, Cmd: sc.ID, Shape: sc.ID, Func: fn, Detail: detail, Schedule: out.Choices})
	}
	if len(out.Panics) > 0 {
		p := out.Panics[0]
		add("panic", p.Func, fmt.Sprintf("scenario %s: panic %s in %s; history: %s", sc.ID, p.Value, p.Func, histString(rs.ops)))
		return vs
	}
	if out.Deadlock {
		add("deadlock", "", fmt.Sprintf("scenario %s: a client waits for ever for its reply, blocked threads %v; history: %s", sc.ID, out.Blocked, histString(rs.ops)))
		return vs
	}
	if out.Horizon {
		add("livelock", "", fmt.Sprintf("scenario %s: step horizon reached; history: %s", sc.ID, histString(rs.ops)))
		return vs
	}
	drainPushes(rs, hs)
	for _, b := range hs.bad {
		add("malformed-stream", "", fmt.Sprintf("scenario %s: %s; history: %s", sc.ID, b, histString(rs.ops)))
	}
	if len(hs.bad) > 0 {
		return vs
	}
	// pushes: each one was published, to a channel that connection subscribed, at most once per publish
	published := map[string]int{}
	subscribed := map[string]bool{}
	for _, o := range rs.ops {
		switch strings.ToLower(o.Args[0]) {
		case "publish":
			if len(o.Args) == 3 {
				published[o.Args[1]+"\x00"+o.Args[2]]++
			}
		case "subscribe":
			for _, ch := range o.Args[1:] {
				subscribed[connOf(sc, o)+"\x00"+ch] = true
			}
		}
	}
	got := map[string]int{}
	for _, p := range hs.pushes {
		k := p.Channel + "\x00" + p.Payload
		got[p.Conn+"\x00"+k]++
		if published[k] == 0 || !subscribed[p.Conn+"\x00"+p.Channel] {
			add("spurious-push", "", fmt.Sprintf("scenario %s: connection %s received %q on %q, which was not published to a channel it subscribed; history: %s", sc.ID, p.Conn, p.Payload, p.Channel, histString(rs.ops)))
		} else if got[p.Conn+"\x00"+k] > published[k] {
			add("duplicate-delivery", "", fmt.Sprintf("scenario %s: connection %s received %q on %q more often than it was published; history: %s", sc.ID, p.Conn, p.Payload, p.Channel, histString(rs.ops)))
		}
	}
	// Pub/Sub completeness: some order of subscribe / disconnect / publish, consistent with real time,
	// must explain who received what and every PUBLISH count (a connection whose client has gone may
	// stop receiving at any later point: its disconnect is a pending operation)
	var pops []lin.Op
	hasPub := false
	for _, o := range rs.ops {
		conn := connOf(sc, o)
		switch strings.ToLower(o.Args[0]) {
		case "subscribe":
			for _, ch := range o.Args[1:] {
				pops = append(pops, lin.Op{Thread: o.Thread, Call: o.Call, Ret: o.Ret, Pending: !o.Done, In: psIn{Kind: "sub", Conn: conn, Chs: []string{ch}}, Out: psOut{}})
			}
		case "publish":
			hasPub = true
			var recv []string
			for _, p := range hs.pushes {
				if len(o.Args) == 3 && p.Channel == o.Args[1] && p.Payload == o.Args[2] {
					recv = append(recv, p.Conn)
				}
			}
			sort.Strings(recv)
			v, _ := model.DecodeOne(o.Reply)
			if o.Done && v.K != model.Int {
				add("reply-mismatch", "", fmt.Sprintf("scenario %s: PUBLISH replied %s", sc.ID, v))
			}
			pops = append(pops, lin.Op{Thread: o.Thread, Call: o.Call, Ret: o.Ret, Pending: !o.Done, In: psIn{Kind: "pub", Ch: o.Args[1]}, Out: psOut{N: v.I, Receivers: recv}})
		case "@eof":
			pops = append(pops, lin.Op{Thread: o.Thread, Call: o.Call, Ret: 1 << 60, Pending: true, In: psIn{Kind: "close", Conn: conn}})
		}
	}
	if hasPub {
		if ok, _ := lin.Check(pops, psModel(), nil); !ok {
			var desc []string
			for _, o := range pops {
				desc = append(desc, fmt.Sprintf("T%d[%d,%d] %+v -> %+v", o.Thread, o.Call, o.Ret, o.In, o.Out))
			}
			add("delivery-mismatch", "", fmt.Sprintf("scenario %s: no order of subscribe / disconnect / publish explains who received what and the PUBLISH counts: %s", sc.ID, strings.Join(desc, " ; ")))
		}
	}
	// replies: linearizable against databases + per-connection selection; some linearization must
	// end in the observed databases
	var ops []lin.Op
	linIndex := map[*opRec]int{}
	for _, o := range rs.ops {
		name := strings.ToLower(o.Args[0])
		if name == "subscribe" || name == "publish" || name == "@eof" {
			continue
		}
		op := lin.Op{Thread: o.Thread, Call: o.Call, Ret: o.Ret, Pending: !o.Done, In: hIn{Conn: hs.nConn[connOf(sc, o)], Args: h.B(o.Args...)}}
		if o.After != nil {
			if j, ok := linIndex[o.After]; ok {
				op.After = j + 1
			}
		}
		linIndex[o] = len(ops)
		if o.Done {
			v, err := model.DecodeOne(o.Reply)
			if err != nil {
				add("malformed-reply", "", fmt.Sprintf("scenario %s: %q replied %q", sc.ID, o.Args, o.Reply))
				return vs
			}
			op.Out = v
		}
		ops = append(ops, op)
	}
	nDBs := len(rs.mgr.DBs)
	m := dbModel(nDBs, len(hs.nConn), rs.seedKS)
	if ok, _ := lin.Check(ops, m, nil); !ok {
		add("non-linearizable", "", fmt.Sprintf("scenario %s: no sequential order of the commands, with one selected database per connection, explains the replies: %s", sc.ID, histString(rs.ops)))
		return vs
	}
	var impl [][]model.CanonKey
	for _, db := range rs.mgr.DBs {
		d := db.VerifDump()
		for _, iv := range d.Invariants {
			add("invariant", "", fmt.Sprintf("scenario %s: at quiescence %s", sc.ID, iv))
		}
		impl = append(impl, h.CanonOf(d))
	}
	okState, _ := lin.Check(ops, m, func(st interface{}) bool {
		s := st.(*dbState)
		for i := range s.dbs {
			if model.DiffCanon(s.dbs[i].Canon(), impl[i], 1000) != "" {
				return false
			}
		}
		return true
	})
	if !okState {
		var dump []string
		for i, c := range impl {
			dump = append(dump, fmt.Sprintf("db%d{%s}", i, strings.ReplaceAll(model.CanonString(c), "\n", " | ")))
		}
		add("final-state", "", fmt.Sprintf("scenario %s: the replies are linearizable but no linearization ends in the observed databases %s; history: %s", sc.ID, strings.Join(dump, " "), histString(rs.ops)))
	}
	return vs
}

// raceHandle: the free-running -race pass of a connection-level scenario: real goroutines, real
// Manager.Handle per connection, clients write their commands and wait for each reply.
func raceHandle(sc *Scenario, reps int) {
	dbs := sc.DBs
	if dbs == 0 {
		dbs = 1
	}
	h.Cfg.Databases = dbs
	for r := 0; r < reps; r++ {
		rt.NewWorld()
		mgr := h.NewManager()
		bg := context.Background()
		for _, c := range sc.Seed {
			h.Exec(bg, mgr, nil, h.B(subst(c)...)...)
		}
		ctx, cancel := context.WithCancel(bg)
		conns := map[string]*h.Conn{}
		for _, cn := range append(append([]string{}, sc.Conns...), sc.ExtraConns...) {
			if cn != "" && conns[cn] == nil {
				conns[cn] = h.NewConn(cn)
				go mgr.Handle(ctx, conns[cn])
			}
		}
		done := make(chan struct{}, len(sc.Threads))
		start := make(chan struct{})
		for ti, prog := range sc.Threads {
			go func(ti int, prog [][]string) {
				defer func() { done <- struct{}{} }()
				conn := conns[sc.Conns[ti]]
				<-start
				for _, c := range prog {
					a := subst(c)
					conn := conn
					if i := strings.Index(a[0], ":"); i > 0 && conns[a[0][:i]] != nil {
						conn = conns[a[0][:i]]
						a = append([]string{a[0][i+1:]}, a[1:]...)
					}
					if a[0] == "@eof" {
						conn.EOF()
						continue
					}
					if a[0] == "@stall" {
						room, _ := strconv.Atoi(a[1])
						conn.Stall(room)
						continue
					}
					if a[0] == "@resume" {
						conn.Resume()
						continue
					}
					if a[0] == "BLPOP" || a[0] == "BRPOP" {
						continue // blocking pops wait on the virtual clock: covered by the controlled pass
					}
					conn.Send(model.EncodeCommand(h.B(a...)))
					for {
						_, v, st := conn.TakeReply(h.Patience)
						if st == "ok" && isPush(v) {
							continue
						}
						break
					}
				}
			}(ti, prog)
		}
		close(start)
		for range sc.Threads {
			<-done
		}
		for _, c := range conns {
			c.EOF()
		}
		cancel()
	}
	h.Cfg.Databases = 1
}

// handleScenarios: the connection-level catalogue.
func handleScenarios() []*Scenario {
	var s []*Scenario
	add := func(prop, id string, dbs int, seed [][]string, conns []string, threads ...[][]string) {
		s = append(s, &Scenario{ID: id, Prop: prop, Seed: seed, Threads: threads, Conns: conns, ViaHandle: true, DBs: dbs, Atomic: true})
	}
	// C20: selection is per connection, databases are isolated - also when connections select,
	// write and read at the same time (first use of a database included)
	add("C20", "h:select-same-db-set-get", 3, nil, []string{"c1", "c2"},
		th(c("SELECT", "1"), c("SET", "@k0", "a")), th(c("SELECT", "1"), c("GET", "@k0")))
	add("C20", "h:select-other-dbs", 3, nil, []string{"c1", "c2"},
		th(c("SELECT", "1"), c("SET", "@k0", "a"), c("GET", "@k0")), th(c("SELECT", "2"), c("SET", "@k0", "b"), c("GET", "@k0")))
	add("C20", "h:select-vs-default-db", 2, nil, []string{"c1", "c2"},
		th(c("SELECT", "1"), c("SET", "@k0", "a")), th(c("SET", "@k0", "z"), c("GET", "@k0")))
	add("C20", "h:select-invalid-keeps-selection", 2, nil, []string{"c1", "c2"},
		th(c("SELECT", "1"), c("SELECT", "2"), c("SET", "@k0", "a")), th(c("SELECT", "1"), c("GET", "@k0")))
	add("C20", "h:three-connections-first-use", 2, nil, []string{"c1", "c2", "c3"},
		th(c("SELECT", "1"), c("SET", "@k0", "a")), th(c("SELECT", "1"), c("SET", "@k1", "b")), th(c("SELECT", "1"), c("EXISTS", "@k0", "@k1")))
	// a connection blocked in BLPOP in one database while another connection pushes to the same key
	// name in another database (and the other way round): waiting state is per database too
	add("C20", "h:blpop-vs-push-in-other-db", 2, nil, []string{"c1", "c2"},
		th(c("BLPOP", "@k0", "1")), th(c("SELECT", "1"), c("RPUSH", "@k0", "a"), c("LLEN", "@k0")))
	s[len(s)-1].Timed = true
	add("C20", "h:blpop-in-db1-vs-push-in-db0", 2, nil, []string{"c1", "c2"},
		th(c("SELECT", "1"), c("BLPOP", "@k0", "1")), th(c("RPUSH", "@k0", "a"), c("EXISTS", "@k0")))
	s[len(s)-1].Timed = true
	// C03 / C19: replies and pushes share the subscriber's connection; a reply larger than any
	// buffer (a list of 150 x 40-byte elements) is written while a message is published
	var big []string
	for i := 0; i < 150; i++ {
		big = append(big, fmt.Sprintf("element-%03d-%s", i, strings.Repeat("x", 28)))
	}
	seedBig := [][]string{append([]string{"RPUSH", "@k0"}, big...)}
	for _, p := range []string{"C03", "C19"} {
		add(p, "h:"+p+":subscriber-big-reply-vs-publish", 1, seedBig, []string{"c1", "c2"},
			th(c("SUBSCRIBE", "ch"), c("LRANGE", "@k0", "0", "-1")), th(c("PUBLISH", "ch", "m1")))
		add(p, "h:"+p+":subscriber-ping-vs-two-publishers", 1, nil, []string{"c1", "c2", "c3"},
			th(c("SUBSCRIBE", "ch1", "ch2"), c("PING"), c("GET", "@k0")), th(c("PUBLISH", "ch1", "m1")), th(c("PUBLISH", "ch2", "m2")))
	}
	// a subscriber leaves while another one stays and messages keep being published
	add("C19", "h:C19:subscriber-leaves-other-stays", 1, nil, []string{"c1", "c2", "c3"},
		th(c("SUBSCRIBE", "ch"), c("@eof")), th(c("SUBSCRIBE", "ch")), th(c("PUBLISH", "ch", "m1"), c("PUBLISH", "ch", "m2"), c("PUBLISH", "ch", "m3")))
	// a subscriber that stops reading for a while (its socket buffers hold 0 / 10 / 40 more bytes) and
	// then reads on: publishers may wait for it, but what it finally reads is every message, intact
	for _, room := range []string{"0", "10", "40"} {
		add("C19", "h:C19:subscriber-stalls-"+room+"-then-reads-on", 1, nil, []string{"c1", "c2"},
			th(c("SUBSCRIBE", "ch"), c("@stall", room), c("@resume")), th(c("PUBLISH", "ch", "m1"), c("PUBLISH", "ch", "m2")))
	}
	// a sequential story over five connections (one driver thread; the five handlers and parsers run
	// when the scheduler lets them): three subscribers, the first leaves, a publish meets the dead
	// connection, a newcomer subscribes, two more publishes - everybody still subscribed gets them
	s = append(s, &Scenario{ID: "h:C19:leave-publish-newcomer-publish", Prop: "C19", ViaHandle: true, DBs: 1, Atomic: true,
		Conns:      []string{"c1"},
		ExtraConns: []string{"c2", "c3", "c4", "c5"},
		Threads: [][][]string{th(c("c1:SUBSCRIBE", "ch"), c("c2:SUBSCRIBE", "ch"), c("c3:SUBSCRIBE", "ch"), c("c1:@eof"), c("c5:PUBLISH", "ch", "m1"),
			c("c4:SUBSCRIBE", "ch"), c("c5:PUBLISH", "ch", "m2"), c("c5:PUBLISH", "ch", "m3"))}})
	// pipelines: a connection's commands arrive in one chunk; the parser goroutine runs ahead of the
	// handler (what it has parsed must stay intact while the handler still executes earlier commands)
	pipe := func(prop, id string, conns []string, threads ...[][]string) {
		s = append(s, &Scenario{ID: id, Prop: prop, Threads: threads, Conns: conns, ViaHandle: true, DBs: 1, Atomic: true, Pipeline: true})
	}
	for _, p := range []string{"C02", "C03"} {
		pipe(p, "h:"+p+":pipelines-two-connections", []string{"c1", "c2"},
			th(c("SET", "@k0", "aaaa"), c("APPEND", "@k0", "bb"), c("GET", "@k0")), th(c("SET", "@k0", "zzzzzz"), c("GET", "@k0")))
		pipe(p, "h:"+p+":pipeline-one-connection", []string{"c1"},
			th(c("SET", "@k0", "aaaa"), c("SET", "@k1", "bbbbbbbb"), c("MGET", "@k0", "@k1"), c("RPUSH", "@k2", "x", "yy", "zzz"), c("LRANGE", "@k2", "0", "-1")))
	}
	// C20: a pipeline that changes the selection at its head, in its middle and at its end, next to a
	// connection that stays in database 0: every command runs in the database selected by the SELECTs
	// written before it on its own connection, however the handler groups what the parser hands it
	pipe2 := func(id string, conns []string, threads ...[][]string) {
		s = append(s, &Scenario{ID: id, Prop: "C20", Threads: threads, Conns: conns, ViaHandle: true, DBs: 3, Atomic: true, Pipeline: true})
	}
	pipe2("h:C20:pipeline-select-first", []string{"c1", "c2"},
		th(c("SELECT", "1"), c("SET", "@k0", "one"), c("GET", "@k0")), th(c("GET", "@k0"), c("SET", "@k0", "zero")))
	pipe2("h:C20:pipeline-select-middle-and-last", []string{"c1", "c2"},
		th(c("SET", "@k0", "zero"), c("SELECT", "2"), c("GET", "@k0"), c("SET", "@k0", "two"), c("SELECT", "0")), th(c("GET", "@k0"), c("SELECT", "2"), c("GET", "@k0")))
	return s
}
