// concmc — E6: interleaving exploration of small concurrent harnesses on the real executors
// (C05 linearizability of single-key commands, C13 deadlock-freedom / atomicity of multi-key
// commands, C19 Pub/Sub delivery), plus the separate free-running -race pass over the same bodies.
package main

import (
	"context"
	"encoding/json"
	"fmt"
	"os"
	"os/exec"
	"reflect"
	"sort"
	"strconv"
	"strings"
	"sync"
	"time"

	"github.com/innovationb1ue/RedisGO/server"
	rt "github.com/innovationb1ue/RedisGO/verifrt"
	"verif/ev"
	"verif/explorer"
	"verif/h"
	"verif/lin"
	"verif/model"
	"verif/pool"
)

const shardNum = 2

// A thread step is a command; pseudo commands: "@sleep <ms>", "@cancel <conn>", "@close <conn>".
type Scenario struct {
	ID      string
	Prop    string
	Seed    [][]string
	Threads [][][]string
	// Atomic: the history over the joint keys must be linearizable (always true for C05; for C13
	// only MSET/RENAME/LMOVE/SMOVE scenarios).
	Atomic bool
	// Conserve lists keys whose joint element/member multiset must equal the seed's at quiescence.
	Conserve []string
	Timed    bool // uses blocking pops: virtual time auto-advances
	PubSub   bool
	Conns    []string // pubsub: thread i uses connection Conns[i] ("" = none)
	// ReplyOnConn: a thread that owns a connection writes each reply to it, as Manager.Handle does
	// (the thread plays the connection's handler goroutine), so replies and pushes share the stream
	ReplyOnConn bool
	// ViaHandle: connection-level scenario (handle.go): real Manager.Handle + parser goroutine per
	// connection under the scheduler, clients talk RESP over the in-memory connection; DBs = number
	// of databases
	ViaHandle bool
	DBs       int
	RaceOnly  bool // run in the free-running -race pass only
	Pipeline  bool // connection-level: a client writes its whole program at once
	// ExtraConns: connections (with their handlers) beyond one per thread, addressed by "cN:" steps
	ExtraConns []string
	Gen        bool // generated pair scenario (pairs.go): reported in aggregate
}

type opRec struct {
	Conn   string // connection-level scenarios: the connection the step went over ("" = the thread's)
	After  *opRec // pipelined on the same connection right after this one (program order)
	Thread int
	Call   int64
	Ret    int64
	Done   bool
	Args   []string
	Reply  []byte
}

type runState struct {
	mgr   *server.Manager
	ops   []*opRec
	conns map[string]*h.Conn
	// written[conn] = the raw replies the connection's handler thread wrote to it, in order
	written map[string][][]byte
	ctxs    map[string]context.CancelFunc
	w       *rt.World
	sc      *Scenario
	seedKS  *model.KS
}

func keysOf() h.KeySet { return h.Keys(shardNum) }

// subst replaces @k0..@k3 in scenario arguments by the colliding key alphabet.
func subst(a []string) []string {
	ks := keysOf()
	out := make([]string, len(a))
	for i, s := range a {
		switch s {
		case "@k0":
			s = ks.K0
		case "@k1":
			s = ks.K1
		case "@k2":
			s = ks.K2
		case "@k3":
			s = ks.K3
		}
		out[i] = s
	}
	return out
}

// settle: the goroutines a seed command has started (expiry timers) run until each of them waits, as
// they would have long before the clients of the scenario arrive - a timer created inside such a
// goroutine starts at the seed command, not at the first scheduling decision of the exploration.
// Deterministic (keep the running thread, else the lowest id) and bounded.
func settle(w *rt.World) {
	saved := w.Chooser
	n := 0
	w.Chooser = func(w *rt.World, cur *rt.Thread, en []*rt.Thread) *rt.Thread {
		if n++; n > 2000 {
			return nil
		}
		for _, t := range en {
			if t == cur {
				return t
			}
		}
		return en[0]
	}
	w.Run()
	w.Chooser = saved
}

func mkInstance(sc *Scenario) (*explorer.Instance, *runState) {
	h.Boot(shardNum, 1)
	w := rt.NewWorld()
	rs := &runState{mgr: h.NewManager(), conns: map[string]*h.Conn{}, written: map[string][][]byte{}, ctxs: map[string]context.CancelFunc{}, w: w, sc: sc}
	rs.seedKS = model.NewKS(rt.Epoch * 1000)
	bg := context.Background()
	for _, c := range sc.Seed {
		a := subst(c)
		if a[0] == "@advance" {
			ms, _ := strconv.Atoi(a[1])
			w.Advance(int64(ms) * 1e6)
			rs.seedKS = rs.seedKS.Clone()
			rs.seedKS.NowMs += int64(ms)
			continue
		}
		b := h.Exec(bg, rs.mgr, nil, h.B(a...)...)
		settle(w)
		if v, err := model.DecodeOne(b); err == nil && model.Known(a[0]) {
			for _, o := range rs.seedKS.Apply(h.B(a...)) {
				if n, why := o.Check(v); why == "" {
					rs.seedKS = n
					break
				}
			}
		}
	}
	connCtx := map[string]context.Context{}
	for _, cn := range sc.Conns {
		if cn == "" || rs.conns[cn] != nil {
			continue
		}
		rs.conns[cn] = h.NewConn(cn)
		ctx, cancel := context.WithCancel(bg)
		connCtx[cn] = ctx
		rs.ctxs[cn] = cancel
	}
	in := &explorer.Instance{World: w}
	for ti, prog := range sc.Threads {
		ti, prog := ti, prog
		in.Names = append(in.Names, fmt.Sprintf("T%d", ti))
		in.Threads = append(in.Threads, func() {
			ctx := bg
			var conn *h.Conn
			if ti < len(sc.Conns) && sc.Conns[ti] != "" {
				conn = rs.conns[sc.Conns[ti]]
				ctx = connCtx[sc.Conns[ti]]
			}
			for _, c := range prog {
				a := subst(c)
				switch a[0] {
				case "@sleep":
					ms, _ := strconv.Atoi(a[1])
					vsleep(time.Duration(ms) * time.Millisecond)
					continue
				case "@cancel":
					r := &opRec{Thread: ti, Call: w.Steps, Args: a}
					rs.ops = append(rs.ops, r)
					rs.ctxs[a[1]]()
					r.Ret, r.Done = w.Steps, true
					yield()
					continue
				case "@close":
					r := &opRec{Thread: ti, Call: w.Steps, Args: a}
					rs.ops = append(rs.ops, r)
					rs.conns[a[1]].FailWrites()
					r.Ret, r.Done = w.Steps, true
					yield()
					continue
				}
				r := &opRec{Thread: ti, Call: w.Steps, Args: a}
				rs.ops = append(rs.ops, r)
				yield() // invocation is a scheduling point of its own
				r.Call = w.Steps
				// as in Manager.Handle: the executor returns (its locks released), then the reply is
				// serialised - a scheduling point in between lets another command run before a value
				// that was handed out by reference is read
				var reply []byte
				if conn != nil {
					res := rs.mgr.ExecCommand(ctx, h.B(a...), conn)
					yield()
					reply = h.ReplyBytes(res)
				} else {
					res := rs.mgr.ExecCommand(ctx, h.B(a...), nil)
					yield()
					reply = h.ReplyBytes(res)
				}
				r.Reply = reply
				r.Ret, r.Done = w.Steps, true
				if conn != nil && sc.ReplyOnConn {
					rs.written[conn.Name] = append(rs.written[conn.Name], reply)
					conn.Write(reply)
				}
				yield()
			}
		})
	}
	return in, rs
}

// yield is a scheduling point without side effect.
func yield() {
	w := rt.W
	if w != nil && w.Cur != nil {
		w.Point(rt.Op{Kind: rt.OpYield})
	}
}

func vsleep(d time.Duration) {
	w := rt.W
	tm := w.AddTimer(int64(d), 0)
	ch := tm.C()
	w.Point(rt.Op{Kind: rt.OpSleep, Obj: ch, Enabled: func() bool { return len(ch) > 0 }})
	<-ch
}

// ------------------------------------------------------------------ oracle

type cviol struct {
	Kind, Cmd, Shape, Func, Detail string
	Schedule                       []int
}

func ksModel(init *model.KS) lin.Model {
	return lin.Model{
		Init: func() interface{} { return init },
		Step: func(st interface{}, in, out interface{}) []interface{} {
			ks := st.(*model.KS)
			args := in.([][]byte)
			var res []interface{}
			outs := ks.Apply(args)
			if out == nil {
				// pending operation: any admissible outcome
				for _, o := range outs {
					if o.Next != nil {
						res = append(res, o.Next)
					}
				}
				return res
			}
			v := out.(model.Val)
			for _, o := range outs {
				if n, why := o.Check(v); why == "" {
					res = append(res, n)
				}
			}
			return res
		},
		Key: func(st interface{}) string { return model.CanonString(st.(*model.KS).Canon()) },
	}
}

func histString(ops []*opRec) string {
	var s []string
	for _, o := range ops {
		rep := "pending"
		if o.Done {
			v, err := model.DecodeOne(o.Reply)
			if err != nil {
				rep = fmt.Sprintf("%q", o.Reply)
			} else {
				rep = v.String()
			}
		}
		s = append(s, fmt.Sprintf("T%d[%d,%d] %q -> %s", o.Thread, o.Call, o.Ret, o.Args, rep))
	}
	return strings.Join(s, " ; ")
}

// checkKV is the oracle of the key/value scenarios (C05, C13).
func checkKV(sc *Scenario, rs *runState, out *explorer.Outcome) []cviol {
	var vs []cviol
	add := func(kind, cmd, fn, detail string) {
		vs = append(vs, cviol{Kind: kind, Cmd: cmd, Shape: sc.ID, Func: fn, Detail: detail, Schedule: out.Choices})
	}
	if len(out.Panics) > 0 {
		p := out.Panics[0]
		add("panic", sc.ID, p.Func, fmt.Sprintf("scenario %s: panic %s in %s; history: %s", sc.ID, p.Value, p.Func, histString(rs.ops)))
		return vs
	}
	if out.Deadlock {
		add("deadlock", sc.ID, "", fmt.Sprintf("scenario %s: deadlock, blocked threads %v, locks held %v; history: %s", sc.ID, out.Blocked, rs.mgr.CurrentDB.VerifLocksHeld(), histString(rs.ops)))
		return vs
	}
	if out.Horizon {
		add("livelock", sc.ID, "", fmt.Sprintf("scenario %s: step horizon reached; history: %s", sc.ID, histString(rs.ops)))
		return vs
	}
	d := rs.mgr.CurrentDB.VerifDump()
	implC := h.CanonOf(d)
	for _, iv := range d.Invariants {
		k := iv
		if i := strings.Index(iv, ":"); i > 0 {
			k = iv[:i]
		}
		add("invariant:"+k, sc.ID, "", fmt.Sprintf("scenario %s: at quiescence %s; history: %s", sc.ID, iv, histString(rs.ops)))
	}
	if held := rs.mgr.CurrentDB.VerifLocksHeld(); len(held) > 0 {
		add("lock-leak", sc.ID, "", fmt.Sprintf("scenario %s: locks held at quiescence: %v", sc.ID, held))
	} else if !sc.Timed {
		// "the keyspace bookkeeping stays exact (KEYS and EXISTS agree with the data)": at quiescence
		// KEYS * and EXISTS of every key of the scenario, asked through the command interface, must
		// agree with the data (whatever a race left behind in a cache or a counter shows up here)
		var inData []string
		for _, k := range implC {
			inData = append(inData, k.Key)
		}
		sort.Strings(inData)
		if v, err := model.DecodeOne(h.Exec(context.Background(), rs.mgr, nil, h.B("KEYS", "*")...)); err == nil && v.K == model.Array {
			var listed []string
			for _, e := range v.Arr {
				listed = append(listed, string(e.S))
			}
			sort.Strings(listed)
			if strings.Join(listed, "\x00") != strings.Join(inData, "\x00") {
				add("bookkeeping", sc.ID, "", fmt.Sprintf("scenario %s: at quiescence KEYS * lists %q but the data holds %q; history: %s", sc.ID, listed, inData, histString(rs.ops)))
			}
		}
		for _, k := range scenarioKeys(sc) {
			want := int64(0)
			for _, d := range inData {
				if d == k {
					want = 1
				}
			}
			if v, err := model.DecodeOne(h.Exec(context.Background(), rs.mgr, nil, h.B("EXISTS", k)...)); err == nil && v.K == model.Int && v.I != want {
				add("bookkeeping", sc.ID, "", fmt.Sprintf("scenario %s: at quiescence EXISTS %q = %d but the data says %d; history: %s", sc.ID, k, v.I, want, histString(rs.ops)))
			}
		}
	}
	var ops []lin.Op
	for _, o := range rs.ops {
		op := lin.Op{Thread: o.Thread, Call: o.Call, Ret: o.Ret, Pending: !o.Done, In: h.B(o.Args...)}
		if o.Done {
			v, err := model.DecodeOne(o.Reply)
			if err != nil {
				add("malformed-reply", strings.ToLower(o.Args[0]), "", fmt.Sprintf("scenario %s: %q replied %q", sc.ID, o.Args, o.Reply))
				return vs
			}
			op.Out = v
		}
		if strings.ToLower(o.Args[0]) == "keys" && len(o.Args) == 2 && o.Args[1] == "*" {
			// KEYS * is not a single-key command: the property does not claim it atomic over the whole
			// keyspace (it lists the names, then looks at each key).  What it must satisfy is per key:
			// a listed key existed, a key not listed was absent, at some instant of the call - one
			// independent observation per key of the scenario, over the interval of the call.
			if !o.Done {
				continue
			}
			listed := map[string]bool{}
			bad := op.Out.(model.Val).K != model.Array
			if !bad {
				for _, e := range op.Out.(model.Val).Arr {
					listed[string(e.S)] = true
				}
			}
			universe := scenarioKeys(sc)
			for k := range listed {
				found := false
				for _, u := range universe {
					if u == k {
						found = true
					}
				}
				if !found {
					bad = true
				}
			}
			if bad {
				add("non-linearizable", sc.ID, "", fmt.Sprintf("scenario %s: KEYS * replied %s, which is not a list of keys of the scenario: %s", sc.ID, op.Out, histString(rs.ops)))
				return vs
			}
			for _, u := range universe {
				n := int64(0)
				if listed[u] {
					n = 1
				}
				ops = append(ops, lin.Op{Thread: o.Thread, Call: o.Call, Ret: o.Ret, In: h.B("EXISTS", u), Out: model.Val{K: model.Int, I: n}})
			}
			continue
		}
		ops = append(ops, op)
	}
	if sc.Atomic {
		m := ksModel(rs.seedKS)
		okReplies, _ := lin.Check(ops, m, nil)
		if !okReplies {
			add("non-linearizable", sc.ID, "", fmt.Sprintf("scenario %s: no sequential order explains the replies: %s", sc.ID, histString(rs.ops)))
		} else {
			okState, _ := lin.Check(ops, m, func(st interface{}) bool {
				return model.DiffCanon(st.(*model.KS).Canon(), implC, 1000) == ""
			})
			if !okState {
				add("final-state", sc.ID, "", fmt.Sprintf("scenario %s: replies are linearizable but no linearization ends in the observed keyspace %s; history: %s", sc.ID, strings.ReplaceAll(model.CanonString(implC), "\n", " | "), histString(rs.ops)))
			}
		}
	}
	if len(sc.Conserve) > 0 {
		count := func(c []model.CanonKey, keys []string) string {
			var items []string
			for _, k := range c {
				for _, kk := range keys {
					if k.Key == kk {
						for _, it := range strings.FieldsFunc(k.Body, func(r rune) bool { return r == ',' || r == ';' }) {
							if it != "" {
								items = append(items, it)
							}
						}
					}
				}
			}
			sort.Strings(items)
			return strings.Join(items, " ")
		}
		keys := subst(sc.Conserve)
		// elements handed out by pops are part of the conserved multiset
		var popped []string
		for _, o := range rs.ops {
			if !o.Done {
				continue
			}
			name := strings.ToLower(o.Args[0])
			if name == "lpop" || name == "rpop" || name == "spop" {
				if v, err := model.DecodeOne(o.Reply); err == nil && v.IsStr() {
					popped = append(popped, strconv.Quote(string(v.S)))
				}
			}
			if name == "blpop" || name == "brpop" {
				if v, err := model.DecodeOne(o.Reply); err == nil && v.K == model.Array && len(v.Arr) == 2 {
					popped = append(popped, strconv.Quote(string(v.Arr[1].S)))
				}
			}
		}
		before := count(rs.seedKS.Canon(), keys)
		pushed := []string{}
		for _, o := range rs.ops {
			name := strings.ToLower(o.Args[0])
			if (name == "rpush" || name == "lpush" || name == "sadd") && o.Done {
				for _, e := range o.Args[2:] {
					pushed = append(pushed, strconv.Quote(e))
				}
			}
		}
		want := strings.Fields(before)
		want = append(want, pushed...)
		sort.Strings(want)
		got := strings.Fields(count(implC, keys))
		got = append(got, popped...)
		sort.Strings(got)
		if !sc.Atomic || true {
			// sets de-duplicate: compare as multisets only for lists, as sets otherwise
			if strings.Join(uniq(want), " ") != strings.Join(uniq(got), " ") || (isListScenario(sc) && strings.Join(want, " ") != strings.Join(got, " ")) {
				add("conservation", sc.ID, "", fmt.Sprintf("scenario %s: elements before+pushed %v, after+popped %v; history: %s", sc.ID, want, got, histString(rs.ops)))
			}
		}
	}
	return vs
}

// scenarioKeys: the key names a scenario can create (first key argument positions of its commands
// after substitution of the key alphabet).
func scenarioKeys(sc *Scenario) []string {
	ks := keysOf()
	all := []string{ks.K0, ks.K1, ks.K2, ks.K3}
	seen := map[string]bool{}
	var out []string
	scan := func(cmds [][]string) {
		for _, c := range cmds {
			for _, a := range subst(c)[1:] {
				for _, k := range all {
					if a == k && !seen[k] {
						seen[k] = true
						out = append(out, k)
					}
				}
			}
		}
	}
	scan(sc.Seed)
	for _, t := range sc.Threads {
		scan(t)
	}
	sort.Strings(out)
	return out
}

func uniq(s []string) []string {
	var out []string
	for i, x := range s {
		if i == 0 || x != s[i-1] {
			out = append(out, x)
		}
	}
	return out
}

func isListScenario(sc *Scenario) bool {
	for _, c := range sc.Seed {
		if strings.HasSuffix(strings.ToLower(c[0]), "push") {
			return true
		}
	}
	for _, t := range sc.Threads {
		for _, c := range t {
			n := strings.ToLower(c[0])
			if strings.HasSuffix(n, "push") || n == "lmove" {
				return true
			}
		}
	}
	return false
}

// ------------------------------------------------------------------ worker

type task struct {
	Reverse  bool   // connection-level scenarios: second default schedule (highest thread id when blocked)
	Mode     string // explore | audit
	Scenario string
	Prop     string
	Bound    int
	Max      int
	Shard    int
	Of       int
}

type result struct {
	Schedules, Preemptive, MaxPoints int
	Complete                         bool
	// second box of a scenario whose preemption-bounded search hit the schedule cap
	DevBound, DevSchedules int
	DevComplete            bool
	Diverged               int // replays that took another path than their prefix (map iteration order)
	Outcomes               int
	Viol                   []cviol
	Sample                 string
	AuditRuns, AuditLocked int
}

func obsKey(rs *runState) string {
	var s []string
	for _, o := range rs.ops {
		rep := fmt.Sprintf("%q", o.Reply)
		if v, err := model.DecodeOne(o.Reply); err == nil && v.K == model.Array {
			// reply order of set-valued commands follows Go map iteration: normalise
			var el []string
			for _, e := range v.Arr {
				el = append(el, e.String())
			}
			sort.Strings(el)
			rep = strings.Join(el, ",")
		}
		s = append(s, fmt.Sprintf("%d:%q=%s", o.Thread, o.Args, rep))
	}
	sort.Strings(s)
	d := rs.mgr.CurrentDB.VerifDump()
	return strings.Join(s, "|") + "#" + model.CanonString(h.CanonOf(d))
}

func worker(tb []byte, progress func()) []byte {
	var t task
	json.Unmarshal(tb, &t)
	rt.CurMode = rt.Controlled
	h.Boot(shardNum, 1)
	var res result
	if t.Mode == "audit" {
		auditWorker(&t, &res, progress)
		b, _ := json.Marshal(res)
		return b
	}
	sc := findScenario(t.Scenario)
	var cur *runState
	mk := func() *explorer.Instance {
		if sc.ViaHandle {
			in, rs := mkHandleInstance(sc)
			cur = rs
			return in
		}
		in, rs := mkInstance(sc)
		cur = rs
		return in
	}
	e := &explorer.Explorer{Bound: t.Bound, MaxSchedules: t.Max, AutoAdvance: sc.Timed || sc.PubSub, HorizonNs: int64(5 * time.Second)}
	// PUBLISH walks the subscribers of a channel in Go's map iteration order: with two or more
	// subscribers of one channel a replay may take another path
	subs := map[string]int{}
	for _, th := range sc.Threads {
		for _, c := range th {
			name := strings.ToUpper(c[0])
			if i := strings.Index(name, ":"); i >= 0 {
				name = name[i+1:]
			}
			if name == "SUBSCRIBE" {
				for _, ch := range c[1:] {
					subs[ch]++
				}
			}
		}
	}
	for _, n := range subs {
		if n >= 2 {
			e.TolerateDivergence = true
		}
	}
	if sc.ViaHandle {
		e.Deviations = true
		e.Shard, e.Of = t.Shard, t.Of
		e.Reverse = t.Reverse
	}
	// determinism: the default schedule twice, identical observations
	// (SPOP / SRANDMEMBER pick by Go map iteration order, which no seam can own without editing the
	// code: for scenarios using them the schedule shape is compared instead of the replies; the
	// linearizability oracle accepts any member, so every explored execution is still judged.)
	random := false
	for _, th := range sc.Threads {
		for _, c := range th {
			if c[0] == "SPOP" || c[0] == "SRANDMEMBER" {
				random = true
			}
		}
	}
	var first string
	for i := 0; i < 2; i++ {
		in, o, _ := e.Run(mk, nil)
		k := obsKey(cur)
		if random {
			k = fmt.Sprintf("points=%d steps=%d deadlock=%v", len(o.Choices), o.Steps, o.Deadlock)
		}
		in.World.Kill()
		if i == 0 {
			first = k
		} else if k != first {
			res.Viol = append(res.Viol, cviol{Kind: "nondeterministic-harness", Cmd: sc.ID, Shape: sc.ID, Detail: "the default schedule produced two different observations: " + first + " vs " + k})
			b, _ := json.Marshal(res)
			return b
		}
	}
	outcomes := map[string]bool{}
	seenSig := map[string]bool{}
	n := 0
	visit := func(in *explorer.Instance, out *explorer.Outcome) bool {
		n++
		if n%200 == 0 {
			progress()
		}
		var vs []cviol
		if sc.ViaHandle {
			vs = checkHandle(sc, cur, out)
		} else if sc.PubSub {
			vs = checkPubSub(sc, cur, out)
		} else {
			vs = checkKV(sc, cur, out)
		}
		outcomes[obsKey(cur)] = true
		for _, v := range vs {
			k := v.Kind + v.Func
			if !seenSig[k] {
				seenSig[k] = true
				res.Viol = append(res.Viol, v)
			}
		}
		if res.Sample == "" && out.Preempted > 0 {
			res.Sample = fmt.Sprintf("%s: schedule %v (%d preemptions): %s", sc.ID, out.Choices, out.Preempted, histString(cur.ops))
		}
		return true
	}
	st := e.Explore(mk, visit)
	res.Schedules, res.Preemptive, res.MaxPoints = st.Schedules, st.Preemptive, st.MaxPoints
	res.Complete = !st.Truncated && st.Diverged == 0
	res.Diverged = st.Diverged
	if st.Truncated && !sc.ViaHandle {
		// the schedule cap cut the preemption-bounded search (with 3-4 threads the free choices at
		// blocking points alone are too many): a second, complete box - every schedule with at most
		// DevBound deviations from the default schedule (explorer.Deviations) - is explored as well
		e2 := &explorer.Explorer{Bound: t.Bound, MaxSchedules: t.Max * 4, AutoAdvance: e.AutoAdvance, HorizonNs: e.HorizonNs, Deviations: true}
		st2 := e2.Explore(mk, visit)
		res.Schedules += st2.Schedules
		res.Preemptive += st2.Preemptive
		res.DevBound = t.Bound
		res.DevComplete = !st2.Truncated
		res.DevSchedules = st2.Schedules
	}
	res.Outcomes = len(outcomes)
	b, _ := json.Marshal(res)
	return b
}

func findScenario(id string) *Scenario {
	for _, s := range allScenarios() {
		if s.ID == id {
			return s
		}
	}
	panic("unknown scenario " + id)
}

// ------------------------------------------------------------------ race pass (free mode; run from the -race binary)

func racePass(prop string, reps int) int {
	rt.CurMode = rt.Free
	h.Boot(shardNum, 1)
	only := os.Getenv("CONC_SCENARIO")
	for _, sc := range allScenarios() {
		if !scMatches(sc, prop) {
			continue
		}
		if strings.HasSuffix(only, "*") {
			if !strings.HasPrefix(sc.ID, strings.TrimSuffix(only, "*")) {
				continue
			}
		} else if only != "" && sc.ID != only {
			continue
		}
		if sc.ViaHandle && !rt.ChanOps {
			fmt.Fprintf(os.Stderr, "VERIF-SCENARIO-DONE %s\n", sc.ID)
			continue
		}
		if sc.ViaHandle {
			raceHandle(sc, reps)
			fmt.Fprintf(os.Stderr, "VERIF-SCENARIO-DONE %s\n", sc.ID)
			continue
		}
		if false {
			continue
		}
		for r := 0; r < reps; r++ {
			rt.NewWorld()
			mgr := h.NewManager()
			bg := context.Background()
			for _, c := range sc.Seed {
				if c[0] == "@advance" {
					ms, _ := strconv.Atoi(c[1])
					rt.W.Advance(int64(ms) * 1e6)
					continue
				}
				h.Exec(bg, mgr, nil, h.B(subst(c)...)...)
			}
			conns := map[string]*h.Conn{}
			ctxs := map[string]context.Context{}
			cancels := map[string]context.CancelFunc{}
			for _, cn := range sc.Conns {
				if cn != "" && conns[cn] == nil {
					conns[cn] = h.NewConn(cn)
					ctxs[cn], cancels[cn] = context.WithCancel(bg)
				}
			}
			var wg sync.WaitGroup
			start := make(chan struct{})
			for ti, prog := range sc.Threads {
				wg.Add(1)
				go func(ti int, prog [][]string) {
					defer wg.Done()
					defer func() {
						if r := recover(); r != nil {
							rt.RecordFreePanic(fmt.Sprintf("T%d", ti), r)
						}
					}()
					ctx := bg
					var conn *h.Conn
					if ti < len(sc.Conns) && sc.Conns[ti] != "" {
						conn, ctx = conns[sc.Conns[ti]], ctxs[sc.Conns[ti]]
					}
					<-start
					for _, c := range prog {
						a := subst(c)
						switch a[0] {
						case "@sleep":
							continue
						case "@cancel":
							cancels[a[1]]()
							continue
						case "@close":
							conns[a[1]].FailWrites()
							continue
						}
						if (a[0] == "BLPOP" || a[0] == "BRPOP") && true {
							continue // blocking pops need the virtual clock; they are covered by the controlled pass
						}
						// as Manager.Handle does: the reply is serialised after the executor has returned
						// (and released its locks), so a value handed out by reference is read here
						var res interface{ ToBytes() []byte }
						if conn != nil {
							res = mgr.ExecCommand(ctx, h.B(a...), conn)
						} else {
							res = mgr.ExecCommand(ctx, h.B(a...), nil)
						}
						if res != nil && !reflect.ValueOf(res).IsNil() {
							b := res.ToBytes()
							if conn != nil && sc.ReplyOnConn {
								conn.Write(b)
							}
						}
					}
				}(ti, prog)
			}
			close(start)
			// a thread that panicked while holding a lock leaves the others blocked for ever: wait for
			// the bodies, but not beyond a recorded panic (the panic is the finding) nor beyond the cap
			// (reported as a note, never as a violation: deadlocks are decided by the controlled pass)
			done := make(chan struct{})
			go func() { wg.Wait(); close(done) }()
			hung := false
			t0 := time.Now()
		wait:
			for {
				select {
				case <-done:
					break wait
				case <-time.After(20 * time.Millisecond):
					if (rt.HasFreePanics() && time.Since(t0) > 2*time.Second) || time.Since(t0) > 120*time.Second {
						hung = true
						break wait
					}
				}
			}
			if hung {
				ps := rt.TakeFreePanics()
				if len(ps) > 0 {
					fmt.Fprintf(os.Stderr, "VERIF-PANIC scenario=%s func=%s value=%s (other threads then blocked)\n", sc.ID, ps[0].Func, ps[0].Value)
				} else {
					fmt.Fprintf(os.Stderr, "VERIF-HANG scenario=%s\n", sc.ID)
				}
				fmt.Fprintf(os.Stderr, "VERIF-SCENARIO-DONE %s\n", sc.ID)
				os.Exit(0)
			}
			for _, c := range cancels {
				c()
			}
			time.Sleep(200 * time.Microsecond)
			if ps := rt.TakeFreePanics(); len(ps) > 0 {
				fmt.Fprintf(os.Stderr, "VERIF-PANIC scenario=%s func=%s value=%s\n", sc.ID, ps[0].Func, ps[0].Value)
			}
			rt.W.Kill()
		}
		fmt.Fprintf(os.Stderr, "VERIF-SCENARIO-DONE %s\n", sc.ID)
	}
	return 0
}

type raceRep struct {
	Funcs    [2]string
	Scenario string
	Text     string
}

var raceHangs int
var harnessErrors int
var nondet []string

func firstLineOf(s string) string {
	if i := strings.IndexByte(s, '\n'); i >= 0 {
		return s[:i]
	}
	return s
}

func genRule(prop string) string {
	if prop == "C13" {
		return "every unordered pair over the per-type alphabets of multi-key commands and single-key partners on the key triple (k0, k1 same stripe, k2 other shard), one command per thread, from each seed state (pairs.go); linearizability + final state when both commands are of the atomic classes, else deadlock / panic / invariants"
	}
	return "every unordered pair of the per-type single-key alphabets (pairs.go), one command per thread on the same key, from each seed state (pairs of two reading commands included); plus BLPOP against every list mutator"
}

// scMatches: the scenarios of a property.  C09 ("each element goes to exactly one popper", lists under
// concurrent clients) borrows the generated list and blocking-pop pairs of C05.
func scMatches(sc *Scenario, prop string) bool {
	if sc.Prop == prop {
		return true
	}
	if prop == "C06" {
		// "all instants at which a command probes the key relative to the deadline": the expired-key pairs
		return sc.Gen && strings.HasPrefix(sc.ID, "pair:expired:")
	}
	if prop == "C09" {
		return sc.Gen && (strings.HasPrefix(sc.ID, "pair:list:") || strings.HasPrefix(sc.ID, "pair:blocking:"))
	}
	// the per-type properties borrow the generated pairs of their type: "any sequence of commands"
	// includes sequences issued by two clients at once, which must behave like one of the two orders
	if pre, ok := map[string]string{"C01": "pair:string:", "C10": "pair:hash:", "C11": "pair:set:", "C12": "pair:zset:", "C18": "pair:stream:"}[prop]; ok {
		return sc.Gen && strings.HasPrefix(sc.ID, pre)
	}
	return false
}

// runRace runs the -race binary scenario by scenario and parses its reports.
func runRace(prop string, reps int, rep *ev.Report) (runs int, reports int, ok bool) {
	bin := os.Getenv("VERIF_RACE_BIN")
	if bin == "" {
		return 0, 0, false
	}
	seen := map[string]bool{}
	var list []*Scenario
	nGen := 0
	for _, sc := range allScenarios() {
		if !scMatches(sc, prop) {
			continue
		}
		if sc.Gen {
			nGen++
			continue
		}
		list = append(list, sc)
	}
	if nGen > 0 {
		// the generated pairs run in one subprocess, a few repetitions each
		gp := "pair:*"
		if prop == "C13" {
			gp = "mpair:*"
		}
		list = append(list, &Scenario{ID: gp, Prop: prop, Gen: true})
	}
	for _, sc := range list {
		n := reps
		if sc.Gen {
			n = reps/5 + 1
		}
		cmd := exec.Command(bin, "race", prop, strconv.Itoa(n))
		cmd.Env = append(os.Environ(), "CONC_SCENARIO="+sc.ID, "GORACE=halt_on_error=0", "GOMAXPROCS=8")
		outb, _ := cmd.CombinedOutput()
		if sc.Gen {
			runs += n * nGen
		} else {
			runs += n
		}
		txt := string(outb)
		if i := strings.Index(txt, "fatal error:"); i >= 0 {
			line := txt[i:]
			if j := strings.Index(line, "\n"); j > 0 {
				line = line[:j]
			}
			fn := firstRepoFunc(txt[i:])
			k := "fatal|" + fn
			if !seen[k] {
				seen[k] = true
				rep.Add(&ev.Violation{Engine: "concmc/race", Kind: "fatal", Cmd: "race-pass", Shape: sc.ID, Func: fn,
					Detail: fmt.Sprintf("free-running pass, scenario %s: %s (in %s)", sc.ID, line, fn),
					Replay: map[string]interface{}{"engine": "concmc", "prop": prop, "scenario": sc.ID, "mode": "race"}})
			}
		}
		for _, blk := range strings.Split(txt, "WARNING: DATA RACE")[1:] {
			if j := strings.Index(blk, "=================="); j > 0 {
				blk = blk[:j]
			}
			a, b := raceFuncs(blk)
			fs := []string{a, b}
			sort.Strings(fs)
			k := fs[0] + "|" + fs[1]
			reports++
			if seen[k] {
				continue
			}
			seen[k] = true
			rep.Add(&ev.Violation{Engine: "concmc/race", Kind: "data-race", Cmd: "race-pass", Shape: fs[0] + " / " + fs[1], Func: fs[0],
				Detail: fmt.Sprintf("free-running -race pass, scenario %s: unsynchronised access between %s and %s", sc.ID, fs[0], fs[1]),
				Replay: map[string]interface{}{"engine": "concmc", "prop": prop, "scenario": sc.ID, "mode": "race", "report": blk}})
		}
		for _, ln := range strings.Split(txt, "\n") {
			if strings.HasPrefix(ln, "VERIF-HANG") {
				raceHangs++
			}
			if strings.HasPrefix(ln, "VERIF-PANIC") {
				k := "panic|" + ln
				if !seen[k] {
					seen[k] = true
					fn := ""
					if i := strings.Index(ln, "func="); i >= 0 {
						fn = strings.Fields(ln[i+5:])[0]
					}
					rep.Add(&ev.Violation{Engine: "concmc/race", Kind: "panic", Cmd: "race-pass", Shape: sc.ID, Func: fn,
						Detail: "free-running pass: " + ln, Replay: map[string]interface{}{"engine": "concmc", "prop": prop, "scenario": sc.ID, "mode": "race"}})
				}
			}
		}
	}
	return runs, reports, true
}

func firstRepoFunc(stack string) string {
	for _, ln := range strings.Split(stack, "\n") {
		ln = strings.TrimSpace(ln)
		if strings.HasPrefix(ln, "github.com/innovationb1ue/RedisGO/") && !strings.Contains(ln, "/verifrt") {
			f := strings.TrimPrefix(ln, "github.com/innovationb1ue/RedisGO/")
			if i := strings.LastIndex(f, "("); i > 0 {
				f = f[:i]
			}
			return f
		}
	}
	return "?"
}

// raceFuncs extracts the innermost RedisGO function of the two conflicting accesses.
func raceFuncs(blk string) (string, string) {
	var fs []string
	parts := strings.Split(blk, "\n\n")
	for _, p := range parts {
		t := strings.TrimSpace(p)
		if strings.HasPrefix(t, "Write at") || strings.HasPrefix(t, "Read at") || strings.HasPrefix(t, "Previous write at") || strings.HasPrefix(t, "Previous read at") {
			fs = append(fs, firstRepoFunc(t))
		}
	}
	for len(fs) < 2 {
		fs = append(fs, "?")
	}
	return fs[0], fs[1]
}

// ------------------------------------------------------------------ coordinator

func main() {
	pool.Register("concmc", worker)
	pool.WorkerMain()
	if len(os.Args) < 2 {
		fmt.Fprintln(os.Stderr, "usage: concmc C05|C13|C19 | race <prop> <reps> | replay <file>")
		os.Exit(2)
	}
	if os.Args[1] == "race" {
		reps, _ := strconv.Atoi(os.Args[3])
		os.Exit(racePass(os.Args[2], reps))
	}
	if os.Args[1] == "replay" {
		os.Exit(replay(os.Args[2]))
	}
	prop := os.Args[1]
	tier := os.Getenv("VERIF_TIER")
	if tier != "thorough" {
		tier = "quick"
	}
	bound, maxSched, reps := 2, 20000, 20
	if tier == "thorough" {
		bound, maxSched, reps = 3, 400000, 200
	}
	rep := ev.NewReport(prop, "exploration")
	// Timeout = longest silence of a worker before it is declared hung.  A wall-clock verdict: far above
	// what a shard needs between two progress marks even on a machine that runs several checks at once
	// (a thorough C19 run reported four "hangs" at 60 s while three other thorough runs shared the cores)
	p := &pool.Pool{Handler: "concmc", N: 16, Timeout: 5 * time.Minute, MemMB: 4096}
	var tasks [][]byte
	handleNotRun := 0
	for _, sc := range allScenarios() {
		if !scMatches(sc, prop) {
			continue
		}
		if sc.RaceOnly {
			continue
		}
		if sc.ViaHandle && !rt.ChanOps {
			handleNotRun++
			continue
		}
		if sc.ViaHandle {
			// connection-level scenarios: deviation bound 2, split over 8 workers by first deviation
			// (thorough: bound 3 for scenarios with at most two connections)
			db, shards, cap := 2, 8, maxSched*2
			if tier == "thorough" && len(sc.Threads) <= 2 {
				db, shards, cap = 3, 32, 4000000
			}
			if len(sc.ExtraConns) > 0 {
				// a sequential story over many connections (one driver, 2 x connections other threads):
				// bound 1 in the quick tier, 2 in the thorough tier
				db, shards, cap = 1, 4, maxSched*2
				if tier == "thorough" {
					db, shards, cap = 2, 16, 4000000
				}
			}
			for sh := 0; sh < shards; sh++ {
				b, _ := json.Marshal(task{Mode: "explore", Scenario: sc.ID, Prop: prop, Bound: db, Max: cap, Shard: sh, Of: shards})
				tasks = append(tasks, b)
			}
			if tier == "thorough" {
				// the same ball around a second default schedule (clients and parsers before handlers)
				rb := db
				if rb > 2 {
					rb = 2
				}
				for sh := 0; sh < 8; sh++ {
					b, _ := json.Marshal(task{Mode: "explore", Scenario: sc.ID, Prop: prop, Bound: rb, Max: cap, Shard: sh, Of: 8, Reverse: true})
					tasks = append(tasks, b)
				}
			}
			continue
		}
		b, _ := json.Marshal(task{Mode: "explore", Scenario: sc.ID, Prop: prop, Bound: bound, Max: maxSched})
		tasks = append(tasks, b)
	}
	if handleNotRun > 0 {
		fmt.Fprintf(os.Stderr, "concmc: %d connection-level scenarios not run: %s\n", handleNotRun, rt.ChanOpsNote)
	}
	auditShards := 0
	if prop == "C13" {
		auditShards = 32
		for s := 0; s < auditShards; s++ {
			b, _ := json.Marshal(task{Mode: "audit", Prop: prop, Shard: s, Of: auditShards})
			tasks = append(tasks, b)
		}
	}
	schedules, preemptive, scen, truncated := 0, 0, 0, 0
	auditRuns, auditLocked := 0, 0
	var samples []string
	var perScenario []map[string]interface{}
	var nonColliding []string
	genScen, genSched, genColliding := 0, 0, 0
	var genTruncated []string
	p.Map(tasks, func(tb, out []byte, crash *pool.Crash) [][]byte {
		var t task
		json.Unmarshal(tb, &t)
		if crash != nil {
			if strings.Contains(crash.Detail, "explorer: replay diverged") {
				// the same choice sequence led to a different set of enabled threads: nondeterminism the
				// harness does not own.  A defect of the machinery (exit 2), never a violation.
				fmt.Fprintf(os.Stderr, "HARNESS-ERROR: scenario %s: %s\n", t.Scenario, firstLineOf(crash.Detail))
				harnessErrors++
				return nil
			}
			kind := "worker-" + crash.Kind
			rep.Add(&ev.Violation{Engine: "concmc", Kind: kind, Cmd: t.Scenario + t.Mode, Shape: t.Scenario, Detail: fmt.Sprintf("worker %s in %s %s: %s", crash.Kind, t.Mode, t.Scenario, crash.Detail),
				Replay: map[string]interface{}{"engine": "concmc", "prop": prop, "scenario": t.Scenario}})
			return nil
		}
		var r result
		json.Unmarshal(out, &r)
		if t.Mode == "audit" {
			auditRuns += r.AuditRuns
			auditLocked += r.AuditLocked
		} else {
			scen++
			schedules += r.Schedules
			preemptive += r.Preemptive
			if !r.Complete {
				truncated++
			}
			if strings.HasPrefix(t.Scenario, "pair:") || strings.HasPrefix(t.Scenario, "mpair:") {
				genScen++
				genSched += r.Schedules
				if r.Outcomes > 1 {
					genColliding++
				}
				if !r.Complete {
					genTruncated = append(genTruncated, t.Scenario)
				}
			} else {
				if r.Outcomes <= 1 {
					nonColliding = append(nonColliding, t.Scenario)
				}
				merged := false
				for _, ps := range perScenario {
					if ps["id"] == t.Scenario {
						// another shard of the same scenario
						ps["schedules"] = ps["schedules"].(int) + r.Schedules
						if r.Outcomes > ps["distinct_outcomes"].(int) {
							ps["distinct_outcomes"] = r.Outcomes
						}
						if r.MaxPoints > ps["max_points"].(int) {
							ps["max_points"] = r.MaxPoints
						}
						ps["bound_completed"] = ps["bound_completed"].(bool) && r.Complete
						ps["shards"] = ps["shards"].(int) + 1
						if r.Diverged > 0 {
							prev, _ := ps["replays_that_diverged_map_iteration_order"].(int)
							ps["replays_that_diverged_map_iteration_order"] = prev + r.Diverged
						}
						merged = true
					}
				}
				if !merged {
					e := map[string]interface{}{"id": t.Scenario, "schedules": r.Schedules, "distinct_outcomes": r.Outcomes, "max_points": r.MaxPoints, "bound_completed": r.Complete, "shards": 1}
					if r.Diverged > 0 {
						e["replays_that_diverged_map_iteration_order"] = r.Diverged
					}
					if r.DevBound > 0 {
						e["second_box_deviation_bound"] = r.DevBound
						e["second_box_schedules"] = r.DevSchedules
						e["second_box_completed"] = r.DevComplete
					}
					if t.Of > 1 {
						e["deviation_bound"] = t.Bound
					}
					perScenario = append(perScenario, e)
				}
			}
			if r.Sample != "" && len(samples) < 6 {
				samples = append(samples, r.Sample)
			}
		}
		for _, v := range r.Viol {
			if v.Kind == "nondeterministic-harness" {
				nondet = append(nondet, v.Detail)
				continue
			}
			rep.Add(&ev.Violation{Engine: "concmc", Kind: v.Kind, Cmd: v.Cmd, Shape: v.Shape, Func: v.Func, Detail: v.Detail,
				Replay: map[string]interface{}{"engine": "concmc", "prop": prop, "scenario": v.Shape, "schedule": v.Schedule, "mode": t.Mode}})
		}
		return nil
	})
	raceRuns, raceReports, raceRan := runRace(prop, reps, rep)
	sort.Slice(perScenario, func(i, j int) bool { return perScenario[i]["id"].(string) < perScenario[j]["id"].(string) })
	if len(samples) == 0 {
		samples = []string{"(no preemptive schedule)"}
	}
	cov := map[string]interface{}{
		"evaluations":                        schedules + auditRuns,
		"distinct_nontrivial":                preemptive + auditLocked,
		"rule":                               "every schedule with at most the preemption bound (a schedule point before every lock / rwlock announce / select / invocation / response) of each 2-3 thread scenario on colliding keys; oracle: brute-force linearizability against the reference keyspace incl. the final dump, structural invariants, conservation, deadlock, panic. Non-trivial = schedules with >= 1 preemption (+ audited commands that took a lock). Separate free-running -race pass over the same bodies",
		"samples":                            samples,
		"exhaustive":                         truncated == 0 && handleNotRun == 0,
		"connection_level_scenarios_not_run": map[string]interface{}{"count": handleNotRun, "why": rt.ChanOpsNote},
		"scenarios":                          scen,
		"scenarios_truncated":                truncated,
		"preemption_bound":                   bound,
		"per_scenario":                       perScenario,
		"non_colliding":                      nonColliding,
		"generated_pairs":                    map[string]interface{}{"scenarios": genScen, "schedules": genSched, "with_more_than_one_outcome": genColliding, "truncated": genTruncated, "rule": genRule(prop)},
		"lock_audit_runs":                    auditRuns,
		"lock_audit_with_locks":              auditLocked,
		"race_pass_ran":                      raceRan,
		"race_pass_runs":                     raceRuns,
		"race_reports":                       raceReports,
		"race_pass_hangs":                    raceHangs,
	}
	for _, v := range nondet {
		fmt.Fprintln(os.Stderr, "HARNESS-ERROR:", v)
	}
	harnessErrors += len(nondet)
	if sub := os.Getenv("VERIF_SUBREPORT"); sub != "" {
		if err := rep.Export(sub, cov); err != nil {
			fmt.Fprintln(os.Stderr, err)
			os.Exit(2)
		}
		if harnessErrors > 0 {
			os.Exit(2)
		}
		os.Exit(0)
	}
	rc := rep.Finish(cov, []string{
		"interleavings inside a region without synchronisation operations are not explored; unsynchronised accesses are the business of the -race pass, which is dynamic and not exhaustive",
		"the cooperative runtime models RWMutex writer preference with an explicit announce step",
	})
	if harnessErrors > 0 && rc == 0 {
		// no verdict for the scenarios that diverged.  (With violations found elsewhere the verdict is
		// theirs: each is replayable by itself; the harness errors stay on stderr.)
		os.Exit(2)
	}
	os.Exit(rc)
}

func replay(path string) int {
	b, err := os.ReadFile(path)
	if err != nil {
		fmt.Fprintln(os.Stderr, err)
		return 2
	}
	var v struct {
		Kind   string
		Replay struct {
			Scenario string
			Schedule []int
			Mode     string
		}
	}
	json.Unmarshal(b, &v)
	if v.Replay.Mode != "explore" {
		fmt.Println("replay is supported for explored schedules; race-pass and audit findings carry their report in the file")
		return 0
	}
	rt.CurMode = rt.Controlled
	h.Boot(shardNum, 1)
	sc := findScenario(v.Replay.Scenario)
	n := 0
	for i := 0; i < 2; i++ {
		var cur *runState
		e := &explorer.Explorer{AutoAdvance: sc.Timed || sc.PubSub, HorizonNs: int64(5 * time.Second)}
		in, out, _ := e.Run(func() *explorer.Instance {
			if sc.ViaHandle {
				in, rs := mkHandleInstance(sc)
				cur = rs
				return in
			}
			in, rs := mkInstance(sc)
			cur = rs
			return in
		}, v.Replay.Schedule)
		var vs []cviol
		if sc.ViaHandle {
			vs = checkHandle(sc, cur, out)
		} else if sc.PubSub {
			vs = checkPubSub(sc, cur, out)
		} else {
			vs = checkKV(sc, cur, out)
		}
		fmt.Printf("schedule %v: %s\n", v.Replay.Schedule, histString(cur.ops))
		for _, x := range vs {
			fmt.Printf("  -> %s: %s\n", x.Kind, x.Detail)
			if x.Kind == v.Kind {
				n++
			}
		}
		in.World.Kill()
	}
	fmt.Printf("reproduced %d/2\n", n)
	if n >= 2 {
		return 1
	}
	return 0
}
