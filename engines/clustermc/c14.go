package main

// C14 — cluster mode does not change what a command means.
//
// Differential enumeration: the same command bytes are sent (a) to a standalone Manager.Handle
// and (b) through the complete cluster execution path with consensus short-circuited:
// Manager.HandleCluster (real: RESP parse, filter, proposal) -> proposeC -> RaftProposal.ToBytes
// -> raftpb.Entry.Data -> RaftNode.publishEntries (real JSON decode) -> commitC ->
// handleClusterCommits (real) -> executor -> reply on the client connection.
// Raft itself carries Entry.Data opaquely (C15/C16), so this loopback is exactly the part of
// the path that can alter a command.

import (
	"bytes"
	"context"
	"encoding/json"
	"fmt"
	"sort"
	"strings"
	"time"

	"github.com/innovationb1ue/RedisGO/raftexample"
	"github.com/innovationb1ue/RedisGO/resp"
	"github.com/innovationb1ue/RedisGO/server"
	rt "github.com/innovationb1ue/RedisGO/verifrt"
	"go.etcd.io/etcd/raft/v3/raftpb"
	"verif/h"
	"verif/model"
)

var hostile = []string{"a", "A", "", " ", "a b", "a\r\nb", "\xff", "\"", "\\", "é"}

// templates: one well-formed invocation per command family; every argument position is
// replaced in turn by each hostile string.
var templates = [][]string{
	{"SET", "k", "v"}, {"GET", "k"}, {"SETNX", "k", "v"}, {"APPEND", "k", "v"}, {"STRLEN", "k"}, {"MSET", "k", "v", "k2", "w"}, {"MGET", "k", "k2"},
	{"GETRANGE", "k", "0", "-1"}, {"SETRANGE", "k", "1", "v"}, {"INCR", "n"}, {"INCRBY", "n", "2"}, {"DEL", "k"}, {"EXISTS", "k"}, {"TYPE", "k"}, {"RENAME", "k", "k2"},
	{"KEYS", "*"}, {"PING"}, {"PING", "x"}, {"EXPIRE", "k", "100"}, {"TTL", "k"}, {"PERSIST", "k"}, {"SETEX", "k", "100", "v"},
	{"RPUSH", "l", "v"}, {"LPUSH", "l", "v", "w"}, {"LRANGE", "l", "0", "-1"}, {"LINDEX", "l", "0"}, {"LREM", "l", "0", "v"}, {"LPOS", "l", "v"}, {"LSET", "l", "0", "v"}, {"LPOP", "l"}, {"LMOVE", "l", "l2", "LEFT", "RIGHT"},
	{"SADD", "s", "v"}, {"SREM", "s", "v"}, {"SISMEMBER", "s", "v"}, {"SMEMBERS", "s"}, {"SMOVE", "s", "s2", "v"}, {"SUNIONSTORE", "s2", "s"},
	{"HSET", "h", "f", "v"}, {"HGET", "h", "f"}, {"HDEL", "h", "f"}, {"HGETALL", "h"}, {"HEXISTS", "h", "f"}, {"HSETNX", "h", "f", "v"},
	{"ZADD", "z", "1", "v"}, {"ZREM", "z", "v"}, {"ZRANK", "z", "v"}, {"ZRANGE", "z", "0", "-1", "WITHSCORES"},
	{"XADD", "x", "5-1", "f", "v"}, {"XRANGE", "x", "-", "+"},
	{"NOSUCH", "k"}, {"SELECT", "0"},
}

var c14Seed = [][]string{
	{"SET", "k", "v"}, {"SET", "n", "5"}, {"RPUSH", "l", "v", "w"}, {"SADD", "s", "v"}, {"HSET", "h", "f", "v"}, {"ZADD", "z", "1", "v"}, {"XADD", "x", "1-1", "f", "v"},
	{"SET", "a b", "spaced"}, {"SET", "A", "upper"},
}

type c14Task struct {
	Shard, Of int
	Depth2    bool
}

type c14Viol struct {
	Kind, Cmd, Shape, Detail string
	Program                  [][]string
}

type c14Result struct {
	Programs, Commands, Distinct int
	Cut                          int // programs not run because their phase had already timed out three times
	Viol                         []c14Viol
	Samples                      []string
}

type loop struct {
	mgr      *server.Manager
	conn     *h.Conn
	proposeC chan *raftexample.RaftProposal
	rc       *raftexample.RaftNode
	cancel   context.CancelFunc
	idx      uint64
	log      []raftpb.Entry // every entry committed through this loop, in order
}

func newLoop() *loop {
	l := &loop{mgr: h.NewManager(), conn: h.NewConn("cluster"), proposeC: make(chan *raftexample.RaftProposal)}
	ctx, cancel := context.WithCancel(context.Background())
	l.cancel = cancel
	confC := make(chan raftpb.ConfChangeI, 16)
	callback := map[string]chan resp.RedisData{}
	rc, commitC := raftexample.VerifLoopbackNode()
	l.rc = rc
	errC := make(chan error)
	guard := func(name string, f func()) {
		go func() {
			defer func() {
				if r := recover(); r != nil {
					rt.RecordFreePanic(name, r) // the real node has no recover: this is a process exit
				}
			}()
			f()
		}()
	}
	guard("apply-loop", func() { server.VerifHandleClusterCommits(ctx, commitC, confC, l.mgr, callback, errC) })
	guard("HandleCluster", func() {
		l.mgr.HandleCluster(ctx, l.conn, l.proposeC, confC, callback, server.VerifClusterFilter())
	})
	return l
}

func (l *loop) close() {
	l.conn.EOF()
	l.cancel()
}

// exec sends one command through the cluster path and returns the reply.
func (l *loop) exec(args [][]byte) (raw []byte, v model.Val, status string) {
	l.conn.Send(model.EncodeCommand(args))
	deadline := time.Now().Add(h.Patience)
	for {
		select {
		case p := <-l.proposeC:
			l.idx++
			ent := raftpb.Entry{Type: raftpb.EntryNormal, Index: l.idx, Term: 1, Data: p.ToBytes()}
			l.log = append(l.log, ent)
			done, ok := l.rc.VerifPublish([]raftpb.Entry{ent})
			if !ok {
				return nil, model.Val{}, "publish-failed"
			}
			if done != nil {
				select {
				case <-done:
				case <-time.After(h.Patience):
					return nil, model.Val{}, "apply-timeout"
				}
			}
			return l.conn.TakeReply(5 * time.Second)
		case <-time.After(200 * time.Microsecond):
			if len(l.conn.Output()) > 0 {
				// answered without a proposal (filter rejection, rconf, protocol error)
				return l.conn.TakeReply(5 * time.Second)
			}
			if l.conn.Closed() {
				return nil, model.Val{}, "closed"
			}
			if rt.HasFreePanics() {
				return nil, model.Val{}, "panic"
			}
			if time.Now().After(deadline) {
				return nil, model.Val{}, "timeout"
			}
		}
	}
}

// execSlow: the proposal is not committed at once - ten seconds of the virtual clock pass first
// (a leaderless moment, a slow fsync, a partition) and whatever the connection handler then does on
// its own timers happens: everything it hands over on proposeC meanwhile is committed behind the
// first proposal, as raft would.  Only when some timer of the instrumented packages is pending
// (never on a tree whose handler has no time limit) - otherwise this is exec.
func (l *loop) execSlow(args [][]byte) (raw []byte, v model.Val, status string, extra int) {
	l.conn.Send(model.EncodeCommand(args))
	deadline := time.Now().Add(h.Patience)
	for {
		select {
		case p := <-l.proposeC:
			l.idx++
			ents := []raftpb.Entry{{Type: raftpb.EntryNormal, Index: l.idx, Term: 1, Data: p.ToBytes()}}
			if w := rt.CurWorld(); len(w.PendingTimers()) > 0 {
				w.Advance(int64(10 * time.Second))
				until := time.Now().Add(300 * time.Millisecond)
				for time.Now().Before(until) {
					select {
					case q := <-l.proposeC:
						l.idx++
						ents = append(ents, raftpb.Entry{Type: raftpb.EntryNormal, Index: l.idx, Term: 1, Data: q.ToBytes()})
						extra++
					case <-time.After(2 * time.Millisecond):
					}
					if extra > 0 && len(w.PendingTimers()) == 0 {
						break
					}
				}
			}
			l.log = append(l.log, ents...)
			done, ok := l.rc.VerifPublish(ents)
			if !ok {
				return nil, model.Val{}, "publish-failed", extra
			}
			if done != nil {
				select {
				case <-done:
				case <-time.After(h.Patience):
					return nil, model.Val{}, "apply-timeout", extra
				}
			}
			raw, v, status = l.conn.TakeReply(h.Patience)
			return raw, v, status, extra
		case <-time.After(200 * time.Microsecond):
			if len(l.conn.Output()) > 0 {
				raw, v, status = l.conn.TakeReply(h.Patience)
				return raw, v, status, extra
			}
			if l.conn.Closed() {
				return nil, model.Val{}, "closed", extra
			}
			if rt.HasFreePanics() {
				return nil, model.Val{}, "panic", extra
			}
			if time.Now().After(deadline) {
				return nil, model.Val{}, "timeout", extra
			}
		}
	}
}

// execDuringReplay: the node has just restarted (l is a fresh loop: new Manager, new callback table,
// new connection handler) and its log - old, the entries of its previous life - has not been
// re-applied yet.  The client's command is turned into a proposal first (its handler now waits for
// the result), then the old log and the new entry are published in one batch, as replayWAL followed
// by the first Ready does.
func (l *loop) execDuringReplay(old []raftpb.Entry, args [][]byte) (raw []byte, v model.Val, status string) {
	l.conn.Send(model.EncodeCommand(args))
	deadline := time.Now().Add(h.Patience)
	ents := append([]raftpb.Entry{}, old...)
	for {
		select {
		case p := <-l.proposeC:
			ents = append(ents, raftpb.Entry{Type: raftpb.EntryNormal, Index: uint64(len(ents) + 1), Term: 1, Data: p.ToBytes()})
			done, ok := l.rc.VerifPublish(ents)
			if !ok {
				return nil, model.Val{}, "publish-failed"
			}
			if done != nil {
				select {
				case <-done:
				case <-time.After(h.Patience):
					return nil, model.Val{}, "apply-timeout"
				}
			}
			return l.conn.TakeReply(5 * time.Second)
		case <-time.After(200 * time.Microsecond):
			if len(l.conn.Output()) > 0 || l.conn.Closed() || rt.HasFreePanics() || time.Now().After(deadline) {
				// answered without a proposal: replay the log anyway, then take the direct reply
				if done, ok := l.rc.VerifPublish(ents); ok && done != nil {
					select {
					case <-done:
					case <-time.After(h.Patience):
						return nil, model.Val{}, "apply-timeout"
					}
				}
				if len(l.conn.Output()) > 0 {
					return l.conn.TakeReply(5 * time.Second)
				}
				if l.conn.Closed() {
					return nil, model.Val{}, "closed"
				}
				if rt.HasFreePanics() {
					return nil, model.Val{}, "panic"
				}
				return nil, model.Val{}, "timeout"
			}
		}
	}
}

// batchLoop: k client connections on one node; the k proposals are committed as ONE batch (one
// publishEntries call, as when several clients propose at once, a follower catches up, or the WAL
// is replayed at restart).
type batchLoop struct {
	*loop
	conns []*h.Conn
}

func newBatchLoop(k int) *batchLoop {
	l := &loop{mgr: h.NewManager(), proposeC: make(chan *raftexample.RaftProposal)}
	ctx, cancel := context.WithCancel(context.Background())
	l.cancel = cancel
	confC := make(chan raftpb.ConfChangeI, 16)
	callback := map[string]chan resp.RedisData{}
	rc, commitC := raftexample.VerifLoopbackNode()
	l.rc = rc
	errC := make(chan error)
	guard := func(name string, f func()) {
		go func() {
			defer func() {
				if r := recover(); r != nil {
					rt.RecordFreePanic(name, r)
				}
			}()
			f()
		}()
	}
	guard("apply-loop", func() { server.VerifHandleClusterCommits(ctx, commitC, confC, l.mgr, callback, errC) })
	b := &batchLoop{loop: l}
	for i := 0; i < k; i++ {
		c := h.NewConn(fmt.Sprintf("cluster%d", i))
		b.conns = append(b.conns, c)
		guard("HandleCluster", func() {
			l.mgr.HandleCluster(ctx, c, l.proposeC, confC, callback, server.VerifClusterFilter())
		})
	}
	return b
}

func (b *batchLoop) close() {
	for _, c := range b.conns {
		c.EOF()
	}
	b.cancel()
}

// execBatch sends command i on connection i, gathers the proposals in that order, commits them in
// one batch and returns the replies.  Commands answered without a proposal keep their direct reply.
func (b *batchLoop) execBatch(cmds [][][]byte) ([]model.Val, string) {
	var ents []raftpb.Entry
	direct := map[int]bool{}
	for i, args := range cmds {
		b.conns[i].Send(model.EncodeCommand(args))
		deadline := time.Now().Add(h.Patience)
	wait:
		for {
			select {
			case p := <-b.proposeC:
				b.idx++
				ents = append(ents, raftpb.Entry{Type: raftpb.EntryNormal, Index: b.idx, Term: 1, Data: p.ToBytes()})
				break wait
			case <-time.After(200 * time.Microsecond):
				if len(b.conns[i].Output()) > 0 {
					direct[i] = true
					break wait
				}
				if b.conns[i].Closed() {
					return nil, "closed"
				}
				if rt.HasFreePanics() {
					return nil, "panic"
				}
				if time.Now().After(deadline) {
					return nil, "timeout"
				}
			}
		}
	}
	if len(ents) > 0 {
		done, ok := b.rc.VerifPublish(ents)
		if !ok {
			return nil, "publish-failed"
		}
		if done != nil {
			select {
			case <-done:
			case <-time.After(h.Patience):
				return nil, "apply-timeout"
			}
		}
	}
	var out []model.Val
	for i := range cmds {
		_, v, st := b.conns[i].TakeReply(5 * time.Second)
		if st != "ok" {
			return nil, fmt.Sprintf("reply %d: %s", i, st)
		}
		out = append(out, v)
	}
	return out, "ok"
}

type alone struct {
	mgr    *server.Manager
	conn   *h.Conn
	cancel context.CancelFunc
}

func newAlone() *alone {
	a := &alone{mgr: h.NewManager(), conn: h.NewConn("standalone")}
	ctx, cancel := context.WithCancel(context.Background())
	a.cancel = cancel
	go a.mgr.Handle(ctx, a.conn)
	return a
}

func (a *alone) exec(args [][]byte) ([]byte, model.Val, string) {
	a.conn.Send(model.EncodeCommand(args))
	return a.conn.TakeReply(5 * time.Second)
}

func (a *alone) close() { a.conn.EOF(); a.cancel() }

// sameReply compares replies; arrays of strings from set-valued commands are compared as multisets.
// pubsubNamed: the command is PUBLISH or SUBSCRIBE under some case mapping (the cluster filter refuses
// those by design; the property speaks of commands a cluster node accepts).
func pubsubNamed(cmd string) bool {
	for _, n := range []string{"publish", "subscribe"} {
		if strings.EqualFold(cmd, n) || strings.ToLower(cmd) == n || strings.ToUpper(cmd) == strings.ToUpper(n) {
			return true
		}
	}
	return false
}

func sameReply(cmd string, a, b model.Val) bool {
	if pubsubNamed(cmd) && b.K == model.Error {
		return true // refused by the cluster filter: one error reply is all that is required
	}
	unordered := map[string]bool{"smembers": true, "keys": true, "hgetall": true, "hkeys": true, "hvals": true, "sunion": true, "sinter": true, "sdiff": true}
	if a.K != b.K {
		return false
	}
	if a.K == model.Array && unordered[cmd] {
		if len(a.Arr) != len(b.Arr) {
			return false
		}
		x := make([]string, len(a.Arr))
		y := make([]string, len(b.Arr))
		for i := range a.Arr {
			x[i], y[i] = a.Arr[i].String(), b.Arr[i].String()
		}
		sort.Strings(x)
		sort.Strings(y)
		return strings.Join(x, "\x00") == strings.Join(y, "\x00")
	}
	if a.K == model.Error {
		return true // error-ness only
	}
	return a.String() == b.String()
}

func c14Shape(cmd []string, tmpl []string) string {
	var parts []string
	if len(cmd) > 0 && len(tmpl) > 0 && !strings.EqualFold(cmd[0], tmpl[0]) {
		parts = append(parts, "name-altered")
	}
	for i := 1; i < len(cmd); i++ {
		cls := "same"
		if i >= len(tmpl) || cmd[i] != tmpl[i] {
			s := cmd[i]
			switch {
			case s == "":
				cls = "empty"
			case strings.Contains(s, " "):
				cls = "space"
			case strings.ContainsAny(s, "\r\n"):
				cls = "crlf"
			case s == "\xff":
				cls = "non-utf8"
			case s == "\"" || s == "\\":
				cls = "quote"
			case s == "é":
				cls = "utf8"
			case s == "A":
				cls = "upper"
			default:
				cls = "plain"
			}
		}
		parts = append(parts, cls)
	}
	return strings.Join(parts, ",")
}

func c14Programs(depth2 bool) (progs [][][]string, tmplOf [][]string) {
	for _, t := range templates {
		progs = append(progs, [][]string{t})
		tmplOf = append(tmplOf, t)
		for pos := 1; pos < len(t); pos++ {
			for _, hs := range hostile {
				c := append([]string{}, t...)
				c[pos] = hs
				progs = append(progs, [][]string{c})
				tmplOf = append(tmplOf, t)
			}
		}
		// hostile command-name elements: a space, CRLF, non-UTF-8 or nothing inside element 0
		for _, nm := range []string{t[0] + " x", strings.ToLower(t[0]) + " k injected", t[0] + "\r\n", t[0] + "\xff", " " + t[0], t[0] + " ", ""} {
			c := append([]string{nm}, t[1:]...)
			progs = append(progs, [][]string{c}, [][]string{{nm}}, [][]string{c, {"GET", "k"}})
			tmplOf = append(tmplOf, t, t, t)
		}
		// command name in other letter cases
		for _, nm := range []string{strings.ToLower(t[0]), strings.ToUpper(t[0][:1]) + strings.ToLower(t[0][1:])} {
			c := append([]string{nm}, t[1:]...)
			progs = append(progs, [][]string{c})
			tmplOf = append(tmplOf, t)
		}
	}
	// command names spelled with the code points on which Unicode case folding and strings.ToLower
	// disagree (U+0130 for i, U+017F for s, U+212A for k): a name check that folds differently from the
	// dispatcher lets a command through a filter, or refuses one, in one mode only.  Includes the two
	// commands the cluster filter refuses - spelled this way they are, for a standalone server, unknown
	// commands - each followed by the plainly spelled PUBLISH / a read
	fold := func(name string) []string {
		var out []string
		for _, r := range []struct{ from, to string }{{"I", "\u0130"}, {"i", "\u0130"}, {"S", "\u017f"}, {"s", "\u017f"}, {"K", "\u212a"}, {"k", "\u212a"}} {
			if i := strings.Index(name, r.from); i >= 0 {
				out = append(out, name[:i]+r.to+name[i+1:])
			}
		}
		return out
	}
	for _, t := range append(append([][]string{}, templates...), []string{"SUBSCRIBE", "ch"}, []string{"PUBLISH", "ch", "m"}, []string{"subscribe", "ch"}, []string{"publish", "ch", "m"}) {
		for _, nm := range fold(t[0]) {
			c := append([]string{nm}, t[1:]...)
			progs = append(progs, [][]string{c}, [][]string{c, {"GET", "k"}})
			tmplOf = append(tmplOf, t, t)
			if strings.EqualFold(t[0], "subscribe") {
				for _, pn := range append(fold("PUBLISH"), fold("publish")...) {
					progs = append(progs, [][]string{c, {pn, "ch", "m"}})
					tmplOf = append(tmplOf, t)
				}
			}
		}
	}
	// the empty command array
	progs = append(progs, [][]string{{}})
	tmplOf = append(tmplOf, []string{})
	if depth2 {
		writers := [][]string{{"SET", "k", "@"}, {"RPUSH", "l", "@"}, {"SADD", "s", "@"}, {"HSET", "h", "@", "@"}, {"ZADD", "z", "2", "@"}, {"XADD", "x", "9-1", "@", "@"}, {"SET", "@", "v"}, {"MSET", "@", "1", "k3", "@"}, {"APPEND", "k", "@"}}
		readers := [][]string{{"GET", "k"}, {"GET", "@"}, {"LRANGE", "l", "0", "-1"}, {"SMEMBERS", "s"}, {"SISMEMBER", "s", "@"}, {"HGETALL", "h"}, {"HGET", "h", "@"}, {"ZRANGE", "z", "0", "-1"}, {"ZRANK", "z", "@"}, {"XRANGE", "x", "-", "+"}, {"KEYS", "*"}, {"EXISTS", "@"}, {"DEL", "@"}, {"STRLEN", "k"}}
		for _, w := range writers {
			for _, r := range readers {
				for _, hs := range hostile {
					sub := func(c []string) []string {
						o := make([]string, len(c))
						for i, x := range c {
							if x == "@" {
								x = hs
							}
							o[i] = x
						}
						return o
					}
					progs = append(progs, [][]string{sub(w), sub(r)})
					tmplOf = append(tmplOf, w)
				}
			}
		}
	}
	return
}

func c14Worker(tb []byte, progress func()) []byte {
	var t c14Task
	json.Unmarshal(tb, &t)
	h.Boot(2, 1)
	rt.CurMode = rt.Free
	var res c14Result
	progs, tmplOf := c14Programs(t.Depth2)
	seen := map[string]bool{}
	// every "no answer" costs h.Patience of real time: a phase is cut after three of them
	timeouts := map[string]int{}
	slow := func(phase, st string) {
		if strings.Contains(st, "timeout") {
			timeouts[phase]++
			progress()
		}
	}
	cut := func(phase string) bool {
		if timeouts[phase] >= 3 {
			res.Cut++
			return true
		}
		return false
	}
	for pi, prog := range progs {
		if pi%t.Of != t.Shard {
			continue
		}
		if pi%16 == 0 {
			progress()
		}
		if cut("single") {
			continue
		}
		res.Programs++
		l := newLoop()
		a := newAlone()
		full := append(append([][]string{}, c14Seed...), prog...)
		for ci, c := range full {
			args := h.B(c...)
			_, va, sa := a.exec(args)
			_, vl, sl := l.exec(args)
			slow("single", sa)
			slow("single", sl)
			if ci < len(c14Seed) {
				continue
			}
			res.Commands++
			name := "(empty)"
			if len(c) > 0 {
				name = strings.ToLower(c[0])
			}
			add := func(kind, detail string) {
				shape := c14Shape(c, tmplOf[pi])
				k := kind + "|" + name + "|" + shape
				if seen[k] {
					return
				}
				seen[k] = true
				res.Viol = append(res.Viol, c14Viol{Kind: kind, Cmd: name, Shape: shape, Detail: detail, Program: prog})
			}
			if ps := rt.TakeFreePanics(); len(ps) > 0 {
				add("panic", fmt.Sprintf("program %q: panic %s in %s (cluster node goroutine)", prog, ps[0].Value, ps[0].Func))
				break
			}
			if sa != "ok" {
				add("standalone-"+sa, fmt.Sprintf("program %q: standalone server gave no reply to %q: %s", prog, c, sa))
				break
			}
			if sl != "ok" {
				add("cluster-"+strings.SplitN(sl, ":", 2)[0], fmt.Sprintf("program %q: %q got reply %s standalone but through the cluster path: %s", prog, c, va, sl))
				break
			}
			if !sameReply(name, va, vl) {
				add("reply-differs", fmt.Sprintf("program %q: %q replies %s standalone but %s through the cluster path", prog, c, va, vl))
			}
			ca := h.CanonOf(a.mgr.CurrentDB.VerifDump())
			cl := h.CanonOf(l.mgr.CurrentDB.VerifDump())
			if d := model.DiffCanon(ca, cl, 2000); d != "" {
				add("state-differs", fmt.Sprintf("program %q: after %q the keyspaces differ (model=standalone, implementation=cluster node): %s", prog, c, d))
				break
			}
			res.Distinct++
		}
		if len(res.Samples) < 2 && len(prog) > 0 && len(prog[0]) > 0 && !bytes.Equal([]byte(prog[0][0]), []byte("PING")) {
			res.Samples = append(res.Samples, fmt.Sprintf("%q", prog))
		}
		l.close()
		a.close()
	}
	// batched delivery: every two-command program (writer, reader) is also committed as one batch
	// from two connections; replies and final state must equal the standalone run of the same order
	for pi, prog := range progs {
		if len(prog) != 2 || pi%t.Of != t.Shard || len(prog[0]) == 0 || len(prog[1]) == 0 {
			continue
		}
		if pi%16 == 0 {
			progress()
		}
		if cut("batch") {
			continue
		}
		res.Programs++
		bl := newBatchLoop(2)
		a := newAlone()
		okSeed := true
		for _, c := range c14Seed {
			a.exec(h.B(c...))
			if _, st := bl.execBatch([][][]byte{h.B(c...)}); st != "ok" {
				okSeed = false
			}
		}
		name := strings.ToLower(prog[0][0]) + "+" + strings.ToLower(prog[1][0])
		add := func(kind, detail string) {
			shape := "batch:" + c14Shape(prog[0], tmplOf[pi])
			k := kind + "|" + name + "|" + shape
			if seen[k] {
				return
			}
			seen[k] = true
			res.Viol = append(res.Viol, c14Viol{Kind: kind, Cmd: name, Shape: shape, Detail: detail, Program: prog})
		}
		if okSeed {
			var want []model.Val
			for _, c := range prog {
				_, v, _ := a.exec(h.B(c...))
				want = append(want, v)
			}
			got, st := bl.execBatch([][][]byte{h.B(prog[0]...), h.B(prog[1]...)})
			slow("batch", st)
			res.Commands += 2
			if ps := rt.TakeFreePanics(); len(ps) > 0 {
				add("panic", fmt.Sprintf("batch %q: panic %s in %s (cluster node goroutine)", prog, ps[0].Value, ps[0].Func))
			} else if st != "ok" {
				add("cluster-batch", fmt.Sprintf("batch %q committed in one publishEntries call: %s", prog, st))
			} else {
				for i := range prog {
					if !sameReply(strings.ToLower(prog[i][0]), want[i], got[i]) {
						add("reply-differs", fmt.Sprintf("batch %q committed in one publishEntries call: %q replies %s standalone but %s through the cluster path", prog, prog[i], want[i], got[i]))
					}
				}
				ca := h.CanonOf(a.mgr.CurrentDB.VerifDump())
				cl := h.CanonOf(bl.mgr.CurrentDB.VerifDump())
				if d := model.DiffCanon(ca, cl, 2000); d != "" {
					add("state-differs", fmt.Sprintf("batch %q committed in one publishEntries call: the keyspaces differ (model=standalone, implementation=cluster node): %s", prog, d))
				} else {
					res.Distinct += 2
				}
			}
		}
		bl.close()
		a.close()
	}
	// slow commit: every single-command program once more with ten seconds of virtual time between
	// proposal and commit (see execSlow), followed by a reader of the same key family: a command that
	// is slow, not lost, still means what it means on a standalone server
	for pi, prog := range progs {
		if len(prog) != 2 || pi%t.Of != t.Shard || len(prog[0]) == 0 || len(prog[1]) == 0 {
			continue
		}
		if cut("slow") {
			continue
		}
		res.Programs++
		l := newLoop()
		a := newAlone()
		okSeed := true
		for _, c := range c14Seed {
			_, _, sa := a.exec(h.B(c...))
			_, _, sl := l.exec(h.B(c...))
			if sa != "ok" || sl != "ok" {
				okSeed = false
			}
		}
		name := strings.ToLower(prog[0][0]) + "+slow"
		add := func(kind, detail string) {
			shape := "slow:" + c14Shape(prog[0], tmplOf[pi])
			k := kind + "|" + name + "|" + shape
			if seen[k] {
				return
			}
			seen[k] = true
			res.Viol = append(res.Viol, c14Viol{Kind: kind, Cmd: name, Shape: shape, Detail: detail, Program: prog})
		}
		if okSeed && len(rt.TakeFreePanics()) == 0 {
			for ci, c := range prog {
				// (the cluster side first: both managers live on one virtual clock, and the ten seconds
				// that pass inside execSlow must have passed for the standalone server as well)
				var got model.Val
				var sl string
				extra := 0
				if ci == 0 {
					_, got, sl, extra = l.execSlow(h.B(c...))
				} else {
					_, got, sl = l.exec(h.B(c...))
				}
				_, want, sa := a.exec(h.B(c...))
				slow("slow", sl)
				res.Commands++
				if ps := rt.TakeFreePanics(); len(ps) > 0 {
					add("panic", fmt.Sprintf("slow commit %q: panic %s in %s (cluster node goroutine)", prog, ps[0].Value, ps[0].Func))
					break
				}
				if sa != "ok" {
					break
				}
				if sl != "ok" {
					add("cluster-slow", fmt.Sprintf("slow commit %q: %q committed 10 s after it was proposed (%d more proposals handed over meanwhile): %s (standalone: %s)", prog, c, extra, sl, want))
					break
				}
				if !sameReply(strings.ToLower(c[0]), want, got) {
					add("reply-differs", fmt.Sprintf("slow commit %q: %q (first command committed 10 s after it was proposed, %d more proposals handed over meanwhile) replies %s, standalone %s", prog, c, extra, got, want))
				}
				ca := h.CanonOf(a.mgr.CurrentDB.VerifDump())
				cl := h.CanonOf(l.mgr.CurrentDB.VerifDump())
				if d := model.DiffCanon(ca, cl, 2000); d != "" {
					add("state-differs", fmt.Sprintf("slow commit %q: after %q the keyspaces differ (model=standalone, implementation=cluster node; %d more proposals were handed over while the first was uncommitted): %s", prog, c, extra, d))
					break
				}
				res.Distinct++
			}
		}
		l.close()
		a.close()
	}
	// restart: the node is restarted after the seed and the first command of a two-command program
	// (fresh Manager, callback table and handler; nothing is restored but the log), and the second
	// command arrives BEFORE the old log has been re-applied: its handler is already waiting when
	// the entries of the previous life go through the apply loop again.  Reply and final state must
	// equal the standalone run.
	for pi, prog := range progs {
		if len(prog) != 2 || pi%t.Of != t.Shard || len(prog[0]) == 0 || len(prog[1]) == 0 {
			continue
		}
		if pi%16 == 0 {
			progress()
		}
		if cut("restart") {
			continue
		}
		res.Programs++
		l1 := newLoop()
		a := newAlone()
		okSeed := true
		for _, c := range append(append([][]string{}, c14Seed...), prog[0]) {
			_, _, sa := a.exec(h.B(c...))
			_, _, sl := l1.exec(h.B(c...))
			if sa != "ok" || sl != "ok" {
				okSeed = false
			}
		}
		old := l1.log
		l1.close()
		name := strings.ToLower(prog[0][0]) + "+restart+" + strings.ToLower(prog[1][0])
		add := func(kind, detail string) {
			shape := "restart:" + c14Shape(prog[1], tmplOf[pi])
			k := kind + "|" + name + "|" + shape
			if seen[k] {
				return
			}
			seen[k] = true
			res.Viol = append(res.Viol, c14Viol{Kind: kind, Cmd: name, Shape: shape, Detail: detail, Program: prog})
		}
		if okSeed && len(rt.TakeFreePanics()) == 0 {
			l2 := newLoop()
			_, want, sa := a.exec(h.B(prog[1]...))
			_, got, sl := l2.execDuringReplay(old, h.B(prog[1]...))
			slow("restart", sl)
			res.Commands++
			if ps := rt.TakeFreePanics(); len(ps) > 0 {
				add("panic", fmt.Sprintf("restart %q: panic %s in %s (cluster node goroutine)", prog, ps[0].Value, ps[0].Func))
			} else if sa != "ok" {
				// the standalone server gave no reply: nothing to compare with
			} else if sl != "ok" {
				add("cluster-restart", fmt.Sprintf("restart %q: %q sent to the restarted node while its log of %d entries is being re-applied: %s (standalone: %s)", prog, prog[1], len(old), sl, want))
			} else {
				if !sameReply(strings.ToLower(prog[1][0]), want, got) {
					add("reply-differs", fmt.Sprintf("restart %q: %q sent to the restarted node while its log of %d entries is being re-applied replies %s, standalone %s", prog, prog[1], len(old), got, want))
				}
				ca := h.CanonOf(a.mgr.CurrentDB.VerifDump())
				cl := h.CanonOf(l2.mgr.CurrentDB.VerifDump())
				if d := model.DiffCanon(ca, cl, 2000); d != "" {
					add("state-differs", fmt.Sprintf("restart %q: after re-applying the log and %q the keyspaces differ (model=standalone, implementation=restarted node): %s", prog, prog[1], d))
				} else {
					res.Distinct++
				}
			}
			l2.close()
		}
		a.close()
	}
	b, _ := json.Marshal(res)
	return b
}
