package main

// C08 — acknowledged cluster writes survive crashes and restarts (fault enumeration).
//
// A history of acknowledged writes is driven through the in-process cluster (1 and 3 nodes) with
// the snapshot threshold lowered; for every crash opportunity (every event boundary of the
// default schedule and every durability callback inside the real Ready handling) x every
// non-empty subset of nodes x restart orders, the nodes are killed, restarted from their
// directories, the cluster is stabilised and every key is read on every node.

import (
	"encoding/json"
	"fmt"
	"math"
	"os"
	"strings"
	"time"

	"github.com/innovationb1ue/RedisGO/raftexample"
	rt "github.com/innovationb1ue/RedisGO/verifrt"
	"verif/h"
	"verif/model"
)

var c08Writes = [][]string{
	{"SET", "k1", "v1"}, {"INCR", "n"}, {"RPUSH", "l", "a"}, {"SADD", "s", "m"}, {"SET", "k1", "v2"}, {"HSET", "h", "f", "v"}, {"INCR", "n"}, {"DEL", "k1"},
}

var c08Reads = [][]string{{"GET", "k1"}, {"GET", "n"}, {"LRANGE", "l", "0", "-1"}, {"SMEMBERS", "s"}, {"HGETALL", "h"}}

type c08Cfg struct {
	Nodes     int
	Writes    int
	SnapCount uint64
	CatchUp   uint64
	ClientAt  int  // node the writer is connected to
	NoList    bool // history variant without list values
}

type c08Plan struct {
	At    int   // crash opportunity index (-1: no crash; reference run)
	Nodes []int // nodes to kill
	Order []int // restart order
}

type c08Out struct {
	Opportunities int
	SyncOpps      []int // which opportunities are durability callbacks (and on which node)
	SyncNode      []int
	Viol          []c14Viol
	Acked         int
	Desc          string
	Snapshots     int
}

func c08Run(cfg c08Cfg, plan c08Plan) c08Out {
	var out c08Out
	sc, cu := cfg.SnapCount, cfg.CatchUp
	if sc == 0 {
		sc, cu = math.MaxUint64/2, math.MaxUint64/2
	}
	oc, ou := raftexample.VerifThresholds(sc, cu)
	defer raftexample.VerifThresholds(oc, ou)
	var prog [][]string
	for _, w := range c08Writes {
		if cfg.NoList && w[0] == "RPUSH" {
			w = []string{"SADD", "s2", "x"}
		}
		if len(prog) < cfg.Writes {
			prog = append(prog, w)
		}
	}
	writer := clientSpec{Node: cfg.ClientAt, Prog: prog}
	s := newSim(cfg.Nodes, []clientSpec{writer})
	defer s.close()
	add := func(kind, detail string) {
		shape := out.Desc
		if kind == "node-panic" {
			// the panic text (without node numbers) identifies the failing call site
			shape = detail
			if i := strings.Index(shape, "Ready handling: "); i >= 0 {
				shape = shape[i+len("Ready handling: "):]
			}
			if i := strings.Index(shape, ";"); i >= 0 {
				shape = shape[:i]
			}
			if len(shape) > 80 {
				shape = shape[:80]
			}
			shape = "panic:" + shape
		}
		out.Viol = append(out.Viol, c14Viol{Kind: kind, Cmd: cfgName(cfg), Shape: shape, Detail: detail})
	}
	opp := 0
	crashed := false
	// boundary reports whether the crash is placed at this event boundary
	boundary := func() bool {
		here := opp == plan.At
		opp++
		return here && !crashed
	}
	doCrash := func(where string) {
		crashed = true
		out.Desc = where
		for _, i := range plan.Nodes {
			if s.nodes[i].alive {
				s.killNode(i)
			}
		}
	}
	// one default event, with crash opportunities at its boundary and at its durability callbacks
	stepOnce := func() bool {
		for i := range s.nodes {
			s.pump(i)
		}
		if i := s.anyReady(); i >= 0 {
			if boundary() {
				doCrash(fmt.Sprintf("boundary-before-ready(n%d)", i+1))
				return true
			}
			// durability callbacks inside this Ready are opportunities too
			base := opp
			before := s.syncCount
			inS := false
			for _, x := range plan.Nodes {
				if x == i {
					inS = true
				}
			}
			if !crashed && plan.At >= base && inS {
				s.crashAtSync = before + (plan.At - base)
			}
			wasAlive := s.nodes[i].alive
			s.processReady(i)
			n := s.syncCount - before
			for k := 0; k < n; k++ {
				out.SyncOpps = append(out.SyncOpps, base+k)
				out.SyncNode = append(out.SyncNode, i)
			}
			opp = base + n
			s.crashAtSync = -1
			if wasAlive && !s.nodes[i].alive && !crashed && len(s.panics) == 0 {
				doCrash(fmt.Sprintf("sync-callback-%d-in-ready(n%d)", plan.At-base, i+1))
			}
			return true
		}
		if len(s.pool) > 0 {
			if boundary() {
				doCrash(fmt.Sprintf("boundary-before-deliver(%s->n%d)", s.pool[0].Type, s.pool[0].To))
				return true
			}
			s.deliver(0)
			return true
		}
		return false
	}
	settle := func(max int) {
		for k := 0; k < max && s.failed == "" && len(s.panics) == 0; k++ {
			if !stepOnce() {
				return
			}
			s.takePanics()
			if crashed {
				return
			}
		}
	}
	// bootstrap without crash opportunities
	s.bootstrap()
	if s.failed != "" || s.leader() < 0 {
		add("bootstrap", "no leader: "+s.failed)
		return out
	}
	opp = 0
	cl := s.clients[0]
	for wi := 0; wi < cfg.Writes && !crashed && s.failed == "" && len(s.panics) == 0; wi++ {
		if boundary() {
			doCrash(fmt.Sprintf("boundary-before-submit(%d)", wi))
			break
		}
		if !s.submit(0) {
			break
		}
		settle(400)
	}
	s.takePanics()
	out.Opportunities = opp
	for _, o := range cl.ops {
		if o.Done && o.Reply.K != model.Error {
			out.Acked++
		}
	}
	snapPanic := false
	if len(s.panics) > 0 {
		add("node-panic", "a node goroutine panicked (the real process would exit): "+strings.Join(s.panics, " | ")+"; history: "+s.history())
		snapPanic = true
	}
	if s.failed != "" {
		add("harness", s.failed)
		return out
	}
	if len(s.replyLost) > 0 {
		add("reply-lost", s.replyLost[0]+"; history: "+s.history())
		return out
	}
	if snapPanic {
		return out
	}
	if len(s.shadowViol) > 0 {
		tr := ""
		if os.Getenv("C08_TRACE") != "" {
			tr = fmt.Sprintf("; plan %+v; trace: %s", plan, strings.Join(s.trace, " | "))
		}
		add("not-durable", s.shadowViol[0]+"; history: "+s.history()+tr)
		return out
	}
	if plan.At >= 0 && !crashed {
		// the planned opportunity does not exist in this run
		return out
	}
	// model: acknowledged prefix, plus possibly the one write in flight
	ack := model.NewKS(rt.Epoch * 1000)
	cands := []*model.KS{}
	for _, o := range cl.ops {
		outs := ack.Apply(h.B(o.Args...))
		if o.Done {
			for _, oc := range outs {
				if n, why := oc.Check(o.Reply); why == "" {
					ack = n
					break
				}
			}
		} else {
			cands = append(cands, ack)
			if outs[0].Next != nil {
				ack = outs[0].Next
			}
		}
	}
	cands = append(cands, ack)
	// restart
	if crashed {
		for _, i := range plan.Order {
			s.restartNode(i)
			if s.failed != "" {
				add("restart-failed", s.failed)
				return out
			}
		}
	}
	plan.At = -1
	crashed = true // no further crash opportunities
	s.stabilise(600)
	if s.leader() < 0 {
		for i := range s.nodes {
			if s.nodes[i].alive {
				s.campaign(i)
				break
			}
		}
		s.stabilise(600)
	}
	s.takePanics()
	if len(s.panics) > 0 {
		add("node-panic", "after restart a node goroutine panicked: "+strings.Join(s.panics, " | "))
		return out
	}
	// the durability invariant also covers the restart and the election that follows it (a voter that
	// grants its vote again in a new term promises it from its files, like the first time)
	if len(s.shadowViol) > 0 {
		tr := ""
		if os.Getenv("C08_TRACE") != "" {
			tr = fmt.Sprintf("; plan %+v; trace: %s", plan, strings.Join(s.trace, " | "))
		}
		add("not-durable", s.shadowViol[0]+"; history: "+s.history()+tr)
		return out
	}
	if s.leader() < 0 {
		add("no-leader-after-restart", "the restarted cluster does not elect a leader; history: "+s.history())
		return out
	}
	// read every key on every node
	for ni := range s.nodes {
		if !s.nodes[ni].alive {
			continue
		}
		rc := &client{node: ni, prog: c08Reads}
		s.clients = append(s.clients, rc)
		ci := len(s.clients) - 1
		s.connect(ci)
		var replies []model.Val
		okAll := true
		for range c08Reads {
			if !s.submit(ci) {
				okAll = false
				break
			}
			s.stabilise(400)
			last := rc.ops[len(rc.ops)-1]
			if !last.Done {
				okAll = false
				break
			}
			replies = append(replies, last.Reply)
		}
		s.takePanics()
		if len(s.panics) > 0 {
			add("node-panic", "while reading after restart: "+strings.Join(s.panics, " | "))
			return out
		}
		if !okAll {
			add("unavailable-after-restart", fmt.Sprintf("node %d does not answer reads after the restart; history: %s", ni+1, s.history()))
			continue
		}
		match := false
		var why string
		for _, cand := range cands {
			good := true
			st := cand
			for ri, r := range c08Reads {
				outs := st.Apply(h.B(r...))
				acc := false
				for _, oc := range outs {
					if n, w := oc.Check(replies[ri]); w == "" {
						st = n
						acc = true
						break
					} else if why == "" {
						why = fmt.Sprintf("%q: %s", r, w)
					}
				}
				if !acc {
					good = false
					break
				}
			}
			if good {
				match = true
				break
			}
		}
		if !match {
			add("acknowledged-write-lost", fmt.Sprintf("after %s of nodes %v (restart order %v), reads on node %d do not reflect the %d acknowledged writes (%s); replies %v; history: %s",
				out.Desc, plus1(plan.Nodes), plus1(plan.Order), ni+1, out.Acked, why, replies, s.history()))
		}
	}
	for _, n := range s.nodes {
		if n.alive && n.rc.VerifSnapshotIndex() > 0 {
			out.Snapshots++
		}
	}
	return out
}

func cfgName(cfg c08Cfg) string {
	l := "list"
	if cfg.NoList {
		l = "nolist"
	}
	return fmt.Sprintf("nodes=%d,snap=%d/%d,client@n%d,%s", cfg.Nodes, cfg.SnapCount, cfg.CatchUp, cfg.ClientAt+1, l)
}

func plus1(a []int) []int {
	o := make([]int, len(a))
	for i, x := range a {
		o[i] = x + 1
	}
	return o
}

type c08Task struct {
	Cfg       c08Cfg
	Shard, Of int
}

type c08Result struct {
	Runs, Crashes, SyncCrashes, Snapshots int
	Opportunities                         int
	Viol                                  []c14Viol
	Sample                                string
}

func subsets(n int) [][]int {
	var out [][]int
	for m := 1; m < 1<<uint(n); m++ {
		var s []int
		for i := 0; i < n; i++ {
			if m>>uint(i)&1 == 1 {
				s = append(s, i)
			}
		}
		out = append(out, s)
	}
	return out
}

func perms(a []int) [][]int {
	if len(a) <= 1 {
		return [][]int{append([]int{}, a...)}
	}
	var out [][]int
	for i := range a {
		rest := append(append([]int{}, a[:i]...), a[i+1:]...)
		for _, p := range perms(rest) {
			out = append(out, append([]int{a[i]}, p...))
		}
	}
	return out
}

func c08Worker(tb []byte, progress func()) []byte {
	var t c08Task
	json.Unmarshal(tb, &t)
	h.Boot(2, 1)
	rt.CurMode = rt.Free
	var res c08Result
	ref := c08Run(t.Cfg, c08Plan{At: -1})
	res.Runs++
	res.Opportunities = ref.Opportunities
	seen := map[string]bool{}
	addAll := func(vs []c14Viol) {
		for _, v := range vs {
			// group crash points of the same kind: boundary / sync-callback
			shape := v.Shape
			if !strings.HasPrefix(shape, "panic:") {
				if i := strings.IndexAny(shape, "(0123456789"); i > 0 {
					shape = strings.TrimRight(shape[:i], "-")
				}
			}
			v.Shape = shape
			k := v.Kind + "|" + v.Cmd + "|" + v.Shape
			if !seen[k] {
				seen[k] = true
				res.Viol = append(res.Viol, v)
			}
		}
	}
	addAll(ref.Viol)
	if len(ref.Viol) > 0 {
		b, _ := json.Marshal(res)
		return b
	}
	syncNode := map[int]int{}
	for i, o := range ref.SyncOpps {
		syncNode[o] = ref.SyncNode[i]
	}
	deadline := time.Now().Add(12 * time.Minute)
	idx := 0
	for at := 0; at < ref.Opportunities; at++ {
		for _, sub := range subsets(t.Cfg.Nodes) {
			if sn, isSync := syncNode[at]; isSync {
				in := false
				for _, x := range sub {
					if x == sn {
						in = true
					}
				}
				if !in {
					continue
				}
			}
			orders := [][]int{sub}
			if len(sub) == t.Cfg.Nodes && len(sub) > 1 {
				orders = perms(sub)
			} else if len(sub) == 2 {
				orders = [][]int{sub, {sub[1], sub[0]}}
			}
			for _, ord := range orders {
				idx++
				if idx%t.Of != t.Shard {
					continue
				}
				if time.Now().After(deadline) {
					break
				}
				progress()
				r := c08Run(t.Cfg, c08Plan{At: at, Nodes: sub, Order: ord})
				res.Runs++
				if r.Desc != "" {
					res.Crashes++
					if strings.HasPrefix(r.Desc, "sync") {
						res.SyncCrashes++
					}
					if res.Sample == "" {
						res.Sample = fmt.Sprintf("%+v: crash at %s of nodes %v, restart order %v, %d acknowledged writes", t.Cfg, r.Desc, plus1(sub), plus1(ord), r.Acked)
					}
				}
				res.Snapshots += r.Snapshots
				addAll(r.Viol)
			}
		}
	}
	b, _ := json.Marshal(res)
	return b
}
