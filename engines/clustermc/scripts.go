package main

// Scripted fault families for C07 / C08: every member of a small parameterised family of fault
// sequences that the one- and two-deviation search around the default schedule does not reach
// (they need a partition held over several events, or a membership change).  A family is
// enumerated completely over its parameter box; each run ends with the general oracle of C07
// (linearizable history incl. the final reads on every node, identical replicas, no node panic)
// plus the durability invariant of sim.shadowCheck.

import (
	"encoding/json"
	"fmt"
	"strings"
	"time"

	rt "github.com/innovationb1ue/RedisGO/verifrt"
	"verif/h"
)

type script struct {
	Family  string
	Tail    int      // entries appended by the isolated leader that reach nobody
	Writes  int      // writes acknowledged by the new leader meanwhile
	Restart []int    // nodes killed and restarted after the partition healed (0-based)
	Remove  int      // membership family: node id removed (1-based), 0 = none
	Upper   bool     // membership family: the command is spelled RCONF (replicated) instead of rconf (local shortcut)
	AdminAt int      // node (0-based) whose connection carries RCONF
	When    int      // membership family: number of writes acknowledged before the removal
	Start   string   // add-node family: the new node starts "before" or "after" the change is committed
	Args    []string // rconf-malformed family: the command
	// stale-leader-tail: a client reads through the isolated old leader after the new leader has
	// acknowledged its writes
	ReadStale bool
	Prog      [][]string // slow-commit family: the client's two commands
}

func (sc script) name() string {
	switch sc.Family {
	case "stale-leader-tail", "follower-lag":
		if sc.ReadStale {
			return fmt.Sprintf("%s(tail=%d,writes=%d,restart=%v,read through the old leader)", sc.Family, sc.Tail, sc.Writes, sc.Restart)
		}
		return fmt.Sprintf("%s(tail=%d,writes=%d,restart=%v)", sc.Family, sc.Tail, sc.Writes, sc.Restart)
	}
	if sc.Family == "add-node" {
		return fmt.Sprintf("%s(admin@n%d,after=%d writes,start=%s,restart=%v)", sc.Family, sc.AdminAt+1, sc.When, sc.Start, sc.Restart)
	}
	if sc.Family == "rconf-malformed" {
		return fmt.Sprintf("%s(%q via n%d)", sc.Family, sc.Args, sc.AdminAt+1)
	}
	if sc.Family == "slow-commit" {
		return fmt.Sprintf("%s(%q)", sc.Family, sc.Prog)
	}
	return fmt.Sprintf("%s(remove=n%d,admin@n%d,after=%d writes,upper=%v)", sc.Family, sc.Remove, sc.AdminAt+1, sc.When, sc.Upper)
}

func scripts(tier string) []script {
	var out []script
	maxT, maxW := 2, 2
	if tier == "thorough" {
		maxT, maxW = 3, 3
	}
	restarts := [][]int{nil, {0}, {0, 1, 2}, {1}}
	for t := 1; t <= maxT; t++ {
		for w := 1; w <= maxW; w++ {
			for _, r := range restarts {
				out = append(out, script{Family: "stale-leader-tail", Tail: t, Writes: w, Restart: r})
				if len(r) <= 1 {
					out = append(out, script{Family: "stale-leader-tail", Tail: t, Writes: w, Restart: r, ReadStale: true})
				}
			}
		}
	}
	for w := 1; w <= maxW+1; w++ {
		for _, r := range [][]int{nil, {2}, {0, 1, 2}} {
			out = append(out, script{Family: "follower-lag", Writes: w, Restart: r})
		}
	}
	for rm := 1; rm <= 3; rm++ {
		for admin := 0; admin < 3; admin++ {
			for when := 0; when <= 1; when++ {
				out = append(out, script{Family: "remove-node", Remove: rm, AdminAt: admin, When: when})
				if when == 1 {
					out = append(out, script{Family: "remove-node", Remove: rm, AdminAt: admin, When: when, Upper: true})
				}
			}
		}
	}
	for admin := 0; admin < 3; admin++ {
		for when := 0; when <= 1; when++ {
			for _, st := range []string{"after", "before"} {
				for _, r := range [][]int{nil, {3}, {0, 1, 2, 3}} {
					if tier != "thorough" && (admin == 2 || (when == 0 && len(r) == 1)) {
						continue
					}
					out = append(out, script{Family: "add-node", AdminAt: admin, When: when, Start: st, Restart: r})
				}
			}
		}
	}
	// slow-commit: a command stays uncommitted (its node is cut off) while time passes, then the same
	// client sends its next command, then the partition heals and both commit
	for _, cmds := range [][][]string{{{"SET", "k0", "a"}, {"GET", "k0"}}, {{"INCR", "n"}, {"INCR", "n"}}, {{"RPUSH", "l", "x"}, {"LLEN", "l"}}} {
		out = append(out, script{Family: "slow-commit", Prog: cmds})
	}
	for _, a := range [][]string{{"rconf", "add", "4"}, {"rconf", "add"}, {"rconf"}, {"rconf", "delete"}, {"rconf", "delete", "x"}, {"rconf", "add", "x", "u"}, {"rconf", "frob", "1"}, {"rconf", "update", "1"}, {"rconf", "delete", "0"}, {"rconf", "delete", "9"}, {"rconf", "add", "0", "u"}} {
		out = append(out, script{Family: "rconf-malformed", Args: a, AdminAt: 1})
	}
	return out
}

// addClient attaches a new client (after the run has started) and returns its index.
func (s *sim) addClient(node int, prog [][]string) int {
	c := &client{node: node, prog: prog}
	s.clients = append(s.clients, c)
	ci := len(s.clients) - 1
	s.connect(ci)
	return ci
}

func (s *sim) ok() bool { return s.failed == "" && len(s.panics) == 0 }

// electIfNone makes the lowest live, non-isolated, non-removed node campaign when nobody leads.
func (s *sim) electIfNone() {
	for i, n := range s.nodes {
		if n.alive && !s.isolated[i] && n.vn.RN.Status().RaftState.String() == "StateLeader" {
			return
		}
	}
	for i, n := range s.nodes {
		if n.alive && !s.isolated[i] && !s.removed[i] {
			s.campaign(i)
			s.stabilise(400)
			return
		}
	}
}

func runScript(sc script) runResult {
	var res runResult
	s := newSim(3, nil)
	defer s.close()
	s.bootstrap()
	w := workload{Name: sc.name()}
	if s.failed != "" || s.leader() != 0 {
		res.Viol = append(res.Viol, c14Viol{Kind: "bootstrap", Cmd: "cluster", Shape: w.Name, Detail: "cluster did not elect node 1: " + s.failed})
		return res
	}
	ev := func(f string, a ...interface{}) { res.Events = append(res.Events, fmt.Sprintf(f, a...)) }
	write := func(node int, k, v string) int {
		ci := s.addClient(node, [][]string{{"SET", k, v}})
		s.submit(ci)
		ev("submit(c%d@n%d SET %s %s)", ci, node+1, k, v)
		return ci
	}
	switch sc.Family {
	case "stale-leader-tail":
		s.isolated[0] = true
		ev("ISOLATE(n1)")
		for t := 0; t < sc.Tail && s.ok(); t++ {
			write(0, fmt.Sprintf("k%d", t), "stale")
			s.stabilise(200)
		}
		s.campaign(1)
		ev("CAMPAIGN(n2)")
		s.stabilise(400)
		for k := 0; k < sc.Writes && s.ok(); k++ {
			write(1, fmt.Sprintf("k%d", k), "fresh")
			s.stabilise(400)
		}
		if sc.ReadStale && s.ok() {
			// a client of the old leader, which still believes it leads, reads a key the new leader has
			// overwritten and acknowledged meanwhile: the read may stay unanswered (its proposal dies with
			// the stale tail) but it must not be answered with the old value
			ci := s.addClient(0, [][]string{{"GET", "k0"}})
			s.submit(ci)
			s.clients[ci].mayBeLost = true
			ev("submit(c%d@n1 GET k0)", ci)
			s.stabilise(200)
		}
		delete(s.isolated, 0)
		ev("HEAL")
		s.tick(1) // the new leader's heartbeat reaches the old one
		s.stabilise(600)
	case "slow-commit":
		s.isolated[0] = true
		ev("ISOLATE(n1)")
		ci := s.addClient(0, sc.Prog)
		s.submit(ci)
		ev("submit(c%d@n1 %q)", ci, sc.Prog[0])
		s.stabilise(200)
		s.advanceClock(10 * time.Second)
		ev("CLOCK+10s")
		// the client sends its next command only if the node has answered the first one (an
		// implementation without a time limit leaves it waiting: then there is nothing more to send)
		if s.submit(ci) {
			ev("submit(c%d@n1 %q)", ci, sc.Prog[1])
			s.stabilise(200)
		}
		delete(s.isolated, 0)
		ev("HEAL")
		s.tick(0) // the leader's heartbeat: replication resumes
		s.stabilise(600)
	case "follower-lag":
		s.isolated[2] = true
		ev("ISOLATE(n3)")
		for k := 0; k < sc.Writes && s.ok(); k++ {
			write(k%2, fmt.Sprintf("k%d", k), fmt.Sprintf("v%d", k))
			s.stabilise(400)
		}
		delete(s.isolated, 2)
		ev("HEAL")
		s.tick(0)
		s.stabilise(600)
	case "rconf-malformed":
		write(0, "k0", "before")
		s.stabilise(400)
		ci := s.addClient(sc.AdminAt, [][]string{sc.Args})
		s.submitAdmin(ci)
		ev("RCONF(%q via n%d)", sc.Args, sc.AdminAt+1)
		s.stabilise(600)
		s.takePanics()
		if s.ok() {
			s.electIfNone()
			write(0, "k1", "after")
			s.stabilise(400)
		}
	case "add-node":
		for k := 0; k < sc.When && s.ok(); k++ {
			write(k%3, fmt.Sprintf("k%d", k), "before")
			s.stabilise(400)
		}
		if sc.Start == "before" {
			s.addNode()
			ev("START(n4 --join)")
		}
		ci := s.addClient(sc.AdminAt, [][]string{{"rconf", "add", "4", "http://127.0.0.1:20003"}})
		s.submitAdmin(ci)
		ev("RCONF-ADD(n4 via n%d)", sc.AdminAt+1)
		s.stabilise(600)
		if sc.Start == "after" && s.ok() {
			s.addNode()
			ev("START(n4 --join)")
		}
		for round := 0; round < 3 && s.ok(); round++ {
			if l := s.leader(); l >= 0 {
				s.tick(l) // heartbeat: the leader learns that node 4 answers and replicates to it
				s.stabilise(600)
			}
		}
		for k := 0; k < 2 && s.ok(); k++ {
			write(k, fmt.Sprintf("k%d", k), "after")
			s.stabilise(400)
		}
	case "remove-node":
		for k := 0; k < sc.When && s.ok(); k++ {
			write(k%3, fmt.Sprintf("k%d", k), "before")
			s.stabilise(400)
		}
		word := "rconf"
		if sc.Upper {
			word = "RCONF"
		}
		ci := s.addClient(sc.AdminAt, [][]string{{word, "delete", fmt.Sprint(sc.Remove)}})
		s.submitAdmin(ci)
		ev("RCONF-DELETE(n%d via n%d)", sc.Remove, sc.AdminAt+1)
		s.stabilise(600)
		s.removed[sc.Remove-1] = true
		s.takePanics()
		if s.ok() {
			s.electIfNone()
			// the cluster of the two remaining nodes keeps serving
			for k := 0; k < 2 && s.ok(); k++ {
				at := (sc.Remove + k) % 3 // a node other than the removed one
				if at == sc.Remove-1 {
					at = (at + 1) % 3
				}
				write(at, fmt.Sprintf("k%d", k), "after")
				s.stabilise(400)
			}
		}
	}
	s.takePanics()
	for _, i := range sc.Restart {
		if !s.ok() {
			break
		}
		if s.nodes[i].alive {
			s.killNode(i)
		}
	}
	for _, i := range sc.Restart {
		if !s.ok() {
			break
		}
		s.restartNode(i)
		ev("RESTART(n%d)", i+1)
	}
	if len(sc.Restart) > 0 && s.ok() {
		s.stabilise(600)
		s.electIfNone()
	}
	// let every serving node learn who leads (a proposal made on a follower that knows no leader is
	// dropped by Raft and its client then waits for ever - availability the property does not promise)
	if s.ok() {
		for round := 0; round < 3; round++ {
			if l := s.leader(); l >= 0 {
				s.tick(l)
				s.stabilise(400)
			}
		}
	}
	// final reads on every serving node
	if s.ok() {
		keys := sc.Tail
		if sc.Writes > keys {
			keys = sc.Writes
		}
		if keys < 2 {
			keys = 2
		}
		for ni, n := range s.nodes {
			if !n.alive || s.removed[ni] || n.vn.RN.Status().Lead == 0 {
				continue
			}
			var prog [][]string
			for k := 0; k < keys; k++ {
				prog = append(prog, []string{"GET", fmt.Sprintf("k%d", k)})
			}
			ci := s.addClient(ni, prog)
			for range prog {
				if !s.ok() || !s.submit(ci) {
					break
				}
				s.stabilise(400)
			}
		}
	}
	s.takePanics()
	res.History = s.history()
	// removed nodes take no part in the replica comparison
	for i := range s.removed {
		s.nodes[i].alive = false
	}
	check(s, w, &res)
	// every write acknowledged by the serving cluster must be answered by the final reads: a read
	// left pending on a serving node after stabilisation means the cluster stopped serving
	if len(res.Viol) == 0 {
		for _, c := range s.clients {
			if c.mayBeLost {
				continue // submitted to a node that was cut off: its proposal may die with the stale tail
			}
			for _, o := range c.ops {
				if !o.Done && len(o.Args) > 0 && o.Args[0] == "GET" {
					res.Viol = append(res.Viol, c14Viol{Kind: "unavailable", Cmd: w.Name, Shape: sc.Family, Detail: fmt.Sprintf("script %s, events %v: the read %q on node %d is never answered although a quorum is up; history: %s", w.Name, res.Events, o.Args, c.node+1, res.History)})
					return res
				}
			}
		}
	}
	return res
}

// submitAdmin sends an RCONF command: HandleCluster executes it locally (no proposal), answers at
// once, and the configuration change travels through confChangeC to the proposal goroutine of
// serveChannels, whose part the simulator plays here.
func (s *sim) submitAdmin(ci int) {
	c := s.clients[ci]
	args := c.prog[c.next]
	c.next++
	s.step++
	op := &cop{Client: ci, Args: args, Call: s.step, ID: "admin"}
	c.ops = append(c.ops, op)
	c.conn.Send(encodeCmd(args))
	if args[0] != "rconf" {
		// any other spelling is not recognised by HandleCluster's shortcut: the command is proposed,
		// replicated and executed by the apply loop of every node
		c.next--
		c.ops = c.ops[:len(c.ops)-1]
		s.step--
		s.submitSent(ci)
		return
	}
	raw, v, st := c.conn.TakeReply(60e9)
	if st != "ok" {
		s.takePanics()
		if len(s.panics) == 0 {
			s.failed = fmt.Sprintf("admin command %q got no reply (%s)", args, st)
		}
		return
	}
	s.step++
	op.Done, op.Ret, op.Reply, op.Raw = true, s.step, v, raw
	s.pump(c.node)
}

func encodeCmd(args []string) []byte {
	var b strings.Builder
	fmt.Fprintf(&b, "*%d\r\n", len(args))
	for _, a := range args {
		fmt.Fprintf(&b, "$%d\r\n%s\r\n", len(a), a)
	}
	return []byte(b.String())
}

type scriptTask struct {
	Script script
}

func scriptWorker(tb []byte, progress func()) []byte {
	var t scriptTask
	json.Unmarshal(tb, &t)
	h.Boot(2, 1)
	rt.CurMode = rt.Free
	progress()
	r := runScript(t.Script)
	var res c07Result
	res.Runs = 1
	res.Deviating = 1
	res.Sample = fmt.Sprintf("script %s: events %v", t.Script.name(), r.Events)
	for _, v := range r.Viol {
		v.Program = [][]string{{"script=" + t.Script.name()}}
		res.Viol = append(res.Viol, v)
	}
	b, _ := json.Marshal(res)
	return b
}
