package main

// In-process cluster simulator: N nodes assembled from the real components (HandleCluster,
// RaftProposal encoding, RawNode configured from startRaft's literal, the extracted Ready body
// with the real WAL / snapshotter on a tmpfs directory, the real apply loop) with the network and
// the clock replaced by an explicit message pool and explicit events.

import (
	"context"
	"fmt"
	"os"
	"path/filepath"
	"runtime"
	"strings"
	"sync"
	"time"

	"github.com/innovationb1ue/RedisGO/raftexample"
	"github.com/innovationb1ue/RedisGO/resp"
	"github.com/innovationb1ue/RedisGO/server"
	rt "github.com/innovationb1ue/RedisGO/verifrt"
	"go.etcd.io/etcd/client/pkg/v3/fileutil"
	"go.etcd.io/etcd/client/pkg/v3/types"
	"go.etcd.io/etcd/raft/v3"
	"go.etcd.io/etcd/raft/v3/raftpb"
	"go.etcd.io/etcd/server/v3/etcdserver/api/rafthttp"
	"go.etcd.io/etcd/server/v3/storage/wal"
	"verif/h"
	"verif/model"
)

type crashSentinel struct{ point int }

type node struct {
	id       int
	dir      string
	alive    bool
	mgr      *server.Manager
	rc       *raftexample.RaftNode
	vn       *raftexample.VerifNode
	proposeC chan *raftexample.RaftProposal
	confC    chan raftpb.ConfChangeI
	callback map[string]chan resp.RedisData
	cancel   context.CancelFunc
	ctx      context.Context
	// apply tracking
	mu       sync.Mutex
	cond     *sync.Cond
	inflight int
	sent     int // commits the Ready handler has published (counted by the simulator)
	received int // commits the interposer has taken from commitC
	applied  int // commits applied since start
	stopped  bool
	// proposals pumped at this node, by id -> the client operation waiting for the reply
	errC    chan error
	waiting map[string]*cop
	due     []*cop // operations whose entry has been applied here: their reply is on its way
}

type client struct {
	node      int
	conn      *h.Conn
	prog      [][]string
	next      int // next command to submit
	pending   int // commands submitted and not yet answered
	ops       []*cop
	dead      bool // its node crashed: the connection is gone
	mayBeLost bool // submitted through a node that was isolated at the time (scripts)
}

type cop struct {
	ID     string
	Client int
	Args   []string
	Call   int64
	Ret    int64
	Done   bool
	Reply  model.Val
	Raw    []byte
	GaveUp bool // answered with an error by the node's own timer while uncommitted (clock advance event)
}

type sim struct {
	root    string
	nodes   []*node
	clients []*client
	pool    []raftpb.Message
	step    int64
	trace   []string
	// crash injection inside Ready handling
	syncCount   int
	crashAtSync int // -1: none
	panics      []string
	failed      string
	// network partition: messages from or to an isolated node are lost at delivery time
	isolated map[int]bool
	// durability invariant (shadow restart after a Ready that changed term / vote / log)
	shadow     bool
	shadowRuns int
	shadowViol []string
	lastHS     map[int][2]uint64
	removed    map[int]bool // nodes that left the cluster through a membership change
	promised   map[int][3]uint64
	inShadow   bool
	peers      []string
	// gate: a connection handler (a goroutine with HandleCluster on its stack) is held at its next
	// lock operation until the simulator opens the gate
	gateMu    sync.Mutex
	gateArmed bool
	gateHit   chan struct{}
	gateOpen  chan struct{}
	gateOp    *cop
	heldDue   []*cop   // applied on the client's node while its handler was held at the gate
	replyLost []string // commands that were applied on the client's node and never answered
}

var simSeq int

func newSim(nNodes int, clientSpecs []clientSpec) *sim {
	simSeq++
	root := filepath.Join("/dev/shm", fmt.Sprintf("verif-cluster-%d", os.Getpid()), fmt.Sprint(simSeq))
	os.RemoveAll(root)
	os.MkdirAll(root, 0o750)
	s := &sim{root: root, crashAtSync: -1, isolated: map[int]bool{}, lastHS: map[int][2]uint64{}, removed: map[int]bool{}, shadow: true}
	wal.SegmentSizeBytes = 64 * 1024
	fileutil.VerifSyncHook = func(op string, f *os.File) {
		s.syncCount++
		if s.crashAtSync >= 0 && s.syncCount-1 == s.crashAtSync {
			panic(crashSentinel{s.syncCount - 1})
		}
	}
	rafthttp.VerifSendHook = func(from types.ID, m raftpb.Message) { s.atSend(int(from)-1, m) }
	rt.SetFreeLockHook(func(obj interface{}) { s.atLock() })
	peers := make([]string, nNodes)
	for i := range peers {
		peers[i] = fmt.Sprintf("http://127.0.0.1:%d", 20000+i)
	}
	s.peers = peers
	for i := 0; i < nNodes; i++ {
		n := &node{id: i + 1, dir: filepath.Join(root, fmt.Sprintf("n%d", i+1))}
		n.cond = sync.NewCond(&n.mu)
		s.nodes = append(s.nodes, n)
		s.startNode(n, peers)
	}
	for ci, cs := range clientSpecs {
		c := &client{node: cs.Node, prog: cs.Prog}
		s.clients = append(s.clients, c)
		s.connect(ci)
	}
	return s
}

type clientSpec struct {
	Node int // 0-based
	Prog [][]string
}

func (s *sim) guard(name string, f func()) {
	go func() {
		defer func() {
			if r := recover(); r != nil {
				rt.RecordFreePanic(name, r)
			}
		}()
		f()
	}()
}

// startNode (re)creates the in-memory part of a node from its directory.
func (s *sim) startNode(n *node, peers []string) {
	n.mgr = h.NewManager()
	n.proposeC = make(chan *raftexample.RaftProposal)
	n.confC = make(chan raftpb.ConfChangeI, 16)
	n.callback = map[string]chan resp.RedisData{}
	n.ctx, n.cancel = context.WithCancel(context.Background())
	n.inflight, n.stopped = 0, false
	n.sent, n.received = 0, 0
	n.waiting = map[string]*cop{}
	n.due = nil
	mgr := n.mgr
	rc, commitC, vn, err := raftexample.VerifNewRaftNode(n.id, peers, n.dir, func() ([]byte, error) { return mgr.CurrentDB.GetSnapshot() })
	if err != nil {
		s.failed = fmt.Sprintf("node %d cannot start: %v", n.id, err)
		return
	}
	n.rc, n.vn = rc, vn
	n.mgr.CurrentDB.Raft = rc
	n.alive = true
	applyC := make(chan *raftexample.RaftCommit)
	errC := make(chan error)
	n.errC = errC
	s.guard(fmt.Sprintf("apply-loop-%d", n.id), func() {
		server.VerifHandleClusterCommits(n.ctx, applyC, n.confC, n.mgr, n.callback, errC)
	})
	// interposer: lets the simulator know when everything published has been applied
	ctx := n.ctx
	s.guard(fmt.Sprintf("interposer-%d", n.id), func() {
		for {
			select {
			case c, ok := <-commitC:
				if !ok {
					close(applyC)
					return
				}
				if c == nil {
					applyC <- nil
					continue
				}
				n.mu.Lock()
				n.inflight++
				n.received++
				n.mu.Unlock()
				d := make(chan struct{})
				applyC <- &raftexample.RaftCommit{Data: c.Data, ApplyDoneC: d}
				select {
				case <-d:
				case <-ctx.Done():
					close(applyC)
					return
				}
				if c.ApplyDoneC != nil {
					close(c.ApplyDoneC)
				}
				n.mu.Lock()
				for _, pr := range c.Data {
					if op, ok := n.waiting[pr.ID]; ok {
						// the apply loop has handed the result to this client's connection handler
						delete(n.waiting, pr.ID)
						n.due = append(n.due, op)
					}
				}
				n.inflight--
				n.applied++
				n.cond.Broadcast()
				n.mu.Unlock()
			case <-ctx.Done():
				close(applyC) // lets the apply loop of a killed node finish
				return
			}
		}
	})
}

func (n *node) waitApplied(timeout time.Duration) bool {
	t := time.AfterFunc(timeout, func() { n.mu.Lock(); n.cond.Broadcast(); n.mu.Unlock() })
	defer t.Stop()
	deadline := time.Now().Add(timeout)
	n.mu.Lock()
	defer n.mu.Unlock()
	for n.inflight > 0 || n.received < n.sent {
		if time.Now().After(deadline) {
			return false
		}
		n.cond.Wait()
	}
	return true
}

func (s *sim) connect(ci int) {
	c := s.clients[ci]
	n := s.nodes[c.node]
	c.conn = h.NewConn(fmt.Sprintf("client%d", ci))
	c.dead = !n.alive
	if !n.alive {
		return
	}
	conn := c.conn
	s.guard(fmt.Sprintf("HandleCluster-n%d-c%d", n.id, ci), func() {
		n.mgr.HandleCluster(n.ctx, conn, n.proposeC, n.confC, n.callback, server.VerifClusterFilter())
	})
}

func (s *sim) log(f string, a ...interface{}) { s.trace = append(s.trace, fmt.Sprintf(f, a...)) }

// ------------------------------------------------------------------ events

// processReady handles one Ready of node i with the real Ready body; returns false if nothing to do.
func (s *sim) processReady(i int) bool {
	n := s.nodes[i]
	if !n.alive || !n.vn.RN.HasReady() {
		return false
	}
	rd := n.vn.RN.Ready()
	msgs := rd.Messages
	if os.Getenv("C08_TRACE") != "" {
		first, lastI := uint64(0), uint64(0)
		if len(rd.Entries) > 0 {
			first, lastI = rd.Entries[0].Index, rd.Entries[len(rd.Entries)-1].Index
		}
		fi, _ := n.rc.VerifStorage().FirstIndex()
		li, _ := n.rc.VerifStorage().LastIndex()
		s.log("n%d Ready: hs=%+v snap=%d entries=%d..%d committed=%d msgs=%d storage=%d..%d applied=%d", n.id, rd.HardState, rd.Snapshot.Metadata.Index, first, lastI, len(rd.CommittedEntries), len(rd.Messages), fi, li, n.rc.VerifAppliedIndex())
	}
	// publishEntries sends exactly one commit when some new normal entry carries data
	appliedBefore := n.rc.VerifAppliedIndex()
	for _, e := range rd.CommittedEntries {
		if e.Index > appliedBefore && e.Type == raftpb.EntryNormal && len(e.Data) > 0 {
			n.mu.Lock()
			n.sent++
			n.mu.Unlock()
			break
		}
	}
	crashed := false
	func() {
		defer func() {
			if r := recover(); r != nil {
				if _, ok := r.(crashSentinel); ok {
					crashed = true
					return
				}
				s.panics = append(s.panics, fmt.Sprintf("node %d Ready handling: %v", n.id, r))
				crashed = true
			}
		}()
		if !n.rc.VerifHandleReady(n.vn, rd) {
			n.alive = false
		}
	}()
	if crashed {
		s.crashAtSync = -1
		s.killNode(i)
		s.log("crash(n%d) inside Ready handling", n.id)
		return true
	}
	if !n.waitApplied(60 * time.Second) {
		s.failed = fmt.Sprintf("node %d: apply loop did not finish", n.id)
	}
	if s.shadow && n.alive {
		hs := n.vn.RN.BasicStatus().HardState
		if len(rd.Entries) > 0 || s.lastHS[i] != [2]uint64{hs.Term, hs.Vote} {
			s.lastHS[i] = [2]uint64{hs.Term, hs.Vote}
			s.shadowCheck(i)
		}
	}
	for _, m := range msgs {
		if m.To != 0 {
			s.pool = append(s.pool, m)
		}
	}
	s.collectDue(i)
	return true
}

// pump moves pending proposals of node i into raft (what serveChannels' proposal goroutine does).
func (s *sim) pump(i int) bool {
	n := s.nodes[i]
	if !n.alive {
		return false
	}
	got := false
	for {
		select {
		case p := <-n.proposeC:
			s.notePending(i, p.ID)
			n.vn.RN.Propose(p.ToBytes()) // the error is ignored, as in serveChannels
			got = true
		case cc := <-n.confC:
			// serveChannels: err := rc.Node.ProposeConfChange(...); if err != nil { log.Fatal(...) }
			if err := n.vn.RN.ProposeConfChange(cc); err != nil {
				s.panics = append(s.panics, fmt.Sprintf("node %d: propose conf change err: %v (log.Fatal: the process exits)", n.id, err))
			}
			got = true
		default:
			return got
		}
	}
}

func (s *sim) deliver(idx int) {
	m := s.pool[idx]
	s.pool = append(s.pool[:idx], s.pool[idx+1:]...)
	if s.isolated[int(m.From)-1] || s.isolated[int(m.To)-1] || int(m.To) > len(s.nodes) {
		return // lost
	}
	to := s.nodes[m.To-1]
	if to.alive {
		to.vn.RN.Step(m)
	}
}

func (s *sim) drop(idx int) { s.pool = append(s.pool[:idx], s.pool[idx+1:]...) }

func (s *sim) dup(idx int) { s.pool = append(s.pool, s.pool[idx]) }

// advanceClock moves the virtual clock (timers of the instrumented packages fire) and collects what
// the connection handlers then tell their clients without a commit: an error reply to a command that
// is still uncommitted ends the wait of that client ("gave up"); the entry may still commit later.
func (s *sim) advanceClock(d time.Duration) {
	rt.CurWorld().Advance(int64(d))
	time.Sleep(2 * time.Millisecond) // the handlers' goroutines are free-running: let them react
	// a handler may also hand a proposal to the node on its own timer (serveChannels proposes whatever
	// arrives on proposeC, whenever it arrives)
	reproposed := false
	deadlineP := time.Now().Add(300 * time.Millisecond)
	for {
		got := false
		for _, n := range s.nodes {
			if !n.alive {
				continue
			}
			select {
			case p := <-n.proposeC:
				n.vn.RN.Propose(p.ToBytes())
				s.log("node %d: proposal %s handed over on a timer", n.id, p.ID)
				got, reproposed = true, true
			default:
			}
		}
		if !got && (reproposed || time.Now().After(deadlineP)) {
			break
		}
		if !got {
			time.Sleep(500 * time.Microsecond)
		}
	}
	for _, c := range s.clients {
		if c.pending == 0 || c.dead || len(c.ops) == 0 {
			continue
		}
		op := c.ops[len(c.ops)-1]
		if op.Done {
			continue
		}
		deadline := time.Now().Add(300 * time.Millisecond)
		for len(c.conn.Output()) == 0 && time.Now().Before(deadline) {
			time.Sleep(200 * time.Microsecond)
		}
		if len(c.conn.Output()) == 0 {
			continue
		}
		raw, v, st := c.conn.TakeReply(60 * time.Second)
		if st != "ok" {
			continue
		}
		s.step++
		op.Done, op.Ret, op.Reply, op.Raw = true, s.step, v, raw
		if v.K == model.Error {
			op.GaveUp = true
		}
		c.pending--
		n := s.nodes[c.node]
		n.mu.Lock()
		delete(n.waiting, op.ID)
		n.mu.Unlock()
	}
}

func (s *sim) campaign(i int) {
	if s.nodes[i].alive {
		s.nodes[i].vn.RN.Campaign()
	}
}

func (s *sim) tick(i int) {
	if s.nodes[i].alive {
		s.nodes[i].vn.RN.Tick()
	}
}

// killNode drops the in-memory part of a node (kill -9): files stay as they are.
func (s *sim) killNode(i int) {
	n := s.nodes[i]
	n.alive = false
	n.cancel()
	if n.errC != nil {
		close(n.errC)
		n.errC = nil
	}
	if n.mgr != nil && n.mgr.CurrentDB != nil {
		n.mgr.CurrentDB.Raft = nil
	}
	n.rc.VerifCloseWAL() // releases the file locks held by this process; a dead process holds none
	// in-flight messages from/to it stay in the network; its clients lose their connection
	for _, c := range s.clients {
		if c.node == i {
			c.dead = true
			c.conn.EOF()
		}
	}
}

func (s *sim) restartNode(i int) {
	n := s.nodes[i]
	peers := make([]string, len(s.nodes))
	for j := range peers {
		peers[j] = fmt.Sprintf("http://127.0.0.1:%d", 20000+j)
	}
	s.startNode(n, peers)
	for ci, c := range s.clients {
		if c.node == i {
			s.connect(ci)
		}
	}
}

// submit writes the next command of client ci to its connection and waits until the node has
// turned it into a proposal (or answered it directly).
func (s *sim) submit(ci int) bool {
	c := s.clients[ci]
	if c.next >= len(c.prog) || c.dead || c.pending > 0 {
		return false
	}
	args := c.prog[c.next]
	c.next++
	c.pending++
	s.step++
	op := &cop{Client: ci, Args: args, Call: s.step}
	c.ops = append(c.ops, op)
	// the configuration is one per process; the nodes of the simulator share it.  While a node's
	// connection handler turns a command into a proposal (the only node-side code running now) the
	// node id it sees is that node's, as in a real deployment.
	if h.Cfg != nil {
		h.Cfg.NodeID = s.nodes[c.node].id
	}
	c.conn.Send(model.EncodeCommand(h.B(args...)))
	s.awaitProposal(ci, op)
	return true
}

// submitSent registers the next command of client ci, whose bytes the caller has already written.
func (s *sim) submitSent(ci int) {
	c := s.clients[ci]
	args := c.prog[c.next]
	c.next++
	c.pending++
	s.step++
	op := &cop{Client: ci, Args: args, Call: s.step}
	c.ops = append(c.ops, op)
	s.awaitProposal(ci, op)
}

// atLock runs in whatever goroutine is about to lock a mutex of the instrumented packages.
func (s *sim) atLock() {
	s.gateMu.Lock()
	if !s.gateArmed {
		s.gateMu.Unlock()
		return
	}
	pcs := make([]uintptr, 32)
	n := runtime.Callers(2, pcs)
	frames := runtime.CallersFrames(pcs[:n])
	handler := false
	for {
		f, more := frames.Next()
		if strings.HasSuffix(f.Function, ".HandleCluster") {
			handler = true
		}
		if !more {
			break
		}
	}
	if !handler {
		s.gateMu.Unlock()
		return
	}
	s.gateArmed = false
	hit, open := s.gateHit, s.gateOpen
	s.gateMu.Unlock()
	close(hit)
	<-open
}

// armGate: the next lock operation of a connection handler blocks until openGate.
func (s *sim) armGate() {
	s.gateMu.Lock()
	s.gateArmed = true
	s.gateHit = make(chan struct{})
	s.gateOpen = make(chan struct{})
	s.gateMu.Unlock()
}

// openGate lets a held handler go on (and disarms a gate nobody reached).
func (s *sim) openGate() {
	s.gateMu.Lock()
	s.gateArmed = false
	open := s.gateOpen
	s.gateOpen = nil
	s.gateMu.Unlock()
	if open != nil {
		close(open)
	}
}

// finishGate opens the gate and collects the replies of commands that were applied while their
// handler was held: the handler goes on, and a command that has been applied on the client's own
// node must now be answered - "each client receives the reply to its own command".
func (s *sim) finishGate() {
	if s.gateOp == nil {
		s.openGate()
		return
	}
	s.openGate()
	for _, op := range s.heldDue {
		c := s.clients[op.Client]
		raw, v, st := c.conn.TakeReply(h.Patience)
		if st != "ok" {
			s.replyLost = append(s.replyLost, fmt.Sprintf("client %d: %q was committed and applied on its node while its connection handler was held at a lock right after handing over the proposal; the handler went on, but no reply ever arrived (%s)", op.Client, op.Args, st))
			continue
		}
		s.step++
		op.Done, op.Ret, op.Reply, op.Raw = true, s.step, v, raw
		c.pending--
	}
	s.heldDue = nil
	s.gateOp = nil
}

// submitStalled is submit with the client's connection handler held at its next lock operation: if the
// handler reaches a lock before it has handed its proposal to the node, the stall changes nothing and
// the gate is opened at once; if the proposal comes first, the handler stays held (the caller opens the
// gate later) while the proposal is committed and applied.
func (s *sim) submitStalled(ci int) bool {
	c := s.clients[ci]
	if c.next >= len(c.prog) || c.dead || c.pending > 0 {
		return false
	}
	s.armGate()
	ok := s.submit(ci) // awaitProposal opens the gate if the handler reaches a lock before it proposes
	if !ok || len(c.ops) == 0 || c.ops[len(c.ops)-1].Done || c.ops[len(c.ops)-1].ID == "?" {
		s.openGate() // nothing was proposed: nothing to hold
		return ok
	}
	s.gateOp = c.ops[len(c.ops)-1] // proposed: a handler that reaches the gate now stays held
	return ok
}

func (s *sim) awaitProposal(ci int, op *cop) bool {
	c := s.clients[ci]
	args := op.Args
	n := s.nodes[c.node]
	op.ID = "?"
	deadline := time.Now().Add(60 * time.Second)
	s.gateMu.Lock()
	hit := s.gateHit
	if !s.gateArmed {
		hit = nil
	}
	s.gateMu.Unlock()
	for {
		select {
		case <-hit:
			// the handler reached a lock before handing over its proposal: holding it there would only
			// delay the command - let it go on
			hit = nil
			s.openGate()
		case p := <-n.proposeC:
			op.ID = p.ID
			n.mu.Lock()
			n.waiting[p.ID] = op
			n.mu.Unlock()
			n.vn.RN.Propose(p.ToBytes()) // the error is ignored, as in serveChannels
			return true
		case <-time.After(200 * time.Microsecond):
			if len(c.conn.Output()) > 0 {
				// answered by the node itself, without a proposal (a rejected command - or an
				// implementation that serves some commands locally): the reply is part of the history
				raw, v, st := c.conn.TakeReply(60 * time.Second)
				if st == "ok" {
					s.step++
					op.ID = "local"
					op.Done, op.Ret, op.Reply, op.Raw = true, s.step, v, raw
					c.pending--
					return true
				}
			}
			if time.Now().After(deadline) {
				s.failed = fmt.Sprintf("client %d: command %q was never turned into a proposal", ci, args)
				return true
			}
		}
	}
}

// notePending attaches a proposal pumped outside submit to the oldest unanswered operation of
// a client of that node (cannot happen with the one-command-at-a-time clients used here).
func (s *sim) notePending(i int, id string) {}

// collectDue takes the replies that are certainly on their way (entry applied on the client's node).
func (s *sim) collectDue(i int) {
	n := s.nodes[i]
	n.mu.Lock()
	due := n.due
	n.due = nil
	n.mu.Unlock()
	for _, op := range due {
		c := s.clients[op.Client]
		s.gateMu.Lock()
		held := s.gateOp == op && s.gateOpen != nil
		s.gateMu.Unlock()
		if held {
			s.heldDue = append(s.heldDue, op) // its handler cannot write before the gate is opened
			continue
		}
		raw, v, st := c.conn.TakeReply(60 * time.Second)
		if st != "ok" {
			// "each client receives the reply to its own command"
			s.replyLost = append(s.replyLost, fmt.Sprintf("client %d: the entry of %q was applied on its node but no reply arrived (%s)", op.Client, op.Args, st))
			continue
		}
		s.step++
		op.Done, op.Ret, op.Reply, op.Raw = true, s.step, v, raw
		c.pending--
	}
}

// collectReplies: replies are collected deterministically by collectDue.
func (s *sim) collectReplies() {}

func (s *sim) anyReady() int {
	for i, n := range s.nodes {
		if n.alive && n.vn.RN.HasReady() {
			return i
		}
	}
	return -1
}

// stabilise runs the default continuation until quiescence: process every Ready, deliver every
// pooled message FIFO, pump proposals.
func (s *sim) stabilise(maxEvents int) {
	for k := 0; k < maxEvents && s.failed == ""; k++ {
		progressed := false
		for i := range s.nodes {
			if s.pump(i) {
				progressed = true
			}
		}
		if i := s.anyReady(); i >= 0 {
			s.processReady(i)
			continue
		}
		if len(s.pool) > 0 {
			s.deliver(0)
			continue
		}
		if !progressed {
			break
		}
	}
	s.waitReplies()
}

func (s *sim) waitReplies() {}

func (s *sim) leader() int {
	for i, n := range s.nodes {
		if n.alive && n.vn.RN.Status().RaftState == raft.StateLeader {
			return i
		}
	}
	return -1
}

func (s *sim) close() {
	for _, c := range s.clients {
		c.conn.EOF()
	}
	for i, n := range s.nodes {
		if n.alive {
			s.killNode(i)
		}
	}
	s.openGate()
	rt.SetFreeLockHook(nil)
	fileutil.VerifSyncHook = nil
	rafthttp.VerifSendHook = nil
	os.RemoveAll(s.root)
	// connection handlers blocked on a reply that will never come keep their closure alive for
	// ever (by design of the code under test): drop what they reference so that it can be collected
	for _, n := range s.nodes {
		n.mu.Lock()
		n.rc, n.vn, n.mgr, n.callback, n.due = nil, nil, nil, nil, nil
		n.waiting = map[string]*cop{}
		n.mu.Unlock()
	}
	s.pool = nil
	if ps := rt.TakeFreePanics(); len(ps) > 0 {
		for _, p := range ps {
			s.panics = append(s.panics, fmt.Sprintf("%s: %s in %s", p.Thread, p.Value, p.Func))
		}
	}
}

func (s *sim) takePanics() {
	if ps := rt.TakeFreePanics(); len(ps) > 0 {
		for _, p := range ps {
			s.panics = append(s.panics, fmt.Sprintf("%s: %s in %s", p.Thread, p.Value, p.Func))
		}
	}
}

func (s *sim) history() string {
	var parts []string
	for _, c := range s.clients {
		for _, o := range c.ops {
			r := "pending"
			if o.Done {
				r = o.Reply.String()
			}
			parts = append(parts, fmt.Sprintf("c%d@n%d[%d,%d] %q -> %s", o.Client, c.node+1, o.Call, o.Ret, o.Args, r))
		}
	}
	return strings.Join(parts, " ; ")
}

// bootstrap elects node 1 and brings the cluster to quiescence.
func (s *sim) bootstrap() {
	s.stabilise(200)
	s.campaign(0)
	s.stabilise(400)
}

// shadowCheck: the messages of the Ready just handled are about to leave the node, so everything
// they promise must already be recoverable.  A copy of the node's directory is restarted through
// the real recovery path (replayWAL); the recovered term, vote and log must equal the live ones.
// (Files keep everything written: this is the process-crash model of C07/C08, not sector loss.)
func (s *sim) shadowCheck(i int) {
	n := s.nodes[i]
	s.shadowRuns++
	sh := n.dir + ".shadow"
	os.RemoveAll(sh)
	defer os.RemoveAll(sh)
	if err := copyTree(n.dir, sh); err != nil {
		s.failed = "shadow copy: " + err.Error()
		return
	}
	hook := fileutil.VerifSyncHook
	fileutil.VerifSyncHook = nil // the shadow restart is not part of the run: its syncs are no crash points
	defer func() { fileutil.VerifSyncHook = hook }()
	var rc2 *raftexample.RaftNode
	var err error
	func() {
		defer func() {
			if r := recover(); r != nil {
				err = fmt.Errorf("recovery panics: %v", r)
			}
		}()
		rc2, _, _, err = raftexample.VerifNewRaftNode(n.id, s.peers, sh, func() ([]byte, error) { return nil, nil })
	}()
	if err != nil {
		s.shadowViol = append(s.shadowViol, fmt.Sprintf("node %d: what is on disk after a Ready was handled cannot be restarted: %v", n.id, err))
		return
	}
	defer rc2.VerifCloseWAL()
	live := n.vn.RN.BasicStatus().HardState
	got, _, _ := rc2.VerifStorage().InitialState()
	if got.Term != live.Term || got.Vote != live.Vote {
		s.shadowViol = append(s.shadowViol, fmt.Sprintf("node %d sends messages at term %d vote %d, but a restart from its files recovers term %d vote %d (term and vote must be durable before a message leaves the node)", n.id, live.Term, live.Vote, got.Term, got.Vote))
		return
	}
	ls, ds := n.rc.VerifStorage(), rc2.VerifStorage()
	ll, _ := ls.LastIndex()
	dl, _ := ds.LastIndex()
	lf, _ := ls.FirstIndex()
	df, _ := ds.FirstIndex()
	if ll != dl {
		s.shadowViol = append(s.shadowViol, fmt.Sprintf("node %d: the log in memory ends at index %d, the log recovered from its files at %d", n.id, ll, dl))
		return
	}
	lo := lf
	if df > lo {
		lo = df
	}
	if lo <= ll {
		le, err1 := ls.Entries(lo, ll+1, 1<<30)
		de, err2 := ds.Entries(lo, ll+1, 1<<30)
		if err1 != nil || err2 != nil || len(le) != len(de) {
			s.shadowViol = append(s.shadowViol, fmt.Sprintf("node %d: entries %d..%d cannot be compared (%v / %v, %d vs %d)", n.id, lo, ll, err1, err2, len(le), len(de)))
			return
		}
		for k := range le {
			if le[k].Term != de[k].Term || le[k].Index != de[k].Index || string(le[k].Data) != string(de[k].Data) {
				s.shadowViol = append(s.shadowViol, fmt.Sprintf("node %d: entry %d is (term %d, %q) in memory but (term %d, %q) after a restart from its files", n.id, le[k].Index, le[k].Term, le[k].Data, de[k].Term, de[k].Data))
				return
			}
		}
	}
}

func copyTree(src, dst string) error {
	return filepath.Walk(src, func(p string, info os.FileInfo, err error) error {
		if err != nil {
			return err
		}
		rel, _ := filepath.Rel(src, p)
		t := filepath.Join(dst, rel)
		if info.IsDir() {
			return os.MkdirAll(t, 0o750)
		}
		if !info.Mode().IsRegular() {
			return nil
		}
		b, err := os.ReadFile(p)
		if err != nil {
			return err
		}
		return os.WriteFile(t, b, 0o600)
	})
}

// addNode starts a fresh node (id = len(nodes)+1) the way `--join` does: no bootstrap peers, the
// configured peer list includes itself.  The cluster must have committed the matching rconf add.
func (s *sim) addNode() int {
	id := len(s.nodes) + 1
	s.peers = append(s.peers, fmt.Sprintf("http://127.0.0.1:%d", 20000+id-1))
	n := &node{id: id, dir: filepath.Join(s.root, fmt.Sprintf("n%d", id))}
	n.cond = sync.NewCond(&n.mu)
	s.nodes = append(s.nodes, n)
	raftexample.VerifJoin = true
	s.startNode(n, s.peers)
	raftexample.VerifJoin = false
	return id - 1
}

// atSend runs when the Ready handler of node i hands m to the transport.  A response is a promise:
// an accepting MsgAppResp says "my log holds everything up to Index", a granted MsgVoteResp says
// "my vote of this term is yours", any response says "I am at this term" - and a promise must be
// recoverable from the node's files before it leaves the node (the leader's own MsgApp may, as
// raft/doc.go allows, go out while its entries are still being written).  Checked by restarting a
// copy of the directory through the real recovery path, once per new (term, vote, index) promise.
func (s *sim) atSend(i int, m raftpb.Message) {
	if !s.shadow || i < 0 || i >= len(s.nodes) || s.inShadow {
		return
	}
	var needIndex uint64
	needVote := false
	switch m.Type {
	case raftpb.MsgAppResp:
		if m.Reject {
			return
		}
		needIndex = m.Index
	case raftpb.MsgVoteResp:
		if m.Reject {
			return
		}
		needVote = true
	default:
		return
	}
	key := [3]uint64{m.Term, 0, needIndex}
	if needVote {
		key[1] = m.To
	}
	if s.promised == nil {
		s.promised = map[int][3]uint64{}
	}
	if p, ok := s.promised[i]; ok && p[0] == key[0] && p[1] >= key[1] && p[2] >= key[2] && !needVote {
		return
	}
	s.promised[i] = key
	n := s.nodes[i]
	s.shadowRuns++
	s.inShadow = true
	defer func() { s.inShadow = false }()
	sh := n.dir + ".shadow"
	os.RemoveAll(sh)
	defer os.RemoveAll(sh)
	if err := copyTree(n.dir, sh); err != nil {
		s.failed = "shadow copy: " + err.Error()
		return
	}
	hook := fileutil.VerifSyncHook
	fileutil.VerifSyncHook = nil
	defer func() { fileutil.VerifSyncHook = hook }()
	var rc2 *raftexample.RaftNode
	var err error
	func() {
		defer func() {
			if r := recover(); r != nil {
				err = fmt.Errorf("recovery panics: %v", r)
			}
		}()
		rc2, _, _, err = raftexample.VerifNewRaftNode(n.id, s.peers, sh, func() ([]byte, error) { return nil, nil })
	}()
	if err != nil {
		// a torn write in progress may legitimately need repair; what matters is what a restart recovers
		return
	}
	defer rc2.VerifCloseWAL()
	hs, _, _ := rc2.VerifStorage().InitialState()
	last, _ := rc2.VerifStorage().LastIndex()
	what := fmt.Sprintf("node %d hands %s(term %d, index %d, to n%d) to the transport", n.id, m.Type, m.Term, m.Index, m.To)
	if hs.Term < m.Term {
		s.shadowViol = append(s.shadowViol, fmt.Sprintf("%s while a restart from its files recovers term %d: the response leaves before the term is durable", what, hs.Term))
		return
	}
	if needVote && (hs.Term != m.Term || hs.Vote != m.To) {
		s.shadowViol = append(s.shadowViol, fmt.Sprintf("%s while a restart from its files recovers term %d vote %d: the vote leaves before it is durable", what, hs.Term, hs.Vote))
		return
	}
	if needIndex > 0 && last < needIndex {
		if os.Getenv("C08_TRACE") != "" {
			var files []string
			filepath.Walk(n.dir, func(p string, info os.FileInfo, err error) error {
				if err == nil && !info.IsDir() {
					files = append(files, fmt.Sprintf("%s(%d)", strings.TrimPrefix(p, n.dir), info.Size()))
				}
				return nil
			})
			fi, _ := rc2.VerifStorage().FirstIndex()
			snap, _ := rc2.VerifStorage().Snapshot()
			s.log("shadow of n%d: files %v; recovered storage %d..%d snapshot %d hs %+v", n.id, files, fi, last, snap.Metadata.Index, hs)
		}
		s.shadowViol = append(s.shadowViol, fmt.Sprintf("%s while a restart from its files recovers a log ending at index %d: the acknowledgement leaves before the entries are durable (the leader will commit and answer the client on it)", what, last))
	}
}
